import EinxModel.Proofs.NotationSim
/-!
# M1 Notation — token lists → token trees under insertion of one redundant space (`tree_insert`)

The delimiter stack `buildTree` is rewritten as a fold of a one-token transition `step` over a state
(`frames`, `base`) followed by `finishSt` (`buildTree_eq_full`; the fold is `full`).  Two state relations:
* `SSim`: pure similarity (all levels `TSimL`);
* `SIns`: exactly one level (a frame's items or `base`) is *marked*: its items are related by `Mk`
  (additional leading space, or `InsT`), all others by `TSimL`.
Both are preserved by `step` on `TokRel`-related tokens (`step_sim`, `step_ins`).
Auxiliary definitions and lemmas live in the sub-namespace `Einx.Notation.TreeIns`; only `tree_insert` is in `Einx.Notation`.
-/

namespace Einx.Notation
namespace TreeIns

/-! ### `Forall2` -/

theorem forall2_append {α β : Type} {R : α → β → Prop} {A A' B B'} (hA : Forall2 R A A') (hB : Forall2 R B B') :
    Forall2 R (A ++ B) (A' ++ B') := by
  induction hA with
  | nil => exact hB
  | cons h _ ih => exact Forall2.cons h ih

/-- Split off the last element on both sides. -/
theorem forall2_snoc_left {α β : Type} {R : α → β → Prop} {A0 : List α} {a : α} {A' : List β}
    (h : Forall2 R (A0 ++ [a]) A') : ∃ A0' a', A' = A0' ++ [a'] ∧ Forall2 R A0 A0' ∧ R a a' := by
  induction A0 generalizing A' with
  | nil =>
    cases h with
    | cons h1 h2 => cases h2; exact ⟨[], _, rfl, .nil, h1⟩
  | cons x xs ih =>
    cases h with
    | cons h1 h2 =>
      obtain ⟨A0', a', rfl, h3, h4⟩ := ih h2
      exact ⟨_ :: A0', a', rfl, .cons h1 h3, h4⟩

/-! ### `dedupSpaces` -/

theorem tokRel_isSpace {φ : Nat → Nat} {t t' : Token} (h : TokRel φ t t') : t'.isSpace = t.isSpace := by
  simp only [Token.isSpace, h.1]

/-- The "last token was a space" flag after the tokens `X`. -/
def flagAfter : List Token → Bool → Bool
  | [], f => f
  | t :: ts, _ => flagAfter ts t.isSpace

theorem flagAfter_snoc (X : List Token) (a : Token) (f : Bool) : flagAfter (X ++ [a]) f = a.isSpace := by
  induction X generalizing f with
  | nil => rfl
  | cons x xs ih => simp only [List.cons_append, flagAfter]; exact ih _

theorem flagAfter_rel {φ : Nat → Nat} {X X' : List Token} (h : Forall2 (TokRel φ) X X') (f : Bool) :
    flagAfter X' f = flagAfter X f := by
  induction h generalizing f with
  | nil => rfl
  | cons h _ ih => simp only [flagAfter, (tokRel_isSpace h)]; exact ih _

theorem dedup_append (X Y : List Token) (f : Bool) :
    dedupSpaces (X ++ Y) f = dedupSpaces X f ++ dedupSpaces Y (flagAfter X f) := by
  induction X generalizing f with
  | nil => rfl
  | cons x xs ih =>
    simp only [List.cons_append, dedupSpaces, flagAfter]
    split
    · split
      · rw [ih true]; simp [*]
      · rw [ih true]; simp [*]
    · rw [ih false]; simp [*]

theorem dedup_rel {φ : Nat → Nat} {X X' : List Token} (h : Forall2 (TokRel φ) X X') (f : Bool) :
    Forall2 (TokRel φ) (dedupSpaces X f) (dedupSpaces X' f) := by
  induction h generalizing f with
  | nil => exact .nil
  | cons h _ ih =>
    simp only [dedupSpaces, (tokRel_isSpace h)]
    split
    · split
      · exact ih true
      · exact .cons h (ih true)
    · exact .cons h (ih false)

/-- The flag is irrelevant when the list does not start with a space. -/
theorem dedup_flag (Y : List Token) (h : ∀ b, Y.head? = some b → b.isSpace = false) :
    dedupSpaces Y true = dedupSpaces Y false := by
  cases Y with
  | nil => rfl
  | cons b bs => simp [dedupSpaces, h b rfl]

theorem dedup_cons_nonspace (b : Token) (bs : List Token) (f : Bool) (h : b.isSpace = false) :
    dedupSpaces (b :: bs) f = b :: dedupSpaces bs false := by
  simp [dedupSpaces, h]

theorem dedup_snoc_nonspace (X : List Token) (a : Token) (f : Bool) (h : a.isSpace = false) :
    dedupSpaces (X ++ [a]) f = dedupSpaces X f ++ [a] := by
  rw [dedup_append]; simp [dedupSpaces, h]

theorem isSpace_of_text {t : Token} (h : t.text = spaceLit) : t.isSpace = true := by
  simp [Token.isSpace, h]

theorem not_isSpace_of_text {t : Token} (h : t.text ≠ spaceLit) : t.isSpace = false := by
  simp [Token.isSpace, h]

/-! ### `TSimL`, `InsT` algebra -/

theorem tokRel_tsim {φ : Nat → Nat} {t t' : Token} (h : TokRel φ t t') : TSim φ (.atom t) (.atom t') :=
  TSim.atom h.1 h.2

theorem tsimL_append {φ : Nat → Nat} : ∀ {X X' Y Y' : List Tok}, TSimL φ X X' → TSimL φ Y Y' → TSimL φ (X ++ Y) (X' ++ Y')
  | [], _, _, _, h, hY => by cases h; exact hY
  | _ :: _, _, _, _, h, hY => by
    cases h with
    | cons h1 h2 => exact TSimL.cons h1 (tsimL_append h2 hY)

theorem tsimL_single {φ : Nat → Nat} {x x' : Tok} (h : TSim φ x x') : TSimL φ [x] [x'] := TSimL.cons h TSimL.nil

theorem tsimL_snoc {φ : Nat → Nat} {X X' : List Tok} {x x' : Tok} (h : TSimL φ X X') (hx : TSim φ x x') :
    TSimL φ (X ++ [x]) (X' ++ [x']) := tsimL_append h (tsimL_single hx)

theorem insT_append_right {φ : Nat → Nat} : ∀ {X X' Y Y' : List Tok}, InsT φ X X' → TSimL φ Y Y' → InsT φ (X ++ Y) (X' ++ Y')
  | [], _, _, _, h, _ => by cases h
  | _ :: _, _, _, _, h, hY => by
    cases h with
    | afterOp h1 h2 h3 h4 => exact InsT.afterOp h1 h2 h3 (tsimL_append h4 hY)
    | beforeOp h1 h2 h3 h4 => exact InsT.beforeOp h1 h2 h3 (tsimL_append h4 hY)
    | inside h1 h2 h3 => exact InsT.inside h1 h2 (tsimL_append h3 hY)
    | cons h1 h2 => exact InsT.cons h1 (insT_append_right h2 hY)

theorem insT_append_left {φ : Nat → Nat} : ∀ {P P' X X' : List Tok}, TSimL φ P P' → InsT φ X X' → InsT φ (P ++ X) (P' ++ X')
  | [], _, _, _, h, hX => by cases h; exact hX
  | _ :: _, _, _, _, h, hX => by
    cases h with
    | cons h1 h2 => exact InsT.cons h1 (insT_append_left h2 hX)

/-- Relation of the items of the *marked* level: one additional leading space, or `InsT`.  Stable under appending
    related items; yields `Ins` when the level is closed. -/
def Mk (φ : Nat → Nat) (X X' : List Tok) : Prop :=
  (∃ sp Y', sp.isSpace = true ∧ X' = sp :: Y' ∧ TSimL φ X Y') ∨ InsT φ X X'

theorem mk_snoc {φ : Nat → Nat} {X X' : List Tok} {x x' : Tok} (h : Mk φ X X') (hx : TSim φ x x') :
    Mk φ (X ++ [x]) (X' ++ [x']) := by
  rcases h with ⟨sp, Y', hsp, rfl, hY⟩ | h
  · exact Or.inl ⟨sp, Y' ++ [x'], hsp, rfl, tsimL_snoc hY hx⟩
  · exact Or.inr (insT_append_right h (tsimL_single hx))

theorem mk_ins {φ : Nat → Nat} {X X' : List Tok} (h : Mk φ X X') : Ins φ X X' := by
  rcases h with ⟨sp, Y', hsp, rfl, hY⟩ | h
  · exact Ins.lead hsp hY
  · exact Ins.tight h

theorem mk_group {φ : Nat → Nat} {P P' inner inner' : List Tok} {o c o' c' : Token} (hP : TSimL φ P P')
    (ho : o'.text = o.text) (hI : Ins φ inner inner') :
    Mk φ (P ++ [.group o c inner]) (P' ++ [.group o' c' inner']) :=
  Or.inr (insT_append_left hP (InsT.inside ho hI TSimL.nil))

theorem mk_afterOp {φ : Nat → Nat} {P P' : List Tok} {a a' sp : Tok} (hP : TSimL φ P P')
    (ha : TSim φ a a') (hop : a.isOp3 = true) (hsp : sp.isSpace = true) :
    Mk φ (P ++ [a]) (P' ++ [a', sp]) :=
  Or.inr (insT_append_left hP (InsT.afterOp ha hop hsp TSimL.nil))

theorem mk_beforeOp {φ : Nat → Nat} {P P' : List Tok} {a a' sp : Tok} (hP : TSimL φ P P')
    (ha : TSim φ a a') (hop : a.isOp3 = true) (hsp : sp.isSpace = true) :
    Mk φ (P ++ [a]) (P' ++ [sp, a']) :=
  Or.inr (insT_append_left hP (InsT.beforeOp hsp ha hop TSimL.nil))

/-! ### `buildTree` as a fold of one-token transitions -/

abbrev Frame := Token × List Tok
/-- Stack state: `frames` (innermost first) and `base`. -/
abbrev St := List Frame × List Tok

/-- Append items to the innermost open level. -/
def appTop (xs : List Tok) : St → St
  | ([], base) => ([], base ++ xs)
  | ((o, items) :: rest, base) => ((o, items ++ xs) :: rest, base)

def closeErr (t : Token) : Err := .syntax .closingNotOpened (posRange (Int.ofNat t.b) (Int.ofNat t.e)) []

/-- One token of the delimiter stack. -/
def step (t : Token) (s : St) : Res St :=
  if delimsFront.contains t.text then .ok ((t, []) :: s.1, s.2)
  else if delimsBack.contains t.text then
    match s.1 with
    | [] => .error (closeErr t)
    | (o, items) :: rest =>
      if closingOf o.text != some t.text then .error (closeErr t)
      else .ok (appTop [.group o t items] (rest, s.2))
  else .ok (appTop [.atom t] s)

/-- End of input. -/
def finishSt : St → Res (List Tok)
  | ([], base) => .ok base
  | ((o, _) :: _, _) => .error (.syntax .openingNotClosed (posRange (Int.ofNat o.b) (Int.ofNat o.e)) [])

/-- Error propagation. -/
def andThen (x : Res St) (k : St → Res (List Tok)) : Res (List Tok) :=
  match x with
  | .error e => .error e
  | .ok a => k a

def full : List Token → St → Res (List Tok)
  | [], s => finishSt s
  | t :: ts, s => andThen (step t s) (full ts)

theorem buildTree_eq_full : ∀ (ts : List Token) (frames : List Frame) (base : List Tok),
    buildTree ts frames base = full ts (frames, base) := by
  intro ts
  induction ts with
  | nil =>
    intro frames base
    cases frames with
    | nil => rfl
    | cons f fs => obtain ⟨o, items⟩ := f; rfl
  | cons t ts ih =>
    intro frames base
    simp only [buildTree, full, step, andThen]
    split
    · exact ih _ _
    · split
      · cases frames with
        | nil => rfl
        | cons f fs =>
          obtain ⟨o, items⟩ := f
          simp only
          split
          · rfl
          · cases fs with
            | nil => exact ih _ _
            | cons f2 fs2 => obtain ⟨o2, items2⟩ := f2; exact ih _ _
      · cases frames with
        | nil => exact ih _ _
        | cons f fs => obtain ⟨o, items⟩ := f; exact ih _ _

/-! ### State relations -/

/-- Related open frames: opening tokens with equal text, similar items. -/
def FrSim (φ : Nat → Nat) (f f' : Frame) : Prop := f'.1.text = f.1.text ∧ TSimL φ f.2 f'.2

/-- Pure similarity of stack states. -/
def SSim (φ : Nat → Nat) (s s' : St) : Prop := Forall2 (FrSim φ) s.1 s'.1 ∧ TSimL φ s.2 s'.2

/-- Stack states with exactly one marked level (`Mk`); all other levels are similar. -/
inductive SIns (φ : Nat → Nat) : St → St → Prop
  | base {b b' : List Tok} : Mk φ b b' → SIns φ ([], b) ([], b')
  | here {o o' : Token} {items items' : List Tok} {rest rest' : List Frame} {base base' : List Tok} :
      o'.text = o.text → Mk φ items items' → Forall2 (FrSim φ) rest rest' → TSimL φ base base' →
      SIns φ ((o, items) :: rest, base) ((o', items') :: rest', base')
  | deeper {f f' : Frame} {rest rest' : List Frame} {base base' : List Tok} :
      FrSim φ f f' → SIns φ (rest, base) (rest', base') → SIns φ (f :: rest, base) (f' :: rest', base')

/-- Both errors of the same kind, or both values related. -/
def RelRes {α : Type} (R : α → α → Prop) : Res α → Res α → Prop
  | .ok a, .ok a' => R a a'
  | .error e, .error e' => ErrSim e e'
  | _, _ => False

theorem closeErr_sim (t t' : Token) : ErrSim (closeErr t) (closeErr t') := by simp [closeErr, ErrSim]

theorem ssim_appTop {φ : Nat → Nat} {s s' : St} {e e' : List Tok} (h : SSim φ s s') (he : TSimL φ e e') :
    SSim φ (appTop e s) (appTop e' s') := by
  obtain ⟨fr, base⟩ := s
  obtain ⟨fr', base'⟩ := s'
  obtain ⟨hf, hb⟩ := h
  cases hf with
  | nil => exact ⟨.nil, tsimL_append hb he⟩
  | cons h1 h2 => exact ⟨.cons ⟨h1.1, tsimL_append h1.2 he⟩ h2, hb⟩

/-- Appending `Mk`-extending items to the innermost level of similar states marks that level. -/
theorem ssim_to_sins {φ : Nat → Nat} {s s' : St} {e e' : List Tok} (h : SSim φ s s')
    (he : ∀ Y Y', TSimL φ Y Y' → Mk φ (Y ++ e) (Y' ++ e')) : SIns φ (appTop e s) (appTop e' s') := by
  obtain ⟨fr, base⟩ := s
  obtain ⟨fr', base'⟩ := s'
  obtain ⟨hf, hb⟩ := h
  cases hf with
  | nil => exact SIns.base (he _ _ hb)
  | cons h1 h2 => exact SIns.here h1.1 (he _ _ h1.2) h2 hb

theorem sins_appTop {φ : Nat → Nat} {s s' : St} {x x' : Tok} (h : SIns φ s s') (hx : TSim φ x x') :
    SIns φ (appTop [x] s) (appTop [x'] s') := by
  cases h with
  | base hM => exact SIns.base (mk_snoc hM hx)
  | here ho hM hr hb => exact SIns.here ho (mk_snoc hM hx) hr hb
  | deeper hf hr =>
    rename_i f f' rest rest' base base'
    obtain ⟨o, items⟩ := f
    obtain ⟨o', items'⟩ := f'
    exact SIns.deeper ⟨hf.1, tsimL_snoc hf.2 hx⟩ hr

/-! ### One step -/

theorem step_front {t : Token} (s : St) (h : delimsFront.contains t.text = true) :
    step t s = .ok ((t, []) :: s.1, s.2) := by
  simp only [step, h, ↓reduceIte]

theorem step_atom {t : Token} (s : St) (h1 : delimsFront.contains t.text = false) (h2 : delimsBack.contains t.text = false) :
    step t s = .ok (appTop [.atom t] s) := by
  simp only [step, h1, h2, Bool.false_eq_true, ↓reduceIte]

theorem step_back_nil {t : Token} (base : List Tok) (h1 : delimsFront.contains t.text = false)
    (h2 : delimsBack.contains t.text = true) : step t ([], base) = .error (closeErr t) := by
  simp only [step, h1, h2, Bool.false_eq_true, ↓reduceIte]

theorem step_back_cons {t o : Token} (items : List Tok) (rest : List Frame) (base : List Tok)
    (h1 : delimsFront.contains t.text = false) (h2 : delimsBack.contains t.text = true) :
    step t ((o, items) :: rest, base) =
      if closingOf o.text != some t.text then .error (closeErr t) else .ok (appTop [.group o t items] (rest, base)) := by
  simp only [step, h1, h2, Bool.false_eq_true, ↓reduceIte]

theorem step_sim {φ : Nat → Nat} {s s' : St} {t t' : Token} (h : SSim φ s s') (ht : TokRel φ t t') :
    RelRes (SSim φ) (step t s) (step t' s') := by
  cases h1 : delimsFront.contains t.text with
  | true =>
    rw [step_front s h1, step_front s' (by rw [ht.1]; exact h1)]
    exact ⟨.cons ⟨ht.1, TSimL.nil⟩ h.1, h.2⟩
  | false =>
    have h1' : delimsFront.contains t'.text = false := by rw [ht.1]; exact h1
    cases h2 : delimsBack.contains t.text with
    | false =>
      rw [step_atom s h1 h2, step_atom s' h1' (by rw [ht.1]; exact h2)]
      exact ssim_appTop h (tsimL_single (tokRel_tsim ht))
    | true =>
      have h2' : delimsBack.contains t'.text = true := by rw [ht.1]; exact h2
      obtain ⟨fr, base⟩ := s
      obtain ⟨fr', base'⟩ := s'
      obtain ⟨hf, hb⟩ := h
      cases hf with
      | nil =>
        rw [step_back_nil base h1 h2, step_back_nil base' h1' h2']
        exact closeErr_sim t t'
      | cons hf1 hf2 =>
        rename_i f f' rest rest'
        obtain ⟨o, items⟩ := f
        obtain ⟨o', items'⟩ := f'
        rw [step_back_cons items rest base h1 h2, step_back_cons items' rest' base' h1' h2']
        have ho : o'.text = o.text := hf1.1
        rw [ho, ht.1]
        split
        · exact closeErr_sim t t'
        · exact ssim_appTop ⟨hf2, hb⟩ (tsimL_single (TSim.group ho hf1.2))

theorem step_ins {φ : Nat → Nat} {s s' : St} {t t' : Token} (h : SIns φ s s') (ht : TokRel φ t t') :
    RelRes (SIns φ) (step t s) (step t' s') := by
  cases h1 : delimsFront.contains t.text with
  | true =>
    rw [step_front s h1, step_front s' (by rw [ht.1]; exact h1)]
    obtain ⟨fr, base⟩ := s
    obtain ⟨fr', base'⟩ := s'
    exact SIns.deeper ⟨ht.1, TSimL.nil⟩ h
  | false =>
    have h1' : delimsFront.contains t'.text = false := by rw [ht.1]; exact h1
    cases h2 : delimsBack.contains t.text with
    | false =>
      rw [step_atom s h1 h2, step_atom s' h1' (by rw [ht.1]; exact h2)]
      exact sins_appTop h (tokRel_tsim ht)
    | true =>
      have h2' : delimsBack.contains t'.text = true := by rw [ht.1]; exact h2
      cases h with
      | base hM =>
        rw [step_back_nil _ h1 h2, step_back_nil _ h1' h2']
        exact closeErr_sim t t'
      | here ho hM hr hb =>
        rw [step_back_cons _ _ _ h1 h2, step_back_cons _ _ _ h1' h2']
        rw [ho, ht.1]
        split
        · exact closeErr_sim t t'
        · exact ssim_to_sins ⟨hr, hb⟩ (fun Y Y' hY => mk_group hY ho (mk_ins hM))
      | deeper hf hr =>
        rename_i f f' rest rest' base base'
        obtain ⟨o, items⟩ := f
        obtain ⟨o', items'⟩ := f'
        rw [step_back_cons _ _ _ h1 h2, step_back_cons _ _ _ h1' h2']
        have ho : o'.text = o.text := hf.1
        rw [ho, ht.1]
        split
        · exact closeErr_sim t t'
        · exact sins_appTop hr (TSim.group ho hf.2)

/-! ### End of input -/

theorem finish_sim {φ : Nat → Nat} {s s' : St} (h : SSim φ s s') : TreeRel φ (finishSt s) (finishSt s') := by
  obtain ⟨fr, base⟩ := s
  obtain ⟨fr', base'⟩ := s'
  obtain ⟨hf, hb⟩ := h
  cases hf with
  | nil => exact Or.inl hb
  | cons hf1 hf2 =>
    rename_i f f' rest rest'
    obtain ⟨o, items⟩ := f
    obtain ⟨o', items'⟩ := f'
    simp [finishSt, TreeRel, ErrSim]

theorem finish_ins {φ : Nat → Nat} {s s' : St} (h : SIns φ s s') : TreeRel φ (finishSt s) (finishSt s') := by
  cases h with
  | base hM => exact Or.inr (mk_ins hM)
  | here ho hM hr hb => simp [finishSt, TreeRel, ErrSim]
  | deeper hf hr =>
    rename_i f f' rest rest' base base'
    obtain ⟨o, items⟩ := f
    obtain ⟨o', items'⟩ := f'
    simp [finishSt, TreeRel, ErrSim]

/-! ### Runs -/

theorem relRes_bind {φ : Nat → Nat} {R : St → St → Prop} {x x' : Res St} {k k' : St → Res (List Tok)}
    (h : RelRes R x x') (hk : ∀ a a', R a a' → TreeRel φ (k a) (k' a')) :
    TreeRel φ (andThen x k) (andThen x' k') := by
  cases x with
  | error a =>
    cases x' with
    | error a' => exact h
    | ok b' => exact h.elim
  | ok b =>
    cases x' with
    | error a' => exact h.elim
    | ok b' => exact hk _ _ h

theorem full_cons (t : Token) (ts : List Token) (s : St) :
    full (t :: ts) s = andThen (step t s) (full ts) := by
  simp only [full]

theorem full_cons_ok {t : Token} {ts : List Token} {s s1 : St} (h : step t s = .ok s1) :
    full (t :: ts) s = full ts s1 := by
  rw [full_cons, h]; rfl

theorem full_ins {φ : Nat → Nat} {ts ts' : List Token} (hts : Forall2 (TokRel φ) ts ts') :
    ∀ {s s' : St}, SIns φ s s' → TreeRel φ (full ts s) (full ts' s') := by
  induction hts with
  | nil => intro s s' h; exact finish_ins h
  | cons ht _ ih =>
    intro s s' h
    rw [full_cons, full_cons]
    exact relRes_bind (step_ins h ht) (fun a a' ha => ih ha)

/-- Common prefix: similar states stay similar (or both runs fail alike). -/
theorem full_prefix {φ : Nat → Nat} {P P' Q Q' : List Token} (hP : Forall2 (TokRel φ) P P')
    (hk : ∀ r r', SSim φ r r' → TreeRel φ (full Q r) (full Q' r')) :
    ∀ {s s' : St}, SSim φ s s' → TreeRel φ (full (P ++ Q) s) (full (P' ++ Q') s') := by
  induction hP with
  | nil => intro s s' h; exact hk _ _ h
  | cons ht _ ih =>
    intro s s' h
    rw [List.cons_append, List.cons_append, full_cons, full_cons]
    exact relRes_bind (step_sim h ht) (fun a a' ha => ih ha)

theorem full_sim {φ : Nat → Nat} {ts ts' : List Token} (hts : Forall2 (TokRel φ) ts ts') {s s' : St}
    (h : SSim φ s s') : TreeRel φ (full ts s) (full ts' s') := by
  have := full_prefix (Q := []) (Q' := []) hts (fun r r' hr => finish_sim hr) h
  simpa using this

/-! ### Token classes -/

def op3Texts : List Str := [lit ",", lit "+", lit "->"]

theorem op3_front {t : Token} (h : t.text ∈ op3Texts) : delimsFront.contains t.text = false := by
  simp only [op3Texts, List.mem_cons, List.mem_nil_iff, or_false] at h
  rcases h with h | h | h <;> rw [h] <;> decide

theorem op3_back {t : Token} (h : t.text ∈ op3Texts) : delimsBack.contains t.text = false := by
  simp only [op3Texts, List.mem_cons, List.mem_nil_iff, or_false] at h
  rcases h with h | h | h <;> rw [h] <;> decide

theorem op3_isOp3 {t : Token} (h : t.text ∈ op3Texts) : (Tok.atom t).isOp3 = true := by
  simp only [op3Texts, List.mem_cons, List.mem_nil_iff, or_false] at h
  rcases h with h | h | h <;> simp [Tok.isOp3, Tok.isText, h]

theorem space_front {t : Token} (h : t.text = spaceLit) : delimsFront.contains t.text = false := by
  rw [h]; decide

theorem space_back {t : Token} (h : t.text = spaceLit) : delimsBack.contains t.text = false := by
  rw [h]; decide

theorem space_isSpace {t : Token} (h : t.text = spaceLit) : (Tok.atom t).isSpace = true := by
  simp [Tok.isSpace, Tok.isText, h]

theorem step_space {sp : Token} (s : St) (h : sp.text = spaceLit) : step sp s = .ok (appTop [.atom sp] s) :=
  step_atom s (space_front h) (space_back h)

theorem appTop_appTop (xs ys : List Tok) (s : St) : appTop ys (appTop xs s) = appTop (xs ++ ys) s := by
  obtain ⟨fr, base⟩ := s
  cases fr with
  | nil => simp [appTop]
  | cons f fs => obtain ⟨o, items⟩ := f; simp [appTop]

/-- `afterOps` = opening delimiters and the three operators. -/
theorem afterOps_cases {t : Token} (h : t.text ∈ afterOps) : delimsFront.contains t.text = true ∨ t.text ∈ op3Texts := by
  simp only [afterOps, List.mem_cons, List.mem_nil_iff, or_false] at h
  rcases h with h | h | h | h | h
  · left; rw [h]; decide
  · left; rw [h]; decide
  · right; rw [h]; decide
  · right; rw [h]; decide
  · right; rw [h]; decide

/-- `beforeOps` = closing delimiters and the three operators. -/
theorem beforeOps_cases {t : Token} (h : t.text ∈ beforeOps) :
    (delimsFront.contains t.text = false ∧ delimsBack.contains t.text = true) ∨ t.text ∈ op3Texts := by
  simp only [beforeOps, List.mem_cons, List.mem_nil_iff, or_false] at h
  rcases h with h | h | h | h | h
  · left; rw [h]; decide
  · left; rw [h]; decide
  · right; rw [h]; decide
  · right; rw [h]; decide
  · right; rw [h]; decide

/-! ### The four kinds of slots -/

theorem ssim_init (φ : Nat → Nat) : SSim φ ([], []) ([], []) := ⟨.nil, TSimL.nil⟩

/-- Slot at the begin of the text. -/
theorem slot_begin {φ : Nat → Nat} {Q Q' : List Token} {sp : Token} (hsp : sp.text = spaceLit)
    (hQ : Forall2 (TokRel φ) Q Q') : TreeRel φ (full Q ([], [])) (full (sp :: Q') ([], [])) := by
  rw [full_cons_ok (step_space _ hsp)]
  exact full_ins hQ (SIns.base (Or.inl ⟨_, [], space_isSpace hsp, rfl, TSimL.nil⟩))

/-- Slot at the end of the text. -/
theorem slot_end {φ : Nat → Nat} {sp : Token} (hsp : sp.text = spaceLit) {r r' : St} (h : SSim φ r r') :
    TreeRel φ (full [] r) (full [sp] r') := by
  rw [full_cons_ok (step_space _ hsp)]
  obtain ⟨fr, base⟩ := r
  obtain ⟨fr', base'⟩ := r'
  obtain ⟨hf, hb⟩ := h
  cases hf with
  | nil => exact Or.inr (Ins.trail (space_isSpace hsp) hb rfl)
  | cons hf1 hf2 =>
    rename_i f f' rest rest'
    obtain ⟨o, items⟩ := f
    obtain ⟨o', items'⟩ := f'
    simp [full, appTop, finishSt, TreeRel, ErrSim]

/-- Slot directly after an opening delimiter or an operator. -/
theorem slot_after {φ : Nat → Nat} {Q Q' : List Token} {a a' sp : Token} (hsp : sp.text = spaceLit)
    (ha : TokRel φ a a') (hmem : a.text ∈ afterOps) (hQ : Forall2 (TokRel φ) Q Q') {r r' : St} (h : SSim φ r r') :
    TreeRel φ (full (a :: Q) r) (full (a' :: sp :: Q') r') := by
  rcases afterOps_cases hmem with hf | hop
  · rw [full_cons_ok (step_front r hf), full_cons_ok (step_front r' (by rw [ha.1]; exact hf)),
      full_cons_ok (step_space _ hsp)]
    apply full_ins hQ
    exact SIns.here ha.1 (Or.inl ⟨_, [], space_isSpace hsp, rfl, TSimL.nil⟩) h.1 h.2
  · have hop' : a'.text ∈ op3Texts := by rw [ha.1]; exact hop
    rw [full_cons_ok (step_atom r (op3_front hop) (op3_back hop)),
      full_cons_ok (step_atom r' (op3_front hop') (op3_back hop')),
      full_cons_ok (step_space _ hsp), appTop_appTop]
    apply full_ins hQ
    exact ssim_to_sins h (fun Y Y' hY => mk_afterOp hY (tokRel_tsim ha) (op3_isOp3 hop) (space_isSpace hsp))

/-- Slot directly before a closing delimiter or an operator. -/
theorem slot_before {φ : Nat → Nat} {Q Q' : List Token} {b b' sp : Token} (hsp : sp.text = spaceLit)
    (hb : TokRel φ b b') (hmem : b.text ∈ beforeOps) (hQ : Forall2 (TokRel φ) Q Q') {r r' : St} (h : SSim φ r r') :
    TreeRel φ (full (b :: Q) r) (full (sp :: b' :: Q') r') := by
  rw [full_cons_ok (step_space _ hsp)]
  rcases beforeOps_cases hmem with ⟨h1, h2⟩ | hop
  · have h1' : delimsFront.contains b'.text = false := by rw [hb.1]; exact h1
    have h2' : delimsBack.contains b'.text = true := by rw [hb.1]; exact h2
    obtain ⟨fr, base⟩ := r
    obtain ⟨fr', base'⟩ := r'
    obtain ⟨hf, hbase⟩ := h
    rw [full_cons, full_cons]
    cases hf with
    | nil =>
      simp only [appTop]
      rw [step_back_nil _ h1 h2, step_back_nil _ h1' h2']
      exact closeErr_sim b b'
    | cons hf1 hf2 =>
      rename_i f f' rest rest'
      obtain ⟨o, items⟩ := f
      obtain ⟨o', items'⟩ := f'
      simp only [appTop]
      rw [step_back_cons _ _ _ h1 h2, step_back_cons _ _ _ h1' h2']
      have ho : o'.text = o.text := hf1.1
      rw [ho, hb.1]
      split
      · exact closeErr_sim b b'
      · apply full_ins hQ
        exact ssim_to_sins ⟨hf2, hbase⟩
          (fun Y Y' hY => mk_group hY ho (Ins.trail (space_isSpace hsp) hf1.2 rfl))
  · have hop' : b'.text ∈ op3Texts := by rw [hb.1]; exact hop
    rw [full_cons_ok (step_atom r (op3_front hop) (op3_back hop)),
      full_cons_ok (step_atom _ (op3_front hop') (op3_back hop')), appTop_appTop]
    apply full_ins hQ
    exact ssim_to_sins h (fun Y Y' hY => mk_beforeOp hY (tokRel_tsim hb) (op3_isOp3 hop) (space_isSpace hsp))

end TreeIns

open TreeIns in
/-- Token lists of a text without / with one redundant space: after duplicate-space removal and the delimiter stack both
    fail alike, or the trees are similar, or the second has exactly one additional space atom at an admissible place. -/
theorem tree_insert (φ : Nat → Nat) (A A' B B' : List Token) (sp : Token)
    (hA : Forall2 (TokRel φ) A A') (hB : Forall2 (TokRel φ) B B') (hsp : sp.text = spaceLit)
    (hc : SlotCond A B) :
    TreeRel φ (buildTree (dedupSpaces (A ++ B) false) [] []) (buildTree (dedupSpaces (A' ++ sp :: B') false) [] []) := by
  rw [buildTree_eq_full, buildTree_eq_full]
  have hspS : sp.isSpace = true := isSpace_of_text hsp
  rcases hc with ⟨a, hla, hat⟩ | ⟨hAn, hBn, hcase⟩
  · -- the additional space directly follows a space: it is dropped
    obtain ⟨A0, rfl⟩ := List.getLast?_eq_some_iff.mp hla
    have hfl : flagAfter A' false = true := by
      rw [flagAfter_rel hA, flagAfter_snoc]; exact isSpace_of_text hat
    have e : dedupSpaces (A' ++ sp :: B') false = dedupSpaces (A' ++ B') false := by
      rw [dedup_append, dedup_append, hfl]
      simp [dedupSpaces, hspS]
    rw [e]
    exact full_sim (dedup_rel (forall2_append hA hB) false) (ssim_init φ)
  · have hfA : flagAfter A false = false := by
      cases hl : A.getLast? with
      | none => rw [List.getLast?_eq_none_iff.mp hl]; rfl
      | some a =>
        obtain ⟨A0, rfl⟩ := List.getLast?_eq_some_iff.mp hl
        rw [flagAfter_snoc]; exact not_isSpace_of_text (hAn a hl)
    have hBs : ∀ b, B.head? = some b → b.isSpace = false := fun b hb => not_isSpace_of_text (hBn b hb)
    have hBs' : ∀ b, B'.head? = some b → b.isSpace = false := by
      cases hB with
      | nil => intro b hb; cases hb
      | cons h1 h2 =>
        intro b hb
        simp only [List.head?_cons, Option.some.injEq] at hb
        subst hb
        rw [tokRel_isSpace h1]; exact hBs _ rfl
    have e1 : dedupSpaces (A ++ B) false = dedupSpaces A false ++ dedupSpaces B false := by
      rw [dedup_append, hfA]
    have e2 : dedupSpaces (A' ++ sp :: B') false = dedupSpaces A' false ++ sp :: dedupSpaces B' false := by
      rw [dedup_append, flagAfter_rel hA, hfA]
      simp only [dedupSpaces, hspS, if_true, Bool.false_eq_true, if_false]
      rw [dedup_flag _ hBs']
    rw [e1, e2]
    have hDB := dedup_rel hB false
    rcases hcase with rfl | rfl | ⟨a, hla, hmem⟩ | ⟨b, hhb, hmem⟩
    · cases hA
      exact slot_begin hsp hDB
    · cases hB
      have := full_prefix (Q := []) (Q' := [sp]) (dedup_rel hA false) (fun r r' hr => slot_end hsp hr) (ssim_init φ)
      simpa [dedupSpaces] using this
    · obtain ⟨A0, rfl⟩ := List.getLast?_eq_some_iff.mp hla
      obtain ⟨A0', a', rfl, h0, haa⟩ := forall2_snoc_left hA
      have hna : a.isSpace = false := not_isSpace_of_text (hAn a hla)
      have hna' : a'.isSpace = false := by rw [tokRel_isSpace haa]; exact hna
      rw [dedup_snoc_nonspace _ _ _ hna, dedup_snoc_nonspace _ _ _ hna', List.append_assoc, List.append_assoc]
      exact full_prefix (dedup_rel h0 false) (fun r r' hr => slot_after hsp haa hmem hDB hr) (ssim_init φ)
    · cases hB with
      | nil => cases hhb
      | cons h1 h2 =>
        simp only [List.head?_cons, Option.some.injEq] at hhb
        subst hhb
        have hnb := hBs _ rfl
        have hnb' := hBs' _ rfl
        rw [dedup_cons_nonspace _ _ _ hnb, dedup_cons_nonspace _ _ _ hnb']
        exact full_prefix (dedup_rel hA false)
          (fun r r' hr => slot_before hsp h1 hmem (dedup_rel h2 false) hr) (ssim_init φ)

end Einx.Notation
