import EinxModel.Update.Model
/-! Helper lemmas for C14 (core Lean only). -/
namespace Einx.Update

/-! ### mapOpt -/

theorem mapOpt_eq_some_iff {α β : Type} (f : α → Option β) (l : List α) (r : List β) :
    mapOpt f l = some r ↔ l.map f = r.map some := by
  induction l generalizing r with
  | nil => cases r <;> simp [mapOpt]
  | cons a as ih =>
    simp only [mapOpt, List.map_cons]
    cases hfa : f a with
    | none => cases r <;> simp
    | some b =>
      cases hm : mapOpt f as with
      | none =>
        cases r with
        | nil => simp
        | cons x xs =>
          simp only [List.map_cons, List.cons.injEq, Option.some.injEq, reduceCtorEq, false_iff, not_and]
          intro _ h
          have := (ih xs).mpr h
          simp [hm] at this
      | some bs =>
        have h1 := (ih bs).mp hm
        cases r with
        | nil => simp
        | cons x xs =>
          simp only [Option.some.injEq, List.cons.injEq, List.map_cons]
          constructor
          · rintro ⟨rfl, rfl⟩; exact ⟨rfl, h1⟩
          · rintro ⟨rfl, h2⟩
            refine ⟨rfl, ?_⟩
            have := (ih xs).mpr h2
            rw [hm] at this
            exact Option.some.inj this

theorem mapOpt_length {α β : Type} {f : α → Option β} {l : List α} {r : List β} (h : mapOpt f l = some r) :
    r.length = l.length := by
  have := congrArg List.length ((mapOpt_eq_some_iff f l r).mp h)
  simpa using this.symm

theorem mapOpt_getElem? {α β : Type} {f : α → Option β} {l : List α} {r : List β} (h : mapOpt f l = some r)
    (k : Nat) (a : α) (ha : l[k]? = some a) : f a = r[k]? := by
  have := congrArg (fun x => x[k]?) ((mapOpt_eq_some_iff f l r).mp h)
  simp only [List.getElem?_map, ha, Option.map_some] at this
  cases hr : r[k]? with
  | none => simp [hr] at this
  | some b => simpa [hr] using this

theorem mapOpt_some_of_forall {α β : Type} {f : α → Option β} {l : List α}
    (h : ∀ a ∈ l, ∃ b, f a = some b) : ∃ r, mapOpt f l = some r := by
  induction l with
  | nil => exact ⟨[], rfl⟩
  | cons a as ih =>
    obtain ⟨b, hb⟩ := h a (List.mem_cons_self ..)
    obtain ⟨bs, hbs⟩ := ih (fun x hx => h x (List.mem_cons_of_mem _ hx))
    exact ⟨b :: bs, by simp [mapOpt, hb, hbs]⟩

theorem mapOpt_congr {α β : Type} {f g : α → Option β} {l : List α} (h : ∀ a ∈ l, f a = g a) :
    mapOpt f l = mapOpt g l := by
  induction l with
  | nil => rfl
  | cons a as ih =>
    simp only [mapOpt, h a (List.mem_cons_self ..), ih (fun x hx => h x (List.mem_cons_of_mem _ hx))]

/-! ### assignments -/

theorem mem_assignments_iff_valid {s σ : List Nat} : σ ∈ assignments s ↔ Valid s σ := by
  induction s generalizing σ with
  | nil =>
    simp only [assignments, List.mem_singleton]
    constructor
    · rintro rfl; exact Valid.nil
    · intro h; cases h; rfl
  | cons a ss ih =>
    simp only [assignments, List.mem_flatMap, List.mem_range, List.mem_map]
    constructor
    · rintro ⟨i, hi, r, hr, rfl⟩
      exact Valid.cons hi (ih.mp hr)
    · intro h
      cases h with
      | cons hi hv => exact ⟨_, hi, _, ih.mpr hv, rfl⟩

theorem assignments_length (s : List Nat) : (assignments s).length = prod s := by
  induction s with
  | nil => rfl
  | cons a ss ih =>
    simp only [assignments, prod, List.length_flatMap, List.length_map, ih]
    generalize prod ss = p
    induction a with
    | zero => simp
    | succ n ihn => simp [List.range_succ, ihn, Nat.succ_mul]

theorem nodup_flatMap_range {β : Type} (n : Nat) (f : Nat → List β)
    (h1 : ∀ i, (f i).Nodup) (h2 : ∀ i j, i ≠ j → ∀ x, x ∈ f i → x ∈ f j → False) :
    ((List.range n).flatMap f).Nodup := by
  induction n with
  | zero => simp
  | succ n ih =>
    rw [List.range_succ, List.flatMap_append]
    simp only [List.flatMap_cons, List.flatMap_nil, List.append_nil]
    rw [List.nodup_append]
    refine ⟨ih, h1 n, ?_⟩
    intro x hx y hy hxy
    subst hxy
    simp only [List.mem_flatMap, List.mem_range] at hx
    obtain ⟨i, hi, hxi⟩ := hx
    exact h2 i n (by omega) x hxi hy

theorem assignments_nodup (s : List Nat) : (assignments s).Nodup := by
  induction s with
  | nil => simp [assignments]
  | cons a ss ih =>
    simp only [assignments]
    apply nodup_flatMap_range
    · intro i
      rw [List.Nodup, List.pairwise_map]
      exact List.Pairwise.imp (fun h => by simpa using h) ih
    · intro i j hij x hxi hxj
      simp only [List.mem_map] at hxi hxj
      obtain ⟨_, _, rfl⟩ := hxi
      obtain ⟨_, _, h⟩ := hxj
      simp only [List.cons.injEq] at h
      exact hij h.1.symm


theorem assignments_of_zero (s : List Nat) (h : 0 ∈ s) : assignments s = [] := by
  induction s with
  | nil => simp at h
  | cons a ss ih =>
    rcases List.mem_cons.mp h with h0 | hs
    · subst h0; simp [assignments]
    · simp [assignments, ih hs]

/-! ### row-major enumeration -/

theorem range_mul_flatMap (a p : Nat) :
    (List.range a).flatMap (fun i => (List.range p).map (fun r => i * p + r)) = List.range (a * p) := by
  induction a with
  | zero => simp
  | succ n ih =>
    rw [List.range_succ, List.flatMap_append, ih, Nat.succ_mul, List.range_add]
    simp

/-- The flat positions of the assignments, in order, are `0, 1, …, prod s - 1`: `assignments` is the
row-major enumeration. -/
theorem assignments_map_ravel (s : List Nat) : (assignments s).map (ravel s) = List.range (prod s) := by
  induction s with
  | nil => simp [assignments, ravel, prod, List.range_succ]
  | cons a ss ih =>
    simp only [assignments, prod, List.map_flatMap, List.map_map]
    rw [← range_mul_flatMap]
    congr 1
    funext i
    have : (ravel (a :: ss) ∘ fun r => i :: r) = (fun k => i * prod ss + k) ∘ ravel ss := by
      funext r; simp [ravel]
    rw [this, ← List.map_map, ih]

theorem assignments_getElem? (s : List Nat) (σ : List Nat) (h : Valid s σ) :
    (assignments s)[ravel s σ]? = some σ := by
  have hm := assignments_map_ravel s
  have hlt := ravel_lt h
  have hlen : ravel s σ < (assignments s).length := by rw [assignments_length]; exact hlt
  have hk := congrArg (fun l => l[ravel s σ]?) hm
  simp only [List.getElem?_map, List.getElem?_range hlt] at hk
  rw [List.getElem?_eq_getElem hlen] at hk ⊢
  simp only [Option.map_some, Option.some.injEq] at hk
  have hv : Valid s (assignments s)[ravel s σ] := mem_assignments_iff_valid.mp (List.getElem_mem hlen)
  have := congrArg (unravel s) hk
  rw [unravel_ravel hv, unravel_ravel h] at this
  rw [this]

/-- Reading a well-formed flat tensor at every assignment in order returns its data. -/
theorem mapOpt_read_assignments {α : Type} (s : List Nat) (data : List α) (h : data.length = prod s) :
    mapOpt (fun σ => data[ravel s σ]?) (assignments s) = some data := by
  rw [mapOpt_eq_some_iff]
  have : (assignments s).map (fun σ => data[ravel s σ]?) = ((assignments s).map (ravel s)).map (fun k => data[k]?) := by
    simp [List.map_map, Function.comp_def]
  rw [this, assignments_map_ravel, ← h]
  apply List.ext_getElem?
  intro k
  simp only [List.getElem?_map]
  by_cases hk : k < data.length
  · simp [List.getElem?_range hk, List.getElem?_eq_getElem hk]
  · have : data.length ≤ k := by omega
    simp [List.getElem?_eq_none this]
    exact this

/-- Broadcasting a shape to itself re-reads every index unchanged. -/
theorem clampIndex_self {s σ : List Nat} (h : Valid s σ) :
    List.zipWith (fun i a => if a = 1 then 0 else i) σ s = σ := by
  induction h with
  | nil => rfl
  | cons hlt _ ih =>
    simp only [List.zipWith_cons_cons, ih, List.cons.injEq, and_true]
    split
    · omega
    · rfl

/-! ### applyUpdates -/

theorem applyUpdates_nil (m : Mode) (t : List Int) : applyUpdates m t [] = t := rfl

theorem applyUpdates_cons (m : Mode) (t : List Int) (c : Nat × Int) (cs : List (Nat × Int)) :
    applyUpdates m t (c :: cs) = applyUpdates m (t.modify c.1 (fun o => m.apply o c.2)) cs := rfl

theorem applyUpdates_append (m : Mode) (t : List Int) (cs ds : List (Nat × Int)) :
    applyUpdates m t (cs ++ ds) = applyUpdates m (applyUpdates m t cs) ds := by
  simp [applyUpdates, List.foldl_append]

theorem applyUpdates_length (m : Mode) (t : List Int) (cs : List (Nat × Int)) :
    (applyUpdates m t cs).length = t.length := by
  induction cs generalizing t with
  | nil => rfl
  | cons c cs ih => rw [applyUpdates_cons, ih, List.length_modify]

/-- The contributions addressed to `k`, in order. -/
def addressedTo (k : Nat) (cs : List (Nat × Int)) : List Int := (cs.filter (fun c => c.1 == k)).map (·.2)

/-- Element `k` of the result is the old element with exactly the contributions addressed to `k`
applied, in order. -/
theorem getElem?_applyUpdates (m : Mode) (t : List Int) (cs : List (Nat × Int)) (k : Nat) :
    (applyUpdates m t cs)[k]? = t[k]?.map (fun o => (addressedTo k cs).foldl m.apply o) := by
  induction cs generalizing t with
  | nil => simp [applyUpdates, addressedTo]
  | cons c cs ih =>
    rw [applyUpdates_cons, ih, List.getElem?_modify]
    by_cases hc : c.1 = k
    · subst hc
      cases ht : t[c.1]? <;> simp [addressedTo]
    · have : (c.1 == k) = false := by simpa using hc
      cases ht : t[k]? <;> simp [addressedTo, hc, this]

theorem foldl_add (l : List Int) (o : Int) : l.foldl (Mode.apply .add) o = o + l.sum := by
  induction l generalizing o with
  | nil => simp
  | cons x xs ih => simp only [List.foldl_cons, Mode.apply, ih, List.sum_cons]; omega

theorem foldl_sub (l : List Int) (o : Int) : l.foldl (Mode.apply .sub) o = o - l.sum := by
  induction l generalizing o with
  | nil => simp
  | cons x xs ih => simp only [List.foldl_cons, Mode.apply, ih, List.sum_cons]; omega

theorem foldl_set (l : List Int) (o : Int) : l.foldl (Mode.apply .set) o = l.getLast?.getD o := by
  induction l generalizing o with
  | nil => simp
  | cons x xs ih =>
    simp only [List.foldl_cons, Mode.apply, ih]
    cases xs with
    | nil => simp
    | cons y ys =>
      rw [List.getLast?_cons_cons]
      cases h : (y :: ys).getLast? with
      | none => simp at h
      | some z => simp

theorem addressedTo_perm_sum {k : Nat} {cs ds : List (Nat × Int)} (h : cs.Perm ds) :
    (addressedTo k cs).sum = (addressedTo k ds).sum := by
  induction h with
  | nil => rfl
  | cons x _ ih =>
    simp only [addressedTo, List.filter_cons] at ih ⊢
    split <;> simp [ih]
  | swap x y l =>
    simp only [addressedTo, List.filter_cons]
    split <;> split <;> simp <;> omega
  | trans _ _ ih1 ih2 => exact ih1.trans ih2

/-! ### the scatter loop of the numpy primitives -/

theorem scatterGo_eq_applyUpdates (m : Mode) (t : List Int) (cs : List (Nat × Int))
    (h : ∀ c ∈ cs, c.1 < t.length) : scatterGo m.apply t cs = some (applyUpdates m t cs) := by
  induction cs generalizing t with
  | nil => rfl
  | cons c cs ih =>
    obtain ⟨i, v⟩ := c
    have hi : i < t.length := h (i, v) (List.mem_cons_self ..)
    simp only [scatterGo, hi, ↓reduceIte, applyUpdates_cons]
    apply ih
    intro c hc
    rw [List.length_modify]
    exact h c (List.mem_cons_of_mem _ hc)

theorem scatterGo_none (f : Int → Int → Int) (t : List Int) (cs : List (Nat × Int))
    (h : ∃ c ∈ cs, t.length ≤ c.1) : scatterGo f t cs = none := by
  induction cs generalizing t with
  | nil => simp at h
  | cons c cs ih =>
    obtain ⟨i, v⟩ := c
    simp only [scatterGo]
    split
    · apply ih
      obtain ⟨c, hc, hl⟩ := h
      rw [List.length_modify]
      rcases List.mem_cons.mp hc with rfl | hc
      · simp at hl; omega
      · exact ⟨c, hc, hl⟩
    · rfl

end Einx.Update
