import EinxModel.Proofs.SolveSem
/-!
The value system of a whole input, read semantically: `Sat (valueSystem inp ρ) σ` iff `SemSat inp ρ σ`
on the axis variables (`sat_sem`, `sem_sat`; the converse needs the name hygiene `namesOK`).
-/
namespace Einx.Solve

/-- The value system of `inp` for counts `ρ`, said without node variables. -/
structure SemSat (inp : Input) (ρ τ : Var → Nat) : Prop where
  axesPos : ∀ t ∈ inp.tensors, ∀ a ∈ axesOf ρ [] t.expr, 1 ≤ τ a.2.2
  nodesPos : ∀ t ∈ inp.tensors, ∀ v ∈ nodeValues ρ τ [] t.expr, 1 ≤ v
  roots : ∀ t ∈ inp.tensors, ∀ dims, t.shape = some dims → evalItems ρ τ [] t.expr = dims
  constraints : ∀ c ∈ inp.constraints, ∀ t ∈ inp.tensors, ∀ a ∈ axesOf ρ [] t.expr, a.1 = c.name →
      constraintValue c a.2.1 = some (τ a.2.2)

/-- The tensor shapes, semantically. -/
def semShapes (inp : Input) (ρ τ : Var → Nat) : List (List Nat) :=
  inp.tensors.map (fun t => evalItems ρ τ [] t.expr)

theorem toFun_tabulate (ρ : Var → Nat) (ids : List Var) (id : Var) (h : id ∈ ids) :
    toFun (tabulate ids ρ) id = ρ id := by
  induction ids with
  | nil => cases h
  | cons i ids ih =>
    by_cases hi : id = i
    · subst hi; simp [toFun, tabulate, List.lookup]
    · have hm : id ∈ ids := by
        cases h with
        | head => exact absurd rfl hi
        | tail _ h => exact h
      have := ih hm
      simp only [toFun, tabulate] at this ⊢
      simp only [List.map_cons]
      rw [lookup_cons_ne hi]; exact this

theorem ellIds_sub (inp : Input) (t : Tensor) (ht : t ∈ inp.tensors) :
    ∀ id ∈ ellIds t.expr, id ∈ inp.ellIds := by
  intro id hid
  unfold Input.ellIds
  exact List.mem_flatMap.mpr ⟨t, ht, hid⟩

theorem gens_congr (inp : Input) (ρ ρ' : Var → Nat) (h : ∀ id ∈ inp.ellIds, ρ id = ρ' id) :
    gens inp ρ = gens inp ρ' := by
  unfold gens
  apply List.map_congr_left
  intro p hp
  have ht : p.1 ∈ inp.tensors := (List.of_mem_zip hp).1
  rw [expand_congr ρ ρ' p.1.expr _ [] (fun id hid => h id (ellIds_sub inp p.1 ht id hid))]

theorem gens_tabulate (inp : Input) (ρ : Var → Nat) :
    gens inp (toFun (tabulate inp.ellIds ρ)) = gens inp ρ :=
  gens_congr inp _ _ (fun id hid => toFun_tabulate ρ inp.ellIds id hid)

theorem mem_gens {inp : Input} {ρ : Var → Nat} {p : Tensor × Gen} (h : p ∈ gens inp ρ) :
    p.1 ∈ inp.tensors ∧ ∃ i : Nat, (p.1, i) ∈ inp.tensors.zip (List.range inp.tensors.length) ∧
      p.2 = expand ρ ("#" ++ toString i) [] p.1.expr := by
  unfold gens at h
  obtain ⟨q, hq, rfl⟩ := List.mem_map.mp h
  exact ⟨(List.of_mem_zip hq).1, q.2, hq, rfl⟩

theorem zip_range_mem {α : Type} (l : List α) (a : α) (h : a ∈ l) :
    ∃ i, (a, i) ∈ l.zip (List.range l.length) := by
  obtain ⟨i, hi, rfl⟩ := List.mem_iff_getElem.mp h
  refine ⟨i, ?_⟩
  rw [List.mem_iff_getElem]
  refine ⟨i, by simpa using hi, ?_⟩
  simp

theorem gens_of_mem {inp : Input} (ρ : Var → Nat) {t : Tensor} (h : t ∈ inp.tensors) :
    ∃ i : Nat, (t, i) ∈ inp.tensors.zip (List.range inp.tensors.length) ∧
      (t, expand ρ ("#" ++ toString i) [] t.expr) ∈ gens inp ρ := by
  obtain ⟨i, hi⟩ := zip_range_mem inp.tensors t h
  refine ⟨i, hi, ?_⟩
  unfold gens
  exact List.mem_map.mpr ⟨(t, i), hi, rfl⟩

theorem mem_inputAxes {inp : Input} {ρ : Var → Nat} {a : String × List Nat × Var} :
    a ∈ inp.axes ρ ↔ ∃ t ∈ inp.tensors, a ∈ axesOf ρ [] t.expr := by
  unfold Input.axes
  rw [List.mem_flatMap]
  constructor
  · rintro ⟨p, hp, ha⟩
    obtain ⟨ht, i, _, hg⟩ := mem_gens hp
    rw [hg, expand_axes] at ha
    exact ⟨p.1, ht, ha⟩
  · rintro ⟨t, ht, ha⟩
    obtain ⟨i, _, hg⟩ := gens_of_mem ρ ht
    exact ⟨_, hg, by simpa only [expand_axes] using ha⟩

theorem holds_varConst (σ : Var → Nat) (x : Var) (v : Nat) : holds σ (varConst x v) ↔ σ x = v := by
  simp [holds, varConst, evalPoly, evalMono, prodVars]

theorem not_holds_contra (σ : Var → Nat) : ¬ holds σ contraEqn := by
  simp [holds, contraEqn, evalPoly, evalMono, prodVars]

theorem zipEqns_holds (σ : Var → Nat) : ∀ (items : List Term) (dims : List Nat), items.length = dims.length →
    ((∀ q ∈ (items.zip dims).map (fun p => (⟨[termMono p.1], [⟨p.2, []⟩]⟩ : Eqn)), holds σ q) ↔
      items.map (tval σ) = dims)
  | [], [], _ => by simp
  | [], _ :: _, h => by simp at h
  | _ :: _, [], h => by simp at h
  | t :: ts, d :: ds, h => by
    have ih := zipEqns_holds σ ts ds (by simpa using h)
    simp only [List.zip_cons_cons, List.map_cons, List.forall_mem_cons, List.cons.injEq]
    rw [ih]
    have : holds σ (⟨[termMono t], [⟨d, []⟩]⟩ : Eqn) ↔ tval σ t = d := by
      simp only [holds, evalPoly_single, evalMono_termMono]
      simp [evalMono, prodVars]
    rw [this]

theorem rootEqns_holds (σ : Var → Nat) (t : Tensor) (g : Gen) :
    (∀ q ∈ rootEqns t g, holds σ q) ↔ ∀ dims, t.shape = some dims → g.items.map (tval σ) = dims := by
  unfold rootEqns
  cases hs : t.shape with
  | none => simp
  | some dims =>
    simp only [Option.some.injEq, forall_eq']
    by_cases hl : dims.length = g.items.length
    · simp only [hl, ↓reduceIte]
      exact zipEqns_holds σ g.items dims hl.symm
    · simp only [hl, ↓reduceIte, List.forall_mem_cons, List.not_mem_nil, false_imp_iff, implies_true, and_true]
      constructor
      · intro h; exact absurd h (not_holds_contra σ)
      · intro h; exfalso; apply hl; rw [← h]; simp

theorem constraintValueEqns_holds (σ : Var → Nat) (axes : List (String × List Nat × Var)) (c : Constraint) :
    (∀ q ∈ constraintValueEqns axes c, holds σ q) ↔
      ∀ a ∈ axes, a.1 = c.name → constraintValue c a.2.1 = some (σ a.2.2) := by
  unfold constraintValueEqns
  simp only [List.forall_mem_map, List.mem_filter, beq_iff_eq, and_imp]
  constructor
  · intro h a ha hn
    have := h a ha hn
    cases hv : constraintValue c a.2.1 with
    | none => rw [hv] at this; exact absurd this (not_holds_contra σ)
    | some v => rw [hv] at this; rw [(holds_varConst σ _ v).mp this]
  · intro h a ha hn
    rw [h a ha hn]
    exact (holds_varConst σ _ _).mpr rfl

/-- `Sat` of the value system, unfolded tensor by tensor. -/
theorem sat_valueSystem_iff (inp : Input) (ρ σ : Var → Nat) :
    Sat (valueSystem inp ρ) σ ↔
      (∀ p ∈ gens inp ρ, (∀ x ∈ p.2.vars, 1 ≤ σ x) ∧ (∀ q ∈ p.2.eqns, holds σ q) ∧
          (∀ dims, p.1.shape = some dims → p.2.items.map (tval σ) = dims)) ∧
      (∀ c ∈ inp.constraints, ∀ a ∈ inp.axes ρ, a.1 = c.name → constraintValue c a.2.1 = some (σ a.2.2)) := by
  unfold valueSystem valueSystemA Sat
  simp only [gens_tabulate]
  simp only [List.forall_mem_map, List.forall_mem_flatMap, List.forall_mem_append]
  constructor
  · rintro ⟨hb, ⟨he, hr⟩, hc⟩
    refine ⟨fun p hp => ⟨hb p hp, he p hp, (rootEqns_holds σ p.1 p.2).mp (hr p hp)⟩, ?_⟩
    intro c hc'
    exact (constraintValueEqns_holds σ _ c).mp (hc c hc')
  · rintro ⟨hg, hc⟩
    refine ⟨fun p hp => (hg p hp).1, ⟨fun p hp => (hg p hp).2.1, fun p hp => (rootEqns_holds σ p.1 p.2).mpr (hg p hp).2.2⟩, ?_⟩
    intro c hc'
    exact (constraintValueEqns_holds σ _ c).mpr (hc c hc')

/-- **Soundness of the semantic reading**: every solution of the value system is a semantic
solution (no hypothesis on names). -/
theorem sat_sem (inp : Input) (ρ σ : Var → Nat) (h : Sat (valueSystem inp ρ) σ) : SemSat inp ρ σ := by
  rw [sat_valueSystem_iff] at h
  obtain ⟨hg, hc⟩ := h
  have key : ∀ t ∈ inp.tensors, ∃ path,
      (∀ x ∈ (expand ρ path [] t.expr).vars, 1 ≤ σ x) ∧
      (∀ p ∈ nodeVals ρ σ path [] t.expr, σ p.1 = p.2) ∧
      (∀ dims, t.shape = some dims → evalItems ρ σ [] t.expr = dims) := by
    intro t ht
    obtain ⟨i, _, hgm⟩ := gens_of_mem ρ ht
    obtain ⟨hb, he, hr⟩ := hg _ hgm
    have hT := expand_sound ρ σ t.expr _ [] he
    refine ⟨_, hb, hT, ?_⟩
    intro dims hd
    rw [← expand_items ρ σ σ t.expr _ [] hT (fun _ _ => rfl)]
    exact hr dims hd
  refine ⟨?_, ?_, ?_, ?_⟩
  · intro t ht a ha
    obtain ⟨path, hb, _, _⟩ := key t ht
    apply hb
    rw [expand_vars]
    exact Or.inl (List.mem_map.mpr ⟨a, ha, rfl⟩)
  · intro t ht v hv
    obtain ⟨path, hb, hT, _⟩ := key t ht
    rw [← nodeVals_values ρ σ t.expr path []] at hv
    obtain ⟨p, hp, rfl⟩ := List.mem_map.mp hv
    rw [← hT p hp]
    apply hb
    rw [expand_vars]
    right
    rw [← nodeVals_keys ρ σ t.expr path []]
    exact List.mem_map.mpr ⟨p, hp, rfl⟩
  · intro t ht
    obtain ⟨_, _, _, hr⟩ := key t ht
    exact hr
  · intro c hc' t ht a ha hn
    exact hc c hc' a (mem_inputAxes.mpr ⟨t, ht, ha⟩) hn

/-- With `Sat`, the shapes are the semantic shapes. -/
theorem shapes_of_sat (inp : Input) (ρ σ : Var → Nat) (h : Sat (valueSystem inp ρ) σ) :
    shapesOf inp ρ σ = semShapes inp ρ σ := by
  rw [sat_valueSystem_iff] at h
  unfold shapesOf semShapes gens
  rw [List.map_map]
  have : inp.tensors.map (fun t => evalItems ρ σ [] t.expr) =
      (inp.tensors.zip (List.range inp.tensors.length)).map (fun p => evalItems ρ σ [] p.1.expr) := by
    have h1 : (inp.tensors.zip (List.range inp.tensors.length)).map (fun p => evalItems ρ σ [] p.1.expr) =
        ((inp.tensors.zip (List.range inp.tensors.length)).map (·.1)).map (fun t => evalItems ρ σ [] t.expr) := by
      rw [List.map_map]; rfl
    rw [h1, List.map_fst_zip (by simp)]
  rw [this]
  apply List.map_congr_left
  intro q hq
  have hm : (q.1, expand ρ ("#" ++ toString q.2) [] q.1.expr) ∈ gens inp ρ := by
    unfold gens; exact List.mem_map.mpr ⟨q, hq, rfl⟩
  obtain ⟨_, he, _⟩ := h.1 _ hm
  have hT := expand_sound ρ σ q.1.expr _ [] he
  simp only [Function.comp]
  exact expand_items ρ σ σ q.1.expr _ [] hT (fun _ _ => rfl)

/-! ### Completeness: a semantic solution extends to the node variables -/

/-- node variable ↦ value, for all tensors -/
def Input.nodeTable (inp : Input) (ρ τ : Var → Nat) : List (Var × Nat) :=
  (inp.tensors.zip (List.range inp.tensors.length)).flatMap
    (fun p => nodeVals ρ τ ("#" ++ toString p.2) [] p.1.expr)

theorem nodeTable_keys (inp : Input) (ρ τ : Var → Nat) :
    (inp.nodeTable ρ τ).map (·.1) = inp.nodeKeys ρ := by
  unfold Input.nodeTable Input.nodeKeys
  rw [List.map_flatMap]
  apply flatMap_congr'
  intro p _
  exact nodeVals_keys ρ τ p.1.expr _ []

theorem lookup_of_nodup {l : List (Var × Nat)} (hn : (l.map (·.1)).Nodup) {k : Var} {v : Nat}
    (h : (k, v) ∈ l) : l.lookup k = some v := by
  induction l with
  | nil => cases h
  | cons p l ih =>
    simp only [List.map_cons, List.nodup_cons] at hn
    cases h with
    | head => exact lookup_cons_self
    | tail _ h =>
      have hne : k ≠ p.1 := by
        intro he
        apply hn.1
        rw [← he]
        exact List.mem_map.mpr ⟨(k, v), h, rfl⟩
      obtain ⟨p1, p2⟩ := p
      rw [lookup_cons_ne hne]
      exact ih hn.2 h

theorem lookup_none_of_not_key {l : List (Var × Nat)} {k : Var} (h : k ∉ l.map (·.1)) : l.lookup k = none := by
  rw [List.lookup_eq_none_iff]
  intro p hp
  simp only [bne_iff_ne, ne_eq]
  intro he
  exact h (List.mem_map.mpr ⟨p, hp, he.symm⟩)

/-- The extension of `τ` by the node table. -/
def extend (inp : Input) (ρ τ : Var → Nat) : Var → Nat :=
  fun x => match (inp.nodeTable ρ τ).lookup x with
    | some v => v
    | none => τ x

theorem namesOK_iff (inp : Input) (ρ : Var → Nat) :
    namesOK inp ρ = true ↔ (inp.nodeKeys ρ).Nodup ∧ ∀ k ∈ inp.nodeKeys ρ, ∀ a ∈ inp.axes ρ, a.2.2 ≠ k := by
  unfold namesOK
  simp only [Bool.and_eq_true, decide_eq_true_eq, List.all_eq_true, Bool.not_eq_eq_eq_not, Bool.not_true,
    List.any_eq_false, beq_iff_eq]

/-- **Completeness of the semantic reading** (needs the name hygiene): a semantic solution extends,
without changing any axis variable, to a solution of the value system, with the same shapes. -/
theorem sem_sat (inp : Input) (ρ τ : Var → Nat) (hn : namesOK inp ρ = true) (h : SemSat inp ρ τ) :
    Sat (valueSystem inp ρ) (extend inp ρ τ) ∧
    (∀ a ∈ inp.axes ρ, extend inp ρ τ a.2.2 = τ a.2.2) ∧
    shapesOf inp ρ (extend inp ρ τ) = semShapes inp ρ τ := by
  rw [namesOK_iff] at hn
  obtain ⟨hnd, hdisj⟩ := hn
  have hkeys := nodeTable_keys inp ρ τ
  have hax : ∀ a ∈ inp.axes ρ, extend inp ρ τ a.2.2 = τ a.2.2 := by
    intro a ha
    have : (inp.nodeTable ρ τ).lookup a.2.2 = none := by
      apply lookup_none_of_not_key
      rw [hkeys]
      intro hk
      exact hdisj _ hk a ha rfl
    simp only [extend, this]
  have htab : ∀ p ∈ inp.nodeTable ρ τ, extend inp ρ τ p.1 = p.2 := by
    intro p hp
    have : (inp.nodeTable ρ τ).lookup p.1 = some p.2 := lookup_of_nodup (by rw [hkeys]; exact hnd) hp
    simp only [extend, this]
  have hsat : Sat (valueSystem inp ρ) (extend inp ρ τ) := by
    rw [sat_valueSystem_iff]
    refine ⟨?_, ?_⟩
    · intro p hp
      obtain ⟨ht, i, hi, hg⟩ := mem_gens hp
      have hT : ∀ q ∈ nodeVals ρ τ ("#" ++ toString i) [] p.1.expr, extend inp ρ τ q.1 = q.2 := by
        intro q hq
        apply htab
        unfold Input.nodeTable
        exact List.mem_flatMap.mpr ⟨(p.1, i), hi, hq⟩
      have hA : ∀ a ∈ axesOf ρ [] p.1.expr, extend inp ρ τ a.2.2 = τ a.2.2 :=
        fun a ha => hax a (mem_inputAxes.mpr ⟨p.1, ht, ha⟩)
      rw [hg]
      refine ⟨?_, expand_complete ρ τ _ p.1.expr _ [] hT hA, ?_⟩
      · intro x hx
        rw [expand_vars] at hx
        rcases hx with hx | hx
        · obtain ⟨a, ha, rfl⟩ := List.mem_map.mp hx
          rw [hA a ha]
          exact h.axesPos p.1 ht a ha
        · rw [← nodeVals_keys ρ τ p.1.expr _ []] at hx
          obtain ⟨q, hq, rfl⟩ := List.mem_map.mp hx
          rw [hT q hq]
          apply h.nodesPos p.1 ht
          rw [← nodeVals_values ρ τ p.1.expr ("#" ++ toString i) []]
          exact List.mem_map.mpr ⟨q, hq, rfl⟩
      · intro dims hd
        rw [expand_items ρ τ _ p.1.expr _ [] hT hA]
        exact h.roots p.1 ht dims hd
    · intro c hc a ha hname
      obtain ⟨t, ht, ha'⟩ := mem_inputAxes.mp ha
      rw [hax a ha]
      exact h.constraints c hc t ht a ha' hname
  refine ⟨hsat, hax, ?_⟩
  rw [shapes_of_sat inp ρ _ hsat]
  unfold semShapes
  apply List.map_congr_left
  intro t ht
  exact evalItems_congr ρ _ τ t.expr [] (fun a ha => hax a (mem_inputAxes.mpr ⟨t, ht, ha⟩))

end Einx.Solve
