import EinxModel.Proofs.NotationPieces
import EinxModel.Notation.Spec
/-!
# Rejection at the lexer and at the delimiter stack (helper lemmas for Props/C03Reject.lean)

Declarative string-level predicates (no token, no tree):

* `alphabetChar c` — `c` can occur in some valid token: a character of a literal, a name character, a digit;
* `delimRun s st` — the textbook bracket-matching scan of the characters of `s` with a stack of expected closers;
  `balanced s` — the scan ends with an empty stack.

and their relation to the executable model: `lex` (first invalid token) and `buildTree` (the delimiter stack).
-/
namespace Einx.Notation

/-! ## The alphabet -/

theorem isNameStart_cont {c : Char} (h : isNameStart c = true) : isNameCont c = true := by
  simp only [isNameStart, isNameCont, Bool.or_eq_true] at *
  rcases h with h | h
  · exact Or.inl (Or.inl h)
  · exact Or.inr h

theorem mem_litChars_of_mem {l : Str} {c : Char} (hl : l ∈ literals ++ naryOps) (hc : c ∈ l) : litChars.contains c = true := by
  simp only [litChars, List.contains_iff_mem, List.mem_flatten]
  exact ⟨l, hl, hc⟩

/-- Every character of a valid token is in the alphabet. -/
theorem validToken_chars {t : Str} (h : validToken t = true) : ∀ c ∈ t, alphabetChar c = true := by
  intro c hc
  simp only [validToken, Bool.or_eq_true] at h
  simp only [alphabetChar, Bool.or_eq_true]
  rcases h with ((h | h) | h) | h
  · right; exact mem_litChars_of_mem (List.mem_append_left _ (List.contains_iff_mem.mp h)) hc
  · right; exact mem_litChars_of_mem (List.mem_append_right _ (List.contains_iff_mem.mp h)) hc
  · left; left
    cases t with
    | nil => cases hc
    | cons a as =>
      simp only [isAxisName, Bool.and_eq_true, List.all_eq_true] at h
      rcases List.mem_cons.mp hc with rfl | hc
      · exact isNameStart_cont h.1
      · exact h.2 c hc
  · left; right
    simp only [isDigitStr, Bool.and_eq_true, List.all_eq_true] at h
    exact h.2 c hc

/-! ## The lexer covers the text -/

theorem mem_flush {cur : Str} {start pos : Nat} {c : Char} (hc : c ∈ cur) :
    ∃ t ∈ flush cur start pos, c ∈ t.text := by
  unfold flush
  cases cur with
  | nil => cases hc
  | cons a as => exact ⟨⟨a :: as, start, pos⟩, by simp, hc⟩

/-- Every character of the pending text and of the remaining text ends up in some token. -/
theorem segment_covers (lits : List Str) (cs : Str) (pos start : Nat) (cur : Str) :
    ∀ c ∈ cur ++ cs, ∃ t ∈ segment lits cs pos start cur, c ∈ t.text := by
  fun_induction segment lits cs pos start cur with
  | case1 pos start cur =>
    intro c hc
    rw [List.append_nil] at hc
    exact mem_flush hc
  | case2 pos start cur c0 rest l hl ih =>
    intro c hc
    rcases List.mem_append.mp hc with hc | hc
    · obtain ⟨t, ht, hct⟩ := mem_flush (start := start) (pos := pos) hc
      exact ⟨t, List.mem_append_left _ ht, hct⟩
    · have hp := matchLit_isPrefix hl
      obtain ⟨r, hr⟩ := hp
      have hdrop : (c0 :: rest).drop l.length = r := by rw [← hr]; simp
      rw [← hr] at hc
      rcases List.mem_append.mp hc with hc | hc
      · exact ⟨⟨l, pos, pos + l.length⟩, List.mem_append_right _ (by simp), hc⟩
      · obtain ⟨t, ht, hct⟩ := ih c (by rw [hdrop]; simpa using hc)
        exact ⟨t, List.mem_append_right _ (List.mem_cons_of_mem _ ht), hct⟩
  | case3 pos start cur c0 rest hl ih =>
    intro c hc
    exact ih c (by simpa using hc)

/-- A token of the segmentation is a literal, or a run of characters at none of which a literal starts. -/
theorem segment_tokens (lits : List Str) (cs : Str) (pos start : Nat) (cur : Str) (P : Char → Prop)
    (hP : ∀ c rest, matchLit lits (c :: rest) = none → P c) (hcur : ∀ c ∈ cur, P c) :
    ∀ t ∈ segment lits cs pos start cur, t.text ∈ lits ∨ ∀ c ∈ t.text, P c := by
  fun_induction segment lits cs pos start cur with
  | case1 pos start cur =>
    intro t ht
    unfold flush at ht
    split at ht
    · cases ht
    · simp only [List.mem_singleton] at ht
      subst ht
      exact Or.inr hcur
  | case2 pos start cur c0 rest l hl ih =>
    intro t ht
    rcases List.mem_append.mp ht with ht | ht
    · unfold flush at ht
      split at ht
      · cases ht
      · simp only [List.mem_singleton] at ht
        subst ht
        exact Or.inr hcur
    · rcases List.mem_cons.mp ht with ht | ht
      · subst ht
        left
        have : ∀ (ls : List Str) (v l : Str), matchLit ls v = some l → l ∈ ls := by
          intro ls
          induction ls with
          | nil => intro v l h; simp [matchLit] at h
          | cons a as ih2 =>
            intro v l h
            simp only [matchLit] at h
            split at h
            · cases h; simp
            · exact List.mem_cons_of_mem _ (ih2 v l h)
        exact this _ _ _ hl
      · exact ih (by intro c hc; cases hc) t ht
  | case3 pos start cur c0 rest hl ih =>
    intro t ht
    apply ih _ t ht
    intro c hc
    rcases List.mem_append.mp hc with hc | hc
    · exact hcur c hc
    · simp only [List.mem_singleton] at hc
      subst hc
      exact hP _ _ hl

/-- The concatenation of the token texts is the text. -/
theorem segment_concat (lits : List Str) (cs : Str) (pos start : Nat) (cur : Str) :
    (segment lits cs pos start cur).flatMap (·.text) = cur ++ cs := by
  fun_induction segment lits cs pos start cur with
  | case1 pos start cur =>
    unfold flush
    split
    · rename_i h; simp only [List.isEmpty_iff] at h; subst h; rfl
    · simp
  | case2 pos start cur c0 rest l hl ih =>
    have hp := matchLit_isPrefix hl
    obtain ⟨r, hr⟩ := hp
    have hdrop : (c0 :: rest).drop l.length = r := by rw [← hr]; simp
    rw [List.flatMap_append, List.flatMap_cons, ih, hdrop, List.nil_append, ← hr]
    congr 1
    unfold flush
    split
    · rename_i h; simp only [List.isEmpty_iff] at h; subst h; rfl
    · simp
  | case3 pos start cur c0 rest hl ih =>
    rw [ih]; simp

/-! ## Bad characters -/

/-- A text with a character outside the alphabet has an invalid token. -/
theorem lex_bad_char (text : Str) (c : Char) (hc : c ∈ text) (hbad : alphabetChar c = false) :
    ∃ pos, lex text = .error (.syntax .invalidToken pos []) := by
  obtain ⟨t, ht, hct⟩ := segment_covers literals text 0 0 [] c (by simpa using hc)
  have hinv : validToken t.text = false := by
    cases hv : validToken t.text with
    | false => rfl
    | true => rw [validToken_chars hv c hct] at hbad; cases hbad
  unfold lex
  dsimp only
  cases hf : (segment literals text 0 0 []).find? (fun t => !validToken t.text) with
  | some t' => exact ⟨_, rfl⟩
  | none =>
    have := List.find?_eq_none.mp hf t ht
    simp [hinv] at this

/-! ## Balanced delimiters -/

theorem delimRun_append (xs ys : Str) (st : List Char) :
    delimRun (xs ++ ys) st = match delimRun xs st with | some st' => delimRun ys st' | none => none := by
  induction xs generalizing st with
  | nil => rfl
  | cons x xs ih =>
    simp only [List.cons_append, delimRun]
    cases delimStep st x with
    | none => rfl
    | some st' => exact ih st'

theorem delimRun_clean (xs : Str) (st : List Char) (h : ∀ c ∈ xs, isDelimChar c = false) : delimRun xs st = some st := by
  induction xs with
  | nil => rfl
  | cons x xs ih =>
    have hx := h x (by simp)
    simp only [isDelimChar, Bool.or_eq_false_iff] at hx
    simp only [delimRun, delimStep, hx.1.1.1, hx.1.1.2, hx.1.2, hx.2, Bool.or_self, if_false, Bool.false_eq_true]
    exact ih (fun c hc => h c (List.mem_cons_of_mem _ hc))

/-- A token is a single delimiter, or contains no delimiter character. -/
def TokenClean (t : Token) : Prop :=
  t.text = ['('] ∨ t.text = ['['] ∨ t.text = [')'] ∨ t.text = [']'] ∨ ∀ c ∈ t.text, isDelimChar c = false

theorem matchLit_none_not_delim (c : Char) (rest : Str) (h : matchLit literals (c :: rest) = none) : isDelimChar c = false := by
  cases hd : isDelimChar c with
  | false => rfl
  | true =>
    simp only [isDelimChar, Bool.or_eq_true, beq_iff_eq] at hd
    have : literals.contains [c] = true := by
      rw [literals_eq]
      rcases hd with ((rfl | rfl) | rfl) | rfl <;> decide
    have := matchLit_lit this rest
    simp only [List.singleton_append] at this
    rw [this] at h
    cases h

theorem segment_clean (text : Str) : ∀ t ∈ segment literals text 0 0 [], TokenClean t := by
  intro t ht
  rcases segment_tokens literals text 0 0 [] (fun c => isDelimChar c = false) matchLit_none_not_delim (by intro c hc; cases hc) t ht with h | h
  · have hc := literals_contains_cases (List.contains_iff_mem.mpr h)
    unfold TokenClean
    rcases hc with h | h | h | h | h | h | h | h | h
    all_goals first
      | (right; right; right; right; rw [h]; decide)
      | (left; exact h)
      | (right; left; exact h)
      | (right; right; left; exact h)
      | (right; right; right; left; exact h)
  · exact Or.inr (Or.inr (Or.inr (Or.inr h)))

/-- The duplicate-space pass does not change the scan. -/
theorem delimRun_dedup (ts : List Token) (f : Bool) (st : List Char) :
    delimRun ((dedupSpaces ts f).flatMap (·.text)) st = delimRun (ts.flatMap (·.text)) st := by
  induction ts generalizing f st with
  | nil => rfl
  | cons t ts ih =>
    simp only [dedupSpaces]
    by_cases hs : t.isSpace = true
    · have ht : t.text = [' '] := by simpa [Token.isSpace, spaceLit] using hs
      have hstep : ∀ st, delimRun (t.text ++ ts.flatMap (·.text)) st = delimRun (ts.flatMap (·.text)) st := by
        intro st; rw [ht]; rfl
      simp only [hs, if_true]
      cases f
      · simp only [Bool.false_eq_true, if_false, List.flatMap_cons]
        rw [hstep, ht]
        exact ih true st
      · simp only [if_true, List.flatMap_cons]
        rw [hstep]
        exact ih true st
    · simp only [hs, Bool.false_eq_true, if_false, List.flatMap_cons]
      rw [delimRun_append, delimRun_append]
      cases delimRun t.text st with
      | none => rfl
      | some st' => exact ih false st'

/-- Expected closer of an opening token. -/
def closerOf (o : Token) : Char := if o.text = ['('] then ')' else ']'

def IsOpen (o : Token) : Prop := o.text = ['('] ∨ o.text = ['[']

theorem delimsBack_eq : delimsBack = [[')'], [']']] := by decide
theorem delimsFront_eq' : delimsFront = [['('], ['[']] := by decide

/-- The outcome of the delimiter stack is determined by the character scan: a mismatching closer is `closingNotOpened`, leftover
    openers are `openingNotClosed`, otherwise a token tree. -/
theorem buildTree_scan : ∀ (ts : List Token) (frames : List (Token × List Tok)) (base : List Tok),
    (∀ t ∈ ts, TokenClean t) → (∀ f ∈ frames, IsOpen f.1) →
    match delimRun (ts.flatMap (·.text)) (frames.map (fun f => closerOf f.1)) with
    | none => ∃ pos, buildTree ts frames base = .error (.syntax .closingNotOpened pos [])
    | some [] => ∃ tree, buildTree ts frames base = .ok tree
    | some (_ :: _) => ∃ pos, buildTree ts frames base = .error (.syntax .openingNotClosed pos [])
  | [], frames, base, _, _ => by
    cases frames with
    | nil => exact ⟨_, rfl⟩
    | cons f fs => obtain ⟨o, items⟩ := f; exact ⟨_, rfl⟩
  | t :: ts, frames, base, hts, hfr => by
    have ih := buildTree_scan ts
    have hts' : ∀ t ∈ ts, TokenClean t := fun x hx => hts x (List.mem_cons_of_mem _ hx)
    have ht := hts t (by simp)
    simp only [List.flatMap_cons]
    rw [delimRun_append]
    rcases ht with ht | ht | ht | ht | ht
    · -- "("
      have h1 : delimsFront.contains t.text = true := by rw [ht, delimsFront_eq']; decide
      have hrun : delimRun t.text (frames.map (fun f => closerOf f.1)) = some (')' :: frames.map (fun f => closerOf f.1)) := by
        rw [ht]; rfl
      rw [hrun]
      simp only [buildTree, h1, if_true]
      have := ih ((t, []) :: frames) base hts' (by
        intro f hf; rcases List.mem_cons.mp hf with rfl | hf
        · exact Or.inl ht
        · exact hfr f hf)
      simpa [closerOf, ht] using this
    · -- "["
      have h1 : delimsFront.contains t.text = true := by rw [ht, delimsFront_eq']; decide
      have hrun : delimRun t.text (frames.map (fun f => closerOf f.1)) = some (']' :: frames.map (fun f => closerOf f.1)) := by
        rw [ht]; rfl
      rw [hrun]
      simp only [buildTree, h1, if_true]
      have := ih ((t, []) :: frames) base hts' (by
        intro f hf; rcases List.mem_cons.mp hf with rfl | hf
        · exact Or.inr ht
        · exact hfr f hf)
      simpa [closerOf, ht] using this
    · -- ")"
      have h1 : delimsFront.contains t.text = false := by rw [ht, delimsFront_eq']; decide
      have h2 : delimsBack.contains t.text = true := by rw [ht, delimsBack_eq]; decide
      simp only [buildTree, h1, h2, if_true, Bool.false_eq_true, if_false]
      cases frames with
      | nil => rw [ht]; exact ⟨_, rfl⟩
      | cons f fs =>
        obtain ⟨o, items⟩ := f
        have ho : IsOpen o := hfr (o, items) (by simp)
        rcases ho with ho | ho
        · -- matches
          have hc : (closingOf o.text != some t.text) = false := by rw [ho, ht]; decide
          have hrun : delimRun t.text (((o, items) :: fs).map (fun f => closerOf f.1)) = some (fs.map (fun f => closerOf f.1)) := by
            rw [ht]; simp [delimRun, delimStep, closerOf, ho]
          rw [hrun]
          simp only [hc, Bool.false_eq_true, if_false]
          cases fs with
          | nil => exact ih [] _ hts' (by simp)
          | cons f2 fs2 =>
            obtain ⟨o2, items2⟩ := f2
            have := ih ((o2, items2 ++ [Tok.group o t items]) :: fs2) base hts' (by
              intro f hf; rcases List.mem_cons.mp hf with rfl | hf
              · exact hfr (o2, items2) (by simp)
              · exact hfr f (by simp [hf]))
            simpa [closerOf] using this
        · have hc : (closingOf o.text != some t.text) = true := by rw [ho, ht]; decide
          have hrun : delimRun t.text (((o, items) :: fs).map (fun f => closerOf f.1)) = none := by
            rw [ht]; simp [delimRun, delimStep, closerOf, ho]
          rw [hrun]
          simp only [hc, if_true]
          exact ⟨_, rfl⟩
    · -- "]"
      have h1 : delimsFront.contains t.text = false := by rw [ht, delimsFront_eq']; decide
      have h2 : delimsBack.contains t.text = true := by rw [ht, delimsBack_eq]; decide
      simp only [buildTree, h1, h2, if_true, Bool.false_eq_true, if_false]
      cases frames with
      | nil => rw [ht]; exact ⟨_, rfl⟩
      | cons f fs =>
        obtain ⟨o, items⟩ := f
        have ho : IsOpen o := hfr (o, items) (by simp)
        rcases ho with ho | ho
        · have hc : (closingOf o.text != some t.text) = true := by rw [ho, ht]; decide
          have hrun : delimRun t.text (((o, items) :: fs).map (fun f => closerOf f.1)) = none := by
            rw [ht]; simp [delimRun, delimStep, closerOf, ho]
          rw [hrun]
          simp only [hc, if_true]
          exact ⟨_, rfl⟩
        · have hc : (closingOf o.text != some t.text) = false := by rw [ho, ht]; decide
          have hrun : delimRun t.text (((o, items) :: fs).map (fun f => closerOf f.1)) = some (fs.map (fun f => closerOf f.1)) := by
            rw [ht]; simp [delimRun, delimStep, closerOf, ho]
          rw [hrun]
          simp only [hc, Bool.false_eq_true, if_false]
          cases fs with
          | nil => exact ih [] _ hts' (by simp)
          | cons f2 fs2 =>
            obtain ⟨o2, items2⟩ := f2
            have := ih ((o2, items2 ++ [Tok.group o t items]) :: fs2) base hts' (by
              intro f hf; rcases List.mem_cons.mp hf with rfl | hf
              · exact hfr (o2, items2) (by simp)
              · exact hfr f (by simp [hf]))
            simpa [closerOf] using this
    · -- no delimiter character
      have hne : ∀ d : Char, isDelimChar d = true → t.text ≠ [d] := by
        intro d hd he
        have := ht d (by rw [he]; simp)
        rw [hd] at this; cases this
      have h1 : delimsFront.contains t.text = false := by
        rw [delimsFront_eq']
        have a := hne '(' (by decide)
        have b := hne '[' (by decide)
        simp [a, b]
      have h2 : delimsBack.contains t.text = false := by
        rw [delimsBack_eq]
        have a := hne ')' (by decide)
        have b := hne ']' (by decide)
        simp [a, b]
      rw [delimRun_clean _ _ ht]
      simp only [buildTree, h1, h2, Bool.false_eq_true, if_false]
      cases frames with
      | nil => exact ih [] _ hts' (by simp)
      | cons f fs =>
        obtain ⟨o, items⟩ := f
        have := ih ((o, items ++ [Tok.atom t]) :: fs) base hts' (by
          intro f hf; rcases List.mem_cons.mp hf with rfl | hf
          · exact hfr (o, items) (by simp)
          · exact hfr f (by simp [hf]))
        simpa [closerOf] using this

theorem lex_ok_tokens {text : Str} {toks : List Token} (h : lex text = .ok toks) :
    toks = segment literals text 0 0 [] ∧ ∀ t ∈ toks, validToken t.text = true := by
  unfold lex at h
  dsimp only at h
  split at h
  · cases h
  · rename_i hf
    cases h
    refine ⟨rfl, ?_⟩
    intro t ht
    have := List.find?_eq_none.mp hf t ht
    simpa using this

/-- After a successful `lex`, the delimiter stack accepts exactly the balanced texts, and reports the two kinds of
    imbalance as the two documented errors. -/
theorem stack_scan (text : Str) (toks : List Token) (h : lex text = .ok toks) :
    match delimRun text [] with
    | none => ∃ pos, buildTree (dedupSpaces toks false) [] [] = .error (.syntax .closingNotOpened pos [])
    | some [] => ∃ tree, buildTree (dedupSpaces toks false) [] [] = .ok tree
    | some (_ :: _) => ∃ pos, buildTree (dedupSpaces toks false) [] [] = .error (.syntax .openingNotClosed pos []) := by
  obtain ⟨htoks, _⟩ := lex_ok_tokens h
  have hclean : ∀ t ∈ dedupSpaces toks false, TokenClean t := by
    intro t ht
    have := mem_dedupSpaces ht
    rw [htoks] at this
    exact segment_clean text t this
  have := buildTree_scan (dedupSpaces toks false) [] [] hclean (by intro f hf; cases hf)
  rw [List.map_nil, delimRun_dedup, htoks, segment_concat, List.nil_append] at this
  rw [htoks]
  exact this

end Einx.Notation
