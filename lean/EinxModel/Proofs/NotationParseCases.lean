import EinxModel.Proofs.Notation
/-!
# M1 Notation — one equation per branch of `parse`

`parse` is defined by well-founded recursion; these lemmas state its unfolding branch by branch so that proofs about two
runs of `parse` (space invariance) or about `parse` on a known token tree (re-parsing printed text) can rewrite with
them instead of unfolding the definition.
-/
namespace Einx.Notation

theorem parse_nil {ts : List Tok} (b e : Nat) (ipc : Bool) (h : strip ts = []) :
    parse ts b e ipc = .ok (mkList [] b e) := by
  rw [parse]
  split
  · rfl
  all_goals simp_all

theorem parse_group {ts : List Tok} (b e : Nat) (ipc : Bool) {o c : Token} {inner : List Tok}
    (h : strip ts = [.group o c inner]) :
    parse ts b e ipc =
      match parse inner (firstInnerPos inner c) (lastEnd inner (firstInnerPos inner c)) (o.text == lit "(") with
      | .error err => .error err
      | .ok x =>
        if o.text == lit "(" then
          if x.isConcat then .ok x else .ok (mkFlat x o.b c.e)
        else if o.text == lit "[" then .ok (mkBrackets x o.b c.e)
        else .error (.internal .assertDelimiter) := by
  rw [parse]
  split
  · simp_all
  · rename_i o' c' inner' hs
    rw [h] at hs
    simp only [List.cons.injEq, Tok.group.injEq, and_true] at hs
    obtain ⟨rfl, rfl, rfl⟩ := hs
    rfl
  · rename_i t0 rest hng hs
    rw [h] at hs
    simp only [List.cons.injEq] at hs
    exact (hng _ _ _ hs.1.symm hs.2.symm).elim

theorem mapM_attach_eq {α β : Type} (l : List α) (f : α → Res β) :
    l.attach.mapM (fun o => f o.1) = l.mapM f := by
  rw [List.mapM_subtype (g := f) (by intros; rfl), List.unattach_attach]

/-- Not a single group (the `TokenList` case of `parse`). -/
def NotGroup (t0 : Tok) (rest : List Tok) : Prop := ∀ o c inner, t0 = .group o c inner → rest = [] → False

theorem parse_nary {ts : List Tok} (b e : Nat) (ipc : Bool) {t0 : Tok} {rest : List Tok} {op : Str}
    (h : strip ts = t0 :: rest) (hng : NotGroup t0 rest)
    (hop : findOp naryOps (t0 :: rest) = some op) :
    parse ts b e ipc =
      match (keepOperands op (operands op (t0 :: rest))).mapM (fun o => parse o.ts o.b o.e false) with
      | .error err => .error err
      | .ok xs => combine op xs t0.b (lastEnd (t0 :: rest) 0) ipc (t0 :: rest) := by
  rw [parse]
  split
  · simp_all
  · rename_i o' c' inner' hs
    rw [h] at hs
    simp only [List.cons.injEq] at hs
    exact (hng _ _ _ hs.1 hs.2).elim
  · rename_i t0' rest' _ hs
    rw [h] at hs
    simp only [List.cons.injEq] at hs
    obtain ⟨rfl, rfl⟩ := hs
    simp only
    split
    · rename_i op' hop'
      rw [hop] at hop'
      cases hop'
      rw [mapM_attach_eq _ (fun (o : TL) => parse o.ts o.b o.e false)]
      rfl
    · rename_i hop'
      rw [hop] at hop'
      cases hop'

theorem parse_atom {ts : List Tok} (b e : Nat) (ipc : Bool) {t : Token}
    (h : strip ts = [.atom t]) (hop : findOp naryOps [.atom t] = none) :
    parse ts b e ipc =
      if t.text == ellipsisLit then .ok (mkEllipsis (.axis anonName none t.b t.b) t.b t.e t.b) else parseAxis t := by
  rw [parse]
  split
  · simp_all
  · rename_i o' c' inner' hs
    rw [h] at hs
    simp at hs
  · rename_i t0' rest' _ hs
    rw [h] at hs
    simp only [List.cons.injEq] at hs
    obtain ⟨rfl, rfl⟩ := hs
    simp only
    split
    · rename_i op' hop'
      rw [hop] at hop'
      cases hop'
    · rfl

theorem parse_ell {ts : List Tok} (b e : Nat) (ipc : Bool) {x : Tok} {t : Token}
    (h : strip ts = [x, .atom t]) (hop : findOp naryOps [x, .atom t] = none) :
    parse ts b e ipc =
      if t.text == ellipsisLit then
        match parse [x] x.b x.e false with
        | .error err => .error err
        | .ok operand => .ok (mkEllipsis operand x.b t.e t.b)
      else .error (.syntax (.invalidExpr true) (posRange (Int.ofNat x.b) (Int.ofNat (lastEnd [x, .atom t] 0))) []) := by
  rw [parse]
  split
  · simp_all
  · rename_i o' c' inner' hs
    rw [h] at hs
    simp at hs
  · rename_i t0' rest' _ hs
    rw [h] at hs
    simp only [List.cons.injEq] at hs
    obtain ⟨rfl, rfl⟩ := hs
    simp only
    split
    · rename_i op' hop'
      rw [hop] at hop'
      cases hop'
    · rfl

theorem parse_invalid {ts : List Tok} (b e : Nat) (ipc : Bool) {t0 : Tok} {rest : List Tok}
    (h : strip ts = t0 :: rest) (hop : findOp naryOps (t0 :: rest) = none)
    (h1 : rest ≠ []) (h2 : ∀ t, rest ≠ [.atom t]) :
    parse ts b e ipc =
      .error (.syntax (.invalidExpr (decide ((t0 :: rest).length > 1)))
        (posRange (Int.ofNat t0.b) (Int.ofNat (lastEnd (t0 :: rest) 0))) []) := by
  rw [parse]
  split
  · simp_all
  · rename_i o' c' inner' hs
    rw [h] at hs
    simp only [List.cons.injEq] at hs
    exact (h1 hs.2).elim
  · rename_i t0' rest' _ hs
    rw [h] at hs
    simp only [List.cons.injEq] at hs
    obtain ⟨rfl, rfl⟩ := hs
    simp only
    split
    · rename_i op' hop'
      rw [hop] at hop'
      cases hop'
    · split
      · exact (h1 rfl).elim
      · exact (h2 _ rfl).elim
      · rfl

end Einx.Notation
