import EinxModel.Generic.LowerOps
import EinxModel.Proofs.Stb
/-! Size-genericity of the pieces that `Generic/LowerOps.lean` adds to `_squeeze_transpose_broadcast`: the variant
with `broadcast_to_unitary=True` (`stbU`), the expression it returns, and `_expr_to_axis`. -/
namespace Einx.Generic
open Einx.IR

theorem unitaryExprAux_sim (tag : Nat) {inNames : List String} : ∀ {eout eout' : List Ax} (k : Nat), Sim eout eout' →
    Sim (unitaryExprAux tag inNames k eout) (unitaryExprAux tag inNames k eout')
  | _, _, _, .nil => .nil
  | _, _, k, .cons (a := a) (b := b) hn ho h => by
    simp only [unitaryExprAux, hn]
    by_cases hc : inNames.contains b.name = true
    · simp only [hc, if_true]
      exact .cons hn ho (unitaryExprAux_sim tag (k + 1) h)
    · simp only [hc]
      exact .cons rfl rfl (unitaryExprAux_sim tag (k + 1) h)

theorem broadcastStepU_generic {s s' : St} {ein ein' eout eout' : List Ax} (hs : Rel s s')
    (hr : ((names eout).filter (fun n => !(names ein).contains n)).length > 0 → s.shape.length < eout.length)
    (hr' : ((names eout').filter (fun n => !(names ein').contains n)).length > 0 → s'.shape.length < eout'.length)
    (hi : Sim ein ein') (ho : Sim eout eout') :
    Rel (broadcastStepU s ein eout) (broadcastStepU s' ein' eout') := by
  unfold broadcastStepU
  simp only []
  have hbc : (names eout).filter (fun n => !(names ein).contains n) = (names eout').filter (fun n => !(names ein').contains n) := by
    rw [hi.names_eq, ho.names_eq]
  rw [hbc] at hr ⊢
  generalize (names eout').filter (fun n => !(names ein').contains n) = bc at *
  split
  · rename_i hpos
    have h1 := hr hpos
    have h2 := hr' hpos
    apply reshapeW_rel hs
    · rw [beq_false_of_length_ne _ _ (by simp; omega), beq_false_of_length_ne _ _ (by simp; omega)]
    · simp; exact ho.length_eq
  · exact hs

/-- `_squeeze_transpose_broadcast(…, broadcast_to_unitary=True)` on two length assignments with the same names and
the same 1-pattern: same outcome kind, the resulting states differ only in shapes, and the returned expressions
again have the same names and the same 1-pattern. -/
theorem stbU_generic (tag : Nat) {s s' : St} {ein ein' eout eout' : List Ax} (hs : Rel s s')
    (hsh : s.shape = lens ein) (hsh' : s'.shape = lens ein') (hi : Sim ein ein') (ho : Sim eout eout') :
    match stbU tag s ein eout, stbU tag s' ein' eout' with
    | .ok r, .ok r' => Sim r.1 r'.1 ∧ Rel r.2 r'.2
    | .error e, .error e' => e = e'
    | _, _ => False := by
  obtain ⟨hsim1, hrel1, hs1, hs1'⟩ := squeezeStep_generic hs hsh hsh' hi ho
  have h2 := transposeStep_generic hrel1 hsim1 ho
  unfold stbU
  generalize squeezeStep s ein eout = p1 at *
  generalize squeezeStep s' ein' eout' = p1' at *
  obtain ⟨e1, s1⟩ := p1
  obtain ⟨e1', s1'⟩ := p1'
  simp only [] at *
  cases ht : transposeStep s1 e1 eout with
  | error e =>
    cases ht' : transposeStep s1' e1' eout' with
    | error e' => simp only [ht, ht'] at h2; simp [bind, Except.bind, h2]
    | ok r' => simp [ht, ht'] at h2
  | ok r =>
    cases ht' : transposeStep s1' e1' eout' with
    | error e' => simp [ht, ht'] at h2
    | ok r' =>
      simp only [ht, ht'] at h2
      simp only [bind, Except.bind, pure, Except.pure]
      refine ⟨?_, broadcastStepU_generic h2 (transposeStep_rank hs1 ht) (transposeStep_rank hs1' ht') hsim1 ho⟩
      simp only [unitaryExpr]
      rw [hsim1.names_eq]
      exact unitaryExprAux_sim tag 0 ho

/-- `_expr_to_axis` depends on the names only. -/
theorem exprToAxis_sim (m : List String) {e e' : List Ax} (h : Sim e e') : exprToAxis m e = exprToAxis m e' := by
  have hl := h.length_eq
  unfold exprToAxis
  rw [hl]
  apply List.filter_congr
  intro k _
  have hn : ∀ {l l' : List Ax}, Sim l l' → ∀ k : Nat, (l[k]?).map (fun (a : Ax) => a.name) = (l'[k]?).map (fun (a : Ax) => a.name) := by
    intro l l' hs
    induction hs with
    | nil => intro k; rfl
    | cons hn _ _ ih =>
      intro k
      cases k with
      | zero => simp [hn]
      | succ k => simpa using ih k
  have := hn h k
  cases h1 : e[k]? with
  | none =>
    cases h2 : e'[k]? with
    | none => rfl
    | some b => simp [h1, h2] at this
  | some a =>
    cases h2 : e'[k]? with
    | none => simp [h1, h2] at this
    | some b =>
      simp only [h1, h2, Option.map_some, Option.some.injEq] at this
      simp only [this]

end Einx.Generic
