import EinxModel.Proofs.NotationPrintDefs
import Std.Data.String.ToNat
/-!
# M1 Notation — `natStr` is a string of ASCII decimal digits that `int()` maps back
-/
namespace Einx.Notation

theorem natStr_eq_toDigits (k : Nat) : natStr k = Nat.toDigits 10 k := by
  simp [natStr]

/-- Every character of `str(k)` has a code point in `48..57`. -/
theorem natStr_mem_range {k : Nat} {c : Char} (h : c ∈ natStr k) : 48 ≤ c.toNat ∧ c.toNat ≤ 57 := by
  rw [natStr_eq_toDigits] at h
  have hd : c.isDigit = true := Nat.isDigit_of_mem_toDigits (by decide) (by decide) h
  simp only [Char.isDigit, Bool.and_eq_true, decide_eq_true_eq, UInt32.le_iff_toNat_le] at hd
  exact ⟨hd.1, hd.2⟩

theorem isDigitChar_of_range {c : Char} (h : 48 ≤ c.toNat ∧ c.toNat ≤ 57) : isDigitChar c = true := by
  simp [isDigitChar, inRanges, Einx.Extracted.digitRanges, h.1, h.2]

theorem isDecimalChar_of_range {c : Char} (h : 48 ≤ c.toNat ∧ c.toNat ≤ 57) : isDecimalChar c = true := by
  simp [isDecimalChar, inRanges, Einx.Extracted.decimalRanges, h.1, h.2]

theorem decimalValue_of_range {c : Char} (h : 48 ≤ c.toNat ∧ c.toNat ≤ 57) :
    decimalValue c = c.toNat - 48 := by
  simp [decimalValue, Einx.Extracted.decimalRanges, h.1, h.2]

theorem isAsciiDigit_of_range {c : Char} (h : 48 ≤ c.toNat ∧ c.toNat ≤ 57) : isAsciiDigit c = true := by
  have h1 : '0' ≤ c := by
    rw [Char.le_def, UInt32.le_iff_toNat_le]; exact h.1
  have h2 : c ≤ '9' := by
    rw [Char.le_def, UInt32.le_iff_toNat_le]; exact h.2
  simp [isAsciiDigit, h1, h2]

theorem isNameCont_of_range {c : Char} (h : 48 ≤ c.toNat ∧ c.toNat ≤ 57) : isNameCont c = true := by
  simp [isNameCont, isAsciiDigit_of_range h]

theorem not_isNameStart_of_range {c : Char} (h : 48 ≤ c.toNat ∧ c.toNat ≤ 57) : isNameStart c = false := by
  have ha : ¬ 'a' ≤ c := by
    rw [Char.le_def, UInt32.le_iff_toNat_le]
    have : c.val.toNat = c.toNat := rfl
    have : ('a' : Char).val.toNat = 97 := rfl
    omega
  have hA : ¬ 'A' ≤ c := by
    rw [Char.le_def, UInt32.le_iff_toNat_le]
    have : c.val.toNat = c.toNat := rfl
    have : ('A' : Char).val.toNat = 65 := rfl
    omega
  have hu : c ≠ '_' := by
    intro hc
    subst hc
    have : ('_' : Char).toNat = 95 := rfl
    omega
  simp [isNameStart, isAsciiLetter, ha, hA, hu]

theorem foldl_decimal_eq_ofDigitChars (s : List Char) (acc : Nat)
    (h : ∀ c ∈ s, 48 ≤ c.toNat ∧ c.toNat ≤ 57) :
    s.foldl (fun acc c => 10 * acc + decimalValue c) acc = Nat.ofDigitChars 10 s acc := by
  induction s generalizing acc with
  | nil => simp [Nat.ofDigitChars]
  | cons c cs ih =>
    rw [List.foldl_cons, Nat.ofDigitChars_cons, decimalValue_of_range (h c (by simp))]
    exact ih _ (fun d hd => h d (by simp [hd]))

theorem natStr_ne_nil (k : Nat) : natStr k ≠ [] := by
  rw [natStr_eq_toDigits]; exact Nat.toDigits_ne_nil

theorem natStr_isDigitStr (k : Nat) : isDigitStr (natStr k) = true := by
  have hne := natStr_ne_nil k
  simp only [isDigitStr, Bool.and_eq_true, Bool.not_eq_true', List.isEmpty_eq_false_iff,
    List.all_eq_true]
  exact ⟨hne, fun c hc => isDigitChar_of_range (natStr_mem_range hc)⟩

theorem natStr_all_decimal (k : Nat) : (natStr k).all isDecimalChar = true := by
  rw [List.all_eq_true]
  exact fun c hc => isDecimalChar_of_range (natStr_mem_range hc)

theorem natStr_value (k : Nat) : intOfDecimals (natStr k) = k := by
  unfold intOfDecimals
  rw [foldl_decimal_eq_ofDigitChars _ _ (fun c hc => natStr_mem_range hc), natStr_eq_toDigits]
  exact Nat.ofDigitChars_ten_toDigits

theorem natStr_isWord (k : Nat) : isWord (natStr k) = true := by
  have hne := natStr_ne_nil k
  simp only [isWord, Bool.and_eq_true, Bool.not_eq_true', List.isEmpty_eq_false_iff,
    List.all_eq_true]
  exact ⟨hne, fun c hc => isNameCont_of_range (natStr_mem_range hc)⟩

theorem natStr_not_axisName (k : Nat) : isAxisName (natStr k) = false := by
  have hne := natStr_ne_nil k
  cases hs : natStr k with
  | nil => exact absurd hs hne
  | cons c cs =>
    have hc : c ∈ natStr k := by rw [hs]; simp
    simp [isAxisName, not_isNameStart_of_range (natStr_mem_range hc)]

end Einx.Notation
