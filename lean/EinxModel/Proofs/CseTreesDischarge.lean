import EinxModel.Solve.CseCheck2
import EinxModel.Proofs.CseTreesSound
import EinxModel.Proofs.CseTreesFilter
/-!
Helper lemmas for `Props/C02Cse.lean` (work package cse2): conjuncts of `cseCheck` that hold for **every** input.

* `valueRange_fixed_value`: `_value_range(e) = (m, False)` only if `e.value = m` — hence an expression with an unknown
  value that passed the filter of `cse` has an unbounded range (the conjunct `(valueOf e).isSome || ub` of `usedOK`).
* `used_minPos`: every replaced part is a part of the input, so its lower bounds are among the declared ones
  (`roots_decls`); with `minPosForest` they are positive (the conjunct `MinPos` of `usedOK`).
* `cseCheck_of_reduced`: `cseCheckReduced → cseCheck` on a run that does not raise.
-/
namespace Einx.Solve.CseT
open Einx.Solve

theorem prodOpt_map_some (vs : List Nat) : prodOpt (vs.map some) = some (natProd vs) := by
  induction vs with
  | nil => rfl
  | cons v vs ih => simp [prodOpt, ih, natProd]

theorem sumOpt_map_some (vs : List Nat) : sumOpt (vs.map some) = some vs.sum := by
  induction vs with
  | nil => rfl
  | cons v vs ih => simp [sumOpt, ih]

/-- ranges without a `None` and without an unbounded one are the fixed ones -/
theorem ranges_all_fixed : ∀ (ranges : List (Option (Nat × Bool))),
    ranges.any (fun r => r.isNone) = false → (unboundedMins (ranges.filterMap id)).length = 0 →
    ranges = (fixedMins (ranges.filterMap id)).map (fun v => some (v, false))
  | [], _, _ => by simp [fixedMins]
  | none :: rs, h, _ => by simp at h
  | some (v, true) :: rs, _, h => by simp [unboundedMins] at h
  | some (v, false) :: rs, h, h2 => by
    have h' : rs.any (fun r => r.isNone) = false := by simpa using h
    have h2' : (unboundedMins (rs.filterMap id)).length = 0 := by simpa [unboundedMins] using h2
    have ih := ranges_all_fixed rs h' h2'
    simp only [List.filterMap_cons, id, fixedMins, List.filter_cons, Bool.not_false, if_true, List.map_cons,
      List.cons.injEq, true_and]
    exact ih

theorem combine_fixed {isConcat : Bool} {ranges : List (Option (Nat × Bool))} {m : Nat}
    (h : combineRanges isConcat ranges = some (m, false)) :
    ranges = (fixedMins (ranges.filterMap id)).map (fun v => some (v, false)) ∧
      m = if isConcat then (fixedMins (ranges.filterMap id)).sum else natProd (fixedMins (ranges.filterMap id)) := by
  unfold combineRanges at h
  split at h
  · cases h
  · rename_i hany
    have hany' : ranges.any (fun r => r.isNone) = false := by
      cases hb : ranges.any (fun r => r.isNone) with
      | false => rfl
      | true => exact absurd hb hany
    cases isConcat with
    | true =>
      simp only [if_true, Option.some.injEq, Prod.mk.injEq, decide_eq_false_iff_not, Nat.not_lt,
        Nat.le_zero_eq] at h
      obtain ⟨hm, hlen⟩ := h
      have hnil : unboundedMins (ranges.filterMap id) = [] := List.eq_nil_of_length_eq_zero hlen
      refine ⟨ranges_all_fixed ranges hany' hlen, ?_⟩
      simp only [if_true]
      rw [← hm, hnil]; simp
    | false =>
      simp only [Bool.false_eq_true, if_false] at h
      split at h
      · rename_i hlen
        simp only [Option.some.injEq, Prod.mk.injEq, and_true] at h
        exact ⟨ranges_all_fixed ranges hany' hlen, by simp [h]⟩
      · split at h
        · simp at h
        · cases h

mutual
/-- **`_value_range(e) == (m, False)` only if `e.value == m`.** -/
theorem valueRange_fixed_value : ∀ (e : VExpr) (m : Nat), valueRange e = some (m, false) → valueOf e = some m
  | .axis _ none _, m => by simp [valueRange]
  | .axis _ (some v) _, m => by simp [valueRange, valueOf]
  | .flat e, m => by simp only [valueRange, valueOf]; exact valueRange_fixed_value e m
  | .brackets e, m => by simp only [valueRange, valueOf]; exact valueRange_fixed_value e m
  | .list cs, m => by
    intro h
    simp only [valueRange] at h
    obtain ⟨h1, h2⟩ := combine_fixed h
    simp only [valueOf, valueRanges_fixed_values cs _ h1, prodOpt_map_some]
    simp at h2; rw [h2]
  | .concat cs, m => by
    intro h
    simp only [valueRange] at h
    obtain ⟨h1, h2⟩ := combine_fixed h
    simp only [valueOf, valueRanges_fixed_values cs _ h1, sumOpt_map_some]
    simp at h2; rw [h2]
theorem valueRanges_fixed_values : ∀ (cs : List VExpr) (vs : List Nat),
    valueRanges cs = vs.map (fun v => some (v, false)) → valuesOf cs = vs.map some
  | [], vs => by intro h; cases vs <;> simp [valueRanges, valuesOf] at h ⊢
  | c :: cs, vs => by
    intro h
    cases vs with
    | nil => simp [valueRanges] at h
    | cons v vs =>
      simp only [valueRanges, List.map_cons, List.cons.injEq] at h
      simp only [valuesOf, List.map_cons]
      rw [valueRange_fixed_value c v h.1, valueRanges_fixed_values cs vs h.2]
end

/-- an expression with an unknown value that has a value range has an unbounded one -/
theorem unknown_value_unbounded {e : VExpr} {m : Nat} {ub : Bool} (hr : valueRange e = some (m, ub))
    (hv : valueOf e = none) : ub = true := by
  cases ub with
  | true => rfl
  | false => rw [valueRange_fixed_value e m hr] at hv; cases hv

/-! ### the reduced check implies the full one -/

theorem allPairs_spec {f : Ev → Ev → Bool} {evs : List Ev} (h : allPairs f evs = true) :
    ∀ a ∈ evs, ∀ b ∈ evs, f a b = true := by
  simp only [allPairs, List.all_eq_true] at h
  exact h

theorem pairOK_of_parts {a b : Ev} (h1 : freshPair a b = true) (h2 : copiedPair a b = true)
    (h3 : sharedPair a b = true) : pairOK a b = true := by
  cases a <;> cases b <;> simp_all [pairOK, freshPair, copiedPair, sharedPair]

/-- the bounds inside a replaced part are declared bounds of the input -/
theorem used_minPos (opts : Opts) (rs out : List (Option VExpr)) (hrun : cseTrees opts rs = .ok out)
    (hmin : minPosForest rs = true) {k : Nat} {e : VExpr} {len : Nat} {r : Bool}
    (hu : Ev.used k e len r ∈ cseEvents opts rs) : ∀ p ∈ freeAxes e, 1 ≤ p.2 := by
  have hpos : ∀ ev ∈ traceRoots (candidates opts rs) 0 rs, EvPos ev := by
    intro ev hev
    have := filt_cseEvents opts rs ev hev
    cases ev with
    | surv n m => trivial
    | used k e len r => exact this.1
  obtain ⟨_, hdi⟩ := roots_decls (candidates opts rs) rs 0 out hrun hpos
  intro p hp
  simp only [minPosForest, List.all_eq_true, decide_eq_true_eq] at hmin
  apply hmin
  rw [hdi]
  exact List.mem_flatMap.mpr ⟨_, hu, by simpa [inDecls] using hp⟩

theorem usedOK_of_parts (opts : Opts) (rs out : List (Option VExpr)) (hrun : cseTrees opts rs = .ok out)
    (hmin : minPosForest rs = true) {ev : Ev} (hev : ev ∈ cseEvents opts rs) (hroot : rootDimOK ev = true) :
    usedOK ev = true := by
  cases ev with
  | surv n m => rfl
  | used k e len r =>
    obtain ⟨_, hrep, _⟩ := filt_cseEvents opts rs _ hev
    have hmp := used_minPos opts rs out hrun hmin hev
    simp only [usedOK, Bool.and_eq_true, List.all_eq_true, decide_eq_true_eq, Bool.or_eq_true]
    refine ⟨⟨hmp, ?_⟩, by simpa [rootDimOK] using hroot⟩
    cases hv : valueOf e with
    | some v => left; rfl
    | none =>
      right
      cases hr : valueRange e with
      | none => simp [hr] at hrep
      | some p =>
        obtain ⟨m, ub⟩ := p
        have := unknown_value_unbounded hr hv
        subst this
        simp

/-- **The reduced side conditions imply the full ones** on a run that does not raise. -/
theorem cseCheck_of_reduced_aux (opts : Opts) (rs out : List (Option VExpr)) (hrun : cseTrees opts rs = .ok out)
    (h : cseCheckReduced opts rs = true) : cseCheck opts rs = true := by
  simp only [cseCheckReduced, inputOK, Bool.and_eq_true] at h
  obtain ⟨⟨⟨⟨⟨hwf, hmin⟩, hfresh⟩, hroot⟩, hcop⟩, hsh⟩ := h
  simp only [rootDimsOK, List.all_eq_true] at hroot
  simp only [cseCheck, traceOK, Bool.and_eq_true, List.all_eq_true]
  exact ⟨hwf, fun ev hev => usedOK_of_parts opts rs out hrun hmin hev (hroot ev hev),
    fun a ha b hb => pairOK_of_parts (allPairs_spec hfresh a ha b hb) (allPairs_spec hcop a ha b hb)
      (allPairs_spec hsh a ha b hb)⟩

end Einx.Solve.CseT
