import EinxModel.Order.Cse

namespace Einx.Order.Cse

/-! ### Naturality of the rebuild in the labels -/

@[simp] theorem Tok.kind_map {L L' : Type} (f : L → L') (t : Tok L) : (Tok.map f t).kind = t.kind := by
  cases t <;> rfl

theorem isSingleGroup_go_map {L L' : Type} (f : L → L') (c : Nat) (ts : List (Tok L)) :
    ∀ d, isSingleGroup.go c d (ts.map (Tok.map f)) = isSingleGroup.go c d ts := by
  induction ts with
  | nil => intro d; simp [isSingleGroup.go]
  | cons x xs ih =>
    intro d
    cases xs with
    | nil => simp [isSingleGroup.go]
    | cons y ys =>
      simp only [List.map_cons, isSingleGroup.go, Tok.kind_map]
      simp only [List.map_cons] at ih
      rw [ih, ih, ih]

theorem isSingleGroup_map {L L' : Type} (f : L → L') (o c : Nat) (ts : List (Tok L)) :
    isSingleGroup o c (ts.map (Tok.map f)) = isSingleGroup o c ts := by
  cases ts with
  | nil => simp [isSingleGroup]
  | cons t rest =>
    simp only [List.map_cons, isSingleGroup, Tok.kind_map, isSingleGroup_go_map]

theorem mkFlat_map {L L' : Type} (f : L → L') (ts : List (Tok L)) :
    mkFlat (ts.map (Tok.map f)) = (mkFlat ts).map (Tok.map f) := by
  unfold mkFlat
  rw [isSingleGroup_map]
  split <;> simp [Tok.map]

theorem mkBr_map {L L' : Type} (f : L → L') (ts : List (Tok L)) :
    mkBr (ts.map (Tok.map f)) = (mkBr ts).map (Tok.map f) := by
  unfold mkBr
  rw [isSingleGroup_map]
  split
  · rfl
  · cases ts <;> simp [Tok.map]

theorem joinPlus_map {L L' : Type} (f : L → L') (ns : List (List (Tok L))) :
    joinPlus (ns.map (List.map (Tok.map f))) = (joinPlus ns).map (Tok.map f) := by
  induction ns with
  | nil => simp [joinPlus]
  | cons n ns ih =>
    cases ns with
    | nil => simp [joinPlus]
    | cons m ms =>
      simp only [List.map_cons, joinPlus, List.map_append, Tok.map]
      simp only [List.map_cons] at ih
      rw [ih]

theorem mkConcat_map {L L' : Type} (f : L → L') (ns : List (List (Tok L))) :
    mkConcat (ns.map (List.map (Tok.map f))) = (mkConcat ns).map (Tok.map f) := by
  match ns with
  | [] => simp [mkConcat, Tok.map]
  | [n] => simp [mkConcat]
  | n :: m :: ms =>
    have := joinPlus_map f (n :: m :: ms)
    simp only [List.map_cons] at this
    simp only [List.map_cons, mkConcat, List.map_append, Tok.map, this, List.map_nil]

theorem nodeOr_map {L L' : Type} (f : L → L') (mn : Nat → Option L) (nid : Nat) (v : Option Nat)
    (other : List (List (Tok L))) :
    nodeOr (fun n => (mn n).map f) nid v (other.map (List.map (Tok.map f)))
      = (nodeOr mn nid v other).map (List.map (Tok.map f)) := by
  unfold nodeOr
  cases h : mn nid <;> simp [Tok.map, h]

section Natural
variable {L L' : Type} (f : L → L') (mn : Nat → Option L) (ma : List Nat → Option (L × Nat))

mutual
theorem rebuild_natural_aux : ∀ (t : Tree),
    rebuild (fun n => (mn n).map f) (fun ids => (ma ids).map (fun r => (f r.1, r.2))) t
      = (rebuild mn ma t).map (List.map (Tok.map f))
  | .axis n name v => by
    simp only [rebuild]
    rw [← nodeOr_map]; simp [Tok.map]
  | .list n cs => by
    simp only [rebuild]
    rw [← nodeOr_map]
    congr 1
    split
    · exact rebuildC_natural_aux cs
    · exact rebuildL_natural_aux 0 cs
  | .concat n cs => by
    simp only [rebuild]
    rw [← nodeOr_map, rebuildC_natural_aux cs]
    simp [mkConcat_map]
  | .br n i => by
    simp only [rebuild]
    rw [← nodeOr_map, rebuild_natural_aux i]
    simp [← mkBr_map, List.map_flatten]
  | .flat n i => by
    simp only [rebuild]
    rw [← nodeOr_map, rebuild_natural_aux i]
    simp [← mkFlat_map, List.map_flatten]
theorem rebuildL_natural_aux : ∀ (skip : Nat) (ts : List Tree),
    rebuildL (fun n => (mn n).map f) (fun ids => (ma ids).map (fun r => (f r.1, r.2))) skip ts
      = (rebuildL mn ma skip ts).map (List.map (Tok.map f))
  | skip, [] => by simp [rebuildL]
  | skip, t :: ts => by
    simp only [rebuildL]
    split
    · exact rebuildL_natural_aux (skip - 1) ts
    · cases h : ma (t.nid :: ts.map Tree.nid) with
      | none =>
        simp only [Option.map_none]
        rw [rebuild_natural_aux t, rebuildL_natural_aux 0 ts]
        simp
      | some r =>
        obtain ⟨l, len⟩ := r
        simp only [Option.map_some]
        rw [rebuildL_natural_aux (len - 1) ts]
        simp [Tok.map]
theorem rebuildC_natural_aux : ∀ (ts : List Tree),
    rebuildC (fun n => (mn n).map f) (fun ids => (ma ids).map (fun r => (f r.1, r.2))) ts
      = (rebuildC mn ma ts).map (List.map (Tok.map f))
  | [] => by simp [rebuildC]
  | t :: ts => by
    simp only [rebuildC]
    rw [rebuild_natural_aux t, rebuildC_natural_aux ts]
    simp
end
end Natural

/-- The rebuild is natural in the labels: renaming the labels delivered by the matchers renames the `cse` tokens and
changes nothing else. -/
theorem rebuild_natural {L L' : Type} (f : L → L') (mn : Nat → Option L) (ma : List Nat → Option (L × Nat)) (t : Tree) :
    rebuild (fun n => (mn n).map f) (fun ids => (ma ids).map (fun r => (f r.1, r.2))) t
      = (rebuild mn ma t).map (List.map (Tok.map f)) :=
  rebuild_natural_aux f mn ma t

/-! ### The filters -/

/-- The two filter shapes of `cse()` commute with any re-enumeration of the candidates. -/
theorem filterEach_perm {α : Type} (p : α → Bool) {c₁ c₂ : List α} (h : c₁.Perm c₂) :
    (filterEach p c₁).Perm (filterEach p c₂) :=
  List.Perm.filter p h

theorem filterAgainst_perm {α : Type} [BEq α] (r : α → α → Bool) {c₁ c₂ : List α} (h : c₁.Perm c₂) :
    (filterAgainst r c₁).Perm (filterAgainst r c₂) := by
  unfold filterAgainst
  have : (fun c => !c₁.any (fun c2 => c2 != c && r c2 c)) = (fun c => !c₂.any (fun c2 => c2 != c && r c2 c)) := by
    funext c
    rw [List.Perm.any_eq h]
  rw [this]
  exact List.Perm.filter _ h

/-! ### List lemmas -/

theorem find?_perm_of_unique {α : Type} (p : α → Bool) {l₁ l₂ : List α} (h : l₁.Perm l₂)
    (hu : ∀ a, a ∈ l₁ → ∀ b, b ∈ l₁ → p a = true → p b = true → a = b) :
    l₁.find? p = l₂.find? p := by
  cases h₁ : l₁.find? p with
  | none =>
    rw [List.find?_eq_none] at h₁
    symm
    rw [List.find?_eq_none]
    intro x hx
    exact h₁ x (h.mem_iff.mpr hx)
  | some a =>
    have ha : p a = true := List.find?_some h₁
    have ham : a ∈ l₁ := List.mem_of_find?_eq_some h₁
    cases h₂ : l₂.find? p with
    | none =>
      rw [List.find?_eq_none] at h₂
      exact absurd ha (h₂ a (h.mem_iff.mp ham))
    | some b =>
      have hb : p b = true := List.find?_some h₂
      have hbm : b ∈ l₂ := List.mem_of_find?_eq_some h₂
      rw [hu a ham b (h.mem_iff.mpr hbm) ha hb]

theorem findIdx?_eq_map_idxOf {α : Type} [BEq α] [LawfulBEq α] (p : α → Bool) (l : List α) :
    l.findIdx? p = (l.find? p).map (fun x => l.idxOf x) := by
  induction l with
  | nil => simp
  | cons x xs ih =>
    rw [List.findIdx?_cons, List.find?_cons]
    cases hx : p x with
    | true => simp [List.idxOf_cons]
    | false =>
      simp only [Bool.false_eq_true, if_false]
      rw [ih]
      cases hf : xs.find? p with
      | none => simp
      | some y =>
        have hy : p y = true := List.find?_some hf
        have hne : (x == y) = false := by
          cases hxy : x == y with
          | false => rfl
          | true =>
            have := eq_of_beq hxy
            subst this
            rw [hx] at hy; cases hy
        simp [List.idxOf_cons, hne]

theorem renumber_idxOf (c₁ c₂ : List Cand) (x : Cand) (hx : x ∈ c₁) :
    renumber c₁ c₂ (c₁.idxOf x) = c₂.idxOf x := by
  have hlt : c₁.idxOf x < c₁.length := List.idxOf_lt_length_of_mem hx
  unfold renumber
  rw [List.getElem?_eq_getElem hlt, List.getElem_idxOf hlt]

theorem findIdx?_perm_renumber (p : Cand → Bool) (c₁ c₂ : List Cand) (hp : c₁.Perm c₂)
    (hu : ∀ a, a ∈ c₁ → ∀ b, b ∈ c₁ → p a = true → p b = true → a = b) :
    c₂.findIdx? p = (c₁.findIdx? p).map (renumber c₁ c₂) := by
  rw [findIdx?_eq_map_idxOf, findIdx?_eq_map_idxOf, ← find?_perm_of_unique p hp hu, Option.map_map]
  cases h : c₁.find? p with
  | none => rfl
  | some x =>
    have hx : x ∈ c₁ := List.mem_of_find?_eq_some h
    simp [renumber_idxOf c₁ c₂ x hx]

/-! ### Uniqueness of the matching candidate under `nonOverlapping` -/

/-- The predicate of `matchAt`. -/
def hitAt (ids : List Nat) (c : Cand) : Bool := c.any (fun el => !el.isEmpty && el.isPrefixOf ids)

theorem hitAt_unique (c₁ : List Cand) (hno : nonOverlapping c₁ = true) (ids : List Nat) :
    ∀ a, a ∈ c₁ → ∀ b, b ∈ c₁ → hitAt ids a = true → hitAt ids b = true → a = b := by
  intro a ha b hb hita hitb
  unfold nonOverlapping at hno
  rw [List.all_eq_true] at hno
  have h1 := hno a ha
  rw [List.all_eq_true] at h1
  have h2 := h1 b hb
  rw [Bool.or_eq_true] at h2
  cases h2 with
  | inl h => exact eq_of_beq h
  | inr h =>
    exfalso
    unfold hitAt at hita hitb
    rw [List.any_eq_true] at hita hitb
    obtain ⟨e1, he1, hp1⟩ := hita
    obtain ⟨e2, he2, hp2⟩ := hitb
    rw [List.all_eq_true] at h
    have h3 := h e1 he1
    rw [List.all_eq_true] at h3
    have h4 := h3 e2 he2
    rw [Bool.and_eq_true] at hp1 hp2
    obtain ⟨hn1, hpre1⟩ := hp1
    obtain ⟨hn2, hpre2⟩ := hp2
    have hpp := List.prefix_or_prefix_of_prefix (List.isPrefixOf_iff_prefix.mp hpre1) (List.isPrefixOf_iff_prefix.mp hpre2)
    have hpp' : (e1.isPrefixOf e2 || e2.isPrefixOf e1) = true := by
      rw [Bool.or_eq_true]
      cases hpp with
      | inl h => exact Or.inl (List.isPrefixOf_iff_prefix.mpr h)
      | inr h => exact Or.inr (List.isPrefixOf_iff_prefix.mpr h)
    simp [hpp'] at h4
    cases h4 with
    | inl h => simp [h] at hn1
    | inr h => simp [h] at hn2

theorem hitNode_imp_hitAt (nid : Nat) (c : Cand) (h : c.any (fun el => el == [nid]) = true) :
    hitAt [nid] c = true := by
  unfold hitAt
  rw [List.any_eq_true] at h ⊢
  obtain ⟨el, hel, he⟩ := h
  have := eq_of_beq he
  subst this
  exact ⟨[nid], hel, by simp⟩

/-! ### The matchers -/

/-- Under `nonOverlapping`, the matchers of two enumerations of the same (duplicate-free) candidates agree up to
`renumber`. -/
theorem matchNode_perm (c₁ c₂ : List Cand) (hp : c₁.Perm c₂) (hnd : c₁.Nodup) (hno : nonOverlapping c₁ = true) (nid : Nat) :
    matchNode c₂ nid = (matchNode c₁ nid).map (renumber c₁ c₂) := by
  have _ := hnd  -- not needed: `renumber` is defined through `idxOf`, which is canonical even with duplicates
  unfold matchNode
  apply findIdx?_perm_renumber _ c₁ c₂ hp
  intro a ha b hb pa pb
  exact hitAt_unique c₁ hno [nid] a ha b hb (hitNode_imp_hitAt nid a pa) (hitNode_imp_hitAt nid b pb)

theorem matchAt_perm (c₁ c₂ : List Cand) (hp : c₁.Perm c₂) (hnd : c₁.Nodup) (hno : nonOverlapping c₁ = true) (ids : List Nat) :
    matchAt c₂ ids = (matchAt c₁ ids).map (fun r => (renumber c₁ c₂ r.1, r.2)) := by
  have _ := hnd  -- not needed (see `matchNode_perm`)
  unfold matchAt
  have key := findIdx?_perm_renumber (hitAt ids) c₁ c₂ hp (hitAt_unique c₁ hno ids)
  unfold hitAt at key
  simp only
  rw [key]
  cases hk : c₁.findIdx? (fun c => c.any (fun el => !el.isEmpty && el.isPrefixOf ids)) with
  | none => rfl
  | some k =>
    have hlt : k < c₁.length := by
      rw [List.findIdx?_eq_some_iff_getElem] at hk
      exact hk.1
    have hmem : c₁[k] ∈ c₁ := List.getElem_mem hlt
    have hmem₂ : c₁[k] ∈ c₂ := hp.mem_iff.mp hmem
    have hlt₂ : c₂.idxOf c₁[k] < c₂.length := List.idxOf_lt_length_of_mem hmem₂
    have hr : renumber c₁ c₂ k = c₂.idxOf c₁[k] := by
      unfold renumber; rw [List.getElem?_eq_getElem hlt]
    simp only [Option.map_some]
    rw [hr, List.getElem?_eq_getElem hlt₂, List.getElem_idxOf hlt₂, List.getElem?_eq_getElem hlt]
    simp only [Option.map_map]
    congr 1
    funext el
    simp [hr]

/-- **CSE is independent of the enumeration order of `common_exprs` up to the numbering of the `cse.<n>` names**,
when no exprlist of a candidate is a prefix of an exprlist of another candidate. -/
theorem replace_perm (c₁ c₂ : List Cand) (hp : c₁.Perm c₂) (hnd : c₁.Nodup) (hno : nonOverlapping c₁ = true) (root : Tree) :
    replace c₂ root = (replace c₁ root).map (Tok.map (renumber c₁ c₂)) := by
  unfold replace
  have h1 : matchNode c₂ = fun n => (matchNode c₁ n).map (renumber c₁ c₂) :=
    funext (matchNode_perm c₁ c₂ hp hnd hno)
  have h2 : matchAt c₂ = fun ids => (matchAt c₁ ids).map (fun r => (renumber c₁ c₂ r.1, r.2)) :=
    funext (matchAt_perm c₁ c₂ hp hnd hno)
  rw [h1, h2, rebuild_natural, List.map_flatten]

/-- `renumber` is a bijection between the index ranges: injective and range preserving. -/
theorem renumber_lt (c₁ c₂ : List Cand) (hp : c₁.Perm c₂) (i : Nat) (hi : i < c₁.length) : renumber c₁ c₂ i < c₂.length := by
  unfold renumber
  rw [List.getElem?_eq_getElem hi]
  exact List.idxOf_lt_length_of_mem (hp.mem_iff.mp (List.getElem_mem hi))

theorem renumber_injective (c₁ c₂ : List Cand) (hp : c₁.Perm c₂) (hnd : c₁.Nodup) (i j : Nat)
    (hi : i < c₁.length) (hj : j < c₁.length) (h : renumber c₁ c₂ i = renumber c₁ c₂ j) : i = j := by
  unfold renumber at h
  rw [List.getElem?_eq_getElem hi, List.getElem?_eq_getElem hj] at h
  simp only at h
  have hi₂ : c₂.idxOf c₁[i] < c₂.length := List.idxOf_lt_length_of_mem (hp.mem_iff.mp (List.getElem_mem hi))
  have hj₂ : c₂.idxOf c₁[j] < c₂.length := List.idxOf_lt_length_of_mem (hp.mem_iff.mp (List.getElem_mem hj))
  have e : c₁[i] = c₁[j] := by
    have a := List.getElem_idxOf hi₂
    have b := List.getElem_idxOf hj₂
    rw [← a, ← b]
    simp only [h]
  have a := hnd.idxOf_getElem i hi
  have b := hnd.idxOf_getElem j hj
  rw [← a, ← b, e]

/-! ### Non-vacuity and sharpness -/

section Examples

def exRoot : Tree := .flat 1 (.list 2 [.axis 3 "a" none, .axis 4 "b" none, .axis 5 "c" (some 2)])
def exC₁ : List Cand := [[[3, 4]], [[5]]]
def exC₂ : List Cand := exC₁.reverse
def exD₁ : List Cand := [[[3, 4]], [[3, 4, 5]]]
def exD₂ : List Cand := exD₁.reverse

example : nonOverlapping exC₁ = true := by decide
example : exC₁.Perm exC₂ := (List.reverse_perm exC₁).symm
example : exC₁.Nodup := by decide
example : replace exC₁ exRoot ≠ replace exC₂ exRoot := by decide
example : replace exC₂ exRoot = (replace exC₁ exRoot).map (Tok.map (renumber exC₁ exC₂)) := by decide
example : replace exC₁ exRoot = [.lpar, .cse 0 none, .cse 1 (some 2), .rpar] := by decide
example : replace exC₂ exRoot = [.lpar, .cse 1 none, .cse 0 (some 2), .rpar] := by decide

example : nonOverlapping exD₁ = false := by decide
example : (replace exD₁ exRoot).length ≠ (replace exD₂ exRoot).length := by decide
example : replace exD₁ exRoot = [.lpar, .cse 0 none, .ax "c" (some 2), .rpar] := by decide
example : replace exD₂ exRoot = [.lpar, .cse 0 none, .rpar] := by decide

end Examples

end Einx.Order.Cse
