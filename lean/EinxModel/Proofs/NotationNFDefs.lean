import EinxModel.Proofs.NotationPrintDefs
/-!
# M1 Notation — the normal form of `parse_op`'s output (definitions)

Four grammars, one per layer of `parseOp`:

* `G ao aa al`  — what `parse` returns (`ao`/`aa`: `Op`/`Args` nodes may occur; `al = false`: the node is an *item*, i.e.
  not a `List`/`Op`/`Args`).  After the first `move_up` pass the alternatives satisfy `G false aa`, after the second
  `G false false`.
* `N inBr al`   — what the redundant-bracket pass returns below `Args` (no `Brackets` inside `Brackets`; an `Ellipsis`
  may now stand over a `List`).
* `NRoot`       — `Op` of one or two non-empty `Args` of `N false true` trees: the normal form of `parseOp`'s results.
* `Excluded`    — the decidable predicate naming the three patterns of an `NRoot` tree whose printed text is not (faithfully)
  in the notation.
-/
namespace Einx.Notation

def Expr.isOp : Expr → Bool | .op .. => true | _ => false
def Expr.isArgs : Expr → Bool | .args .. => true | _ => false

/-- An *item*: what may stand in a `List`, under an `Ellipsis`, in a `ConcatenatedAxis`. -/
def isItem : Expr → Bool
  | .axis .. | .flat .. | .brackets .. | .ellipsis .. | .concat .. => true
  | .list .. | .args .. | .op .. => false

/-- `List([])` at any position. -/
def isEmptyList : Expr → Bool
  | .list [] _ _ => true
  | _ => false

/-- The name of an axis node as `parse` creates it: a valid axis name for a named axis, `unnamed.<begin_pos>` for a
    numeric axis (the anonymous ellipsis axis is handled at the `Ellipsis` node). -/
def axisOK (n : Str) (v : Option Nat) (b : Int) : Bool :=
  match v with
  | none => isAxisName n
  | some _ => n == unnamedName b.toNat

mutual
/-- The grammar of `parse`'s results (`ao = aa = true`) and of the alternatives after the `move_up` passes. -/
def G (ao aa al : Bool) : Expr → Bool
  | .axis n v b _ => axisOK n v b
  | .flat i _ _ => !i.isFlat && G ao aa true i
  | .brackets i _ _ => !i.isBrackets && i.ndim != some 0 && G ao aa true i
  | .ellipsis i _ _ _ => isAnonAxisNone i || (i.ndim != some 0 && G ao aa false i)
  | .concat cs _ _ => decide (2 ≤ cs.length) && cs.all isAxisOrFlat && GL ao aa false cs
  | .list cs _ _ => al && cs.length != 1 && GL ao aa false cs
  | .args cs _ _ => al && aa && !cs.isEmpty && GL ao aa true cs
  | .op cs _ _ => al && ao && !cs.isEmpty && GL ao aa true cs
def GL (ao aa al : Bool) : List Expr → Bool
  | [] => true
  | c :: cs => G ao aa al c && GL ao aa al cs
end

mutual
/-- The grammar below `Args` after the redundant-bracket pass. -/
def N (inBr al : Bool) : Expr → Bool
  | .axis n v b _ => axisOK n v b
  | .flat i _ _ => !i.isFlat && N inBr true i
  | .brackets i _ _ => !inBr && !i.isBrackets && i.ndim != some 0 && N true true i
  | .ellipsis i _ _ _ => isAnonAxisNone i || (i.ndim != some 0 && N inBr true i)
  | .concat cs _ _ => decide (2 ≤ cs.length) && cs.all isAxisOrFlat && NL inBr cs
  | .list cs _ _ => al && cs.length != 1 && NL inBr cs
  | .args .. => false
  | .op .. => false
def NL (inBr : Bool) : List Expr → Bool
  | [] => true
  | c :: cs => N inBr false c && NL inBr cs
end

def NArgs : Expr → Bool
  | .args as _ _ => !as.isEmpty && as.all (N false true)
  | _ => false

/-- The normal form of `parseOp`'s results. -/
def NRoot : Expr → Bool
  | .op cs _ _ => (cs.length == 1 || cs.length == 2) && cs.all NArgs
  | _ => false

/-! ### The excluded patterns -/

/-- `Ellipsis` directly over a `List` (printed with the braces of `Ellipsis.__str__`). -/
def patEllList : Expr → Bool
  | .ellipsis (.list ..) _ _ _ => true
  | _ => false

/-- `Ellipsis` directly over an `Ellipsis` over anything but the anonymous axis (printed `x......`, three tokens in a row;
    `......` itself — an ellipsis over `...` — re-parses to the same tree). -/
def patEllEll : Expr → Bool
  | .ellipsis (.ellipsis i _ _ _) _ _ _ => !isAnonAxisNone i
  | _ => false

/-- `FlattenedAxis` directly over a `ConcatenatedAxis` (printed `((a + b))`). -/
def patFlatConcat : Expr → Bool
  | .flat (.concat ..) _ _ => true
  | _ => false

mutual
/-- Some node of the tree satisfies `p`. -/
def anyNode (p : Expr → Bool) : Expr → Bool
  | .axis n v b e => p (.axis n v b e)
  | .flat i b e => p (.flat i b e) || anyNode p i
  | .brackets i b e => p (.brackets i b e) || anyNode p i
  | .ellipsis i d b e => p (.ellipsis i d b e) || anyNode p i
  | .concat cs b e => p (.concat cs b e) || anyNodeL p cs
  | .list cs b e => p (.list cs b e) || anyNodeL p cs
  | .args cs b e => p (.args cs b e) || anyNodeL p cs
  | .op cs b e => p (.op cs b e) || anyNodeL p cs
def anyNodeL (p : Expr → Bool) : List Expr → Bool
  | [] => false
  | c :: cs => anyNode p c || anyNodeL p cs
end

/-- The three patterns whose printed form is not (faithfully) in the notation. -/
def hasBadPattern (t : Expr) : Bool :=
  anyNode patEllList t || anyNode patEllEll t || anyNode patFlatConcat t

/-- `Excluded t`: `t` contains one of the three refuted patterns (nothing else is excluded). -/
def Excluded (t : Expr) : Bool := hasBadPattern t

end Einx.Notation
