import EinxModel.Proofs.FuseEmit
/-!
C04, name re-use, part 5: every block number the scope map (`getScopes`, `Scopes.get`; `scope.py`) returns is below the number of
scopes, i.e. below `nblocks` of `compile`.  (The `fuse` loop only looks at the blocks `0 … nblocks-1`.)
-/
namespace Einx.Compile

theorem mem_dedupe (l : List Nat) (x : Nat) (h : x ∈ dedupe l) : x ∈ l := mem_dedupeNat l x h

theorem mem_assocSet {β : Type} (l : List (E × β)) (k : E) (v : β) (p : E × β) (h : p ∈ assocSet l k v) :
    p ∈ l ∨ p = (k, v) := by
  unfold assocSet at h
  split at h
  · obtain ⟨q, hq, rfl⟩ := List.mem_map.1 h
    split
    · exact Or.inr rfl
    · exact Or.inl hq
  · rcases List.mem_append.1 h with h | h
    · exact Or.inl h
    · exact Or.inr (by simpa using h)

/-! ### `_find_common_scope` picks one of the candidates -/

def pickStep (P : Nat → Nat → Except String Bool) (sc s2 : Nat) : Except String Nat := do
  if sc == s2 then pure sc
  else if ← P sc s2 then pure s2
  else if ← P s2 sc then pure sc
  else throw "ValueError: scopes not in a predecessor relationship"

theorem pickStep_mem (P : Nat → Nat → Except String Bool) (sc s2 t : Nat) (h : pickStep P sc s2 = .ok t) : t = sc ∨ t = s2 := by
  unfold pickStep at h
  split at h
  · simp only [pure, Except.pure, Except.ok.injEq] at h; exact Or.inl h.symm
  · simp only [bind, Except.bind] at h
    cases h1 : P sc s2 with
    | error e => simp [h1] at h
    | ok b1 =>
      simp only [h1] at h
      cases b1 with
      | true => simp only [if_true, pure, Except.pure, Except.ok.injEq] at h; exact Or.inr h.symm
      | false =>
        simp only [Bool.false_eq_true, if_false] at h
        cases h2 : P s2 sc with
        | error e => simp [h2] at h
        | ok b2 =>
          simp only [h2] at h
          cases b2 with
          | true => simp only [if_true, pure, Except.pure, Except.ok.injEq] at h; exact Or.inl h.symm
          | false => simp [throw, throwThe, MonadExceptOf.throw] at h

theorem pick_mem (P : Nat → Nat → Except String Bool) : ∀ (rest : List Nat) (s0 r : Nat),
    rest.foldlM (pickStep P) s0 = .ok r → r = s0 ∨ r ∈ rest
  | [], s0, r, h => by
    simp only [List.foldlM_nil, pure, Except.pure, Except.ok.injEq] at h
    exact Or.inl h.symm
  | s2 :: rest, s0, r, h => by
    simp only [List.foldlM_cons, bind, Except.bind] at h
    cases h1 : pickStep P s0 s2 with
    | error e => simp [h1] at h
    | ok t =>
      simp only [h1] at h
      rcases pick_mem P rest t r h with h2 | h2
      · rcases pickStep_mem P s0 s2 t h1 with h3 | h3
        · exact Or.inl (h2.trans h3)
        · exact Or.inr (by rw [h2, h3]; simp)
      · exact Or.inr (List.mem_cons_of_mem _ h2)

/-- The common scope of a list of candidates followed by the global scope. -/
theorem pick_lt (P : Nat → Nat → Except String Bool) (n : Nat) (hn : 0 < n) (l : List Nat) (hl : ∀ x ∈ l, x < n)
    (s0 : Nat) (rest : List Nat) (hm : l ++ [0] = s0 :: rest) (r : Nat) (h : rest.foldlM (pickStep P) s0 = .ok r) : r < n := by
  have hall : ∀ x ∈ l ++ [0], x < n := by
    intro x hx
    rcases List.mem_append.1 hx with hx | hx
    · exact hl x hx
    · simp only [List.mem_singleton] at hx; rw [hx]; exact hn
  rw [hm] at hall
  rcases pick_mem P rest s0 r h with h1 | h1
  · rw [h1]; exact hall s0 (by simp)
  · exact hall r (List.mem_cons_of_mem _ h1)

/-! ### `_get_required_scopes` -/

/-- Every scope number recorded so far is the number of an existing scope. -/
def RQ (s : SState) : Prop := 0 < s.scopes.length ∧ ∀ p ∈ s.req, ∀ x ∈ p.2, x < s.scopes.length

def RQRes (s : SState) (res : List Nat × SState) : Prop :=
  RQ res.2 ∧ s.scopes.length ≤ res.2.scopes.length ∧ ∀ y ∈ res.1, y < res.2.scopes.length

theorem RQ.set {s : SState} (h : RQ s) (k : E) (r : List Nat) (hr : ∀ x ∈ r, x < s.scopes.length) :
    RQ { s with req := assocSet s.req k r } := by
  refine ⟨h.1, ?_⟩
  intro p hp x hx
  rcases mem_assocSet _ _ _ _ hp with hp | rfl
  · exact h.2 p hp x hx
  · exact hr x hx

theorem get_lt (s : SState) (h : RQ s) (x : E) : ∀ y ∈ s.get x, y < s.scopes.length := by
  intro y hy
  unfold SState.get at hy
  split at hy
  · simp only [List.mem_singleton] at hy; rw [hy]; exact h.1
  · obtain ⟨k, _, hk⟩ := List.mem_flatMap.1 hy
    cases hg : assocGet s.req k with
    | none => simp [hg] at hk
    | some r =>
      simp only [hg, Option.getD_some] at hk
      exact h.2 (k, r) (assocGet_mem _ _ _ hg) y hk

theorem many_rq (f : E → SState → Except String (List Nat × SState))
    (hf : ∀ i s res, RQ s → f i s = .ok res → RQRes s res) :
    ∀ (xs : List E) (acc res : List Nat × SState), RQ acc.2 → (∀ y ∈ acc.1, y < acc.2.scopes.length) →
      xs.foldlM (fun (acc : List Nat × SState) i => do
        let x ← f i acc.2
        pure (acc.1 ++ x.1, x.2)) acc = .ok res → RQRes acc.2 res := by
  intro xs
  induction xs with
  | nil =>
    intro acc res hrq hacc h
    simp only [List.foldlM_nil, pure, Except.pure, Except.ok.injEq] at h
    subst h
    exact ⟨hrq, Nat.le_refl _, hacc⟩
  | cons i xs ih =>
    intro acc res hrq hacc h
    simp only [List.foldlM_cons, bind, Except.bind] at h
    cases hfi : f i acc.2 with
    | error e => simp [hfi] at h
    | ok p =>
      obtain ⟨r, s1⟩ := p
      simp only [hfi, pure, Except.pure] at h
      obtain ⟨h1, h2, h3⟩ := hf i acc.2 (r, s1) hrq hfi
      have := ih (acc.1 ++ r, s1) res h1 (by
        intro y hy
        rcases List.mem_append.1 hy with hy | hy
        · exact Nat.lt_of_lt_of_le (hacc y hy) h2
        · exact h3 y hy) h
      exact ⟨this.1, Nat.le_trans h2 this.2.1, this.2.2⟩

theorem outs_rq (f : E → SState → Except String (List Nat × SState))
    (hf : ∀ i s res, RQ s → f i s = .ok res → RQRes s res) :
    ∀ (os : List Nat) (s s' : SState), RQ s →
      os.foldlM (fun s o => do
        let x ← f (.var o) s
        pure x.2) s = .ok s' → RQ s' ∧ s.scopes.length ≤ s'.scopes.length := by
  intro os
  induction os with
  | nil =>
    intro s s' hrq h
    simp only [List.foldlM_nil, pure, Except.pure, Except.ok.injEq] at h
    subst h
    exact ⟨hrq, Nat.le_refl _⟩
  | cons o os ih =>
    intro s s' hrq h
    simp only [List.foldlM_cons, bind, Except.bind] at h
    cases hfi : f (.var o) s with
    | error e => simp [hfi] at h
    | ok p =>
      obtain ⟨r, s1⟩ := p
      simp only [hfi, pure, Except.pure] at h
      obtain ⟨h1, h2, _⟩ := hf _ s (r, s1) hrq hfi
      have := ih s1 s' h1 h
      exact ⟨this.1, Nat.le_trans h2 this.2⟩

theorem dedupe_zero_lt (n : Nat) (hn : 0 < n) (ins : List Nat) (h : ∀ y ∈ ins, y < n) : ∀ y ∈ dedupe (ins ++ [0]), y < n := by
  intro y hy
  rcases List.mem_append.1 (mem_dedupe _ _ hy) with hy | hy
  · exact h y hy
  · simp only [List.mem_singleton] at hy; rw [hy]; exact hn

theorem inputs_fold_rq (inner : Nat) : ∀ (ts : List Nat) (s : SState), RQ s → inner < s.scopes.length →
    RQ (ts.foldl (fun s t => { s with req := assocSet s.req (.var t) [inner] }) s) ∧
    (ts.foldl (fun s t => { s with req := assocSet s.req (.var t) [inner] }) s).scopes = s.scopes
  | [], s, h, _ => ⟨h, rfl⟩
  | t :: ts, s, h, hi => by
    simp only [List.foldl_cons]
    have h1 : RQ { s with req := assocSet s.req (.var t) [inner] } :=
      h.set _ _ (by intro x hx; simp only [List.mem_singleton] at hx; rw [hx]; exact hi)
    have := inputs_fold_rq inner ts _ h1 hi
    exact ⟨this.1, this.2⟩

theorem reqScopes_rq (g : Graph) : ∀ (fuel : Nat) (x : E) (s : SState) (res : List Nat × SState),
    RQ s → reqScopes g fuel x s = .ok res → RQRes s res := by
  intro fuel
  induction fuel with
  | zero => intro x s res _ h; simp [reqScopes] at h
  | succ fuel ih =>
    intro x s res hrq h
    unfold reqScopes at h
    split at h
    · split at h
      · simp at h
      · simp only [Except.ok.injEq] at h
        subst h
        exact ⟨hrq, Nat.le_refl _, get_lt s hrq x⟩
    · dsimp only at h
      have hmany := many_rq (reqScopes g fuel) ih
      have houts := outs_rq (reqScopes g fuel) ih
      split at h
      · -- tracer
        rename_i t
        split at h
        · cases h
        · rename_i i a horig
          simp only [bind, Except.bind] at h
          split at h
          · cases h
          · rename_i v hm
            split at h
            · cases h
            · rename_i s2 ho
              simp only [pure, Except.pure, Except.ok.injEq] at h
              subst h
              obtain ⟨h1, h2, h3⟩ := hmany a.inputs ([], s) v hrq (by simp) hm
              have hr := dedupe_zero_lt _ h1.1 v.1 h3
              obtain ⟨h5, h6⟩ := houts a.outs _ s2 (h1.set _ _ hr) ho
              exact ⟨h5, Nat.le_trans h2 h6, fun y hy => Nat.lt_of_lt_of_le (hr y hy) h6⟩
      · simp only [bind, Except.bind] at h
        split at h
        · cases h
        · rename_i v hm
          simp only [pure, Except.pure, Except.ok.injEq] at h
          subst h
          obtain ⟨h1, h2, h3⟩ := hmany _ ([], s) v hrq (by simp) hm
          exact ⟨h1, h2, dedupe_zero_lt _ h1.1 _ h3⟩
      · simp only [bind, Except.bind] at h
        split at h
        · cases h
        · rename_i v hm
          simp only [pure, Except.pure, Except.ok.injEq] at h
          subst h
          obtain ⟨h1, h2, h3⟩ := hmany _ ([], s) v hrq (by simp) hm
          exact ⟨h1, h2, dedupe_zero_lt _ h1.1 _ h3⟩
      · simp only [bind, Except.bind] at h
        split at h
        · cases h
        · rename_i v hm
          simp only [pure, Except.pure, Except.ok.injEq] at h
          subst h
          obtain ⟨h1, h2, h3⟩ := hmany _ ([], s) v hrq (by simp) hm
          exact ⟨h1, h2, dedupe_zero_lt _ h1.1 _ h3⟩
      · -- nested graph
        rename_i i
        split at h
        · cases h
        · rename_i sg hsg
          simp only [bind, Except.bind] at h
          have hin := inputs_fold_rq s.scopes.length sg.inputs { s with scopes := s.scopes ++ [{ required := [] }] }
            ⟨by simp, fun p hp x hx => by
              have := hrq.2 p hp x hx
              simp only [List.length_append, List.length_cons, List.length_nil]
              omega⟩ (by simp)
          split at h
          · cases h
          · rename_i v hr
            simp only [pure, Except.pure, Except.ok.injEq] at h
            subst h
            obtain ⟨h1, h2, h3⟩ := ih _ _ _ hin.1 hr
            rw [hin.2] at h2
            simp only [List.length_append, List.length_cons, List.length_nil] at h2
            have hr' : ∀ y ∈ (if (v.1.filter (· != s.scopes.length)).isEmpty = true then [0] else v.1.filter (· != s.scopes.length)),
                y < v.2.scopes.length := by
              intro y hy
              split at hy
              · simp only [List.mem_singleton] at hy; rw [hy]; exact h1.1
              · exact h3 y (List.mem_filter.1 hy).1
            refine ⟨⟨?_, ?_⟩, ?_, ?_⟩
            · simp only [List.length_mapIdx]; exact h1.1
            · intro p hp x hx
              simp only [List.length_mapIdx]
              rcases mem_assocSet _ _ _ _ hp with hp | rfl
              · exact h1.2 p hp x hx
              · exact hr' x hx
            · simp only [List.length_mapIdx]; omega
            · simp only [List.length_mapIdx]; exact hr'
      · simp only [Except.ok.injEq] at h
        subst h
        exact ⟨hrq, Nat.le_refl _, by intro y hy; simp only [List.mem_singleton] at hy; rw [hy]; exact hrq.1⟩

/-! ### `get_scopes` and `Map.__getitem__` -/

theorem mapM_length {α β : Type} (f : α → Except String β) : ∀ (l : List α) (bs : List β), l.mapM f = .ok bs →
    bs.length = l.length
  | [], bs, h => by
    simp only [List.mapM_nil, pure, Except.pure, Except.ok.injEq] at h
    subst h; rfl
  | a :: rest, bs, h => by
    simp only [List.mapM_cons, bind, Except.bind] at h
    cases h1 : f a with
    | error err => simp [h1] at h
    | ok b1 =>
      cases h2 : List.mapM f rest with
      | error err => simp [h1, h2] at h
      | ok bs1 =>
        simp only [h1, h2, pure, Except.pure, Except.ok.injEq] at h
        subst h
        simp [mapM_length f rest bs1 h2]

theorem RQ.init : RQ {} := ⟨by simp, by intro p hp; simp at hp⟩

/-- The scope recorded for a key is the number of an existing scope. -/
theorem getScopes_inv (g : Graph) (fuel : Nat) (sc : Scopes) (h : getScopes g fuel = .ok sc) :
    0 < sc.scopes.length ∧ ∀ p ∈ sc.ofKey, p.2 < sc.scopes.length := by
  unfold getScopes at h
  simp only [bind, Except.bind] at h
  split at h
  · cases h
  · rename_i v hreq
    have hrq := (reqScopes_rq g fuel g.top {} v RQ.init hreq).1
    split at h
    · cases h
    · rename_i scopes hsc
      have hlen : scopes.length = v.2.scopes.length := by
        rw [mapM_length _ _ _ hsc]; simp
      split at h
      · cases h
      · rename_i ofKey hof
        simp only [pure, Except.pure, Except.ok.injEq] at h
        subst h
        refine ⟨by simp only; rw [hlen]; exact hrq.1, ?_⟩
        intro p hp
        obtain ⟨a, ha, hfa⟩ := mapM_ok_mem _ _ _ hof p hp
        obtain ⟨k, r⟩ := a
        simp only at hfa
        split at hfa
        · simp [throw, throwThe, MonadExceptOf.throw] at hfa
        · rename_i s0 rest hm
          split at hfa
          · cases hfa
          · rename_i sc0 hpick
            simp only [pure, Except.pure, Except.ok.injEq] at hfa
            subst hfa
            show sc0 < scopes.length
            rw [hlen]
            exact pick_lt _ _ hrq.1 (dedupe r) (fun x hx => hrq.2 (k, r) ha x (mem_dedupe _ _ hx)) s0 rest hm sc0 hpick

theorem Scopes.get_lt (sc : Scopes) (h0 : 0 < sc.scopes.length) (hk : ∀ p ∈ sc.ofKey, p.2 < sc.scopes.length) :
    ∀ (fuel : Nat) (x : E) (b : Nat), sc.get fuel x = .ok b → b < sc.scopes.length := by
  intro fuel
  induction fuel with
  | zero => intro x b h; simp [Scopes.get] at h
  | succ fuel ih =>
    intro x b h
    unfold Scopes.get at h
    split at h
    · simp only [Except.ok.injEq] at h; rw [← h]; exact h0
    · split at h
      · rename_i s hs
        simp only [Except.ok.injEq] at h
        rw [← h]
        exact hk (x, s) (assocGet_mem _ _ _ hs)
      · have container : ∀ a : E, (do
              let l ← a.toList.mapM (sc.get fuel)
              let n := sc.scopes.length
              match dedupe l ++ [0] with
              | [] => throw "unreachable"
              | s0 :: rest => rest.foldlM (fun s1 s2 => do
                  if s1 == s2 then pure s1
                  else if ← isPredParent sc.scopes (n + 2) s1 s2 then pure s2
                  else if ← isPredParent sc.scopes (n + 2) s2 s1 then pure s1
                  else throw "ValueError: scopes not in a predecessor relationship") s0 : Except String Nat) = .ok b →
            b < sc.scopes.length := by
          intro a h
          simp only [bind, Except.bind] at h
          split at h
          · cases h
          · rename_i l hl
            split at h
            · simp [throw, throwThe, MonadExceptOf.throw] at h
            · rename_i s0 rest hm
              refine pick_lt (isPredParent sc.scopes (sc.scopes.length + 2)) _ h0 (dedupe l) ?_ s0 rest hm b h
              intro x hx
              obtain ⟨y, _, hy⟩ := mapM_ok_mem _ _ _ hl x (mem_dedupe _ _ hx)
              exact ih y x hy
        split at h
        · exact container _ h
        · exact container _ h
        · exact container _ h
        · cases h

/-- Every block number the generator uses is below the number of scopes. -/
theorem goodBlk_lt (c : Ctx) (g0 : Graph) (f0 : Nat) (hs : getScopes g0 f0 = .ok c.scopes) (b : Nat) (h : GoodBlk c b) :
    b < c.scopes.scopes.length := by
  obtain ⟨h0, hk⟩ := getScopes_inv g0 f0 c.scopes hs
  rcases h with rfl | ⟨x, hx⟩
  · exact h0
  · exact Scopes.get_lt c.scopes h0 hk _ x b hx
