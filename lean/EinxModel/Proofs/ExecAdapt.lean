import EinxModel.Proofs.ExecCall
import EinxModel.Proofs.Adapt
/-! Helper lemmas for `Props/C15Exec.lean`: inversion of the translation `toAdapt`, and the position of the unique element
that a `filter` keeps. -/
namespace Einx.Exec
open Einx.Compile

theorem toVal_ref_inv (x : E) (f : Nat) (h : toVal x = .ref f) : x = .var f := by
  cases x with
  | var t => simpa [toVal] using h
  | lit s => simp only [toVal] at h; generalize litKind s = k at h; cases k <;> simp at h
  | node tag a => cases tag <;> (unfold toVal at h; simp at h)
  | _ => simp [toVal] at h

theorem toAdaptApp_call_inv (cv : Option Adapt.Val) (a : App) (fn : Adapt.Val) (args : List Adapt.Val)
    (kwargs : List (String × Adapt.Val)) (out : Adapt.Val) (h : toAdaptApp cv a = .call fn args kwargs out) :
    ∃ fn' args' kwargs' deps' o, a = .call fn' args' kwargs' deps' o ∧ fn = toVal fn' ∧ args = args'.map toVal ∧
      kwargs = toKw kwargs' ∧ out = .ref o := by
  cases a with
  | call fn' args' kwargs' deps' o =>
    simp only [toAdaptApp, Adapt.App.call.injEq] at h
    exact ⟨fn', args', kwargs', deps', o, rfl, h.1.symm, h.2.1.symm, h.2.2.1.symm, h.2.2.2.symm⟩
  | import_ imp from_ as_ o => simp only [toAdaptApp] at h; split at h <;> cases h
  | assert_ xs cond msg o => simp only [toAdaptApp] at h; split at h <;> cases h
  | _ => simp [toAdaptApp] at h

theorem toAdaptApp_constant_inv (cv : Option Adapt.Val) (a : App) (v : Adapt.Val) (c : Nat)
    (h : toAdaptApp cv a = .constant v c) : ∃ str, a = .constant str c := by
  cases a with
  | constant str o =>
    simp only [toAdaptApp, Adapt.App.constant.injEq] at h
    exact ⟨str, by rw [h.2]⟩
  | import_ imp from_ as_ o => simp only [toAdaptApp] at h; split at h <;> cases h
  | assert_ xs cond msg o => simp only [toAdaptApp] at h; split at h <;> cases h
  | _ => simp [toAdaptApp] at h

theorem toAdapt_app (g : Graph) (shapes : List (Nat × List Nat)) (constVals : List (Option Adapt.Val)) (ag : Adapt.Graph)
    (h : toAdapt g shapes constVals = some ag) (i : Nat) (b : Adapt.App) (hb : ag.apps[i]? = some b) :
    ∃ a, g.apps[i]? = some a ∧ b = toAdaptApp ((constVals[i]?).getD none) a := by
  unfold toAdapt at h
  split at h
  · split at h
    · simp only [Option.some.injEq] at h
      subst h
      simp only [List.getElem?_map, List.getElem?_zipIdx] at hb
      cases ha : g.apps[i]? with
      | none => simp [ha] at hb
      | some a =>
        simp only [ha, Option.map_some, Nat.zero_add, Option.some.injEq] at hb
        exact ⟨a, rfl, hb.symm⟩
    · cases h
  · cases h

/-- The unique element a filter keeps sits at a unique position. -/
theorem filter_singleton_index {α : Type} (p : α → Bool) (x : α) : ∀ (l : List α), l.filter p = [x] →
    ∃ i : Nat, l[i]? = some x ∧ p x = true ∧ ∀ (j : Nat) (y : α), l[j]? = some y → p y = true → j = i := by
  intro l
  induction l with
  | nil => intro h; simp at h
  | cons a rest ih =>
    intro h
    rw [List.filter_cons] at h
    split at h
    · rename_i hpa
      simp only [List.cons.injEq] at h
      obtain ⟨rfl, hrest⟩ := h
      refine ⟨0, rfl, hpa, ?_⟩
      intro j y hj hy
      cases j with
      | zero => rfl
      | succ j =>
        simp only [List.getElem?_cons_succ] at hj
        have : y ∈ rest.filter p := List.mem_filter.2 ⟨List.mem_of_getElem? hj, hy⟩
        rw [hrest] at this
        cases this
    · rename_i hpa
      obtain ⟨i, h1, h2, h3⟩ := ih h
      refine ⟨i + 1, by simpa using h1, h2, ?_⟩
      intro j y hj hy
      cases j with
      | zero =>
        simp only [List.getElem?_cons_zero, Option.some.injEq] at hj
        subst hj
        exact absurd hy hpa
      | succ j =>
        simp only [List.getElem?_cons_succ] at hj
        rw [h3 j y hj hy]

theorem argsAre_length (g : Adapt.Graph) : ∀ (args : List Adapt.Val) (shapes : List (List Nat)),
    Adapt.ArgsAre g args shapes → args.length = shapes.length
  | [], [], _ => rfl
  | .ref t :: as, s :: ss, h => by
    simp only [Adapt.ArgsAre] at h
    simp [argsAre_length g as ss h.2]
  | [], _ :: _, h => by simp [Adapt.ArgsAre] at h
  | .ref _ :: _, [], h => by simp [Adapt.ArgsAre] at h
  | .int _ :: _, _, h | .float _ :: _, _, h | .bool _ :: _, _, h | .str _ :: _, _, h | .none :: _, _, h
  | .tuple _ :: _, _, h | .list _ :: _, _, h | .dict _ _ :: _, _, h | .obj _ :: _, _, h | .other _ :: _, _, h => by
    simp [Adapt.ArgsAre] at h

/-- The function operand of a call of the output of a `Constant` node is not an allow-listed builtin. -/
theorem not_allowInline_of_constant (g : Graph) (aux : List TAux) (fg : Factory.Graph) (hfg : toFactory g aux = some fg)
    (hfwf : Factory.wf fg = true) (k0 : Nat) (str : String) (c : Nat) (hk0 : g.apps[k0]? = some (.constant str c)) :
    isAllowInline g (.var c) = false := by
  have hfgdef : fg.tracers = toTracers g.origin aux ∧ fg.apps = g.apps.map toGApp := by
    unfold toFactory at hfg
    split at hfg
    · split at hfg
      · simp only [Option.some.injEq] at hfg; subst hfg; exact ⟨rfl, rfl⟩
      · cases hfg
    · cases hfg
  have hfa : fg.apps[k0]? = some (toGApp (.constant str c)) := by
    rw [hfgdef.2, List.getElem?_map, hk0]; rfl
  obtain ⟨ti, h1, h2⟩ := Factory.wf_out hfwf k0 _ hfa c (by simp [toGApp, App.out, refs_var])
  have horg : g.origin[c]? = some (some k0) := by
    have := toTracers_origin g.origin aux c
    rw [← hfgdef.1, h1] at this
    simpa [h2] using this.symm
  have : g.originOf c = some (k0, .constant str c) := by
    simp [Graph.originOf, horg, hk0]
  simp [isAllowInline, this]

end Einx.Exec
