import EinxModel.Proofs.CompileClosed
/-!
C04, name re-use: the `fuse` loop of the code generator only merges variables whose live ranges do not overlap.

Part 1 (this file): the loop invariant, for an arbitrary statement list `body` (block, statement) in emission order that
  * defines every variable at most once (`(outsOf P).Nodup`),
  * reads no variable before its definition (`liveIn P = []`), and
  * is seen completely by the loop (`hR`: every statement that has inputs is among the numbered statements `all`).
`Proofs/FuseEmit.lean` shows that the statements `compile` emits have these properties.
-/
namespace Einx.Compile

/-! ### Two splits of one list -/

theorem split_tri {α : Type} : ∀ (pre p : List α) (s t : α) (rest r : List α), pre ++ s :: rest = p ++ t :: r →
    (pre = p ∧ s = t ∧ rest = r) ∨ (∃ mid, p = pre ++ s :: mid ∧ rest = mid ++ t :: r) ∨
    (∃ mid, pre = p ++ t :: mid ∧ r = mid ++ s :: rest)
  | [], [], s, t, rest, r, h => by
    simp only [List.nil_append, List.cons.injEq] at h
    exact Or.inl ⟨rfl, h.1, h.2⟩
  | [], b :: p, s, t, rest, r, h => by
    simp only [List.nil_append, List.cons_append, List.cons.injEq] at h
    exact Or.inr (Or.inl ⟨p, by simp [h.1], h.2⟩)
  | a :: pre, [], s, t, rest, r, h => by
    simp only [List.nil_append, List.cons_append, List.cons.injEq] at h
    exact Or.inr (Or.inr ⟨pre, by simp [h.1], h.2.symm⟩)
  | a :: pre, b :: p, s, t, rest, r, h => by
    simp only [List.cons_append, List.cons.injEq] at h
    obtain ⟨hab, h⟩ := h
    subst hab
    rcases split_tri pre p s t rest r h with ⟨h1, h2, h3⟩ | ⟨mid, h1, h2⟩ | ⟨mid, h1, h2⟩
    · exact Or.inl ⟨by rw [h1], h2, h3⟩
    · exact Or.inr (Or.inl ⟨mid, by rw [h1]; rfl, h2⟩)
    · exact Or.inr (Or.inr ⟨mid, by rw [h1]; rfl, h2⟩)

/-! ### Statements -/

theorem Stmt.reads_sub_inputVars (s : Stmt) (w : Nat) (h : w ∈ s.reads) : w ∈ s.inputVars := by
  cases s <;> simp only [Stmt.reads, Stmt.inputVars, Stmt.inputs, List.flatMap_cons, List.flatMap_nil, List.flatMap_append,
    List.append_nil, List.mem_append, List.not_mem_nil] at h ⊢
  all_goals first
    | exact h
    | (rcases h with h | h <;> simp [h])
    | (simp [h])

/-- A statement that has an input and an output is an assignment. -/
theorem Stmt.io (s : Stmt) (v o : Nat) (hv : v ∈ s.inputVars) (ho : o ∈ s.outputVars) :
    ∃ rhs eff, s = .assign o rhs eff ∧ v ∈ rhs.vars := by
  cases s <;> simp only [Stmt.outputVars, List.mem_singleton, List.not_mem_nil] at ho <;>
    simp only [Stmt.inputVars, Stmt.inputs, List.flatMap_nil, List.not_mem_nil] at hv
  rename_i v' rhs eff
  subst ho
  exact ⟨rhs, eff, rfl, by simpa using hv⟩

theorem Stmt.inputVars_kind (s : Stmt) (v : Nat) (hv : v ∈ s.inputVars) : s.isImport = false ∧ s.isParam = false := by
  cases s <;> simp only [Stmt.inputVars, Stmt.inputs, List.flatMap_nil, List.not_mem_nil] at hv <;>
    simp [Stmt.isImport, Stmt.isParam]

theorem mem_outsOf (l : List Stmt) (o : Nat) : o ∈ outsOf l ↔ ∃ s ∈ l, o ∈ s.outputVars := by
  simp [outsOf, List.mem_flatMap]

theorem outsOf_cons (s : Stmt) (l : List Stmt) : outsOf (s :: l) = s.outputVars ++ outsOf l := by
  simp [outsOf]

theorem mem_liveIn_reads (l : List Stmt) (w : Nat) (h : w ∈ liveIn l) : ∃ r ∈ l, w ∈ r.reads := by
  induction l with
  | nil => simp [liveIn] at h
  | cons s rest ih =>
    rcases (mem_liveIn_cons s rest w).1 h with h | ⟨h, _⟩
    · exact ⟨s, by simp, h⟩
    · obtain ⟨r, hr, hw⟩ := ih h
      exact ⟨r, List.mem_cons_of_mem _ hr, hw⟩

/-- In a program that reads no variable before its definition, what is live after a prefix was defined by the prefix. -/
theorem live_defined (l1 l2 : List Stmt) (hcl : liveIn (l1 ++ l2) = []) (w : Nat) (h : w ∈ liveIn l2) : w ∈ outsOf l1 := by
  rcases liveIn_append_right l1 l2 w h with h1 | h1
  · rw [hcl] at h1; simp at h1
  · exact h1

/-- Single definitions: the three parts of a split define disjoint sets of variables. -/
theorem outs_disj (pre rest : List Stmt) (s : Stmt) (hnd : (outsOf (pre ++ s :: rest)).Nodup) :
    (∀ o ∈ outsOf pre, o ∉ s.outputVars) ∧ (∀ o ∈ outsOf pre, o ∉ outsOf rest) ∧ (∀ o ∈ s.outputVars, o ∉ outsOf rest) := by
  rw [outsOf_append, outsOf_cons, List.nodup_append] at hnd
  obtain ⟨_, h2, h3⟩ := hnd
  rw [List.nodup_append] at h2
  obtain ⟨_, _, h4⟩ := h2
  refine ⟨fun o ho hs => h3 o ho o (List.mem_append_left _ hs) rfl,
          fun o ho hr => h3 o ho o (List.mem_append_right _ hr) rfl,
          fun o ho hr => h4 o ho o hr rfl⟩

/-! ### `fuseSafe` in terms of splits -/

theorem fuseSafe_of_splits (ρ : Nat → Nat) : ∀ (l : List Stmt),
    (∀ pre s rest, l = pre ++ s :: rest → ∀ o ∈ s.outputVars, ∀ w ∈ liveIn rest, w = o ∨ ρ w ≠ ρ o) → fuseSafe ρ l = true
  | [], _ => rfl
  | s :: rest, h => by
    simp only [fuseSafe, Bool.and_eq_true, List.all_eq_true, Bool.or_eq_true, beq_iff_eq, bne_iff_ne, ne_eq]
    refine ⟨fun o ho w hw => h [] s rest rfl o ho w hw, ?_⟩
    exact fuseSafe_of_splits ρ rest (fun pre s' rest' hl => h (s :: pre) s' rest' (by rw [hl]; rfl))

/-! ### `Before`: defined earlier, and dead when the other is defined -/

/-- `w1` is defined before `w2`, and no statement after the definition of `w2` has `w1` among its inputs. -/
def Before (P : List Stmt) (w1 w2 : Nat) : Prop :=
  ∃ pre s rest, P = pre ++ s :: rest ∧ w2 ∈ s.outputVars ∧ w1 ∈ outsOf pre ∧ ∀ r ∈ rest, w1 ∉ r.inputVars

/-- Where a variable is defined is determined by the variable. -/
theorem split_unique (P : List Stmt) (hnd : (outsOf P).Nodup) (pre p rest r : List Stmt) (s t : Stmt) (o : Nat)
    (h1 : P = pre ++ s :: rest) (h2 : P = p ++ t :: r) (ho1 : o ∈ s.outputVars) (ho2 : o ∈ t.outputVars) :
    pre = p ∧ s = t ∧ rest = r := by
  rcases split_tri pre p s t rest r (h1.symm.trans h2) with h | ⟨mid, hp, hr⟩ | ⟨mid, hp, hr⟩
  · exact h
  · exfalso
    rw [h1] at hnd
    exact (outs_disj pre rest s hnd).2.2 o ho1 (by rw [hr]; exact (mem_outsOf _ _).2 ⟨t, by simp, ho2⟩)
  · exfalso
    rw [h2] at hnd
    exact (outs_disj p r t hnd).2.2 o ho2 (by rw [hr]; exact (mem_outsOf _ _).2 ⟨s, by simp, ho1⟩)

/-- If `o` is defined by `s` and also by the prefix of another split, that prefix contains `s`. -/
theorem split_prefix (P : List Stmt) (hnd : (outsOf P).Nodup) (pre p rest r : List Stmt) (s t : Stmt) (o : Nat)
    (h1 : P = pre ++ s :: rest) (h2 : P = p ++ t :: r) (ho1 : o ∈ s.outputVars) (ho2 : o ∈ outsOf p) :
    ∃ mid, p = pre ++ s :: mid ∧ rest = mid ++ t :: r := by
  rcases split_tri pre p s t rest r (h1.symm.trans h2) with ⟨hp, hs, hr⟩ | ⟨mid, hp, hr⟩ | ⟨mid, hp, hr⟩
  · exfalso
    rw [h1] at hnd
    exact (outs_disj pre rest s hnd).1 o (by rw [hp]; exact ho2) ho1
  · exact ⟨mid, hp, hr⟩
  · exfalso
    rw [h1] at hnd
    refine (outs_disj pre rest s hnd).1 o ?_ ho1
    rw [hp, outsOf_append]
    exact List.mem_append_left _ ho2

theorem Before.trans {P : List Stmt} (hnd : (outsOf P).Nodup) {w1 w2 w3 : Nat} (h12 : Before P w1 w2) (h23 : Before P w2 w3) :
    Before P w1 w3 := by
  obtain ⟨p2, s2, r2, e2, o2, d2, dead2⟩ := h12
  obtain ⟨p3, s3, r3, e3, o3, d3, dead3⟩ := h23
  obtain ⟨mid, hp, hr⟩ := split_prefix P hnd p2 p3 r2 r3 s2 s3 w2 e2 e3 o2 d3
  refine ⟨p3, s3, r3, e3, o3, ?_, ?_⟩
  · rw [hp, outsOf_append]
    exact List.mem_append_left _ d2
  · intro r hr'
    exact dead2 r (by rw [hr]; simp [hr'])

/-- **The semantic core**: if any two variables with the same name are ordered by `Before`, the renaming is `fuseSafe`. -/
theorem safe_of_ordered (P : List Stmt) (ρ : Nat → Nat) (hnd : (outsOf P).Nodup) (hcl : liveIn P = [])
    (hord : ∀ w1 w2, w1 ≠ w2 → ρ w1 = ρ w2 → Before P w1 w2 ∨ Before P w2 w1) : fuseSafe ρ P = true := by
  apply fuseSafe_of_splits
  intro pre s rest hP o ho w hw
  by_cases hwo : w = o
  · exact Or.inl hwo
  refine Or.inr ?_
  intro hρ
  rcases hord w o hwo hρ with hb | hb
  · -- `w` is dead after the definition of `o`
    obtain ⟨p, t, r, e, ot, _, dead⟩ := hb
    obtain ⟨_, _, hr⟩ := split_unique P hnd pre p rest r s t o hP e ho ot
    obtain ⟨x, hx, hwx⟩ := mem_liveIn_reads rest w hw
    exact dead x (by rw [← hr]; exact hx) (Stmt.reads_sub_inputVars x w hwx)
  · -- `w` is defined after `o`: it cannot be live after the definition of `o`
    obtain ⟨p, t, r, e, wt, od, _⟩ := hb
    obtain ⟨mid, hp, hr⟩ := split_prefix P hnd pre p rest r s t o hP e ho od
    have hwdef : w ∈ outsOf (pre ++ [s]) := by
      apply live_defined (pre ++ [s]) rest _ w hw
      rw [List.append_assoc]
      simpa [← hP] using hcl
    rw [e] at hnd
    refine (outs_disj p r t hnd).1 w ?_ wt
    rw [hp]
    rw [outsOf_append] at hwdef ⊢
    rcases List.mem_append.1 hwdef with h | h
    · exact List.mem_append_left _ h
    · refine List.mem_append_right _ ?_
      rw [outsOf_cons]
      exact List.mem_append_left _ (by simpa [outsOf] using h)

end Einx.Compile
