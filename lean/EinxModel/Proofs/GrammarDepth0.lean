import EinxModel.Proofs.RejectConcat
import EinxModel.Proofs.NotationParseCases
import EinxModel.Notation.Grammar
/-!
# Operators outside every pair of delimiters (helper lemmas for Props/C03Grammar.lean)
-/
namespace Einx.Notation

/-! ## String level -/

theorem countDepth0_split (l : Str) : ∀ (s : Str) (st : List Char), 1 ≤ countDepth0 l s st →
    ∃ u v, s = u ++ l ++ v ∧ delimRun u st = some []
  | [], _, h => by simp [countDepth0] at h
  | x :: xs, st, h => by
    simp only [countDepth0] at h
    by_cases hc : (st.isEmpty && l.isPrefixOf (x :: xs)) = true
    · simp only [Bool.and_eq_true, List.isEmpty_iff] at hc
      obtain ⟨rfl, hp⟩ := hc
      obtain ⟨v, hv⟩ := List.isPrefixOf_iff_prefix.mp hp
      exact ⟨[], v, by simp [hv], rfl⟩
    · simp only [hc, Bool.false_eq_true, if_false, Nat.zero_add] at h
      cases hd : delimStep st x with
      | none => rw [hd] at h; simp at h
      | some st' =>
        rw [hd] at h
        obtain ⟨u, v, hs, hr⟩ := countDepth0_split l xs st' h
        refine ⟨x :: u, v, by rw [hs]; rfl, ?_⟩
        simp only [delimRun, hd]
        exact hr

theorem countDepth0_arrow_two : ∀ (s : Str) (st : List Char), 2 ≤ countDepth0 arrowLit s st →
    ∃ u v w, s = u ++ arrowLit ++ (v ++ arrowLit ++ w) ∧ delimRun u st = some [] ∧ delimRun v [] = some []
  | [], _, h => by simp [countDepth0] at h
  | x :: xs, st, h => by
    simp only [countDepth0] at h
    by_cases hc : (st.isEmpty && arrowLit.isPrefixOf (x :: xs)) = true
    · simp only [Bool.and_eq_true, List.isEmpty_iff] at hc
      obtain ⟨rfl, hp⟩ := hc
      obtain ⟨r, hr⟩ := List.isPrefixOf_iff_prefix.mp hp
      simp only [arrowLit, List.cons_append, List.nil_append, List.cons.injEq] at hr
      obtain ⟨rfl, rfl⟩ := hr
      have h1 : 1 ≤ countDepth0 arrowLit r [] := by
        simp [countDepth0, delimStep, arrowLit] at h
        simp only [arrowLit]
        omega
      obtain ⟨v, w, hs, hv⟩ := countDepth0_split arrowLit r [] h1
      exact ⟨[], v, w, by simp [arrowLit, hs], rfl, hv⟩
    · simp only [hc, Bool.false_eq_true, if_false, Nat.zero_add] at h
      cases hd : delimStep st x with
      | none => rw [hd] at h; simp at h
      | some st' =>
        rw [hd] at h
        obtain ⟨u, v, w, hs, hr, hv⟩ := countDepth0_arrow_two xs st' h
        refine ⟨x :: u, v, w, by rw [hs]; rfl, ?_, hv⟩
        simp only [delimRun, hd]
        exact hr

/-! ## From the string to a top-level atom of the token tree -/

theorem arrow_mem_afterLits : arrowLit ∈ afterLits := by
  simp [afterLits, afterOps, lit, arrowLit]

theorem comma_mem_afterLits : commaLit ∈ afterLits := by
  simp [afterLits, afterOps, lit, commaLit]

/-- An occurrence of an operator literal at scan depth 0 is an atom of the top-level token list. -/
theorem depth0_atom {text u l v : Str} {toks : List Token} {tree : List Tok}
    (hl : l ∈ afterLits) (hld : ∀ c ∈ l, isDelimChar c = false) (hsp : l ≠ spaceLit)
    (hs : text = u ++ l ++ v) (hrun : delimRun u [] = some [])
    (hlex : lex text = .ok toks) (hb : buildTree (dedupSpaces toks false) [] [] = .ok tree) :
    Tok.atom ⟨l, u.length, u.length + l.length⟩ ∈ tree := by
  obtain ⟨htoks, _⟩ := lex_ok_tokens hlex
  have hseg : toks = segment literals u 0 0 [] ++ ⟨l, u.length, u.length + l.length⟩ ::
      segment literals v (u.length + l.length) (u.length + l.length) [] := by
    rw [htoks, hs]
    have := segment_split_after hl u v 0 0 []
    simp only [Nat.zero_add, List.length_append] at this
    exact this
  let t : Token := ⟨l, u.length, u.length + l.length⟩
  have htsp : t.isSpace = false := by
    simp only [t, Token.isSpace, beq_eq_false_iff_ne, ne_eq]
    exact hsp
  have hclean_all : ∀ p ∈ toks, TokenClean p := by
    intro p hp; rw [htoks] at hp; exact segment_clean text p hp
  have hd : dedupSpaces toks false = dedupSpaces (segment literals u 0 0 []) false ++
      t :: dedupSpaces (segment literals v (u.length + l.length) (u.length + l.length) []) false := by
    rw [hseg]; exact dedupSpaces_split _ t _ htsp false
  have hpre_clean : ∀ p ∈ dedupSpaces (segment literals u 0 0 []) false, TokenClean p := by
    intro p hp
    apply hclean_all
    rw [hseg]
    exact List.mem_append_left _ (mem_dedupSpaces hp)
  have hrun' : delimRun ((dedupSpaces (segment literals u 0 0 []) false).flatMap (·.text))
      (([] : List (Token × List Tok)).map (fun f => closerOf f.1)) = some [] := by
    rw [List.map_nil, delimRun_dedup, segment_concat, List.nil_append]
    exact hrun
  rw [hd] at hb
  exact buildTree_depth0 t _ hld _ [] [] hpre_clean (by intro f hf; cases hf) hrun' tree hb

/-! ## The stages of `parseOp` on an accepted string -/

def arrowsOf (text : Str) : List Int := posForLiteral (lit "->") text 0

/-- Inversion of `parseOp text = .ok t`: every stage succeeded. -/
theorem parseOp_stages {text : Str} {t : Expr} (h : parseOp text = .ok t) :
    ∃ toks tree y cs b e cs2, lex text = .ok toks ∧ buildTree (dedupSpaces toks false) [] [] = .ok tree ∧
      parse tree 0 (lastEnd tree 0) false = .ok y ∧ moveUp .op (arrowsOf text) y = .ok (.op cs b e) ∧
      moveUpL .args (arrowsOf text) cs = .ok cs2 ∧ t = .op (traverseL false cs2) b e ∧
      (traverseL false cs2).length ≤ 2 ∧ checkBrackets (.op (traverseL false cs2) b e) = .ok t := by
  unfold parseOp at h
  cases hl : lex text with
  | error err => rw [hl] at h; cases h
  | ok toks =>
    rw [hl] at h
    simp only at h
    cases hb : buildTree (dedupSpaces toks false) [] [] with
    | error err => rw [hb] at h; cases h
    | ok tree =>
      rw [hb] at h
      simp only at h
      cases hp : parse tree 0 (lastEnd tree 0) false with
      | error err => rw [hp] at h; cases h
      | ok y =>
        rw [hp] at h
        simp only at h
        cases hm : moveUp .op (posForLiteral (lit "->") text 0) y with
        | error err => rw [hm] at h; cases h
        | ok x1 =>
          rw [hm] at h
          simp only at h
          rcases moveUp_op_res (posForLiteral (lit "->") text 0) y with ⟨cs, b, e, h1⟩ | ⟨k, pos, alts, h1⟩
          · rw [hm] at h1
            cases h1
            simp only at h
            cases hm2 : moveUpL .args (posForLiteral (lit "->") text 0) cs with
            | error err => rw [hm2] at h; cases h
            | ok cs2 =>
              rw [hm2] at h
              simp only at h
              split at h
              · cases h
              · rename_i hlen
                simp only [traverse, Expr.children, gt_iff_lt, Nat.not_lt] at hlen h
                have ht : t = .op (traverseL false cs2) b e := by
                  unfold checkBrackets at h
                  dsimp only at h
                  split at h
                  · cases h; rfl
                  · cases h
                exact ⟨toks, tree, y, cs, b, e, cs2, rfl, hb, hp, hm, hm2, ht, hlen, h⟩
          · rw [hm] at h1; cases h1

theorem traverseL_length (inBr : Bool) : ∀ (cs : List Expr), (traverseL inBr cs).length = cs.length
  | [] => rfl
  | c :: cs => by simp [traverseL, traverseL_length inBr cs]

theorem moveUpL_length_k (k : Lift) (arrows : List Int) : ∀ (cs ch : List Expr), moveUpL k arrows cs = .ok ch → ch.length = cs.length
  | [], ch, h => by
    simp only [moveUpL, Except.ok.injEq] at h
    subst h; rfl
  | c :: cs, ch, h => by
    simp only [moveUpL] at h
    cases hm : moveUp k arrows c with
    | error err => rw [hm] at h; cases h
    | ok x =>
      rw [hm] at h
      cases hm2 : moveUpL k arrows cs with
      | error err => rw [hm2] at h; cases h
      | ok xs =>
        rw [hm2] at h
        simp only [Except.ok.injEq] at h
        subst h
        simp [moveUpL_length_k k arrows cs xs hm2]

/-! ## Counting separators -/

theorem two_le_countP {α : Type} (p : α → Bool) : ∀ (l : List α) (a b : α), a ∈ l → b ∈ l → a ≠ b → p a = true → p b = true →
    2 ≤ l.countP p
  | [], a, _, ha, _, _, _, _ => by cases ha
  | x :: xs, a, b, ha, hb, hab, pa, pb => by
    rw [List.countP_cons]
    rcases List.mem_cons.mp ha with ha1 | ha1
    · rcases List.mem_cons.mp hb with hb1 | hb1
      · exact absurd (ha1.trans hb1.symm) hab
      · have : 0 < xs.countP p := List.countP_pos_iff.mpr ⟨b, hb1, pb⟩
        rw [← ha1]
        simp only [pa, if_true]; omega
    · rcases List.mem_cons.mp hb with hb1 | hb1
      · have : 0 < xs.countP p := List.countP_pos_iff.mpr ⟨a, ha1, pa⟩
        rw [← hb1]
        simp only [pb, if_true]; omega
      · have := two_le_countP p xs a b ha1 hb1 hab pa pb
        omega

theorem splitOn_length (op : Str) (d : Nat) : ∀ (ts : List Tok), (splitOn op d ts).2.length = ts.countP (Tok.isText op)
  | [] => rfl
  | t :: ts => by
    simp only [splitOn, List.countP_cons]
    split
    · rename_i h
      simp [h, splitOn_length op d ts]
    · rename_i h
      simp [h, splitOn_length op d ts]

theorem operands_length (op : Str) (ts : List Tok) : (operands op ts).length = 1 + ts.countP (Tok.isText op) := by
  simp only [operands, List.map_cons, List.length_cons, List.length_map, splitOn_length]
  omega

/-! ## `parse` on a token list with a top-level `->` -/

def IsArrow (x : Tok) : Prop := ∃ t, x = Tok.atom t ∧ t.text = arrowLit

theorem isArrow_not_space {x : Tok} (h : IsArrow x) : x.isSpace = false := by
  obtain ⟨t, rfl, ht⟩ := h
  simp [Tok.isSpace, Tok.isText, ht, spaceLit, arrowLit]

theorem isText_arrow_of {x : Tok} (h : IsArrow x) : x.isText (lit "->") = true := by
  obtain ⟨t, rfl, ht⟩ := h
  simp [Tok.isText, ht, lit, arrowLit]

/-- With a top-level `->` token, `parse` returns an `Op` with one child per operand. -/
theorem parse_arrow_top {ts : List Tok} {b e : Nat} {ipc : Bool} {x : Expr} {a : Tok}
    (hx : parse ts b e ipc = .ok x) (ha : a ∈ ts) (hia : IsArrow a) :
    ∃ cs b1 e1, x = .op cs b1 e1 ∧ cs.length = 1 + (strip ts).countP (Tok.isText (lit "->")) := by
  have has : a ∈ strip ts := mem_strip_of ha (isArrow_not_space hia)
  cases hs : strip ts with
  | nil => rw [hs] at has; cases has
  | cons t0 rest =>
    rw [hs] at has
    have hng : NotGroup t0 rest := by
      intro o c inner h0 hr
      subst h0; subst hr
      obtain ⟨t, rfl, _⟩ := hia
      simp at has
    have hany : (t0 :: rest).any (Tok.isText (lit "->")) = true :=
      List.any_eq_true.mpr ⟨a, has, isText_arrow_of hia⟩
    have hop : findOp naryOps (t0 :: rest) = some (lit "->") := by
      rw [naryOps_eq']
      simp only [findOp, hany, if_true]
    rw [parse_nary b e ipc hs hng hop] at hx
    cases hm : (keepOperands (lit "->") (operands (lit "->") (t0 :: rest))).mapM (fun o => parse o.ts o.b o.e false) with
    | error err => rw [hm] at hx; cases hx
    | ok xs =>
      rw [hm] at hx
      simp only at hx
      have hlen := mapM_ok_length _ _ _ hm
      have hk : keepOperands (lit "->") (operands (lit "->") (t0 :: rest)) = operands (lit "->") (t0 :: rest) := by
        unfold keepOperands; simp [lit]
      rw [hk, operands_length] at hlen
      unfold combine at hx
      have e1 : (lit "->" == lit " ") = false := by decide
      have e2 : (lit "->" == lit "->") = true := by decide
      simp only [e1, e2, Bool.false_eq_true, if_false, if_true, Except.ok.injEq] at hx
      exact ⟨xs, _, _, hx.symm, hlen⟩

theorem length_le_flatMap_children : ∀ (ch : List Expr), (∀ y ∈ ch, y.children ≠ []) → ch.length ≤ (ch.flatMap Expr.children).length
  | [], _ => by simp
  | y :: ch, h => by
    have h1 : 0 < y.children.length := List.length_pos_iff.mpr (h y (by simp))
    have := length_le_flatMap_children ch (fun z hz => h z (List.mem_cons_of_mem _ hz))
    simp only [List.flatMap_cons, List.length_append, List.length_cons]
    omega

/-- The first `move_up` pass on an `Op` keeps at least one alternative per child. -/
theorem moveUp_op_of_op {arrows : List Int} {xs : List Expr} {b e : Int} {r : Expr} (hne : OpsNE (.op xs b e))
    (h : moveUp .op arrows (.op xs b e) = .ok r) : xs.length ≤ r.children.length := by
  simp only [moveUp] at h
  cases hm : moveUpL .op arrows xs with
  | error err => rw [hm] at h; cases h
  | ok ch =>
    rw [hm] at h
    simp only [Except.ok.injEq] at h
    subst h
    simp only [OpsNE] at hne
    have halt := moveUpL_op_altsNE arrows xs hne.2 ch hm
    have hl := moveUpL_length arrows xs ch hm
    have := length_le_flatMap_children ch (fun y hy => (halt y hy).1)
    simp only [Expr.children]
    omega

/-- Number of sides of an accepted description, from the top-level token list. -/
theorem parseOp_sides {text : Str} {t : Expr} (h : parseOp text = .ok t) :
    ∃ toks tree, lex text = .ok toks ∧ buildTree (dedupSpaces toks false) [] [] = .ok tree ∧
      ∀ a ∈ tree, IsArrow a → 1 + (strip tree).countP (Tok.isText (lit "->")) ≤ t.children.length := by
  obtain ⟨toks, tree, y, cs, b, e, cs2, hl, hb, hp, hm, hm2, ht, _, _⟩ := parseOp_stages h
  refine ⟨toks, tree, hl, hb, ?_⟩
  intro a ha hia
  obtain ⟨xs, b1, e1, hy, hlen⟩ := parse_arrow_top hp ha hia
  subst hy
  have hne := parse_opsNE _ _ _ _ _ hp
  have h1 := moveUp_op_of_op hne hm
  have h2 := moveUpL_length_k _ _ _ _ hm2
  subst ht
  simp only [Expr.children, traverseL_length] at h1 ⊢
  omega

theorem arrow_no_delim : ∀ c ∈ arrowLit, isDelimChar c = false := by decide
theorem comma_no_delim : ∀ c ∈ commaLit, isDelimChar c = false := by decide

/-- One `->` outside all delimiters: an accepted description has two sides. -/
theorem parseOp_arrow_two_sides {text : Str} {t : Expr} (h : parseOp text = .ok t)
    (hc : 1 ≤ countDepth0 arrowLit text []) : 2 ≤ t.children.length := by
  obtain ⟨u, v, hs, hrun⟩ := countDepth0_split arrowLit text [] hc
  obtain ⟨toks, tree, hl, hb, hside⟩ := parseOp_sides h
  have hmem := depth0_atom arrow_mem_afterLits arrow_no_delim (by decide) hs hrun hl hb
  have hia : IsArrow (Tok.atom ⟨arrowLit, u.length, u.length + arrowLit.length⟩) := ⟨_, rfl, rfl⟩
  have := hside _ hmem hia
  have hpos : 0 < (strip tree).countP (Tok.isText (lit "->")) :=
    List.countP_pos_iff.mpr ⟨_, mem_strip_of hmem (isArrow_not_space hia), isText_arrow_of hia⟩
  omega

/-- Two `->` outside all delimiters: never accepted. -/
theorem parseOp_two_arrows_depth0 (text : Str) (hc : 2 ≤ countDepth0 arrowLit text []) : ∀ t, parseOp text ≠ .ok t := by
  intro t h
  obtain ⟨u, v, w, hs, hrun, hrunv⟩ := countDepth0_arrow_two text [] hc
  obtain ⟨toks, tree, hl, hb, hside⟩ := parseOp_sides h
  have hmem1 := depth0_atom arrow_mem_afterLits arrow_no_delim (by decide) hs hrun hl hb
  have hs2 : text = (u ++ arrowLit ++ v) ++ arrowLit ++ w := by rw [hs]; simp
  have hrun2 : delimRun (u ++ arrowLit ++ v) [] = some [] := by
    rw [List.append_assoc, delimRun_append, hrun]
    simp only
    rw [delimRun_append, delimRun_clean _ _ arrow_no_delim]
    exact hrunv
  have hmem2 := depth0_atom arrow_mem_afterLits arrow_no_delim (by decide) hs2 hrun2 hl hb
  have hia1 : IsArrow (Tok.atom ⟨arrowLit, u.length, u.length + arrowLit.length⟩) := ⟨_, rfl, rfl⟩
  have hia2 : IsArrow (Tok.atom ⟨arrowLit, (u ++ arrowLit ++ v).length, (u ++ arrowLit ++ v).length + arrowLit.length⟩) := ⟨_, rfl, rfl⟩
  have hne : (Tok.atom ⟨arrowLit, u.length, u.length + arrowLit.length⟩) ≠
      Tok.atom ⟨arrowLit, (u ++ arrowLit ++ v).length, (u ++ arrowLit ++ v).length + arrowLit.length⟩ := by
    intro heq
    simp only [Tok.atom.injEq, Token.mk.injEq, List.length_append, true_and] at heq
    have := heq.1
    simp [arrowLit] at this
    omega
  have h2 : 2 ≤ (strip tree).countP (Tok.isText (lit "->")) :=
    two_le_countP _ _ _ _ (mem_strip_of hmem1 (isArrow_not_space hia1)) (mem_strip_of hmem2 (isArrow_not_space hia2)) hne
      (isText_arrow_of hia1) (isText_arrow_of hia2)
  have h3 := hside _ hmem1 hia1
  obtain ⟨_, _, _, _, _, _, cs2, _, _, _, _, _, ht, hlen, _⟩ := parseOp_stages h
  subst ht
  simp only [Expr.children] at h3
  omega

/-- `parse_args` on a description with a `->` outside all delimiters. -/
theorem parseArgs_arrow_depth0 {text : Str} (hc : 1 ≤ countDepth0 arrowLit text []) :
    (∀ t, parseOp text = .ok t → parseArgs text = .error (.syntax .argsHasArrow (posForLiteral (lit "->") text 0) [])) ∧
    ∀ a, parseArgs text ≠ .ok a := by
  have h1 : ∀ t, parseOp text = .ok t → parseArgs text = .error (.syntax .argsHasArrow (posForLiteral (lit "->") text 0) []) := by
    intro t h
    have h2 := parseOp_arrow_two_sides h hc
    unfold parseArgs
    rw [h]
    simp only
    match hch : t.children, h2 with
    | _ :: _ :: _, _ => split <;> simp_all
  refine ⟨h1, ?_⟩
  intro a ha
  cases hp : parseOp text with
  | error err => unfold parseArgs at ha; rw [hp] at ha; cases ha
  | ok t => rw [h1 t hp] at ha; cases ha

end Einx.Notation
