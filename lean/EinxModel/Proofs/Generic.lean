import EinxModel.Generic.Grammar
/-! Helper lemmas for C17 (statement grammar, skeleton, cost semantics). -/
namespace Einx.Generic

/-! ### digit abstraction -/

theorem holeDigits_noDigit : ∀ l : List Char, ∀ c ∈ holeDigits l, c.isDigit = false
  | [] => by simp [holeDigits]
  | c :: cs => by
    have ih := holeDigits_noDigit cs
    unfold holeDigits
    by_cases hc : c.isDigit = true
    · simp only [hc, if_true]
      split
      · rename_i rest heq
        intro d hd
        rw [heq] at ih
        exact ih d hd
      · rename_i rest _
        intro d hd
        rcases List.mem_cons.mp hd with h | h
        · subst h; decide
        · exact ih d h
    · simp only [hc]
      intro d hd
      rcases List.mem_cons.mp hd with h | h
      · subst h; simpa using hc
      · exact ih d h

theorem holeDigits_id_of_noDigit : ∀ l : List Char, (∀ c ∈ l, c.isDigit = false) → holeDigits l = l
  | [], _ => by simp [holeDigits]
  | c :: cs, h => by
    have hc : c.isDigit = false := h c (by simp)
    have ih := holeDigits_id_of_noDigit cs (fun d hd => h d (by simp [hd]))
    simp [holeDigits, hc, ih]

theorem holeDigits_idem (l : List Char) : holeDigits (holeDigits l) = holeDigits l :=
  holeDigits_id_of_noDigit _ (holeDigits_noDigit l)

theorem holeStr_idem (s : String) : holeStr (holeStr s) = holeStr s := by
  simp [holeStr, holeDigits_idem]

theorem Const.skel_idem (c : Const) : c.skel.skel = c.skel := by cases c <;> rfl

/-! ### skeleton is idempotent -/

mutual
theorem PyExpr.skel_idem : ∀ e : PyExpr, e.skel.skel = e.skel
  | .name _ => rfl
  | .attr e _ => by simp [PyExpr.skel, PyExpr.skel_idem e]
  | .call f as _ kv => by simp [PyExpr.skel, PyExpr.skel_idem f, PyExpr.skelL_idem as, PyExpr.skelL_idem kv]
  | .subscript e i => by simp [PyExpr.skel, PyExpr.skel_idem e, PyExpr.skel_idem i]
  | .slice a b c => by simp [PyExpr.skel, PyExpr.skel_idem a, PyExpr.skel_idem b, PyExpr.skel_idem c]
  | .absent => rfl
  | .tuple es => by simp [PyExpr.skel, PyExpr.skelL_idem es]
  | .list es => by simp [PyExpr.skel, PyExpr.skelL_idem es]
  | .dict ks vs => by simp [PyExpr.skel, PyExpr.skelL_idem ks, PyExpr.skelL_idem vs]
  | .const c => by simp [PyExpr.skel, Const.skel_idem]
  | .unary _ e => by simp [PyExpr.skel, PyExpr.skel_idem e]
  | .binop _ l r => by simp [PyExpr.skel, PyExpr.skel_idem l, PyExpr.skel_idem r]
  | .compare _ l r => by simp [PyExpr.skel, PyExpr.skel_idem l, PyExpr.skel_idem r]
theorem PyExpr.skelL_idem : ∀ es : List PyExpr, PyExpr.skelL (PyExpr.skelL es) = PyExpr.skelL es
  | [] => rfl
  | e :: es => by simp [PyExpr.skelL, PyExpr.skel_idem e, PyExpr.skelL_idem es]
end

mutual
theorem Stmt.skel_idem : ∀ s : Stmt, s.skel.skel = s.skel
  | .import_ _ => rfl
  | .importFrom _ _ => rfl
  | .funcDef _ _ body => by simp [Stmt.skel, Stmt.skelL_idem body]
  | .assign ts v => by simp [Stmt.skel, PyExpr.skelL_idem, PyExpr.skel_idem]
  | .augAssign t _ v => by simp [Stmt.skel, PyExpr.skel_idem]
  | .exprCall f as _ kv => by simp [Stmt.skel, PyExpr.skelL_idem, PyExpr.skel_idem]
  | .assert_ t m => by
    cases m <;> simp [Stmt.skel, PyExpr.skel_idem, holeStr_idem]
  | .return_ v => by simp [Stmt.skel, PyExpr.skel_idem]
theorem Stmt.skelL_idem : ∀ ss : List Stmt, Stmt.skelL (Stmt.skelL ss) = Stmt.skelL ss
  | [] => rfl
  | s :: ss => by simp [Stmt.skelL, Stmt.skel_idem s, Stmt.skelL_idem ss]
end

/-! ### skeleton preserves call counts -/

mutual
theorem PyExpr.calls_skel : ∀ e : PyExpr, e.skel.calls = e.calls
  | .name _ => rfl
  | .attr e _ => by simp [PyExpr.skel, PyExpr.calls, PyExpr.calls_skel e]
  | .call f as _ kv => by simp [PyExpr.skel, PyExpr.calls, PyExpr.calls_skel f, PyExpr.callsL_skel as, PyExpr.callsL_skel kv]
  | .subscript e i => by simp [PyExpr.skel, PyExpr.calls, PyExpr.calls_skel e, PyExpr.calls_skel i]
  | .slice a b c => by simp [PyExpr.skel, PyExpr.calls, PyExpr.calls_skel a, PyExpr.calls_skel b, PyExpr.calls_skel c]
  | .absent => rfl
  | .tuple es => by simp [PyExpr.skel, PyExpr.calls, PyExpr.callsL_skel es]
  | .list es => by simp [PyExpr.skel, PyExpr.calls, PyExpr.callsL_skel es]
  | .dict ks vs => by simp [PyExpr.skel, PyExpr.calls, PyExpr.callsL_skel ks, PyExpr.callsL_skel vs]
  | .const _ => rfl
  | .unary _ e => by simp [PyExpr.skel, PyExpr.calls, PyExpr.calls_skel e]
  | .binop _ l r => by simp [PyExpr.skel, PyExpr.calls, PyExpr.calls_skel l, PyExpr.calls_skel r]
  | .compare _ l r => by simp [PyExpr.skel, PyExpr.calls, PyExpr.calls_skel l, PyExpr.calls_skel r]
theorem PyExpr.callsL_skel : ∀ es : List PyExpr, PyExpr.callsL (PyExpr.skelL es) = PyExpr.callsL es
  | [] => rfl
  | e :: es => by simp [PyExpr.skelL, PyExpr.callsL, PyExpr.calls_skel e, PyExpr.callsL_skel es]
end

theorem Stmt.flatCalls_skel (s : Stmt) : s.skel.flatCalls = s.flatCalls := by
  cases s <;> simp [Stmt.skel, Stmt.flatCalls, PyExpr.calls_skel, PyExpr.callsL_skel]

mutual
theorem Stmt.callCount_skel : ∀ s : Stmt, s.skel.callCount = s.callCount
  | .import_ _ => rfl
  | .importFrom _ _ => rfl
  | .funcDef _ _ body => by simp [Stmt.skel, Stmt.callCount, Stmt.callCountL_skel body]
  | .assign _ _ => by simp [Stmt.skel, Stmt.callCount, PyExpr.calls_skel, PyExpr.callsL_skel]
  | .augAssign _ _ _ => by simp [Stmt.skel, Stmt.callCount, PyExpr.calls_skel]
  | .exprCall _ _ _ _ => by simp [Stmt.skel, Stmt.callCount, PyExpr.calls_skel, PyExpr.callsL_skel]
  | .assert_ _ _ => by simp [Stmt.skel, Stmt.callCount, PyExpr.calls_skel]
  | .return_ _ => by simp [Stmt.skel, Stmt.callCount, PyExpr.calls_skel]
theorem Stmt.callCountL_skel : ∀ ss : List Stmt, Stmt.callCountL (Stmt.skelL ss) = Stmt.callCountL ss
  | [] => rfl
  | s :: ss => by simp [Stmt.skelL, Stmt.callCountL, Stmt.callCount_skel s, Stmt.callCountL_skel ss]
end

/-! ### cost = call count -/

mutual
theorem Stmt.cost_eq : ∀ s : Stmt, s.cost = s.callCount
  | .import_ _ => rfl
  | .importFrom _ _ => rfl
  | .funcDef _ _ body => by simp [Stmt.cost, Stmt.callCount, Stmt.costL_eq body]
  | .assign _ _ => rfl
  | .augAssign _ _ _ => rfl
  | .exprCall _ _ _ _ => rfl
  | .assert_ _ _ => rfl
  | .return_ _ => rfl
theorem Stmt.costL_eq : ∀ ss : List Stmt, Stmt.costL ss = Stmt.callCountL ss
  | [] => rfl
  | s :: ss => by simp [Stmt.costL, Stmt.callCountL, Stmt.cost_eq s, Stmt.costL_eq ss]
end

/-! ### the cost semantics performs exactly the syntactic number of calls, in every environment -/

mutual
theorem evalE_calls {V : Type} (ρ : Env V) (σ : String → V) : ∀ e : PyExpr, (evalE ρ σ e).2 = e.calls
  | .name _ => rfl
  | .attr e _ => by simp [evalE, PyExpr.calls, evalE_calls ρ σ e]
  | .call f as _ kv => by
    simp [evalE, PyExpr.calls, evalE_calls ρ σ f, evalL_calls ρ σ as, evalL_calls ρ σ kv]
  | .subscript e i => by simp [evalE, PyExpr.calls, evalE_calls ρ σ e, evalE_calls ρ σ i]
  | .slice a b c => by simp [evalE, PyExpr.calls, evalE_calls ρ σ a, evalE_calls ρ σ b, evalE_calls ρ σ c]
  | .absent => rfl
  | .tuple es => by simp [evalE, PyExpr.calls, evalL_calls ρ σ es]
  | .list es => by simp [evalE, PyExpr.calls, evalL_calls ρ σ es]
  | .dict ks vs => by simp [evalE, PyExpr.calls, evalL_calls ρ σ ks, evalL_calls ρ σ vs]
  | .const _ => rfl
  | .unary _ e => by simp [evalE, PyExpr.calls, evalE_calls ρ σ e]
  | .binop _ l r => by simp [evalE, PyExpr.calls, evalE_calls ρ σ l, evalE_calls ρ σ r]
  | .compare _ l r => by simp [evalE, PyExpr.calls, evalE_calls ρ σ l, evalE_calls ρ σ r]
theorem evalL_calls {V : Type} (ρ : Env V) (σ : String → V) : ∀ es : List PyExpr, (evalL ρ σ es).2 = PyExpr.callsL es
  | [] => rfl
  | e :: es => by simp [evalL, PyExpr.callsL, evalE_calls ρ σ e, evalL_calls ρ σ es]
end

theorem assignTo_calls {V : Type} (ρ : Env V) (σ : String → V) (v : V) (t : PyExpr) :
    (assignTo ρ σ v t).2 = t.calls := by
  cases t <;> simp [assignTo, PyExpr.calls, evalE_calls, evalL_calls]

theorem assignAll_calls {V : Type} (ρ : Env V) (v : V) : ∀ (ts : List PyExpr) (σ : String → V),
    (assignAll ρ v σ ts).2 = PyExpr.callsL ts
  | [], _ => rfl
  | t :: ts, σ => by
    simp [assignAll, PyExpr.callsL, assignTo_calls, assignAll_calls ρ v ts]

theorem execStmt_calls {V : Type} (ρ : Env V) (σ : String → V) (s : Stmt) :
    (execStmt ρ σ s).2 = s.flatCalls := by
  cases s with
  | import_ _ => rfl
  | importFrom _ _ => rfl
  | funcDef _ _ _ => rfl
  | assign ts v => simp [execStmt, Stmt.flatCalls, evalE_calls, assignAll_calls]
  | augAssign t o v =>
    cases t <;> simp [execStmt, Stmt.flatCalls, evalE_calls]
  | exprCall f as kn kv => simp [execStmt, Stmt.flatCalls, evalE_calls, PyExpr.calls]
  | assert_ t _ => simp [execStmt, Stmt.flatCalls, evalE_calls]
  | return_ v => simp [execStmt, Stmt.flatCalls, evalE_calls]

theorem exec_calls {V : Type} (ρ : Env V) : ∀ (b : List Stmt) (σ : String → V), (exec ρ σ b).2 = flatCalls b
  | [], _ => rfl
  | s :: ss, σ => by simp [exec, flatCalls, execStmt_calls, exec_calls ρ ss]

/-! ### equal skeletons ⇔ differ only in integer literals -/

theorem Const.same_iff (c d : Const) : c.same d ↔ c.skel = d.skel := by
  cases c <;> cases d <;> simp [Const.same, Const.skel] <;> exact eq_comm

mutual
theorem PyExpr.same_iff : ∀ a b : PyExpr, a.same b ↔ a.skel = b.skel
  | .name n, b => by cases b <;> simp [PyExpr.same, PyExpr.skel, eq_comm]
  | .attr e x, b => by
    cases b <;> simp [PyExpr.same, PyExpr.skel]
    rename_i e' x'
    have h1 := PyExpr.same_iff e e'
    constructor
    · rintro ⟨_, ⟨rfl, rfl⟩, h⟩; exact ⟨h1.mp h, rfl⟩
    · rintro ⟨h, rfl⟩; exact ⟨_, ⟨rfl, rfl⟩, h1.mpr h⟩
  | .call f as kn kv, b => by
    cases b <;> simp [PyExpr.same, PyExpr.skel]
    rename_i f' as' kn' kv'
    have h1 := PyExpr.same_iff f f'
    have h2 := PyExpr.sameL_iff as as'
    have h3 := PyExpr.sameL_iff kv kv'
    constructor
    · rintro ⟨_, _, _, ⟨rfl, rfl, rfl, rfl⟩, a, b, c⟩; exact ⟨h1.mp a, h2.mp b, rfl, h3.mp c⟩
    · rintro ⟨a, b, rfl, c⟩; exact ⟨_, _, _, ⟨rfl, rfl, rfl, rfl⟩, h1.mpr a, h2.mpr b, h3.mpr c⟩
  | .subscript e i, b => by
    cases b <;> simp [PyExpr.same, PyExpr.skel]
    rename_i e' i'
    have h1 := PyExpr.same_iff e e'
    have h2 := PyExpr.same_iff i i'
    constructor
    · rintro ⟨_, _, ⟨rfl, rfl⟩, a, b⟩; exact ⟨h1.mp a, h2.mp b⟩
    · rintro ⟨a, b⟩; exact ⟨_, _, ⟨rfl, rfl⟩, h1.mpr a, h2.mpr b⟩
  | .slice x y z, b => by
    cases b <;> simp [PyExpr.same, PyExpr.skel]
    rename_i x' y' z'
    have h1 := PyExpr.same_iff x x'
    have h2 := PyExpr.same_iff y y'
    have h3 := PyExpr.same_iff z z'
    constructor
    · rintro ⟨_, _, _, ⟨rfl, rfl, rfl⟩, a, b, c⟩; exact ⟨h1.mp a, h2.mp b, h3.mp c⟩
    · rintro ⟨a, b, c⟩; exact ⟨_, _, _, ⟨rfl, rfl, rfl⟩, h1.mpr a, h2.mpr b, h3.mpr c⟩
  | .absent, b => by cases b <;> simp [PyExpr.same, PyExpr.skel]
  | .tuple es, b => by
    cases b <;> simp [PyExpr.same, PyExpr.skel]
    rename_i es'
    exact PyExpr.sameL_iff es es'
  | .list es, b => by
    cases b <;> simp [PyExpr.same, PyExpr.skel]
    rename_i es'
    exact PyExpr.sameL_iff es es'
  | .dict ks vs, b => by
    cases b <;> simp [PyExpr.same, PyExpr.skel]
    rename_i ks' vs'
    have h1 := PyExpr.sameL_iff ks ks'
    have h2 := PyExpr.sameL_iff vs vs'
    constructor
    · rintro ⟨_, _, ⟨rfl, rfl⟩, a, b⟩; exact ⟨h1.mp a, h2.mp b⟩
    · rintro ⟨a, b⟩; exact ⟨_, _, ⟨rfl, rfl⟩, h1.mpr a, h2.mpr b⟩
  | .const c, b => by
    cases b <;> simp [PyExpr.same, PyExpr.skel]
    rename_i c'
    exact Const.same_iff c c'
  | .unary o e, b => by
    cases b <;> simp [PyExpr.same, PyExpr.skel]
    rename_i o' e'
    have h1 := PyExpr.same_iff e e'
    constructor
    · rintro ⟨_, ⟨rfl, rfl⟩, h⟩; exact ⟨rfl, h1.mp h⟩
    · rintro ⟨rfl, h⟩; exact ⟨_, ⟨rfl, rfl⟩, h1.mpr h⟩
  | .binop o l r, b => by
    cases b <;> simp [PyExpr.same, PyExpr.skel]
    rename_i o' l' r'
    have h1 := PyExpr.same_iff l l'
    have h2 := PyExpr.same_iff r r'
    constructor
    · rintro ⟨_, _, ⟨rfl, rfl, rfl⟩, a, b⟩; exact ⟨rfl, h1.mp a, h2.mp b⟩
    · rintro ⟨rfl, a, b⟩; exact ⟨_, _, ⟨rfl, rfl, rfl⟩, h1.mpr a, h2.mpr b⟩
  | .compare o l r, b => by
    cases b <;> simp [PyExpr.same, PyExpr.skel]
    rename_i o' l' r'
    have h1 := PyExpr.same_iff l l'
    have h2 := PyExpr.same_iff r r'
    constructor
    · rintro ⟨_, _, ⟨rfl, rfl, rfl⟩, a, b⟩; exact ⟨rfl, h1.mp a, h2.mp b⟩
    · rintro ⟨rfl, a, b⟩; exact ⟨_, _, ⟨rfl, rfl, rfl⟩, h1.mpr a, h2.mpr b⟩
theorem PyExpr.sameL_iff : ∀ as bs : List PyExpr, PyExpr.sameL as bs ↔ PyExpr.skelL as = PyExpr.skelL bs
  | [], bs => by cases bs <;> simp [PyExpr.sameL, PyExpr.skelL]
  | a :: as, bs => by
    cases bs with
    | nil => simp [PyExpr.sameL, PyExpr.skelL]
    | cons b bs' =>
      simp [PyExpr.sameL, PyExpr.skelL]
      have h1 := PyExpr.same_iff a b
      have h2 := PyExpr.sameL_iff as bs'
      constructor
      · rintro ⟨_, _, ⟨rfl, rfl⟩, p, q⟩; exact ⟨h1.mp p, h2.mp q⟩
      · rintro ⟨p, q⟩; exact ⟨_, _, ⟨rfl, rfl⟩, h1.mpr p, h2.mpr q⟩
end

mutual
theorem Stmt.same_iff : ∀ a b : Stmt, a.same b ↔ a.skel = b.skel
  | .import_ ns, b => by cases b <;> simp [Stmt.same, Stmt.skel, eq_comm]
  | .importFrom m ns, b => by
    cases b <;> simp [Stmt.same, Stmt.skel]
    constructor
    · rintro ⟨rfl, rfl⟩; exact ⟨rfl, rfl⟩
    · rintro ⟨rfl, rfl⟩; exact ⟨rfl, rfl⟩
  | .funcDef n ps body, b => by
    cases b <;> simp [Stmt.same, Stmt.skel]
    rename_i n' ps' body'
    have h1 := Stmt.sameL_iff body body'
    constructor
    · rintro ⟨_, ⟨rfl, rfl, rfl⟩, h⟩; exact ⟨rfl, rfl, h1.mp h⟩
    · rintro ⟨rfl, rfl, h⟩; exact ⟨_, ⟨rfl, rfl, rfl⟩, h1.mpr h⟩
  | .assign ts v, b => by
    cases b <;> simp [Stmt.same, Stmt.skel]
    rename_i ts' v'
    have h1 := PyExpr.sameL_iff ts ts'
    have h2 := PyExpr.same_iff v v'
    constructor
    · rintro ⟨_, _, ⟨rfl, rfl⟩, p, q⟩; exact ⟨h1.mp p, h2.mp q⟩
    · rintro ⟨p, q⟩; exact ⟨_, _, ⟨rfl, rfl⟩, h1.mpr p, h2.mpr q⟩
  | .augAssign t o v, b => by
    cases b <;> simp [Stmt.same, Stmt.skel]
    rename_i t' o' v'
    have h1 := PyExpr.same_iff t t'
    have h2 := PyExpr.same_iff v v'
    constructor
    · rintro ⟨_, _, ⟨rfl, rfl, rfl⟩, p, q⟩; exact ⟨h1.mp p, rfl, h2.mp q⟩
    · rintro ⟨p, rfl, q⟩; exact ⟨_, _, ⟨rfl, rfl, rfl⟩, h1.mpr p, h2.mpr q⟩
  | .exprCall f as kn kv, b => by
    cases b <;> simp [Stmt.same, Stmt.skel]
    rename_i f' as' kn' kv'
    have h1 := PyExpr.same_iff f f'
    have h2 := PyExpr.sameL_iff as as'
    have h3 := PyExpr.sameL_iff kv kv'
    constructor
    · rintro ⟨_, _, _, ⟨rfl, rfl, rfl, rfl⟩, a, b, c⟩; exact ⟨h1.mp a, h2.mp b, rfl, h3.mp c⟩
    · rintro ⟨a, b, rfl, c⟩; exact ⟨_, _, _, ⟨rfl, rfl, rfl, rfl⟩, h1.mpr a, h2.mpr b, h3.mpr c⟩
  | .assert_ t m, b => by
    cases b <;> simp [Stmt.same, Stmt.skel]
    rename_i t' m'
    have h1 := PyExpr.same_iff t t'
    constructor
    · rintro ⟨_, _, ⟨rfl, rfl⟩, p, q⟩; exact ⟨h1.mp p, q⟩
    · rintro ⟨p, q⟩; exact ⟨_, _, ⟨rfl, rfl⟩, h1.mpr p, q⟩
  | .return_ v, b => by
    cases b <;> simp [Stmt.same, Stmt.skel]
    rename_i v'
    exact PyExpr.same_iff v v'
theorem Stmt.sameL_iff : ∀ as bs : List Stmt, Stmt.sameL as bs ↔ Stmt.skelL as = Stmt.skelL bs
  | [], bs => by cases bs <;> simp [Stmt.sameL, Stmt.skelL]
  | a :: as, bs => by
    cases bs with
    | nil => simp [Stmt.sameL, Stmt.skelL]
    | cons b bs' =>
      simp [Stmt.sameL, Stmt.skelL]
      have h1 := Stmt.same_iff a b
      have h2 := Stmt.sameL_iff as bs'
      constructor
      · rintro ⟨_, _, ⟨rfl, rfl⟩, p, q⟩; exact ⟨h1.mp p, h2.mp q⟩
      · rintro ⟨p, q⟩; exact ⟨_, _, ⟨rfl, rfl⟩, h1.mpr p, h2.mpr q⟩
end

end Einx.Generic
