import EinxModel.Solve.Unexpanded
import EinxModel.Props.C02
import EinxModel.Proofs.SolveSemInput
/-!
Helpers for `Props/C02Unexpanded.lean`: `expandU` with all counts given is `expand`; the set of
values a repeated expression can contribute to a flattened axis (`PowVals`); elementary facts about
products of equal / large factors.
-/
namespace Einx.Solve

mutual
theorem expandU_some (ρ : Var → Nat) : ∀ (e : Expr) (path : String) (idx : List Nat),
    expandU (fun id => some (ρ id)) path idx e = expand ρ path idx e
  | .axis _, _, _ => by simp [expandU, expand]
  | .num _, _, _ => by simp [expandU, expand]
  | .brackets e, path, idx => by simp only [expandU, expand]; exact expandU_some ρ e path idx
  | .flat e, path, idx => by simp only [expandU, expand]; rw [expandU_some ρ e _ idx]
  | .concat cs, path, idx => by simp only [expandU, expand]; rw [expandUL_some ρ cs _ idx 0]
  | .ellipsis id e, path, idx => by
    simp only [expandU, expand]
    congr 1
    apply List.map_congr_left
    intro i _
    exact expandU_some ρ e path (idx ++ [i])
  | .list cs, path, idx => by simp only [expandU, expand]; exact expandUL_some ρ cs path idx 0
theorem expandUL_some (ρ : Var → Nat) : ∀ (cs : List Expr) (path : String) (idx : List Nat) (k : Nat),
    expandUL (fun id => some (ρ id)) path idx k cs = expandL ρ path idx k cs
  | [], _, _, _ => by simp [expandUL, expandL]
  | c :: cs, path, idx, k => by
    simp only [expandUL, expandL]
    rw [expandU_some ρ c _ idx, expandUL_some ρ cs path idx (k + 1)]
end

theorem gensU_some (inp : Input) (ρ : Var → Nat) : gensU inp (fun id => some (ρ id)) = gens inp ρ := by
  unfold gensU gens
  simp only [expandU_some]

/-- With every expansion determined, the value system of the `UnexpandedEllipsis` model is the value
system of `Solve/Tree.lean`. -/
theorem valueSystemU_some (inp : Input) (ρ : Var → Nat) :
    valueSystemU inp (fun id => some (ρ id)) = valueSystem inp ρ := by
  unfold valueSystemU valueSystem valueSystemA
  simp only [gensU_some, gens_tabulate]

/-- The values `∏_{i<k} v_i` a `k`-fold repetition of `e` can contribute to a flattened axis, `k`
free, every copy with its own admissible assignment (the copies' axes `a.i` are distinct variables). -/
def PowVals (e : VExpr) (u : Nat) : Prop :=
  ∃ σs : List (Var → Nat), (∀ σ ∈ σs, Admissible e σ) ∧ natProd (σs.map (fun σ => evalV σ e)) = u

theorem natProd_const_small {m : Nat} (hm : m ≤ 1) : ∀ l : List Nat, (∀ x ∈ l, x = m) → natProd l ≤ 1
  | [], _ => by simp [natProd]
  | x :: l, h => by
    have hx : x = m := h x (by simp)
    have ih := natProd_const_small hm l (fun y hy => h y (by simp [hy]))
    simp only [natProd]
    have : x * natProd l ≤ 1 * 1 := Nat.mul_le_mul (hx ▸ hm) ih
    omega

theorem natProd_pos_of_pos : ∀ l : List Nat, (∀ x ∈ l, 1 ≤ x) → 1 ≤ natProd l
  | [], _ => by simp [natProd]
  | x :: l, h => by
    simp only [natProd]
    exact Nat.mul_pos (h x (by simp)) (natProd_pos_of_pos l (fun y hy => h y (by simp [hy])))

/-- A product of factors all equal to `m ≥ 2` is never `m + 1`. -/
theorem natProd_const_ne_succ {m : Nat} (hm : 2 ≤ m) : ∀ l : List Nat, (∀ x ∈ l, x = m) → natProd l ≠ m + 1
  | [], _ => by simp only [natProd]; omega
  | x :: l, h => by
    have hx : x = m := h x (by simp)
    have hq : 1 ≤ natProd l := natProd_pos_of_pos l (fun y hy => by rw [h y (by simp [hy])]; omega)
    simp only [natProd, hx]
    intro he
    rcases Nat.lt_or_ge (natProd l) 2 with h2 | h2
    · have : natProd l = 1 := by omega
      rw [this] at he; omega
    · have : m * 2 ≤ m * natProd l := Nat.mul_le_mul_left m h2
      omega

/-- A product of factors all `≥ 3` is `1` (no factor) or `≥ 3`. -/
theorem natProd_big : ∀ l : List Nat, (∀ x ∈ l, 3 ≤ x) → natProd l = 1 ∨ 3 ≤ natProd l
  | [], _ => Or.inl rfl
  | x :: l, h => by
    right
    have hx := h x (by simp)
    have hq : 1 ≤ natProd l := natProd_pos_of_pos l (fun y hy => by have := h y (by simp [hy]); omega)
    simp only [natProd]
    have : x * 1 ≤ x * natProd l := Nat.mul_le_mul_left x hq
    omega

theorem prodL_threes : ∀ l : List Nat, prodL (l.flatMap (fun _ => [3])) ≠ 2
  | [] => by simp [prodL]
  | _ :: l => by
    simp only [List.flatMap_cons, List.singleton_append, prodL]
    omega

end Einx.Solve
