import EinxModel.Proofs.NotationSim
/-!
# M1 Notation — definitions for the re-printing theorem (`print_parse_partial`)

Layers (each proved in its own file):
* `NotationDigits`     : `natStr` is a string of ASCII decimal digits that `int()` maps back
* `NotationPieces`     : the lexer on a concatenation of well separated token texts (`segment_pieces`)
* `NotationStack`      : the delimiter stack on the token texts of a position-free token tree (`buildTree_texts`)
* `NotationPrintParse` : `parse` on the token tree of a printed expression (`parse_printed`)
* `NotationFinishNF`   : the passes after `parse` on trees that are already in normal form (`finish_nf`)
-/
namespace Einx.Notation

/-! ### Position-free token trees -/

inductive PTok where
  | atom (s : Str)
  | group (o c : Str) (inner : List PTok)
deriving Repr, Inhabited

mutual
/-- Forget positions. -/
def Tok.erase : Tok → PTok
  | .atom t => .atom t.text
  | .group o c inner => .group o.text c.text (eraseL inner)
def eraseL : List Tok → List PTok
  | [] => []
  | t :: ts => t.erase :: eraseL ts
end

mutual
/-- The token texts of a token tree, in source order. -/
def PTok.texts : PTok → List Str
  | .atom s => [s]
  | .group o c inner => o :: (textsL inner ++ [c])
def textsL : List PTok → List Str
  | [] => []
  | p :: ps => p.texts ++ textsL ps
end

mutual
/-- Atoms are not delimiters; groups carry a matching pair of delimiters. -/
def PTok.wf : PTok → Bool
  | .atom s => !delimsFront.contains s && !delimsBack.contains s
  | .group o c inner => delimsFront.contains o && closingOf o == some c && wfL inner
def wfL : List PTok → Bool
  | [] => true
  | p :: ps => p.wf && wfL ps
end

/-- A token text without any character that starts a literal: letters, digits, underscore. -/
def isWord (w : Str) : Bool := !w.isEmpty && w.all isNameCont

/-- Every text is a literal or a word, and a word is always followed by a literal (or the end). -/
def wellSep : List Str → Bool
  | [] => true
  | [p] => literals.contains p || isWord p
  | p :: q :: r => (literals.contains p || (isWord p && literals.contains q)) && wellSep (q :: r)

def hasAdjSpaces : List Str → Bool
  | a :: b :: r => (a == spaceLit && b == spaceLit) || hasAdjSpaces (b :: r)
  | _ => false

/-! ### The token tree of a printed expression -/

def sepList : List PTok := [.atom (lit " ")]
def sepArgs : List PTok := [.atom (lit ","), .atom (lit " ")]
def sepOp : List PTok := [.atom (lit " "), .atom (lit "->"), .atom (lit " ")]
def sepPlus : List PTok := [.atom (lit " "), .atom (lit "+"), .atom (lit " ")]

/-- `sep.join(xs)` on token lists. -/
def joinP (sep : List PTok) : List (List PTok) → List PTok
  | [] => []
  | [x] => x
  | x :: y :: xs => x ++ sep ++ joinP sep (y :: xs)

mutual
/-- The (position-free) token tree that the delimiter stack builds from `str(expr)`, for printable expressions. -/
def Expr.ptree : Expr → List PTok
  | .axis n v _ _ => match v with | none => [.atom n] | some k => [.atom (natStr k)]
  | .flat i _ _ => [.group (lit "(") (lit ")") i.ptree]
  | .brackets i _ _ => [.group (lit "[") (lit "]") i.ptree]
  | .ellipsis i _ _ _ => if isAnonAxis i then [.atom (lit "...")] else i.ptree ++ [.atom (lit "...")]
  | .concat cs _ _ => [.group (lit "(") (lit ")") (joinP sepPlus (ptreeL cs))]
  | .list cs _ _ => joinP sepList (ptreeL cs)
  | .args cs _ _ => joinP sepArgs (ptreeL cs)
  | .op cs _ _ => joinP sepOp (ptreeL cs)
def ptreeL : List Expr → List (List PTok)
  | [] => []
  | c :: cs => c.ptree :: ptreeL cs
end

/-! ### Printable expressions -/

/-- The anonymous ellipsis axis as `parse` creates it (no value). -/
def isAnonAxisNone : Expr → Bool
  | .axis n none _ _ => n == anonName
  | _ => false

/-- The ellipsis over the anonymous axis, `...`. -/
def isEllAnon : Expr → Bool
  | .ellipsis i _ _ _ => isAnonAxisNone i
  | _ => false

def Expr.isEllipsis : Expr → Bool | .ellipsis .. => true | _ => false

/-- What may stand directly under an ellipsis besides the anonymous axis: an expression that prints as ONE token or
    ONE delimiter group (not a list — printed with braces —, not an ellipsis other than `...` itself: `a......` is three
    tokens in a row, while `......` re-parses as an ellipsis over `...`). -/
def ellOperand (i : Expr) : Bool := i.isAxis || i.isFlat || i.isBrackets || i.isConcat || isEllAnon i

mutual
/-- Printable expression below `Args`, in normal form.  `inBr`: inside brackets; `allowList`: a `List` is allowed here
    (it is not directly inside another `List`, under an ellipsis or in a concatenation).
    * named axes have a valid name; numeric axes may stand anywhere (also inside brackets: the fresh names of a re-parsed
      tree are pairwise distinct, Proofs/NotationFresh.lean);
    * `FlattenedAxis` not directly over a `FlattenedAxis` (constructor invariant) or a `ConcatenatedAxis` (prints `((a + b))`,
      which re-parses without the outer parentheses);
    * `Brackets` not inside `Brackets` (removed by the parser), not empty;
    * `Ellipsis` over the anonymous axis or over an `ellOperand` (one axis / flattened axis / brackets / concatenation, or `...`);
    * `ConcatenatedAxis` of at least two axes / flattened axes;
    * `List` with 0 or ≥ 2 children, none of them a `List`. -/
def PT (inBr allowList : Bool) : Expr → Bool
  | .axis n v _ _ => match v with | none => isAxisName n | some _ => true
  | .flat i _ _ => !i.isFlat && !i.isConcat && PT inBr true i
  | .brackets i _ _ => !inBr && !i.isBrackets && i.ndim != some 0 && PT true true i
  | .ellipsis i _ _ _ => isAnonAxisNone i || (!isAnonAxis i && ellOperand i && PT inBr false i)
  | .concat cs _ _ => decide (2 ≤ cs.length) && cs.all isAxisOrFlat && PTL inBr cs
  | .list cs _ _ => allowList && cs.length != 1 && PTL inBr cs
  | .args .. => false
  | .op .. => false
def PTL (inBr : Bool) : List Expr → Bool
  | [] => true
  | c :: cs => PT inBr false c && PTL inBr cs
end

/-- `Args` of printable expressions. -/
def PArgs : Expr → Bool
  | .args as _ _ => !as.isEmpty && as.all (PT false true)
  | _ => false

/-- The structural part of `Printable`: `Op` of one or two `Args` of printable expressions. -/
def PRoot : Expr → Bool
  | .op cs _ _ => (cs.length == 1 || cs.length == 2) && cs.all PArgs
  | _ => false

/-- `Printable t`: `t` has the normal form of `parse_op`'s results without the three patterns whose printed text is not
    (faithfully) in the notation (`PRoot`), and `t` passes the inconsistent-brackets check of the parser. -/
def Printable (t : Expr) : Bool :=
  PRoot t && (conflictNames (occs [] false t)).isEmpty

/-! ### Normal form without the conditions on names (what the passes after `parse` need) -/

mutual
def Q (inBr allowList : Bool) : Expr → Bool
  | .axis .. => true
  | .flat i _ _ => !i.isFlat && Q inBr true i
  | .brackets i _ _ => !inBr && !i.isBrackets && i.ndim != some 0 && Q true true i
  | .ellipsis i _ _ _ => (i.isAxis || i.isFlat || i.isBrackets || i.isConcat || i.isEllipsis) && Q inBr false i
  | .concat cs _ _ => decide (2 ≤ cs.length) && QL inBr cs
  | .list cs _ _ => allowList && cs.length != 1 && QL inBr cs
  | .args .. => false
  | .op .. => false
def QL (inBr : Bool) : List Expr → Bool
  | [] => true
  | c :: cs => Q inBr false c && QL inBr cs
end

/-- One side of `->` as `parse` returns it: `Args` of normal forms, or a single normal form (no comma). -/
def QArgs : Expr → Bool
  | .args as _ _ => as.all (Q false true)
  | a => Q false true a

/-- The result of `parse`: `Op` of two sides, or one side (no `->`). -/
def QRoot : Expr → Bool
  | .op cs _ _ => cs.length == 2 && cs.all QArgs
  | a => QArgs a

/-- `Args(...)` around one side, positions erased. -/
def wrapArgsS : Expr → Expr
  | .args as _ _ => .args (shapeL as) 0 0
  | a => .args [a.shape] 0 0

/-- The `shape` of what the passes after `parse` return for a `QRoot` tree. -/
def canonShape : Expr → Expr
  | .op cs _ _ => .op (cs.map wrapArgsS) 0 0
  | a => .op [wrapArgsS a] 0 0

/-- What `parse` returns for the printed text of `t`: sides with a single argument are not wrapped in `Args`, a single
    side is not wrapped in `Op`. -/
def unwrapArgs : Expr → Expr
  | .args [a] _ _ => a
  | x => x

def preTree : Expr → Expr
  | .op [a] _ _ => unwrapArgs a
  | .op cs b e => .op (cs.map unwrapArgs) b e
  | x => x

mutual
/-- Every numeric axis carries a fresh name `unnamed.<id>`. -/
def ValuedFresh : Expr → Prop
  | .axis n v _ _ => v ≠ none → ∃ p, n = unnamedName p
  | .flat i _ _ | .brackets i _ _ | .ellipsis i _ _ _ => ValuedFresh i
  | .concat cs _ _ | .list cs _ _ | .args cs _ _ | .op cs _ _ => ValuedFreshL cs
def ValuedFreshL : List Expr → Prop
  | [] => True
  | c :: cs => ValuedFresh c ∧ ValuedFreshL cs
end

end Einx.Notation
