import EinxModel.Proofs.CseTreesSys
/-!
Helper lemmas for `Props/C02Cse.lean`, part 5: from the side conditions `traceOK` to the two directions of
"CSE preserves the solution set" for the replacement of all roots.
-/
namespace Einx.Solve.CseT
open Einx.Solve

/-! ### the assignment after CSE: `cse.<k>` := value of what it replaces -/

def cseEntry (σ : Var → Nat) : Ev → Option (String × Nat)
  | .used k e _ _ => if (valueOf e).isNone then some (cseName k, evalV σ e) else none
  | .surv _ _ => none

def cseTable (σ : Var → Nat) (evs : List Ev) : List (String × Nat) := evs.filterMap (cseEntry σ)

/-- `σ` extended to the new axes: `cse.<k>` gets the value of the (first) sub-expression it replaces -/
def extend (σ : Var → Nat) (evs : List Ev) : Var → Nat := fun x => ((cseTable σ evs).lookup x).getD (σ x)

theorem lookup_none_of {l : List (String × Nat)} {x : String} (h : ∀ p ∈ l, p.1 ≠ x) : l.lookup x = none := by
  induction l with
  | nil => rfl
  | cons p ps ih =>
    have hp : (x == p.1) = false := by simpa using (h p List.mem_cons_self).symm
    obtain ⟨a, b⟩ := p
    simp only [List.lookup, hp]
    exact ih (fun q hq => h q (List.mem_cons_of_mem _ hq))

theorem lookup_of_mem {l : List (String × Nat)} {x : String} {v : Nat} (h : (x, v) ∈ l) :
    ∃ v', l.lookup x = some v' ∧ (x, v') ∈ l := by
  induction l with
  | nil => cases h
  | cons p ps ih =>
    obtain ⟨a, b⟩ := p
    by_cases hx : x = a
    · subst hx
      exact ⟨b, by simp [List.lookup], List.mem_cons_self⟩
    · have hne : (x == a) = false := by simpa using hx
      have hm : (x, v) ∈ ps := by
        cases h with
        | head => exact absurd rfl hx
        | tail _ h => exact h
      obtain ⟨v', h1, h2⟩ := ih hm
      exact ⟨v', by simp only [List.lookup, hne]; exact h1, List.mem_cons_of_mem _ h2⟩

theorem mem_cseTable {σ : Var → Nat} {evs : List Ev} {x : String} {v : Nat} (h : (x, v) ∈ cseTable σ evs) :
    ∃ k e len r, Ev.used k e len r ∈ evs ∧ valueOf e = none ∧ x = cseName k ∧ v = evalV σ e := by
  simp only [cseTable, List.mem_filterMap] at h
  obtain ⟨ev, hev, hc⟩ := h
  cases ev with
  | surv n m => simp [cseEntry] at hc
  | used k e len r =>
    simp only [cseEntry] at hc
    split at hc
    · rename_i hn
      simp only [Option.some.injEq, Prod.mk.injEq] at hc
      exact ⟨k, e, len, r, hev, by simpa using hn, hc.1.symm, hc.2.symm⟩
    · cases hc

/-! ### unpacking the side conditions -/

theorem usedOK_spec {k : Nat} {e : VExpr} {len : Nat} {r : Bool} (h : usedOK (.used k e len r) = true)
    (hfilt : FiltOK (.used k e len r)) :
    0 < len ∧ (∃ m ub, valueRange e = some (m, ub) ∧ (valueOf e = none → ub = true)) ∧
      hasRepeatedAxis e = false ∧ (∀ p ∈ freeAxes e, 1 ≤ p.2) ∧ (r = true → ndim e = 1) := by
  simp only [usedOK, Bool.and_eq_true, decide_eq_true_eq, Bool.or_eq_true, Bool.not_eq_true', List.all_eq_true,
    beq_iff_eq] at h
  obtain ⟨⟨h4, h5⟩, h6⟩ := h
  obtain ⟨h1, h2, h3⟩ := hfilt
  refine ⟨h1, ?_, h3, h4, ?_⟩
  · cases hr : valueRange e with
    | none => simp [hr] at h2
    | some p =>
      obtain ⟨m, ub⟩ := p
      refine ⟨m, ub, rfl, fun hv => ?_⟩
      simp only [hv, hr] at h5
      simpa using h5
  · intro hr
    cases h6 with
    | inl h => simp [hr] at h
    | inr h => exact h

structure TraceFacts (evs : List Ev) : Prop where
  filt : ∀ ev ∈ evs, FiltOK ev
  used : ∀ ev ∈ evs, usedOK ev = true
  pair : ∀ a ∈ evs, ∀ b ∈ evs, pairOK a b = true

theorem traceOK_facts {evs : List Ev} (h : traceOK evs = true) (hfilt : ∀ ev ∈ evs, FiltOK ev) : TraceFacts evs := by
  simp only [traceOK, Bool.and_eq_true, List.all_eq_true] at h
  exact ⟨hfilt, h.1, h.2⟩

theorem evPos_of_facts {evs : List Ev} (hf : TraceFacts evs) : ∀ ev ∈ evs, EvPos ev := by
  intro ev hev
  cases ev with
  | surv n m => trivial
  | used k e len r => exact (usedOK_spec (hf.used _ hev) (hf.filt _ hev)).1

/-! ### forward: a solution before CSE, extended, is a solution after CSE -/

theorem good_forward {evs : List Ev} (hf : TraceFacts evs) (σ : Var → Nat) :
    ∀ ev ∈ evs, GoodEv σ (extend σ evs) ev := by
  intro ev hev
  cases ev with
  | surv n m =>
    show extend σ evs n = σ n
    have : (cseTable σ evs).lookup n = none := by
      apply lookup_none_of
      intro p hp
      obtain ⟨k, e, len, r, hu, _, hx, _⟩ := mem_cseTable (x := p.1) (v := p.2) hp
      have := hf.pair _ hev _ hu
      simp only [pairOK, Bool.and_eq_true, bne_iff_ne, ne_eq] at this
      rw [hx]; exact fun h => this.1 h.symm
    simp [extend, this]
  | used k e len r =>
    obtain ⟨hlen, _, _, _, hroot⟩ := usedOK_spec (hf.used _ hev) (hf.filt _ hev)
    refine ⟨hlen, fun hv => ?_, hroot⟩
    have hmem : (cseName k, evalV σ e) ∈ cseTable σ evs := by
      simp only [cseTable, List.mem_filterMap]
      exact ⟨_, hev, by simp [cseEntry, hv]⟩
    obtain ⟨v', h1, h2⟩ := lookup_of_mem hmem
    obtain ⟨k', e', len', r', hu, _, hx, hv'⟩ := mem_cseTable h2
    have := hf.pair _ hev _ hu
    simp only [pairOK, hx, beq_self_eq_true, if_true] at this
    have heq := (sameShape_spec this σ).1
    simp only [extend, h1, Option.getD_some, hv', heq]

/-! ### backward: a solution after CSE comes from a solution before CSE -/

/-- names of the unknown axes inside the replaced parts -/
def innerNames (evs : List Ev) : List String :=
  evs.flatMap (fun ev => match ev with | .used _ e _ _ => freeNamesB e | .surv _ _ => [])

theorem mem_innerNames {evs : List Ev} {x : String} :
    x ∈ innerNames evs ↔ ∃ k e len r, Ev.used k e len r ∈ evs ∧ x ∈ freeNamesB e := by
  simp only [innerNames, List.mem_flatMap]
  constructor
  · rintro ⟨ev, hev, hx⟩
    cases ev with
    | surv n m => simp at hx
    | used k e len r => exact ⟨k, e, len, r, hev, hx⟩
  · rintro ⟨k, e, len, r, hev, hx⟩
    exact ⟨_, hev, hx⟩

theorem disjointNames_spec {a b : List String} (h : disjointNames a b = true) : ∀ x ∈ a, x ∉ b := by
  simp only [disjointNames, List.all_eq_true, Bool.not_eq_true', List.contains_eq_mem, decide_eq_false_iff_not] at h
  exact h

/-- The assignment before CSE is built event by event: the unknown axes inside a replaced part are chosen such that
the part takes the value of its `cse.<k>` axis (surjectivity of `valueRange`), parts of the same shape get the same
choice, parts of different candidates have disjoint axes. -/
theorem build_before {evs : List Ev} (hf : TraceFacts evs) (σ' : Var → Nat)
    (hdecl : ∀ k e len r m ub, Ev.used k e len r ∈ evs → valueOf e = none → valueRange e = some (m, ub) →
      m ≤ σ' (cseName k)) :
    ∀ L : List Ev, (∀ ev ∈ L, ev ∈ evs) →
      ∃ σ : Var → Nat, (∀ x, x ∉ innerNames L → σ x = σ' x) ∧
        ∀ k e len r, Ev.used k e len r ∈ L →
          (valueOf e = none → evalV σ e = σ' (cseName k)) ∧ (∀ p ∈ freeAxes e, p.2 ≤ σ p.1)
  | [] => by
    intro _
    exact ⟨σ', fun _ _ => rfl, fun k e len r h => by cases h⟩
  | ev :: L => by
    intro hL
    obtain ⟨σ1, hfr, hinv⟩ := build_before hf σ' hdecl L (fun ev hev => hL ev (List.mem_cons_of_mem _ hev))
    cases ev with
    | surv n m =>
      refine ⟨σ1, fun x hx => hfr x (by simpa [innerNames] using hx), fun k e len r h => ?_⟩
      cases h with
      | tail _ h => exact hinv k e len r h
    | used k e len r =>
      have hev : Ev.used k e len r ∈ evs := hL _ List.mem_cons_self
      obtain ⟨_, ⟨m, ub, hrange, hub⟩, hnorep, hminpos, _⟩ := usedOK_spec (hf.used _ hev) (hf.filt _ hev)
      cases hv : valueOf e with
      | some v =>
        -- a part with a known value has no unknown axes
        have hfree := valueOf_some_free e v hv
        refine ⟨σ1, fun x hx => hfr x ?_, fun k0 e0 len0 r0 h => ?_⟩
        · intro hx'; apply hx
          simp only [innerNames, List.flatMap_cons, List.mem_append]; exact Or.inr hx'
        · cases h with
          | head => exact ⟨fun h => by simp [hv] at h, by simp [hfree]⟩
          | tail _ h => exact hinv k0 e0 len0 r0 h
      | none =>
        have hubt : ub = true := hub hv
        subst hubt
        obtain ⟨_, _, hex⟩ := valueRange_spec_aux e m true hrange ((hasDup_false_iff _).mp hnorep) hminpos
        have htarget : okT (m, true) (σ' (cseName k)) := by
          simpa [okT] using hdecl k e len r m true hev hv hrange
        obtain ⟨σ2, h21, h22, h23⟩ := hex σ1 (σ' (cseName k)) htarget
        refine ⟨σ2, fun x hx => ?_, fun k0 e0 len0 r0 h => ?_⟩
        · have hx1 : x ∉ (freeAxes e).map (·.1) := by
            intro hx'; apply hx
            simp only [innerNames, List.flatMap_cons, List.mem_append]; exact Or.inl hx'
          have hx2 : x ∉ innerNames L := by
            intro hx'; apply hx
            simp only [innerNames, List.flatMap_cons, List.mem_append]; exact Or.inr hx'
          rw [h21 x hx1, hfr x hx2]
        · cases h with
          | head => exact ⟨fun _ => h23, h22⟩
          | tail _ h =>
            have hev0 : Ev.used k0 e0 len0 r0 ∈ evs := hL _ (List.mem_cons_of_mem _ h)
            obtain ⟨i1, i2⟩ := hinv k0 e0 len0 r0 h
            have hp := hf.pair _ hev _ hev0
            simp only [pairOK] at hp
            split at hp
            · rename_i hname
              have hname' : cseName k = cseName k0 := by simpa using hname
              obtain ⟨s1, s2⟩ := sameShape_spec hp σ2
              exact ⟨fun _ => by rw [← s1, h23, hname'], by rw [← s2]; exact h22⟩
            · have hdis := disjointNames_spec hp
              have hagree : ∀ p ∈ freeAxes e0, σ2 p.1 = σ1 p.1 := by
                intro p hp0
                apply h21
                intro hx
                exact hdis p.1 hx (List.mem_map_of_mem hp0)
              refine ⟨fun hv0 => ?_, fun p hp0 => ?_⟩
              · rw [evalV_congr σ2 σ1 e0 hagree]; exact i1 hv0
              · rw [hagree p hp0]; exact i2 p hp0

theorem good_backward {evs : List Ev} (hf : TraceFacts evs) (σ σ' : Var → Nat)
    (hfr : ∀ x, x ∉ innerNames evs → σ x = σ' x)
    (hinv : ∀ k e len r, Ev.used k e len r ∈ evs → (valueOf e = none → evalV σ e = σ' (cseName k))) :
    ∀ ev ∈ evs, GoodEv σ σ' ev := by
  intro ev hev
  cases ev with
  | surv n m =>
    show σ' n = σ n
    refine (hfr n ?_).symm
    intro hx
    obtain ⟨k, e, len, r, hu, hx⟩ := mem_innerNames.mp hx
    have := hf.pair _ hev _ hu
    simp only [pairOK, Bool.and_eq_true, Bool.not_eq_true', List.contains_eq_mem, decide_eq_false_iff_not] at this
    exact this.2 hx
  | used k e len r =>
    obtain ⟨hlen, _, _, _, hroot⟩ := usedOK_spec (hf.used _ hev) (hf.filt _ hev)
    exact ⟨hlen, fun hv => (hinv k e len r hev hv).symm, hroot⟩

end Einx.Solve.CseT
