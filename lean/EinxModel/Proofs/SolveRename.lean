import EinxModel.Proofs.SolveNum
/-!
Consistent renaming of axis names (`renameE`, `renameInput`) against the semantics and the rank
system.  The anonymous ellipsis `...` is the ellipsis over the axis `.anonymous_ellipsis_axis`;
writing `s...` instead is the renaming `.anonymous_ellipsis_axis ↦ s`.
-/
namespace Einx.Solve

mutual
theorem rename_axesOf (ρ : Var → Nat) (f : String → String) : ∀ (e : Expr) (idx : List Nat),
    axesOf ρ idx (renameE f e) = (axesOf ρ idx e).map (renAxis f)
  | .axis n, idx => by simp [renameE, axesOf, renAxis, renVar]
  | .num _, _ => by simp [renameE, axesOf]
  | .brackets e, idx => by simp only [renameE, axesOf]; exact rename_axesOf ρ f e idx
  | .flat e, idx => by simp only [renameE, axesOf]; exact rename_axesOf ρ f e idx
  | .concat cs, idx => by simp only [renameE, axesOf]; exact renameL_axesOf ρ f cs idx
  | .ellipsis id e, idx => by
    simp only [renameE, axesOf, List.map_flatMap]
    have ih := fun i => rename_axesOf ρ f e (idx ++ [i])
    simp only [ih]
  | .list cs, idx => by simp only [renameE, axesOf]; exact renameL_axesOf ρ f cs idx
theorem renameL_axesOf (ρ : Var → Nat) (f : String → String) : ∀ (cs : List Expr) (idx : List Nat),
    axesOfL ρ idx (renameEL f cs) = (axesOfL ρ idx cs).map (renAxis f)
  | [], _ => by simp [renameEL, axesOfL]
  | c :: cs, idx => by
    simp only [renameEL, axesOfL, List.map_append]
    rw [rename_axesOf ρ f c idx, renameL_axesOf ρ f cs idx]
end

mutual
theorem rename_evalItems (ρ σ σ' : Var → Nat) (f : String → String) : ∀ (e : Expr) (idx : List Nat),
    (∀ a ∈ axesOf ρ idx e, σ' (renVar f a) = σ a.2.2) →
    evalItems ρ σ' idx (renameE f e) = evalItems ρ σ idx e
  | .axis n, idx, h => by
    have hh := h (n, idx, n ++ idxSuffix idx) (by simp [axesOf])
    simp only [renVar] at hh
    simp only [renameE, evalItems]
    rw [hh]
  | .num _, _, _ => by simp only [renameE, evalItems]
  | .brackets e, idx, h => by
    simp only [renameE, evalItems]; exact rename_evalItems ρ σ σ' f e idx (by simpa only [axesOf] using h)
  | .flat e, idx, h => by
    simp only [renameE, evalItems]; rw [rename_evalItems ρ σ σ' f e idx (by simpa only [axesOf] using h)]
  | .concat cs, idx, h => by
    simp only [renameE, evalItems]; rw [renameL_evalItems ρ σ σ' f cs idx (by simpa only [axesOf] using h)]
  | .ellipsis id e, idx, h => by
    simp only [axesOf, List.forall_mem_flatMap] at h
    simp only [renameE, evalItems]
    exact flatMap_congr' (fun i hi => rename_evalItems ρ σ σ' f e (idx ++ [i]) (h i hi))
  | .list cs, idx, h => by
    simp only [renameE, evalItems]; exact renameL_evalItems ρ σ σ' f cs idx (by simpa only [axesOf] using h)
theorem renameL_evalItems (ρ σ σ' : Var → Nat) (f : String → String) : ∀ (cs : List Expr) (idx : List Nat),
    (∀ a ∈ axesOfL ρ idx cs, σ' (renVar f a) = σ a.2.2) →
    evalItemsL ρ σ' idx (renameEL f cs) = evalItemsL ρ σ idx cs
  | [], _, _ => by simp only [renameEL, evalItemsL]
  | c :: cs, idx, h => by
    simp only [axesOfL, List.forall_mem_append] at h
    simp only [renameEL, evalItemsL]
    rw [rename_evalItems ρ σ σ' f c idx h.1, renameL_evalItems ρ σ σ' f cs idx h.2]
end

mutual
theorem rename_nodeValues (ρ σ σ' : Var → Nat) (f : String → String) : ∀ (e : Expr) (idx : List Nat),
    (∀ a ∈ axesOf ρ idx e, σ' (renVar f a) = σ a.2.2) →
    nodeValues ρ σ' idx (renameE f e) = nodeValues ρ σ idx e
  | .axis _, _, _ => by simp only [renameE, nodeValues]
  | .num _, _, _ => by simp only [renameE, nodeValues]
  | .brackets e, idx, h => by
    simp only [renameE, nodeValues]; exact rename_nodeValues ρ σ σ' f e idx (by simpa only [axesOf] using h)
  | .flat e, idx, h => by
    simp only [axesOf] at h
    simp only [renameE, nodeValues]
    rw [rename_nodeValues ρ σ σ' f e idx h, rename_evalItems ρ σ σ' f e idx h]
  | .concat cs, idx, h => by
    simp only [axesOf] at h
    simp only [renameE, nodeValues]
    rw [renameL_nodeValues ρ σ σ' f cs idx h, renameL_evalItems ρ σ σ' f cs idx h]
  | .ellipsis id e, idx, h => by
    simp only [axesOf, List.forall_mem_flatMap] at h
    simp only [renameE, nodeValues]
    exact flatMap_congr' (fun i hi => rename_nodeValues ρ σ σ' f e (idx ++ [i]) (h i hi))
  | .list cs, idx, h => by
    simp only [renameE, nodeValues]; exact renameL_nodeValues ρ σ σ' f cs idx (by simpa only [axesOf] using h)
theorem renameL_nodeValues (ρ σ σ' : Var → Nat) (f : String → String) : ∀ (cs : List Expr) (idx : List Nat),
    (∀ a ∈ axesOfL ρ idx cs, σ' (renVar f a) = σ a.2.2) →
    nodeValuesL ρ σ' idx (renameEL f cs) = nodeValuesL ρ σ idx cs
  | [], _, _ => by simp only [renameEL, nodeValuesL]
  | c :: cs, idx, h => by
    simp only [axesOfL, List.forall_mem_append] at h
    simp only [renameEL, nodeValuesL]
    rw [rename_nodeValues ρ σ σ' f c idx h.1, renameL_nodeValues ρ σ σ' f cs idx h.2]
end

mutual
theorem rename_occs (f : String → String) : ∀ (e : Expr) (stack : List Var),
    occs stack (renameE f e) = (occs stack e).map (fun p => (f p.1, p.2))
  | .axis _, _ => by simp [renameE, occs]
  | .num _, _ => by simp [renameE, occs]
  | .brackets e, stack => by simp only [renameE, occs]; exact rename_occs f e stack
  | .flat e, stack => by simp only [renameE, occs]; exact rename_occs f e stack
  | .concat cs, stack => by simp only [renameE, occs]; exact renameL_occs f cs stack
  | .ellipsis id e, stack => by simp only [renameE, occs]; exact rename_occs f e (stack ++ [id])
  | .list cs, stack => by simp only [renameE, occs]; exact renameL_occs f cs stack
theorem renameL_occs (f : String → String) : ∀ (cs : List Expr) (stack : List Var),
    occsL stack (renameEL f cs) = (occsL stack cs).map (fun p => (f p.1, p.2))
  | [], _ => by simp [renameEL, occsL]
  | c :: cs, stack => by
    simp only [renameEL, occsL, List.map_append]
    rw [rename_occs f c stack, renameL_occs f cs stack]
end

mutual
theorem rename_width (ρ : Var → Nat) (f : String → String) : ∀ (e : Expr), width ρ (renameE f e) = width ρ e
  | .axis _ => by simp only [renameE, width]
  | .num _ => by simp only [renameE]
  | .brackets e => by simp only [renameE, width]; exact rename_width ρ f e
  | .flat _ => by simp only [renameE, width]
  | .concat _ => by simp only [renameE, width]
  | .ellipsis id e => by simp only [renameE, width]; rw [rename_width ρ f e]
  | .list cs => by simp only [renameE, width]; exact renameL_width ρ f cs
theorem renameL_width (ρ : Var → Nat) (f : String → String) : ∀ (cs : List Expr), widthL ρ (renameEL f cs) = widthL ρ cs
  | [] => by simp only [renameEL]
  | c :: cs => by simp only [renameEL, widthL]; rw [rename_width ρ f c, renameL_width ρ f cs]
end

/-! ### Rank level -/

theorem lookup_map_inj {β : Type} (f : String → String) (m : String) : ∀ (l : List (String × β)),
    (∀ p ∈ l, f p.1 = f m → p.1 = m) → (l.map (fun p => (f p.1, p.2))).lookup (f m) = l.lookup m
  | [], _ => rfl
  | (k, s) :: l, h => by
    simp only [List.map_cons]
    by_cases hk : m = k
    · subst hk; rw [lookup_cons_self', lookup_cons_self']
    · have hne : f m ≠ f k := by
        intro he
        exact hk (h (k, s) List.mem_cons_self he.symm).symm
      rw [lookup_cons_ne' hne, lookup_cons_ne' hk]
      exact lookup_map_inj f m l (fun p hp => h p (List.mem_cons_of_mem _ hp))

theorem renameInput_occs (f : String → String) (inp : Input) :
    (renameInput f inp).occs = inp.occs.map (fun p => (f p.1, p.2)) := by
  unfold Input.occs renameInput
  simp only [List.flatMap_map, List.map_flatMap, rename_occs]

theorem rename_rank (f : String → String) (inp : Input)
    (hinj : ∀ a ∈ inp.names, ∀ b ∈ inp.names, f a = f b → a = b) (ρ : Var → Nat) :
    Sat (rankSystem true (renameInput f inp)) ρ ↔ Sat (rankSystem true inp) ρ := by
  have hocc : ∀ p ∈ inp.occs, p.1 ∈ inp.names := fun p hp =>
    List.mem_append_left _ (List.mem_map.mpr ⟨p, hp, rfl⟩)
  have hcon : ∀ c ∈ inp.constraints, c.name ∈ inp.names := fun c hc =>
    List.mem_append_right _ (List.mem_map.mpr ⟨c, hc, rfl⟩)
  rw [sat_rankSystem_iff, sat_rankSystem_iff, renameInput_occs]
  have h1 : (∀ t ∈ (renameInput f inp).tensors, ∀ q ∈ rankEqn t, holds ρ q) ↔
      (∀ t ∈ inp.tensors, ∀ q ∈ rankEqn t, holds ρ q) := by
    simp only [renameInput, List.forall_mem_map, holds_rankEqn, rename_width]
  have h2 : (∀ q ∈ sameNameEqns [] (inp.occs.map (fun p => (f p.1, p.2))), holds ρ q) ↔
      (∀ q ∈ sameNameEqns [] inp.occs, holds ρ q) := by
    rw [sameName_holds, sameName_holds]
    simp only [List.nil_append, List.forall_mem_map]
    constructor
    · intro h p hp st0 hl
      apply h p hp st0
      rw [lookup_map_inj f p.1 inp.occs (fun q hq he => hinj _ (hocc q hq) _ (hocc p hp) he)]
      exact hl
    · intro h p hp st0 hl
      rw [lookup_map_inj f p.1 inp.occs (fun q hq he => hinj _ (hocc q hq) _ (hocc p hp) he)] at hl
      exact h p hp st0 hl
  have h3 : (∀ c ∈ (renameInput f inp).constraints,
        ∀ q ∈ constraintRankEqns true (inp.occs.map (fun p => (f p.1, p.2))) c, holds ρ q) ↔
      (∀ c ∈ inp.constraints, ∀ q ∈ constraintRankEqns true inp.occs c, holds ρ q) := by
    simp only [renameInput, List.forall_mem_map]
    have : ∀ c ∈ inp.constraints,
        constraintRankEqns true (inp.occs.map (fun p => (f p.1, p.2))) ⟨f c.name, c.shape, c.vals⟩ =
        constraintRankEqns true inp.occs c := by
      intro c hc
      unfold constraintRankEqns
      simp only
      rw [lookup_map_inj f c.name inp.occs (fun q hq he => hinj _ (hocc q hq) _ (hcon c hc) he)]
    constructor
    · intro h c hc; rw [← this c hc]; exact h c hc
    · intro h c hc; rw [this c hc]; exact h c hc
  rw [h1, h2, h3]

/-! ### Value level (semantic) -/

theorem mem_renameInput_axes {f : String → String} {inp : Input} {ρ : Var → Nat} {b : String × List Nat × Var} :
    b ∈ (renameInput f inp).axes ρ ↔ ∃ a ∈ inp.axes ρ, b = renAxis f a := by
  rw [mem_inputAxes]
  constructor
  · rintro ⟨t', ht', hb⟩
    simp only [renameInput, List.mem_map] at ht'
    obtain ⟨t, ht, rfl⟩ := ht'
    simp only [rename_axesOf, List.mem_map] at hb
    obtain ⟨a, ha, rfl⟩ := hb
    exact ⟨a, mem_inputAxes.mpr ⟨t, ht, ha⟩, rfl⟩
  · rintro ⟨a, ha, rfl⟩
    obtain ⟨t, ht, hat⟩ := mem_inputAxes.mp ha
    refine ⟨⟨renameE f t.expr, t.shape⟩, by simp only [renameInput, List.mem_map]; exact ⟨t, ht, rfl⟩, ?_⟩
    simp only [rename_axesOf]
    exact List.mem_map.mpr ⟨a, hat, rfl⟩

theorem axis_name_mem (inp : Input) (ρ : Var → Nat) (t : Tensor) (ht : t ∈ inp.tensors)
    (a : String × List Nat × Var) (ha : a ∈ axesOf ρ [] t.expr) : a.1 ∈ inp.names := by
  obtain ⟨st, hocc, _⟩ := axesOf_occs ρ t.expr [] [] trivial a ha
  apply List.mem_append_left
  refine List.mem_map.mpr ⟨(a.1, st), ?_, rfl⟩
  unfold Input.occs
  exact List.mem_flatMap.mpr ⟨t, ht, hocc⟩

theorem constraintValue_name (n m : String) (sh vals idx) :
    constraintValue ⟨n, sh, vals⟩ idx = constraintValue ⟨m, sh, vals⟩ idx := rfl

theorem rename_semSat (f : String → String) (inp : Input)
    (hinj : ∀ a ∈ inp.names, ∀ b ∈ inp.names, f a = f b → a = b) (ρ σ σ' : Var → Nat)
    (link : ∀ a ∈ inp.axes ρ, σ' (renVar f a) = σ a.2.2) :
    (SemSat (renameInput f inp) ρ σ' ↔ SemSat inp ρ σ) ∧
    semShapes (renameInput f inp) ρ σ' = semShapes inp ρ σ := by
  have hl : ∀ t ∈ inp.tensors, ∀ a ∈ axesOf ρ [] t.expr, σ' (renVar f a) = σ a.2.2 :=
    fun t ht a ha => link a (mem_inputAxes.mpr ⟨t, ht, ha⟩)
  have hmem : ∀ t ∈ inp.tensors, (⟨renameE f t.expr, t.shape⟩ : Tensor) ∈ (renameInput f inp).tensors := by
    intro t ht; simp only [renameInput, List.mem_map]; exact ⟨t, ht, rfl⟩
  have hcon : ∀ c ∈ inp.constraints, c.name ∈ inp.names := fun c hc =>
    List.mem_append_right _ (List.mem_map.mpr ⟨c, hc, rfl⟩)
  refine ⟨⟨?_, ?_⟩, ?_⟩
  · intro h
    refine ⟨?_, ?_, ?_, ?_⟩
    · intro t ht a ha
      have := h.axesPos _ (hmem t ht) (renAxis f a) (by simp only [rename_axesOf]; exact List.mem_map.mpr ⟨a, ha, rfl⟩)
      simp only [renAxis] at this
      rw [hl t ht a ha] at this; exact this
    · intro t ht v hv
      exact h.nodesPos _ (hmem t ht) v (by simp only; rw [rename_nodeValues ρ σ σ' f t.expr [] (hl t ht)]; exact hv)
    · intro t ht dims hd
      have := h.roots _ (hmem t ht) dims hd
      simp only at this
      rw [rename_evalItems ρ σ σ' f t.expr [] (hl t ht)] at this; exact this
    · intro c hc t ht a ha hn
      have hc' : (⟨f c.name, c.shape, c.vals⟩ : Constraint) ∈ (renameInput f inp).constraints := by
        simp only [renameInput, List.mem_map]; exact ⟨c, hc, rfl⟩
      have := h.constraints _ hc' _ (hmem t ht) (renAxis f a)
        (by simp only [rename_axesOf]; exact List.mem_map.mpr ⟨a, ha, rfl⟩) (by simp only [renAxis]; rw [hn])
      simp only [renAxis] at this
      rw [hl t ht a ha, constraintValue_name (f c.name) c.name] at this
      exact this
  · intro h
    refine ⟨?_, ?_, ?_, ?_⟩
    · intro t' ht' b hb
      simp only [renameInput, List.mem_map] at ht'
      obtain ⟨t, ht, rfl⟩ := ht'
      simp only [rename_axesOf, List.mem_map] at hb
      obtain ⟨a, ha, rfl⟩ := hb
      simp only [renAxis]
      rw [hl t ht a ha]; exact h.axesPos t ht a ha
    · intro t' ht' v hv
      simp only [renameInput, List.mem_map] at ht'
      obtain ⟨t, ht, rfl⟩ := ht'
      simp only at hv
      rw [rename_nodeValues ρ σ σ' f t.expr [] (hl t ht)] at hv
      exact h.nodesPos t ht v hv
    · intro t' ht' dims hd
      simp only [renameInput, List.mem_map] at ht'
      obtain ⟨t, ht, rfl⟩ := ht'
      simp only at hd ⊢
      rw [rename_evalItems ρ σ σ' f t.expr [] (hl t ht)]
      exact h.roots t ht dims hd
    · intro c' hc' t' ht' b hb hn
      simp only [renameInput, List.mem_map] at ht' hc'
      obtain ⟨t, ht, rfl⟩ := ht'
      obtain ⟨c, hc, rfl⟩ := hc'
      simp only [rename_axesOf, List.mem_map] at hb
      obtain ⟨a, ha, rfl⟩ := hb
      simp only [renAxis] at hn ⊢
      have hn' : a.1 = c.name := hinj _ (axis_name_mem inp ρ t ht a ha) _ (hcon c hc) hn
      rw [hl t ht a ha, constraintValue_name (f c.name) c.name]
      exact h.constraints c hc t ht a ha hn'
  · unfold semShapes renameInput
    simp only [List.map_map]
    apply List.map_congr_left
    intro t ht
    simp only [Function.comp]
    exact rename_evalItems ρ σ σ' f t.expr [] (hl t ht)

/-! ### Transporting assignments along the renaming -/

def pushRen (f : String → String) (inp : Input) (ρ σ : Var → Nat) : Var → Nat :=
  fun y => match (inp.axes ρ).find? (fun a => renVar f a == y) with
    | some a => σ a.2.2
    | none => σ y

def pullRen (f : String → String) (inp : Input) (ρ σ' : Var → Nat) : Var → Nat :=
  fun x => match (inp.axes ρ).find? (fun a => a.2.2 == x) with
    | some a => σ' (renVar f a)
    | none => σ' x

theorem renOK_iff (f : String → String) (inp : Input) (ρ : Var → Nat) :
    renOK f inp ρ = true ↔ ∀ a ∈ inp.axes ρ, ∀ b ∈ inp.axes ρ, (a.2.2 = b.2.2 ↔ renVar f a = renVar f b) := by
  unfold renOK
  simp only [List.all_eq_true, beq_iff_eq]
  constructor
  · intro h a ha b hb
    have := h a ha b hb
    constructor
    · intro he
      have h1 : (a.2.2 == b.2.2) = true := by simpa using he
      rw [h1] at this
      simpa using this.symm
    · intro he
      have h1 : (renVar f a == renVar f b) = true := by simpa using he
      rw [h1] at this
      simpa using this
  · intro h a ha b hb
    have := h a ha b hb
    by_cases he : a.2.2 = b.2.2
    · have h1 : (a.2.2 == b.2.2) = true := by simpa using he
      have h2 : (renVar f a == renVar f b) = true := by simpa using this.mp he
      rw [h1, h2]
    · have h1 : (a.2.2 == b.2.2) = false := by simpa using he
      have h2 : (renVar f a == renVar f b) = false := by simpa using fun h' => he (this.mpr h')
      rw [h1, h2]

theorem pushRen_link (f : String → String) (inp : Input) (ρ σ : Var → Nat) (hok : renOK f inp ρ = true) :
    ∀ a ∈ inp.axes ρ, pushRen f inp ρ σ (renVar f a) = σ a.2.2 := by
  rw [renOK_iff] at hok
  intro a ha
  unfold pushRen
  cases hf : (inp.axes ρ).find? (fun b => renVar f b == renVar f a) with
  | none =>
    have := List.find?_eq_none.mp hf a ha
    simp at this
  | some b =>
    have hb := List.mem_of_find?_eq_some hf
    have hp := List.find?_some hf
    simp only [beq_iff_eq] at hp
    simp only
    rw [(hok b hb a ha).mpr hp]

theorem pullRen_link (f : String → String) (inp : Input) (ρ σ' : Var → Nat) (hok : renOK f inp ρ = true) :
    ∀ a ∈ inp.axes ρ, σ' (renVar f a) = pullRen f inp ρ σ' a.2.2 := by
  rw [renOK_iff] at hok
  intro a ha
  unfold pullRen
  cases hf : (inp.axes ρ).find? (fun b => b.2.2 == a.2.2) with
  | none =>
    have := List.find?_eq_none.mp hf a ha
    simp at this
  | some b =>
    have hb := List.mem_of_find?_eq_some hf
    have hp := List.find?_some hf
    simp only [beq_iff_eq] at hp
    simp only
    rw [(hok b hb a ha).mp hp]

end Einx.Solve
