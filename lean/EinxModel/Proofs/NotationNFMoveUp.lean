import EinxModel.Proofs.NotationNFParse
/-!
# M1 Notation — normal form, layers 1 and 2: the two `move_up` passes

`moveUp_G`: on a tree of the grammar `G ao aa`, a successful `moveUp k` returns `k.wrap alts` with at least one
alternative; every alternative is in the grammar without the lifted node kind (`G (k.ao ao) (k.aa aa)`), an item stays an
item or becomes the empty list, an axis / flattened axis stays one.
-/
namespace Einx.Notation

namespace NF
open FinNF

/-- `Op` nodes allowed after lifting `k`. -/
def Lift.ao (k : Lift) (ao : Bool) : Bool := match k with | .op => false | .args => ao
/-- `Args` nodes allowed after lifting `k`. -/
def Lift.aa (k : Lift) (aa : Bool) : Bool := match k with | .op => aa | .args => false

/-- What is known about one alternative `a` of `x`. -/
def AltOK (k : Lift) (ao aa : Bool) (item axf : Bool) (a : Expr) : Prop :=
  G (Lift.ao k ao) (Lift.aa k aa) true a = true ∧ (item = true → (isItem a || isEmptyList a) = true) ∧
    (axf = true → isAxisOrFlat a = true)

/-- What is known about the result `y` of `moveUp k` on a tree with the flags `item`, `axf`. -/
def UpOK (k : Lift) (ao aa : Bool) (item axf : Bool) (y : Expr) : Prop :=
  ∃ alts b e, y = k.wrap alts b e ∧ alts ≠ [] ∧ ∀ a ∈ alts, AltOK k ao aa item axf a

theorem AltOK.weaken {k : Lift} {ao aa item axf item' axf' : Bool} {a : Expr} (h : AltOK k ao aa item axf a)
    (hi : item' = true → item = true) (hx : axf' = true → axf = true) : AltOK k ao aa item' axf' a :=
  ⟨h.1, fun h' => h.2.1 (hi h'), fun h' => h.2.2 (hx h')⟩

theorem UpOK.weaken {k : Lift} {ao aa item axf item' axf' : Bool} {y : Expr} (h : UpOK k ao aa item axf y)
    (hi : item' = true → item = true) (hx : axf' = true → axf = true) : UpOK k ao aa item' axf' y := by
  obtain ⟨alts, b, e, rfl, hne, ha⟩ := h
  exact ⟨alts, b, e, rfl, hne, fun a h' => (ha a h').weaken hi hx⟩

/-! ### `pick` and `distribute` -/

theorem pick_mem {idx : Nat} {o : Expr} (h : o.children.length = 1 ∨ idx < o.children.length) :
    pick idx o ∈ o.children := by
  unfold pick
  split
  · rename_i c hc
    rw [hc]; simp
  · rename_i hne
    rcases h with h | h
    · match hc : o.children, h with
      | [c], _ => exact (hne c hc).elim
    · rw [List.getD_eq_getElem?_getD, List.getElem?_eq_getElem h]
      simp

/-- The alternatives that `distribute` builds: `cls.create` of one alternative per child. -/
theorem distribute_alts (k : Lift) (cls : Cls) {ch : List Expr} (b e : Int) (arrows : List Int)
    (hch : ∀ o ∈ ch, o.children ≠ []) :
    OkP (fun y => ∃ alts, y = k.wrap alts b e ∧ alts ≠ [] ∧ ∀ a ∈ alts, ∃ picks, a = cls.create picks b e ∧
      picks.length = ch.length ∧ ∀ p ∈ picks, ∃ o ∈ ch, p ∈ o.children) (distribute k cls ch b e arrows) := by
  unfold distribute
  dsimp only
  split
  · trivial
  · rename_i hlen
    simp only [OkP]
    generalize hnums : ((ch.map (fun c => c.children.length)).filter (· != 1)).eraseDups = nums at hlen
    have hmem : ∀ o ∈ ch, o.children.length = 1 ∨ o.children.length ∈ nums := by
      intro o ho
      by_cases h1 : o.children.length = 1
      · exact Or.inl h1
      · right
        rw [← hnums, List.mem_eraseDups, List.mem_filter]
        exact ⟨List.mem_map.mpr ⟨o, ho, rfl⟩, by simpa using h1⟩
    have hpos : ∀ n ∈ nums, 1 ≤ n := by
      intro n hn
      rw [← hnums, List.mem_eraseDups, List.mem_filter, List.mem_map] at hn
      obtain ⟨⟨o, ho, rfl⟩, _⟩ := hn
      have := hch o ho
      cases hc : o.children with
      | nil => exact (this hc).elim
      | cons _ _ => simp
    have hnum : 1 ≤ nums.headD 1 ∧ ∀ o ∈ ch, o.children.length = 1 ∨ o.children.length = nums.headD 1 := by
      match nums, hlen, hmem, hpos with
      | [], _, hmem, _ => exact ⟨by simp, fun o ho => by simpa using hmem o ho⟩
      | [n], _, hmem, hpos => exact ⟨by simpa using hpos n (by simp), fun o ho => by simpa using hmem o ho⟩
      | _ :: _ :: _, hlen, _, _ => simp at hlen
    refine ⟨_, rfl, ?_, ?_⟩
    · intro h0
      have := congrArg List.length h0
      simp only [List.length_map, List.length_range, List.length_nil] at this
      omega
    · intro a ha
      obtain ⟨idx, hidx, rfl⟩ := List.mem_map.mp ha
      rw [List.mem_range] at hidx
      refine ⟨ch.map (pick idx), rfl, by simp, ?_⟩
      intro p hp
      obtain ⟨o, ho, rfl⟩ := List.mem_map.mp hp
      refine ⟨o, ho, pick_mem ?_⟩
      rcases hnum.2 o ho with h | h
      · exact Or.inl h
      · exact Or.inr (by omega)

/-! ### The children after `moveUpL` -/

/-- What is known about the results of `moveUpL` on a list of children with the flags `item`, `axf`. -/
def UpsOK (k : Lift) (ao aa : Bool) (item axf : Bool) (n : Nat) (ch : List Expr) : Prop :=
  ch.length = n ∧ ∀ o ∈ ch, UpOK k ao aa item axf o

theorem UpOK.children_ne {k : Lift} {ao aa item axf : Bool} {o : Expr} (h : UpOK k ao aa item axf o) : o.children ≠ [] := by
  obtain ⟨alts, b, e, rfl, hne, _⟩ := h
  rw [children_wrap]; exact hne

theorem UpOK.alt {k : Lift} {ao aa item axf : Bool} {o p : Expr} (h : UpOK k ao aa item axf o) (hp : p ∈ o.children) :
    AltOK k ao aa item axf p := by
  obtain ⟨alts, b, e, rfl, _, ha⟩ := h
  rw [children_wrap] at hp
  exact ha p hp

/-- `distribute` on the lifted children: every alternative is `cls.create` of alternatives of the children. -/
theorem distribute_ups (k : Lift) (cls : Cls) {ao aa item axf : Bool} {n : Nat} {ch : List Expr} (b e : Int) (arrows : List Int)
    (h : UpsOK k ao aa item axf n ch) :
    OkP (fun y => ∃ alts, y = k.wrap alts b e ∧ alts ≠ [] ∧ ∀ a ∈ alts, ∃ picks, a = cls.create picks b e ∧
      picks.length = n ∧ ∀ p ∈ picks, AltOK k ao aa item axf p) (distribute k cls ch b e arrows) := by
  have := distribute_alts k cls b e arrows (fun o ho => (h.2 o ho).children_ne)
  cases hd : distribute k cls ch b e arrows with
  | error err => trivial
  | ok y =>
    rw [hd] at this
    simp only [OkP] at this ⊢
    obtain ⟨alts, rfl, hne, ha⟩ := this
    refine ⟨alts, rfl, hne, ?_⟩
    intro a haa
    obtain ⟨picks, rfl, hl, hp⟩ := ha a haa
    refine ⟨picks, rfl, by rw [hl, h.1], ?_⟩
    intro p hpp
    obtain ⟨o, ho, hpo⟩ := hp p hpp
    exact (h.2 o ho).alt hpo

theorem flatMap_children_ups {k : Lift} {ao aa item axf : Bool} {n : Nat} {ch : List Expr} (h : UpsOK k ao aa item axf n ch)
    (hn : 1 ≤ n) : ch.flatMap Expr.children ≠ [] ∧ ∀ a ∈ ch.flatMap Expr.children, AltOK k ao aa item axf a := by
  constructor
  · match ch, h with
    | [], h => have := h.1; simp at this; omega
    | o :: os, h =>
      have := (h.2 o (by simp)).children_ne
      simp only [List.flatMap_cons, ne_eq, List.append_eq_nil_iff, not_and]
      intro h0; exact (this h0).elim
  · intro a ha
    obtain ⟨o, ho, hao⟩ := List.mem_flatMap.mp ha
    exact (h.2 o ho).alt hao

/-! ### The grammar after lifting -/

theorem G_args_of {ao aa : Bool} {cs : List Expr} (b e : Int) (haa : aa = true) (hne : cs ≠ [])
    (h : ∀ c ∈ cs, G ao aa true c = true) : G ao aa true (.args cs b e) = true := by
  subst haa
  simp only [G, Bool.true_and, Bool.and_eq_true, Bool.not_eq_true', List.isEmpty_eq_false_iff]
  exact ⟨hne, GL_iff.mpr h⟩

theorem ne_nil_of_length {α : Type} {l : List α} {n : Nat} (h : l.length = n) (hn : 1 ≤ n) : l ≠ [] := by
  intro h0; rw [h0] at h; simp at h; omega

/-! ### `moveUp` -/

mutual
/-- Layers 1 and 2: `moveUp k` on a tree of the grammar `G ao aa`. -/
theorem moveUp_G (k : Lift) (arrows : List Int) (ao aa : Bool) : ∀ (x : Expr), G ao aa true x = true →
    OkP (UpOK k ao aa (isItem x) (isAxisOrFlat x)) (moveUp k arrows x)
  | .axis n v b e, h => by
    simp only [moveUp, OkP]
    refine ⟨[.axis n v b e], -1, -1, rfl, by simp, ?_⟩
    intro a ha
    simp only [List.mem_singleton] at ha
    subst ha
    exact ⟨by simpa only [G] using h, fun _ => by simp [isItem], fun _ => by simp [isAxisOrFlat, Expr.isAxis]⟩
  | .flat i b e, h => by
    simp only [G, Bool.and_eq_true] at h
    have ih := moveUp_G k arrows ao aa i h.2
    simp only [moveUp]
    cases hm : moveUp k arrows i with
    | error err => trivial
    | ok o =>
      rw [hm] at ih
      simp only [OkP] at ih ⊢
      obtain ⟨alts, b', e', rfl, hne, ha⟩ := ih
      simp only [children_wrap, b_wrap, e_wrap]
      refine ⟨alts.map (fun a => mkFlat a b e), _, _, rfl, by simpa using hne, ?_⟩
      intro a' ha'
      obtain ⟨a, haa, rfl⟩ := List.mem_map.mp ha'
      have hf := mkFlat_isFlat a b e
      refine ⟨G_mkFlat b e (ha a haa).1, fun _ => ?_, fun _ => ?_⟩
      · cases hmk : mkFlat a b e <;> rw [hmk] at hf <;> simp [Expr.isFlat] at hf
        simp [isItem]
      · simp [isAxisOrFlat, hf]
  | .brackets i b e, h => by
    simp only [G, Bool.and_eq_true] at h
    have ih := moveUp_G k arrows ao aa i h.2
    simp only [moveUp]
    cases hm : moveUp k arrows i with
    | error err => trivial
    | ok o =>
      rw [hm] at ih
      simp only [OkP] at ih ⊢
      obtain ⟨alts, b', e', rfl, hne, ha⟩ := ih
      simp only [children_wrap, b_wrap, e_wrap]
      refine ⟨alts.map (fun a => mkBrackets a b e), _, _, rfl, by simpa using hne, ?_⟩
      intro a' ha'
      obtain ⟨a, haa, rfl⟩ := List.mem_map.mp ha'
      have hc := mkBrackets_cases b e (ha a haa).1
      exact ⟨hc.1, fun _ => hc.2.1, fun hx => by simp [isAxisOrFlat, Expr.isAxis, Expr.isFlat] at hx⟩
  | .ellipsis i d b e, h => by
    simp only [G, Bool.or_eq_true, Bool.and_eq_true] at h
    simp only [moveUp]
    rcases h with h | h
    · -- the anonymous ellipsis axis
      cases i with
      | axis n v bi ei =>
        simp only [moveUp, children_wrap, List.map_cons, List.map_nil, OkP]
        refine ⟨_, _, _, rfl, by simp, ?_⟩
        intro a ha
        simp only [List.mem_singleton] at ha
        subst ha
        have : mkEllipsis (.axis n v bi ei) b e d = .ellipsis (.axis n v bi ei) d b e := by
          simp [mkEllipsis, Expr.ndim]
        rw [this]
        refine ⟨?_, fun _ => by simp [isItem], fun hx => by simp [isAxisOrFlat, Expr.isAxis, Expr.isFlat] at hx⟩
        simp only [G, Bool.or_eq_true]
        exact Or.inl h
      | _ => simp [isAnonAxisNone] at h
    · have ih := moveUp_G k arrows ao aa i (G_mono h.2)
      have hit := G_false_item h.2
      cases hm : moveUp k arrows i with
      | error err => trivial
      | ok o =>
        rw [hm] at ih
        simp only [OkP] at ih ⊢
        obtain ⟨alts, b', e', rfl, hne, ha⟩ := ih
        simp only [children_wrap, b_wrap, e_wrap]
        refine ⟨alts.map (fun a => mkEllipsis a b e d), _, _, rfl, by simpa using hne, ?_⟩
        intro a' ha'
        obtain ⟨a, haa, rfl⟩ := List.mem_map.mp ha'
        have hc := mkEllipsis_cases b e d (ha a haa).1 ((ha a haa).2.1 hit)
        exact ⟨hc.1, fun _ => hc.2, fun hx => by simp [isAxisOrFlat, Expr.isAxis, Expr.isFlat] at hx⟩
  | .list cs b e, h => by
    simp only [G, Bool.and_eq_true] at h
    have ih := moveUpL_G k arrows ao aa false cs h.2
    simp only [moveUp]
    cases hm : moveUpL k arrows cs with
    | error err => trivial
    | ok ch =>
      rw [hm] at ih
      simp only [OkP] at ih
      have hd := distribute_ups k .list b e arrows ih
      dsimp only
      cases hdd : distribute k .list ch b e arrows with
      | error err => trivial
      | ok y =>
        rw [hdd] at hd
        simp only [OkP] at hd ⊢
        obtain ⟨alts, rfl, hne, ha⟩ := hd
        refine ⟨alts, b, e, rfl, hne, ?_⟩
        intro a haa
        obtain ⟨picks, rfl, _, hp⟩ := ha a haa
        refine ⟨?_, fun hx => by simp [isItem] at hx, fun hx => by simp [isAxisOrFlat, Expr.isAxis, Expr.isFlat] at hx⟩
        exact G_mkList b e (fun p hpp => (hp p hpp).1) (fun p hpp => (hp p hpp).2.1 (by simp))
  | .concat cs b e, h => by
    simp only [G, Bool.and_eq_true, decide_eq_true_eq] at h
    have ih := moveUpL_G k arrows ao aa false cs h.2
    simp only [moveUp]
    cases hm : moveUpL k arrows cs with
    | error err => trivial
    | ok ch =>
      rw [hm] at ih
      simp only [OkP] at ih
      have hd := distribute_ups k .concat b e arrows ih
      dsimp only
      cases hdd : distribute k .concat ch b e arrows with
      | error err => trivial
      | ok y =>
        rw [hdd] at hd
        simp only [OkP] at hd ⊢
        obtain ⟨alts, rfl, hne, ha⟩ := hd
        refine ⟨alts, b, e, rfl, hne, ?_⟩
        intro a haa
        obtain ⟨picks, rfl, hl, hp⟩ := ha a haa
        have h2 : 2 ≤ picks.length := by rw [hl]; exact h.1.1
        have hG := G_mkConcat (ao := Lift.ao k ao) (aa := Lift.aa k aa) b e h2
          (fun p hpp => (hp p hpp).2.2 h.1.2) (fun p hpp => (hp p hpp).1)
        refine ⟨hG, fun _ => ?_, fun hx => by simp [isAxisOrFlat, Expr.isAxis, Expr.isFlat] at hx⟩
        simp only [Cls.create, mkConcat_two b e h2, isItem, Bool.true_or]
  | .args cs b e, h => by
    simp only [G, Bool.true_and, Bool.and_eq_true, Bool.not_eq_true', List.isEmpty_eq_false_iff] at h
    have ih := moveUpL_G k arrows ao aa true cs h.2
    have hn : 1 ≤ cs.length := by
      cases cs with
      | nil => exact (h.1.2 rfl).elim
      | cons _ _ => simp
    simp only [moveUp]
    cases hm : moveUpL k arrows cs with
    | error err => trivial
    | ok ch =>
      rw [hm] at ih
      simp only [OkP] at ih
      cases k with
      | op =>
        have hd := distribute_ups .op .args b e arrows ih
        simp only
        cases hdd : distribute .op .args ch b e arrows with
        | error err => trivial
        | ok y =>
          rw [hdd] at hd
          simp only [OkP] at hd ⊢
          obtain ⟨alts, rfl, hne, ha⟩ := hd
          refine ⟨alts, b, e, rfl, hne, ?_⟩
          intro a haa
          obtain ⟨picks, rfl, hl, hp⟩ := ha a haa
          refine ⟨?_, fun hx => by simp [isItem] at hx, fun hx => by simp [isAxisOrFlat, Expr.isAxis, Expr.isFlat] at hx⟩
          exact G_args_of b e (by simpa [Lift.aa] using h.1.1) (ne_nil_of_length hl hn) (fun p hpp => (hp p hpp).1)
      | args =>
        simp only [OkP]
        obtain ⟨hne, ha⟩ := flatMap_children_ups ih hn
        exact ⟨_, b, e, rfl, hne, fun a haa => (ha a haa).weaken (by simp [isItem]) (by simp [isAxisOrFlat, Expr.isAxis, Expr.isFlat])⟩
  | .op cs b e, h => by
    simp only [G, Bool.true_and, Bool.and_eq_true, Bool.not_eq_true', List.isEmpty_eq_false_iff] at h
    cases k with
    | args => simp [moveUp, OkP]
    | op =>
      have ih := moveUpL_G .op arrows ao aa true cs h.2
      have hn : 1 ≤ cs.length := by
        cases cs with
        | nil => exact (h.1.2 rfl).elim
        | cons _ _ => simp
      simp only [moveUp]
      cases hm : moveUpL .op arrows cs with
      | error err => trivial
      | ok ch =>
        rw [hm] at ih
        simp only [OkP] at ih ⊢
        obtain ⟨hne, ha⟩ := flatMap_children_ups ih hn
        exact ⟨_, b, e, rfl, hne, fun a haa => (ha a haa).weaken (by simp [isItem]) (by simp [isAxisOrFlat, Expr.isAxis, Expr.isFlat])⟩
theorem moveUpL_G (k : Lift) (arrows : List Int) (ao aa al : Bool) : ∀ (cs : List Expr), GL ao aa al cs = true →
    OkP (UpsOK k ao aa (!al) (cs.all isAxisOrFlat) cs.length) (moveUpL k arrows cs)
  | [], _ => by simp [moveUpL, OkP, UpsOK]
  | c :: cs, h => by
    simp only [GL, Bool.and_eq_true] at h
    have hc : G ao aa true c = true := by
      cases al
      · exact G_mono h.1
      · exact h.1
    have ih1 := moveUp_G k arrows ao aa c hc
    have ih2 := moveUpL_G k arrows ao aa al cs h.2
    simp only [moveUpL]
    cases hm : moveUp k arrows c with
    | error err => trivial
    | ok x =>
      rw [hm] at ih1
      cases hl : moveUpL k arrows cs with
      | error err => trivial
      | ok xs =>
        rw [hl] at ih2
        simp only [OkP] at ih1 ih2 ⊢
        refine ⟨by simp [ih2.1], ?_⟩
        intro o ho
        rcases List.mem_cons.mp ho with rfl | ho
        · refine ih1.weaken ?_ ?_
          · intro hal
            have : al = false := by simpa using hal
            subst this
            exact G_false_item h.1
          · intro hx
            simp only [List.all_cons, Bool.and_eq_true] at hx
            exact hx.1
        · refine (ih2.2 o ho).weaken (fun h' => h') ?_
          intro hx
          simp only [List.all_cons, Bool.and_eq_true] at hx
          exact hx.2
end

end NF

end Einx.Notation
