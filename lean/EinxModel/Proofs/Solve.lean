import EinxModel.Solve.System
/-!
Helper lemmas for C02: soundness of one propagation step and the loop invariant
"the partial assignment is contained in every solution".
-/
namespace Einx.Solve

/-- `τ` extends the partial assignment `a`. -/
def Agrees (τ : Var → Nat) (a : Assign) : Prop := ∀ x v, a.lookup x = some v → τ x = v

theorem agrees_nil (τ : Var → Nat) : Agrees τ [] := by
  intro x v h; simp [List.lookup] at h

theorem agrees_cons {τ : Var → Nat} {a : Assign} {x : Var} {v : Nat}
    (h : Agrees τ a) (hx : τ x = v) : Agrees τ ((x, v) :: a) := by
  intro y w hy
  by_cases hyx : y = x
  · subst hyx
    rw [lookup_cons_self] at hy
    injection hy with hy; rw [← hy]; exact hx
  · rw [lookup_cons_ne hyx] at hy
    exact h y w hy

theorem agrees_toFun (a : Assign) : Agrees (toFun a) a := by
  intro x v h; simp [toFun, h]

theorem reduceVars_eval {τ : Var → Nat} {a : Assign} (h : Agrees τ a) (xs : List Var) :
    prodVars τ xs = (reduceVars a xs).1 * prodVars τ (reduceVars a xs).2 := by
  induction xs with
  | nil => simp [reduceVars, prodVars]
  | cons x xs ih =>
    simp only [reduceVars]
    cases hx : a.lookup x with
    | some v =>
      simp only [prodVars]
      rw [h x v hx, ih, Nat.mul_assoc]
    | none =>
      simp only [prodVars]
      rw [ih, Nat.mul_left_comm]

theorem linPoly_eval {τ : Var → Nat} {a : Assign} (h : Agrees τ a) (x : Var) :
    ∀ (p : Poly) (k c : Nat), linPoly a x p = some (k, c) → evalPoly τ p = k + c * τ x := by
  intro p
  induction p with
  | nil =>
    intro k c hl
    simp only [linPoly] at hl
    injection hl with hl; injection hl with h1 h2
    subst h1; subst h2; simp [evalPoly]
  | cons m ms ih =>
    intro k c hl
    simp only [linPoly] at hl
    cases hms : linPoly a x ms with
    | none => simp [hms] at hl
    | some kc =>
      obtain ⟨k0, c0⟩ := kc
      have ih' := ih k0 c0 hms
      simp only [hms] at hl
      have hm : evalMono τ m = m.coef * (reduceVars a m.vars).1 * prodVars τ (reduceVars a m.vars).2 := by
        unfold evalMono
        rw [reduceVars_eval h m.vars, Nat.mul_assoc]
      simp only [evalPoly]
      rw [ih', hm]
      by_cases hc : m.coef * (reduceVars a m.vars).1 = 0
      · simp only [hc, ↓reduceIte] at hl
        injection hl with hl; injection hl with h1 h2
        subst h1; subst h2; simp [hc]
      · simp only [hc, ↓reduceIte] at hl
        generalize (reduceVars a m.vars).2 = us at hl ⊢
        match us, hl with
        | [], hl =>
          injection hl with hl; injection hl with h1 h2
          subst h1; subst h2; simp [prodVars]; omega
        | [y], hl =>
          by_cases hy : y = x
          · subst hy
            simp only [↓reduceIte] at hl
            injection hl with hl; injection hl with h1 h2
            subst h1; subst h2
            simp only [prodVars, Nat.mul_one]
            rw [Nat.add_mul]; omega
          · simp [hy] at hl
        | _ :: _ :: _, hl => simp at hl

theorem prodVars_congr {σ τ : Var → Nat} :
    ∀ (xs : List Var), (∀ x ∈ xs, σ x = τ x) → prodVars σ xs = prodVars τ xs := by
  intro xs
  induction xs with
  | nil => intro _; rfl
  | cons y ys ih =>
    intro hm
    simp only [prodVars]
    rw [hm y List.mem_cons_self, ih (fun x hx => hm x (List.mem_cons_of_mem _ hx))]

theorem evalPoly_congr {σ τ : Var → Nat} :
    ∀ (p : Poly), (∀ x ∈ polyVars p, σ x = τ x) → evalPoly σ p = evalPoly τ p := by
  intro p
  induction p with
  | nil => intro _; rfl
  | cons m ms ih =>
    intro h
    simp only [polyVars, List.mem_append] at h
    have h1 : prodVars σ m.vars = prodVars τ m.vars :=
      prodVars_congr m.vars (fun x hx => h x (Or.inl hx))
    simp only [evalPoly, evalMono]
    rw [h1, ih (fun x hx => h x (Or.inr hx))]

/-- `c * t = hi - lo` with `c > 0` pins `t`. -/
theorem solveLin_sound {sys : System} {τ : Var → Nat} (hb : ∀ p ∈ sys.vars, p.2 ≤ τ p.1)
    {c hi lo : Nat} {x : Var} (hc : 0 < c) (heq : lo + c * τ x = hi) :
    solveLin sys c hi lo x ≠ .contra ∧ ∀ y v, solveLin sys c hi lo x = .learn y v → τ y = v := by
  have hle : ¬ hi < lo := by omega
  have hsub : hi - lo = c * τ x := by omega
  have hmod : (hi - lo) % c = 0 := by rw [hsub]; exact Nat.mul_mod_right c (τ x)
  have hdiv : (hi - lo) / c = τ x := by rw [hsub]; exact Nat.mul_div_cancel_left (τ x) hc
  have hany : sys.vars.any (fun p => p.1 == x && decide ((hi - lo) / c < p.2)) = false := by
    rw [List.any_eq_false]
    intro p hp
    have := hb p hp
    simp only [Bool.and_eq_true, beq_iff_eq, decide_eq_true_eq, not_and]
    intro hpx
    rw [hdiv, ← hpx]; omega
  unfold solveLin
  simp only [hle, ↓reduceIte, hmod, ne_eq, not_true_eq_false, hany, Bool.false_eq_true]
  refine ⟨by simp, ?_⟩
  intro y v hyv
  injection hyv with h1 h2
  rw [← h1, ← h2, hdiv]

theorem stepEqn_sound {sys : System} {τ : Var → Nat} {a : Assign} {e : Eqn}
    (hb : ∀ p ∈ sys.vars, p.2 ≤ τ p.1) (hag : Agrees τ a)
    (he : evalPoly τ e.lhs = evalPoly τ e.rhs) :
    stepEqn sys a e ≠ .contra ∧ ∀ y v, stepEqn sys a e = .learn y v → τ y = v := by
  unfold stepEqn
  split
  · rename_i hnone
    -- every variable of the equation is known: τ and `toFun a` agree on them
    have hall : ∀ x ∈ eqnVars e, toFun a x = τ x := by
      intro x hx
      have := List.find?_eq_none.mp hnone x hx
      cases hl : a.lookup x with
      | none => simp [hl] at this
      | some v => simp [toFun, hl, hag x v hl]
    have h1 := evalPoly_congr (σ := toFun a) (τ := τ) e.lhs
      (fun x hx => hall x (List.mem_append_left _ hx))
    have h2 := evalPoly_congr (σ := toFun a) (τ := τ) e.rhs
      (fun x hx => hall x (List.mem_append_right _ hx))
    rw [h1, h2]
    simp [he]
  · rename_i x hx
    split
    · rename_i k1 c1 k2 c2 hl1 hl2
      have e1 := linPoly_eval hag x e.lhs k1 c1 hl1
      have e2 := linPoly_eval hag x e.rhs k2 c2 hl2
      rw [e1, e2] at he
      by_cases hcc : c1 = c2
      · subst hcc
        have : k1 = k2 := by omega
        simp [this]
      · simp only [hcc, ↓reduceIte]
        by_cases hlt : c2 < c1
        · simp only [hlt, ↓reduceIte]
          apply solveLin_sound hb (by omega)
          rw [Nat.sub_mul]
          have : c2 * τ x ≤ c1 * τ x := Nat.mul_le_mul_right _ (by omega)
          omega
        · simp only [hlt, ↓reduceIte]
          apply solveLin_sound hb (by omega)
          rw [Nat.sub_mul]
          have : c1 * τ x ≤ c2 * τ x := Nat.mul_le_mul_right _ (by omega)
          omega
    · simp

theorem scan_sound {sys : System} {τ : Var → Nat} {a : Assign} (hs : Sat sys τ) (hag : Agrees τ a) :
    ∀ (es : List Eqn), (∀ e ∈ es, e ∈ sys.eqns) →
      scan sys a es ≠ .contra ∧ ∀ y v, scan sys a es = .learn y v → τ y = v := by
  intro es
  induction es with
  | nil => intro _; simp [scan]
  | cons e es ih =>
    intro hsub
    have hstep := stepEqn_sound (sys := sys) (a := a) hs.1 hag (hs.2 e (hsub e List.mem_cons_self))
    have ih' := ih (fun e' he' => hsub e' (List.mem_cons_of_mem _ he'))
    unfold scan
    split
    · exact ih'
    · rename_i s hne
      exact hstep

/-- What the loop guarantees, as one statement over the three verdicts. -/
def Good (sys : System) : Verdict → Prop
  | .none => ∀ τ, ¬ Sat sys τ
  | .unique b => (∀ τ, Sat sys τ → Agrees τ b) ∧ checkSat sys b = true
  | .stuck b => (∀ τ, Sat sys τ → Agrees τ b) ∧ ∃ x ∈ sys.allVars, b.lookup x = none

theorem checkSat_iff' (sys : System) (a : Assign) :
    checkSat sys a = true ↔ (∀ x ∈ sys.allVars, (a.lookup x).isSome = true) ∧ Sat sys (toFun a) := by
  unfold checkSat Sat
  simp only [Bool.and_eq_true, List.all_eq_true, decide_eq_true_eq, beq_iff_eq]

/-- `Sat` only looks at the variables of the system. -/
theorem sat_congr {sys : System} {σ τ : Var → Nat} (h : ∀ x ∈ sys.allVars, σ x = τ x)
    (hs : Sat sys σ) : Sat sys τ := by
  constructor
  · intro p hp
    have : σ p.1 = τ p.1 := h p.1 (List.mem_append_left _ (List.mem_map_of_mem hp))
    rw [← this]; exact hs.1 p hp
  · intro e he
    have hv : ∀ x ∈ eqnVars e, σ x = τ x := fun x hx =>
      h x (List.mem_append_right _ (mem_eqnsVars he hx))
    rw [← evalPoly_congr e.lhs (fun x hx => hv x (List.mem_append_left _ hx)),
        ← evalPoly_congr e.rhs (fun x hx => hv x (List.mem_append_right _ hx))]
    exact hs.2 e he

theorem finish_good {sys : System} {a : Assign} (hinv : ∀ τ, Sat sys τ → Agrees τ a) :
    Good sys (finish sys a) := by
  unfold finish
  split
  · rename_i hall
    split
    · rename_i hc; exact ⟨hinv, hc⟩
    · rename_i hc
      -- every variable is known, so any solution coincides with `toFun a` on the system
      intro τ hτ
      apply hc
      rw [checkSat_iff']
      refine ⟨List.all_eq_true.mp hall, ?_⟩
      apply sat_congr (σ := τ) _ hτ
      intro x hx
      have hsome := List.all_eq_true.mp hall x hx
      cases hl : a.lookup x with
      | none => simp [hl] at hsome
      | some v => simp [toFun, hl, hinv τ hτ x v hl]
  · rename_i hall
    refine ⟨hinv, ?_⟩
    have : ∃ x ∈ sys.allVars, ¬ (a.lookup x).isSome = true := by
      simpa [List.all_eq_true] using hall
    obtain ⟨x, hx, hn⟩ := this
    refine ⟨x, hx, ?_⟩
    cases hl : a.lookup x with
    | none => rfl
    | some v => simp [hl] at hn

theorem loop_good (sys : System) : ∀ (fuel : Nat) (a : Assign), (∀ τ, Sat sys τ → Agrees τ a) →
    Good sys (propagateLoop sys fuel a) := by
  intro fuel
  induction fuel with
  | zero => intro a hinv; exact finish_good hinv
  | succ n ih =>
    intro a hinv
    unfold propagateLoop
    split
    · rename_i hscan
      intro τ hτ
      exact (scan_sound hτ (hinv τ hτ) sys.eqns (fun _ h => h)).1 hscan
    · exact finish_good hinv
    · rename_i x v hscan
      apply ih
      intro τ hτ
      exact agrees_cons (hinv τ hτ)
        ((scan_sound hτ (hinv τ hτ) sys.eqns (fun _ h => h)).2 x v hscan)

theorem propagate_good (sys : System) : Good sys (propagate sys) :=
  loop_good sys _ [] (fun τ _ => agrees_nil τ)

/-- With enough fuel a `stuck` verdict is only produced at a fixpoint of the scan. -/
theorem loop_stuck_fixpoint (sys : System) : ∀ (fuel : Nat) (a b : Assign),
    unknownCount sys a ≤ fuel → propagateLoop sys fuel a = .stuck b → scan sys b sys.eqns = .skip := by
  intro fuel
  induction fuel with
  | zero =>
    intro a b hle h
    -- no unknown variable is left, so `finish` cannot answer `stuck`
    exfalso
    unfold propagateLoop finish at h
    have hz : unknownCount sys a = 0 := by omega
    unfold unknownCount at hz
    have hall : sys.allVars.all (fun x => (a.lookup x).isSome) = true := by
      rw [List.all_eq_true]
      intro x hx
      have hnil := List.eq_nil_of_length_eq_zero hz
      have := (List.filter_eq_nil_iff.mp hnil) x hx
      cases hl : a.lookup x with
      | none => simp [hl] at this
      | some v => rfl
    rw [hall] at h
    simp only [↓reduceIte] at h
    split at h <;> cases h
  | succ n ih =>
    intro a b hle h
    unfold propagateLoop at h
    split at h
    · cases h
    · rename_i hscan
      unfold finish at h
      split at h
      · split at h <;> cases h
      · injection h with h; rw [← h]; exact hscan
    · rename_i x v hscan
      have := learn_decreases hscan
      exact ih _ b (by omega) h

end Einx.Solve
