import EinxModel.Denote.Fun2
import EinxModel.Proofs.DenoteTie
/-!
The tie between the executable loop form `Denote.denoteId` and a loop-free functional form for *arbitrary* solved
expressions -- concatenations included (`Denote.denoteIdFunG`, `Denote/Fun2.lean`).
-/
namespace Einx.Denote
open Einx Einx.IR
open Einx.Update (mapOpt mapOpt_eq_some_iff mapOpt_length mapOpt_congr)

theorem applyEntries_cons (s : Outs) (ke : Nat × List (Nat × Cell)) (kes : List (Nat × List (Nat × Cell))) :
    applyEntries s (ke :: kes) = applyEntries (s.set ke.1 (ke.2.foldl setter (s.getD ke.1 []))) kes := rfl

theorem entriesFor_cons (k : Nat) (ke : Nat × List (Nat × Cell)) (kes : List (Nat × List (Nat × Cell))) :
    entriesFor k (ke :: kes) = if ke.1 = k then ke.2 ++ entriesFor k kes else entriesFor k kes := by
  unfold entriesFor
  by_cases h : ke.1 = k
  · simp [h, List.filter_cons]
  · have : (ke.1 == k) = false := beq_eq_false_iff_ne.mpr h
    simp [h, List.filter_cons, this]

/-- Slot `k` of the state after the outer loop of `denoteId`: the entries for output `k`, applied in order. -/
theorem applyEntries_slot : ∀ (kes : List (Nat × List (Nat × Cell))) (s : Outs),
    (applyEntries s kes).length = s.length ∧
      ∀ k, k < s.length → (applyEntries s kes).getD k [] = (entriesFor k kes).foldl setter (s.getD k []) := by
  intro kes
  induction kes with
  | nil => intro s; exact ⟨rfl, fun k _ => rfl⟩
  | cons ke kes ih =>
    intro s
    rw [applyEntries_cons]
    obtain ⟨hl, hs⟩ := ih (s.set ke.1 (ke.2.foldl setter (s.getD ke.1 [])))
    refine ⟨by rw [hl, List.length_set], ?_⟩
    intro k hk
    rw [hs k (by rw [List.length_set]; exact hk), entriesFor_cons]
    by_cases h : ke.1 = k
    · subst h
      simp only [if_true, List.foldl_append]
      congr 1
      simp [List.getD_eq_getElem?_getD, hk]
    · simp only [h, if_false]
      congr 1
      simp [List.getD_eq_getElem?_getD, List.getElem?_set, h]

theorem zip_of_slots {α : Type} (d : α) (l : List Expr) (s : List α) (h : s.length = l.length) :
    l.zip s = l.zipIdx.map (fun x => (x.1, s.getD x.2 d)) := by
  apply List.ext_getElem
  · simp [h]
  · intro i h1 h2
    have hi : i < s.length := by simp at h1; omega
    simp [List.getD_eq_getElem?_getD, List.getElem?_eq_getElem hi]

theorem idPairEntries_eq (exprsOut : List Expr) : idPairEntries exprsOut = pairEntries exprsOut := rfl

/-- **Tie between the loop form and the functional form of `id`, arbitrary solved expressions -- concatenations
included.** -/
theorem denoteId_eq_denoteIdFunG (exprsIn exprsOut : List Expr) :
    okOpt (denoteId exprsIn exprsOut) = denoteIdFunG exprsIn exprsOut := by
  rw [denoteId_eq]
  unfold denoteIdFunG
  simp only []
  have hvin : (exprsIn.zipIdx).flatMap (fun (x : Expr × Nat) => (views x.1).map (fun v => (v, x.2, shapeOf x.1))) = idVin exprsIn := rfl
  have hvout : (exprsOut.zipIdx).flatMap (fun (x : Expr × Nat) => (views x.1).map (fun v => (v, x.2))) = idVout exprsOut := rfl
  simp only [hvin, hvout]
  by_cases hlen : ((idVin exprsIn).length != (idVout exprsOut).length) = true
  · simp only [hlen, if_true]; rfl
  · simp only [hlen, Bool.false_eq_true, if_false]
    rw [okOpt_bind, outer_loop, idPairEntries_eq]
    cases hm : mapOpt (pairEntries exprsOut) (List.zip (idVin exprsIn) (idVout exprsOut)) with
    | none => rfl
    | some ess =>
      simp only [Option.map_some, Option.bind_some]
      rw [final_loop]
      obtain ⟨hl, hs⟩ := applyEntries_slot
        (List.zip ((List.zip (idVin exprsIn) (idVout exprsOut)).map (fun x => x.2.2)) ess)
        (exprsOut.map (fun e => List.replicate (prod (shapeOf e)) none))
      rw [zip_of_slots [] exprsOut _ (by rw [hl, List.length_map]), mapOpt_map]
      simp only [List.nil_append, Option.map_id']
      apply mapOpt_congr
      intro x hx
      have hx2 : x.2 < exprsOut.length ∧ exprsOut[x.2]? = some x.1 := by
        have := List.mem_zipIdx hx
        simp only [Nat.zero_add, Nat.sub_zero] at this
        exact ⟨by omega, by rw [List.getElem?_eq_getElem (by omega)]; simp [this.2.2]⟩
      have hinit : (exprsOut.map (fun e => List.replicate (prod (shapeOf e)) (none : Option Cell))).getD x.2 []
          = List.replicate (prod (shapeOf x.1)) none := by
        simp [List.getD_eq_getElem?_getD, List.getElem?_map, hx2.2]
      rw [hs x.2 (by rw [List.length_map]; exact hx2.1), hinit]
      rfl

end Einx.Denote
