import EinxModel.Denote.Fun2
import EinxModel.Proofs.DenoteTie
/-!
The tie between the executable loop form `Denote.denoteId` and a loop-free functional form for *arbitrary* solved
expressions -- concatenations included (`Denote.denoteIdFunG`, `Denote/Fun2.lean`).
-/
namespace Einx.Denote
open Einx Einx.IR
open Einx.Update (mapOpt mapOpt_eq_some_iff mapOpt_length mapOpt_congr)

theorem applyEntries_cons (s : Outs) (ke : Nat × List (Nat × Cell)) (kes : List (Nat × List (Nat × Cell))) :
    applyEntries s (ke :: kes) = applyEntries (s.set ke.1 (ke.2.foldl setter (s.getD ke.1 []))) kes := rfl

theorem entriesFor_cons (k : Nat) (ke : Nat × List (Nat × Cell)) (kes : List (Nat × List (Nat × Cell))) :
    entriesFor k (ke :: kes) = if ke.1 = k then ke.2 ++ entriesFor k kes else entriesFor k kes := by
  unfold entriesFor
  by_cases h : ke.1 = k
  · simp [h, List.filter_cons]
  · have : (ke.1 == k) = false := beq_eq_false_iff_ne.mpr h
    simp [h, List.filter_cons, this]

/-- Slot `k` of the state after the outer loop of `denoteId`: the entries for output `k`, applied in order. -/
theorem applyEntries_slot : ∀ (kes : List (Nat × List (Nat × Cell))) (s : Outs),
    (applyEntries s kes).length = s.length ∧
      ∀ k, k < s.length → (applyEntries s kes).getD k [] = (entriesFor k kes).foldl setter (s.getD k []) := by
  intro kes
  induction kes with
  | nil => intro s; exact ⟨rfl, fun k _ => rfl⟩
  | cons ke kes ih =>
    intro s
    rw [applyEntries_cons]
    obtain ⟨hl, hs⟩ := ih (s.set ke.1 (ke.2.foldl setter (s.getD ke.1 [])))
    refine ⟨by rw [hl, List.length_set], ?_⟩
    intro k hk
    rw [hs k (by rw [List.length_set]; exact hk), entriesFor_cons]
    by_cases h : ke.1 = k
    · subst h
      simp only [if_true, List.foldl_append]
      congr 1
      simp [List.getD_eq_getElem?_getD, hk]
    · simp only [h, if_false]
      congr 1
      simp [List.getD_eq_getElem?_getD, List.getElem?_set, h]

theorem zip_of_slots {α : Type} (d : α) (l : List Expr) (s : List α) (h : s.length = l.length) :
    l.zip s = l.zipIdx.map (fun x => (x.1, s.getD x.2 d)) := by
  apply List.ext_getElem
  · simp [h]
  · intro i h1 h2
    have hi : i < s.length := by simp at h1; omega
    simp [List.getD_eq_getElem?_getD, List.getElem?_eq_getElem hi]

theorem idPairEntries_eq (exprsOut : List Expr) : idPairEntries exprsOut = pairEntries exprsOut := rfl

/-- **Tie between the loop form and the functional form of `id`, arbitrary solved expressions -- concatenations
included.** -/
theorem denoteId_eq_denoteIdFunG (exprsIn exprsOut : List Expr) :
    okOpt (denoteId exprsIn exprsOut) = denoteIdFunG exprsIn exprsOut := by
  rw [denoteId_eq]
  unfold denoteIdFunG
  simp only []
  have hvin : (exprsIn.zipIdx).flatMap (fun (x : Expr × Nat) => (views x.1).map (fun v => (v, x.2, shapeOf x.1))) = idVin exprsIn := rfl
  have hvout : (exprsOut.zipIdx).flatMap (fun (x : Expr × Nat) => (views x.1).map (fun v => (v, x.2))) = idVout exprsOut := rfl
  simp only [hvin, hvout]
  by_cases hlen : ((idVin exprsIn).length != (idVout exprsOut).length) = true
  · simp only [hlen, if_true]; rfl
  · simp only [hlen, Bool.false_eq_true, if_false]
    rw [okOpt_bind, outer_loop, idPairEntries_eq]
    cases hm : mapOpt (pairEntries exprsOut) (List.zip (idVin exprsIn) (idVout exprsOut)) with
    | none => rfl
    | some ess =>
      simp only [Option.map_some, Option.bind_some]
      rw [final_loop]
      obtain ⟨hl, hs⟩ := applyEntries_slot
        (List.zip ((List.zip (idVin exprsIn) (idVout exprsOut)).map (fun x => x.2.2)) ess)
        (exprsOut.map (fun e => List.replicate (prod (shapeOf e)) none))
      rw [zip_of_slots [] exprsOut _ (by rw [hl, List.length_map]), mapOpt_map]
      simp only [List.nil_append, Option.map_id']
      apply mapOpt_congr
      intro x hx
      have hx2 : x.2 < exprsOut.length ∧ exprsOut[x.2]? = some x.1 := by
        have := List.mem_zipIdx hx
        simp only [Nat.zero_add, Nat.sub_zero] at this
        exact ⟨by omega, by rw [List.getElem?_eq_getElem (by omega)]; simp [this.2.2]⟩
      have hinit : (exprsOut.map (fun e => List.replicate (prod (shapeOf e)) (none : Option Cell))).getD x.2 []
          = List.replicate (prod (shapeOf x.1)) none := by
        simp [List.getD_eq_getElem?_getD, List.getElem?_map, hx2.2]
      rw [hs x.2 (by rw [List.length_map]; exact hx2.1), hinit]
      rfl

/-! ### renaming commutes with the enumeration of views -/

mutual
theorem nconcat_rename (ρ : String → String) : ∀ d : Dim, (d.rename ρ).nconcat = d.nconcat
  | .axis _ => rfl
  | .flat ds => by simp only [Dim.rename, Dim.nconcat]; exact nconcatL_rename ρ ds
  | .concat ds => by simp only [Dim.rename, Dim.nconcat, nconcatL_rename ρ ds]
  | .off _ d _ => by simp only [Dim.rename, Dim.nconcat]; exact nconcat_rename ρ d
theorem nconcatL_rename (ρ : String → String) : ∀ ds : List Dim, Dim.nconcatL (Dim.renameL ρ ds) = Dim.nconcatL ds
  | [] => rfl
  | d :: ds => by simp only [Dim.renameL, Dim.nconcatL, nconcat_rename ρ d, nconcatL_rename ρ ds]
end

theorem renameL_length (ρ : String → String) (ds : List Dim) : (Dim.renameL ρ ds).length = ds.length := by
  rw [renameL_eq_map, List.length_map]

mutual
theorem nblocks_rename (ρ : String → String) : ∀ d : Dim, (d.rename ρ).nblocks = d.nblocks
  | .axis _ => rfl
  | .flat ds => by simp only [Dim.rename, Dim.nblocks]; exact nblocksL_rename ρ ds
  | .concat ds => by simp only [Dim.rename, Dim.nblocks, renameL_length]
  | .off _ d _ => by simp only [Dim.rename, Dim.nblocks]; exact nblocks_rename ρ d
theorem nblocksL_rename (ρ : String → String) : ∀ ds : List Dim, Dim.nblocksL (Dim.renameL ρ ds) = Dim.nblocksL ds
  | [] => rfl
  | d :: ds => by simp only [Dim.renameL, Dim.nblocksL, nconcat_rename ρ d, nblocks_rename ρ d, nblocksL_rename ρ ds]
end

theorem foldl_size_rename (ρ : String → String) (ds : List Dim) : ∀ acc : Nat,
    (Dim.renameL ρ ds).foldl (fun a x => a + x.size) acc = ds.foldl (fun a x => a + x.size) acc := by
  induction ds with
  | nil => intro acc; rfl
  | cons d ds ih => intro acc; simp only [Dim.renameL, List.foldl_cons, size_rename, ih]

theorem renameL_take (ρ : String → String) (k : Nat) (ds : List Dim) :
    (Dim.renameL ρ ds).take k = Dim.renameL ρ (ds.take k) := by
  rw [renameL_eq_map, renameL_eq_map, List.map_take]

mutual
theorem choose_rename (ρ : String → String) (k : Nat) : ∀ d : Dim, (d.rename ρ).choose k = (d.choose k).map (Dim.rename ρ)
  | .axis _ => rfl
  | .flat ds => by
    simp only [Dim.rename, Dim.choose, chooseL_rename ρ k ds]
    cases Dim.chooseL k ds <;> simp [Dim.rename]
  | .concat ds => by
    simp only [Dim.rename, Dim.choose]
    have h1 : (Dim.renameL ρ ds)[k]? = (ds[k]?).map (Dim.rename ρ) := by rw [renameL_eq_map, List.getElem?_map]
    rw [h1]
    cases ds[k]? with
    | none => rfl
    | some d => simp [Dim.rename, renameL_take, foldl_size_rename, sizeSum_rename]
  | .off o d t => by
    simp only [Dim.rename, Dim.choose, choose_rename ρ k d]
    cases d.choose k <;> simp [Dim.rename]
theorem chooseL_rename (ρ : String → String) (k : Nat) : ∀ ds : List Dim,
    Dim.chooseL k (Dim.renameL ρ ds) = (Dim.chooseL k ds).map (Dim.renameL ρ)
  | [] => rfl
  | d :: ds => by
    simp only [Dim.renameL, Dim.chooseL, nconcat_rename ρ d]
    split
    · rw [choose_rename ρ k d]; cases d.choose k <;> simp [Dim.renameL]
    · rw [chooseL_rename ρ k ds]; cases Dim.chooseL k ds <;> simp [Dim.renameL]
end

theorem viewsFuel_rename (ρ : String → String) : ∀ (n : Nat) (ds : List Dim),
    viewsFuel n (Dim.renameL ρ ds) = (viewsFuel n ds).map (Dim.renameL ρ)
  | 0, ds => rfl
  | n + 1, ds => by
    simp only [viewsFuel, nconcatL_rename, nblocksL_rename]
    split
    · rfl
    · rw [List.map_flatMap]
      congr 1
      funext k
      rw [chooseL_rename]
      cases Dim.chooseL k ds with
      | none => rfl
      | some ds' => exact viewsFuel_rename ρ n ds'

theorem views_rename (ρ : String → String) (e : Expr) : views (e.rename ρ) = (views e).map (Dim.renameL ρ) := by
  unfold views
  simp only [dims_rename, nconcatL_rename, viewsFuel_rename]

/-! ### consistent renaming leaves `id` unchanged -- concatenations included -/

theorem idVin_rename (ρ : String → String) (exprsIn : List Expr) :
    idVin (Expr.renameL ρ exprsIn) = (idVin exprsIn).map (fun x => (Dim.renameL ρ x.1, x.2)) := by
  unfold idVin
  rw [Expr.renameL_eq_map, List.zipIdx_map, List.flatMap_map, List.map_flatMap]
  congr 1
  funext x
  simp only [Prod.map, id, views_rename, shapeOf_rename, List.map_map, Function.comp_def]

theorem idVout_rename (ρ : String → String) (exprsOut : List Expr) :
    idVout (Expr.renameL ρ exprsOut) = (idVout exprsOut).map (fun x => (Dim.renameL ρ x.1, x.2)) := by
  unfold idVout
  rw [Expr.renameL_eq_map, List.zipIdx_map, List.flatMap_map, List.map_flatMap]
  congr 1
  funext x
  simp only [Prod.map, id, views_rename, List.map_map, Function.comp_def]

theorem shapeOf_getD_rename (ρ : String → String) (exprsOut : List Expr) (k : Nat) :
    shapeOf ((Expr.renameL ρ exprsOut).getD k (Expr.list [])) = shapeOf (exprsOut.getD k (Expr.list [])) := by
  rw [Expr.renameL_eq_map]
  simp only [List.getD_eq_getElem?_getD, List.getElem?_map]
  cases exprsOut[k]? with
  | none => rfl
  | some e => simp [shapeOf_rename]

theorem idPairEntries_rename {ρ : String → String} (hρ : Function.Injective ρ) (exprsOut : List Expr)
    (x : (List Dim × Nat × List Nat) × (List Dim × Nat)) :
    idPairEntries (Expr.renameL ρ exprsOut) ((Dim.renameL ρ x.1.1, x.1.2), (Dim.renameL ρ x.2.1, x.2.2))
      = idPairEntries exprsOut x := by
  unfold idPairEntries
  have := outAssignments_rename hρ x.2.1
  unfold outAssignments at this
  simp only [this, mapOpt_map, shapeOf_getD_rename, idEntry_rename hρ]

/-- **Consistent renaming leaves `id` unchanged, for arbitrary solved expressions (concatenations included)**:
functional form. -/
theorem denoteIdFunG_rename {ρ : String → String} (hρ : Function.Injective ρ) (exprsIn exprsOut : List Expr) :
    denoteIdFunG (Expr.renameL ρ exprsIn) (Expr.renameL ρ exprsOut) = denoteIdFunG exprsIn exprsOut := by
  unfold denoteIdFunG
  simp only [idVin_rename, idVout_rename, List.length_map]
  have hz : List.zip ((idVin exprsIn).map (fun x => (Dim.renameL ρ x.1, x.2))) ((idVout exprsOut).map (fun x => (Dim.renameL ρ x.1, x.2)))
      = (List.zip (idVin exprsIn) (idVout exprsOut)).map
          (fun x => ((Dim.renameL ρ x.1.1, x.1.2), (Dim.renameL ρ x.2.1, x.2.2))) := by
    rw [List.zip_map]; rfl
  rw [hz, mapOpt_map]
  have hpe : (fun a => idPairEntries (Expr.renameL ρ exprsOut) ((Dim.renameL ρ a.1.1, a.1.2), (Dim.renameL ρ a.2.1, a.2.2)))
      = idPairEntries exprsOut := by
    funext a; exact idPairEntries_rename hρ exprsOut a
  rw [hpe, List.map_map]
  simp only [Function.comp_def]
  split
  · rfl
  · cases mapOpt (idPairEntries exprsOut) (List.zip (idVin exprsIn) (idVout exprsOut)) with
    | none => rfl
    | some ess =>
      simp only []
      rw [Expr.renameL_eq_map, List.zipIdx_map, mapOpt_map]
      apply mapOpt_congr
      intro x _
      simp only [Prod.map, id, shapeOf_rename]

end Einx.Denote
