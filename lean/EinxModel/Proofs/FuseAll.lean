import EinxModel.Proofs.FuseLoop
/-!
C04, name re-use, part 3: `fuseAll` (numbering of the statements of all blocks, the loop over the blocks) satisfies the
hypotheses of `fuseBlock_block`, for every generator state whose emitted statements
  * define every variable at most once, * read no variable before its definition, * lie in blocks `< nblocks`.
-/
namespace Einx.Compile

/-! ### Numbered statements -/

theorem zipIdx_filter_fst {α : Type} (p : α → Bool) : ∀ (l : List α) (k : Nat),
    ((l.zipIdx k).filter (fun x => p x.1)).map (·.1) = l.filter p
  | [], _ => rfl
  | a :: l, k => by
    rw [List.zipIdx_cons]
    by_cases h : p a = true
    · rw [List.filter_cons_of_pos (by simpa using h), List.filter_cons_of_pos h, List.map_cons, zipIdx_filter_fst p l (k + 1)]
    · rw [List.filter_cons_of_neg (by simpa using h), List.filter_cons_of_neg h, zipIdx_filter_fst p l (k + 1)]

/-- The numbered statements of block `b`, as the loop over the blocks hands them to `fuseBlock`. -/
def Lb (all : List ((Nat × Stmt) × Nat)) (b : Nat) : List (Nat × Stmt) :=
  (all.filter (·.1.1 == b)).map (fun ((_, s), i) => (i, s))

theorem Lb_mem (all : List ((Nat × Stmt) × Nat)) (b : Nat) (q : Nat × Stmt) (h : q ∈ Lb all b) : ((b, q.2), q.1) ∈ all := by
  obtain ⟨x, hx, rfl⟩ := List.mem_map.1 h
  obtain ⟨hx1, hx2⟩ := List.mem_filter.1 hx
  obtain ⟨⟨b', s⟩, i⟩ := x
  simp only [beq_iff_eq] at hx2
  subst hx2
  exact hx1

theorem Lb_nodup (A : List (Nat × Stmt)) (b : Nat) : ((Lb A.zipIdx b).map (·.1)).Nodup := by
  have e : (Lb A.zipIdx b).map (·.1) = (A.zipIdx.filter (·.1.1 == b)).map Prod.snd := by
    unfold Lb; rw [List.map_map]; rfl
  rw [e]
  refine List.Nodup.sublist (List.Sublist.map _ List.filter_sublist) ?_
  rw [List.zipIdx_map_snd]
  exact List.nodup_range'

theorem Lb_stmts (A : List (Nat × Stmt)) (b : Nat) : (Lb A.zipIdx b).map (·.2) = (A.filter (·.1 == b)).map (·.2) := by
  have e : (Lb A.zipIdx b).map (·.2) = ((A.zipIdx.filter (fun x => (fun (y : Nat × Stmt) => y.1 == b) x.1)).map (·.1)).map (·.2) := by
    unfold Lb; rw [List.map_map, List.map_map]; rfl
  rw [e, zipIdx_filter_fst (fun (y : Nat × Stmt) => y.1 == b) A 0]

/-- Selecting the entries of one block from the concatenation of all blocks. -/
theorem flatMap_range_filter (F : Nat → List (Nat × Stmt)) (hF : ∀ b' x, x ∈ F b' → x.1 = b') (b : Nat) :
    ∀ n, ((List.range n).flatMap F).filter (·.1 == b) = if b < n then F b else []
  | 0 => by simp
  | n + 1 => by
    rw [List.range_succ, List.flatMap_append, List.filter_append, flatMap_range_filter F hF b n]
    simp only [List.flatMap_cons, List.flatMap_nil, List.append_nil]
    by_cases h1 : b < n
    · have : List.filter (·.1 == b) (F n) = [] := by
        apply List.filter_eq_nil_iff.2
        intro x hx
        have := hF n x hx
        simp only [beq_iff_eq]
        omega
      rw [if_pos h1, if_pos (by omega), this, List.append_nil]
    · rw [if_neg h1]
      by_cases h2 : b = n
      · subst h2
        have : List.filter (·.1 == b) (F b) = F b := by
          apply List.filter_eq_self.2
          intro x hx
          simp [hF b x hx]
        rw [if_pos (by omega), this, List.nil_append]
      · have : List.filter (·.1 == b) (F n) = [] := by
          apply List.filter_eq_nil_iff.2
          intro x hx
          have := hF n x hx
          simp only [beq_iff_eq]
          omega
        rw [if_neg (by omega), this, List.append_nil]

/-- The emitted statements with their blocks. -/
def GState.bodyS (st : GState) : List (Nat × Stmt) := st.body.map (fun p => (p.1, p.2.stmt))

theorem bodyS_program (st : GState) : st.bodyS.map (·.2) = st.program := by
  simp [GState.bodyS, GState.program, List.map_map, Function.comp_def]

/-- The header of the root block: comments and the hoisted imports. -/
def GState.header (st : GState) (b : Nat) : List SStmt :=
  if b == 0 then st.comments.map (fun c => ⟨.comment c, none⟩) ++ ((st.body.filter (·.2.stmt.isImport)).map (·.2)).reverse else []

theorem header_noinputs (st : GState) (b : Nat) : ∀ s ∈ (st.header b).map (·.stmt), s.inputVars = [] := by
  intro s hs
  obtain ⟨x, hx, rfl⟩ := List.mem_map.1 hs
  unfold GState.header at hx
  split at hx
  · rcases List.mem_append.1 hx with h | h
    · obtain ⟨c, _, rfl⟩ := List.mem_map.1 h
      rfl
    · rw [List.mem_reverse] at h
      obtain ⟨p, hp, rfl⟩ := List.mem_map.1 h
      have := (List.mem_filter.1 hp).2
      cases hst : p.2.stmt <;> simp [hst, Stmt.isImport] at this
      simp [Stmt.inputVars, Stmt.inputs]
  · simp at hx

theorem block_stmts (st : GState) (b : Nat) :
    (st.block b).map (·.stmt) = (st.header b).map (·.stmt) ++ (st.bodyS.filter (pb b)).map (·.2) := by
  unfold GState.block GState.header GState.bodyS
  rw [List.map_append, List.filter_map, List.map_map, List.map_map]
  rfl

/-- The statements of block `b < nblocks` among all numbered statements are the text of the block. -/
theorem Lb_allStmts (st : GState) (n b : Nat) (hb : b < n) :
    (Lb (st.allStmts n).zipIdx b).map (·.2) = (st.header b).map (·.stmt) ++ (st.bodyS.filter (pb b)).map (·.2) := by
  rw [Lb_stmts]
  unfold GState.allStmts
  rw [flatMap_range_filter (fun b => (st.block b).map (fun s => (b, s.stmt))) (by
    intro b' x hx
    obtain ⟨s, _, rfl⟩ := List.mem_map.1 hx
    rfl) b n, if_pos hb, List.map_map]
  exact block_stmts st b

/-- Every emitted statement that has inputs is among the numbered statements (with its block). -/
theorem allStmts_complete (st : GState) (n : Nat) (hblk : ∀ p ∈ st.body, p.1 < n) :
    ∀ x ∈ st.bodyS, x.2.inputVars ≠ [] → ∃ i, (x, i) ∈ (st.allStmts n).zipIdx := by
  intro x hx hin
  obtain ⟨p, hp, rfl⟩ := List.mem_map.1 hx
  have hkind : p.2.stmt.isImport = false ∧ p.2.stmt.isParam = false := by
    cases hl : p.2.stmt.inputVars with
    | nil => exact absurd hl hin
    | cons v _ => exact Stmt.inputVars_kind p.2.stmt v (by rw [hl]; simp)
  have hmem : (p.1, p.2.stmt) ∈ st.allStmts n := by
    unfold GState.allStmts
    refine List.mem_flatMap.2 ⟨p.1, List.mem_range.2 (hblk p hp), List.mem_map.2 ⟨p.2, ?_, rfl⟩⟩
    unfold GState.block
    refine List.mem_append_right _ (List.mem_map.2 ⟨p, List.mem_filter.2 ⟨hp, ?_⟩, rfl⟩)
    simp [hkind.1, hkind.2]
  obtain ⟨i, hi⟩ := List.getElem?_of_mem hmem
  exact ⟨i, List.mk_mem_zipIdx_iff_getElem?.2 hi⟩

/-! ### The loop over the blocks -/

theorem fuseAll_eq (fc : FCfg) (st : GState) (n : Nat) :
    fuseAll fc st n = (List.range n).foldl (fun grp b =>
      fuseBlock fc st.vars (depsOf (st.allStmts n).zipIdx) (Lb (st.allStmts n).zipIdx b) [] grp) (List.range st.vars.length) := by
  rfl

/-- **`fuseAll` keeps the invariant**: after the loop, any two variables of one name group are ordered by `Before`. -/
theorem fuseAll_inv (fc : FCfg) (hL : fc.checkLater = true) (hB : fc.checkBlock = true) (st : GState) (n : Nat)
    (hnd : (outsOf st.program).Nodup) (hcl : liveIn st.program = []) (hblk : ∀ p ∈ st.body, p.1 < n) :
    ∀ k, k ≤ n →
      FInv st.bodyS (blockOfV st.vars) (reuseV st.vars) k []
        ((List.range k).foldl (fun grp b =>
          fuseBlock fc st.vars (depsOf (st.allStmts n).zipIdx) (Lb (st.allStmts n).zipIdx b) [] grp) (List.range st.vars.length)) ∧
      ((List.range k).foldl (fun grp b =>
          fuseBlock fc st.vars (depsOf (st.allStmts n).zipIdx) (Lb (st.allStmts n).zipIdx b) [] grp) (List.range st.vars.length)).length
        = st.vars.length
  | 0, _ => by
    simp only [List.range_zero, List.foldl_nil, List.length_range, and_true]
    exact FInv.init _ _ _ _
  | k + 1, hk => by
    obtain ⟨ih, ihlen⟩ := fuseAll_inv fc hL hB st n hnd hcl hblk k (by omega)
    rw [List.range_succ, List.foldl_append]
    simp only [List.foldl_cons, List.foldl_nil]
    refine ⟨?_, by rw [fuseBlock_length fc hL hB]; exact ihlen⟩
    have hP := bodyS_program st
    have := fuseBlock_block fc hL hB st.vars (st.allStmts n).zipIdx st.bodyS (by rw [hP]; exact hnd) (by rw [hP]; exact hcl)
      (allStmts_complete st n hblk) k (Lb (st.allStmts n).zipIdx k) ((st.header k).map (·.stmt)) (header_noinputs st k)
      (Lb_allStmts st n k (by omega)) (Lb_mem _ k) (Lb_nodup _ k) _ ihlen ih
    exact this.next

/-- The invariant for the groups `fuseAll` returns. -/
theorem fuseAll_finv (fc : FCfg) (hL : fc.checkLater = true) (hB : fc.checkBlock = true) (st : GState) (n : Nat)
    (hnd : (outsOf st.program).Nodup) (hcl : liveIn st.program = []) (hblk : ∀ p ∈ st.body, p.1 < n) :
    FInv st.bodyS (blockOfV st.vars) (reuseV st.vars) n [] (fuseAll fc st n) := by
  obtain ⟨hinv, _⟩ := fuseAll_inv fc hL hB st n hnd hcl hblk n (Nat.le_refl _)
  rw [← fuseAll_eq] at hinv
  exact hinv

/-- **The groups of `fuseAll` are `fuseSafe`** on the emitted statements (emission order), for every generator state whose
statements define every variable once, read no variable before its definition and lie in blocks below `nblocks`. -/
theorem fuseAll_safe (fc : FCfg) (hL : fc.checkLater = true) (hB : fc.checkBlock = true) (st : GState) (n : Nat)
    (hnd : (outsOf st.program).Nodup) (hcl : liveIn st.program = []) (hblk : ∀ p ∈ st.body, p.1 < n) :
    fuseSafe (fun v => (fuseAll fc st n)[v]?.getD v) st.program = true := by
  have hinv := fuseAll_finv fc hL hB st n hnd hcl hblk
  have hord := hinv.ord
  rw [bodyS_program] at hord
  exact safe_of_ordered st.program _ hnd hcl hord

end Einx.Compile
