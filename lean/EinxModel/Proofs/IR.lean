import EinxModel.IR.Validate
namespace Einx.IR
open Einx

theorem evalCells_eq_map {α : Type} (A : Alg α) (regs : List (Tensor α)) :
    ∀ cs : List Cell, evalCells A regs cs = cs.map (evalCell A regs)
  | [] => by simp [evalCells]
  | c :: cs => by simp [evalCells, evalCells_eq_map A regs cs]

theorem shapes_map {α β : Type} (h : α → β) (regs : List (Tensor α)) :
    (regs.map (Tensor.map h)).map (·.shape) = regs.map (·.shape) := by
  simp [Tensor.map, Function.comp_def]

/-- Execution of a whole program commutes with homomorphisms of element algebras. -/
theorem evalProg_map {α β : Type} {A : Alg α} {B : Alg β} {h : α → β} (hh : Hom A B h) :
    ∀ (prog : List Instr) (regs : List (Tensor α)),
      evalProg B prog (regs.map (Tensor.map h)) = (evalProg A prog regs).map (·.map (Tensor.map h))
  | [], regs => by simp [evalProg, Except.map, pure, Except.pure]
  | i :: is, regs => by
    simp only [evalProg, shapes_map]
    cases hp : planInstr (regs.map (·.shape)) i with
    | error e => simp [bind, Except.bind, Except.map]
    | ok p =>
      simp only [bind, Except.bind]
      have := evalProg_map hh is (regs ++ [runPlan A regs p])
      simp only [List.map_append, List.map_cons, List.map_nil, ← runPlan_map hh] at this
      exact this

/-- The algebra of integers under an interpretation `I` of the elementary function symbols. -/
def intAlgOf (I : String → List Int → Int) (bad : Int) : Alg Int := { lit := id, app := I, bad := bad }

/-- Evaluating cells over concrete inputs is a homomorphism from the symbolic algebra. -/
theorem interp_hom (I : String → List Int → Int) (bad : Int) (xs : List (Tensor Int)) :
    Hom symAlg (intAlgOf I bad) (evalCell (intAlgOf I bad) xs) where
  lit := fun i => by simp [symAlg, evalCell]
  app := fun f args => by simp [symAlg, evalCell, evalCells_eq_map]
  bad := by simp [symAlg, evalCell]

/-- Interpreting the symbolic input `i` over `xs` gives back `xs[i]` (when its data has the right size). -/
theorem symInput_interp (A : Alg Int) (xs : List (Tensor Int)) (i : Nat) (x : Tensor Int)
    (hi : xs[i]? = some x) (hlen : x.data.length = prod x.shape) :
    (symInput i x.shape).map (evalCell A xs) = x := by
  cases x with
  | mk shape data =>
    simp only [symInput, Tensor.map, List.map_map, Tensor.mk.injEq, true_and]
    simp only at hlen
    apply List.ext_getElem
    · simp [hlen]
    · intro k h1 h2
      simp only [List.getElem_map, List.getElem_range, Function.comp, evalCell, readReg, hi]
      simp [List.getElem?_eq_getElem h2]

theorem symInputs_interp_aux (A : Alg Int) (all : List (Tensor Int)) :
    ∀ (xs : List (Tensor Int)) (off : Nat), (∀ k x, xs[k]? = some x → all[off + k]? = some x) →
      (∀ x ∈ xs, x.data.length = prod x.shape) →
      ((xs.map (·.shape)).zipIdx off |>.map (fun (s, i) => symInput i s)).map (Tensor.map (evalCell A all)) = xs
  | [], _, _, _ => by simp
  | x :: xs, off, hall, hlen => by
    simp only [List.map_cons, List.zipIdx_cons, List.cons.injEq]
    constructor
    · exact symInput_interp A all off x (by simpa using hall 0 x (by simp)) (hlen x (by simp))
    · apply symInputs_interp_aux A all xs (off + 1)
      · intro k y hk
        have := hall (k + 1) y (by simpa using hk)
        simpa [Nat.add_assoc, Nat.add_comm 1 k] using this
      · intro y hy; exact hlen y (by simp [hy])

theorem symInputs_interp (A : Alg Int) (xs : List (Tensor Int))
    (hlen : ∀ x ∈ xs, x.data.length = prod x.shape) :
    (symInputs (xs.map (·.shape))).map (Tensor.map (evalCell A xs)) = xs := by
  have := symInputs_interp_aux A xs xs 0 (by intro k x h; simpa using h) hlen
  simpa [symInputs] using this

theorem selectRegs_map {α β : Type} (h : α → β) (regs : List (Tensor α)) :
    ∀ (outs : List Nat) (ts : List (Tensor α)), selectRegs regs outs = some ts →
      outs.map (fun r => (regs.map (Tensor.map h))[r]?) = ts.map (fun t => some (t.map h))
  | [], ts, hs => by simp [selectRegs] at hs; simp [hs]
  | r :: rs, ts, hs => by
    simp only [selectRegs] at hs
    cases hr : regs[r]? with
    | none => simp [hr] at hs
    | some t =>
      cases hrest : selectRegs regs rs with
      | none => simp [hr, hrest] at hs
      | some ts' =>
        simp only [hr, hrest, Option.some.injEq] at hs
        subst hs
        have ih := selectRegs_map h regs rs ts' hrest
        simp only [List.getElem?_map] at ih
        simp [List.getElem?_map, hr, ih]

theorem tensorsBeq_eq : ∀ (as bs : List (Tensor Cell)), tensorsBeq as bs = true → as = bs
  | [], [], _ => rfl
  | a :: as, b :: bs, h => by
    simp only [tensorsBeq, Bool.and_eq_true, Tensor.beq] at h
    have h1 : a = b := by
      cases a; cases b
      simp only at h
      have hs := h.1.1
      have hd := Cell.beqL_eq _ _ h.1.2
      simp only [beq_iff_eq] at hs
      simp [hs, hd]
    rw [h1, tensorsBeq_eq as bs h.2]
  | [], _ :: _, h | _ :: _, [], h => by simp [tensorsBeq] at h

end Einx.IR
