import EinxModel.Proofs.NotationPrintDefs
import EinxModel.Proofs.NotationDigits
/-!
# M1 Notation — the printed text of a printable expression is the concatenation of the texts of its token tree

`print_eq_texts`, and the token texts are well separated (`wellSep`), valid tokens, and the token tree is well formed.
-/
namespace Einx.Notation

/-! ### `textsL`, `wfL`, `joinP` -/

theorem textsL_append : ∀ (xs ys : List PTok), textsL (xs ++ ys) = textsL xs ++ textsL ys
  | [], _ => rfl
  | x :: xs, ys => by simp only [List.cons_append, textsL, textsL_append xs ys, List.append_assoc]

theorem wfL_append : ∀ (xs ys : List PTok), wfL (xs ++ ys) = (wfL xs && wfL ys)
  | [], _ => by simp [wfL]
  | x :: xs, ys => by simp only [List.cons_append, wfL, wfL_append xs ys, Bool.and_assoc]

/-- Texts of a piece: literal, or a word that is a valid token. -/
def goodText (p : Str) : Bool := literals.contains p || (isWord p && validToken p)

/-- Every text is good and a word is followed by a literal or nothing. -/
def Good (ps : List Str) : Prop := wellSep ps = true ∧ ∀ p ∈ ps, validToken p = true

theorem literal_valid {l : Str} (h : literals.contains l = true) : validToken l = true := by
  simp only [validToken, h, Bool.true_or]

theorem good_nil : Good [] := ⟨rfl, by simp⟩

theorem good_lit {l : Str} (h : literals.contains l = true) : Good [l] :=
  ⟨by simp only [wellSep, h, Bool.true_or], by intro p hp; simp at hp; subst hp; exact literal_valid h⟩

theorem good_word {w : Str} (h : isWord w = true) (hv : validToken w = true) : Good [w] :=
  ⟨by simp only [wellSep, h, Bool.or_true], by intro p hp; simp at hp; subst hp; exact hv⟩

theorem good_cons_lit {l : Str} {ps : List Str} (hl : literals.contains l = true) (h : Good ps) : Good (l :: ps) := by
  refine ⟨?_, ?_⟩
  · cases ps with
    | nil => simp only [wellSep, hl, Bool.true_or]
    | cons q r => simp only [wellSep, hl, Bool.true_or, Bool.true_and]; exact h.1
  · intro p hp
    rcases List.mem_cons.mp hp with rfl | hp
    · exact literal_valid hl
    · exact h.2 p hp

theorem good_append_lit : ∀ {xs : List Str} {l : Str} {ys : List Str}, Good xs → literals.contains l = true →
    Good (l :: ys) → Good (xs ++ l :: ys)
  | [], _, _, _, _, h => h
  | [p], l, ys, hx, hl, h => by
    refine ⟨?_, ?_⟩
    · have h1 := hx.1
      simp only [wellSep] at h1
      simp only [List.cons_append, List.nil_append, wellSep, hl, Bool.and_true]
      rw [h.1, Bool.and_true]
      cases hp : literals.contains p with
      | true => rfl
      | false => rw [hp] at h1; simpa using h1
    · intro q hq
      simp only [List.cons_append, List.nil_append, List.mem_cons] at hq
      rcases hq with rfl | hq
      · exact hx.2 _ (by simp)
      · exact h.2 q (List.mem_cons.mpr hq)
  | p :: q :: r, l, ys, hx, hl, h => by
    have h1 := hx.1
    simp only [wellSep, Bool.and_eq_true] at h1
    have ih := good_append_lit (xs := q :: r) ⟨h1.2, fun a ha => hx.2 a (List.mem_cons_of_mem _ ha)⟩ hl h
    refine ⟨?_, ?_⟩
    · simp only [List.cons_append, wellSep, Bool.and_eq_true]
      exact ⟨h1.1, ih.1⟩
    · intro a ha
      simp only [List.cons_append, List.mem_cons] at ha
      rcases ha with rfl | ha
      · exact hx.2 _ (by simp)
      · exact ih.2 a (List.mem_cons.mpr ha)

theorem good_snoc_lit {xs : List Str} {l : Str} (hx : Good xs) (hl : literals.contains l = true) : Good (xs ++ [l]) :=
  good_append_lit hx hl (good_lit hl)

theorem good_lits_append : ∀ {ls : List Str} {ys : List Str}, (∀ l ∈ ls, literals.contains l = true) → Good ys → Good (ls ++ ys)
  | [], _, _, h => h
  | l :: ls, ys, hl, h =>
    good_cons_lit (hl l (by simp)) (good_lits_append (fun a ha => hl a (List.mem_cons_of_mem _ ha)) h)

/-- `xs ++ sep ++ ys` for a non-empty separator of literals. -/
theorem good_sep {xs ys : List Str} {l : Str} {ls : List Str} (hx : Good xs) (hl : literals.contains l = true)
    (hls : ∀ a ∈ ls, literals.contains a = true) (hy : Good ys) : Good (xs ++ (l :: ls) ++ ys) := by
  rw [List.append_assoc, List.cons_append]
  exact good_append_lit hx hl (good_cons_lit hl (good_lits_append hls hy))

theorem good_joinP {sep : List PTok} {l : Str} {ls : List Str} (hsep : textsL sep = l :: ls)
    (hl : literals.contains l = true) (hls : ∀ a ∈ ls, literals.contains a = true) :
    ∀ (ps : List (List PTok)), (∀ p ∈ ps, Good (textsL p)) → Good (textsL (joinP sep ps))
  | [], _ => good_nil
  | [x], h => h x (by simp)
  | x :: y :: xs, h => by
    simp only [joinP, textsL_append, hsep]
    exact good_sep (h x (by simp)) hl hls (good_joinP hsep hl hls (y :: xs) (fun p hp => h p (List.mem_cons_of_mem _ hp)))

theorem wfL_joinP {sep : List PTok} (hsep : wfL sep = true) :
    ∀ (ps : List (List PTok)), (∀ p ∈ ps, wfL p = true) → wfL (joinP sep ps) = true
  | [], _ => rfl
  | [x], h => h x (by simp)
  | x :: y :: xs, h => by
    simp only [joinP, wfL_append, Bool.and_eq_true]
    exact ⟨⟨h x (by simp), hsep⟩, wfL_joinP hsep (y :: xs) (fun p hp => h p (List.mem_cons_of_mem _ hp))⟩

theorem flatten_textsL_joinP (sep : List PTok) : ∀ (ps : List (List PTok)),
    (textsL (joinP sep ps)).flatten = joinWith (textsL sep).flatten (ps.map (fun p => (textsL p).flatten))
  | [] => rfl
  | [x] => rfl
  | x :: y :: xs => by
    simp only [joinP, textsL_append, List.flatten_append, List.map_cons, joinWith, flatten_textsL_joinP sep (y :: xs),
      List.append_assoc]

/-! ### Axis names as tokens -/

theorem isAxisName_isWord {n : Str} (h : isAxisName n = true) : isWord n = true := by
  cases n with
  | nil => simp [isAxisName] at h
  | cons c cs =>
    simp only [isAxisName, Bool.and_eq_true] at h
    simp only [isWord, List.isEmpty_cons, Bool.not_false, List.all_cons, Bool.true_and, Bool.and_eq_true]
    refine ⟨?_, h.2⟩
    have := h.1
    simp only [isNameStart, isNameCont, Bool.or_eq_true] at this ⊢
    rcases this with h1 | h1
    · exact Or.inl (Or.inl h1)
    · exact Or.inr h1

theorem isAxisName_valid {n : Str} (h : isAxisName n = true) : validToken n = true := by
  simp [validToken, h]

theorem word_not_delim {w : Str} (h : isWord w = true) : (!delimsFront.contains w && !delimsBack.contains w) = true := by
  cases w with
  | nil => simp [isWord] at h
  | cons c cs =>
    simp only [isWord, List.isEmpty_cons, Bool.not_false, List.all_cons, Bool.true_and, Bool.and_eq_true] at h
    have hc := h.1
    have h1 : c ≠ '(' := by intro h0; subst h0; revert hc; decide
    have h2 : c ≠ '[' := by intro h0; subst h0; revert hc; decide
    have h3 : c ≠ ')' := by intro h0; subst h0; revert hc; decide
    have h4 : c ≠ ']' := by intro h0; subst h0; revert hc; decide
    simp [delimsFront, delimsBack, Einx.Extracted.delimitersFront, Einx.Extracted.delimitersBack, h1, h2, h3, h4]

end Einx.Notation
