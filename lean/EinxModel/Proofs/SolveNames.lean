import EinxModel.Solve.Names
import EinxModel.Proofs.SolveNamesChars
import EinxModel.Proofs.SolveRename
/-!
The name hygiene of the generated value system as a theorem: `namesOK`, `freshVars`, `renOK`
(`Solve/Shorthand.lean`; hypotheses of the stage-2/3 shorthand theorems) follow from the syntactic
condition `plainNames` / `hashFree` of `Solve/Names.lean`.

* `nodeKeys_form`: every node variable below `path` with enclosing indices `idx` reads
  `path ++ w ++ idxSuffix (idx ++ j)` with `w` a dot-free string of further path steps.
* `nodeKeys_nodup`, `inputNodeKeys_nodup`: node variables are pairwise different — for EVERY input,
  no condition on the names (the path encoding is uniquely decodable).
* `namesOK_of_hashFree`: … and differ from all axis variables when no axis name contains `#`.
* `axisVar_inj`: `(name, idx) ↦ name ++ idxSuffix idx` is injective on plain names; hence
  `freshVars_of_plainNames`, `renOK_of_plainNames`.
-/
namespace Einx.Solve

/-! ### The form of node variables -/

/-- `x` is a node variable below the path `p` (as characters) under the repetition indices `idx`. -/
def KeyForm (p : List Char) (idx : List Nat) (x : Var) : Prop :=
  ∃ (w : List Char) (j : List Nat), x.toList = p ++ w ++ sufL (idx ++ j) ∧ '.' ∉ w ∧
    (∀ c, w.head? = some c → c.isDigit = false)

theorem nodeVar_toList (path : String) (idx : List Nat) : (path ++ idxSuffix idx).toList = path.toList ++ sufL idx := by
  rw [String.toList_append]; rfl

theorem KeyForm.self (path : String) (idx : List Nat) : KeyForm path.toList idx (path ++ idxSuffix idx) :=
  ⟨[], [], by rw [nodeVar_toList]; simp, by simp, by simp⟩

theorem KeyForm.step {p : List Char} {idx : List Nat} {x : Var} (c0 : Char) (s : List Char) (hs : '.' ∉ c0 :: s)
    (hc : c0.isDigit = false) (h : KeyForm (p ++ c0 :: s) idx x) : KeyForm p idx x := by
  obtain ⟨w, j, h1, h2, _⟩ := h
  refine ⟨c0 :: s ++ w, j, by simp [h1], ?_, ?_⟩
  · simp only [List.mem_cons, List.mem_append, not_or] at hs ⊢
    exact ⟨hs, h2⟩
  · intro c hc'
    simp only [List.cons_append, List.head?_cons, Option.some.injEq] at hc'
    rw [← hc']; exact hc

theorem KeyForm.snoc {p : List Char} {idx : List Nat} {i : Nat} {x : Var} (h : KeyForm p (idx ++ [i]) x) :
    KeyForm p idx x := by
  obtain ⟨w, j, h1, h2, h3⟩ := h
  exact ⟨w, i :: j, by simp [h1], h2, h3⟩

theorem slash_dotfree (k : Nat) : '.' ∉ '/' :: digs k := by
  simp only [List.mem_cons, not_or]
  exact ⟨by decide, dot_not_mem_digs k⟩

theorem KeyForm.slash {p : List Char} {idx : List Nat} {k : Nat} {x : Var} (h : KeyForm (p ++ '/' :: digs k) idx x) :
    KeyForm p idx x := KeyForm.step '/' (digs k) (slash_dotfree k) (by decide) h

theorem path_slash_toList (path : String) (k : Nat) : (path ++ "/" ++ toString k).toList = path.toList ++ '/' :: digs k := by
  simp [String.toList_append, digs]

mutual
theorem nodeKeys_form (ρ : Var → Nat) : ∀ (e : Expr) (path : String) (idx : List Nat),
    ∀ x ∈ nodeKeys ρ path idx e, KeyForm path.toList idx x
  | .axis _, _, _, x, hx => by simp [nodeKeys] at hx
  | .num _, _, _, x, hx => by simp [nodeKeys] at hx
  | .brackets e, path, idx, x, hx => by
    simp only [nodeKeys] at hx; exact nodeKeys_form ρ e path idx x hx
  | .flat e, path, idx, x, hx => by
    simp only [nodeKeys, List.mem_cons] at hx
    rcases hx with rfl | hx
    · exact KeyForm.self path idx
    · have := nodeKeys_form ρ e (path ++ "(") idx x hx
      rw [String.toList_append] at this
      exact KeyForm.step '(' [] (by decide) (by decide) this
  | .concat cs, path, idx, x, hx => by
    simp only [nodeKeys, List.mem_cons] at hx
    rcases hx with rfl | hx
    · exact KeyForm.self path idx
    · obtain ⟨k', _, h⟩ := nodeKeysL_form ρ cs (path ++ "+") idx 0 x hx
      have := KeyForm.slash h
      rw [String.toList_append] at this
      exact KeyForm.step '+' [] (by decide) (by decide) this
  | .ellipsis id e, path, idx, x, hx => by
    simp only [nodeKeys, List.mem_flatMap, List.mem_range] at hx
    obtain ⟨i, _, hx⟩ := hx
    exact KeyForm.snoc (nodeKeys_form ρ e path (idx ++ [i]) x hx)
  | .list cs, path, idx, x, hx => by
    simp only [nodeKeys] at hx
    obtain ⟨k', _, h⟩ := nodeKeysL_form ρ cs path idx 0 x hx
    exact KeyForm.slash h
theorem nodeKeysL_form (ρ : Var → Nat) : ∀ (cs : List Expr) (path : String) (idx : List Nat) (k : Nat),
    ∀ x ∈ nodeKeysL ρ path idx k cs, ∃ k', k ≤ k' ∧ KeyForm (path.toList ++ '/' :: digs k') idx x
  | [], _, _, _, x, hx => by simp [nodeKeysL] at hx
  | c :: cs, path, idx, k, x, hx => by
    simp only [nodeKeysL, List.mem_append] at hx
    rcases hx with hx | hx
    · refine ⟨k, Nat.le_refl k, ?_⟩
      have := nodeKeys_form ρ c (path ++ "/" ++ toString k) idx x hx
      rwa [path_slash_toList] at this
    · obtain ⟨k', hk, h⟩ := nodeKeysL_form ρ cs path idx (k + 1) x hx
      exact ⟨k', by omega, h⟩
end

/-! ### Decoding node variables -/

/-- Two readings of one variable below `p ++ s` and `p ++ s'` agree after the common prefix. -/
theorem keyForm_eq {p s s' : List Char} {idx idx' : List Nat} {x : Var} (hs : '.' ∉ s) (hs' : '.' ∉ s')
    (h : KeyForm (p ++ s) idx x) (h' : KeyForm (p ++ s') idx' x) :
    ∃ w w' j j', s ++ w = s' ++ w' ∧ idx ++ j = idx' ++ j' ∧
      (∀ c, w.head? = some c → c.isDigit = false) ∧ (∀ c, w'.head? = some c → c.isDigit = false) := by
  obtain ⟨w, j, h1, h2, h3⟩ := h
  obtain ⟨w', j', h1', h2', h3'⟩ := h'
  rw [h1] at h1'
  simp only [List.append_assoc, List.append_cancel_left_eq] at h1'
  rw [← List.append_assoc, ← List.append_assoc] at h1'
  have := dotfree_decode (w := s ++ w) (w' := s' ++ w') (by simp [hs, h2]) (by simp [hs', h2']) h1'
  exact ⟨w, w', j, j', this.1, this.2, h3, h3'⟩

/-- A node variable strictly below `path` is not the variable of the node at `path`. -/
theorem keyForm_ne_self {path : String} {idx idx' : List Nat} (c0 : Char) (s : List Char) (hs : '.' ∉ c0 :: s)
    (h : KeyForm (path.toList ++ c0 :: s) idx (path ++ idxSuffix idx')) : False := by
  have h' : KeyForm (path.toList ++ []) idx' (path ++ idxSuffix idx') := by
    rw [List.append_nil]; exact KeyForm.self path idx'
  obtain ⟨w, w', j, j', h1, h2, _, _⟩ := keyForm_eq hs (by simp) h h'
  obtain ⟨w0, j0, hx, hw0, _⟩ := h
  obtain ⟨w1, j1, hx1, hw1, _⟩ := h'
  -- decode directly: `path ++ c0 :: s ++ w0 ++ sufL .. = path ++ sufL idx'`
  rw [nodeVar_toList] at hx
  simp only [List.append_assoc, List.append_cancel_left_eq] at hx
  have hd : ([] : List Char) ++ sufL idx' = (c0 :: s ++ w0) ++ sufL (idx ++ j0) := by simpa using hx
  have := (dotfree_decode (by simp) (by
    simp only [List.mem_cons, List.mem_append, not_or] at hs ⊢
    exact ⟨hs, hw0⟩) hd).1
  simp at this

theorem keyForm_idx_eq {p : List Char} {idx : List Nat} {i i' : Nat} {x : Var}
    (h : KeyForm p (idx ++ [i]) x) (h' : KeyForm p (idx ++ [i']) x) : i = i' := by
  have h0 : KeyForm (p ++ []) (idx ++ [i]) x := by rwa [List.append_nil]
  have h0' : KeyForm (p ++ []) (idx ++ [i']) x := by rwa [List.append_nil]
  obtain ⟨w, w', j, j', _, h2, _, _⟩ := keyForm_eq (by simp) (by simp) h0 h0'
  simp only [List.append_assoc, List.append_cancel_left_eq, List.cons_append, List.nil_append, List.cons.injEq] at h2
  exact h2.1

theorem keyForm_slash_eq {p : List Char} {idx : List Nat} {k k' : Nat} {x : Var}
    (h : KeyForm (p ++ '/' :: digs k) idx x) (h' : KeyForm (p ++ '/' :: digs k') idx x) : k = k' := by
  obtain ⟨w, w', j, j', h1, _, h3, h3'⟩ := keyForm_eq (slash_dotfree k) (slash_dotfree k') h h'
  simp only [List.cons_append, List.cons.injEq, true_and] at h1
  exact (digs_decode h3 h3' h1).1

theorem root_path_toList (i : Nat) : ("#" ++ toString i).toList = [] ++ '#' :: digs i := by
  simp [String.toList_append, digs]

theorem hash_dotfree (k : Nat) : '.' ∉ '#' :: digs k := by
  simp only [List.mem_cons, not_or]
  exact ⟨by decide, dot_not_mem_digs k⟩

theorem keyForm_root_eq {idx : List Nat} {k k' : Nat} {x : Var}
    (h : KeyForm ("#" ++ toString k).toList idx x) (h' : KeyForm ("#" ++ toString k').toList idx x) : k = k' := by
  rw [root_path_toList] at h h'
  obtain ⟨w, w', j, j', h1, _, h3, h3'⟩ := keyForm_eq (hash_dotfree k) (hash_dotfree k') h h'
  simp only [List.cons_append, List.cons.injEq, true_and] at h1
  exact (digs_decode h3 h3' h1).1

/-- every node variable of an input starts with `#` -/
theorem keyForm_root_hash {idx : List Nat} {k : Nat} {x : Var} (h : KeyForm ("#" ++ toString k).toList idx x) :
    '#' ∈ x.toList := by
  obtain ⟨w, j, h1, _, _⟩ := h
  rw [h1, root_path_toList]; simp

/-! ### Node variables are pairwise different -/

theorem nodup_flatMap_key {α β γ : Type} (g : α → γ) (f : α → List β) : ∀ l : List α, (l.map g).Nodup →
    (∀ a ∈ l, (f a).Nodup) → (∀ a ∈ l, ∀ b ∈ l, ∀ x, x ∈ f a → x ∈ f b → g a = g b) → (l.flatMap f).Nodup
  | [], _, _, _ => by simp
  | a :: l, hn, h1, h2 => by
    simp only [List.map_cons, List.nodup_cons] at hn
    simp only [List.flatMap_cons]
    rw [List.nodup_append]
    refine ⟨h1 a (by simp), nodup_flatMap_key g f l hn.2 (fun b hb => h1 b (by simp [hb]))
      (fun b hb c hc => h2 b (by simp [hb]) c (by simp [hc])), ?_⟩
    intro x hx y hy hxy
    subst hxy
    obtain ⟨b, hb, hxb⟩ := List.mem_flatMap.mp hy
    have := h2 a (by simp) b (by simp [hb]) x hx hxb
    exact hn.1 (this ▸ List.mem_map.mpr ⟨b, hb, rfl⟩)

mutual
theorem nodeKeys_nodup (ρ : Var → Nat) : ∀ (e : Expr) (path : String) (idx : List Nat), (nodeKeys ρ path idx e).Nodup
  | .axis _, _, _ => by simp [nodeKeys]
  | .num _, _, _ => by simp [nodeKeys]
  | .brackets e, path, idx => by simp only [nodeKeys]; exact nodeKeys_nodup ρ e path idx
  | .flat e, path, idx => by
    simp only [nodeKeys, List.nodup_cons]
    refine ⟨fun hx => ?_, nodeKeys_nodup ρ e _ idx⟩
    have := nodeKeys_form ρ e (path ++ "(") idx _ hx
    rw [String.toList_append] at this
    exact keyForm_ne_self '(' [] (by decide) this
  | .concat cs, path, idx => by
    simp only [nodeKeys, List.nodup_cons]
    refine ⟨fun hx => ?_, nodeKeysL_nodup ρ cs _ idx 0⟩
    obtain ⟨k', _, h⟩ := nodeKeysL_form ρ cs (path ++ "+") idx 0 _ hx
    rw [String.toList_append, List.append_assoc] at h
    exact keyForm_ne_self '+' ('/' :: digs k') (by
      simp only [List.mem_cons, not_or]
      exact ⟨by decide, by decide, dot_not_mem_digs k'⟩) h
  | .ellipsis id e, path, idx => by
    simp only [nodeKeys]
    apply nodup_flatMap_key (fun i => i)
    · simpa using List.nodup_range
    · intro i _; exact nodeKeys_nodup ρ e path (idx ++ [i])
    · intro i _ i' _ x hx hx'
      exact keyForm_idx_eq (nodeKeys_form ρ e path (idx ++ [i]) x hx) (nodeKeys_form ρ e path (idx ++ [i']) x hx')
  | .list cs, path, idx => by simp only [nodeKeys]; exact nodeKeysL_nodup ρ cs path idx 0
theorem nodeKeysL_nodup (ρ : Var → Nat) : ∀ (cs : List Expr) (path : String) (idx : List Nat) (k : Nat),
    (nodeKeysL ρ path idx k cs).Nodup
  | [], _, _, _ => by simp [nodeKeysL]
  | c :: cs, path, idx, k => by
    simp only [nodeKeysL]
    rw [List.nodup_append]
    refine ⟨nodeKeys_nodup ρ c _ idx, nodeKeysL_nodup ρ cs path idx (k + 1), ?_⟩
    intro x hx y hy hxy
    subst hxy
    have h1 := nodeKeys_form ρ c (path ++ "/" ++ toString k) idx x hx
    rw [path_slash_toList] at h1
    obtain ⟨k', hk, h2⟩ := nodeKeysL_form ρ cs path idx (k + 1) x hy
    have := keyForm_slash_eq h1 h2
    omega
end

theorem zip_range_snd_nodup {α : Type} (l : List α) : ((l.zip (List.range l.length)).map (·.2)).Nodup := by
  have : (l.zip (List.range l.length)).map (·.2) = List.range l.length := by
    simpa using List.map_snd_zip (l₁ := l) (l₂ := List.range l.length) (by simp)
  rw [this]; exact List.nodup_range

/-- **The node variables of an input are pairwise different** — no condition on the axis names. -/
theorem inputNodeKeys_nodup (inp : Input) (ρ : Var → Nat) : (inp.nodeKeys ρ).Nodup := by
  unfold Input.nodeKeys
  apply nodup_flatMap_key (fun p => p.2)
  · exact zip_range_snd_nodup inp.tensors
  · intro p _; exact nodeKeys_nodup ρ p.1.expr _ []
  · intro p _ q _ x hx hx'
    exact keyForm_root_eq (nodeKeys_form ρ p.1.expr _ [] x hx) (nodeKeys_form ρ q.1.expr _ [] x hx')

theorem inputNodeKeys_hash (inp : Input) (ρ : Var → Nat) : ∀ k ∈ inp.nodeKeys ρ, '#' ∈ k.toList := by
  intro k hk
  unfold Input.nodeKeys at hk
  obtain ⟨p, _, hk⟩ := List.mem_flatMap.mp hk
  exact keyForm_root_hash (nodeKeys_form ρ p.1.expr _ [] k hk)

/-- `namesOK` from its only real content: no axis variable contains a `#`. -/
theorem namesOK_of_axisVars (inp : Input) (ρ : Var → Nat) (h : ∀ a ∈ inp.axes ρ, '#' ∉ a.2.2.toList) :
    namesOK inp ρ = true := by
  rw [namesOK_iff]
  refine ⟨inputNodeKeys_nodup inp ρ, ?_⟩
  intro k hk a ha he
  exact h a ha (he ▸ inputNodeKeys_hash inp ρ k hk)

/-! ### Axis variables -/

mutual
theorem axesOf_var (ρ : Var → Nat) : ∀ (e : Expr) (idx : List Nat), ∀ a ∈ axesOf ρ idx e, a.2.2 = a.1 ++ idxSuffix a.2.1
  | .axis n, idx, a, ha => by simp only [axesOf, List.mem_singleton] at ha; subst ha; rfl
  | .num _, _, a, ha => by simp [axesOf] at ha
  | .brackets e, idx, a, ha => by simp only [axesOf] at ha; exact axesOf_var ρ e idx a ha
  | .flat e, idx, a, ha => by simp only [axesOf] at ha; exact axesOf_var ρ e idx a ha
  | .concat cs, idx, a, ha => by simp only [axesOf] at ha; exact axesOfL_var ρ cs idx a ha
  | .ellipsis id e, idx, a, ha => by
    simp only [axesOf, List.mem_flatMap] at ha
    obtain ⟨i, _, ha⟩ := ha
    exact axesOf_var ρ e (idx ++ [i]) a ha
  | .list cs, idx, a, ha => by simp only [axesOf] at ha; exact axesOfL_var ρ cs idx a ha
theorem axesOfL_var (ρ : Var → Nat) : ∀ (cs : List Expr) (idx : List Nat), ∀ a ∈ axesOfL ρ idx cs, a.2.2 = a.1 ++ idxSuffix a.2.1
  | [], _, a, ha => by simp [axesOfL] at ha
  | c :: cs, idx, a, ha => by
    simp only [axesOfL, List.mem_append] at ha
    rcases ha with ha | ha
    · exact axesOf_var ρ c idx a ha
    · exact axesOfL_var ρ cs idx a ha
end

theorem inputAxes_var {inp : Input} {ρ : Var → Nat} {a : String × List Nat × Var} (ha : a ∈ inp.axes ρ) :
    a.2.2.toList = a.1.toList ++ sufL a.2.1 := by
  obtain ⟨t, _, hat⟩ := mem_inputAxes.mp ha
  rw [axesOf_var ρ t.expr [] a hat, String.toList_append]; rfl

theorem inputAxes_name {inp : Input} {ρ : Var → Nat} {a : String × List Nat × Var} (ha : a ∈ inp.axes ρ) :
    a.1 ∈ inp.axisNames := by
  obtain ⟨t, ht, hat⟩ := mem_inputAxes.mp ha
  obtain ⟨st, hocc, _⟩ := axesOf_occs ρ t.expr [] [] trivial a hat
  refine List.mem_map.mpr ⟨(a.1, st), ?_, rfl⟩
  unfold Input.occs
  exact List.mem_flatMap.mpr ⟨t, ht, hocc⟩

theorem hashFree_iff (inp : Input) : hashFree inp = true ↔ ∀ n ∈ inp.axisNames, '#' ∉ n.toList := by
  simp [hashFree]

theorem plainChars_iff (s : List Char) : plainChars s = true ↔ '#' ∉ s ∧ GoodTail s := by
  unfold plainChars GoodTail
  simp only [Bool.and_eq_true, Bool.not_eq_eq_eq_not, Bool.not_true, List.contains_eq_mem, decide_eq_false_iff_not,
    Bool.or_eq_true]
  apply and_congr_right
  intro _
  constructor
  · intro h hd c hc
    rcases h with h | h
    · exact absurd hd h
    · simpa [hc] using h
  · intro h
    by_cases hd : '.' ∈ s
    · right
      cases hl : s.getLast? with
      | none => rfl
      | some c => simp [h hd c hl]
    · exact Or.inl hd

theorem plainNames_iff (inp : Input) : plainNames inp = true ↔ ∀ n ∈ inp.axisNames, '#' ∉ n.toList ∧ GoodTail n.toList := by
  simp only [plainNames, List.all_eq_true, plainName, plainChars_iff]

theorem hashFree_of_plainNames {inp : Input} (h : plainNames inp = true) : hashFree inp = true :=
  (hashFree_iff inp).mpr fun n hn => ((plainNames_iff inp).mp h n hn).1

/-- **`namesOK` is a theorem**: the node variables `#t/k(….i` are pairwise different (always) and differ
from every axis variable as soon as no axis name contains a `#`. -/
theorem namesOK_of_hashFree (inp : Input) (ρ : Var → Nat) (h : hashFree inp = true) : namesOK inp ρ = true := by
  apply namesOK_of_axisVars
  intro a ha hm
  rw [inputAxes_var ha, List.mem_append] at hm
  rcases hm with hm | hm
  · exact (hashFree_iff inp).mp h a.1 (inputAxes_name ha) hm
  · exact hash_not_mem_sufL _ hm

/-- The written-out long form of a hash-free input is hygienic too (its axis variables are those of
the input). -/
theorem namesOK_unroll_of_hashFree (inp : Input) (ρ ρ' : Var → Nat) (h : hashFree inp = true) :
    namesOK (unrollInput inp ρ) ρ' = true := by
  apply namesOK_of_axisVars
  intro a' ha' hm
  obtain ⟨a, ha, he⟩ := (unroll_inputAxes inp ρ ρ' a'.2.2).mp ⟨a', ha', rfl⟩
  rw [← he, inputAxes_var ha, List.mem_append] at hm
  rcases hm with hm | hm
  · exact (hashFree_iff inp).mp h a.1 (inputAxes_name ha) hm
  · exact hash_not_mem_sufL _ hm

/-- **Unique decoding of expanded axis variables** of an input with plain names. -/
theorem axisVar_inj {inp : Input} {ρ : Var → Nat} (h : plainNames inp = true) {a b : String × List Nat × Var}
    (ha : a ∈ inp.axes ρ) (hb : b ∈ inp.axes ρ) (he : a.2.2 = b.2.2) : a.1 = b.1 ∧ a.2.1 = b.2.1 := by
  have hA := ((plainNames_iff inp).mp h a.1 (inputAxes_name ha)).2
  have hB := ((plainNames_iff inp).mp h b.1 (inputAxes_name hb)).2
  have := congrArg String.toList he
  rw [inputAxes_var ha, inputAxes_var hb] at this
  obtain ⟨h1, h2⟩ := axisVar_decode hA hB this
  exact ⟨String.toList_inj.mp h1, h2⟩

/-- **`freshVars` is a theorem** for plain names: the variables `n.i` belong to no other name. -/
theorem freshVars_of_plainNames (inp : Input) (ρ : Var → Nat) (n : String) (h : plainNames inp = true) :
    freshVars inp ρ n = true := by
  rw [freshVars_iff]
  intro a ha b hb hn he
  rw [← hn]
  exact (axisVar_inj h hb ha he).1

/-- **`renOK` is a theorem** for a renaming that is injective on the axis names and maps plain names to
plain names. -/
theorem renOK_of_plainNames (f : String → String) (inp : Input) (ρ : Var → Nat) (h : plainNames inp = true)
    (hf : ∀ n ∈ inp.axisNames, plainName (f n) = true)
    (hinj : ∀ a ∈ inp.axisNames, ∀ b ∈ inp.axisNames, f a = f b → a = b) : renOK f inp ρ = true := by
  rw [renOK_iff]
  intro a ha b hb
  have hva := axesOf_var
  obtain ⟨ta, _, hata⟩ := mem_inputAxes.mp ha
  obtain ⟨tb, _, hatb⟩ := mem_inputAxes.mp hb
  constructor
  · intro he
    obtain ⟨h1, h2⟩ := axisVar_inj h ha hb he
    simp only [renVar, h1, h2]
  · intro he
    have hA := ((plainChars_iff _).mp (hf a.1 (inputAxes_name ha))).2
    have hB := ((plainChars_iff _).mp (hf b.1 (inputAxes_name hb))).2
    have := congrArg String.toList he
    simp only [renVar, String.toList_append] at this
    obtain ⟨h1, h2⟩ := axisVar_decode (l := a.2.1) (l' := b.2.1) hA hB this
    have hn := hinj a.1 (inputAxes_name ha) b.1 (inputAxes_name hb) (String.toList_inj.mp h1)
    rw [axesOf_var ρ ta.expr [] a hata, axesOf_var ρ tb.expr [] b hatb, hn, h2]

end Einx.Solve
