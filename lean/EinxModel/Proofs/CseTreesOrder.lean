import EinxModel.Solve.CseCheck
import EinxModel.Proofs.OrderCse
/-!
Helper lemmas for `Props/C16Cse.lean`: the result of `cseTreesEnum` for two enumerations of the dict
`str_to_common_expr` differs only in the numbering of the new axes.

* every filter of `selectFrom` maps permuted candidate lists to permuted candidate lists (`selectFrom_perm`);
* the two searches of `replace` are determined by the *key* of the candidate they find, not by its position, when an
  exprlist (a list of node identities) belongs to one candidate only (`UniqueIds`): `matchNode_perm`, `matchAt_perm`;
* `repl` is natural in the numbering (`repl_natural`).
-/
namespace Einx.Solve.CseT
open Einx.Solve

/-! ### filters -/

theorem any_perm {α : Type} {l₁ l₂ : List α} (h : l₁.Perm l₂) (p : α → Bool) : l₁.any p = l₂.any p := by
  apply Bool.eq_iff_iff.2
  simp only [List.any_eq_true]
  exact ⟨fun ⟨x, hx, px⟩ => ⟨x, h.mem_iff.1 hx, px⟩, fun ⟨x, hx, px⟩ => ⟨x, h.mem_iff.2 hx, px⟩⟩

theorem selectFrom_perm (opts : Opts) (roots : List (Option VExpr)) {g₁ g₂ : List Cand} (h : g₁.Perm g₂) :
    (selectFrom opts roots g₁).Perm (selectFrom opts roots g₂) := by
  unfold selectFrom
  simp only
  have h7 := ((((((h.filter (usedOnlyInside (allAxes 0 roots))).map
    (fun c => ({ c with occs := dedupe [] c.occs } : Cand))).filter notSingleton).filter allReplaceable).filter
    (bracketsOK opts.cseInBrackets)).filter (concatOK opts.cseConcat)).filter rootOK
  have hf : notInsideOther (List.filter rootOK (List.filter (concatOK opts.cseConcat) (List.filter (bracketsOK opts.cseInBrackets)
      (List.filter allReplaceable (List.filter notSingleton (List.map (fun c => ({ c with occs := dedupe [] c.occs } : Cand))
      (List.filter (usedOnlyInside (allAxes 0 roots)) g₁))))))) =
      notInsideOther (List.filter rootOK (List.filter (concatOK opts.cseConcat) (List.filter (bracketsOK opts.cseInBrackets)
      (List.filter allReplaceable (List.filter notSingleton (List.map (fun c => ({ c with occs := dedupe [] c.occs } : Cand))
      (List.filter (usedOnlyInside (allAxes 0 roots)) g₂))))))) := by
    funext c
    simp only [notInsideOther]
    rw [any_perm h7]
  rw [hf]
  exact h7.filter _

/-! ### naturality of the replacement in the numbering -/

section Natural
variable (nm : Nat → String) (ρ : Nat → Nat) (mn : Id → Option Nat) (ma : Id → Nat → Nat → Option (Nat × Nat))

theorem nodeOr_natural (id : Id) (e : VExpr) (other : Except String (List VExpr)) :
    nodeOr nm (fun i => (mn i).map ρ) id e other = nodeOr (fun k => nm (ρ k)) mn id e other := by
  unfold nodeOr
  cases h : mn id <;> simp [h]

mutual
theorem repl_natural : ∀ (t : VExpr) (id : Id),
    repl nm (fun i => (mn i).map ρ) (fun p i n => (ma p i n).map (fun r => (ρ r.1, r.2))) id t =
      repl (fun k => nm (ρ k)) mn ma id t
  | .axis n v m, id => by simp only [repl, nodeOr_natural]
  | .flat e, id => by simp only [repl, nodeOr_natural, repl_natural e]
  | .brackets e, id => by simp only [repl, nodeOr_natural, repl_natural e]
  | .concat cs, id => by simp only [repl, nodeOr_natural, (replL_natural cs).2]
  | .list cs, id => by simp only [repl, nodeOr_natural, (replL_natural cs).1, (replL_natural cs).2]
theorem replL_natural : ∀ (l : List VExpr),
    (∀ (pid : Id) (n i skip : Nat),
      replL nm (fun i => (mn i).map ρ) (fun p i n => (ma p i n).map (fun r => (ρ r.1, r.2))) pid n i skip l =
        replL (fun k => nm (ρ k)) mn ma pid n i skip l) ∧
    (∀ (pid : Id) (k : Nat),
      replC nm (fun i => (mn i).map ρ) (fun p i n => (ma p i n).map (fun r => (ρ r.1, r.2))) pid k l =
        replC (fun k => nm (ρ k)) mn ma pid k l)
  | [] => by constructor <;> intros <;> simp only [replL, replC]
  | t :: ts => by
    constructor
    · intro pid n i skip
      simp only [replL, repl_natural t, (replL_natural ts).1]
      cases h : ma pid i n <;> simp [h]
    · intro pid k
      simp only [replC, repl_natural t, (replL_natural ts).2]
end

theorem replaceRootsM_natural : ∀ (rs : List (Option VExpr)) (k : Nat),
    replaceRootsM nm (fun i => (mn i).map ρ) (fun p i n => (ma p i n).map (fun r => (ρ r.1, r.2))) k rs =
      replaceRootsM (fun k => nm (ρ k)) mn ma k rs
  | [], k => by simp only [replaceRootsM]
  | none :: rs, k => by simp only [replaceRootsM, replaceRootsM_natural rs]
  | some r :: rs, k => by simp only [replaceRootsM, replaceRootsM_natural rs, repl_natural]
end Natural

/-! ### candidates are identified by their keys -/

def keyIdx (cands : List Cand) (k : String) : Nat := (candKeys cands).idxOf k

/-- the renumbering induced by two enumerations of the same candidates -/
def renum (c₁ c₂ : List Cand) (i : Nat) : Nat :=
  match c₁[i]? with
  | some c => keyIdx c₂ c.key
  | none => i

theorem keyIdx_cons_self (a : Cand) (as : List Cand) : keyIdx (a :: as) a.key = 0 := by
  simp [keyIdx, candKeys]

theorem keyIdx_cons_ne {a : Cand} {as : List Cand} {k : String} (h : a.key ≠ k) :
    keyIdx (a :: as) k = keyIdx as k + 1 := by
  have hb : (a.key == k) = false := by simpa using h
  simp [keyIdx, candKeys, List.idxOf_cons, hb]

theorem cand_eq_of_key : ∀ {c : List Cand}, (candKeys c).Nodup → ∀ {a b : Cand}, a ∈ c → b ∈ c → a.key = b.key → a = b
  | [], _, _, _, ha, _, _ => by cases ha
  | x :: xs, hnd, a, b, ha, hb, hk => by
    simp only [candKeys, List.map_cons, List.nodup_cons, List.mem_map, not_exists, not_and] at hnd
    rcases List.mem_cons.mp ha with rfl | ha' <;> rcases List.mem_cons.mp hb with rfl | hb'
    · rfl
    · exact absurd hk.symm (hnd.1 b hb')
    · exact absurd hk (hnd.1 a ha')
    · exact cand_eq_of_key (c := xs) hnd.2 ha' hb' hk

theorem getElem?_keyIdx : ∀ {c : List Cand}, (candKeys c).Nodup → ∀ {x : Cand}, x ∈ c → c[keyIdx c x.key]? = some x
  | [], _, _, hx => by cases hx
  | a :: as, hnd, x, hx => by
    by_cases hk : a.key = x.key
    · have := cand_eq_of_key hnd List.mem_cons_self hx hk
      subst this
      simp [keyIdx_cons_self]
    · have hx' : x ∈ as := by
        rcases List.mem_cons.mp hx with rfl | h
        · exact absurd rfl hk
        · exact h
      rw [keyIdx_cons_ne hk]
      simp only [List.getElem?_cons_succ]
      exact getElem?_keyIdx (by simpa [candKeys] using (List.nodup_cons.mp hnd).2) hx'

theorem renum_keyIdx {c₁ c₂ : List Cand} (hnd : (candKeys c₁).Nodup) {x : Cand} (hx : x ∈ c₁) :
    renum c₁ c₂ (keyIdx c₁ x.key) = keyIdx c₂ x.key := by
  simp [renum, getElem?_keyIdx hnd hx]

theorem findIdx?_eq_find? (p : Cand → Bool) : ∀ {c : List Cand}, (candKeys c).Nodup →
    c.findIdx? p = (c.find? p).map (fun x => keyIdx c x.key)
  | [], _ => by simp
  | a :: as, hnd => by
    have hnd' : (candKeys as).Nodup := by simpa [candKeys] using (List.nodup_cons.mp hnd).2
    rw [List.findIdx?_cons, List.find?_cons]
    cases hp : p a with
    | true => simp [keyIdx_cons_self]
    | false =>
      simp only [Bool.false_eq_true, if_false]
      rw [findIdx?_eq_find? p hnd']
      cases hf : as.find? p with
      | none => simp
      | some x =>
        have hx : x ∈ as := List.mem_of_find?_eq_some hf
        have hk : a.key ≠ x.key := by
          intro h
          have := (List.nodup_cons.mp hnd).1
          exact this (by simp only [candKeys, List.mem_map]; exact ⟨x, hx, h.symm⟩)
        simp [keyIdx_cons_ne hk]

/-- `UniqueIds`, as a proposition -/
def UniqueIds (cands : List Cand) : Prop :=
  ∀ a ∈ cands, ∀ b ∈ cands, ∀ o ∈ a.occs, ∀ o' ∈ b.occs, o.ids = o'.ids → a.key = b.key

theorem uniqueIds_spec {cands : List Cand} (h : uniqueIds cands = true) : UniqueIds cands := by
  intro a ha b hb o ho o' ho' hid
  simp only [uniqueIds, List.all_eq_true, Bool.or_eq_true, Bool.not_eq_true', beq_iff_eq] at h
  rcases h a ha b hb o ho o' ho' with h1 | h1
  · simp [hid] at h1
  · exact h1

/-! ### the node-level search -/

theorem matchNode_perm {c₁ c₂ : List Cand} (hp : c₁.Perm c₂) (hnd : (candKeys c₁).Nodup) (hu : UniqueIds c₁) (id : Id) :
    matchNode c₂ id = (matchNode c₁ id).map (renum c₁ c₂) := by
  have hnd₂ : (candKeys c₂).Nodup := (hp.map _).nodup_iff.mp hnd
  unfold matchNode
  rw [findIdx?_eq_find? _ hnd, findIdx?_eq_find? _ hnd₂]
  have huniq : ∀ a ∈ c₁, ∀ b ∈ c₁, (a.occs.any fun o => o.ids == [id]) = true → (b.occs.any fun o => o.ids == [id]) = true → a = b := by
    intro a ha b hb h1 h2
    simp only [List.any_eq_true, beq_iff_eq] at h1 h2
    obtain ⟨o, ho, hoi⟩ := h1
    obtain ⟨o', ho', hoi'⟩ := h2
    exact cand_eq_of_key hnd ha hb (hu a ha b hb o ho o' ho' (by rw [hoi, hoi']))
  rw [← Einx.Order.Cse.find?_perm_of_unique _ hp huniq]
  cases hf : c₁.find? (fun c => c.occs.any fun o => o.ids == [id]) with
  | none => simp
  | some x => simp [renum_keyIdx hnd (List.mem_of_find?_eq_some hf)]

/-! ### the search in the list loop: the longest exprlist that starts at a position -/

def bestStep {β : Type} (found : Option (β × Nat)) (x : β × Nat) : Option (β × Nat) :=
  match found with
  | none => some x
  | some (k, len) => if x.2 > len then some x else some (k, len)

theorem scanOccs_eq (pid : Id) (i n idx : Nat) : ∀ (os : List Occ) (found : Option (Nat × Nat)),
    scanOccs pid i n idx os found =
      ((os.filter (occMatchesAt pid i n)).map (fun o => (idx, o.ids.length))).foldl bestStep found
  | [], found => by simp [scanOccs]
  | o :: os, found => by
    simp only [scanOccs, List.filter_cons]
    cases hm : occMatchesAt pid i n o with
    | false => simp only [Bool.false_eq_true, if_false]; exact scanOccs_eq pid i n idx os found
    | true =>
      simp only [if_true, List.map_cons, List.foldl_cons]
      rw [scanOccs_eq pid i n idx os]
      congr 1
      cases found with
      | none => rfl
      | some p => obtain ⟨k, len⟩ := p; simp [bestStep]

def lensI (pid : Id) (i n : Nat) : Nat → List Cand → List (Nat × Nat)
  | _, [] => []
  | idx, c :: cs =>
    (c.occs.filter (occMatchesAt pid i n)).map (fun o => (idx, o.ids.length)) ++ lensI pid i n (idx + 1) cs

theorem scanCands_eq (pid : Id) (i n : Nat) : ∀ (cs : List Cand) (idx : Nat) (found : Option (Nat × Nat)),
    scanCands pid i n idx cs found = (lensI pid i n idx cs).foldl bestStep found
  | [], idx, found => by simp [scanCands, lensI]
  | c :: cs, idx, found => by
    simp only [scanCands, lensI, List.foldl_append]
    rw [scanCands_eq pid i n cs, scanOccs_eq]

/-- the matching exprlists with the key of their candidate -/
def lensK (pid : Id) (i n : Nat) (cs : List Cand) : List (String × Nat) :=
  cs.flatMap (fun c => (c.occs.filter (occMatchesAt pid i n)).map (fun o => (c.key, o.ids.length)))

theorem keyIdx_mid {pre cs : List Cand} {h : Cand} (hnd : (candKeys (pre ++ h :: cs)).Nodup) :
    keyIdx (pre ++ h :: cs) h.key = pre.length := by
  have hlen : pre.length < (candKeys (pre ++ h :: cs)).length := by simp [candKeys]
  have hget : (candKeys (pre ++ h :: cs))[pre.length] = h.key := by simp [candKeys]
  have := List.Nodup.idxOf_getElem hnd pre.length hlen
  rw [hget] at this
  exact this

theorem lensI_eq_lensK (pid : Id) (i n : Nat) (c : List Cand) (hnd : (candKeys c).Nodup) :
    ∀ (cs pre : List Cand), c = pre ++ cs →
      lensI pid i n pre.length cs = (lensK pid i n cs).map (fun x => (keyIdx c x.1, x.2))
  | [], pre, _ => by simp [lensI, lensK]
  | h :: cs, pre, hc => by
    have hk : keyIdx c h.key = pre.length := by subst hc; exact keyIdx_mid hnd
    have ih := lensI_eq_lensK pid i n c hnd cs (pre ++ [h]) (by simp [hc])
    simp only [List.length_append, List.length_cons, List.length_nil, Nat.zero_add] at ih
    simp only [lensI, lensK, List.flatMap_cons, List.map_append, List.map_map, ih]
    congr 1
    simp [Function.comp_def, hk]

theorem bestStep_map {β γ : Type} (f : β → γ) (found : Option (β × Nat)) (x : β × Nat) :
    bestStep (found.map (fun y => (f y.1, y.2))) (f x.1, x.2) = (bestStep found x).map (fun y => (f y.1, y.2)) := by
  cases found with
  | none => rfl
  | some p =>
    obtain ⟨k, len⟩ := p
    simp only [bestStep, Option.map_some]
    split <;> rfl

theorem foldl_bestStep_map {β γ : Type} (f : β → γ) : ∀ (l : List (β × Nat)) (found : Option (β × Nat)),
    (l.map (fun y => (f y.1, y.2))).foldl bestStep (found.map (fun y => (f y.1, y.2))) =
      (l.foldl bestStep found).map (fun y => (f y.1, y.2))
  | [], found => rfl
  | x :: l, found => by
    simp only [List.map_cons, List.foldl_cons, bestStep_map]
    exact foldl_bestStep_map f l _

theorem matchAt_eq (c : List Cand) (hnd : (candKeys c).Nodup) (pid : Id) (i n : Nat) :
    matchAt c pid i n = ((lensK pid i n c).foldl bestStep none).map (fun x => (keyIdx c x.1, x.2)) := by
  unfold matchAt
  rw [scanCands_eq]
  have := lensI_eq_lensK pid i n c hnd c [] rfl
  simp only [List.length_nil] at this
  rw [this]
  exact foldl_bestStep_map (keyIdx c) _ none

theorem foldl_best_some {β : Type} : ∀ (l : List (β × Nat)) (x : β × Nat),
    ∃ y, l.foldl bestStep (some x) = some y ∧ y ∈ x :: l ∧ ∀ z ∈ x :: l, z.2 ≤ y.2
  | [], x => ⟨x, rfl, List.mem_cons_self, fun z hz => by simp at hz; rw [hz]; exact Nat.le_refl _⟩
  | a :: l, x => by
    simp only [List.foldl_cons]
    by_cases h : a.2 > x.2
    · have hs : bestStep (some x) a = some a := by simp [bestStep, h]
      rw [hs]
      obtain ⟨y, h1, h2, h3⟩ := foldl_best_some l a
      refine ⟨y, h1, List.mem_cons_of_mem _ h2, fun z hz => ?_⟩
      rcases List.mem_cons.mp hz with rfl | hz'
      · have := h3 a List.mem_cons_self; omega
      · exact h3 z hz'
    · have hs : bestStep (some x) a = some x := by simp [bestStep, h]
      rw [hs]
      obtain ⟨y, h1, h2, h3⟩ := foldl_best_some l x
      refine ⟨y, h1, ?_, fun z hz => ?_⟩
      · rcases List.mem_cons.mp h2 with rfl | h2'
        · exact List.mem_cons_self
        · exact List.mem_cons_of_mem _ (List.mem_cons_of_mem _ h2')
      · rcases List.mem_cons.mp hz with rfl | hz'
        · exact h3 _ List.mem_cons_self
        · rcases List.mem_cons.mp hz' with rfl | hz''
          · have := h3 x List.mem_cons_self; omega
          · exact h3 z (List.mem_cons_of_mem _ hz'')

theorem best_spec {β : Type} (l : List (β × Nat)) :
    (l = [] ∧ l.foldl bestStep none = none) ∨
      ∃ y, l.foldl bestStep none = some y ∧ y ∈ l ∧ ∀ z ∈ l, z.2 ≤ y.2 := by
  cases l with
  | nil => exact Or.inl ⟨rfl, rfl⟩
  | cons x l =>
    right
    simp only [List.foldl_cons]
    exact foldl_best_some l x

/-- the longest element is the same for every order when elements of equal length have equal labels -/
theorem best_perm {β : Type} {l₁ l₂ : List (β × Nat)} (hp : l₁.Perm l₂)
    (hu : ∀ a ∈ l₁, ∀ b ∈ l₁, a.2 = b.2 → a.1 = b.1) : l₁.foldl bestStep none = l₂.foldl bestStep none := by
  rcases best_spec l₁ with ⟨h1, _⟩ | ⟨y₁, e₁, m₁, x₁⟩
  · subst h1; rw [hp.nil_eq]
  · rcases best_spec l₂ with ⟨h2, _⟩ | ⟨y₂, e₂, m₂, x₂⟩
    · subst h2; have := hp.eq_nil; subst this; cases m₁
    · have h12 := x₂ y₁ (hp.mem_iff.mp m₁)
      have h21 := x₁ y₂ (hp.mem_iff.mpr m₂)
      have hlen : y₁.2 = y₂.2 := by omega
      have := hu y₁ m₁ y₂ (hp.mem_iff.mpr m₂) hlen
      rw [e₁, e₂]
      congr 1
      exact Prod.ext this hlen

theorem occMatchesAt_ids {pid : Id} {i n : Nat} {o : Occ} (h : occMatchesAt pid i n o = true) :
    o.ids = (List.range o.ids.length).map (fun j => pid ++ [i + j]) := by
  simp only [occMatchesAt, Bool.and_eq_true, beq_iff_eq] at h
  exact h.2

theorem mem_lensK {pid : Id} {i n : Nat} {cs : List Cand} {x : String × Nat} (h : x ∈ lensK pid i n cs) :
    ∃ c ∈ cs, ∃ o ∈ c.occs, occMatchesAt pid i n o = true ∧ x = (c.key, o.ids.length) := by
  simp only [lensK, List.mem_flatMap, List.mem_map, List.mem_filter] at h
  obtain ⟨c, hc, o, ⟨ho, hm⟩, rfl⟩ := h
  exact ⟨c, hc, o, ho, hm, rfl⟩

theorem matchAt_perm {c₁ c₂ : List Cand} (hp : c₁.Perm c₂) (hnd : (candKeys c₁).Nodup) (hu : UniqueIds c₁)
    (pid : Id) (i n : Nat) :
    matchAt c₂ pid i n = (matchAt c₁ pid i n).map (fun r => (renum c₁ c₂ r.1, r.2)) := by
  have hnd₂ : (candKeys c₂).Nodup := (hp.map _).nodup_iff.mp hnd
  rw [matchAt_eq c₁ hnd, matchAt_eq c₂ hnd₂]
  have hperm : (lensK pid i n c₁).Perm (lensK pid i n c₂) := hp.flatMap_right _
  have huniq : ∀ a ∈ lensK pid i n c₁, ∀ b ∈ lensK pid i n c₁, a.2 = b.2 → a.1 = b.1 := by
    intro a ha b hb hab
    obtain ⟨ca, hca, oa, hoa, hma, rfl⟩ := mem_lensK ha
    obtain ⟨cb, hcb, ob, hob, hmb, rfl⟩ := mem_lensK hb
    simp only at hab
    apply hu ca hca cb hcb oa hoa ob hob
    rw [occMatchesAt_ids hma, occMatchesAt_ids hmb, hab]
  rw [← best_perm hperm huniq]
  rcases best_spec (lensK pid i n c₁) with ⟨_, h0⟩ | ⟨y, e, m, _⟩
  · simp [h0]
  · obtain ⟨c, hc, o, _, _, rfl⟩ := mem_lensK m
    simp [e, renum_keyIdx hnd hc]

/-! ### the keys of the candidates are pairwise different -/

theorem candKeys_insertEntry (k : String) (o : Occ) : ∀ g : List Cand,
    candKeys (insertEntry k o g) = if k ∈ candKeys g then candKeys g else candKeys g ++ [k]
  | [] => by simp [insertEntry, candKeys]
  | c :: rest => by
    simp only [insertEntry]
    by_cases h : c.key = k
    · simp [h, candKeys]
    · have hb : (c.key == k) = false := by simpa using h
      have ih := candKeys_insertEntry k o rest
      simp only [candKeys] at ih
      simp only [hb, Bool.false_eq_true, if_false, candKeys, List.map_cons, List.mem_cons, ih]
      have hk : ¬ k = c.key := fun e => h e.symm
      by_cases hm : k ∈ List.map (fun x => x.key) rest <;> simp [hm, hk]

theorem nodup_insertEntry (k : String) (o : Occ) (g : List Cand) (h : (candKeys g).Nodup) :
    (candKeys (insertEntry k o g)).Nodup := by
  rw [candKeys_insertEntry]
  split
  · exact h
  · rename_i hk
    rw [List.nodup_append]
    exact ⟨h, by simp, fun a ha b hb => by simp at hb; subst hb; exact fun e => hk (e ▸ ha)⟩

theorem nodup_groupEntries (es : List (String × Occ)) : (candKeys (groupEntries es)).Nodup := by
  unfold groupEntries
  suffices ∀ (es : List (String × Occ)) (g : List Cand), (candKeys g).Nodup →
      (candKeys (es.foldl (fun g e => insertEntry e.1 e.2 g) g)).Nodup from this es [] (by simp [candKeys])
  intro es
  induction es with
  | nil => intro g h; exact h
  | cons e es ih => intro g h; exact ih _ (nodup_insertEntry e.1 e.2 g h)

theorem nodup_filter_keys (p : Cand → Bool) {g : List Cand} (h : (candKeys g).Nodup) : (candKeys (g.filter p)).Nodup :=
  h.sublist (List.Sublist.map _ List.filter_sublist)

theorem nodup_selectFrom (opts : Opts) (roots : List (Option VExpr)) {g : List Cand} (h : (candKeys g).Nodup) :
    (candKeys (selectFrom opts roots g)).Nodup := by
  unfold selectFrom
  simp only
  repeat apply nodup_filter_keys
  have : candKeys (List.map (fun c => ({ c with occs := dedupe [] c.occs } : Cand))
      (List.filter (usedOnlyInside (allAxes 0 roots)) g)) = candKeys (List.filter (usedOnlyInside (allAxes 0 roots)) g) := by
    simp [candKeys, List.map_map, Function.comp_def]
  rw [this]
  exact nodup_filter_keys _ h

theorem nodup_candidates (opts : Opts) (roots : List (Option VExpr)) : (candKeys (candidates opts roots)).Nodup :=
  nodup_selectFrom opts roots (nodup_groupEntries _)

/-! ### the renumbering is a bijection of the candidate indices -/

theorem renum_lt {c₁ c₂ : List Cand} (hp : c₁.Perm c₂) {i : Nat} (hi : i < c₁.length) : renum c₁ c₂ i < c₁.length := by
  have hx : c₁[i]? = some c₁[i] := List.getElem?_eq_getElem hi
  simp only [renum, hx, keyIdx]
  rw [hp.length_eq, show c₂.length = (candKeys c₂).length by simp [candKeys]]
  apply List.idxOf_lt_length_of_mem
  have : c₁[i] ∈ c₂ := hp.mem_iff.mp (List.getElem_mem hi)
  simp only [candKeys, List.mem_map]
  exact ⟨_, this, rfl⟩

theorem renum_inj {c₁ c₂ : List Cand} (hp : c₁.Perm c₂) (hnd : (candKeys c₁).Nodup) {i j : Nat}
    (hi : i < c₁.length) (hj : j < c₁.length) (h : renum c₁ c₂ i = renum c₁ c₂ j) : i = j := by
  have hx : c₁[i]? = some c₁[i] := List.getElem?_eq_getElem hi
  have hy : c₁[j]? = some c₁[j] := List.getElem?_eq_getElem hj
  simp only [renum, hx, hy, keyIdx] at h
  have hmi : c₁[i].key ∈ candKeys c₂ := by
    simp only [candKeys, List.mem_map]; exact ⟨_, hp.mem_iff.mp (List.getElem_mem hi), rfl⟩
  have hmj : c₁[j].key ∈ candKeys c₂ := by
    simp only [candKeys, List.mem_map]; exact ⟨_, hp.mem_iff.mp (List.getElem_mem hj), rfl⟩
  have hk : c₁[i].key = c₁[j].key := by
    have e1 := List.getElem_idxOf (List.idxOf_lt_length_of_mem hmi)
    have e2 := List.getElem_idxOf (List.idxOf_lt_length_of_mem hmj)
    rw [← e1, ← e2]
    simp only [h]
  have hi' : i < (candKeys c₁).length := by simpa [candKeys] using hi
  have hj' : j < (candKeys c₁).length := by simpa [candKeys] using hj
  have hk' : (candKeys c₁)[i] = (candKeys c₁)[j] := by simpa [candKeys] using hk
  exact (List.getElem_inj hnd).mp hk'

end Einx.Solve.CseT
