import EinxModel.Registry.Concurrent
/-! Helper lemmas and the simulation invariant for C10 (property theorems are in `Props/C10.lean`). -/
namespace Einx.Registry.Conc
open Einx.Registry

/-! ### Sequential model facts -/

theorem runOps_append (rc : Cfg) (w : World) (a b : List Op) :
    runOps rc w (a ++ b) =
      ((runOps rc (runOps rc w a).1 b).1, (runOps rc w a).2 ++ (runOps rc (runOps rc w a).1 b).2) := by
  induction a generalizing w with
  | nil => simp [runOps]
  | cons x xs ih => simp [runOps, ih]

theorem runOps_single (rc : Cfg) (w : World) (op : Op) :
    runOps rc w [op] = ((step rc w op).1, [(step rc w op).2]) := by
  simp [runOps]

/-- A method that raises leaves the registry untouched. -/
theorem step_error_unchanged (rc : Cfg) (w : World) (op : Op) (e : Err)
    (h : (step rc w op).2 = .error e) : (step rc w op).1 = w := by
  cases op <;> simp only [step] at h ⊢ <;> (try (split at h <;> simp_all)) <;> simp_all

/-- Registry methods do not touch `sys.modules`. -/
theorem step_mods (rc : Cfg) (w : World) (op : Op) (h : isEnv op = false) : (step rc w op).1.mods = w.mods := by
  cases op <;> simp only [step, isEnv] at h ⊢ <;> (try split) <;> simp_all

/-- A module import does not touch the registry and cannot fail. -/
theorem step_env (rc : Cfg) (w : World) (op : Op) (h : isEnv op = true) :
    (step rc w op).1.st = w.st ∧ (step rc w op).2 = .unit := by
  cases op <;> simp_all [step, isEnv]

theorem locks_of_allLocked (lc : LockCfg) (h : lc.allLocked = true) (op : Op) (he : isEnv op = false) :
    lc.locks op = true := by
  simp only [LockCfg.allLocked, Bool.and_eq_true] at h
  cases op <;> simp_all [LockCfg.locks, isEnv]

/-! ### Histories -/

theorem opsOf_append (j i : Nat) (h : List (Nat × Op × Out)) (op : Op) (o : Out) :
    opsOf j (h ++ [(i, op, o)]) = if i = j then opsOf j h ++ [op] else opsOf j h := by
  by_cases hij : i = j <;> simp [opsOf, List.filter_append, hij]

theorem outsOf_append (j i : Nat) (h : List (Nat × Op × Out)) (op : Op) (o : Out) :
    outsOf j (h ++ [(i, op, o)]) = if i = j then outsOf j h ++ [o] else outsOf j h := by
  by_cases hij : i = j <;> simp [outsOf, List.filter_append, hij]

theorem getElem?_set_cases {α} (l : List α) (i j : Nat) (x y : α) (h : (l.set i x)[j]? = some y) :
    (j = i ∧ y = x) ∨ (j ≠ i ∧ l[j]? = some y) := by
  rw [List.getElem?_set] at h
  by_cases hij : i = j
  · subst hij
    simp only [↓reduceIte] at h
    split at h <;> simp_all
  · simp only [hij, ↓reduceIte] at h
    exact .inr ⟨fun e => hij e.symm, h⟩

/-! ### The invariant -/

structure ThreadInv (progs : List (List Op)) (c : Conf) (i : Nat) (th : Thread) : Prop where
  /-- committed calls followed by the remaining program are the thread's program -/
  prog : progs[i]? = some (opsOf i c.lin ++ th.prog)
  outs : th.outs = outsOf i c.lin
  /-- a thread inside a method owns the lock -/
  owns : th.pc ≠ .idle → c.lock = some i
  /-- the snapshot of a thread between read and store is the current shared state -/
  snap : ∀ s, th.pc = .read s → s = c.st
  busy : th.pc ≠ .idle → th.pc ≠ .releasing → th.prog ≠ []

structure Inv (rc : Cfg) (w0 : World) (progs : List (List Op)) (c : Conf) : Prop where
  len : c.threads.length = progs.length
  /-- the shared world is the result of the serial run of the committed calls, with the same outcomes -/
  serial : runOps rc w0 (c.lin.map (·.2.1)) = (⟨c.st, c.mods⟩, c.lin.map (·.2.2))
  tids : ∀ e ∈ c.lin, e.1 < progs.length
  thr : ∀ i th, c.threads[i]? = some th → ThreadInv progs c i th
  owner : ∀ i, c.lock = some i → ∃ th, c.threads[i]? = some th ∧ th.pc ≠ .idle

theorem inv_init (rc : Cfg) (w0 : World) (progs : List (List Op)) : Inv rc w0 progs (init w0 progs) := by
  refine ⟨by simp [init], by simp [init, runOps], by simp [init], ?_, by simp [init]⟩
  intro i th h
  simp only [init, List.getElem?_map, Option.map_eq_some_iff] at h
  obtain ⟨p, hp, rfl⟩ := h
  exact ⟨by simp [init, opsOf, hp], by simp [init, outsOf], by simp, by simp, by simp⟩

/-- A step that only moves thread `i`'s program counter (and possibly the lock). -/
theorem inv_pc_update {rc : Cfg} {w0 : World} {progs : List (List Op)} {c : Conf} (h : Inv rc w0 progs c)
    (i : Nat) (th : Thread) (hi : c.threads[i]? = some th) (pc' : PC) (lock' : Option Nat)
    (hown : pc' ≠ .idle → lock' = some i)
    (hsnap : ∀ s, pc' = .read s → s = c.st)
    (hbusy : pc' ≠ .idle → pc' ≠ .releasing → th.prog ≠ [])
    (hothers : ∀ j thj, j ≠ i → c.threads[j]? = some thj → thj.pc = .idle)
    (hlock : ∀ k, lock' = some k → k = i ∧ pc' ≠ .idle) :
    Inv rc w0 progs { c with lock := lock', threads := c.threads.set i { th with pc := pc' } } := by
  have hlt : i < c.threads.length := by
    rcases Nat.lt_or_ge i c.threads.length with h' | h'
    · exact h'
    · rw [List.getElem?_eq_none h'] at hi; cases hi
  refine ⟨by simpa using h.len, h.serial, h.tids, ?_, ?_⟩
  · intro j thj hj
    rcases getElem?_set_cases _ _ _ _ _ hj with ⟨rfl, rfl⟩ | ⟨hne, hj'⟩
    · have t := h.thr j th hi
      exact ⟨t.prog, t.outs, hown, hsnap, hbusy⟩
    · have t := h.thr j thj hj'
      have hidle := hothers j thj hne hj'
      exact ⟨t.prog, t.outs, by simp [hidle], by simp [hidle], by simp [hidle]⟩
  · intro k hk
    obtain ⟨rfl, hp⟩ := hlock k hk
    exact ⟨{ th with pc := pc' }, by simp [hlt], hp⟩

/-- While some thread owns the lock, every other thread is idle. -/
theorem others_idle {rc : Cfg} {w0 : World} {progs : List (List Op)} {c : Conf} (h : Inv rc w0 progs c)
    (i : Nat) (hl : c.lock = some i ∨ c.lock = none) :
    ∀ j thj, j ≠ i → c.threads[j]? = some thj → thj.pc = .idle := by
  intro j thj hne hj
  by_cases hp : thj.pc = .idle
  · exact hp
  · have := (h.thr j thj hj).owns hp
    rcases hl with hl | hl <;> simp_all

/-- The store step. -/
theorem inv_commit {rc : Cfg} {w0 : World} {progs : List (List Op)} {c : Conf} (h : Inv rc w0 progs c)
    (i : Nat) (th : Thread) (hi : c.threads[i]? = some th) (op : Op) (rest : List Op) (hprog : th.prog = op :: rest)
    (pc' : PC) (hpc : pc' = .idle ∨ pc' = .releasing)
    (hown : pc' ≠ .idle → c.lock = some i)
    (hlock : ∀ k, c.lock = some k → k = i ∧ pc' ≠ .idle)
    (hothers : ∀ j thj, j ≠ i → c.threads[j]? = some thj → thj.pc = .idle) :
    Inv rc w0 progs (commit rc c i th c.st op rest pc') := by
  have hlt : i < c.threads.length := by
    rcases Nat.lt_or_ge i c.threads.length with h' | h'
    · exact h'
    · rw [List.getElem?_eq_none h'] at hi; cases hi
  have ti := h.thr i th hi
  -- the stored state is the sequential successor of the current shared world
  have hst : (commit rc c i th c.st op rest pc').st = (step rc ⟨c.st, c.mods⟩ op).1.st := by
    simp only [commit]
    split
    · rename_i e he
      rw [step_error_unchanged rc ⟨c.st, c.mods⟩ op e he]
    · rfl
  refine ⟨by simpa [commit] using h.len, ?_, ?_, ?_, ?_⟩
  · have : (commit rc c i th c.st op rest pc').lin = c.lin ++ [(i, op, (step rc ⟨c.st, c.mods⟩ op).2)] := rfl
    rw [this, List.map_append, runOps_append, h.serial]
    simp only [List.map_cons, List.map_nil, runOps_single, List.map_append]
    congr 1
    have hm : (commit rc c i th c.st op rest pc').mods = (step rc ⟨c.st, c.mods⟩ op).1.mods := rfl
    rw [hst, hm]
  · intro e he
    simp only [commit, List.mem_append, List.mem_singleton] at he
    rcases he with he | rfl
    · exact h.tids e he
    · simpa [h.len] using hlt
  · intro j thj hj
    simp only [commit] at hj
    rcases getElem?_set_cases _ _ _ _ _ hj with ⟨rfl, rfl⟩ | ⟨hne, hj'⟩
    · refine ⟨?_, ?_, ?_, ?_, ?_⟩
      · simp only [commit, opsOf_append, ↓reduceIte]
        rw [ti.prog, hprog]; simp
      · simp only [commit, outsOf_append, ↓reduceIte, ti.outs]
      · intro hp; simpa [commit] using hown hp
      · intro s hs; rcases hpc with rfl | rfl <;> cases hs
      · intro h1 h2; rcases hpc with rfl | rfl <;> simp_all
    · have t := h.thr j thj hj'
      have hidle := hothers j thj hne hj'
      have hji : ¬ i = j := fun e => hne e.symm
      refine ⟨?_, ?_, by simp [hidle], by simp [hidle], by simp [hidle]⟩
      · simp only [commit, opsOf_append, hji, ↓reduceIte]; exact t.prog
      · simp only [commit, outsOf_append, hji, ↓reduceIte]; exact t.outs
  · intro k hk
    simp only [commit] at hk
    obtain ⟨rfl, hp⟩ := hlock k hk
    exact ⟨{ pc := pc', prog := rest, outs := th.outs ++ [(step rc ⟨c.st, c.mods⟩ op).2] },
      by simp [commit, hlt], hp⟩

/-- **Simulation step**: with every method locked, each micro step preserves the invariant. -/
theorem inv_step {rc : Cfg} {lc : LockCfg} (hl : lc.allLocked = true) {w0 : World} {progs : List (List Op)}
    {c c' : Conf} (h : Inv rc w0 progs c) (i : Nat) (hs : stepThread rc lc c i = some c') :
    Inv rc w0 progs c' := by
  unfold stepThread at hs
  split at hs
  · cases hs
  · rename_i th hi
    have ti := h.thr i th hi
    split at hs
    · -- idle
      rename_i hpc
      split at hs
      · cases hs
      · rename_i op rest hprog
        by_cases he : isEnv op = true
        · simp only [he, ↓reduceIte, Option.some.injEq] at hs
          subst hs
          -- an import commits atomically; nobody holds a snapshot that it could invalidate
          cases hlk : c.lock with
          | none =>
            exact inv_commit h i th hi op rest hprog .idle (.inl rfl) (by simp) (by simp [hlk])
              (others_idle h i (.inr hlk))
          | some k =>
            -- the owner `k` is some other thread; the import does not change `st`, so re-establish directly
            obtain ⟨thk, hk, hkp⟩ := h.owner k hlk
            have hki : k ≠ i := by
              rintro rfl
              rw [hi] at hk; cases hk; exact hkp hpc
            have hlt : i < c.threads.length := by
              rcases Nat.lt_or_ge i c.threads.length with h' | h'
              · exact h'
              · rw [List.getElem?_eq_none h'] at hi; cases hi
            have hst : (commit rc c i th c.st op rest .idle).st = c.st := by
              simp only [commit, (step_env rc ⟨c.st, c.mods⟩ op he).2]
              exact (step_env rc ⟨c.st, c.mods⟩ op he).1
            have hst' : (step rc ⟨c.st, c.mods⟩ op).1.st = c.st := (step_env rc ⟨c.st, c.mods⟩ op he).1
            refine ⟨by simpa [commit] using h.len, ?_, ?_, ?_, ?_⟩
            · have : (commit rc c i th c.st op rest .idle).lin = c.lin ++ [(i, op, (step rc ⟨c.st, c.mods⟩ op).2)] := rfl
              rw [this, List.map_append, runOps_append, h.serial]
              simp only [List.map_cons, List.map_nil, runOps_single, List.map_append]
              congr 1
              have hm : (commit rc c i th c.st op rest .idle).mods = (step rc ⟨c.st, c.mods⟩ op).1.mods := rfl
              rw [hst, hm]
              generalize (step rc ⟨c.st, c.mods⟩ op).1 = w at hst'
              cases w; simp_all
            · intro e he'
              simp only [commit, List.mem_append, List.mem_singleton] at he'
              rcases he' with he' | rfl
              · exact h.tids e he'
              · simpa [h.len] using hlt
            · intro j thj hj
              simp only [commit] at hj
              rcases getElem?_set_cases _ _ _ _ _ hj with ⟨rfl, rfl⟩ | ⟨hne, hj'⟩
              · refine ⟨?_, ?_, by simp, by simp, by simp⟩
                · simp only [commit, opsOf_append, ↓reduceIte]
                  rw [ti.prog, hprog]; simp
                · simp only [commit, outsOf_append, ↓reduceIte, ti.outs]
              · have t := h.thr j thj hj'
                have hji : ¬ i = j := fun e => hne e.symm
                refine ⟨?_, ?_, ?_, ?_, t.busy⟩
                · simp only [commit, opsOf_append, hji, ↓reduceIte]; exact t.prog
                · simp only [commit, outsOf_append, hji, ↓reduceIte]; exact t.outs
                · intro hp; simpa [commit] using t.owns hp
                · intro s hs; rw [hst]; exact t.snap s hs
            · intro k' hk'
              simp only [commit] at hk'
              obtain ⟨thk', hk'', hkp'⟩ := h.owner k' hk'
              have hk'i : k' ≠ i := by
                rintro rfl
                rw [hi] at hk''; cases hk''; exact hkp' hpc
              have hne : ¬ i = k' := fun e => hk'i e.symm
              exact ⟨thk', by simp [commit, hne, hk''], hkp'⟩
        · have he' : isEnv op = false := by simpa using he
          simp only [he', Bool.false_eq_true, ↓reduceIte, locks_of_allLocked lc hl op he'] at hs
          split at hs
          · rename_i hlk
            simp only [Option.some.injEq] at hs
            subst hs
            exact inv_pc_update h i th hi .acquired (some i) (by simp) (by simp) (by simp [hprog])
              (others_idle h i (.inr hlk)) (by simp)
          · cases hs
    · -- acquired
      rename_i hpc
      simp only [Option.some.injEq] at hs
      subst hs
      have hown := ti.owns (by simp [hpc])
      have := inv_pc_update h i th hi (.read c.st) c.lock (by simp [hown]) (by simp)
        (fun _ _ => ti.busy (by simp [hpc]) (by simp [hpc])) (others_idle h i (.inl hown)) (by simp [hown])
      simpa using this
    · -- read snap
      rename_i snap hpc
      split at hs
      · cases hs
      · rename_i op rest hprog
        simp only [Option.some.injEq] at hs
        subst hs
        have hown := ti.owns (by simp [hpc])
        have hsn := ti.snap snap hpc
        subst hsn
        simp only [hown, ↓reduceIte]
        exact inv_commit h i th hi op rest hprog .releasing (.inr rfl) (fun _ => hown) (by simp [hown])
          (others_idle h i (.inl hown))
    · -- releasing
      rename_i hpc
      simp only [Option.some.injEq] at hs
      subst hs
      have hown := ti.owns (by simp [hpc])
      exact inv_pc_update h i th hi .idle none (by simp) (by simp) (by simp) (others_idle h i (.inl hown)) (by simp)

theorem inv_run {rc : Cfg} {lc : LockCfg} (hl : lc.allLocked = true) {w0 : World} {progs : List (List Op)}
    (sched : List Nat) {c : Conf} (h : Inv rc w0 progs c) : Inv rc w0 progs (run rc lc c sched) := by
  induction sched generalizing c with
  | nil => exact h
  | cons i rest ih =>
    simp only [run, List.foldl_cons]
    cases hs : stepThread rc lc c i with
    | none => exact ih h
    | some c' => exact ih (inv_step hl h i hs)

/-! ### Completeness of the enumeration of serial orders -/

theorem sum_lengths_set (ps : List (List Op)) (i : Nat) (op : Op) (rest : List Op) (h : ps[i]? = some (op :: rest)) :
    ((ps.set i rest).map List.length).sum + 1 = (ps.map List.length).sum := by
  induction ps generalizing i with
  | nil => simp at h
  | cons p ps ih =>
    cases i with
    | zero => simp at h; subst h; simp; omega
    | succ i =>
      simp at h
      have := ih i h
      simp only [List.set_cons_succ, List.map_cons, List.sum_cons]
      omega

/-- Every merge of the programs is enumerated by `interleave` (given enough fuel). -/
theorem interleave_complete (fuel : Nat) (ps : List (List Op)) (o : List (Nat × Op))
    (hf : (ps.map List.length).sum ≤ fuel)
    (hproj : ∀ i p, ps[i]? = some p → (o.filter (·.1 == i)).map (·.2) = p)
    (htid : ∀ e ∈ o, e.1 < ps.length) : o ∈ interleave fuel ps := by
  induction o generalizing fuel ps with
  | nil =>
    have hall : ps.all List.isEmpty = true := by
      rw [List.all_eq_true]
      intro p hp
      obtain ⟨i, hlt, rfl⟩ := List.mem_iff_getElem.mp hp
      have := hproj i _ (List.getElem?_eq_getElem hlt)
      simp at this
      simp [← this]
    cases fuel with
    | zero => simp [interleave]
    | succ f => simp [interleave, hall]
  | cons e o ih =>
    obtain ⟨i, op⟩ := e
    have hi : i < ps.length := htid (i, op) (by simp)
    have hpi := hproj i _ (List.getElem?_eq_getElem hi)
    simp only [List.filter_cons, beq_self_eq_true, ↓reduceIte, List.map_cons] at hpi
    have hget : ps[i]? = some (op :: (o.filter (·.1 == i)).map (·.2)) := by
      rw [List.getElem?_eq_getElem hi, hpi]
    have hsum := sum_lengths_set ps i op _ hget
    cases fuel with
    | zero => omega
    | succ f =>
      have hne : ps.all List.isEmpty = false := by
        rw [Bool.eq_false_iff]
        intro hall
        have := List.all_eq_true.mp hall _ (List.getElem_mem hi)
        rw [← hpi] at this; simp at this
      simp only [interleave, hne, Bool.false_eq_true, ↓reduceIte, List.mem_flatMap, List.mem_range]
      refine ⟨i, hi, ?_⟩
      rw [hget]
      simp only [List.mem_map]
      refine ⟨o, ?_, rfl⟩
      apply ih
      · omega
      · intro j p hj
        rw [List.getElem?_set] at hj
        by_cases hij : i = j
        · subst hij
          simp only [↓reduceIte, hi] at hj
          exact (Option.some.inj hj)
        · simp only [hij, ↓reduceIte] at hj
          have := hproj j p hj
          have hji : (i == j) = false := by simpa using hij
          simpa [List.filter_cons, hji] using this
      · intro e' he'
        simpa using htid e' (List.mem_cons_of_mem _ he')

/-! ### Progress measure -/

/-- Micro steps a thread still has to make (4 per pending call, fewer once a call is under way). -/
def Thread.measure (th : Thread) : Nat :=
  4 * th.prog.length + (match th.pc with
    | .idle => 3
    | .acquired => 2
    | .read _ => 1
    | .releasing => 4)

def Conf.measure (c : Conf) : Nat := (c.threads.map Thread.measure).sum

theorem sum_set_lt (l : List Thread) (i : Nat) (th x : Thread) (hi : l[i]? = some th) (hx : x.measure < th.measure) :
    ((l.set i x).map Thread.measure).sum < (l.map Thread.measure).sum := by
  induction l generalizing i with
  | nil => simp at hi
  | cons a l ih =>
    cases i with
    | zero => simp at hi; subst hi; simp; omega
    | succ i =>
      simp at hi
      have := ih i hi
      simp only [List.set_cons_succ, List.map_cons, List.sum_cons]
      omega

/-- Every micro step strictly decreases the measure (so every execution is finite). -/
theorem step_measure_lt {rc : Cfg} {lc : LockCfg} {c c' : Conf} (i : Nat) (hs : stepThread rc lc c i = some c') :
    c'.measure < c.measure := by
  unfold stepThread at hs
  split at hs
  · cases hs
  · rename_i th hi
    split at hs
    · rename_i hpc
      split at hs
      · cases hs
      · rename_i op rest hprog
        split at hs
        · cases hs
          exact sum_set_lt _ i th _ hi (by simp [Thread.measure, hpc, hprog])
        · split at hs
          · split at hs
            · cases hs
              exact sum_set_lt _ i th _ hi (by simp [Thread.measure, hpc])
            · cases hs
          · cases hs
            exact sum_set_lt _ i th _ hi (by simp [Thread.measure, hpc])
    · rename_i hpc
      cases hs
      exact sum_set_lt _ i th _ hi (by simp [Thread.measure, hpc])
    · rename_i snap hpc
      split at hs
      · cases hs
      · rename_i op rest hprog
        cases hs
        refine sum_set_lt _ i th _ hi ?_
        simp only [Thread.measure, hpc, hprog, List.length_cons]
        split <;> omega
    · rename_i hpc
      cases hs
      exact sum_set_lt _ i th _ hi (by simp [Thread.measure, hpc])

theorem run_append (rc : Cfg) (lc : LockCfg) (c : Conf) (a b : List Nat) :
    run rc lc c (a ++ b) = run rc lc (run rc lc c a) b := by
  simp [run, List.foldl_append]

end Einx.Registry.Conc
