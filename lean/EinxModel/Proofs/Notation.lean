import EinxModel.Notation.Parse
/-!
# Helper lemmas for C12: caret positions of every error of `parseOp` lie inside the caller's string
-/
namespace Einx.Notation

/-- A caret position inside a string of length `n`. -/
def InR (n : Nat) (p : Int) : Prop := 0 ≤ p ∧ p < n

/-- `range(b, e)` is empty or inside `[0, n)`. -/
def RangeOK (n : Nat) (b e : Int) : Prop := e ≤ b ∨ (0 ≤ b ∧ e ≤ n)

/-- Both carets `[b, e-1]` of a bracket pair are inside the string. -/
def BrOK (n : Nat) (b e : Int) : Prop := 0 ≤ b ∧ b < n ∧ 1 ≤ e ∧ e ≤ n

theorem mem_posRange {b e p : Int} : p ∈ posRange b e ↔ b ≤ p ∧ p < e := by
  simp only [posRange, List.mem_map, List.mem_range]
  constructor
  · rintro ⟨i, hi, rfl⟩
    simp only [Int.ofNat_eq_natCast]
    omega
  · intro ⟨h1, h2⟩
    refine ⟨(p - b).toNat, by omega, ?_⟩
    simp only [Int.ofNat_eq_natCast]
    omega

theorem posRange_inR {n : Nat} {b e : Int} (h : RangeOK n b e) : ∀ p ∈ posRange b e, InR n p := by
  intro p hp
  have := mem_posRange.mp hp
  unfold InR
  rcases h with h | h <;> omega

theorem BrOK.range {n : Nat} {b e : Int} (h : BrOK n b e) : RangeOK n b e := by
  unfold BrOK at h; unfold RangeOK; omega

mutual
def ExprOK (n : Nat) : Expr → Prop
  | .axis _ _ b e => RangeOK n b e
  | .flat i b e => RangeOK n b e ∧ ExprOK n i
  | .brackets i b e => BrOK n b e ∧ ExprOK n i
  | .ellipsis i _ b e => RangeOK n b e ∧ ExprOK n i
  | .concat cs b e => RangeOK n b e ∧ ExprOKL n cs
  | .list cs b e => RangeOK n b e ∧ ExprOKL n cs
  | .args cs b e => RangeOK n b e ∧ ExprOKL n cs
  | .op cs b e => RangeOK n b e ∧ ExprOKL n cs
def ExprOKL (n : Nat) : List Expr → Prop
  | [] => True
  | c :: cs => ExprOK n c ∧ ExprOKL n cs
end

theorem exprOKL_iff {n : Nat} {cs : List Expr} : ExprOKL n cs ↔ ∀ c ∈ cs, ExprOK n c := by
  induction cs with
  | nil => simp [ExprOKL]
  | cons c cs ih => simp [ExprOKL, ih]

theorem ExprOK.range {n : Nat} {x : Expr} (h : ExprOK n x) : RangeOK n x.b x.e := by
  cases x <;> simp only [ExprOK] at h <;> simp only [Expr.b, Expr.e]
  · exact h
  · exact h.1
  · exact h.1.range
  · exact h.1
  · exact h.1
  · exact h.1
  · exact h.1
  · exact h.1

theorem ExprOK.children {n : Nat} {x : Expr} (h : ExprOK n x) : ∀ c ∈ x.children, ExprOK n c := by
  cases x <;> simp only [ExprOK] at h <;> simp only [Expr.children]
  · simp
  · simpa using h.2
  · simpa using h.2
  · simpa using h.2
  · exact exprOKL_iff.mp h.2
  · exact exprOKL_iff.mp h.2
  · exact exprOKL_iff.mp h.2
  · exact exprOKL_iff.mp h.2

theorem rangeOK_neg1 (n : Nat) : RangeOK n (-1) (-1) := Or.inl (Int.le_refl _)

theorem emptyList_ok (n : Nat) : ExprOK n emptyList := by
  simp [emptyList, ExprOK, ExprOKL, rangeOK_neg1]

theorem mkFlat_ok {n : Nat} {i : Expr} {b e : Int} (hi : ExprOK n i) (h : RangeOK n b e) : ExprOK n (mkFlat i b e) := by
  unfold mkFlat
  split
  · exact hi
  · exact ⟨h, hi⟩

theorem mkBrackets_ok {n : Nat} {i : Expr} {b e : Int} (hi : ExprOK n i) (h : BrOK n b e) : ExprOK n (mkBrackets i b e) := by
  unfold mkBrackets
  split
  · exact hi
  · split
    · exact emptyList_ok n
    · exact ⟨h, hi⟩

theorem mkEllipsis_ok {n : Nat} {i : Expr} {b e : Int} {id : Nat} (hi : ExprOK n i) (h : RangeOK n b e) :
    ExprOK n (mkEllipsis i b e id) := by
  unfold mkEllipsis
  split
  · exact emptyList_ok n
  · exact ⟨h, hi⟩

theorem mkConcat_ok {n : Nat} {cs : List Expr} {b e : Int} (hcs : ∀ c ∈ cs, ExprOK n c) (h : RangeOK n b e) :
    ExprOK n (mkConcat cs b e) := by
  unfold mkConcat
  split
  · exact hcs _ (by simp)
  · exact ⟨h, exprOKL_iff.mpr hcs⟩

mutual
theorem flattenOne_ok {n : Nat} : ∀ (x : Expr), ExprOK n x → ∀ c ∈ flattenOne x, ExprOK n c
  | .list cs _ _, h => by
    simp only [flattenOne]
    exact flattenAll_ok cs (by simp only [ExprOK] at h; exact h.2)
  | .axis .., h => by simp only [flattenOne, List.mem_singleton]; intro c hc; subst hc; exact h
  | .flat .., h => by simp only [flattenOne, List.mem_singleton]; intro c hc; subst hc; exact h
  | .brackets .., h => by simp only [flattenOne, List.mem_singleton]; intro c hc; subst hc; exact h
  | .ellipsis .., h => by simp only [flattenOne, List.mem_singleton]; intro c hc; subst hc; exact h
  | .concat .., h => by simp only [flattenOne, List.mem_singleton]; intro c hc; subst hc; exact h
  | .args .., h => by simp only [flattenOne, List.mem_singleton]; intro c hc; subst hc; exact h
  | .op .., h => by simp only [flattenOne, List.mem_singleton]; intro c hc; subst hc; exact h
theorem flattenAll_ok {n : Nat} : ∀ (cs : List Expr), ExprOKL n cs → ∀ c ∈ flattenAll cs, ExprOK n c
  | [], _ => by simp [flattenAll]
  | x :: xs, h => by
    simp only [flattenAll, List.mem_append]
    simp only [ExprOKL] at h
    intro c hc
    rcases hc with hc | hc
    · exact flattenOne_ok x h.1 c hc
    · exact flattenAll_ok xs h.2 c hc
end

theorem mkList_ok {n : Nat} {cs : List Expr} {b e : Int} (hcs : ∀ c ∈ cs, ExprOK n c) (h : RangeOK n b e) :
    ExprOK n (mkList cs b e) := by
  have hf := flattenAll_ok (n := n) cs (exprOKL_iff.mpr hcs)
  unfold mkList
  split
  · rename_i c hc
    exact hf c (by rw [hc]; simp)
  · exact ⟨h, exprOKL_iff.mpr hf⟩


/-! ### Tokens -/

def TokenOK (n : Nat) (t : Token) : Prop := t.b < t.e ∧ t.e ≤ n

/-- What C12 needs of an error: every caret (also of the alternatives) is inside the string. -/
def ErrOK (n : Nat) : Err → Prop
  | .syntax _ pos alts => (∀ p ∈ pos, InR n p) ∧ ∀ a ∈ alts, ∀ p ∈ a, InR n p
  | .internal _ => True

/-- Result predicate: `P` on success, carets in range on a syntax error. -/
def ResP {α : Type} (P : α → Prop) (n : Nat) : Res α → Prop
  | .ok r => P r
  | .error err => ErrOK n err

theorem tokenRange_ok {n : Nat} {t : Token} (h : TokenOK n t) : ∀ p ∈ posRange (Int.ofNat t.b) (Int.ofNat t.e), InR n p := by
  apply posRange_inR
  unfold TokenOK at h
  right
  simp only [Int.ofNat_eq_natCast]
  omega

theorem matchLit_prefix {ls : List Str} {cs l : Str} (h : matchLit ls cs = some l) : l.length ≤ cs.length := by
  induction ls with
  | nil => simp [matchLit] at h
  | cons a as ih =>
    simp only [matchLit] at h
    split at h
    · rename_i hc
      cases h
      simp only [Bool.and_eq_true] at hc
      exact (List.isPrefixOf_iff_prefix.mp hc.2).length_le
    · exact ih h

theorem flush_ok {n : Nat} {cur : Str} {start pos : Nat} (h : start + cur.length = pos) (hn : pos ≤ n) :
    ∀ t ∈ flush cur start pos, TokenOK n t := by
  intro t ht
  unfold flush at ht
  split at ht
  · simp at ht
  · rename_i hc
    simp only [List.mem_singleton] at ht
    subst ht
    have : cur.length ≠ 0 := by
      intro h0; apply hc; simp [List.length_eq_zero_iff.mp h0]
    unfold TokenOK
    simp only
    omega

theorem segment_ok (lits : List Str) (cs : Str) (pos start : Nat) (cur : Str) (n : Nat)
    (h : start + cur.length = pos) (hn : pos + cs.length ≤ n) :
    ∀ t ∈ segment lits cs pos start cur, TokenOK n t := by
  fun_induction segment lits cs pos start cur with
  | case1 pos start cur =>
    simp only [List.length_nil, Nat.add_zero] at hn
    exact flush_ok h hn
  | case2 pos start cur c rest l hl ih =>
    have hlen := matchLit_prefix hl
    have hne := matchLit_ne_nil hl
    have hl0 : l.length ≠ 0 := fun h0 => hne (List.length_eq_zero_iff.mp h0)
    intro t ht
    simp only [List.mem_append, List.mem_cons] at ht
    rcases ht with ht | ht | ht
    · exact flush_ok h (by omega) t ht
    · subst ht
      unfold TokenOK
      simp only
      omega
    · refine ih (by simp) ?_ t ht
      simp only [List.length_drop]
      omega
  | case3 pos start cur c rest hl ih =>
    refine ih ?_ ?_
    · simp only [List.length_append, List.length_singleton]; omega
    · simp only [List.length_cons] at hn; omega

theorem lex_ok (text : Str) : ResP (fun ts => ∀ t ∈ ts, TokenOK text.length t) text.length (lex text) := by
  have hseg := segment_ok literals text 0 0 [] text.length (by simp) (by simp)
  unfold lex
  simp only
  split
  · rename_i t ht
    have := List.mem_of_find?_eq_some ht
    simp only [ResP, ErrOK]
    exact ⟨tokenRange_ok (hseg t this), by simp⟩
  · exact hseg

theorem mem_dedupSpaces {ts : List Token} {f : Bool} {t : Token} (h : t ∈ dedupSpaces ts f) : t ∈ ts := by
  induction ts generalizing f with
  | nil => simp [dedupSpaces] at h
  | cons a as ih =>
    simp only [dedupSpaces] at h
    split at h
    · split at h
      · exact List.mem_cons_of_mem _ (ih h)
      · rcases List.mem_cons.mp h with h | h
        · subst h; simp
        · exact List.mem_cons_of_mem _ (ih h)
    · rcases List.mem_cons.mp h with h | h
      · subst h; simp
      · exact List.mem_cons_of_mem _ (ih h)

mutual
def TokOK (n : Nat) : Tok → Prop
  | .atom t => TokenOK n t
  | .group o c inner => TokenOK n o ∧ TokenOK n c ∧ TokOKL n inner
def TokOKL (n : Nat) : List Tok → Prop
  | [] => True
  | t :: ts => TokOK n t ∧ TokOKL n ts
end

theorem tokOKL_iff {n : Nat} {ts : List Tok} : TokOKL n ts ↔ ∀ t ∈ ts, TokOK n t := by
  induction ts with
  | nil => simp [TokOKL]
  | cons c cs ih => simp [TokOKL, ih]

theorem tokOKL_append {n : Nat} {xs ys : List Tok} (hx : TokOKL n xs) (hy : TokOKL n ys) : TokOKL n (xs ++ ys) := by
  rw [tokOKL_iff] at *
  intro t ht
  rcases List.mem_append.mp ht with h | h
  · exact hx t h
  · exact hy t h

theorem buildTree_ok (n : Nat) : ∀ (ts : List Token) (frames : List (Token × List Tok)) (base : List Tok),
    (∀ t ∈ ts, TokenOK n t) → (∀ f ∈ frames, TokenOK n f.1 ∧ TokOKL n f.2) → TokOKL n base →
    ResP (TokOKL n) n (buildTree ts frames base) := by
  intro ts
  induction ts with
  | nil =>
    intro frames base _ hf hb
    cases frames with
    | nil => simpa [buildTree, ResP] using hb
    | cons f fs =>
      obtain ⟨o, items⟩ := f
      simp only [buildTree, ResP, ErrOK]
      exact ⟨tokenRange_ok (hf (o, items) (by simp)).1, by simp⟩
  | cons t ts ih =>
    intro frames base hts hf hb
    have ht := hts t (by simp)
    have hts' : ∀ t ∈ ts, TokenOK n t := fun x hx => hts x (List.mem_cons_of_mem _ hx)
    simp only [buildTree]
    split
    · apply ih _ _ hts' _ hb
      intro f hf'
      rcases List.mem_cons.mp hf' with h | h
      · subst h; exact ⟨ht, by simp [TokOKL]⟩
      · exact hf f h
    · split
      · cases frames with
        | nil => simp only [ResP, ErrOK]; exact ⟨tokenRange_ok ht, by simp⟩
        | cons f fs =>
          obtain ⟨o, items⟩ := f
          have hfo := hf (o, items) (by simp)
          simp only
          split
          · simp only [ResP, ErrOK]; exact ⟨tokenRange_ok ht, by simp⟩
          · have hg : TokOK n (Tok.group o t items) := by
              simp only [TokOK]; exact ⟨hfo.1, ht, hfo.2⟩
            cases fs with
            | nil =>
              simp only
              apply ih _ _ hts' (by simp) (tokOKL_append hb (by simp [TokOKL, hg]))
            | cons f2 fs2 =>
              obtain ⟨o2, items2⟩ := f2
              simp only
              apply ih _ _ hts' _ hb
              intro f hf'
              rcases List.mem_cons.mp hf' with h | h
              · subst h
                have := hf (o2, items2) (by simp)
                exact ⟨this.1, tokOKL_append this.2 (by simp [TokOKL, hg])⟩
              · exact hf f (by simp [h])
      · cases frames with
        | nil =>
          simp only
          apply ih _ _ hts' (by simp) (tokOKL_append hb (by simp [TokOKL, TokOK, ht]))
        | cons f fs =>
          obtain ⟨o, items⟩ := f
          simp only
          apply ih _ _ hts' _ hb
          intro f hf'
          rcases List.mem_cons.mp hf' with h | h
          · subst h
            have := hf (o, items) (by simp)
            exact ⟨this.1, tokOKL_append this.2 (by simp [TokOKL, TokOK, ht])⟩
          · exact hf f (by simp [h])


/-! ### `parse` -/

theorem mem_dropTrailSpaces {ts : List Tok} {t : Tok} (h : t ∈ dropTrailSpaces ts) : t ∈ ts := by
  induction ts with
  | nil => simp [dropTrailSpaces] at h
  | cons a as ih =>
    simp only [dropTrailSpaces] at h
    cases hr : dropTrailSpaces as with
    | nil =>
      rw [hr] at h
      simp only at h
      split at h
      · simp at h
      · simp only [List.mem_singleton] at h; subst h; simp
    | cons r rs =>
      rw [hr] at h ih
      simp only at h
      rcases List.mem_cons.mp h with h | h
      · subst h; simp
      · exact List.mem_cons_of_mem _ (ih h)

theorem mem_strip {ts : List Tok} {t : Tok} (h : t ∈ strip ts) : t ∈ ts :=
  (List.dropWhile_sublist _).subset (mem_dropTrailSpaces h)

theorem TokOK.b_lt {n : Nat} {t : Tok} (h : TokOK n t) : t.b < n := by
  cases t <;> simp only [TokOK, TokenOK] at h <;> simp only [Tok.b] <;> omega

theorem TokOK.e_le {n : Nat} {t : Tok} (h : TokOK n t) : 1 ≤ t.e ∧ t.e ≤ n := by
  cases t <;> simp only [TokOK, TokenOK] at h <;> simp only [Tok.e] <;> omega

theorem lastEnd_le {n : Nat} : ∀ (ts : List Tok) (d : Nat), (∀ t ∈ ts, TokOK n t) → d ≤ n → lastEnd ts d ≤ n
  | [], d, _, hd => by simpa [lastEnd] using hd
  | [t], d, h, _ => by simp only [lastEnd]; exact (h t (by simp)).e_le.2
  | t :: t2 :: ts, d, h, hd => by
    simp only [lastEnd]
    exact lastEnd_le (t2 :: ts) d (fun x hx => h x (List.mem_cons_of_mem _ hx)) hd

theorem mkTL_ok {n : Nat} {ts : List Tok} {d : Nat} (h : ∀ t ∈ ts, TokOK n t) (hd : d ≤ n) :
    (∀ t ∈ (mkTL ts d).ts, TokOK n t) ∧ RangeOK n (Int.ofNat (mkTL ts d).b) (Int.ofNat (mkTL ts d).e) := by
  rw [mkTL_ts]
  refine ⟨h, ?_⟩
  cases ts with
  | nil => simp only [mkTL, RangeOK, Int.ofNat_eq_natCast]; omega
  | cons t ts =>
    have := lastEnd_le (t :: ts) d h hd
    simp only [mkTL, RangeOK, Int.ofNat_eq_natCast]
    omega

theorem splitOn_ok {n : Nat} (op : Str) (d : Nat) (hd : d ≤ n) : ∀ (ts : List Tok), (∀ t ∈ ts, TokOK n t) →
    ∀ o ∈ (splitOn op d ts).1 :: (splitOn op d ts).2, (∀ t ∈ o.1, TokOK n t) ∧ o.2 ≤ n
  | [], _ => by
    simp only [splitOn, List.mem_singleton]
    intro o ho; subst ho; simp [hd]
  | t :: ts, h => by
    have ih := splitOn_ok op d hd ts (fun x hx => h x (List.mem_cons_of_mem _ hx))
    have ht := h t (by simp)
    simp only [splitOn]
    split
    · intro o ho
      rcases List.mem_cons.mp ho with ho | ho
      · subst ho
        simp only [List.not_mem_nil, false_imp_iff, implies_true, true_and]
        exact Nat.le_of_lt ht.b_lt
      · exact ih o ho
    · intro o ho
      rcases List.mem_cons.mp ho with ho | ho
      · subst ho
        have h1 := ih (splitOn op d ts).1 (by simp)
        refine ⟨?_, h1.2⟩
        intro x hx
        rcases List.mem_cons.mp hx with hx | hx
        · subst hx; exact ht
        · exact h1.1 x hx
      · exact ih o (List.mem_cons_of_mem _ ho)

theorem operands_ok {n : Nat} (op : Str) (ts : List Tok) (h : ∀ t ∈ ts, TokOK n t) :
    ∀ o ∈ operands op ts, (∀ t ∈ o.ts, TokOK n t) ∧ RangeOK n (Int.ofNat o.b) (Int.ofNat o.e) := by
  intro o ho
  simp only [operands, List.mem_map] at ho
  obtain ⟨p, hp, rfl⟩ := ho
  have := splitOn_ok (n := n) op (lastEnd ts 0) (lastEnd_le ts 0 h (Nat.zero_le _)) ts h p (by simpa using hp)
  exact mkTL_ok this.1 this.2

theorem mapM_ok_mem {α β : Type} (f : α → Res β) : ∀ (l : List α) (xs : List β), l.mapM f = .ok xs →
    ∀ x ∈ xs, ∃ a ∈ l, f a = .ok x
  | [], xs, h => by
    simp only [List.mapM_nil, pure, Except.pure, Except.ok.injEq] at h
    subst h; simp
  | a :: l, xs, h => by
    simp only [List.mapM_cons, bind, Except.bind] at h
    cases hfa : f a with
    | error e => rw [hfa] at h; simp at h
    | ok y =>
      rw [hfa] at h
      simp only at h
      cases hl : l.mapM f with
      | error e => rw [hl] at h; simp at h
      | ok ys =>
        rw [hl] at h
        simp only [pure, Except.pure, Except.ok.injEq] at h
        subst h
        intro x hx
        rcases List.mem_cons.mp hx with hx | hx
        · subst hx; exact ⟨a, by simp, hfa⟩
        · obtain ⟨a', ha', hf'⟩ := mapM_ok_mem f l ys hl x hx
          exact ⟨a', List.mem_cons_of_mem _ ha', hf'⟩

theorem mapM_err_mem {α β : Type} (f : α → Res β) : ∀ (l : List α) (err : Err), l.mapM f = .error err →
    ∃ a ∈ l, f a = .error err
  | [], err, h => by simp [List.mapM_nil, pure, Except.pure] at h
  | a :: l, err, h => by
    simp only [List.mapM_cons, bind, Except.bind] at h
    cases hfa : f a with
    | error e =>
      rw [hfa] at h
      simp only [Except.error.injEq] at h
      subst h
      exact ⟨a, by simp, hfa⟩
    | ok y =>
      rw [hfa] at h
      simp only at h
      cases hl : l.mapM f with
      | error e =>
        rw [hl] at h
        simp only [Except.error.injEq] at h
        subst h
        obtain ⟨a', ha', hf'⟩ := mapM_err_mem f l e hl
        exact ⟨a', List.mem_cons_of_mem _ ha', hf'⟩
      | ok ys => rw [hl] at h; simp [pure, Except.pure] at h

theorem combine_ok {n : Nat} {op : Str} {xs : List Expr} {b e : Nat} {ipc : Bool} {ts : List Tok}
    (hxs : ∀ x ∈ xs, ExprOK n x) (hr : RangeOK n (Int.ofNat b) (Int.ofNat e)) (hts : ∀ t ∈ ts, TokOK n t) :
    ResP (ExprOK n) n (combine op xs b e ipc ts) := by
  unfold combine
  split
  · exact mkList_ok hxs hr
  · split
    · exact ⟨hr, exprOKL_iff.mpr hxs⟩
    · split
      · exact ⟨hr, exprOKL_iff.mpr hxs⟩
      · split
        · dsimp only
          by_cases hinv : (!(xs.filter (fun o => !isAxisOrFlat o)).isEmpty) = true
          · rw [if_pos hinv]
            simp only [ResP, ErrOK, List.mem_append, List.mem_flatMap, List.mem_filter]
            refine ⟨?_, by simp⟩
            intro p hp
            rcases hp with ⟨o, ho, hp⟩ | ⟨t, ht, hp⟩
            · exact posRange_inR (hxs o ho.1).range p hp
            · have hb := (hts t ht.1).b_lt
              have he := (hts t ht.1).e_le
              exact posRange_inR (Or.inr ⟨by simp, by simp only [Int.ofNat_eq_natCast]; omega⟩) p hp
          · rw [if_neg hinv]
            by_cases hipc : (!ipc) = true
            · rw [if_pos hipc]
              simp only [ResP, ErrOK]
              exact ⟨posRange_inR hr, by simp⟩
            · rw [if_neg hipc]
              exact mkConcat_ok hxs hr
        · simp [ResP, ErrOK]

theorem parseAxis_ok {n : Nat} {t : Token} (h : TokenOK n t) : ResP (ExprOK n) n (parseAxis t) := by
  have hr : RangeOK n (Int.ofNat t.b) (Int.ofNat t.e) := by
    unfold TokenOK at h
    right
    simp only [Int.ofNat_eq_natCast]; omega
  unfold parseAxis
  split
  · split
    · exact hr
    · simp [ResP, ErrOK]
  · split
    · exact hr
    · simp [ResP, ErrOK]


theorem natRange_ok {n b e : Nat} (he : e ≤ n) : RangeOK n (Int.ofNat b) (Int.ofNat e) := by
  right; simp only [Int.ofNat_eq_natCast]; omega

theorem group_inner_ok {n : Nat} {o c : Token} {inner : List Tok} (h : TokOK n (Tok.group o c inner)) :
    (∀ t ∈ inner, TokOK n t) ∧
      RangeOK n (Int.ofNat (firstInnerPos inner c)) (Int.ofNat (lastEnd inner (firstInnerPos inner c))) ∧
      BrOK n (Int.ofNat o.b) (Int.ofNat c.e) := by
  simp only [TokOK] at h
  obtain ⟨ho, hc, hi⟩ := h
  have hi' := tokOKL_iff.mp hi
  have hib : firstInnerPos inner c ≤ n := by
    unfold firstInnerPos
    cases inner with
    | nil => simp only; unfold TokenOK at hc; omega
    | cons t ts => simp only; exact Nat.le_of_lt (hi' t (by simp)).b_lt
  refine ⟨hi', natRange_ok (lastEnd_le inner _ hi' hib), ?_⟩
  unfold TokenOK at ho hc
  unfold BrOK
  simp only [Int.ofNat_eq_natCast]
  omega

theorem parse_ok (n : Nat) (ts : List Tok) (b e : Nat) (ipc : Bool) :
    (∀ t ∈ ts, TokOK n t) → RangeOK n (Int.ofNat b) (Int.ofNat e) → ResP (ExprOK n) n (parse ts b e ipc) := by
  fun_induction parse ts b e ipc with
  | case1 ts b e ipc hs =>
    intro _ hr
    exact mkList_ok (by simp) hr
  | case2 ts b e ipc o c inner hs ib err heq ih =>
    intro hts _
    have hg := group_inner_ok (hts (Tok.group o c inner) (mem_strip (by rw [hs]; simp)))
    have := ih hg.1 hg.2.1
    rwa [heq] at this
  | case3 ts b e ipc o c inner hs ib x heq _ _ ih =>
    intro hts _
    have hg := group_inner_ok (hts (Tok.group o c inner) (mem_strip (by rw [hs]; simp)))
    have := ih hg.1 hg.2.1
    rwa [heq] at this
  | case4 ts b e ipc o c inner hs ib x heq _ _ ih =>
    intro hts _
    have hg := group_inner_ok (hts (Tok.group o c inner) (mem_strip (by rw [hs]; simp)))
    have := ih hg.1 hg.2.1
    rw [heq] at this
    exact mkFlat_ok this hg.2.2.range
  | case5 ts b e ipc o c inner hs ib x heq _ _ ih =>
    intro hts _
    have hg := group_inner_ok (hts (Tok.group o c inner) (mem_strip (by rw [hs]; simp)))
    have := ih hg.1 hg.2.1
    rw [heq] at this
    exact mkBrackets_ok this hg.2.2
  | case6 => intro _ _; simp [ResP, ErrOK]
  | case7 ts b e ipc t0 rest _ hs ts1 op hop err heq ih =>
    intro hts _
    have hts1 : ∀ t ∈ ts1, TokOK n t := fun t ht => hts t (mem_strip (by rw [hs]; exact ht))
    obtain ⟨a, _, ha⟩ := mapM_err_mem _ _ _ heq
    have hok := operands_ok op ts1 hts1 a.1 (mem_keepOperands a.2)
    have := ih a hok.1 hok.2
    rwa [ha] at this
  | case8 ts b e ipc t0 rest _ hs ts1 b1 e1 op hop xs heq ih =>
    intro hts _
    have hts1 : ∀ t ∈ ts1, TokOK n t := fun t ht => hts t (mem_strip (by rw [hs]; exact ht))
    refine combine_ok ?_ (natRange_ok (lastEnd_le ts1 0 hts1 (Nat.zero_le _))) hts1
    intro x hx
    obtain ⟨a, _, ha⟩ := mapM_ok_mem _ _ _ heq x hx
    have hok := operands_ok op ts1 hts1 a.1 (mem_keepOperands a.2)
    have := ih a hok.1 hok.2
    rwa [ha] at this
  | case9 ts b e ipc t hs _ _ _ _ =>
    intro hts _
    have ht : TokOK n (Tok.atom t) := hts (Tok.atom t) (mem_strip (by rw [hs]; simp))
    simp only [TokOK, TokenOK] at ht
    exact mkEllipsis_ok (i := Expr.axis anonName none t.b t.b) (id := t.b) (by simp only [ExprOK, RangeOK]; omega) (natRange_ok ht.2)
  | case10 ts b e ipc t hs _ _ _ _ =>
    intro hts _
    have ht : TokOK n (Tok.atom t) := hts (Tok.atom t) (mem_strip (by rw [hs]; simp))
    exact parseAxis_ok ht
  | case11 ts b e ipc x t hs _ err heq _ _ _ _ ih =>
    intro hts _
    have hx : TokOK n x := hts x (mem_strip (by rw [hs]; simp))
    have := ih (by simpa using hx) (natRange_ok hx.e_le.2)
    rwa [heq] at this
  | case12 ts b e ipc x t hs _ operand heq _ _ _ _ ih =>
    intro hts _
    have hx : TokOK n x := hts x (mem_strip (by rw [hs]; simp))
    have ht : TokOK n (Tok.atom t) := hts (Tok.atom t) (mem_strip (by rw [hs]; simp))
    simp only [TokOK, TokenOK] at ht
    have := ih (by simpa using hx) (natRange_ok hx.e_le.2)
    rw [heq] at this
    exact mkEllipsis_ok this (natRange_ok ht.2)
  | case13 ts b e ipc x t hs _ _ _ _ _ =>
    intro hts _
    have hts1 : ∀ y ∈ [x, Tok.atom t], TokOK n y := fun y hy => hts y (mem_strip (by rw [hs]; exact hy))
    simp only [ResP, ErrOK]
    exact ⟨posRange_inR (natRange_ok (lastEnd_le _ 0 hts1 (Nat.zero_le _))), by simp⟩
  | case14 ts b e ipc t0 rest _ hs ts1 b1 e1 _ _ _ _ =>
    intro hts _
    have hts1 : ∀ t ∈ ts1, TokOK n t := fun t ht => hts t (mem_strip (by rw [hs]; exact ht))
    simp only [ResP, ErrOK]
    exact ⟨posRange_inR (natRange_ok (lastEnd_le ts1 0 hts1 (Nat.zero_le _))), by simp⟩


/-! ### `move_up`, redundant brackets, post-checks -/

theorem wrap_ok {n : Nat} (k : Lift) {cs : List Expr} {b e : Int} (hcs : ∀ c ∈ cs, ExprOK n c) (hr : RangeOK n b e) :
    ExprOK n (k.wrap cs b e) := by
  cases k <;> exact ⟨hr, exprOKL_iff.mpr hcs⟩

theorem pick_ok {n : Nat} (idx : Nat) {x : Expr} (h : ExprOK n x) : ExprOK n (pick idx x) := by
  have hc := h.children
  unfold pick
  split
  · rename_i c hx
    exact hc c (by rw [hx]; simp)
  · rw [List.getD_eq_getElem?_getD]
    cases hi : x.children[idx]? with
    | none => simpa using emptyList_ok n
    | some y => simpa using hc y (List.mem_of_getElem? hi)

theorem cls_create_ok {n : Nat} (cls : Cls) {cs : List Expr} {b e : Int} (hcs : ∀ c ∈ cs, ExprOK n c) (hr : RangeOK n b e) :
    ExprOK n (cls.create cs b e) := by
  cases cls
  · exact mkList_ok hcs hr
  · exact mkConcat_ok hcs hr
  · exact ⟨hr, exprOKL_iff.mpr hcs⟩

theorem distribute_ok {n : Nat} (k : Lift) (cls : Cls) {children : List Expr} {b e : Int} {arrows : List Int}
    (hcs : ∀ c ∈ children, ExprOK n c) (hr : RangeOK n b e) (ha : ∀ p ∈ arrows, InR n p) :
    ResP (ExprOK n) n (distribute k cls children b e arrows) := by
  unfold distribute
  dsimp only
  split
  · simp only [ResP, ErrOK]; exact ⟨ha, by simp⟩
  · simp only [ResP]
    apply wrap_ok k _ hr
    intro c hc
    obtain ⟨idx, _, rfl⟩ := List.mem_map.mp hc
    apply cls_create_ok cls _ hr
    intro y hy
    obtain ⟨x, hx, rfl⟩ := List.mem_map.mp hy
    exact pick_ok idx (hcs x hx)

theorem flatMap_children_ok {n : Nat} {ch : List Expr} (h : ∀ c ∈ ch, ExprOK n c) :
    ∀ c ∈ ch.flatMap Expr.children, ExprOK n c := by
  intro c hc
  obtain ⟨x, hx, hcx⟩ := List.mem_flatMap.mp hc
  exact (h x hx).children c hcx

mutual
theorem moveUp_ok {n : Nat} (k : Lift) (arrows : List Int) (ha : ∀ p ∈ arrows, InR n p) :
    ∀ (x : Expr), ExprOK n x → ResP (ExprOK n) n (moveUp k arrows x)
  | .axis nm v b e, h => by
    simp only [moveUp, ResP]
    exact wrap_ok k (by simpa using h) (rangeOK_neg1 n)
  | .flat i b e, h => by
    simp only [ExprOK] at h
    have ih := moveUp_ok k arrows ha i h.2
    simp only [moveUp]
    cases hm : moveUp k arrows i with
    | error err => rw [hm] at ih; exact ih
    | ok o =>
      rw [hm] at ih
      simp only [ResP] at ih ⊢
      apply wrap_ok k _ ih.range
      intro c hc
      obtain ⟨a, ha', rfl⟩ := List.mem_map.mp hc
      exact mkFlat_ok (ih.children a ha') h.1
  | .brackets i b e, h => by
    simp only [ExprOK] at h
    have ih := moveUp_ok k arrows ha i h.2
    simp only [moveUp]
    cases hm : moveUp k arrows i with
    | error err => rw [hm] at ih; exact ih
    | ok o =>
      rw [hm] at ih
      simp only [ResP] at ih ⊢
      apply wrap_ok k _ ih.range
      intro c hc
      obtain ⟨a, ha', rfl⟩ := List.mem_map.mp hc
      exact mkBrackets_ok (ih.children a ha') h.1
  | .ellipsis i id b e, h => by
    simp only [ExprOK] at h
    have ih := moveUp_ok k arrows ha i h.2
    simp only [moveUp]
    cases hm : moveUp k arrows i with
    | error err => rw [hm] at ih; exact ih
    | ok o =>
      rw [hm] at ih
      simp only [ResP] at ih ⊢
      apply wrap_ok k _ ih.range
      intro c hc
      obtain ⟨a, ha', rfl⟩ := List.mem_map.mp hc
      exact mkEllipsis_ok (ih.children a ha') h.1
  | .list cs b e, h => by
    simp only [ExprOK] at h
    have ih := moveUpL_ok k arrows ha cs h.2
    simp only [moveUp]
    cases hm : moveUpL k arrows cs with
    | error err => rw [hm] at ih; exact ih
    | ok ch => rw [hm] at ih; exact distribute_ok k .list ih h.1 ha
  | .concat cs b e, h => by
    simp only [ExprOK] at h
    have ih := moveUpL_ok k arrows ha cs h.2
    simp only [moveUp]
    cases hm : moveUpL k arrows cs with
    | error err => rw [hm] at ih; exact ih
    | ok ch => rw [hm] at ih; exact distribute_ok k .concat ih h.1 ha
  | .args cs b e, h => by
    simp only [ExprOK] at h
    have ih := moveUpL_ok k arrows ha cs h.2
    simp only [moveUp]
    cases hm : moveUpL k arrows cs with
    | error err => rw [hm] at ih; exact ih
    | ok ch =>
      rw [hm] at ih
      cases k with
      | op => exact distribute_ok .op .args ih h.1 ha
      | args => exact ⟨h.1, exprOKL_iff.mpr (flatMap_children_ok ih)⟩
  | .op cs b e, h => by
    simp only [ExprOK] at h
    cases k with
    | args => simp [moveUp, ResP, ErrOK]
    | op =>
      have ih := moveUpL_ok .op arrows ha cs h.2
      simp only [moveUp]
      cases hm : moveUpL .op arrows cs with
      | error err => rw [hm] at ih; exact ih
      | ok ch =>
        rw [hm] at ih
        exact ⟨h.1, exprOKL_iff.mpr (flatMap_children_ok ih)⟩
theorem moveUpL_ok {n : Nat} (k : Lift) (arrows : List Int) (ha : ∀ p ∈ arrows, InR n p) :
    ∀ (cs : List Expr), ExprOKL n cs → ResP (fun r => ∀ c ∈ r, ExprOK n c) n (moveUpL k arrows cs)
  | [], _ => by simp [moveUpL, ResP]
  | c :: cs, h => by
    simp only [ExprOKL] at h
    have ih1 := moveUp_ok k arrows ha c h.1
    have ih2 := moveUpL_ok k arrows ha cs h.2
    simp only [moveUpL]
    cases hm : moveUp k arrows c with
    | error err => rw [hm] at ih1; exact ih1
    | ok x =>
      rw [hm] at ih1
      cases hl : moveUpL k arrows cs with
      | error err => rw [hl] at ih2; exact ih2
      | ok xs =>
        rw [hl] at ih2
        simp only [ResP] at ih1 ih2 ⊢
        intro y hy
        rcases List.mem_cons.mp hy with hy | hy
        · subst hy; exact ih1
        · exact ih2 y hy
end

mutual
theorem traverse_ok {n : Nat} (inBr : Bool) : ∀ (x : Expr), ExprOK n x → ExprOK n (traverse inBr x)
  | .axis .., h => by simpa [traverse] using h
  | .flat i b e, h => by
    simp only [ExprOK] at h
    simp only [traverse]
    exact mkFlat_ok (traverse_ok inBr i h.2) h.1
  | .list cs b e, h => by
    simp only [ExprOK] at h
    simp only [traverse]
    exact mkList_ok (traverseL_ok inBr cs h.2) h.1
  | .concat cs b e, h => by
    simp only [ExprOK] at h
    simp only [traverse]
    exact mkConcat_ok (traverseL_ok inBr cs h.2) h.1
  | .brackets i b e, h => by
    simp only [ExprOK] at h
    simp only [traverse]
    split
    · exact traverse_ok true i h.2
    · exact mkBrackets_ok (traverse_ok true i h.2) h.1
  | .ellipsis i id b e, h => by
    simp only [ExprOK] at h
    simp only [traverse]
    exact mkEllipsis_ok (traverse_ok inBr i h.2) h.1
  | .op cs b e, h => by
    simp only [ExprOK] at h
    simp only [traverse, ExprOK]
    exact ⟨h.1, exprOKL_iff.mpr (traverseL_ok inBr cs h.2)⟩
  | .args cs b e, h => by
    simp only [ExprOK] at h
    simp only [traverse, ExprOK]
    exact ⟨h.1, exprOKL_iff.mpr (traverseL_ok inBr cs h.2)⟩
theorem traverseL_ok {n : Nat} (inBr : Bool) : ∀ (cs : List Expr), ExprOKL n cs → ∀ c ∈ traverseL inBr cs, ExprOK n c
  | [], _ => by simp [traverseL]
  | x :: xs, h => by
    simp only [ExprOKL] at h
    simp only [traverseL, List.mem_cons]
    intro c hc
    rcases hc with hc | hc
    · subst hc; exact traverse_ok inBr x h.1
    · exact traverseL_ok inBr xs h.2 c hc
end

/-- Every occurrence record carries carets inside the string. -/
def OccOK (n : Nat) (o : Occ) : Prop := (∀ p ∈ o.own, InR n p) ∧ ∀ p ∈ o.br, InR n p

mutual
theorem occs_ok {n : Nat} : ∀ (x : Expr) (br : List Int) (marked : Bool), ExprOK n x → (∀ p ∈ br, InR n p) →
    ∀ o ∈ occs br marked x, OccOK n o
  | .axis nm v b e, br, marked, h, hbr => by
    simp only [occs, List.mem_singleton]
    intro o ho; subst ho
    exact ⟨posRange_inR (by simpa [ExprOK] using h), hbr⟩
  | .flat i _ _, br, marked, h, hbr => by
    simp only [ExprOK] at h
    simp only [occs]; exact occs_ok i br marked h.2 hbr
  | .ellipsis i _ _ _, br, marked, h, hbr => by
    simp only [ExprOK] at h
    simp only [occs]; exact occs_ok i br marked h.2 hbr
  | .brackets i b e, br, marked, h, hbr => by
    simp only [ExprOK] at h
    simp only [occs]
    apply occs_ok i _ true h.2
    intro p hp
    have hb := h.1
    unfold BrOK at hb
    simp only [List.cons_append, List.nil_append, List.mem_cons] at hp
    rcases hp with hp | hp | hp
    · subst hp; unfold InR; omega
    · subst hp; unfold InR; omega
    · exact hbr p hp
  | .concat cs _ _, br, marked, h, hbr => by
    simp only [ExprOK] at h
    simp only [occs]; exact occsL_ok cs br marked h.2 hbr
  | .list cs _ _, br, marked, h, hbr => by
    simp only [ExprOK] at h
    simp only [occs]; exact occsL_ok cs br marked h.2 hbr
  | .args cs _ _, br, marked, h, hbr => by
    simp only [ExprOK] at h
    simp only [occs]; exact occsL_ok cs br marked h.2 hbr
  | .op cs _ _, br, marked, h, hbr => by
    simp only [ExprOK] at h
    simp only [occs]; exact occsL_ok cs br marked h.2 hbr
theorem occsL_ok {n : Nat} : ∀ (cs : List Expr) (br : List Int) (marked : Bool), ExprOKL n cs → (∀ p ∈ br, InR n p) →
    ∀ o ∈ occsL br marked cs, OccOK n o
  | [], _, _, _, _ => by simp [occsL]
  | x :: xs, br, marked, h, hbr => by
    simp only [ExprOKL] at h
    simp only [occsL, List.mem_append]
    intro o ho
    rcases ho with ho | ho
    · exact occs_ok x br marked h.1 hbr o ho
    · exact occsL_ok xs br marked h.2 hbr o ho
end

theorem conflictPos_ok {n : Nat} {os : List Occ} (h : ∀ o ∈ os, OccOK n o) (nm : Str) : ∀ p ∈ conflictPos os nm, InR n p := by
  intro p hp
  simp only [conflictPos, List.mem_flatMap, List.mem_filter, List.mem_append] at hp
  obtain ⟨o, ⟨ho, _⟩, hp⟩ := hp
  rcases hp with hp | hp
  · exact (h o ho).1 p hp
  · exact (h o ho).2 p hp

theorem checkBrackets_ok {n : Nat} {x : Expr} (h : ExprOK n x) : ResP (ExprOK n) n (checkBrackets x) := by
  have hos := occs_ok x [] false h (by simp)
  unfold checkBrackets
  dsimp only
  cases hc : (conflictNames (occs [] false x)).map (conflictPos (occs [] false x)) with
  | nil => exact h
  | cons p ps =>
    simp only [ResP, ErrOK]
    have hall : ∀ a ∈ (conflictNames (occs [] false x)).map (conflictPos (occs [] false x)), ∀ q ∈ a, InR n q := by
      intro a ha
      obtain ⟨nm, _, rfl⟩ := List.mem_map.mp ha
      exact conflictPos_ok hos nm
    rw [hc] at hall
    exact ⟨hall p (by simp), fun a ha => hall a (List.mem_cons_of_mem _ ha)⟩

theorem posForLiteral_ok (l : Str) : ∀ (cs : Str) (i : Nat), ∀ p ∈ posForLiteral l cs i, InR (i + cs.length) p
  | [], _ => by simp [posForLiteral]
  | c :: cs, i => by
    intro p hp
    simp only [posForLiteral, List.mem_append] at hp
    rcases hp with hp | hp
    · split at hp
      · rename_i hpre
        simp only [Bool.and_eq_true] at hpre
        have hlen := (List.isPrefixOf_iff_prefix.mp hpre.2).length_le
        have := mem_posRange.mp hp
        simp only [Int.ofNat_eq_natCast] at this
        unfold InR
        omega
      · simp at hp
    · have := posForLiteral_ok l cs (i + 1) p hp
      unfold InR at this ⊢
      simp only [List.length_cons]
      omega


theorem arrows_ok (l : Str) (text : Str) : ∀ p ∈ posForLiteral l text 0, InR text.length p := by
  have := posForLiteral_ok l text 0
  simpa using this

/-- Main invariant of `parse_op`: a returned tree has every node range inside the text (or empty), and every caret
    of a `SyntaxError` is inside the text. -/
theorem parseOp_ok (text : Str) : ResP (ExprOK text.length) text.length (parseOp text) := by
  unfold parseOp
  have hlex := lex_ok text
  cases hl : lex text with
  | error err => rw [hl] at hlex; exact hlex
  | ok toks =>
    rw [hl] at hlex
    simp only [ResP] at hlex
    have hbt := buildTree_ok text.length (dedupSpaces toks false) [] []
      (fun t ht => hlex t (mem_dedupSpaces ht)) (by simp) (by simp [TokOKL])
    simp only
    cases hb : buildTree (dedupSpaces toks false) [] [] with
    | error err => rw [hb] at hbt; exact hbt
    | ok tree =>
      rw [hb] at hbt
      simp only [ResP] at hbt
      have htree := tokOKL_iff.mp hbt
      have hp := parse_ok text.length tree 0 (lastEnd tree 0) false htree
        (natRange_ok (lastEnd_le tree 0 htree (Nat.zero_le _)))
      simp only
      cases hpa : parse tree 0 (lastEnd tree 0) false with
      | error err => rw [hpa] at hp; exact hp
      | ok x =>
        rw [hpa] at hp
        simp only [ResP] at hp
        have harr := arrows_ok (lit "->") text
        have hm := moveUp_ok .op _ harr x hp
        simp only
        cases hmu : moveUp .op (posForLiteral (lit "->") text 0) x with
        | error err => rw [hmu] at hm; exact hm
        | ok x1 =>
          rw [hmu] at hm
          simp only [ResP] at hm
          simp only
          cases x1 with
          | op cs b e =>
            simp only [ExprOK] at hm
            have hm2 := moveUpL_ok .args _ harr cs hm.2
            simp only
            cases hmu2 : moveUpL .args (posForLiteral (lit "->") text 0) cs with
            | error err => rw [hmu2] at hm2; exact hm2
            | ok cs2 =>
              rw [hmu2] at hm2
              simp only [ResP] at hm2
              have ht := traverse_ok (n := text.length) false (.op cs2 b e) ⟨hm.1, exprOKL_iff.mpr hm2⟩
              simp only
              split
              · simp only [ResP, ErrOK]; exact ⟨harr, by simp⟩
              · exact checkBrackets_ok ht
          | _ => simp [ResP, ErrOK]

theorem parseArgs_ok (text : Str) : ResP (ExprOK text.length) text.length (parseArgs text) := by
  unfold parseArgs
  have h := parseOp_ok text
  cases hp : parseOp text with
  | error err => rw [hp] at h; exact h
  | ok x =>
    rw [hp] at h
    simp only [ResP] at h
    simp only
    split
    · rename_i cs b e hc
      have := h.children (.args cs b e) (by rw [hc]; simp)
      exact this
    · simp [ResP, ErrOK]
    · simp only [ResP, ErrOK]; exact ⟨arrows_ok _ text, by simp⟩

theorem parseArg_ok (text : Str) : ResP (ExprOK text.length) text.length (parseArg text) := by
  unfold parseArg
  have h := parseArgs_ok text
  cases hp : parseArgs text with
  | error err => rw [hp] at h; exact h
  | ok x =>
    rw [hp] at h
    simp only [ResP] at h
    simp only
    split
    · rename_i c hc
      exact h.children c (by rw [hc]; simp)
    · simp only [ResP, ErrOK]; exact ⟨arrows_ok _ text, by simp⟩


/-! ### Which internal (non-`SyntaxError`) outcomes are possible -/

/-- The operators `combine` has a branch for. -/
def modelHandled : List Str := [lit " ", lit "->", lit ",", lit "+"]

/-- Internal outcomes that `parse` can produce. -/
def ParseInt (k : IntKind) : Prop :=
  (∃ op, k = .unhandledOp op ∧ op ∈ naryOps ∧ op ∉ modelHandled) ∨ k = .intLiteral ∨ k = .assertAxisName ∨ k = .assertDelimiter

def IntP {α : Type} (P : IntKind → Prop) : Res α → Prop
  | .error (.internal k) => P k
  | _ => True

theorem findOp_mem {ops : List Str} {ts : List Tok} {op : Str} (h : findOp ops ts = some op) : op ∈ ops := by
  induction ops with
  | nil => simp [findOp] at h
  | cons a as ih =>
    simp only [findOp] at h
    split at h
    · cases h; simp
    · exact List.mem_cons_of_mem _ (ih h)

theorem combine_int {op : Str} {xs : List Expr} {b e : Nat} {ipc : Bool} {ts : List Tok} (hop : op ∈ naryOps) :
    IntP ParseInt (combine op xs b e ipc ts) := by
  unfold combine
  split
  · trivial
  · split
    · trivial
    · split
      · trivial
      · split
        · dsimp only
          by_cases hinv : (!(xs.filter (fun o => !isAxisOrFlat o)).isEmpty) = true
          · rw [if_pos hinv]; trivial
          · rw [if_neg hinv]
            by_cases hipc : (!ipc) = true
            · rw [if_pos hipc]; trivial
            · rw [if_neg hipc]; trivial
        · rename_i h1 h2 h3 h4
          simp only [IntP, ParseInt]
          left
          refine ⟨op, rfl, hop, ?_⟩
          simp only [modelHandled, List.mem_cons, List.not_mem_nil, or_false, not_or]
          simp only [beq_iff_eq] at h1 h2 h3 h4
          exact ⟨h1, h2, h3, h4⟩

theorem parseAxis_int (t : Token) : IntP ParseInt (parseAxis t) := by
  unfold parseAxis
  split
  · split
    · trivial
    · simp [IntP, ParseInt]
  · split
    · trivial
    · simp [IntP, ParseInt]

theorem parse_int (ts : List Tok) (b e : Nat) (ipc : Bool) : IntP ParseInt (parse ts b e ipc) := by
  fun_induction parse ts b e ipc with
  | case1 => trivial
  | case2 ts b e ipc o c inner hs ib err heq ih => rwa [heq] at ih
  | case3 => trivial
  | case4 => trivial
  | case5 => trivial
  | case6 => simp [IntP, ParseInt]
  | case7 ts b e ipc t0 rest _ hs ts1 op hop err heq ih =>
    obtain ⟨a, _, ha⟩ := mapM_err_mem _ _ _ heq
    have := ih a
    rwa [ha] at this
  | case8 ts b e ipc t0 rest _ hs ts1 b1 e1 op hop xs heq ih => exact combine_int (findOp_mem hop)
  | case9 => trivial
  | case10 ts b e ipc t hs _ _ _ _ => exact parseAxis_int t
  | case11 ts b e ipc x t hs _ err heq _ _ _ _ ih => rwa [heq] at ih
  | case12 => trivial
  | case13 => trivial
  | case14 => trivial

theorem wrap_op_isOp (cs : List Expr) (b e : Int) : Lift.op.wrap cs b e = .op cs b e := rfl

/-- The first `move_up` pass never fails internally and always returns an `Op` (so the `assert isinstance(expression, Op)`
    after it cannot fire). -/
theorem distribute_op (cls : Cls) (children : List Expr) (b e : Int) (arrows : List Int) :
    (∃ cs b' e', distribute .op cls children b e arrows = .ok (.op cs b' e')) ∨
    (∃ k pos alts, distribute .op cls children b e arrows = .error (.syntax k pos alts)) := by
  unfold distribute
  dsimp only
  split
  · right; exact ⟨_, _, _, rfl⟩
  · left; exact ⟨_, _, _, rfl⟩

mutual
theorem moveUp_op_res (arrows : List Int) : ∀ (x : Expr),
    (∃ cs b e, moveUp .op arrows x = .ok (.op cs b e)) ∨ (∃ k pos alts, moveUp .op arrows x = .error (.syntax k pos alts))
  | .axis .. => by left; simp only [moveUp]; exact ⟨_, _, _, rfl⟩
  | .flat i b e => by
    simp only [moveUp]
    rcases moveUp_op_res arrows i with ⟨cs, b', e', h⟩ | ⟨k, pos, alts, h⟩
    · rw [h]; left; exact ⟨_, _, _, rfl⟩
    · rw [h]; right; exact ⟨_, _, _, rfl⟩
  | .brackets i b e => by
    simp only [moveUp]
    rcases moveUp_op_res arrows i with ⟨cs, b', e', h⟩ | ⟨k, pos, alts, h⟩
    · rw [h]; left; exact ⟨_, _, _, rfl⟩
    · rw [h]; right; exact ⟨_, _, _, rfl⟩
  | .ellipsis i id b e => by
    simp only [moveUp]
    rcases moveUp_op_res arrows i with ⟨cs, b', e', h⟩ | ⟨k, pos, alts, h⟩
    · rw [h]; left; exact ⟨_, _, _, rfl⟩
    · rw [h]; right; exact ⟨_, _, _, rfl⟩
  | .list cs b e => by
    simp only [moveUp]
    rcases moveUpL_op_res arrows cs with ⟨ch, h⟩ | ⟨k, pos, alts, h⟩
    · rw [h]; exact distribute_op _ _ _ _ _
    · rw [h]; right; exact ⟨_, _, _, rfl⟩
  | .concat cs b e => by
    simp only [moveUp]
    rcases moveUpL_op_res arrows cs with ⟨ch, h⟩ | ⟨k, pos, alts, h⟩
    · rw [h]; exact distribute_op _ _ _ _ _
    · rw [h]; right; exact ⟨_, _, _, rfl⟩
  | .args cs b e => by
    simp only [moveUp]
    rcases moveUpL_op_res arrows cs with ⟨ch, h⟩ | ⟨k, pos, alts, h⟩
    · rw [h]; exact distribute_op _ _ _ _ _
    · rw [h]; right; exact ⟨_, _, _, rfl⟩
  | .op cs b e => by
    simp only [moveUp]
    rcases moveUpL_op_res arrows cs with ⟨ch, h⟩ | ⟨k, pos, alts, h⟩
    · rw [h]; left; exact ⟨_, _, _, rfl⟩
    · rw [h]; right; exact ⟨_, _, _, rfl⟩
theorem moveUpL_op_res (arrows : List Int) : ∀ (cs : List Expr),
    (∃ r, moveUpL .op arrows cs = .ok r) ∨ (∃ k pos alts, moveUpL .op arrows cs = .error (.syntax k pos alts))
  | [] => by left; exact ⟨_, rfl⟩
  | c :: cs => by
    simp only [moveUpL]
    rcases moveUp_op_res arrows c with ⟨xs, b', e', h⟩ | ⟨k, pos, alts, h⟩
    · rw [h]
      rcases moveUpL_op_res arrows cs with ⟨r, h2⟩ | ⟨k, pos, alts, h2⟩
      · rw [h2]; left; exact ⟨_, rfl⟩
      · rw [h2]; right; exact ⟨_, _, _, rfl⟩
    · rw [h]; right; exact ⟨_, _, _, rfl⟩
end

theorem distribute_int (k : Lift) (cls : Cls) (children : List Expr) (b e : Int) (arrows : List Int) :
    IntP (fun _ => False) (distribute k cls children b e arrows) := by
  unfold distribute
  dsimp only
  split <;> trivial

theorem intP_false {α : Type} {Q : IntKind → Prop} {r : Res α} (h : IntP (fun _ => False) r) : IntP Q r := by
  cases r with
  | ok _ => trivial
  | error err => cases err <;> simp_all [IntP]

theorem intP_err {α β : Type} {P : IntKind → Prop} {err : Err} (h : IntP P (.error err : Res α)) : IntP P (.error err : Res β) := by
  cases err <;> exact h

mutual
/-- The second pass can only fail internally with `assertMoveUp`. -/
theorem moveUp_int (k : Lift) (arrows : List Int) : ∀ (x : Expr), IntP (· = .assertMoveUp) (moveUp k arrows x)
  | .axis .. => by simp only [moveUp]; trivial
  | .flat i b e => by
    have ih := moveUp_int k arrows i
    simp only [moveUp]
    cases h : moveUp k arrows i with
    | error err => rw [h] at ih; dsimp only; exact intP_err ih
    | ok o => trivial
  | .brackets i b e => by
    have ih := moveUp_int k arrows i
    simp only [moveUp]
    cases h : moveUp k arrows i with
    | error err => rw [h] at ih; dsimp only; exact intP_err ih
    | ok o => trivial
  | .ellipsis i id b e => by
    have ih := moveUp_int k arrows i
    simp only [moveUp]
    cases h : moveUp k arrows i with
    | error err => rw [h] at ih; dsimp only; exact intP_err ih
    | ok o => trivial
  | .list cs b e => by
    have ih := moveUpL_int k arrows cs
    simp only [moveUp]
    cases h : moveUpL k arrows cs with
    | error err => rw [h] at ih; dsimp only; exact intP_err ih
    | ok ch => dsimp only; exact intP_false (distribute_int k .list ch b e arrows)
  | .concat cs b e => by
    have ih := moveUpL_int k arrows cs
    simp only [moveUp]
    cases h : moveUpL k arrows cs with
    | error err => rw [h] at ih; dsimp only; exact intP_err ih
    | ok ch => dsimp only; exact intP_false (distribute_int k .concat ch b e arrows)
  | .args cs b e => by
    have ih := moveUpL_int k arrows cs
    simp only [moveUp]
    cases h : moveUpL k arrows cs with
    | error err => rw [h] at ih; dsimp only; exact intP_err ih
    | ok ch =>
      cases k with
      | args => trivial
      | op => dsimp only; exact intP_false (distribute_int .op .args ch b e arrows)
  | .op cs b e => by
    cases k with
    | args => simp [moveUp, IntP]
    | op =>
      have ih := moveUpL_int .op arrows cs
      simp only [moveUp]
      cases h : moveUpL .op arrows cs with
      | error err => rw [h] at ih; dsimp only; exact intP_err ih
      | ok ch => trivial
theorem moveUpL_int (k : Lift) (arrows : List Int) : ∀ (cs : List Expr), IntP (· = .assertMoveUp) (moveUpL k arrows cs)
  | [] => by simp only [moveUpL]; trivial
  | c :: cs => by
    have ih1 := moveUp_int k arrows c
    have ih2 := moveUpL_int k arrows cs
    simp only [moveUpL]
    cases h : moveUp k arrows c with
    | error err => rw [h] at ih1; dsimp only; exact intP_err ih1
    | ok x =>
      cases h2 : moveUpL k arrows cs with
      | error err => rw [h2] at ih2; dsimp only; exact intP_err ih2
      | ok xs => trivial
end

/-- Internal outcomes of `parseOp`: those of `parse`, or the second-pass assertion. -/
def OpInt (k : IntKind) : Prop := ParseInt k ∨ k = .assertMoveUp

theorem checkBrackets_int (x : Expr) : IntP (fun _ => False) (checkBrackets x) := by
  unfold checkBrackets
  dsimp only
  split <;> trivial

theorem parseOp_int (text : Str) : IntP OpInt (parseOp text) := by
  unfold parseOp
  cases hl : lex text with
  | error err =>
    unfold lex at hl
    simp only at hl
    split at hl
    · cases hl; trivial
    · cases hl
  | ok toks =>
    simp only
    cases hb : buildTree (dedupSpaces toks false) [] [] with
    | error err =>
      have : ∀ (ts : List Token) (frames : List (Token × List Tok)) (base : List Tok),
          IntP (fun _ => False) (buildTree ts frames base) := by
        intro ts
        induction ts with
        | nil => intro frames base; cases frames <;> simp [buildTree, IntP]
        | cons t ts ih =>
          intro frames base
          simp only [buildTree]
          split
          · exact ih _ _
          · split
            · cases frames with
              | nil => trivial
              | cons f fs =>
                simp only
                split
                · trivial
                · cases fs <;> exact ih _ _
            · cases frames <;> exact ih _ _
      have h2 := this (dedupSpaces toks false) [] []
      rw [hb] at h2
      cases err <;> simp_all [IntP]
    | ok tree =>
      simp only
      have hp := parse_int tree 0 (lastEnd tree 0) false
      cases hpa : parse tree 0 (lastEnd tree 0) false with
      | error err =>
        rw [hpa] at hp
        rcases err with ⟨k, pos, alts⟩ | ⟨k⟩
        · trivial
        · exact Or.inl hp
      | ok x =>
        simp only
        rcases moveUp_op_res (posForLiteral (lit "->") text 0) x with ⟨cs, b, e, h⟩ | ⟨k, pos, alts, h⟩
        · rw [h]
          simp only
          have h2 := moveUpL_int .args (posForLiteral (lit "->") text 0) cs
          cases hm : moveUpL .args (posForLiteral (lit "->") text 0) cs with
          | error err =>
            rw [hm] at h2
            rcases err with ⟨k, pos, alts⟩ | ⟨k⟩
            · trivial
            · exact Or.inr h2
          | ok cs2 =>
            simp only
            split
            · trivial
            · exact intP_false (checkBrackets_int (traverse false (.op cs2 b e)))
        · rw [h]; trivial

end Einx.Notation
