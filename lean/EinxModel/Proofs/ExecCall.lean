import EinxModel.Proofs.ExecTrace
/-! Helper lemmas for `Props/C13Exec.lean` / `Props/C15Exec.lean`: the event that the compiled program produces for a visited
call node, and inversion lemmas for the translations. -/
namespace Einx.Exec
open Einx.Compile

/-! ### Inversion of the translation -/

theorem toV_ref_inv (x : E) (f : Nat) (h : toV x = .ref f) : x = .var f := by
  cases x with
  | var t => simpa [toV] using h
  | lit s => simp only [toV] at h; generalize litKind s = k at h; cases k <;> simp at h
  | node tag a => cases tag <;> (unfold toV at h; simp at h)
  | _ => simp [toV] at h

theorem toGApp_call_inv (a : App) (fn : Factory.V) (args : List Factory.V) (kwargs : List (String × Factory.V))
    (deps : List Factory.V) (out : Factory.V) (h : toGApp a = ⟨.call fn args kwargs deps, out⟩) :
    ∃ fn' args' kwargs' deps' o, a = .call fn' args' kwargs' deps' o ∧ fn = toV fn' ∧ args = args'.map toV ∧
      kwargs = kwargs'.map (fun kv => (kv.1, toV kv.2)) := by
  cases a with
  | call fn' args' kwargs' deps' o =>
    simp only [toGApp, toNode, Factory.GApp.mk.injEq, Factory.GNode.call.injEq] at h
    exact ⟨fn', args', kwargs', deps', o, rfl, h.1.1.symm, h.1.2.1.symm, h.1.2.2.1.symm⟩
  | _ => simp [toGApp, toNode] at h

theorem toTracers_origin (origin : List (Option Nat)) (aux : List TAux) (f : Nat) :
    ((toTracers origin aux)[f]?).map (·.origin) = origin[f]? := by
  simp only [toTracers, List.getElem?_map, List.getElem?_zipIdx, Option.map_map]
  cases origin[f]? <;> simp

/-- A call whose function operand denotes a graph input is not a call of an allow-listed builtin. -/
theorem not_allowInline_of_callsInput (g : Graph) (aux : List TAux) (fg : Factory.Graph) (hfg : toFactory g aux = some fg)
    (hfwf : Factory.wf fg = true) (t : Nat) (ht : t ∈ fg.inputs) (fn : E) (f : Nat) (hfn : toV fn = .ref f)
    (hroot : Factory.root fg f = t) : isAllowInline g fn = false := by
  have hv := toV_ref_inv fn f hfn
  subst hv
  cases hal : isAllowInline g (.var f) with
  | false => rfl
  | true =>
    exfalso
    simp only [isAllowInline] at hal
    split at hal
    · rename_i o name out horig
      -- the origin of `f` is a builtin: `f` is no cast, so it is its own root, an input with an origin
      have happ := originOf_app g f o _ horig
      have horg : g.origin[f]? = some (some o) := by
        unfold Graph.originOf at horig
        split at horig
        · rename_i j hj
          cases hj' : g.apps[j]? with
          | none => simp [hj'] at horig
          | some a' =>
            simp only [hj', Option.map_some, Option.some.injEq, Prod.mk.injEq] at horig
            rw [← horig.1]; exact hj
        · simp at horig
      have hfgdef : fg.tracers = toTracers g.origin aux ∧ fg.apps = g.apps.map toGApp := by
        unfold toFactory at hfg
        split at hfg
        · split at hfg
          · simp only [Option.some.injEq] at hfg; subst hfg; exact ⟨rfl, rfl⟩
          · cases hfg
        · cases hfg
      have htr : (fg.tracers[f]?).map (·.origin) = some (some o) := by
        rw [hfgdef.1, toTracers_origin, horg]
      have hfa : fg.apps[o]? = some (toGApp (.builtin name out)) := by
        rw [hfgdef.2, List.getElem?_map, happ]; rfl
      have hcs : Factory.castSource fg f = none := by
        unfold Factory.castSource
        cases hti : fg.tracers[f]? with
        | none => rfl
        | some ti =>
          simp only [hti, Option.map_some, Option.some.injEq] at htr
          simp only [htr, hfa, toGApp, toNode]
      have hrf : ∀ n, Factory.rootF fg n f = f := by
        intro n
        cases n with
        | zero => rfl
        | succ n => simp [Factory.rootF, hcs]
      have : f = t := by rw [← hroot]; exact (hrf _).symm
      subst this
      obtain ⟨ti, h1, h2⟩ := Factory.wf_input hfwf f ht
      rw [h1] at htr
      simp only [Option.map_some, Option.some.injEq] at htr
      rw [h2] at htr
      cases htr
    · cases hal

/-! ### The event of a visited call node -/

theorem mem_split_nodup {α : Type} (l : List α) (a : α) (hnd : l.Nodup) (ha : a ∈ l) :
    ∃ pre post, l = pre ++ a :: post ∧ a ∉ pre ∧ a ∉ post := by
  obtain ⟨pre, post, rfl⟩ := List.append_of_mem ha
  refine ⟨pre, post, rfl, ?_, ?_⟩
  · intro hp
    rw [List.nodup_append] at hnd
    exact hnd.2.2 a hp a (by simp) rfl
  · intro hp
    rw [List.nodup_append] at hnd
    exact (List.nodup_cons.1 hnd.2.1).1 hp

theorem mem_taggedTrace_src (l : List SStmt) : ∀ (x : XState) (p : Option Nat × Event), p ∈ taggedTrace x l →
    ∃ s ∈ l, s.src = p.1 := by
  induction l with
  | nil => intro x p hp; simp [taggedTrace] at hp
  | cons s rest ih =>
    intro x p hp
    simp only [taggedTrace, List.mem_append, List.mem_map] at hp
    rcases hp with ⟨e, _, rfl⟩ | hp
    · exact ⟨s, by simp, rfl⟩
    · obtain ⟨s', hs', h'⟩ := ih _ p hp
      exact ⟨s', List.mem_cons_of_mem _ hs', h'⟩

theorem srcs_of_body (st st' : GState)
    (h : st'.body = st.body ∨ ∃ v e, st'.body = st.body ++ [(0, ⟨.assign v e false, none⟩)]) : st'.srcs = st.srcs := by
  rcases h with h | ⟨v, e, h⟩
  · simp [GState.srcs, h]
  · simp [GState.srcs, h, List.filterMap_append]

/-- Every tagged event of the compiled program belongs to a visited application. -/
theorem tagged_src_visited (cfg : UCfg) (fc : FCfg) (g : Graph) (comp : Compiled) (hc : compile cfg fc g = .ok comp)
    (x : XState) (p : Option Nat × Event) (hp : p ∈ taggedTrace x (sstmts comp.st)) (j : Nat) (hj : p.1 = some j) :
    Visit.app j ∈ comp.order := by
  obtain ⟨scopes, st, _, he, hb⟩ := compile_parts cfg fc g comp hc
  obtain ⟨s, hs, hsrc⟩ := mem_taggedTrace_src _ x p hp
  have hmem : j ∈ comp.st.srcs := by
    simp only [sstmts, List.mem_map] at hs
    obtain ⟨q, hq, rfl⟩ := hs
    simp only [GState.srcs, List.mem_filterMap]
    exact ⟨q, hq, by rw [hsrc, hj]⟩
  rw [srcs_of_body st comp.st hb] at hmem
  rcases emitAll_src_mem _ comp.order {} st he j hmem with h | h
  · simp [GState.srcs] at h
  · exact h

/-- **The event of a visited call node**: if the traversal visits application `i`, a call of an opaque callable, the
compiled program has exactly one event tagged `i`; it is a call event whose term has as many positional arguments as the
node and the node's keyword names. -/
theorem call_node_event (cfg : UCfg) (fc : FCfg) (g : Graph) (comp : Compiled) (hwf : g.WF = true)
    (hc : compile cfg fc g = .ok comp) (i : Nat) (fn : E) (args : List E) (kwargs : List (String × E)) (deps : List E)
    (out : Nat) (ha : g.apps[i]? = some (.call fn args kwargs deps out)) (hk : isAllowInline g fn = false)
    (hi : Visit.app i ∈ comp.order) (x : XState) :
    ∃ f as ks, (taggedTrace x (sstmts comp.st)).filter (isTag i) = [(some i, .call (E.mk .call (f :: as ++ ks)))] ∧
      as.length = args.length ∧ ks.map kwName = kwargs.map (fun kv => some kv.1) := by
  obtain ⟨scopes, st, ho, he, hb⟩ := compile_parts cfg fc g comp hc
  have hnd := visitOrder_nodup_of_wf g hwf comp.order ho
  obtain ⟨pre, post, hsplit, hpre, hpost⟩ := mem_split_nodup comp.order (.app i) hnd hi
  rw [hsplit] at he
  obtain ⟨s1, he1, he2⟩ := emitAll_append _ pre (.app i :: post) {} st he
  obtain ⟨s2, he3, he4⟩ := emitAll_cons _ (.app i) post s1 st he2
  obtain ⟨n1, b1, p1⟩ := emitAll_src_ne _ i pre {} s1 he1 hpre
  obtain ⟨n2, b2, p2⟩ := emitAll_src_ne _ i post s2 st he4 hpost
  obtain ⟨b, v, f, as, ks, b3, hlen, hnames⟩ := emitVisit_call (ctxOf cfg g scopes) s1 s2 i fn args kwargs deps out ha hk he3
  have hbody : ∃ tail : List (Nat × SStmt), comp.st.body = n1 ++ [(b, ⟨.assign v (E.mk .call (f :: as ++ ks)) true, some i⟩)] ++ tail ∧
      ∀ q ∈ tail, q.2.src ≠ some i := by
    have hst : st.body = n1 ++ [(b, ⟨.assign v (E.mk .call (f :: as ++ ks)) true, some i⟩)] ++ n2 := by
      rw [b2, b3, b1]; rfl
    rcases hb with hb | ⟨v', e', hb⟩
    · exact ⟨n2, by rw [hb, hst], p2⟩
    · refine ⟨n2 ++ [(0, ⟨.assign v' e' false, none⟩)], by rw [hb, hst, List.append_assoc], ?_⟩
      intro q hq
      rcases List.mem_append.1 hq with hq | hq
      · exact p2 q hq
      · simp only [List.mem_singleton] at hq
        subst hq
        simp
  obtain ⟨tail, hbd, htail⟩ := hbody
  have hss : sstmts comp.st = n1.map (·.2) ++ [⟨.assign v (E.mk .call (f :: as ++ ks)) true, some i⟩] ++ tail.map (·.2) := by
    simp [sstmts, hbd]
  obtain ⟨env, hfilt⟩ := taggedTrace_filter_one i (n1.map (·.2)) (tail.map (·.2)) v (E.mk .call (f :: as ++ ks)) x
    (by intro s hs; obtain ⟨q, hq, rfl⟩ := List.mem_map.1 hs; exact p1 q hq)
    (by intro s hs; obtain ⟨q, hq, rfl⟩ := List.mem_map.1 hs; exact htail q hq)
  rw [← hss] at hfilt
  refine ⟨f.subst env, as.map (E.subst env), ks.map (E.subst env), ?_, by simpa using hlen, ?_⟩
  · rw [hfilt, List.cons_append, subst_call, List.map_append, List.cons_append]
  · rw [← hnames, List.map_map]
    apply List.map_congr_left
    intro e he
    have : (kwName e).isSome := by
      have hmem : kwName e ∈ ks.map kwName := List.mem_map.2 ⟨e, he, rfl⟩
      rw [hnames] at hmem
      obtain ⟨kv, _, hkv⟩ := List.mem_map.1 hmem
      rw [← hkv]; rfl
    obtain ⟨k, hk'⟩ := Option.isSome_iff_exists.1 this
    simp only [Function.comp]
    rw [hk', kwName_subst env e k hk']

end Einx.Exec
