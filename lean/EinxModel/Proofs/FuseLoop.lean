import EinxModel.Proofs.FuseSafe
/-!
C04, name re-use, part 2: the invariant of the `fuse` loop (`fuseBlock`, `fuseAll` of `Compile/Gen.lean`).

Groups of variables are chains `v₁ → v₂ → …` in which the statement that defines `vᵢ₊₁` is the last statement that has `vᵢ`
among its inputs.  The invariant `FInv` records, for the statement the loop is at,
  * `ord`  : two variables of one group are ordered by `Before` (defined earlier and dead when the other is defined),
  * `defd` : the members of non-trivial groups of the current block are defined by statements the loop has passed,
  * `blk`  : the members of a group belong to one block,
  * `le`   : non-trivial groups only exist in the blocks handled so far.
-/
namespace Einx.Compile

/-! ### Name groups -/

/-- The representative of the name group of a variable. -/
def ρOf (grp : List Nat) (v : Nat) : Nat := grp[v]?.getD v

theorem fuseGroups_length (grp : List Nat) (v o : Nat) : (fuseGroups grp v o).length = grp.length := by
  unfold fuseGroups
  dsimp only
  split <;> simp

theorem fuseGroups_rng (grp : List Nat) (h : ∀ x ∈ grp, x < grp.length) (v o : Nat) (hv : v < grp.length) :
    ∀ x ∈ fuseGroups grp v o, x < (fuseGroups grp v o).length := by
  rw [fuseGroups_length]
  unfold fuseGroups
  dsimp only
  split
  · exact h
  · intro x hx
    obtain ⟨y, hy, rfl⟩ := List.mem_map.1 hx
    split
    · have : grp[v]?.getD v = grp[v] := by simp [hv]
      rw [this]
      exact h _ (List.getElem_mem hv)
    · exact h y hy

theorem ρOf_lt (grp : List Nat) (h : ∀ x ∈ grp, x < grp.length) (w : Nat) (hw : w < grp.length) : ρOf grp w < grp.length := by
  have : ρOf grp w = grp[w] := by simp [ρOf, hw]
  rw [this]
  exact h _ (List.getElem_mem hw)

/-- `fuse(v, o)` renames the group of `o` to the group of `v`. -/
theorem ρOf_fuseGroups (grp : List Nat) (h : ∀ x ∈ grp, x < grp.length) (v o : Nat) (ho : o < grp.length) (w : Nat) :
    ρOf (fuseGroups grp v o) w = if ρOf grp w = ρOf grp o then ρOf grp v else ρOf grp w := by
  unfold fuseGroups
  dsimp only
  by_cases hg : (grp[v]?.getD v == grp[o]?.getD o) = true
  · rw [if_pos hg]
    have hg' : ρOf grp v = ρOf grp o := by simpa [ρOf] using hg
    split
    · rename_i hw; rw [hg', hw]
    · rfl
  · rw [if_neg hg]
    by_cases hw : w < grp.length
    · have e1 : ρOf grp w = grp[w] := by simp [ρOf, hw]
      simp only [ρOf, List.getElem?_map, List.getElem?_eq_getElem hw, Option.map_some, Option.getD_some] at e1 ⊢
      by_cases hx : grp[w] = grp[o]?.getD o
      · simp [hx]
      · simp [hx]
    · have hlt := ρOf_lt grp h o ho
      have e1 : ρOf grp w = w := by simp [ρOf, Nat.le_of_not_lt hw]
      have e2 : ρOf (grp.map (fun x => if (x == grp[o]?.getD o) = true then grp[v]?.getD v else x)) w = w := by
        simp [ρOf, Nat.le_of_not_lt hw]
      have hne : ¬ (ρOf grp w = ρOf grp o) := by
        rw [e1]; intro hc; rw [hc] at hw; exact hw hlt
      rw [if_neg hne]
      rw [e1]
      exact e2

theorem ρOf_range (n w : Nat) : ρOf (List.range n) w = w := by
  by_cases hw : w < n
  · simp [ρOf, hw]
  · simp [ρOf, Nat.le_of_not_lt hw]

/-! ### One step of the loop -/

def reuseV (vars : List VarInfo) (v : Nat) : Bool := (vars[v]?.map (·.reuse)).getD false
def blockOfV (vars : List VarInfo) (v : Nat) : Nat := (vars[v]?.map (·.block)).getD 0

theorem reuseV_lt (vars : List VarInfo) (v : Nat) (h : reuseV vars v = true) : v < vars.length := by
  by_cases hv : v < vars.length
  · exact hv
  · simp [reuseV, Nat.le_of_not_lt hv] at h

/-- The body of the loop over the statements of a block: the new groups after the statement `s`. -/
def fuseStep (fc : FCfg) (vars : List VarInfo) (deps : Nat → List (Nat × Nat)) (seen : List Nat) (s : Stmt) (grp : List Nat) :
    List Nat :=
  let reuse (v : Nat) : Bool := (vars[v]?.map (·.reuse)).getD false
  let blockOf (v : Nat) : Nat := (vars[v]?.map (·.block)).getD 0
  let outs := (dedupeNat s.outputVars).filter reuse
  match outs with
  | [o] =>
    let ins := (dedupeNat s.inputVars).filter reuse
    let ins := if fc.checkBlock then ins.filter (fun v => (deps v).all (fun d => d.1 == blockOf v)) else ins
    let ins := if fc.checkLater then ins.filter (fun v => (deps v).all (fun d => seen.contains d.2)) else ins
    match ins with
    | [v] => if blockOf v == blockOf o then fuseGroups grp v o else grp
    | _ => grp
  | _ => grp

theorem fuseBlock_cons (fc : FCfg) (vars : List VarInfo) (deps : Nat → List (Nat × Nat)) (sid : Nat) (s : Stmt)
    (rest : List (Nat × Stmt)) (seen grp : List Nat) :
    fuseBlock fc vars deps ((sid, s) :: rest) seen grp =
      fuseBlock fc vars deps rest (sid :: seen) (fuseStep fc vars deps (sid :: seen) s grp) := by
  rfl

theorem mem_dedupeNat (l : List Nat) (x : Nat) (h : x ∈ dedupeNat l) : x ∈ l := by
  have gen : ∀ (l acc : List Nat), x ∈ l.foldl (fun acc x => if acc.contains x then acc else acc ++ [x]) acc → x ∈ acc ∨ x ∈ l := by
    intro l
    induction l with
    | nil => intro acc h; exact Or.inl h
    | cons y ys ih =>
      intro acc h
      simp only [List.foldl_cons] at h
      rcases ih _ h with h1 | h1
      · split at h1
        · exact Or.inl h1
        · rcases List.mem_append.1 h1 with h2 | h2
          · exact Or.inl h2
          · exact Or.inr (by simp at h2; simp [h2])
      · exact Or.inr (List.mem_cons_of_mem _ h1)
  rcases gen l [] h with h1 | h1
  · simp at h1
  · exact h1

/-- A step either leaves the groups alone, or merges the group of the output `o` of the statement into the group of an input
`v` that passed the filters of the loop. -/
theorem fuseStep_cases (fc : FCfg) (hL : fc.checkLater = true) (hB : fc.checkBlock = true) (vars : List VarInfo)
    (deps : Nat → List (Nat × Nat)) (seen : List Nat) (s : Stmt) (grp : List Nat) :
    fuseStep fc vars deps seen s grp = grp ∨
    ∃ v o, o ∈ s.outputVars ∧ v ∈ s.inputVars ∧ reuseV vars v = true ∧ reuseV vars o = true ∧
      (∀ d ∈ deps v, d.1 = blockOfV vars v) ∧ (∀ d ∈ deps v, d.2 ∈ seen) ∧ blockOfV vars v = blockOfV vars o ∧
      fuseStep fc vars deps seen s grp = fuseGroups grp v o := by
  unfold fuseStep
  simp only [hL, hB, if_true]
  split
  · rename_i o houts
    split
    · rename_i v hins
      split
      · rename_i hblk
        refine Or.inr ⟨v, o, ?_, ?_, ?_, ?_, ?_, ?_, ?_, rfl⟩
        · have : o ∈ List.filter (fun v => (vars[v]?.map (·.reuse)).getD false) (dedupeNat s.outputVars) := by rw [houts]; simp
          exact mem_dedupeNat _ _ (List.mem_filter.1 this).1
        all_goals
          have hv : v ∈ [v] := by simp
          rw [← hins] at hv
          have h1 := List.mem_filter.1 hv
          have h2 := List.mem_filter.1 h1.1
          have h3 := List.mem_filter.1 h2.1
        · exact mem_dedupeNat _ _ h3.1
        · exact h3.2
        · have : o ∈ List.filter (fun v => (vars[v]?.map (·.reuse)).getD false) (dedupeNat s.outputVars) := by rw [houts]; simp
          exact (List.mem_filter.1 this).2
        · intro d hd
          have := List.all_eq_true.1 h2.2 d hd
          simpa [blockOfV] using this
        · intro d hd
          have := List.all_eq_true.1 h1.2 d hd
          simpa using this
        · simpa [blockOfV] using hblk
      · exact Or.inl rfl
    · exact Or.inl rfl
  · exact Or.inl rfl

theorem fuseStep_noinputs (fc : FCfg) (vars : List VarInfo) (deps : Nat → List (Nat × Nat)) (seen : List Nat) (s : Stmt)
    (grp : List Nat) (h : s.inputVars = []) : fuseStep fc vars deps seen s grp = grp := by
  unfold fuseStep
  simp only [h]
  split
  · have e : dedupeNat [] = [] := rfl
    simp only [e, List.filter_nil]
    cases fc.checkBlock <;> cases fc.checkLater <;> simp
  · rfl

/-- Statements without inputs (comments, imports) only extend the set of statements seen. -/
theorem fuseBlock_noinputs (fc : FCfg) (vars : List VarInfo) (deps : Nat → List (Nat × Nat)) :
    ∀ (l1 l2 : List (Nat × Stmt)) (seen grp : List Nat), (∀ q ∈ l1, q.2.inputVars = []) →
    fuseBlock fc vars deps (l1 ++ l2) seen grp = fuseBlock fc vars deps l2 ((l1.map (·.1)).reverse ++ seen) grp
  | [], l2, seen, grp, _ => by simp
  | (sid, s) :: l1, l2, seen, grp, h => by
    rw [List.cons_append, fuseBlock_cons, fuseStep_noinputs _ _ _ _ _ _ (h (sid, s) (by simp)),
      fuseBlock_noinputs fc vars deps l1 l2 (sid :: seen) grp (fun q hq => h q (List.mem_cons_of_mem _ hq))]
    simp

/-! ### The invariant -/

/-- `body`: the emitted statements with their blocks, in emission order; `pre`: the statements the loop has passed in the current
block `b`.  The last three fields are only needed for the text-order statement (`Proofs/FuseText.lean`): members of non-trivial
groups allow re-use; all readers of a non-last member are in its block; a non-first member is defined by an assignment in its block. -/
structure FInv (body : List (Nat × Stmt)) (blockOf : Nat → Nat) (reuse : Nat → Bool) (b : Nat) (pre : List Stmt)
    (grp : List Nat) : Prop where
  rng : ∀ x ∈ grp, x < grp.length
  ord : ∀ w1 w2, w1 ≠ w2 → ρOf grp w1 = ρOf grp w2 → Before (body.map (·.2)) w1 w2 ∨ Before (body.map (·.2)) w2 w1
  defd : ∀ w1 w2, w1 ≠ w2 → ρOf grp w1 = ρOf grp w2 → blockOf w1 = b → w1 ∈ outsOf pre
  blk : ∀ w1 w2, ρOf grp w1 = ρOf grp w2 → blockOf w1 = blockOf w2
  le : ∀ w1 w2, w1 ≠ w2 → ρOf grp w1 = ρOf grp w2 → blockOf w1 ≤ b
  ru : ∀ w1 w2, w1 ≠ w2 → ρOf grp w1 = ρOf grp w2 → reuse w1 = true
  rd : ∀ w1 w2, w1 ≠ w2 → ρOf grp w1 = ρOf grp w2 → Before (body.map (·.2)) w1 w2 →
    ∀ y ∈ body, w1 ∈ y.2.inputVars → y.1 = blockOf w1
  asg : ∀ w1 w2, w1 ≠ w2 → ρOf grp w1 = ρOf grp w2 → Before (body.map (·.2)) w1 w2 →
    ∃ bpre rhs eff brest, body = bpre ++ (blockOf w2, Stmt.assign w2 rhs eff) :: brest

theorem FInv.mono {body : List (Nat × Stmt)} {blockOf : Nat → Nat} {reuse : Nat → Bool} {b : Nat} {pre pre' : List Stmt}
    {grp : List Nat} (h : FInv body blockOf reuse b pre grp) (hsub : ∀ w ∈ outsOf pre, w ∈ outsOf pre') :
    FInv body blockOf reuse b pre' grp :=
  ⟨h.rng, h.ord, fun w1 w2 hne hs hb => hsub _ (h.defd w1 w2 hne hs hb), h.blk, h.le, h.ru, h.rd, h.asg⟩

/-- The next block: no variable of it is in a non-trivial group yet. -/
theorem FInv.next {body : List (Nat × Stmt)} {blockOf : Nat → Nat} {reuse : Nat → Bool} {b : Nat} {pre : List Stmt}
    {grp : List Nat} (h : FInv body blockOf reuse b pre grp) : FInv body blockOf reuse (b + 1) [] grp :=
  ⟨h.rng, h.ord, fun w1 w2 hne hs hb => by have := h.le w1 w2 hne hs; omega, h.blk,
   fun w1 w2 hne hs => Nat.le_succ_of_le (h.le w1 w2 hne hs), h.ru, h.rd, h.asg⟩

theorem FInv.init (body : List (Nat × Stmt)) (blockOf : Nat → Nat) (reuse : Nat → Bool) (n : Nat) :
    FInv body blockOf reuse 0 [] (List.range n) := by
  refine ⟨?_, ?_, ?_, ?_, ?_, ?_, ?_, ?_⟩
  · intro x hx; simpa using hx
  · intro w1 w2 hne hs; rw [ρOf_range, ρOf_range] at hs; exact absurd hs hne
  · intro w1 w2 hne hs; rw [ρOf_range, ρOf_range] at hs; exact absurd hs hne
  · intro w1 w2 hs; rw [ρOf_range, ρOf_range] at hs; rw [hs]
  · intro w1 w2 hne hs; rw [ρOf_range, ρOf_range] at hs; exact absurd hs hne
  · intro w1 w2 hne hs; rw [ρOf_range, ρOf_range] at hs; exact absurd hs hne
  · intro w1 w2 hne hs; rw [ρOf_range, ρOf_range] at hs; exact absurd hs hne
  · intro w1 w2 hne hs; rw [ρOf_range, ρOf_range] at hs; exact absurd hs hne

/-- **The merge step**: `o` is defined by the current statement (an assignment in block `b`), `v` is one of its inputs, defined
earlier, with no later reader and all readers in block `b`; both belong to block `b` and allow re-use.  Then merging the group of
`o` into the group of `v` keeps the invariant. -/
theorem FInv.merge {body : List (Nat × Stmt)} {blockOf : Nat → Nat} {reuse : Nat → Bool} {b : Nat} {grp : List Nat}
    {bpre : List (Nat × Stmt)} (hnd : (outsOf (body.map (·.2))).Nodup) (brest : List (Nat × Stmt)) (o : Nat) (rhs : E) (eff : Bool)
    (hbody : body = bpre ++ (b, Stmt.assign o rhs eff) :: brest)
    (hinv : FInv body blockOf reuse b (bpre.map (·.2)) grp) (v : Nat)
    (hv : v < grp.length) (ho : o < grp.length) (hvr : v ∈ rhs.vars) (hvdef : v ∈ outsOf (bpre.map (·.2)))
    (hdead : ∀ r ∈ brest.map (·.2), v ∉ r.inputVars) (hbv : blockOf v = b) (hbo : blockOf o = b)
    (hrv : reuse v = true) (hro : reuse o = true) (hrd : ∀ y ∈ body, v ∈ y.2.inputVars → y.1 = b) :
    FInv body blockOf reuse b (bpre.map (·.2) ++ [Stmt.assign o rhs eff]) (fuseGroups grp v o) := by
  have hP : body.map (·.2) = bpre.map (·.2) ++ Stmt.assign o rhs eff :: brest.map (·.2) := by rw [hbody]; simp
  generalize hPdef : body.map (·.2) = P at hP hnd
  have hordP := hinv.ord
  have hrdP := hinv.rd
  have hasgP := hinv.asg
  rw [hPdef] at hordP hrdP hasgP
  generalize hpre : bpre.map (·.2) = pre at hP hvdef hinv
  generalize hrest : brest.map (·.2) = rest at hP hdead
  have hsub : ∀ w ∈ outsOf pre, w ∈ outsOf (pre ++ [Stmt.assign o rhs eff]) := by
    intro w hw; rw [outsOf_append]; exact List.mem_append_left _ hw
  have ho_out : o ∈ (Stmt.assign o rhs eff).outputVars := by simp [Stmt.outputVars]
  have ho_new : o ∈ outsOf (pre ++ [Stmt.assign o rhs eff]) := by
    rw [outsOf_append]; exact List.mem_append_right _ (by simp [outsOf, Stmt.outputVars])
  by_cases hsame : ρOf grp v = ρOf grp o
  · have : fuseGroups grp v o = grp := by
      unfold fuseGroups
      dsimp only
      rw [if_pos (by simpa [ρOf] using hsame)]
    rw [this]
    exact hinv.mono hsub
  have hnd' := hnd
  rw [hP] at hnd'
  have hdisj := outs_disj pre rest _ hnd'
  have hρ := ρOf_fuseGroups grp hinv.rng v o ho
  have B0 : Before P v o := ⟨pre, _, rest, hP, ho_out, hvdef, hdead⟩
  -- the group of `o` is `{o}`
  have hsingle : ∀ a, ρOf grp a = ρOf grp o → a = o := by
    intro a h
    by_cases hao : a = o
    · exact hao
    · exact absurd ho_out (hdisj.1 o (hinv.defd o a (Ne.symm hao) h.symm hbo))
  -- `v` is the last member of its group
  have hmax : ∀ a, a ≠ v → ρOf grp a = ρOf grp v → Before P a v := by
    intro a hav h
    rcases hordP a v hav h with hb | hb
    · exact hb
    · exfalso
      obtain ⟨p, sa, ra, e, oa, _, dead⟩ := hb
      rcases split_tri pre p _ sa rest ra (hP.symm.trans e) with ⟨_, hs, _⟩ | ⟨mid, _, hr⟩ | ⟨mid, _, hr⟩
      · rw [← hs] at oa
        simp only [Stmt.outputVars, List.mem_singleton] at oa
        rw [oa] at h
        exact hsame h.symm
      · have ha1 : a ∈ outsOf pre := hinv.defd a v hav h (by rw [hinv.blk a v h]; exact hbv)
        refine hdisj.2.1 a ha1 ?_
        rw [hr]
        exact (mem_outsOf _ _).2 ⟨sa, by simp, oa⟩
      · refine dead (Stmt.assign o rhs eff) (by rw [hr]; simp) ?_
        simpa [Stmt.inputVars, Stmt.inputs] using hvr
  -- members of the group of `v` are defined by statements that were passed: `o` is not defined before any of them
  have hgdef : ∀ a, ρOf grp a = ρOf grp v → a ∈ outsOf pre := by
    intro a h
    by_cases hav : a = v
    · rw [hav]; exact hvdef
    · exact hinv.defd a v hav h (by rw [hinv.blk a v h]; exact hbv)
  have hnotBefore : ∀ a, ρOf grp a = ρOf grp v → ¬ Before P o a := by
    intro a h hb
    obtain ⟨p, t, r, e, at_, od, _⟩ := hb
    obtain ⟨mid, _, hr⟩ := split_prefix P hnd pre p rest r _ t o hP e ho_out od
    refine hdisj.2.1 a (hgdef a h) ?_
    rw [hr]
    exact (mem_outsOf _ _).2 ⟨t, by simp, at_⟩
  -- normal form: `o` joins the group of `v`
  have hnorm : ∀ w1 w2, ρOf (fuseGroups grp v o) w1 = ρOf (fuseGroups grp v o) w2 →
      ρOf grp (if w1 = o then v else w1) = ρOf grp (if w2 = o then v else w2) := by
    intro w1 w2 h
    rw [hρ w1, hρ w2] at h
    have f : ∀ w, (if ρOf grp w = ρOf grp o then ρOf grp v else ρOf grp w) = ρOf grp (if w = o then v else w) := by
      intro w
      by_cases hw : w = o
      · subst hw; simp
      · rw [if_neg hw, if_neg (fun hc => hw (hsingle w hc))]
    rw [f w1, f w2] at h
    exact h
  have hgrp : ∀ a, a ≠ v → ρOf grp a = ρOf grp v → Before P a o := fun a hav h => (hmax a hav h).trans hnd B0
  refine ⟨fuseGroups_rng grp hinv.rng v o hv, ?_, ?_, ?_, ?_, ?_, ?_, ?_⟩
  · rw [hPdef]
    intro w1 w2 hne h
    have h' := hnorm w1 w2 h
    by_cases h1 : w1 = o <;> by_cases h2 : w2 = o
    · exact absurd (h1.trans h2.symm) hne
    · rw [if_pos h1, if_neg h2] at h'
      subst h1
      by_cases h3 : w2 = v
      · subst h3; exact Or.inr B0
      · exact Or.inr (hgrp w2 h3 h'.symm)
    · rw [if_neg h1, if_pos h2] at h'
      subst h2
      by_cases h3 : w1 = v
      · subst h3; exact Or.inl B0
      · exact Or.inl (hgrp w1 h3 h')
    · rw [if_neg h1, if_neg h2] at h'
      exact hordP w1 w2 hne h'
  · intro w1 w2 hne h hb
    have h' := hnorm w1 w2 h
    by_cases h1 : w1 = o <;> by_cases h2 : w2 = o
    · exact absurd (h1.trans h2.symm) hne
    · rw [h1]; exact ho_new
    · rw [if_neg h1, if_pos h2] at h'
      exact hsub _ (hgdef w1 h')
    · rw [if_neg h1, if_neg h2] at h'
      exact hsub _ (hinv.defd w1 w2 hne h' hb)
  · intro w1 w2 h
    have h' := hnorm w1 w2 h
    by_cases h1 : w1 = o <;> by_cases h2 : w2 = o
    · rw [h1, h2]
    · rw [if_pos h1, if_neg h2] at h'
      rw [h1, hbo, ← hinv.blk v w2 h', hbv]
    · rw [if_neg h1, if_pos h2] at h'
      rw [h2, hbo, hinv.blk w1 v h', hbv]
    · rw [if_neg h1, if_neg h2] at h'
      exact hinv.blk w1 w2 h'
  · intro w1 w2 hne h
    have h' := hnorm w1 w2 h
    by_cases h1 : w1 = o <;> by_cases h2 : w2 = o
    · exact absurd (h1.trans h2.symm) hne
    · rw [h1, hbo]; exact Nat.le_refl _
    · rw [if_neg h1, if_pos h2] at h'
      rw [hinv.blk w1 v h', hbv]; exact Nat.le_refl _
    · rw [if_neg h1, if_neg h2] at h'
      exact hinv.le w1 w2 hne h'
  · intro w1 w2 hne h
    have h' := hnorm w1 w2 h
    by_cases h1 : w1 = o <;> by_cases h2 : w2 = o
    · exact absurd (h1.trans h2.symm) hne
    · rw [h1]; exact hro
    · rw [if_neg h1, if_pos h2] at h'
      by_cases h3 : w1 = v
      · rw [h3]; exact hrv
      · exact hinv.ru w1 v h3 h'
    · rw [if_neg h1, if_neg h2] at h'
      exact hinv.ru w1 w2 hne h'
  · rw [hPdef]
    intro w1 w2 hne h hB y hy hin
    have h' := hnorm w1 w2 h
    by_cases h1 : w1 = o <;> by_cases h2 : w2 = o
    · exact absurd (h1.trans h2.symm) hne
    · rw [if_pos h1, if_neg h2] at h'
      rw [h1] at hB
      exact absurd hB (hnotBefore w2 h'.symm)
    · rw [if_neg h1, if_pos h2] at h'
      by_cases h3 : w1 = v
      · rw [h3, hbv]; exact hrd y hy (by rw [← h3]; exact hin)
      · exact hrdP w1 v h3 h' (hmax w1 h3 h') y hy hin
    · rw [if_neg h1, if_neg h2] at h'
      exact hrdP w1 w2 hne h' hB y hy hin
  · rw [hPdef]
    intro w1 w2 hne h hB
    have h' := hnorm w1 w2 h
    by_cases h1 : w1 = o <;> by_cases h2 : w2 = o
    · exact absurd (h1.trans h2.symm) hne
    · rw [if_pos h1, if_neg h2] at h'
      rw [h1] at hB
      exact absurd hB (hnotBefore w2 h'.symm)
    · exact ⟨bpre, rhs, eff, brest, by rw [h2, hbo]; exact hbody⟩
    · rw [if_neg h1, if_neg h2] at h'
      exact hasgP w1 w2 hne h' hB

/-! ### The loop over the statements of a block -/

/-- The statements of block `b` that `GState.block` keeps in emission order. -/
def pb (b : Nat) (x : Nat × Stmt) : Bool := x.1 == b && !x.2.isImport && !x.2.isParam

/-- `variableid_to_dependentstatements`: (block, number) of the numbered statements that have `v` among their inputs. -/
def depsOf (all : List ((Nat × Stmt) × Nat)) (v : Nat) : List (Nat × Nat) :=
  all.filterMap (fun ((b, s), i) => if s.inputVars.contains v then some (b, i) else none)

theorem mem_depsOf (all : List ((Nat × Stmt) × Nat)) (b : Nat) (s : Stmt) (i v : Nat) (h : ((b, s), i) ∈ all)
    (hv : v ∈ s.inputVars) : (b, i) ∈ depsOf all v := by
  unfold depsOf
  exact List.mem_filterMap.2 ⟨((b, s), i), h, by simp [hv]⟩

theorem fuseStep_length (fc : FCfg) (hL : fc.checkLater = true) (hB : fc.checkBlock = true) (vars : List VarInfo)
    (deps : Nat → List (Nat × Nat)) (seen : List Nat) (s : Stmt) (grp : List Nat) :
    (fuseStep fc vars deps seen s grp).length = grp.length := by
  rcases fuseStep_cases fc hL hB vars deps seen s grp with h | ⟨v, o, _, _, _, _, _, _, _, h⟩
  · rw [h]
  · rw [h, fuseGroups_length]

/-- **The loop invariant along a block.**  `body`: all emitted statements with their blocks, in emission order; `rest`: the
part of it the loop has not passed; `lrest`: the numbered statements of block `b` the loop still has to handle (the statements of
`rest` that belong to block `b`); `seen`: numbers of the statements handled so far. -/
theorem fuseBlock_inv (fc : FCfg) (hL : fc.checkLater = true) (hB : fc.checkBlock = true) (vars : List VarInfo)
    (all : List ((Nat × Stmt) × Nat)) (body : List (Nat × Stmt))
    (hnd : (outsOf (body.map (·.2))).Nodup) (hcl : liveIn (body.map (·.2)) = [])
    (hR : ∀ x ∈ body, x.2.inputVars ≠ [] → ∃ i, (x, i) ∈ all) (b : Nat) :
    ∀ (rest pre lrest : List (Nat × Stmt)) (seen grp : List Nat), body = pre ++ rest →
      lrest.map (·.2) = (rest.filter (pb b)).map (·.2) → (∀ q ∈ lrest, ((b, q.2), q.1) ∈ all) →
      (lrest.map (·.1)).Nodup → (∀ q ∈ lrest, q.1 ∉ seen) → grp.length = vars.length →
      FInv body (blockOfV vars) (reuseV vars) b (pre.map (·.2)) grp →
      FInv body (blockOfV vars) (reuseV vars) b (body.map (·.2)) (fuseBlock fc vars (depsOf all) lrest seen grp) := by
  intro rest
  induction rest with
  | nil =>
    intro pre lrest seen grp hb hl _ _ _ _ hinv
    simp only [List.filter_nil, List.map_nil, List.map_eq_nil_iff] at hl
    subst hl
    rw [List.append_nil] at hb
    subst hb
    exact hinv
  | cons x rest' ih =>
    intro pre lrest seen grp hb hl hall hnodup hseen hlen hinv
    have hb' : body = (pre ++ [x]) ++ rest' := by rw [hb]; simp
    have hPsplit : body.map (·.2) = pre.map (·.2) ++ x.2 :: rest'.map (·.2) := by rw [hb]; simp
    have hsub : ∀ w ∈ outsOf (pre.map (·.2)), w ∈ outsOf ((pre ++ [x]).map (·.2)) := by
      intro w hw; rw [List.map_append, outsOf_append]; exact List.mem_append_left _ hw
    by_cases hp : pb b x = true
    · rw [List.filter_cons_of_pos hp, List.map_cons] at hl
      match lrest, hl, hall, hnodup, hseen with
      | [], hl, _, _, _ => simp at hl
      | (sid, s) :: lrest', hl, hall, hnodup, hseen =>
        simp only [List.map_cons, List.cons.injEq] at hl
        obtain ⟨hs, hl'⟩ := hl
        simp only [List.map_cons, List.nodup_cons] at hnodup
        rw [fuseBlock_cons]
        have hmem_all : ((b, s), sid) ∈ all := hall (sid, s) (by simp)
        apply ih (pre ++ [x]) lrest' (sid :: seen) _ hb' hl' (fun q hq => hall q (List.mem_cons_of_mem _ hq)) hnodup.2
        · intro q hq hc
          rcases List.mem_cons.1 hc with hc | hc
          · exact hnodup.1 (by rw [← hc]; exact List.mem_map.2 ⟨q, hq, rfl⟩)
          · exact hseen q (List.mem_cons_of_mem _ hq) hc
        · rw [fuseStep_length fc hL hB]; exact hlen
        · rcases fuseStep_cases fc hL hB vars (depsOf all) (sid :: seen) s grp with h | ⟨v, o, hoin, hvin, hrv, hro, hdB, hdL, hblk, h⟩
          · rw [h]; exact hinv.mono hsub
          · rw [h]
            obtain ⟨rhs, eff, hsa, hvr⟩ := Stmt.io s v o hvin hoin
            have hxs : x.2 = Stmt.assign o rhs eff := by rw [← hs, hsa]
            have hxb : x.1 = b := by
              simp only [pb, Bool.and_eq_true, beq_iff_eq] at hp
              exact hp.1.1
            have hx : x = (b, Stmt.assign o rhs eff) := by rw [← hxb, ← hxs]
            have hbv : blockOfV vars v = b := (hdB (b, sid) (mem_depsOf all b s sid v hmem_all hvin)).symm
            have hP : body.map (·.2) = pre.map (·.2) ++ Stmt.assign o rhs eff :: rest'.map (·.2) := by rw [hPsplit, hxs]
            have hvdef : v ∈ outsOf (pre.map (·.2)) := by
              apply live_defined (pre.map (·.2)) (Stmt.assign o rhs eff :: rest'.map (·.2)) (by rw [← hP]; exact hcl) v
              exact (mem_liveIn_cons _ _ _).2 (Or.inl (by simpa [Stmt.reads] using hvr))
            -- every statement that has `v` among its inputs lies in block `b` …
            have hrd : ∀ y ∈ body, v ∈ y.2.inputVars → y.1 = b := by
              intro y hy hvr'
              obtain ⟨i, hi⟩ := hR y hy (by intro hc; rw [hc] at hvr'; simp at hvr')
              have := hdB (y.1, i) (mem_depsOf all y.1 y.2 i v hi hvr')
              simp only at this
              rw [this, hbv]
            -- … and has been handled by the loop
            have hdead : ∀ r ∈ rest'.map (·.2), v ∉ r.inputVars := by
              intro r hr hvr'
              obtain ⟨y, hy, rfl⟩ := List.mem_map.1 hr
              have hybody : y ∈ body := by rw [hb]; exact List.mem_append_right _ (List.mem_cons_of_mem _ hy)
              have hyb : y.1 = b := hrd y hybody hvr'
              have hkind := Stmt.inputVars_kind y.2 v hvr'
              have hpy : pb b y = true := by simp [pb, hyb, hkind.1, hkind.2]
              have : y.2 ∈ lrest'.map (·.2) := by
                rw [hl']
                exact List.mem_map.2 ⟨y, List.mem_filter.2 ⟨hy, hpy⟩, rfl⟩
              obtain ⟨q, hq, hqe⟩ := List.mem_map.1 this
              have hq_all := hall q (List.mem_cons_of_mem _ hq)
              have := hdL (b, q.1) (mem_depsOf all b q.2 q.1 v hq_all (by rw [hqe]; exact hvr'))
              simp only at this
              rcases List.mem_cons.1 this with hc | hc
              · exact hnodup.1 (by rw [← hc]; exact List.mem_map.2 ⟨q, hq, rfl⟩)
              · exact hseen q (List.mem_cons_of_mem _ hq) hc
            have hvlt : v < grp.length := by rw [hlen]; exact reuseV_lt vars v hrv
            have holt : o < grp.length := by rw [hlen]; exact reuseV_lt vars o hro
            have := FInv.merge hnd rest' o rhs eff (by rw [hb, hx]) hinv v hvlt holt hvr hvdef hdead hbv
              (by rw [← hblk]; exact hbv) hrv hro hrd
            simpa [List.map_append, hxs] using this
    · rw [List.filter_cons_of_neg hp] at hl
      exact ih (pre ++ [x]) lrest seen grp hb' hl hall hnodup hseen hlen (hinv.mono hsub)

theorem fuseBlock_length (fc : FCfg) (hL : fc.checkLater = true) (hB : fc.checkBlock = true) (vars : List VarInfo)
    (deps : Nat → List (Nat × Nat)) : ∀ (l : List (Nat × Stmt)) (seen grp : List Nat),
    (fuseBlock fc vars deps l seen grp).length = grp.length
  | [], _, _ => rfl
  | (sid, s) :: l, seen, grp => by
    rw [fuseBlock_cons, fuseBlock_length fc hL hB vars deps l, fuseStep_length fc hL hB]

/-- **One block.**  `L`: the numbered statements of block `b` in text order: a header of statements without inputs (comments,
imports) followed by the statements of `body` that belong to the block, in emission order. -/
theorem fuseBlock_block (fc : FCfg) (hL : fc.checkLater = true) (hB : fc.checkBlock = true) (vars : List VarInfo)
    (all : List ((Nat × Stmt) × Nat)) (body : List (Nat × Stmt))
    (hnd : (outsOf (body.map (·.2))).Nodup) (hcl : liveIn (body.map (·.2)) = [])
    (hR : ∀ x ∈ body, x.2.inputVars ≠ [] → ∃ i, (x, i) ∈ all) (b : Nat)
    (L : List (Nat × Stmt)) (hdr : List Stmt) (hhdr : ∀ s ∈ hdr, s.inputVars = [])
    (hLs : L.map (·.2) = hdr ++ (body.filter (pb b)).map (·.2)) (hLall : ∀ q ∈ L, ((b, q.2), q.1) ∈ all)
    (hLnd : (L.map (·.1)).Nodup) (grp : List Nat) (hlen : grp.length = vars.length)
    (hinv : FInv body (blockOfV vars) (reuseV vars) b [] grp) :
    FInv body (blockOfV vars) (reuseV vars) b (body.map (·.2)) (fuseBlock fc vars (depsOf all) L [] grp) := by
  obtain ⟨L1, L2, hL12, h1, h2⟩ := List.map_eq_append_iff.1 hLs
  subst hL12
  rw [fuseBlock_noinputs fc vars (depsOf all) L1 L2 [] grp (by
    intro q hq
    exact hhdr q.2 (by rw [← h1]; exact List.mem_map.2 ⟨q, hq, rfl⟩))]
  rw [List.map_append, List.nodup_append] at hLnd
  apply fuseBlock_inv fc hL hB vars all body hnd hcl hR b body [] L2 _ grp (by simp) h2
    (fun q hq => hLall q (List.mem_append_right _ hq)) hLnd.2.1 ?_ hlen (by simpa using hinv)
  intro q hq hc
  simp only [List.append_nil, List.mem_reverse] at hc
  exact hLnd.2.2 _ hc _ (List.mem_map.2 ⟨q, hq, rfl⟩) rfl

end Einx.Compile
