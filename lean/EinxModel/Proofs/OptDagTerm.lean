import EinxModel.Proofs.OptDagBasic
/-!
The fuel of `Optimize/Dag.lean` is sufficient: on a topologically ordered store (operands before consumers -- the order in
which tracers are created) no function of the model returns `Err.fuel` when given the fuel the model gives it
(`skipChain S (i + 1) i`, `dependsOn S (nodes + 1)`, `optTok … p.fuel`).  `NF r` = "`r` is not the fuel error".
-/
namespace Einx.OptDag

def NF {α : Type} (r : R α) : Prop := r ≠ .error .fuel

theorem NF_ok {α : Type} (a : α) : NF (Except.ok a : R α) := by intro h; cases h
theorem NF_pure {α : Type} (a : α) : NF (pure a : R α) := by intro h; cases h
theorem NF_py {α : Type} (e : String) : NF (throw (.py e) : R α) := by intro h; cases h
theorem NF_unsupported {α : Type} (e : String) : NF (throw (.unsupported e) : R α) := by intro h; cases h

theorem NF_bind {α β : Type} (m : R α) (f : α → R β) (hm : NF m) (hf : ∀ a, m = .ok a → NF (f a)) : NF (m >>= f) := by
  cases m with
  | error e =>
    intro h
    simp only [bind, Except.bind] at h
    injection h with h
    subst h
    exact hm rfl
  | ok a => simpa [bind, Except.bind] using hf a rfl

theorem NF_mapM {α β : Type} (f : α → R β) : ∀ (l : List α), (∀ x ∈ l, NF (f x)) → NF (l.mapM f)
  | [], _ => by simp only [List.mapM_nil]; exact NF_pure _
  | x :: xs, h => by
    simp only [List.mapM_cons]
    refine NF_bind _ _ (h x (by simp)) ?_
    intro b _
    refine NF_bind _ _ (NF_mapM f xs (fun y hy => h y (by simp [hy]))) ?_
    intro bs _
    exact NF_pure _

theorem NF_anyM {α : Type} (f : α → R Bool) : ∀ (l : List α), (∀ x ∈ l, NF (f x)) → NF (l.anyM f)
  | [], _ => by simp only [List.anyM]; exact NF_pure _
  | x :: xs, h => by
    simp only [List.anyM]
    refine NF_bind _ _ (h x (by simp)) ?_
    intro b _
    cases b with
    | true => exact NF_pure _
    | false => exact NF_anyM f xs (fun y hy => h y (by simp [hy]))

/-! ### Topological order -/

theorem toksLt_mono {n m : Nat} (h : n ≤ m) (v : List Tok) (hv : toksLt n v = true) : toksLt m v = true := by
  simp only [toksLt, List.all_eq_true] at hv ⊢
  intro t ht
  have := hv t ht
  cases t with
  | ref j => simp only [decide_eq_true_eq] at this ⊢; omega
  | gref k => exact this
  | atom a => rfl
  | open_ c k => rfl

theorem toksLt_ref {n j : Nat} (h : toksLt n [.ref j] = true) : j < n := by
  simpa [toksLt] using h

theorem toksLt_mem {n : Nat} {v : List Tok} (h : toksLt n v = true) (t : Tok) (ht : t ∈ v) : toksLt n [t] = true := by
  simp only [toksLt, List.all_eq_true] at h ⊢
  intro t' ht'
  simp at ht'
  rw [ht']
  exact h t ht

theorem operandsLt_mono {n m : Nat} (h : n ≤ m) (a : App) (ha : a.operandsLt n = true) : a.operandsLt m = true := by
  simp only [App.operandsLt, List.all_eq_true] at ha ⊢
  intro v hv
  exact toksLt_mono h v (ha v hv)

theorem operand_lt {a : App} {n : Nat} (h : a.operandsLt n = true) (v : List Tok) (hv : v ∈ a.operands) : toksLt n v = true := by
  simp only [App.operandsLt, List.all_eq_true] at h
  exact h v hv

theorem pre_mem (a : App) (v : List Tok) (h : v ∈ a.pre) : v ∈ a.operands := by simp [App.operands, h]
theorem args_mem (a : App) (v : List Tok) (h : v ∈ a.args) : v ∈ a.operands := by simp [App.operands, h]

theorem firstRef_mem : ∀ (v : List Tok) (i : Nat), firstRef v = some i → Tok.ref i ∈ v
  | [], _, h => by simp [firstRef] at h
  | t :: ts, i, h => by
    cases t with
    | ref j => simp [firstRef] at h; subst h; simp
    | gref k => simp only [firstRef] at h; exact List.mem_cons_of_mem _ (firstRef_mem ts i h)
    | atom a => simp only [firstRef] at h; exact List.mem_cons_of_mem _ (firstRef_mem ts i h)
    | open_ c k => simp only [firstRef] at h; exact List.mem_cons_of_mem _ (firstRef_mem ts i h)

theorem directInputs_lt (a : App) (n : Nat) (h : a.operandsLt n = true) : ∀ j ∈ a.directInputs, j < n := by
  intro j hj
  have single : ∀ (vs : List (List Tok)), (∀ v ∈ vs, toksLt n v = true) →
      ∀ j ∈ vs.filterMap (fun v => match v with | [.ref i] => some i | _ => none), j < n := by
    intro vs hvs j hj
    simp only [List.mem_filterMap] at hj
    obtain ⟨v, hv, hm⟩ := hj
    split at hm
    · simp only [Option.some.injEq] at hm
      subst hm
      exact toksLt_ref (hvs _ hv)
    · cases hm
  have hall : ∀ v ∈ a.operands, toksLt n v = true := fun v hv => operand_lt h v hv
  unfold App.directInputs at hj
  split at hj
  · split at hj
    · rename_i xs rest hp
      rcases List.mem_append.1 hj with hj | hj
      · simp only [List.mem_filterMap] at hj
        obtain ⟨t, ht, hm⟩ := hj
        split at hm
        · simp only [Option.some.injEq] at hm
          subst hm
          exact toksLt_ref (toksLt_mem (hall xs (pre_mem a _ (by simp [hp]))) _ ht)
        · cases hm
      · exact single rest (fun v hv => hall v (pre_mem a _ (by simp [hp, hv]))) j hj
    · simp at hj
  · exact single _ (fun v hv => hall v (by simpa [App.operands] using hv)) j hj

section
variable (S : Store) (hT : S.topo = true)
include hT

theorem topo_app (i : Nat) (ty : Ty) (a : App) (h : S.nodes[i]? = some ⟨ty, .app a⟩) : a.operandsLt i = true := by
  have hi : i < S.nodes.length := (List.getElem?_eq_some_iff.1 h).1
  simp only [Store.topo, List.all_eq_true, List.mem_range] at hT
  have := hT i hi
  simpa [h] using this

theorem topo_proj (i : Nat) (ty : Ty) (s k : Nat) (h : S.nodes[i]? = some ⟨ty, .proj s k⟩) : s < i := by
  have hi : i < S.nodes.length := (List.getElem?_eq_some_iff.1 h).1
  simp only [Store.topo, List.all_eq_true, List.mem_range] at hT
  have := hT i hi
  simpa [h] using this

/-- `x.origin` of tracer `i`: its operands are below `i`. -/
theorem appOf_lt (i : Nat) (a : App) (base k : Nat) (h : S.appOf i = some (a, base, k)) : a.operandsLt i = true ∧ base ≤ i := by
  unfold Store.appOf at h
  split at h
  · rename_i ty a' hn
    simp only [Option.some.injEq, Prod.mk.injEq] at h
    obtain ⟨rfl, rfl, rfl⟩ := h
    exact ⟨topo_app S hT i ty _ hn, Nat.le_refl _⟩
  · rename_i ty src k' hn
    have hs := topo_proj S hT i ty src k' hn
    split at h
    · rename_i ty2 a' hn2
      simp only [Option.some.injEq, Prod.mk.injEq] at h
      obtain ⟨rfl, rfl, rfl⟩ := h
      exact ⟨operandsLt_mono (Nat.le_of_lt hs) _ (topo_app S hT _ ty2 _ hn2), Nat.le_of_lt hs⟩
    · cases h
  · cases h

/-! ### `skipChain`, `_skip_id` -/

theorem skipChain_nf : ∀ (f i : Nat), i < f → NF (skipChain S f i)
  | 0, _, h => by omega
  | f + 1, i, h => by
    unfold skipChain
    split
    · rename_i ty a hn
      split
      · split
        · rename_i j hp
          have hlt : j < i := by
            have := operand_lt (topo_app S hT i ty a hn) [.ref j] (pre_mem a _ (by simp [hp]))
            exact toksLt_ref this
          exact skipChain_nf f j (by omega)
        · exact NF_unsupported _
      · exact NF_pure _
    · exact NF_pure _

theorem skipChain_le : ∀ (f i j : Nat), skipChain S f i = .ok j → j ≤ i
  | 0, _, _, h => by simp [skipChain, throw, throwThe, MonadExceptOf.throw] at h
  | f + 1, i, j, h => by
    unfold skipChain at h
    split at h
    · rename_i ty a hn
      split at h
      · split at h
        · rename_i k hp
          have hlt : k < i := by
            have := operand_lt (topo_app S hT i ty a hn) [.ref k] (pre_mem a _ (by simp [hp]))
            exact toksLt_ref this
          have := skipChain_le f k j h
          omega
        · cases h
      · simp only [pure, Except.pure, Except.ok.injEq] at h; omega
    · simp only [pure, Except.pure, Except.ok.injEq] at h; omega

theorem skipLeaf_nf (t : Tok) : NF (skipLeaf S t) := by
  unfold skipLeaf
  split
  · rename_i i
    refine NF_bind _ _ (skipChain_nf S hT _ i (by omega)) ?_
    intro j _
    exact NF_pure _
  · exact NF_pure _

theorem skipLeaf_lt (n : Nat) (t t' : Tok) (h : skipLeaf S t = .ok t') (ht : toksLt n [t] = true) : toksLt n [t'] = true := by
  unfold skipLeaf at h
  split at h
  · rename_i i
    obtain ⟨j, hj, h⟩ := bind_ok.1 h
    simp only [pure, Except.pure, Except.ok.injEq] at h
    subst h
    have := skipChain_le S hT _ i j hj
    have hi := toksLt_ref ht
    simp [toksLt]; omega
  · simp only [pure, Except.pure, Except.ok.injEq] at h
    subst h; exact ht

theorem skipIdLeaves_nf (v : List Tok) : NF (skipIdLeaves S v) := by
  unfold skipIdLeaves
  split
  · split
    · exact NF_pure _
    · exact NF_bind _ _ (skipLeaf_nf S hT _) (fun _ _ => NF_pure _)
  · split
    · exact NF_unsupported _
    · exact NF_bind _ _ (NF_mapM _ _ (fun t _ => skipLeaf_nf S hT t)) (fun _ _ => NF_pure _)
  · split
    · exact NF_unsupported _
    · exact NF_bind _ _ (NF_mapM _ _ (fun t _ => skipLeaf_nf S hT t)) (fun _ _ => NF_pure _)
  · exact NF_unsupported _

theorem skipIdCast_nf (v : List Tok) : NF (skipIdCast S v) := by
  unfold skipIdCast
  split
  · exact NF_pure _
  · split
    · split
      · split
        · rename_i j hp
          exact NF_bind _ _ (skipChain_nf S hT _ j (by omega)) (fun _ _ => NF_pure _)
        · exact NF_unsupported _
      · exact NF_pure _
    · exact NF_pure _

theorem skipId_nf (v : List Tok) : NF (skipId S v) := by
  unfold skipId
  exact NF_bind _ _ (skipIdLeaves_nf S hT v) (fun v' _ => skipIdCast_nf S hT v')

theorem mapM_skipLeaf_lt (n : Nat) : ∀ (l l' : List Tok), l.mapM (skipLeaf S) = .ok l' → toksLt n l = true → toksLt n l' = true
  | [], l', h, _ => by
    simp only [List.mapM_nil, pure, Except.pure, Except.ok.injEq] at h
    subst h; rfl
  | t :: ts, l', h, hl => by
    simp only [List.mapM_cons] at h
    obtain ⟨t', ht', h⟩ := bind_ok.1 h
    obtain ⟨ts', hts', h⟩ := bind_ok.1 h
    simp only [pure, Except.pure, Except.ok.injEq] at h
    subst h
    have h1 : toksLt n [t] = true := toksLt_mem hl t (by simp)
    have h2 : toksLt n ts = true := by
      simp only [toksLt, List.all_cons, Bool.and_eq_true] at hl ⊢
      exact hl.2
    have e1 := skipLeaf_lt S hT n t t' ht' h1
    have e2 := mapM_skipLeaf_lt n ts ts' hts' h2
    simp only [toksLt, List.all_cons, List.all_nil, Bool.and_true, Bool.and_eq_true] at e1 e2 ⊢
    exact ⟨e1, e2⟩

/-- `_skip_id` only moves towards earlier tracers. -/
theorem skipId_lt (n : Nat) (v v' : List Tok) (h : skipId S v = .ok v') (hv : toksLt n v = true) : toksLt n v' = true := by
  unfold skipId at h
  obtain ⟨w, hw, h⟩ := bind_ok.1 h
  have hwlt : toksLt n w = true := by
    unfold skipIdLeaves at hw
    split at hw
    · rename_i t
      split at hw
      · simp only [pure, Except.pure, Except.ok.injEq] at hw; subst hw; exact hv
      · obtain ⟨t', ht', hw⟩ := bind_ok.1 hw
        simp only [pure, Except.pure, Except.ok.injEq] at hw
        subst hw
        exact skipLeaf_lt S hT n t t' ht' hv
    · rename_i k rest _
      split at hw
      · cases hw
      · obtain ⟨ts, hts, hw⟩ := bind_ok.1 hw
        simp only [pure, Except.pure, Except.ok.injEq] at hw
        subst hw
        have h2 : toksLt n rest = true := by
          simp only [toksLt, List.all_cons, Bool.and_eq_true] at hv ⊢
          exact hv.2
        have := mapM_skipLeaf_lt S hT n rest ts hts h2
        simp only [toksLt, List.take, List.cons_append, List.nil_append, List.all_cons, Bool.true_and] at this ⊢
        exact this
    · rename_i k rest _
      split at hw
      · cases hw
      · obtain ⟨ts, hts, hw⟩ := bind_ok.1 hw
        simp only [pure, Except.pure, Except.ok.injEq] at hw
        subst hw
        have h2 : toksLt n rest = true := by
          simp only [toksLt, List.all_cons, Bool.and_eq_true] at hv ⊢
          exact hv.2
        have := mapM_skipLeaf_lt S hT n rest ts hts h2
        simp only [toksLt, List.take, List.cons_append, List.nil_append, List.all_cons, Bool.true_and] at this ⊢
        exact this
    · cases hw
  unfold skipIdCast at h
  split at h
  · simp only [pure, Except.pure, Except.ok.injEq] at h; subst h; exact hwlt
  · rename_i i hfr
    have hi : i < n := toksLt_ref (toksLt_mem hwlt _ (firstRef_mem w i hfr))
    split at h
    · rename_i a base k ha
      obtain ⟨hlt, _⟩ := appOf_lt S hT i a base k ha
      split at h
      · split at h
        · rename_i j hp
          obtain ⟨j', hj', h⟩ := bind_ok.1 h
          simp only [pure, Except.pure, Except.ok.injEq] at h
          subst h
          have hj : j < i := toksLt_ref (operand_lt hlt [.ref j] (pre_mem a _ (by simp [hp])))
          have := skipChain_le S hT _ j j' hj'
          simp [toksLt]; omega
        · cases h
      · simp only [pure, Except.pure, Except.ok.injEq] at h; subst h; exact hwlt
    · simp only [pure, Except.pure, Except.ok.injEq] at h; subst h; exact hwlt

/-! ### `depends_on` -/

theorem dependsOn_nf : ∀ (f x p : Nat), x < f → NF (dependsOn S f x p)
  | 0, _, _, h => by omega
  | f + 1, x, p, h => by
    unfold dependsOn
    split
    · exact NF_pure _
    · split
      · rename_i a base k ha
        obtain ⟨hlt, _⟩ := appOf_lt S hT x a base k ha
        refine NF_anyM _ _ ?_
        intro j hj
        exact dependsOn_nf f j p (by have := directInputs_lt a x hlt j hj; omega)
      · exact NF_pure _

end

end Einx.OptDag

namespace Einx.OptDag

/-! ### Pattern decisions: no fuel error, and the tokens of an action are below the tracer it fired on -/

theorem argAt_nf (a : App) (k : Nat) : NF (argAt a k) := by
  unfold argAt
  split
  · exact NF_pure _
  · exact NF_py _

theorem argAt_mem (a : App) (k : Nat) (v : List Tok) (h : argAt a k = .ok v) : v ∈ a.operands := by
  unfold argAt at h
  split at h
  · rename_i w hw
    simp only [pure, Except.pure, Except.ok.injEq] at h
    subst h
    exact args_mem a _ (List.mem_of_getElem? hw)
  · cases h

theorem shapeOf_nf (S : Store) (v : List Tok) : NF (S.shapeOf v) := by
  unfold Store.shapeOf
  split
  · split
    · exact NF_pure _
    · exact NF_pure _
    · exact NF_py _
    · exact NF_py _
  · exact NF_py _

theorem noopTest_nf (S : Store) (input lit : List Tok) (test : List Nat → List Nat → Bool) : NF (noopTest S input lit test) := by
  unfold noopTest
  split
  · exact NF_bind _ _ (shapeOf_nf S input) (fun _ _ => NF_pure _)
  · exact NF_pure _

/-- The tokens of an action are tracers below `n` (no nested graphs). -/
def Action.lt (n : Nat) : Action → Prop
  | .fwd v => toksLt n v = true
  | .merge fn x lit => toksLt n fn = true ∧ toksLt n x = true ∧ True

section
variable (S : Store) (hT : S.topo = true)
include hT

theorem callOf_lt (v : List Tok) (pat : FnPat) (a : App) (n : Nat) (h : S.callOf v pat = some a) (hv : toksLt n v = true) :
    a.operandsLt n = true ∧ ∃ f, a.pre = [f] := by
  unfold Store.callOf at h
  split at h
  · rename_i i
    split at h
    · rename_i a' base k ha
      split at h
      · split at h
        · rename_i f hp
          split at h
          · simp only [Option.some.injEq] at h
            subst h
            have hi := toksLt_ref hv
            exact ⟨operandsLt_mono (Nat.le_of_lt hi) _ (appOf_lt S hT i a' base k ha).1, f, hp⟩
          · cases h
        · cases h
      · cases h
    · cases h
  · cases h

theorem unaryCallOf_nf (pat : FnPat) (i : Nat) : NF (unaryCallOf S pat i) := by
  unfold unaryCallOf
  split
  · exact NF_pure _
  · refine NF_bind _ _ (argAt_nf _ 0) ?_
    intro input _
    split
    · exact NF_pure _
    · exact NF_bind _ _ (argAt_nf _ 1) (fun _ _ => NF_pure _)

theorem unaryCallOf_lt (pat : FnPat) (i : Nat) (a : App) (input lit : List Tok) (h : unaryCallOf S pat i = .ok (some (a, input, lit))) :
    a.operandsLt i = true ∧ toksLt i input = true ∧ ∃ f, a.pre = [f] := by
  unfold unaryCallOf at h
  split at h
  · cases h
  · rename_i a' hc
    obtain ⟨input', hi, h⟩ := bind_ok.1 h
    split at h
    · cases h
    · obtain ⟨lit', hl, h⟩ := bind_ok.1 h
      simp only [pure, Except.pure, Except.ok.injEq, Option.some.injEq, Prod.mk.injEq] at h
      obtain ⟨rfl, rfl, rfl⟩ := h
      obtain ⟨hlt, hf⟩ := callOf_lt S hT [.ref i] pat a' (i + 1) hc (by simp [toksLt])
      -- the operands of node `i` itself are below `i`
      have hlt' : a'.operandsLt i = true := by
        unfold Store.callOf at hc
        simp only at hc
        split at hc
        · rename_i a'' base k ha
          split at hc
          · split at hc
            · split at hc
              · simp only [Option.some.injEq] at hc
                subst hc
                exact (appOf_lt S hT i a'' base k ha).1
              · cases hc
            · cases hc
          · cases hc
        · cases hc
      exact ⟨hlt', operand_lt hlt' _ (argAt_mem _ 0 _ hi), hf⟩

theorem innerCall_nf (pat : FnPat) (input : List Tok) : NF (innerCall S pat input) := by
  unfold innerCall
  exact NF_bind _ _ (skipId_nf S hT input) (fun _ _ => NF_pure _)

theorem innerCall_lt (pat : FnPat) (input : List Tok) (a2 : App) (n : Nat) (h : innerCall S pat input = .ok (some a2))
    (hi : toksLt n input = true) : a2.operandsLt n = true := by
  unfold innerCall at h
  obtain ⟨input', h1, h⟩ := bind_ok.1 h
  simp only [pure, Except.pure, Except.ok.injEq] at h
  exact (callOf_lt S hT input' pat a2 n h (skipId_lt S hT n input input' h1 hi)).1

theorem decideReshape_nf (pat : FnPat) (i : Nat) : NF (decideReshape S pat i) := by
  unfold decideReshape
  refine NF_bind _ _ (unaryCallOf_nf S hT pat i) ?_
  intro u _
  split
  · exact NF_pure _
  · refine NF_bind _ _ (noopTest_nf S _ _ _) ?_
    intro b _
    split
    · exact NF_pure _
    · refine NF_bind _ _ (innerCall_nf S hT pat _) ?_
      intro r _
      split
      · refine NF_bind _ _ (argAt_nf _ 0) ?_
        intro ioi _
        split
        · split
          · exact NF_pure _
          · exact NF_unsupported _
        · exact NF_pure _
      · exact NF_pure _

theorem decideReshape_lt (pat : FnPat) (i : Nat) (act : Action) (h : decideReshape S pat i = .ok (some act)) : act.lt i := by
  unfold decideReshape at h
  obtain ⟨u, hu, h⟩ := bind_ok.1 h
  split at h
  · cases h
  · rename_i a input shape
    obtain ⟨hlt, hin, _⟩ := unaryCallOf_lt S hT pat i a input shape hu
    obtain ⟨noop, _, h⟩ := bind_ok.1 h
    split at h
    · simp only [pure, Except.pure, Except.ok.injEq, Option.some.injEq] at h
      subst h; exact hin
    · obtain ⟨inner, hinner, h⟩ := bind_ok.1 h
      split at h
      · rename_i a2
        obtain ⟨ioi, hioi, h⟩ := bind_ok.1 h
        split at h
        · rename_i f hf
          split at h
          · simp only [pure, Except.pure, Except.ok.injEq, Option.some.injEq] at h
            subst h
            have h2 := innerCall_lt S hT pat input a2 i hinner hin
            exact ⟨operand_lt hlt f (pre_mem a _ (by simp [hf])), operand_lt h2 _ (argAt_mem _ 0 _ hioi), trivial⟩
          · cases h
        · cases h
      · cases h

theorem decideTranspose_nf (pat : FnPat) (i : Nat) : NF (decideTranspose S pat i) := by
  unfold decideTranspose
  refine NF_bind _ _ (unaryCallOf_nf S hT pat i) ?_
  intro u _
  split
  · exact NF_pure _
  · refine NF_bind _ _ (noopTest_nf S _ _ _) ?_
    intro b _
    split
    · exact NF_pure _
    · refine NF_bind _ _ (innerCall_nf S hT pat _) ?_
      intro r _
      split
      · refine NF_bind _ _ (argAt_nf _ 0) ?_
        intro ioi _
        refine NF_bind _ _ (argAt_nf _ 1) ?_
        intro perm1 _
        split
        · split
          · split
            · split
              · exact NF_pure _
              · exact NF_unsupported _
            · exact NF_pure _
          · exact NF_py _
        · exact NF_unsupported _
      · exact NF_pure _

theorem decideTranspose_lt (pat : FnPat) (i : Nat) (act : Action) (h : decideTranspose S pat i = .ok (some act)) : act.lt i := by
  unfold decideTranspose at h
  obtain ⟨u, hu, h⟩ := bind_ok.1 h
  split at h
  · cases h
  · rename_i a input perm
    obtain ⟨hlt, hin, _⟩ := unaryCallOf_lt S hT pat i a input perm hu
    obtain ⟨noop, _, h⟩ := bind_ok.1 h
    split at h
    · simp only [pure, Except.pure, Except.ok.injEq, Option.some.injEq] at h
      subst h; exact hin
    · obtain ⟨inner, hinner, h⟩ := bind_ok.1 h
      split at h
      · rename_i a2
        obtain ⟨ioi, hioi, h⟩ := bind_ok.1 h
        obtain ⟨perm1, _, h⟩ := bind_ok.1 h
        split at h
        · split at h
          · split at h
            · rename_i f hf
              split at h
              · simp only [pure, Except.pure, Except.ok.injEq, Option.some.injEq] at h
                subst h
                have h2 := innerCall_lt S hT pat input a2 i hinner hin
                exact ⟨operand_lt hlt f (pre_mem a _ (by simp [hf])), operand_lt h2 _ (argAt_mem _ 0 _ hioi), trivial⟩
              · cases h
            · cases h
          · cases h
        · cases h
      · cases h

theorem decideBroadcast_nf (pat : FnPat) (i : Nat) : NF (decideBroadcast S pat i) := by
  unfold decideBroadcast
  refine NF_bind _ _ (unaryCallOf_nf S hT pat i) ?_
  intro u _
  split
  · exact NF_pure _
  · refine NF_bind _ _ (noopTest_nf S _ _ _) ?_
    intro b _
    split
    · exact NF_pure _
    · exact NF_pure _

theorem decideBroadcast_lt (pat : FnPat) (i : Nat) (act : Action) (h : decideBroadcast S pat i = .ok (some act)) : act.lt i := by
  unfold decideBroadcast at h
  obtain ⟨u, hu, h⟩ := bind_ok.1 h
  split at h
  · cases h
  · rename_i a input shape
    obtain ⟨_, hin, _⟩ := unaryCallOf_lt S hT pat i a input shape hu
    obtain ⟨noop, _, h⟩ := bind_ok.1 h
    split at h
    · simp only [pure, Except.pure, Except.ok.injEq, Option.some.injEq] at h
      subst h; exact hin
    · cases h

omit hT in
theorem decideConcat_nf (pat : FnPat) (i : Nat) : NF (decideConcat S pat i) := by
  unfold decideConcat
  split
  · exact NF_pure _
  · refine NF_bind _ _ (argAt_nf _ 0) ?_
    intro t _
    split
    · split
      · exact NF_pure _
      · exact NF_pure _
    · split
      · exact NF_pure _
      · exact NF_pure _
    · exact NF_pure _

theorem decideConcat_lt (pat : FnPat) (i : Nat) (act : Action) (h : decideConcat S pat i = .ok (some act)) : act.lt i := by
  unfold decideConcat at h
  split at h
  · cases h
  · rename_i a hc
    obtain ⟨tensors, ht, h⟩ := bind_ok.1 h
    have hlt : a.operandsLt i = true := by
      unfold Store.callOf at hc
      simp only at hc
      split at hc
      · rename_i a'' base k ha
        split at hc
        · split at hc
          · split at hc
            · simp only [Option.some.injEq] at hc
              subst hc
              exact (appOf_lt S hT i a'' base k ha).1
            · cases hc
          · cases hc
        · cases hc
      · cases hc
    have hten := operand_lt hlt _ (argAt_mem _ 0 _ ht)
    have tail : ∀ (t : Tok) (rest : List Tok), tensors = t :: rest → toksLt i rest = true := by
      intro t rest e
      subst e
      simp only [toksLt, List.all_cons, Bool.and_eq_true] at hten ⊢
      exact hten.2
    split at h
    · rename_i n rest
      split at h
      · simp only [pure, Except.pure, Except.ok.injEq, Option.some.injEq] at h
        subst h; exact tail _ rest rfl
      · cases h
    · rename_i n rest
      split at h
      · simp only [pure, Except.pure, Except.ok.injEq, Option.some.injEq] at h
        subst h; exact tail _ rest rfl
      · cases h
    · cases h

omit hT in
theorem decideCast_nf (i : Nat) : NF (decideCast S i) := by
  unfold decideCast
  split
  · split
    · split
      · split
        · exact NF_pure _
        · exact NF_pure _
      · exact NF_pure _
    · exact NF_pure _
  · exact NF_pure _

theorem decideCast_lt (i : Nat) (act : Action) (h : decideCast S i = .ok (some act)) : act.lt i := by
  unfold decideCast at h
  split at h
  · rename_i a base k ha
    obtain ⟨hlt, _⟩ := appOf_lt S hT i a base k ha
    split at h
    · split at h
      · rename_i j hp
        split at h
        · simp only [pure, Except.pure, Except.ok.injEq, Option.some.injEq] at h
          subst h
          exact operand_lt hlt _ (pre_mem a _ (by simp [hp]))
        · cases h
      · cases h
    · cases h
  · cases h

theorem decideInline_nf (k : Nat) : NF (decideInline S (S.nodes.length + 1) k) := by
  unfold decideInline
  split
  · exact NF_unsupported _
  · rename_i g hg
    refine NF_bind _ _ (skipId_nf S hT _) ?_
    intro output _
    split
    · split
      · split
        · refine NF_bind _ _ (NF_mapM _ _ (fun v _ => skipId_nf S hT v)) ?_
          intro fins _
          split
          · exact NF_pure _
          · split
            · rename_i f hf
              refine NF_bind _ _ ?_ ?_
              · split
                · rename_i fi
                  refine NF_anyM _ _ ?_
                  intro i _
                  by_cases hfi : fi < S.nodes.length + 1
                  · exact dependsOn_nf S hT _ fi i hfi
                  · -- a dangling function reference has no origin: `depends_on` returns at once
                    unfold dependsOn
                    split
                    · exact NF_pure _
                    · have : S.appOf fi = none := by
                        unfold Store.appOf
                        have : S.nodes[fi]? = none := List.getElem?_eq_none (by omega)
                        simp [this]
                      simp only [this]
                      exact NF_pure _
                · exact NF_pure _
              · intro dep _
                split
                · exact NF_pure _
                · exact NF_pure _
            · exact NF_unsupported _
        · exact NF_pure _
      · exact NF_pure _
    · exact NF_pure _

theorem firstMatch_nf : ∀ (ps : List Pattern) (x : Tok), NF (firstMatch S (S.nodes.length + 1) ps x)
  | [], _ => by unfold firstMatch; exact NF_pure _
  | p :: ps, x => by
    unfold firstMatch
    refine NF_bind _ _ ?_ ?_
    · unfold Pattern.decide
      split
      · exact decideReshape_nf S hT _ _
      · exact decideTranspose_nf S hT _ _
      · exact decideBroadcast_nf S hT _ _
      · exact decideConcat_nf S _ _
      · exact decideInline_nf S hT _
      · exact decideCast_nf S _
      · exact NF_pure _
    · intro r _
      split
      · exact NF_pure _
      · exact firstMatch_nf ps x

theorem firstMatch_lt (fuel : Nat) : ∀ (ps : List Pattern) (i : Nat) (act : Action), firstMatch S fuel ps (.ref i) = .ok (some act) → act.lt i
  | [], i, act, h => by simp [firstMatch, pure, Except.pure] at h
  | p :: ps, i, act, h => by
    unfold firstMatch at h
    obtain ⟨r, hr, h⟩ := bind_ok.1 h
    split at h
    · rename_i act'
      simp only [pure, Except.pure, Except.ok.injEq, Option.some.injEq] at h
      subst h
      cases p with
      | skipReshape pat => exact decideReshape_lt S hT pat i _ (by simpa [Pattern.decide] using hr)
      | skipTranspose pat => exact decideTranspose_lt S hT pat i _ (by simpa [Pattern.decide] using hr)
      | skipBroadcastTo pat => exact decideBroadcast_lt S hT pat i _ (by simpa [Pattern.decide] using hr)
      | skipConcatenate pat => exact decideConcat_lt S hT pat i _ (by simpa [Pattern.decide] using hr)
      | inlineGraph => simp [Pattern.decide, pure, Except.pure] at hr
      | skipCast => exact decideCast_lt S hT i _ (by simpa [Pattern.decide] using hr)
    · exact firstMatch_lt fuel ps i act h

end

end Einx.OptDag

namespace Einx.OptDag

/-! ### The traversal -/

theorem mapToks_nf (g : Tok → St → R (List Tok × St)) : ∀ (toks : List Tok) (st : St), (∀ t ∈ toks, ∀ st', NF (g t st')) → NF (mapToks g toks st)
  | [], st, _ => by unfold mapToks; exact NF_pure _
  | t :: ts, st, h => by
    unfold mapToks
    refine NF_bind _ _ (h t (by simp) st) ?_
    intro r _
    refine NF_bind _ _ (mapToks_nf g ts _ (fun t' ht' => h t' (by simp [ht']))) ?_
    intro r' _
    exact NF_pure _

theorem mapOperands_nf (h : List Tok → St → R (List Tok × St)) : ∀ (vs : List (List Tok)) (st : St), (∀ v ∈ vs, ∀ st', NF (h v st')) →
    NF (mapOperands h vs st)
  | [], st, _ => by unfold mapOperands; exact NF_pure _
  | v :: vs, st, hh => by
    unfold mapOperands
    refine NF_bind _ _ (hh v (by simp) st) ?_
    intro r _
    refine NF_bind _ _ (mapOperands_nf h vs _ (fun v' hv' => hh v' (by simp [hv']))) ?_
    intro r' _
    exact NF_pure _

theorem mapKwargs_nf (h : List Tok → St → R (List Tok × St)) : ∀ (kws : List (String × List Tok)) (st : St),
    (∀ v ∈ kws.map (·.2), ∀ st', NF (h v st')) → NF (mapKwargs h kws st)
  | [], st, _ => by unfold mapKwargs; exact NF_pure _
  | (k, v) :: vs, st, hh => by
    unfold mapKwargs
    refine NF_bind _ _ (hh v (by simp) st) ?_
    intro r _
    refine NF_bind _ _ (mapKwargs_nf h vs _ (fun v' hv' => hh v' (by simp at hv' ⊢; exact Or.inr hv'))) ?_
    intro r' _
    exact NF_pure _

theorem outTypes_nf (S : Store) (st : St) (a a' : App) (base : Nat) : NF (outTypes S st a a' base) := by
  unfold outTypes
  split
  · split
    · split
      · exact NF_pure _
      · exact NF_unsupported _
    · exact NF_py _
  · split
    · split
      · exact NF_py _
      · refine NF_bind _ _ (NF_mapM _ _ ?_) (fun _ _ => NF_pure _)
        intro j _
        split
        · exact NF_pure _
        · exact NF_unsupported _
    · exact NF_unsupported _
  · refine NF_bind _ _ (NF_mapM _ _ ?_) (fun _ _ => NF_pure _)
    intro k _
    split
    · exact NF_pure _
    · exact NF_unsupported _

theorem rebuild_nf (S : Store) (h : List Tok → St → R (List Tok × St)) (a : App) (base : Nat) (st : St)
    (hh : ∀ v ∈ a.operands, ∀ st', NF (h v st')) : NF (rebuild S h a base st) := by
  unfold rebuild
  refine NF_bind _ _ (mapOperands_nf h _ _ (fun v hv => hh v (by simp [App.operands, hv]))) ?_
  intro r1 _
  refine NF_bind _ _ (mapOperands_nf h _ _ (fun v hv => hh v (by simp [App.operands, hv]))) ?_
  intro r2 _
  refine NF_bind _ _ (mapKwargs_nf h _ _ (fun v hv => hh v (by simp only [App.operands, List.mem_append]; exact Or.inl (Or.inr hv)))) ?_
  intro r3 _
  refine NF_bind _ _ (mapOperands_nf h _ _ (fun v hv => hh v (by simp [App.operands, hv]))) ?_
  intro r4 _
  refine NF_bind _ _ (outTypes_nf S _ _ _ _) ?_
  intro r5 _
  dsimp only
  split
  · exact NF_unsupported _
  · split
    · exact NF_unsupported _
    · exact NF_pure _

theorem newInputs_nf (S : Store) : ∀ (is : List Nat) (st : St), NF (newInputs S is st)
  | [], st => by unfold newInputs; exact NF_pure _
  | i :: is, st => by
    unfold newInputs
    split
    · exact NF_bind _ _ (newInputs_nf S is _) (fun _ _ => NF_pure _)
    · exact NF_unsupported _

/-- Enough fuel for a leaf: two more than the tracer's index. -/
def tokOK (f : Nat) : Tok → Prop
  | .ref i => i + 1 < f
  | .gref _ => False
  | _ => 0 < f

theorem tokOK_of_lt {n f : Nat} (hf : n < f) (v : List Tok) (hv : toksLt n v = true) : ∀ t ∈ v, tokOK f t := by
  intro t ht
  have := toksLt_mem hv t ht
  cases t with
  | ref j => have := toksLt_ref this; simp only [tokOK]; omega
  | gref k => simp [toksLt] at this
  | atom a => simp only [tokOK]; omega
  | open_ c k => simp only [tokOK]; omega

/-- **The recursion depth is bounded by the tracer index**: `_optimize` on a leaf never runs out of fuel when the fuel exceeds
the leaf's index by two. -/
theorem optTok_nf (pats : List Pattern) (S : Store) (hT : S.topo = true) : ∀ (f : Nat) (t : Tok) (st : St), tokOK f t → NF (optTok pats S f t st)
  | 0, t, st, h => by cases t <;> simp [tokOK] at h
  | f + 1, t, st, h => by
    have ih := optTok_nf pats S hT f
    have ihV : ∀ (n : Nat), n < f → ∀ (v : List Tok), toksLt n v = true → ∀ st', NF (mapToks (optTok pats S f) v st') := by
      intro n hn v hv st'
      exact mapToks_nf _ v st' (fun t ht st'' => ih t st'' (tokOK_of_lt hn v hv t ht))
    cases t with
    | gref k => simp [tokOK] at h
    | atom a =>
      simp only [optTok]
      split
      · exact NF_py _
      · exact NF_pure _
    | open_ c n => simp only [optTok]; exact NF_pure _
    | ref i =>
      simp only [tokOK] at h
      have hi : i < f := by omega
      simp only [optTok]
      split
      · exact NF_pure _
      · refine NF_bind _ _ (firstMatch_nf S hT pats _) ?_
        intro m hm
        split
        · rename_i v
          have hlt : toksLt i v = true := firstMatch_lt S hT _ pats i _ hm
          exact NF_bind _ _ (ihV i hi v hlt _) (fun _ _ => NF_pure _)
        · rename_i fn x lit
          obtain ⟨h1, h2, _⟩ := firstMatch_lt S hT _ pats i _ hm
          refine NF_bind _ _ (ihV i hi fn h1 _) ?_
          intro r1 _
          refine NF_bind _ _ (ihV i hi x h2 _) ?_
          intro r2 _
          split
          · exact NF_unsupported _
          · exact NF_pure _
        · split
          · exact NF_unsupported _
          · exact NF_pure _
          · rename_i ty a hn
            refine NF_bind _ _ (rebuild_nf S _ a i st ?_) ?_
            · intro v hv st'
              exact ihV i hi v (operand_lt (topo_app S hT i ty a hn) v hv) st'
            · intro st1 _
              split
              · exact NF_pure _
              · exact NF_py _
          · rename_i ty src k hn
            have hs := topo_proj S hT i ty src k hn
            split
            · rename_i ty2 a hn2
              refine NF_bind _ _ (rebuild_nf S _ a src st ?_) ?_
              · intro v hv st'
                exact ihV src (by omega) v (operand_lt (topo_app S hT src ty2 a hn2) v hv) st'
              · intro st1 _
                split
                · exact NF_pure _
                · exact NF_py _
            · exact NF_unsupported _

/-- `InlineGraph` on the top-level graph forwards the function of a call below the end of the store. -/
theorem decideInline_lt (S : Store) (hT : S.topo = true) (fuel k : Nat) (g : GraphV) (act : Action) (hg : S.graphs[k]? = some g)
    (hout : toksLt S.nodes.length g.output = true) (h : decideInline S fuel k = .ok (some act)) : act.lt S.nodes.length := by
  unfold decideInline at h
  rw [hg] at h
  simp only at h
  obtain ⟨output, ho, h⟩ := bind_ok.1 h
  have hlt := skipId_lt S hT _ _ _ ho hout
  split at h
  · rename_i j
    have hj := toksLt_ref hlt
    split at h
    · rename_i a base kk ha
      have ha' := operandsLt_mono (Nat.le_of_lt hj) _ (appOf_lt S hT j a base kk ha).1
      split at h
      · obtain ⟨fins, _, h⟩ := bind_ok.1 h
        split at h
        · cases h
        · split at h
          · rename_i f hf
            obtain ⟨dep, _, h⟩ := bind_ok.1 h
            split at h
            · cases h
            · simp only [pure, Except.pure, Except.ok.injEq, Option.some.injEq] at h
              subst h
              exact operand_lt ha' f (pre_mem a _ (by simp [hf]))
          · cases h
      · cases h
    · cases h
  · cases h

theorem firstMatch_gref_lt (S : Store) (hT : S.topo = true) (fuel k : Nat) (g : GraphV) (hg : S.graphs[k]? = some g)
    (hout : toksLt S.nodes.length g.output = true) : ∀ (ps : List Pattern) (act : Action),
    firstMatch S fuel ps (.gref k) = .ok (some act) → act.lt S.nodes.length
  | [], act, h => by simp [firstMatch, pure, Except.pure] at h
  | p :: ps, act, h => by
    unfold firstMatch at h
    obtain ⟨r, hr, h⟩ := bind_ok.1 h
    split at h
    · simp only [pure, Except.pure, Except.ok.injEq, Option.some.injEq] at h
      subst h
      cases p with
      | inlineGraph => exact decideInline_lt S hT fuel k g _ hg hout (by simpa [Pattern.decide] using hr)
      | skipReshape pat => simp [Pattern.decide, pure, Except.pure] at hr
      | skipTranspose pat => simp [Pattern.decide, pure, Except.pure] at hr
      | skipBroadcastTo pat => simp [Pattern.decide, pure, Except.pure] at hr
      | skipConcatenate pat => simp [Pattern.decide, pure, Except.pure] at hr
      | skipCast => simp [Pattern.decide, pure, Except.pure] at hr
    · exact firstMatch_gref_lt S hT fuel k g hg hout ps act h

/-- **One pass never runs out of fuel**: the depth `Prog.fuel` the model gives a pass is sufficient for every graph over a
topologically ordered store. -/
theorem pass_nf (pats : List Pattern) (p : Prog) (h : p.topoOK = true) : NF (pass pats p.fuel p) := by
  unfold Prog.topoOK at h
  simp only [Bool.and_eq_true] at h
  obtain ⟨hT, h⟩ := h
  split at h
  · rename_i k htop
    split at h
    · rename_i g hg
      unfold pass
      refine NF_bind _ _ ?_ (fun _ _ => NF_pure _)
      rw [htop]
      unfold mapToks
      refine NF_bind _ _ ?_ ?_
      · -- the top-level graph object
        have hf : p.fuel = (2 * (p.store.nodes.length + p.store.graphs.length) + 1) + 1 := rfl
        rw [hf]
        have hn : p.store.nodes.length < 2 * (p.store.nodes.length + p.store.graphs.length) + 1 := by omega
        have ihV : ∀ (v : List Tok), toksLt p.store.nodes.length v = true → ∀ st', NF (mapToks (optTok pats p.store (2 * (p.store.nodes.length + p.store.graphs.length) + 1)) v st') := by
          intro v hv st'
          exact mapToks_nf _ v st' (fun t ht st'' => optTok_nf pats p.store hT _ t st'' (tokOK_of_lt hn v hv t ht))
        simp only [optTok, List.lookup_nil]
        refine NF_bind _ _ (firstMatch_nf p.store hT pats _) ?_
        intro m hm
        split
        · rename_i v
          have := firstMatch_gref_lt p.store hT _ k g hg h pats _ hm
          exact NF_bind _ _ (ihV v this _) (fun _ _ => NF_pure _)
        · exact NF_unsupported _
        · simp only [hg]
          refine NF_bind _ _ (newInputs_nf _ _ _) ?_
          intro r _
          exact NF_bind _ _ (ihV g.output h _) (fun _ _ => NF_pure _)
      · intro r _
        unfold mapToks
        exact NF_bind _ _ (NF_pure _) (fun _ _ => NF_pure _)
    · cases h
  · cases h

end Einx.OptDag
