import EinxModel.Proofs.SolveRankSem
/-!
`unroll` (ellipsis = written-out repetition) against the path-free semantics and the rank system.
-/
namespace Einx.Solve

theorem evalItemsL_eq (ρ σ : Var → Nat) (idx : List Nat) : ∀ cs, evalItemsL ρ σ idx cs = cs.flatMap (evalItems ρ σ idx)
  | [] => rfl
  | c :: cs => by simp only [evalItemsL, List.flatMap_cons, evalItemsL_eq ρ σ idx cs]

theorem nodeValuesL_eq (ρ σ : Var → Nat) (idx : List Nat) : ∀ cs, nodeValuesL ρ σ idx cs = cs.flatMap (nodeValues ρ σ idx)
  | [] => rfl
  | c :: cs => by simp only [nodeValuesL, List.flatMap_cons, nodeValuesL_eq ρ σ idx cs]

theorem ellIdsL_eq : ∀ cs, ellIdsL cs = cs.flatMap ellIds
  | [] => rfl
  | c :: cs => by simp only [ellIdsL, List.flatMap_cons, ellIdsL_eq cs]

theorem widthL_eq (ρ : Var → Nat) : ∀ cs, widthL ρ cs = sumL (cs.map (width ρ))
  | [] => rfl
  | c :: cs => by simp only [widthL, List.map_cons, sumL, widthL_eq ρ cs]

theorem axis_var_nil (x : String) : x ++ idxSuffix [] = x := by
  rw [idxSuffix_nil, String.append_empty]

mutual
theorem unroll_evalItems (ρ ρ' σ : Var → Nat) : ∀ (e : Expr) (idx : List Nat),
    evalItems ρ' σ [] (unroll ρ idx e) = evalItems ρ σ idx e
  | .axis n, idx => by simp only [unroll, evalItems, axis_var_nil]
  | .num _, _ => by simp only [unroll, evalItems]
  | .brackets e, idx => by simp only [unroll, evalItems]; exact unroll_evalItems ρ ρ' σ e idx
  | .flat e, idx => by simp only [unroll, evalItems]; rw [unroll_evalItems ρ ρ' σ e idx]
  | .concat cs, idx => by simp only [unroll, evalItems]; rw [unrollL_evalItems ρ ρ' σ cs idx]
  | .ellipsis id e, idx => by
    simp only [unroll, evalItems, evalItemsL_eq, List.flatMap_map]
    have ih := fun i => unroll_evalItems ρ ρ' σ e (idx ++ [i])
    simp only [ih]
  | .list cs, idx => by simp only [unroll, evalItems]; exact unrollL_evalItems ρ ρ' σ cs idx
theorem unrollL_evalItems (ρ ρ' σ : Var → Nat) : ∀ (cs : List Expr) (idx : List Nat),
    evalItemsL ρ' σ [] (unrollL ρ idx cs) = evalItemsL ρ σ idx cs
  | [], _ => by simp only [unrollL, evalItemsL]
  | c :: cs, idx => by
    simp only [unrollL, evalItemsL]
    rw [unroll_evalItems ρ ρ' σ c idx, unrollL_evalItems ρ ρ' σ cs idx]
end

mutual
theorem unroll_nodeValues (ρ ρ' σ : Var → Nat) : ∀ (e : Expr) (idx : List Nat),
    nodeValues ρ' σ [] (unroll ρ idx e) = nodeValues ρ σ idx e
  | .axis _, _ => by simp only [unroll, nodeValues]
  | .num _, _ => by simp only [unroll, nodeValues]
  | .brackets e, idx => by simp only [unroll, nodeValues]; exact unroll_nodeValues ρ ρ' σ e idx
  | .flat e, idx => by
    simp only [unroll, nodeValues]; rw [unroll_nodeValues ρ ρ' σ e idx, unroll_evalItems ρ ρ' σ e idx]
  | .concat cs, idx => by
    simp only [unroll, nodeValues]; rw [unrollL_nodeValues ρ ρ' σ cs idx, unrollL_evalItems ρ ρ' σ cs idx]
  | .ellipsis id e, idx => by
    simp only [unroll, nodeValues, nodeValuesL_eq, List.flatMap_map]
    have ih := fun i => unroll_nodeValues ρ ρ' σ e (idx ++ [i])
    simp only [ih]
  | .list cs, idx => by simp only [unroll, nodeValues]; exact unrollL_nodeValues ρ ρ' σ cs idx
theorem unrollL_nodeValues (ρ ρ' σ : Var → Nat) : ∀ (cs : List Expr) (idx : List Nat),
    nodeValuesL ρ' σ [] (unrollL ρ idx cs) = nodeValuesL ρ σ idx cs
  | [], _ => by simp only [unrollL, nodeValuesL]
  | c :: cs, idx => by
    simp only [unrollL, nodeValuesL]
    rw [unroll_nodeValues ρ ρ' σ c idx, unrollL_nodeValues ρ ρ' σ cs idx]
end

/-- an expanded axis as an axis of the long form: its own name, no ellipsis index -/
def flatAxis (a : String × List Nat × Var) : String × List Nat × Var := (a.2.2, [], a.2.2)

mutual
theorem unroll_axesOf (ρ ρ' : Var → Nat) : ∀ (e : Expr) (idx : List Nat),
    axesOf ρ' [] (unroll ρ idx e) = (axesOf ρ idx e).map flatAxis
  | .axis n, idx => by simp only [unroll, axesOf, axis_var_nil, List.map_cons, List.map_nil, flatAxis]
  | .num _, _ => by simp only [unroll, axesOf, List.map_nil]
  | .brackets e, idx => by simp only [unroll, axesOf]; exact unroll_axesOf ρ ρ' e idx
  | .flat e, idx => by simp only [unroll, axesOf]; exact unroll_axesOf ρ ρ' e idx
  | .concat cs, idx => by simp only [unroll, axesOf]; exact unrollL_axesOf ρ ρ' cs idx
  | .ellipsis id e, idx => by
    simp only [unroll, axesOf, axesOfL_eq, List.flatMap_map, List.map_flatMap]
    have ih := fun i => unroll_axesOf ρ ρ' e (idx ++ [i])
    simp only [ih]
  | .list cs, idx => by simp only [unroll, axesOf]; exact unrollL_axesOf ρ ρ' cs idx
theorem unrollL_axesOf (ρ ρ' : Var → Nat) : ∀ (cs : List Expr) (idx : List Nat),
    axesOfL ρ' [] (unrollL ρ idx cs) = (axesOfL ρ idx cs).map flatAxis
  | [], _ => by simp only [unrollL, axesOfL, List.map_nil]
  | c :: cs, idx => by
    simp only [unrollL, axesOfL, List.map_append]
    rw [unroll_axesOf ρ ρ' c idx, unrollL_axesOf ρ ρ' cs idx]
end

mutual
theorem unroll_ellIds (ρ : Var → Nat) : ∀ (e : Expr) (idx : List Nat), ellIds (unroll ρ idx e) = []
  | .axis _, _ => by simp only [unroll, ellIds]
  | .num _, _ => by simp only [unroll, ellIds]
  | .brackets e, idx => by simp only [unroll, ellIds]; exact unroll_ellIds ρ e idx
  | .flat e, idx => by simp only [unroll, ellIds]; exact unroll_ellIds ρ e idx
  | .concat cs, idx => by simp only [unroll, ellIds]; exact unrollL_ellIds ρ cs idx
  | .ellipsis id e, idx => by
    simp only [unroll, ellIds, ellIdsL_eq, List.flatMap_map]
    have ih := fun i => unroll_ellIds ρ e (idx ++ [i])
    simp only [ih]
    simp
  | .list cs, idx => by simp only [unroll, ellIds]; exact unrollL_ellIds ρ cs idx
theorem unrollL_ellIds (ρ : Var → Nat) : ∀ (cs : List Expr) (idx : List Nat), ellIdsL (unrollL ρ idx cs) = []
  | [], _ => by simp only [unrollL, ellIdsL]
  | c :: cs, idx => by
    simp only [unrollL, ellIdsL]
    rw [unroll_ellIds ρ c idx, unrollL_ellIds ρ cs idx]; rfl
end

mutual
/-- In the long form every occurrence stands under no ellipsis. -/
theorem unroll_occs (ρ : Var → Nat) : ∀ (e : Expr) (idx : List Nat), ∀ p ∈ occs [] (unroll ρ idx e), p.2 = []
  | .axis _, _ => by simp [unroll, occs]
  | .num _, _ => by simp [unroll, occs]
  | .brackets e, idx => by simp only [unroll, occs]; exact unroll_occs ρ e idx
  | .flat e, idx => by simp only [unroll, occs]; exact unroll_occs ρ e idx
  | .concat cs, idx => by simp only [unroll, occs]; exact unrollL_occs ρ cs idx
  | .ellipsis id e, idx => by
    simp only [unroll, occs, occsL_eq, List.flatMap_map, List.forall_mem_flatMap]
    intro i _
    exact unroll_occs ρ e (idx ++ [i])
  | .list cs, idx => by simp only [unroll, occs]; exact unrollL_occs ρ cs idx
theorem unrollL_occs (ρ : Var → Nat) : ∀ (cs : List Expr) (idx : List Nat), ∀ p ∈ occsL [] (unrollL ρ idx cs), p.2 = []
  | [], _ => by simp [unrollL, occsL]
  | c :: cs, idx => by
    simp only [unrollL, occsL, List.forall_mem_append]
    exact ⟨unroll_occs ρ c idx, unrollL_occs ρ cs idx⟩
end

theorem sumL_replicate_map (l : List Nat) (w : Nat) (f : Nat → Nat) (h : ∀ i, f i = w) :
    sumL (l.map f) = l.length * w := by
  induction l with
  | nil => simp [sumL]
  | cons a l ih => simp only [List.map_cons, sumL, ih, h a, List.length_cons, Nat.succ_mul]; omega

mutual
theorem unroll_width (ρ ρ' : Var → Nat) : ∀ (e : Expr) (idx : List Nat), width ρ' (unroll ρ idx e) = width ρ e
  | .axis _, _ => by simp only [unroll, width]
  | .num _, _ => by simp only [unroll, width]
  | .brackets e, idx => by simp only [unroll, width]; exact unroll_width ρ ρ' e idx
  | .flat _, _ => by simp only [unroll, width]
  | .concat _, _ => by simp only [unroll, width]
  | .ellipsis id e, idx => by
    simp only [unroll, width, widthL_eq, List.map_map]
    rw [sumL_replicate_map _ (width ρ e) (width ρ' ∘ fun i => unroll ρ (idx ++ [i]) e)
      (fun i => unroll_width ρ ρ' e (idx ++ [i]))]
    simp
  | .list cs, idx => by simp only [unroll, width]; exact unrollL_width ρ ρ' cs idx
theorem unrollL_width (ρ ρ' : Var → Nat) : ∀ (cs : List Expr) (idx : List Nat), widthL ρ' (unrollL ρ idx cs) = widthL ρ cs
  | [], _ => by simp only [unrollL, widthL]
  | c :: cs, idx => by
    simp only [unrollL, widthL]
    rw [unroll_width ρ ρ' c idx, unrollL_width ρ ρ' cs idx]
end

/-! ### The long form at the rank level: every equation is a true constant equation -/

theorem sameName_nil_stacks (ρ : Var → Nat) (l : List (String × List Var)) (h : ∀ p ∈ l, p.2 = []) :
    ∀ q ∈ sameNameEqns [] l, holds ρ q := by
  rw [sameName_holds]
  intro p hp st0 hl
  have h0 := h _ (mem_of_lookup (by simpa using hl))
  simp only at h0
  rw [h0, h p hp]
  trivial

theorem unrollInput_occs (inp : Input) (ρ : Var → Nat) : ∀ p ∈ (unrollInput inp ρ).occs, p.2 = [] := by
  unfold Input.occs unrollInput
  simp only [List.flatMap_map, List.forall_mem_flatMap]
  intro t _
  exact unroll_occs ρ t.expr []

theorem unrollInput_ellIds (inp : Input) (ρ : Var → Nat) : (unrollInput inp ρ).ellIds = [] := by
  unfold Input.ellIds unrollInput
  simp only [List.flatMap_map, unroll_ellIds]
  simp

theorem mem_unrollConstraints {inp : Input} {ρ : Var → Nat} {c' : Constraint} :
    c' ∈ (unrollInput inp ρ).constraints ↔
      ∃ c ∈ inp.constraints, ∃ a ∈ inp.axes ρ, a.1 = c.name ∧ ∃ v, constraintValue c a.2.1 = some v ∧
        c' = ⟨a.2.2, [], [v]⟩ := by
  unfold unrollInput unrollConstraint
  simp only [List.mem_flatMap, List.mem_filterMap, List.mem_filter, beq_iff_eq, Option.map_eq_some_iff]
  constructor
  · rintro ⟨c, hc, a, ⟨ha, hn⟩, v, hv, rfl⟩
    exact ⟨c, hc, a, ha, hn, v, hv, rfl⟩
  · rintro ⟨c, hc, a, ha, hn, v, hv, rfl⟩
    exact ⟨c, hc, a, ⟨ha, hn⟩, v, hv, rfl⟩

theorem holds_rankEqn (ρ : Var → Nat) (t : Tensor) :
    (∀ q ∈ rankEqn t, holds ρ q) ↔ ∀ dims, t.shape = some dims → width ρ t.expr = dims.length := by
  unfold rankEqn
  cases hs : t.shape with
  | none => simp
  | some dims =>
    simp only [List.forall_mem_cons, List.not_mem_nil, false_imp_iff, implies_true, and_true,
      Option.some.injEq, forall_eq']
    simp only [holds, widthPoly_eval]
    simp [evalPoly, evalMono, prodVars]

/-- The long form satisfies its rank system whatever the counts: nothing is left to count. -/
theorem unroll_rank_sat (inp : Input) (ρ : Var → Nat) (hρ : Sat (rankSystem true inp) ρ) (ρ' : Var → Nat) :
    Sat (rankSystem true (unrollInput inp ρ)) ρ' := by
  rw [sat_rankSystem_iff] at hρ ⊢
  obtain ⟨hr, _, _⟩ := hρ
  refine ⟨?_, sameName_nil_stacks ρ' _ (unrollInput_occs inp ρ), ?_⟩
  · intro t' ht'
    simp only [unrollInput, List.mem_map] at ht'
    obtain ⟨t, ht, rfl⟩ := ht'
    rw [holds_rankEqn]
    intro dims hd
    simp only at hd ⊢
    rw [unroll_width]
    exact (holds_rankEqn ρ t).mp (hr t ht) dims hd
  · intro c' hc'
    obtain ⟨c, _, a, _, _, v, _, rfl⟩ := mem_unrollConstraints.mp hc'
    unfold constraintRankEqns
    cases (unrollInput inp ρ).occs.lookup a.2.2 with
    | none => simp
    | some st => simp

theorem constraintValue_scalar (x : String) (v : Nat) : constraintValue ⟨x, [], [v]⟩ [] = some v := by
  simp [constraintValue, ravel?]

/-! ### The long form at the value level: the same semantic solutions -/

theorem unroll_semSat (inp : Input) (ρ : Var → Nat) (hρ : Sat (rankSystem true inp) ρ)
    (hwf : ∀ c ∈ inp.constraints, c.vals.length = c.shape.foldr (· * ·) 1) (ρ' σ : Var → Nat) :
    SemSat inp ρ σ ↔ SemSat (unrollInput inp ρ) ρ' σ := by
  have hten : ∀ t', t' ∈ (unrollInput inp ρ).tensors ↔ ∃ t ∈ inp.tensors, t' = ⟨unroll ρ [] t.expr, t.shape⟩ := by
    intro t'
    simp only [unrollInput, List.mem_map]
    constructor
    · rintro ⟨t, ht, rfl⟩; exact ⟨t, ht, rfl⟩
    · rintro ⟨t, ht, rfl⟩; exact ⟨t, ht, rfl⟩
  constructor
  · intro h
    refine ⟨?_, ?_, ?_, ?_⟩
    · intro t' ht' a' ha'
      obtain ⟨t, ht, rfl⟩ := (hten t').mp ht'
      simp only [unroll_axesOf, List.mem_map] at ha'
      obtain ⟨a, ha, rfl⟩ := ha'
      exact h.axesPos t ht a ha
    · intro t' ht' v hv
      obtain ⟨t, ht, rfl⟩ := (hten t').mp ht'
      simp only [unroll_nodeValues] at hv
      exact h.nodesPos t ht v hv
    · intro t' ht' dims hd
      obtain ⟨t, ht, rfl⟩ := (hten t').mp ht'
      simp only [unroll_evalItems]
      exact h.roots t ht dims hd
    · intro c' hc' t' ht' a' ha' hn
      obtain ⟨t, ht, rfl⟩ := (hten t').mp ht'
      simp only [unroll_axesOf, List.mem_map] at ha'
      obtain ⟨b, hb, rfl⟩ := ha'
      obtain ⟨c, hc, a, ha, hna, v, hv, rfl⟩ := mem_unrollConstraints.mp hc'
      obtain ⟨ta, hta, haa⟩ := mem_inputAxes.mp ha
      have := h.constraints c hc ta hta a haa hna
      rw [hv] at this
      injection this with this
      simp only [flatAxis] at hn ⊢
      rw [constraintValue_scalar, hn, this]
  · intro h
    refine ⟨?_, ?_, ?_, ?_⟩
    · intro t ht a ha
      have := h.axesPos ⟨unroll ρ [] t.expr, t.shape⟩ ((hten _).mpr ⟨t, ht, rfl⟩) (flatAxis a)
        (by simp only [unroll_axesOf]; exact List.mem_map.mpr ⟨a, ha, rfl⟩)
      exact this
    · intro t ht v hv
      exact h.nodesPos ⟨unroll ρ [] t.expr, t.shape⟩ ((hten _).mpr ⟨t, ht, rfl⟩) v
        (by simp only [unroll_nodeValues]; exact hv)
    · intro t ht dims hd
      have := h.roots ⟨unroll ρ [] t.expr, t.shape⟩ ((hten _).mpr ⟨t, ht, rfl⟩) dims hd
      simpa only [unroll_evalItems] using this
    · intro c hc t ht a ha hn
      obtain ⟨v, hv⟩ := constraintValue_defined inp ρ hρ c hc (hwf c hc) t ht a ha hn
      have hc' : (⟨a.2.2, [], [v]⟩ : Constraint) ∈ (unrollInput inp ρ).constraints :=
        mem_unrollConstraints.mpr ⟨c, hc, a, mem_inputAxes.mpr ⟨t, ht, ha⟩, hn, v, hv, rfl⟩
      have := h.constraints _ hc' ⟨unroll ρ [] t.expr, t.shape⟩ ((hten _).mpr ⟨t, ht, rfl⟩) (flatAxis a)
        (by simp only [unroll_axesOf]; exact List.mem_map.mpr ⟨a, ha, rfl⟩) rfl
      simp only [flatAxis, constraintValue_scalar] at this
      injection this with this
      rw [hv, this]

theorem unroll_semShapes (inp : Input) (ρ ρ' σ : Var → Nat) :
    semShapes (unrollInput inp ρ) ρ' σ = semShapes inp ρ σ := by
  unfold semShapes unrollInput
  simp only [List.map_map]
  apply List.map_congr_left
  intro t _
  simp only [Function.comp, unroll_evalItems]

theorem unroll_inputAxes (inp : Input) (ρ ρ' : Var → Nat) (x : Var) :
    (∃ a ∈ (unrollInput inp ρ).axes ρ', a.2.2 = x) ↔ ∃ a ∈ inp.axes ρ, a.2.2 = x := by
  constructor
  · rintro ⟨a', ha', rfl⟩
    obtain ⟨t', ht', hat⟩ := mem_inputAxes.mp ha'
    simp only [unrollInput, List.mem_map] at ht'
    obtain ⟨t, ht, rfl⟩ := ht'
    simp only [unroll_axesOf, List.mem_map] at hat
    obtain ⟨a, ha, rfl⟩ := hat
    exact ⟨a, mem_inputAxes.mpr ⟨t, ht, ha⟩, rfl⟩
  · rintro ⟨a, ha, rfl⟩
    obtain ⟨t, ht, hat⟩ := mem_inputAxes.mp ha
    refine ⟨flatAxis a, mem_inputAxes.mpr ⟨⟨unroll ρ [] t.expr, t.shape⟩, ?_, ?_⟩, rfl⟩
    · simp only [unrollInput, List.mem_map]; exact ⟨t, ht, rfl⟩
    · simp only [unroll_axesOf]; exact List.mem_map.mpr ⟨a, hat, rfl⟩

end Einx.Solve
