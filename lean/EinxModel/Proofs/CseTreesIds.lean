import EinxModel.Proofs.CseTreesOrder
/-!
Helper lemmas for `Props/C16Cse.lean`: **node identities determine nodes**, hence an exprlist (a list of identities)
belongs to one dict entry only (`uniqueIds_candidates`).

Every entry appended to `str_to_common_expr` consists of nodes found at given paths below a root, its identities are
those paths, and its key is computed from the nodes.  Two entries with the same identities therefore have the same
nodes and the same key; `groupEntries` puts them into the same candidate, and the filters never move an exprlist to
another candidate.
-/
namespace Einx.Solve.CseT
open Einx.Solve

def childAt : VExpr → Nat → Option VExpr
  | .axis _ _ _, _ => none
  | .list cs, k => cs[k]?
  | .concat cs, k => cs[k]?
  | .flat e, k => if k = 0 then some e else none
  | .brackets e, k => if k = 0 then some e else none

/-- the node at a path below `e` -/
def subAt : VExpr → List Nat → Option VExpr
  | e, [] => some e
  | e, k :: p =>
    match childAt e k with
    | some c => subAt c p
    | none => none

/-- the entry consists of the nodes at the paths `ps` below the node `e` (whose identity is `id`), and its key is
computed from these nodes -/
def EntOK (id : Id) (e : VExpr) (x : String × Occ) : Prop :=
  ∃ ps : List (List Nat), ps ≠ [] ∧ x.2.ids = ps.map (id ++ ·) ∧ ps.map (subAt e) = x.2.nodes.map some ∧
    x.1 = strSlice x.2.nodes

theorem strSlice_singleton (e : VExpr) : strSlice [e] = strV e := by
  show String.intercalate " " [strV e] = strV e
  rfl

theorem map_inj_of_inj {α β : Type} {f : α → β} (hf : ∀ a b, f a = f b → a = b) :
    ∀ {l l' : List α}, l.map f = l'.map f → l = l'
  | [], [], _ => rfl
  | [], _ :: _, h => by simp at h
  | _ :: _, [], h => by simp at h
  | a :: l, b :: l', h => by
    simp only [List.map_cons, List.cons.injEq] at h
    rw [hf a b h.1, map_inj_of_inj hf h.2]

theorem entOK_self (id : Id) (ib uf hp : Bool) (e : VExpr) : ∀ x ∈ selfEntry id ib uf hp e, EntOK id e x := by
  intro x hx
  unfold selfEntry at hx
  split at hx
  · simp only [List.mem_singleton] at hx
    subst hx
    exact ⟨[[]], by simp, by simp, by simp [subAt], (strSlice_singleton e).symm⟩
  · cases hx

theorem take_drop_map_some (cs : List VExpr) (s m : Nat) (h : s + m ≤ cs.length) :
    ((cs.drop s).take m).map some = (List.range m).map (fun j => cs[s + j]?) := by
  apply List.ext_getElem?
  intro j
  simp only [List.getElem?_map, List.getElem?_take, List.getElem?_drop]
  by_cases hj : j < m
  · have hlt : s + j < cs.length := by omega
    simp [hj, List.getElem?_eq_getElem hlt]
  · simp [hj]

theorem entOK_slices (id : Id) (ib uf : Bool) (cs : List VExpr) (e : VExpr) (he : ∀ j, childAt e j = cs[j]?) :
    ∀ x ∈ slices id ib uf cs, EntOK id e x := by
  intro x hx
  simp only [slices, List.mem_flatMap, List.mem_map, List.mem_range] at hx
  obtain ⟨s, hs, l, hl, rfl⟩ := hx
  refine ⟨(List.range (l + 1)).map (fun j => [s + j]), by simp, by simp [List.map_map, Function.comp_def], ?_, rfl⟩
  simp only [List.map_map, Function.comp_def]
  rw [take_drop_map_some cs s (l + 1) (by omega)]
  apply List.map_congr_left
  intro j _
  simp only [subAt, he]
  cases cs[s + j]? <;> rfl

theorem entOK_lift {id : Id} {e c : VExpr} {k : Nat} (hc : childAt e k = some c) {x : String × Occ}
    (h : EntOK (id ++ [k]) c x) : EntOK id e x := by
  obtain ⟨ps, h0, h1, h2, h3⟩ := h
  refine ⟨ps.map (k :: ·), by simpa using h0, ?_, ?_, h3⟩
  · rw [h1]; simp [List.map_map, Function.comp_def]
  · rw [← h2]; simp only [List.map_map, Function.comp_def]
    apply List.map_congr_left
    intro p _
    simp [subAt, hc]

mutual
theorem entOK_entries : ∀ (e : VExpr) (id : Id) (ib uf hp : Bool), ∀ x ∈ entries id ib uf hp e, EntOK id e x
  | .axis n v m, id, ib, uf, hp => by
    intro x hx
    simp only [entries] at hx
    exact entOK_self id ib uf hp _ x hx
  | .list cs, id, ib, uf, hp => by
    intro x hx
    simp only [entries, List.mem_append] at hx
    rcases hx with (hx | hx) | hx
    · exact entOK_self id ib uf hp _ x hx
    · split at hx
      · exact entOK_slices id ib uf cs (.list cs) (fun j => by simp [childAt]) x hx
      · cases hx
    · exact entOK_entriesL cs (.list cs) id ib uf 0 (fun j => by simp [childAt]) x hx
  | .concat cs, id, ib, uf, hp => by
    intro x hx
    simp only [entries, List.mem_append] at hx
    rcases hx with hx | hx
    · exact entOK_self id ib uf hp _ x hx
    · exact entOK_entriesL cs (.concat cs) id ib uf 0 (fun j => by simp [childAt]) x hx
  | .flat e, id, ib, uf, hp => by
    intro x hx
    simp only [entries, List.mem_append] at hx
    rcases hx with hx | hx
    · exact entOK_self id ib uf hp _ x hx
    · exact entOK_lift (k := 0) (by simp [childAt]) (entOK_entries e (id ++ [0]) ib true true x hx)
  | .brackets e, id, ib, uf, hp => by
    intro x hx
    simp only [entries, List.mem_append] at hx
    rcases hx with hx | hx
    · exact entOK_self id ib uf hp _ x hx
    · exact entOK_lift (k := 0) (by simp [childAt]) (entOK_entries e (id ++ [0]) true uf true x hx)
theorem entOK_entriesL : ∀ (cs : List VExpr) (e : VExpr) (id : Id) (ib uf : Bool) (k : Nat),
    (∀ j, childAt e (k + j) = cs[j]?) → ∀ x ∈ entriesL id ib uf k cs, EntOK id e x
  | [], e, id, ib, uf, k => by
    intro _ x hx
    simp [entriesL] at hx
  | c :: cs, e, id, ib, uf, k => by
    intro he x hx
    simp only [entriesL, List.mem_append] at hx
    rcases hx with hx | hx
    · have hc : childAt e k = some c := by simpa using he 0
      exact entOK_lift hc (entOK_entries c (id ++ [k]) ib uf true x hx)
    · refine entOK_entriesL cs e id ib uf (k + 1) (fun j => ?_) x hx
      have := he (j + 1)
      simpa [Nat.add_assoc, Nat.add_comm 1 j] using this
end

/-- the entry lies below one of the roots -/
def RootEntOK (roots : List (Option VExpr)) (x : String × Occ) : Prop :=
  ∃ r root, roots[r]? = some (some root) ∧ EntOK [r] root x

theorem rootEntOK_allEntries (roots : List (Option VExpr)) : ∀ (rs : List (Option VExpr)) (k : Nat),
    (∀ j, roots[k + j]? = rs[j]?) → ∀ x ∈ allEntries k rs, RootEntOK roots x
  | [], k => by intro _ x hx; simp [allEntries] at hx
  | none :: rs, k => by
    intro h x hx
    simp only [allEntries] at hx
    refine rootEntOK_allEntries roots rs (k + 1) (fun j => ?_) x hx
    have := h (j + 1)
    simpa [Nat.add_assoc, Nat.add_comm 1 j] using this
  | some r :: rs, k => by
    intro h x hx
    simp only [allEntries, List.mem_append] at hx
    rcases hx with hx | hx
    · exact ⟨k, r, by simpa using h 0, entOK_entries r [k] false false false x hx⟩
    · refine rootEntOK_allEntries roots rs (k + 1) (fun j => ?_) x hx
      have := h (j + 1)
      simpa [Nat.add_assoc, Nat.add_comm 1 j] using this

/-- **identities determine the key** -/
theorem key_of_ids {roots : List (Option VExpr)} {x y : String × Occ} (hx : RootEntOK roots x) (hy : RootEntOK roots y)
    (hid : x.2.ids = y.2.ids) : x.1 = y.1 := by
  obtain ⟨r, root, hr, ps, hp0, hp1, hp2, hp3⟩ := hx
  obtain ⟨r', root', hr', ps', hp0', hp1', hp2', hp3'⟩ := hy
  rw [hp1, hp1'] at hid
  -- the first identities agree, so the roots agree
  have hrr : r = r' := by
    cases ps with
    | nil => exact absurd rfl hp0
    | cons p ps =>
      cases ps' with
      | nil => simp at hid
      | cons p' ps' =>
        simp only [List.map_cons, List.cons.injEq, List.singleton_append] at hid
        exact hid.1.1
  subst hrr
  have hroot : root = root' := by rw [hr] at hr'; simpa using hr'
  subst hroot
  have hps : ps = ps' := by
    exact map_inj_of_inj (f := fun p : List Nat => [r] ++ p) (fun a b h => by simpa using h) hid
  subst hps
  have hnodes : x.2.nodes = y.2.nodes := by
    have : x.2.nodes.map some = y.2.nodes.map some := by rw [← hp2, ← hp2']
    exact map_inj_of_inj (f := some) (fun a b h => by simpa using h) this
  rw [hp3, hp3', hnodes]

/-! ### through the dict and the filters -/

theorem mem_insertEntry {S : String × Occ → Prop} (k : String) (o : Occ) (hko : S (k, o)) : ∀ (g : List Cand),
    (∀ c ∈ g, ∀ o' ∈ c.occs, S (c.key, o')) → ∀ c ∈ insertEntry k o g, ∀ o' ∈ c.occs, S (c.key, o')
  | [], _ => by
    intro c hc o' ho'
    simp only [insertEntry, List.mem_singleton] at hc
    subst hc
    simp only [List.mem_singleton] at ho'
    subst ho'; exact hko
  | d :: rest, hg => by
    intro c hc o' ho'
    simp only [insertEntry] at hc
    split at hc
    · rename_i hk
      have hk' : d.key = k := by simpa using hk
      rcases List.mem_cons.mp hc with rfl | hc'
      · simp only [List.mem_append, List.mem_singleton] at ho'
        rcases ho' with ho' | rfl
        · exact hg d List.mem_cons_self o' ho'
        · simpa [hk'] using hko
      · exact hg c (List.mem_cons_of_mem _ hc') o' ho'
    · rcases List.mem_cons.mp hc with rfl | hc'
      · exact hg _ List.mem_cons_self o' ho'
      · exact mem_insertEntry k o hko rest (fun c hc => hg c (List.mem_cons_of_mem _ hc)) c hc' o' ho'

theorem mem_groupEntries (es : List (String × Occ)) : ∀ c ∈ groupEntries es, ∀ o ∈ c.occs, (c.key, o) ∈ es := by
  unfold groupEntries
  suffices ∀ (l : List (String × Occ)) (g : List Cand), (∀ x ∈ l, x ∈ es) →
      (∀ c ∈ g, ∀ o ∈ c.occs, (c.key, o) ∈ es) →
      ∀ c ∈ l.foldl (fun g e => insertEntry e.1 e.2 g) g, ∀ o ∈ c.occs, (c.key, o) ∈ es from
    this es [] (fun _ h => h) (by simp)
  intro l
  induction l with
  | nil => intro g _ hg; exact hg
  | cons e l ih =>
    intro g hl hg
    simp only [List.foldl_cons]
    exact ih _ (fun x hx => hl x (List.mem_cons_of_mem _ hx))
      (mem_insertEntry (S := fun x => x ∈ es) e.1 e.2 (hl e List.mem_cons_self) g hg)

theorem mem_dedupe : ∀ (os seen : List Occ), ∀ o ∈ dedupe seen os, o ∈ os
  | [], seen => by intro o ho; simp [dedupe] at ho
  | a :: os, seen => by
    intro o ho
    simp only [dedupe] at ho
    split at ho
    · exact List.mem_cons_of_mem _ (mem_dedupe os seen o ho)
    · rcases List.mem_cons.mp ho with rfl | ho'
      · exact List.mem_cons_self
      · exact List.mem_cons_of_mem _ (mem_dedupe os _ o ho')

theorem mem_selectFrom (opts : Opts) (roots : List (Option VExpr)) (g : List Cand) :
    ∀ c' ∈ selectFrom opts roots g, ∃ c ∈ g, c'.key = c.key ∧ ∀ o ∈ c'.occs, o ∈ c.occs := by
  intro c' hc'
  unfold selectFrom at hc'
  simp only [List.mem_filter, List.mem_map] at hc'
  obtain ⟨⟨⟨⟨⟨⟨⟨c, ⟨hc, _⟩, rfl⟩, _⟩, _⟩, _⟩, _⟩, _⟩, _⟩ := hc'
  exact ⟨c, hc, rfl, fun o ho => mem_dedupe _ _ o ho⟩

/-- **An exprlist belongs to one candidate only** — for every input. -/
theorem uniqueIds_candidates (opts : Opts) (roots : List (Option VExpr)) : UniqueIds (candidates opts roots) := by
  intro a ha b hb o ho o' ho' hid
  obtain ⟨ca, hca, hka, hoa⟩ := mem_selectFrom opts roots _ a ha
  obtain ⟨cb, hcb, hkb, hob⟩ := mem_selectFrom opts roots _ b hb
  have ea := mem_groupEntries _ ca hca o (hoa o ho)
  have eb := mem_groupEntries _ cb hcb o' (hob o' ho')
  have ra := rootEntOK_allEntries roots roots 0 (fun j => by simp) _ ea
  have rb := rootEntOK_allEntries roots roots 0 (fun j => by simp) _ eb
  rw [hka, hkb]
  exact key_of_ids ra rb hid

end Einx.Solve.CseT
