import EinxModel.Errors.Indicator
import EinxModel.Proofs.Notation
/-!
# Helper lemmas for C03: caret positions computed by the `ExpressionIndicator` model lie inside the string
-/
namespace Einx.Errors
open Einx.Notation

/-! ### The position invariant of every tree the indicator is applied to

`ExprOK` (C12) is the invariant of *parser output*: every `Brackets` node has both carets inside the string.  `_parse_op`
also builds `Brackets` nodes at the default position `-1` (`mark_reduced_axes`, the implicit `[output.axis]`), so the
invariant the indicator needs is weaker for brackets: carets inside the string *if* the node has a source position. -/

mutual
def PosOK (n : Nat) : Expr → Prop
  | .axis _ _ b e => RangeOK n b e
  | .flat i b e => RangeOK n b e ∧ PosOK n i
  | .brackets i b e => (RangeOK n b e ∧ (0 ≤ b → BrOK n b e)) ∧ PosOK n i
  | .ellipsis i _ b e => RangeOK n b e ∧ PosOK n i
  | .concat cs b e => RangeOK n b e ∧ PosOKL n cs
  | .list cs b e => RangeOK n b e ∧ PosOKL n cs
  | .args cs b e => RangeOK n b e ∧ PosOKL n cs
  | .op cs b e => RangeOK n b e ∧ PosOKL n cs
def PosOKL (n : Nat) : List Expr → Prop
  | [] => True
  | c :: cs => PosOK n c ∧ PosOKL n cs
end

theorem posOKL_iff {n : Nat} {cs : List Expr} : PosOKL n cs ↔ ∀ c ∈ cs, PosOK n c := by
  induction cs with
  | nil => simp [PosOKL]
  | cons c cs ih => simp [PosOKL, ih]

mutual
/-- Parser output satisfies the indicator's invariant. -/
theorem posOK_of_exprOK {n : Nat} : ∀ (x : Expr), ExprOK n x → PosOK n x
  | .axis .., h => by simpa only [ExprOK, PosOK] using h
  | .flat i _ _, h => by simp only [ExprOK] at h; exact ⟨h.1, posOK_of_exprOK i h.2⟩
  | .brackets i _ _, h => by simp only [ExprOK] at h; exact ⟨⟨h.1.range, fun _ => h.1⟩, posOK_of_exprOK i h.2⟩
  | .ellipsis i _ _ _, h => by simp only [ExprOK] at h; exact ⟨h.1, posOK_of_exprOK i h.2⟩
  | .concat cs _ _, h => by simp only [ExprOK] at h; exact ⟨h.1, posOKL_of_exprOKL cs h.2⟩
  | .list cs _ _, h => by simp only [ExprOK] at h; exact ⟨h.1, posOKL_of_exprOKL cs h.2⟩
  | .args cs _ _, h => by simp only [ExprOK] at h; exact ⟨h.1, posOKL_of_exprOKL cs h.2⟩
  | .op cs _ _, h => by simp only [ExprOK] at h; exact ⟨h.1, posOKL_of_exprOKL cs h.2⟩
theorem posOKL_of_exprOKL {n : Nat} : ∀ (cs : List Expr), ExprOKL n cs → PosOKL n cs
  | [], _ => trivial
  | c :: cs, h => by simp only [ExprOKL] at h; exact ⟨posOK_of_exprOK c h.1, posOKL_of_exprOKL cs h.2⟩
end

theorem PosOK.range {n : Nat} {x : Expr} (h : PosOK n x) : RangeOK n x.b x.e := by
  cases x <;> simp only [PosOK] at h <;> simp only [Expr.b, Expr.e]
  · exact h
  · exact h.1
  · exact h.1.1
  · exact h.1
  · exact h.1
  · exact h.1
  · exact h.1
  · exact h.1

theorem emptyList_pos (n : Nat) : PosOK n emptyList := by
  simp [emptyList, PosOK, PosOKL, rangeOK_neg1]

theorem mkFlat_pos {n : Nat} {i : Expr} {b e : Int} (hi : PosOK n i) (h : RangeOK n b e) : PosOK n (mkFlat i b e) := by
  unfold mkFlat
  split
  · exact hi
  · exact ⟨h, hi⟩

theorem mkBrackets_pos {n : Nat} {i : Expr} {b e : Int} (hi : PosOK n i) (h : RangeOK n b e ∧ (0 ≤ b → BrOK n b e)) :
    PosOK n (mkBrackets i b e) := by
  unfold mkBrackets
  split
  · exact hi
  · split
    · exact emptyList_pos n
    · exact ⟨h, hi⟩

theorem mkEllipsis_pos {n : Nat} {i : Expr} {b e : Int} {id : Nat} (hi : PosOK n i) (h : RangeOK n b e) :
    PosOK n (mkEllipsis i b e id) := by
  unfold mkEllipsis
  split
  · exact emptyList_pos n
  · exact ⟨h, hi⟩

theorem mkConcat_pos {n : Nat} {cs : List Expr} {b e : Int} (hcs : ∀ c ∈ cs, PosOK n c) (h : RangeOK n b e) :
    PosOK n (mkConcat cs b e) := by
  unfold mkConcat
  split
  · exact hcs _ (by simp)
  · exact ⟨h, posOKL_iff.mpr hcs⟩

mutual
theorem flattenOne_pos {n : Nat} : ∀ (x : Expr), PosOK n x → ∀ c ∈ flattenOne x, PosOK n c
  | .list cs _ _, h => by
    simp only [flattenOne]
    exact flattenAll_pos cs (by simp only [PosOK] at h; exact h.2)
  | .axis .., h => by simp only [flattenOne, List.mem_singleton]; intro c hc; subst hc; exact h
  | .flat .., h => by simp only [flattenOne, List.mem_singleton]; intro c hc; subst hc; exact h
  | .brackets .., h => by simp only [flattenOne, List.mem_singleton]; intro c hc; subst hc; exact h
  | .ellipsis .., h => by simp only [flattenOne, List.mem_singleton]; intro c hc; subst hc; exact h
  | .concat .., h => by simp only [flattenOne, List.mem_singleton]; intro c hc; subst hc; exact h
  | .args .., h => by simp only [flattenOne, List.mem_singleton]; intro c hc; subst hc; exact h
  | .op .., h => by simp only [flattenOne, List.mem_singleton]; intro c hc; subst hc; exact h
theorem flattenAll_pos {n : Nat} : ∀ (cs : List Expr), PosOKL n cs → ∀ c ∈ flattenAll cs, PosOK n c
  | [], _ => by simp [flattenAll]
  | x :: xs, h => by
    simp only [flattenAll, List.mem_append]
    simp only [PosOKL] at h
    intro c hc
    rcases hc with hc | hc
    · exact flattenOne_pos x h.1 c hc
    · exact flattenAll_pos xs h.2 c hc
end

theorem mkList_pos {n : Nat} {cs : List Expr} {b e : Int} (hcs : ∀ c ∈ cs, PosOK n c) (h : RangeOK n b e) :
    PosOK n (mkList cs b e) := by
  have hf := flattenAll_pos (n := n) cs (posOKL_iff.mpr hcs)
  unfold mkList
  split
  · rename_i c hc
    exact hf c (by rw [hc]; simp)
  · exact ⟨h, posOKL_iff.mpr hf⟩

mutual
theorem nodes_ok {n : Nat} : ∀ (x : Expr), PosOK n x → ∀ y ∈ nodes x, PosOK n y
  | .axis .., h => by simp only [nodes, List.mem_singleton]; intro y hy; subst hy; exact h
  | .flat i b e, h => by
    simp only [nodes, List.mem_cons]
    intro y hy
    rcases hy with hy | hy
    · subst hy; exact h
    · exact nodes_ok i (by simp only [PosOK] at h; exact h.2) y hy
  | .brackets i b e, h => by
    simp only [nodes, List.mem_cons]
    intro y hy
    rcases hy with hy | hy
    · subst hy; exact h
    · exact nodes_ok i (by simp only [PosOK] at h; exact h.2) y hy
  | .ellipsis i id b e, h => by
    simp only [nodes, List.mem_cons]
    intro y hy
    rcases hy with hy | hy
    · subst hy; exact h
    · exact nodes_ok i (by simp only [PosOK] at h; exact h.2) y hy
  | .concat cs b e, h => by
    simp only [nodes, List.mem_cons]
    intro y hy
    rcases hy with hy | hy
    · subst hy; exact h
    · exact nodesL_ok cs (by simp only [PosOK] at h; exact h.2) y hy
  | .list cs b e, h => by
    simp only [nodes, List.mem_cons]
    intro y hy
    rcases hy with hy | hy
    · subst hy; exact h
    · exact nodesL_ok cs (by simp only [PosOK] at h; exact h.2) y hy
  | .args cs b e, h => by
    simp only [nodes, List.mem_cons]
    intro y hy
    rcases hy with hy | hy
    · subst hy; exact h
    · exact nodesL_ok cs (by simp only [PosOK] at h; exact h.2) y hy
  | .op cs b e, h => by
    simp only [nodes, List.mem_cons]
    intro y hy
    rcases hy with hy | hy
    · subst hy; exact h
    · exact nodesL_ok cs (by simp only [PosOK] at h; exact h.2) y hy
theorem nodesL_ok {n : Nat} : ∀ (cs : List Expr), PosOKL n cs → ∀ y ∈ nodesL cs, PosOK n y
  | [], _ => by simp [nodesL]
  | c :: cs, h => by
    simp only [nodesL, List.mem_append]
    simp only [PosOKL] at h
    intro y hy
    rcases hy with hy | hy
    · exact nodes_ok c h.1 y hy
    · exact nodesL_ok cs h.2 y hy
end

/-- All roots that are present satisfy the position invariant. -/
def RootsOK (n : Nat) (roots : List (Option Expr)) : Prop := ∀ x, some x ∈ roots → PosOK n x

theorem rootNodes_ok {n : Nat} {roots : List (Option Expr)} (h : RootsOK n roots) : ∀ y ∈ rootNodes roots, PosOK n y := by
  intro y hy
  simp only [rootNodes, List.mem_flatMap] at hy
  obtain ⟨r, hr, hy⟩ := hy
  cases r with
  | none => simp at hy
  | some x => exact nodes_ok x (h x hr) y hy

theorem axisnamePos_inR {n : Nat} (names : List Str) {y : Expr} (h : PosOK n y) : ∀ p ∈ axisnamePos names y, InR n p := by
  cases y <;> simp only [axisnamePos, List.not_mem_nil, false_imp_iff, implies_true]
  split
  · simp only [PosOK] at h; exact posRange_inR h
  · simp

theorem concatPos_inR {n : Nat} {y : Expr} (h : PosOK n y) : ∀ p ∈ concatPos y, InR n p := by
  cases y <;> simp only [concatPos, List.not_mem_nil, false_imp_iff, implies_true]
  split
  · simp only [PosOK] at h; exact posRange_inR h.1
  · simp

theorem bracketsPos_inR {n : Nat} {y : Expr} (h : PosOK n y) : ∀ p ∈ bracketsPos y, InR n p := by
  cases y <;> simp only [bracketsPos, List.not_mem_nil, false_imp_iff, implies_true]
  split
  · simp only [PosOK] at h
    rename_i hb0
    have hb := h.1.2 hb0
    unfold BrOK at hb
    intro p hp
    simp only [List.mem_cons, List.not_mem_nil, or_false] at hp
    unfold InR
    rcases hp with hp | hp <;> subst hp <;> omega
  · simp

theorem ellipsisPos_inR {n : Nat} {y : Expr} (h : ellNodeOK n y = true) : ∀ p ∈ ellipsisPos y, InR n p := by
  cases y <;> simp only [ellipsisPos, List.not_mem_nil, false_imp_iff, implies_true]
  rename_i i id b e
  split
  · rename_i hb
    simp only [ellNodeOK, Bool.or_eq_true, Bool.and_eq_true, decide_eq_true_eq] at h
    intro p hp
    have := mem_posRange.mp hp
    unfold InR
    rcases h with h | h <;> omega
  · simp

theorem posAssert_iff {n : Nat} {pos : List Int} : posAssert n pos = true ↔ ∀ p ∈ pos, InR n p := by
  simp [posAssert, InR, List.all_eq_true]

theorem flatMap_inR {n : Nat} {ys : List Expr} {f : Expr → List Int} (h : ∀ y ∈ ys, ∀ p ∈ f y, InR n p) :
    ∀ p ∈ ys.flatMap f, InR n p := by
  intro p hp
  simp only [List.mem_flatMap] at hp
  obtain ⟨y, hy, hp⟩ := hp
  exact h y hy p hp

/-! ### `stage1.map` preserves the position invariant -/

mutual
theorem mapExpr_ok {n : Nat} (f : Expr → Option Expr) (hf : ∀ y z, PosOK n y → f y = some z → PosOK n z) :
    ∀ (x : Expr), PosOK n x → PosOK n (mapExpr f x)
  | .axis nm v b e, h => by
    simp only [mapExpr]
    split
    · rename_i y hy; exact hf _ y h hy
    · exact h
  | .flat i b e, h => by
    simp only [mapExpr]
    split
    · rename_i y hy; exact hf _ y h hy
    · simp only [PosOK] at h
      exact mkFlat_pos (mapExpr_ok f hf i h.2) h.1
  | .brackets i b e, h => by
    simp only [mapExpr]
    split
    · rename_i y hy; exact hf _ y h hy
    · simp only [PosOK] at h
      exact mkBrackets_pos (mapExpr_ok f hf i h.2) h.1
  | .ellipsis i id b e, h => by
    simp only [mapExpr]
    split
    · rename_i y hy; exact hf _ y h hy
    · simp only [PosOK] at h
      exact mkEllipsis_pos (mapExpr_ok f hf i h.2) h.1
  | .concat cs b e, h => by
    simp only [mapExpr]
    split
    · rename_i y hy; exact hf _ y h hy
    · simp only [PosOK] at h
      exact mkConcat_pos (mapExprL_ok f hf cs h.2) h.1
  | .list cs b e, h => by
    simp only [mapExpr]
    split
    · rename_i y hy; exact hf _ y h hy
    · simp only [PosOK] at h
      exact mkList_pos (mapExprL_ok f hf cs h.2) h.1
  | .args cs b e, h => by
    simp only [mapExpr]
    split
    · rename_i y hy; exact hf _ y h hy
    · simp only [PosOK] at h
      exact ⟨h.1, posOKL_iff.mpr (mapExprL_ok f hf cs h.2)⟩
  | .op cs b e, h => by
    simp only [mapExpr]
    split
    · rename_i y hy; exact hf _ y h hy
    · simp only [PosOK] at h
      exact ⟨h.1, posOKL_iff.mpr (mapExprL_ok f hf cs h.2)⟩
theorem mapExprL_ok {n : Nat} (f : Expr → Option Expr) (hf : ∀ y z, PosOK n y → f y = some z → PosOK n z) :
    ∀ (cs : List Expr), PosOKL n cs → ∀ c ∈ mapExprL f cs, PosOK n c
  | [], _ => by simp [mapExprL]
  | x :: xs, h => by
    simp only [mapExprL, List.mem_cons]
    simp only [PosOKL] at h
    intro c hc
    rcases hc with hc | hc
    · subst hc; exact mapExpr_ok f hf x h.1
    · exact mapExprL_ok f hf xs h.2 c hc
end

theorem removeBrackets_ok {n : Nat} {x : Expr} (h : PosOK n x) : PosOK n (removeBrackets x) := by
  apply mapExpr_ok _ _ x h
  intro y z _ hyz
  cases y <;> simp at hyz
  subst hyz
  exact emptyList_pos n

theorem toOutput_ok {n : Nat} {x : Expr} (h : PosOK n x) : PosOK n (toOutput x) := by
  apply mapExpr_ok _ _ x h
  intro y z _ hyz
  cases y <;> simp at hyz
  subst hyz
  apply mkBrackets_pos
  · simp only [PosOK]; exact rangeOK_neg1 n
  · exact ⟨rangeOK_neg1 n, by omega⟩

theorem markAxes_ok {n : Nat} (outNames : List Str) {x : Expr} (h : PosOK n x) : PosOK n (markAxes outNames x) := by
  apply mapExpr_ok _ _ x h
  intro y z hy hyz
  cases y <;> simp at hyz
  obtain ⟨_, hyz⟩ := hyz
  subst hyz
  exact ⟨⟨rangeOK_neg1 n, by omega⟩, hy⟩

end Einx.Errors
