import EinxModel.Proofs.Notation
import Std.Data.String.ToNat
/-!
# M1 Notation — similarity "up to positions and fresh ids" (definitions shared by the space-invariance layers)

`parse_op` draws `uuid4()` for every numeric axis (`unnamed.<uuid>`) and every ellipsis; the model uses the begin position
of the token that causes the draw.  Two parses of texts that differ by a redundant space therefore differ in every position
and in those names/ids.  `ESim φ x y`: `y` is `x` with arbitrary positions, every fresh name `unnamed.p` renamed to
`unnamed.(φ p)` and every ellipsis id `d` replaced by `φ d`.  With `φ` injective this is "equal up to positions and a
renumbering of the fresh ids".

Layers (each proved in its own file):
* `NotationSegment` : string → token lists        (`segment_insert`)
* `NotationTree`    : token lists → token trees   (`tree_insert`)
* `NotationParseSim`: `parse` on related token trees (`parse_rel`)
* `NotationSimBack` : `move_up` passes, bracket pass, post-checks (`finish_sim`)
-/
namespace Einx.Notation

/-! ### Names -/

/-- `n'` is `n` with a fresh name `unnamed.p` renumbered to `unnamed.(φ p)`; other names are unchanged. -/
def NameRel (φ : Nat → Nat) (n n' : Str) : Prop :=
  (n = n' ∧ ∀ p, n ≠ unnamedName p) ∨ ∃ p, n = unnamedName p ∧ n' = unnamedName (φ p)

theorem natStr_inj {a b : Nat} (h : natStr a = natStr b) : a = b := by
  unfold natStr at h
  exact Nat.repr_injective (String.toList_inj.mp h)

theorem unnamedName_inj {a b : Nat} (h : unnamedName a = unnamedName b) : a = b := by
  unfold unnamedName at h
  exact natStr_inj (List.append_cancel_left h)

/-- `NameRel` is a partial bijection when `φ` is injective: related names are equal on one side iff on the other. -/
theorem NameRel.eq_iff {φ : Nat → Nat} (hφ : Function.Injective φ) {a b a' b' : Str}
    (h : NameRel φ a b) (h' : NameRel φ a' b') : a = a' ↔ b = b' := by
  rcases h with ⟨rfl, hn⟩ | ⟨p, rfl, rfl⟩ <;> rcases h' with ⟨rfl, hn'⟩ | ⟨p', rfl, rfl⟩
  · exact Iff.rfl
  · exact ⟨fun h => absurd h (hn p'), fun h => absurd h (hn (φ p'))⟩
  · exact ⟨fun h => absurd h.symm (hn' p), fun h => absurd h.symm (hn' (φ p))⟩
  · constructor
    · intro h; rw [unnamedName_inj h]
    · intro h; rw [hφ (unnamedName_inj h)]

theorem unnamedName_mem_dot (p : Nat) : '.' ∈ unnamedName p := by
  simp [unnamedName, lit]

theorem isAxisName_not_dot {s : Str} (h : isAxisName s = true) : '.' ∉ s := by
  cases s with
  | nil => simp [isAxisName] at h
  | cons c cs =>
    simp only [isAxisName, Bool.and_eq_true, List.all_eq_true] at h
    intro hm
    rcases List.mem_cons.mp hm with hm | hm
    · subst hm
      have := h.1
      revert this; decide
    · have := h.2 _ hm; revert this; decide

theorem NameRel.of_axisName (φ : Nat → Nat) {s : Str} (h : isAxisName s = true) : NameRel φ s s :=
  Or.inl ⟨rfl, fun p hp => isAxisName_not_dot h (hp ▸ unnamedName_mem_dot p)⟩

theorem NameRel.anon (φ : Nat → Nat) : NameRel φ anonName anonName := by
  refine Or.inl ⟨rfl, fun p hp => ?_⟩
  have : anonName.head? = (unnamedName p).head? := by rw [hp]
  revert this
  simp [anonName, unnamedName, lit, Einx.Extracted.anonymousVariableName]

theorem NameRel.unnamed (φ : Nat → Nat) (p : Nat) : NameRel φ (unnamedName p) (unnamedName (φ p)) :=
  Or.inr ⟨p, rfl, rfl⟩

/-! ### Trees -/

mutual
inductive ESim (φ : Nat → Nat) : Expr → Expr → Prop
  | axis {n n' : Str} {v : Option Nat} {b e b' e' : Int} : NameRel φ n n' → (v = none → n = n') →
      ESim φ (.axis n v b e) (.axis n' v b' e')
  | flat {i i' : Expr} {b e b' e' : Int} : ESim φ i i' → ESim φ (.flat i b e) (.flat i' b' e')
  | brackets {i i' : Expr} {b e b' e' : Int} : ESim φ i i' → ESim φ (.brackets i b e) (.brackets i' b' e')
  | ellipsis {i i' : Expr} {d : Nat} {b e b' e' : Int} : ESim φ i i' → ESim φ (.ellipsis i d b e) (.ellipsis i' (φ d) b' e')
  | concat {cs cs' : List Expr} {b e b' e' : Int} : ESimL φ cs cs' → ESim φ (.concat cs b e) (.concat cs' b' e')
  | list {cs cs' : List Expr} {b e b' e' : Int} : ESimL φ cs cs' → ESim φ (.list cs b e) (.list cs' b' e')
  | args {cs cs' : List Expr} {b e b' e' : Int} : ESimL φ cs cs' → ESim φ (.args cs b e) (.args cs' b' e')
  | op {cs cs' : List Expr} {b e b' e' : Int} : ESimL φ cs cs' → ESim φ (.op cs b e) (.op cs' b' e')
inductive ESimL (φ : Nat → Nat) : List Expr → List Expr → Prop
  | nil : ESimL φ [] []
  | cons {a a' : Expr} {as as' : List Expr} : ESim φ a a' → ESimL φ as as' → ESimL φ (a :: as) (a' :: as')
end

/-- Same raise site (for `SyntaxError`s: same message kind; caret positions may differ). -/
def ErrSim : Err → Err → Prop
  | .syntax k _ _, .syntax k' _ _ => k = k'
  | .internal k, .internal k' => k = k'
  | _, _ => False

/-- Results equal up to positions and fresh ids: both trees (`ESim`) or both errors of the same kind. -/
def RSim (φ : Nat → Nat) : Res Expr → Res Expr → Prop
  | .ok x, .ok y => ESim φ x y
  | .error a, .error b => ErrSim a b
  | _, _ => False

/-- Same for lists of trees (`mapM` over operands). -/
def RSimL (φ : Nat → Nat) : Res (List Expr) → Res (List Expr) → Prop
  | .ok x, .ok y => ESimL φ x y
  | .error a, .error b => ErrSim a b
  | _, _ => False

theorem ErrSim.refl (a : Err) : ErrSim a a := by cases a <;> simp [ErrSim]

/-! ### The part of `parse_op` after `parse` -/

/-- Lines 249–403 of `parse.py`: both `move_up` passes, redundant-bracket removal, the two post-checks. -/
def finish (arrows : List Int) (x : Expr) : Res Expr :=
  match moveUp .op arrows x with
  | .error err => .error err
  | .ok x1 =>
    match x1 with
    | .op cs b e =>
      match moveUpL .args arrows cs with
      | .error err => .error err
      | .ok cs2 =>
        let x3 := traverse false (.op cs2 b e)
        if x3.children.length > 2 then .error (.syntax .multipleArrows arrows [])
        else checkBrackets x3
    | _ => .error (.internal .assertRoot)

/-- `parseOp` is lexer, duplicate-space removal, delimiter stack, `parse`, `finish`. -/
theorem parseOp_eq (text : Str) : parseOp text =
    match lex text with
    | .error err => .error err
    | .ok toks =>
      match buildTree (dedupSpaces toks false) [] [] with
      | .error err => .error err
      | .ok tree =>
        match parse tree 0 (lastEnd tree 0) false with
        | .error err => .error err
        | .ok x => finish (posForLiteral (lit "->") text 0) x := by
  unfold parseOp finish
  rfl

/-! ### Token trees -/

mutual
/-- Same texts; atoms' begin positions (the source of fresh ids) are related by `φ`. -/
inductive TSim (φ : Nat → Nat) : Tok → Tok → Prop
  | atom {t t' : Token} : t'.text = t.text → t'.b = φ t.b → TSim φ (.atom t) (.atom t')
  | group {o c o' c' : Token} {inner inner' : List Tok} : o'.text = o.text → TSimL φ inner inner' →
      TSim φ (.group o c inner) (.group o' c' inner')
inductive TSimL (φ : Nat → Nat) : List Tok → List Tok → Prop
  | nil : TSimL φ [] []
  | cons {t t' : Tok} {ts ts' : List Tok} : TSim φ t t' → TSimL φ ts ts' → TSimL φ (t :: ts) (t' :: ts')
end

/-- An atom `->`, `,` or `+`. -/
def Tok.isOp3 (t : Tok) : Bool := t.isText (lit "->") || t.isText (lit ",") || t.isText (lit "+")

mutual
/-- `ts'` is `ts` (up to `TSim`) with ONE additional space atom that stands directly after or directly before an
    atom `->`, `,`, `+` of this list, or (recursively, `Ins`) inside one group of this list. -/
inductive InsT (φ : Nat → Nat) : List Tok → List Tok → Prop
  | afterOp {a a' sp : Tok} {R R' : List Tok} : TSim φ a a' → a.isOp3 = true → sp.isSpace = true → TSimL φ R R' →
      InsT φ (a :: R) (a' :: sp :: R')
  | beforeOp {a a' sp : Tok} {R R' : List Tok} : sp.isSpace = true → TSim φ a a' → a.isOp3 = true → TSimL φ R R' →
      InsT φ (a :: R) (sp :: a' :: R')
  | inside {o c o' c' : Token} {inner inner' R R' : List Tok} : o'.text = o.text → Ins φ inner inner' → TSimL φ R R' →
      InsT φ (.group o c inner :: R) (.group o' c' inner' :: R')
  | cons {t t' : Tok} {R R' : List Tok} : TSim φ t t' → InsT φ R R' → InsT φ (t :: R) (t' :: R')
/-- `InsT`, or the additional space atom is the first or the last element of the list (string start/end, directly
    after an opening or before a closing delimiter, first/last token of an operand). -/
inductive Ins (φ : Nat → Nat) : List Tok → List Tok → Prop
  | lead {sp : Tok} {R R' : List Tok} : sp.isSpace = true → TSimL φ R R' → Ins φ R (sp :: R')
  | trail {sp : Tok} {L L' ts' : List Tok} : sp.isSpace = true → TSimL φ L L' → ts' = L' ++ [sp] → Ins φ L ts'
  | tight {ts ts' : List Tok} : InsT φ ts ts' → Ins φ ts ts'
end

/-- Relation between the two token trees of a text without / with one redundant space. -/
def TreeRel (φ : Nat → Nat) : Res (List Tok) → Res (List Tok) → Prop
  | .ok T, .ok T' => TSimL φ T T' ∨ Ins φ T T'
  | .error a, .error b => ErrSim a b
  | _, _ => False

/-! ### Token lists (interface between the lexer layer and the tree layer) -/

def TokRel (φ : Nat → Nat) (t t' : Token) : Prop := t'.text = t.text ∧ t'.b = φ t.b

/-- Pointwise relation between two lists of the same length (Mathlib's `List.Forall₂`; defined here because the
    notation files use core only, and under its own name so that it cannot clash with Mathlib elsewhere in the project). -/
inductive Forall2 {α β : Type} (R : α → β → Prop) : List α → List β → Prop
  | nil : Forall2 R [] []
  | cons {a : α} {b : β} {l₁ : List α} {l₂ : List β} : R a b → Forall2 R l₁ l₂ → Forall2 R (a :: l₁) (b :: l₂)

/-- Texts directly after which a space is redundant (besides a space): opening delimiters and `,`, `+`, `->`. -/
def afterOps : List Str := [lit "(", lit "[", lit ",", lit "+", lit "->"]
/-- Texts directly before which a space is redundant (besides a space): closing delimiters and `,`, `+`, `->`. -/
def beforeOps : List Str := [lit ")", lit "]", lit ",", lit "+", lit "->"]

/-- Where the additional space token stands between the token lists `A` (before it) and `B` (after it):
    directly after a space token, or next to no space and at the begin/end or next to a delimiter/operator as above. -/
def SlotCond (A B : List Token) : Prop :=
  (∃ a, A.getLast? = some a ∧ a.text = spaceLit) ∨
  ((∀ a, A.getLast? = some a → a.text ≠ spaceLit) ∧ (∀ b, B.head? = some b → b.text ≠ spaceLit) ∧
    (A = [] ∨ B = [] ∨ (∃ a, A.getLast? = some a ∧ a.text ∈ afterOps) ∨ (∃ b, B.head? = some b ∧ b.text ∈ beforeOps)))

/-! ### Redundant spaces in a string -/

/-- Literals directly after which a space is redundant. -/
def afterLits : List Str := spaceLit :: afterOps
/-- Literals directly before which a space is redundant. -/
def beforeLits : List Str := spaceLit :: beforeOps

/-- A space between `xs` and `ys` (text `xs ++ ' ' :: ys`) is *redundant*: at the beginning or end of the text, adjacent
    to another space, directly after `(` `[` or directly before `)` `]`, or adjacent to `,`, `+`, `->`.
    (Not: a space before `...` or before an opening / after a closing delimiter — those separate tokens.) -/
def RedundantAt (xs ys : Str) : Bool :=
  xs.isEmpty || ys.isEmpty || afterLits.any (fun l => l.isSuffixOf xs) || beforeLits.any (fun l => l.isPrefixOf ys)

end Einx.Notation
