import EinxModel.Proofs.CseTreesEval
/-!
Helper lemmas for `Props/C02Cse.lean`, part 3: the unknown axes of the output of the replacement walk are the copied
ones plus one `cse.<k>` per replaced part with an unknown value; the unknown axes of the input are the copied ones plus
those inside the replaced parts (`repl_decls`).
-/
namespace Einx.Solve.CseT
open Einx.Solve

/-- the unknown axes an event contributes to the output -/
def outDecls : Ev → List (Var × Nat)
  | .surv n m => [(n, m)]
  | .used k e _ _ =>
    match valueOf e, valueRange e with
    | none, some (m, _) => [(cseName k, m)]
    | _, _ => []

/-- the unknown axes of the input an event accounts for -/
def inDecls : Ev → List (Var × Nat)
  | .surv n m => [(n, m)]
  | .used _ e _ _ => freeAxes e

def EvPos : Ev → Prop
  | .surv _ _ => True
  | .used _ _ len _ => 0 < len

theorem mkConcat_free {ts : List VExpr} {c : VExpr} (h : mkConcat ts = .ok c) : freeAxes c = freeAxesL ts := by
  unfold mkConcat at h
  split at h
  · cases h
  · have := pure_ok.mp h; subst this; simp [freeAxesL]
  · split at h
    · have := pure_ok.mp h; subst this; simp [freeAxes]
    · cases h

theorem freeAxes_newAxis (k : Nat) (e : VExpr) (m : Nat) (ub : Bool) (h : valueRange e = some (m, ub)) :
    freeAxes (.axis (cseName k) (valueOf e) m) = outDecls (.used k e 1 true) := by
  cases hv : valueOf e <;> simp [freeAxes, outDecls, hv, h]

section
variable (mn : Id → Option Nat) (ma : Id → Nat → Nat → Option (Nat × Nat))

def DNode (t : VExpr) : Prop :=
  ∀ (lvl : Bool) (id : Id) (ts' : List VExpr), repl cseName mn ma id t = .ok ts' →
    (∀ ev ∈ trace mn ma lvl id t, EvPos ev) →
    freeAxesL ts' = (trace mn ma lvl id t).flatMap outDecls ∧ freeAxes t = (trace mn ma lvl id t).flatMap inDecls

def DList (l : List VExpr) : Prop :=
  (∀ (lvl : Bool) (pid : Id) (n i skip : Nat) (ts' : List VExpr),
    replL cseName mn ma pid n i skip l = .ok ts' → (∀ ev ∈ traceL mn ma lvl pid n i skip l, EvPos ev) →
    freeAxesL ts' = (traceL mn ma lvl pid n i skip l).flatMap outDecls ∧
      freeAxesL (l.drop skip) = (traceL mn ma lvl pid n i skip l).flatMap inDecls) ∧
  (∀ (lvl : Bool) (pid : Id) (k : Nat) (ts' : List VExpr),
    replC cseName mn ma pid k l = .ok ts' → (∀ ev ∈ traceC mn ma lvl pid k l, EvPos ev) →
    freeAxesL ts' = (traceC mn ma lvl pid k l).flatMap outDecls ∧
      freeAxesL l = (traceC mn ma lvl pid k l).flatMap inDecls)

theorem dNode_matched {id : Id} {k : Nat} (hm : mn id = some k) (t : VExpr) (lvl : Bool) (ts' : List VExpr)
    (hr : repl cseName mn ma id t = .ok ts') :
    freeAxesL ts' = (trace mn ma lvl id t).flatMap outDecls ∧ freeAxes t = (trace mn ma lvl id t).flatMap inDecls := by
  rw [repl_matched mn ma hm] at hr
  rw [trace_matched mn ma hm]
  obtain ⟨a, ha, hp⟩ := bind_ok.mp hr
  obtain ⟨m, ub, hrange, rfl⟩ := newAxis_ok ha
  have hts := pure_ok.mp hp
  subst hts
  constructor
  · simp only [freeAxesL, List.append_nil, List.flatMap_cons, List.flatMap_nil]
    rw [freeAxes_newAxis k t m ub hrange]; simp [outDecls]
  · simp [inDecls]

mutual
theorem dNode : ∀ t : VExpr, DNode mn ma t
  | .axis n v m => by
    intro lvl id ts' hr _
    cases hm : mn id with
    | some k => exact dNode_matched mn ma hm _ lvl ts' hr
    | none =>
      simp only [repl, nodeOr, hm] at hr
      simp only [trace, evNode, hm]
      have := pure_ok.mp hr; subst this
      cases v <;> simp [freeAxesL, freeAxes, outDecls, inDecls]
  | .flat e => by
    intro lvl id ts' hr hg
    cases hm : mn id with
    | some k => exact dNode_matched mn ma hm _ lvl ts' hr
    | none =>
      simp only [repl, nodeOr, hm] at hr
      simp only [trace, evNode, hm] at hg ⊢
      obtain ⟨ts2, h2, hp⟩ := bind_ok.mp hr
      have := pure_ok.mp hp; subst this
      obtain ⟨ih1, ih2⟩ := dNode e false (id ++ [0]) ts2 h2 hg
      simp only [freeAxesL, List.append_nil, (mkFlat_spec (fun _ => 0) _).2.2, (mkList_spec (fun _ => 0) ts2).2.2, freeAxes]
      exact ⟨ih1, ih2⟩
  | .brackets e => by
    intro lvl id ts' hr hg
    cases hm : mn id with
    | some k => exact dNode_matched mn ma hm _ lvl ts' hr
    | none =>
      simp only [repl, nodeOr, hm] at hr
      simp only [trace, evNode, hm] at hg ⊢
      obtain ⟨ts2, h2, hp⟩ := bind_ok.mp hr
      have := pure_ok.mp hp; subst this
      obtain ⟨ih1, ih2⟩ := dNode e lvl (id ++ [0]) ts2 h2 hg
      simp only [freeAxesL, List.append_nil, (mkBrackets_spec (fun _ => 0) _).2.2, (mkList_spec (fun _ => 0) ts2).2.2, freeAxes]
      exact ⟨ih1, ih2⟩
  | .concat cs => by
    intro lvl id ts' hr hg
    cases hm : mn id with
    | some k => exact dNode_matched mn ma hm _ lvl ts' hr
    | none =>
      simp only [repl, nodeOr, hm] at hr
      simp only [trace, evNode, hm] at hg ⊢
      obtain ⟨ts2, h2, hr2⟩ := bind_ok.mp hr
      obtain ⟨c', hc, hp⟩ := bind_ok.mp hr2
      have := pure_ok.mp hp; subst this
      obtain ⟨ih1, ih2⟩ := (dList cs).2 lvl id 0 ts2 h2 hg
      simp only [freeAxesL, List.append_nil, mkConcat_free hc, freeAxes]
      exact ⟨ih1, ih2⟩
  | .list cs => by
    intro lvl id ts' hr hg
    cases hm : mn id with
    | some k => exact dNode_matched mn ma hm _ lvl ts' hr
    | none =>
      simp only [repl, nodeOr, hm] at hr
      simp only [trace, evNode, hm] at hg ⊢
      simp only [freeAxes]
      split at hr
      · rename_i h1
        simp only [h1, if_true] at hg ⊢
        exact (dList cs).2 lvl id 0 ts' hr hg
      · rename_i h1
        simp only [h1] at hg ⊢
        simpa using (dList cs).1 lvl id cs.length 0 0 ts' hr hg
theorem dList : ∀ l : List VExpr, DList mn ma l
  | [] => by
    refine ⟨?_, ?_⟩
    · intro lvl pid n i skip ts' hr _
      simp only [replL] at hr
      have := pure_ok.mp hr; subst this
      simp [traceL, freeAxesL]
    · intro lvl pid k ts' hr _
      simp only [replC] at hr
      have := pure_ok.mp hr; subst this
      simp [traceC, freeAxesL]
  | t :: ts => by
    refine ⟨?_, ?_⟩
    · intro lvl pid n i skip ts' hr hg
      simp only [replL] at hr
      simp only [traceL] at hg ⊢
      split at hr
      · rename_i hs
        simp only [hs, if_true] at hg ⊢
        rw [drop_pos_cons t ts hs]
        exact (dList ts).1 lvl pid n (i + 1) (skip - 1) ts' hr hg
      · rename_i hs
        have hs0 : skip = 0 := by omega
        subst hs0
        simp only [Nat.lt_irrefl, if_false] at hg ⊢
        simp only [List.drop_zero]
        cases hma : ma pid i n with
        | some p =>
          obtain ⟨idx, len⟩ := p
          simp only [hma] at hr hg ⊢
          obtain ⟨a, ha, hr2⟩ := bind_ok.mp hr
          obtain ⟨r, hrr, hp⟩ := bind_ok.mp hr2
          have := pure_ok.mp hp; subst this
          obtain ⟨m, ub, hrange, rfl⟩ := newAxis_ok ha
          have hlen : 0 < len := hg _ List.mem_cons_self
          obtain ⟨ih1, ih2⟩ := (dList ts).1 lvl pid n (i + 1) (len - 1) r hrr
            (fun ev hev => hg ev (List.mem_cons_of_mem _ hev))
          have hsplit : t :: ts = (t :: ts).take len ++ ts.drop (len - 1) := by
            conv => lhs; rw [← List.take_append_drop len (t :: ts)]
            rw [drop_pos_cons t ts hlen]
          have hvo : prodOpt (valuesOf ((t :: ts).take len)) = valueOf (.list ((t :: ts).take len)) := by simp [valueOf]
          constructor
          · simp only [freeAxesL, List.flatMap_cons, ih1]
            rw [hvo, freeAxes_newAxis idx _ m ub hrange]; simp [outDecls]
          · conv => lhs; rw [hsplit]
            simp only [freeAxesL_append, List.flatMap_cons, inDecls, freeAxes, ih2]
        | none =>
          simp only [hma] at hr hg ⊢
          obtain ⟨a, ha, hr2⟩ := bind_ok.mp hr
          obtain ⟨r, hrr, hp⟩ := bind_ok.mp hr2
          have := pure_ok.mp hp; subst this
          obtain ⟨ih1, ih2⟩ := dNode t lvl (pid ++ [i]) a ha (fun ev hev => hg ev (List.mem_append_left _ hev))
          obtain ⟨jh1, jh2⟩ := (dList ts).1 lvl pid n (i + 1) 0 r hrr
            (fun ev hev => hg ev (List.mem_append_right _ hev))
          simp only [List.drop_zero] at jh2
          simp only [freeAxesL_append, List.flatMap_append, freeAxesL, ih1, ih2, jh1, jh2, and_self]
    · intro lvl pid k ts' hr hg
      simp only [replC] at hr
      simp only [traceC] at hg ⊢
      obtain ⟨a, ha, hr2⟩ := bind_ok.mp hr
      obtain ⟨r, hrr, hp⟩ := bind_ok.mp hr2
      have := pure_ok.mp hp; subst this
      obtain ⟨ih1, ih2⟩ := dNode t lvl (pid ++ [k]) a ha (fun ev hev => hg ev (List.mem_append_left _ hev))
      obtain ⟨jh1, jh2⟩ := (dList ts).2 lvl pid (k + 1) r hrr (fun ev hev => hg ev (List.mem_append_right _ hev))
      simp only [freeAxesL_append, List.flatMap_append, freeAxesL, ih1, ih2, jh1, jh2, and_self]
end

end

end Einx.Solve.CseT
