import EinxModel.Proofs.LowerRedDefs
/-! Denotation side of `lower_reduce_correct`: the loop-notation denotation `Denote.denoteReduce` of a reduction
on converted expressions (input with the axes named in `m` in brackets, repetition-free input and output), cell by
cell. -/
namespace Einx.Lower
open Einx Einx.IR Einx.Generic Einx.Denote
open Einx.Update (mapOpt mapOpt_eq_some_iff)

/-! ### dimensions, shapes, leaves of the converted expressions with brackets -/

def toLeafM (m : List String) (a : Ax) : Leaf := ⟨a.name, a.len, m.contains a.name⟩

mutual
def toDimM (m : List String) : G → Dim
  | .ax a => .axis (toLeafM m a)
  | .grp gs => .flat (toDimML m gs)
def toDimML (m : List String) : List G → List Dim
  | [] => []
  | g :: gs => toDimM m g :: toDimML m gs
end

mutual
theorem dims_toExprM (m : List String) : ∀ g : G, dims false (toExprM m g) = [toDimM m g]
  | .ax a => by
    by_cases h : m.contains a.name = true
    · simp only [toExprM, h, if_true, dims, toDimM, toLeafM]
    · have h' : m.contains a.name = false := (Bool.not_eq_true _).mp h
      simp only [toExprM, h', Bool.false_eq_true, if_false, dims, toDimM, toLeafM]
  | .grp gs => by simp only [toExprM, dims, toDimM]; rw [dimsL_toExprML m gs]
theorem dimsL_toExprML (m : List String) : ∀ gs : List G, dimsL false (toExprML m gs) = toDimML m gs
  | [] => by simp [toExprML, dimsL, toDimML]
  | g :: gs => by simp only [toExprML, dimsL, toDimML, dims_toExprM m g, dimsL_toExprML m gs]; rfl
end

theorem rootDims_rootExprM (m : List String) (e : List G) : rootDims (rootExprM m e) = toDimML m e := by
  simp only [rootDims, rootExprM, dims]; exact dimsL_toExprML m e

mutual
theorem size_toDimM (m : List String) : ∀ g : G, (toDimM m g).size = g.size
  | .ax a => by simp [toDimM, Dim.size, toLeafM, G.size]
  | .grp gs => by simp only [toDimM, Dim.size, G.size]; exact sizeProd_toDimML m gs
theorem sizeProd_toDimML (m : List String) : ∀ gs : List G, Dim.sizeProd (toDimML m gs) = G.sizeL gs
  | [] => by simp [toDimML, Dim.sizeProd, G.sizeL]
  | g :: gs => by simp only [toDimML, Dim.sizeProd, G.sizeL, size_toDimM m g, sizeProd_toDimML m gs]
end

theorem viewShape_toDimML (m : List String) (e : List G) : viewShape (toDimML m e) = gShape e := by
  induction e with
  | nil => rfl
  | cons g e ih => simp only [toDimML, viewShape, gShape, List.map_cons, size_toDimM] at *; rw [ih]

theorem shapeOf_rootExprM (m : List String) (e : List G) : shapeOf (rootExprM m e) = gShape e := by
  rw [shapeOf_eq, rootDims_rootExprM, viewShape_toDimML]

mutual
theorem leaves_toDimM (m : List String) : ∀ g : G, (toDimM m g).leaves = g.leaves.map (toLeafM m)
  | .ax a => by simp [toDimM, Dim.leaves, G.leaves]
  | .grp gs => by simp only [toDimM, Dim.leaves, G.leaves]; exact leavesL_toDimML m gs
theorem leavesL_toDimML (m : List String) : ∀ gs : List G, Dim.leavesL (toDimML m gs) = (G.leavesL gs).map (toLeafM m)
  | [] => by simp [toDimML, Dim.leavesL, G.leavesL]
  | g :: gs => by
    simp only [toDimML, Dim.leavesL, G.leavesL, leaves_toDimM m g, leavesL_toDimML m gs, List.map_append]
end

mutual
theorem concatFree_toExprM (m : List String) : ∀ g : G, (toExprM m g).concatFree = true
  | .ax a => by
    by_cases h : m.contains a.name = true
    · simp only [toExprM, h, if_true, Expr.concatFree]
    · have h' : m.contains a.name = false := (Bool.not_eq_true _).mp h
      simp only [toExprM, h', Bool.false_eq_true, if_false, Expr.concatFree]
  | .grp gs => by simp only [toExprM, Expr.concatFree]; exact concatFreeL_toExprML m gs
theorem concatFreeL_toExprML (m : List String) : ∀ gs : List G, Expr.concatFreeL (toExprML m gs) = true
  | [] => by simp [toExprML, Expr.concatFreeL]
  | g :: gs => by
    simp only [toExprML, Expr.concatFreeL, concatFree_toExprM m g, concatFreeL_toExprML m gs, Bool.and_self]
end

theorem concatFree_rootExprM (m : List String) (e : List G) : (rootExprM m e).concatFree = true := by
  simp only [rootExprM, Expr.concatFree]; exact concatFreeL_toExprML m e

/-! ### positions: brackets do not matter -/

mutual
theorem pos_toDimM (m : List String) (σ : Assign) (val : String → Nat) : ∀ g : G,
    (∀ a ∈ g.leaves, Assign.get σ a.name = some (val a.name)) →
    (toDimM m g).pos σ = some (ravel (lens g.leaves) (idx g.leaves val))
  | .ax a, h => by
    have := h a (by simp [G.leaves])
    simp [toDimM, Dim.pos, toLeafM, this, G.leaves, lens, idx, ravel, prod]
  | .grp gs, h => by
    obtain ⟨ps, hps, _, hr⟩ := posL_toDimML m σ val gs (by simpa [G.leaves] using h)
    rw [toDimM, pos_flat, position_eq, hps]
    simp only [Option.map_some, viewShape_toDimML, hr, G.leaves]
theorem posL_toDimML (m : List String) (σ : Assign) (val : String → Nat) : ∀ gs : List G,
    (∀ a ∈ G.leavesL gs, Assign.get σ a.name = some (val a.name)) →
    ∃ ps, mapOpt (Dim.pos σ) (toDimML m gs) = some ps ∧ ps.length = gs.length ∧
      ravel (gShape gs) ps = ravel (lens (G.leavesL gs)) (idx (G.leavesL gs) val)
  | [], _ => ⟨[], rfl, rfl, rfl⟩
  | g :: gs, h => by
    have h1 := pos_toDimM m σ val g (fun a ha => h a (by simp [G.leavesL, ha]))
    obtain ⟨ps, hps, hlen, hr⟩ := posL_toDimML m σ val gs (fun a ha => h a (by simp [G.leavesL, ha]))
    refine ⟨ravel (lens g.leaves) (idx g.leaves val) :: ps, by simp [toDimML, mapOpt, h1, hps], by simp [hlen], ?_⟩
    simp only [gShape, List.map_cons, ravel, G.leavesL, lens_append, idx_append]
    rw [ravel_append_len _ _ _ _ (by simp [idx, lens]), ← prod_gShape_leaves]
    simp only [gShape] at hr ⊢
    rw [hr]
end

/-! ### the loop form of `denoteReduce` as a functional form -/

/-- The input element that a reduction reads for the output assignment `σ` and the assignment `τ` of the bracketed
axes. -/
def rdCell (vi : List Dim) (si : List Nat) (li : List Leaf) (σ τ : Assign) : Option Cell :=
  match inputAssign σ τ li with
  | some a => (position vi a).map (fun p => Cell.src 0 (ravel si p))
  | none => none

theorem rd_inner_loop (vi : List Dim) (si : List Nat) (li : List Leaf) (σ : Assign) :
    ∀ (l : List Assign) (cells : List Cell),
      okOpt (forIn l cells (rdInner vi si li σ)) = (mapOpt (rdCell vi si li σ) l).map (fun cs => cells ++ cs) := by
  intro l
  induction l with
  | nil => intro cells; simp [mapOpt, okOpt_pure]
  | cons τ l ih =>
    intro cells
    rw [List.forIn_cons]
    simp only [mapOpt, rdCell, rdInner]
    cases hx : inputAssign σ τ li with
    | none => simp only [optE_none, error_bind, okOpt, Option.map_none]
    | some a =>
      cases hp : position vi a with
      | none => simp only [hp, optE_some, optE_none, pure_bind, error_bind, okOpt, Option.map_none]
      | some p =>
        simp only [hp, optE_some, pure_bind, Option.map_some, ih]
        cases mapOpt (rdCell vi si li σ) l with
        | none => rfl
        | some cs => simp

/-- What a reduction writes for the output assignment `σ`: (output multi-index, reduction cell). -/
def rdEntry (f : String) (vi : List Dim) (si : List Nat) (li : List Leaf) (marked : List (String × Nat)) (vo : List Dim)
    (σ : Assign) : Option (List Nat × Cell) :=
  match mapOpt (rdCell vi si li σ) (assignments marked), position vo σ with
  | some cells, some po => some (po, mkRed f cells)
  | _, _ => none

theorem rd_outer_loop (f : String) (vi : List Dim) (si : List Nat) (li : List Leaf) (marked : List (String × Nat))
    (vo : List Dim) : ∀ (asg : List Assign) (entries : List (List Nat × Cell)),
      okOpt (forIn asg entries (rdOuter f vi si li marked vo))
        = (mapOpt (rdEntry f vi si li marked vo) asg).map (fun es => entries ++ es) := by
  intro asg
  induction asg with
  | nil => intro entries; simp [mapOpt, okOpt_pure]
  | cons σ asg ih =>
    intro entries
    rw [List.forIn_cons]
    simp only [rdOuter, bind_assoc, pure_bind]
    rw [okOpt_bind, rd_inner_loop]
    simp only [mapOpt, rdEntry]
    cases mapOpt (rdCell vi si li σ) (assignments marked) with
    | none => rfl
    | some cells =>
      simp only [Option.map_some, Option.bind_some, List.nil_append]
      cases hp : position vo σ with
      | none => simp only [optE_none, error_bind, okOpt, Option.map_none]
      | some po =>
        simp only [optE_some, pure_bind, ih]
        cases mapOpt (rdEntry f vi si li marked vo) asg with
        | none => rfl
        | some es => simp [List.append_assoc]

/-- The cells of a reduction, functionally. -/
def rdCells (f : String) (vi : List Dim) (si : List Nat) (vo : List Dim) (so : List Nat) : Option (List Cell) :=
  match mapOpt (fun σ => (rdEntry f vi si (Dim.leavesL vi) (axesOf ((Dim.leavesL vi).filter (·.marked))) vo σ).map
      (fun e => (ravel so e.1, e.2))) (outAssignments vo) with
  | some es => gatherAll (prod so) es
  | none => none

/-- **Tie between the loop form and the functional form of the reduction denotation.** -/
theorem denoteReduce_eq_fun (f : String) (e eo : Expr) (he : e.concatFree = true) (heo : eo.concatFree = true) :
    okOpt (denoteReduce f e eo)
      = (rdCells f (rootDims e) (shapeOf e) (rootDims eo) (shapeOf eo)).map
          (fun cs => (⟨shapeOf eo, cs⟩ : Tensor Cell)) := by
  rw [denoteReduce_eq, singleView_of_concatFree he, singleView_of_concatFree heo]
  simp only [pure_bind]
  rw [okOpt_bind, rd_outer_loop]
  unfold rdCells
  rw [mapOpt_map_some]
  simp only [outAssignments]
  cases mapOpt (rdEntry f (rootDims e) (shapeOf e) (Dim.leavesL (rootDims e))
      (axesOf ((Dim.leavesL (rootDims e)).filter (·.marked))) (rootDims eo))
      (assignments (axesOf (Dim.leavesL (rootDims eo)))) with
  | none => rfl
  | some es =>
    simp only [Option.map_some, Option.bind_some, List.nil_append]
    exact okOpt_fillOutput _ _

/-! ### the iteration space of the bracketed axes -/

theorem axesFoldM_nodup (m : List String) : ∀ (L : List Ax) (acc : List (String × Nat)),
    (∀ a ∈ L, ∀ q ∈ acc, q.1 ≠ a.name) → (names L).Nodup →
    (L.map (toLeafM m)).foldl axesStep acc = acc ++ L.map (fun a => (a.name, a.len))
  | [], acc, _, _ => by simp
  | a :: L, acc, hd, hn => by
    simp only [names, List.map_cons, List.nodup_cons] at hn
    have hany : acc.any (fun q => q.1 == (toLeafM m a).name) = false := by
      rw [Bool.eq_false_iff]
      intro h
      obtain ⟨q, hq, he⟩ := List.any_eq_true.mp h
      exact hd a (List.mem_cons_self ..) q hq (by simpa [toLeafM] using he)
    simp only [List.map_cons, List.foldl_cons, axesStep, hany, Bool.false_eq_true, if_false]
    rw [axesFoldM_nodup m L _ ?_ hn.2]
    · simp [toLeafM]
    · intro b hb q hq
      rcases List.mem_append.mp hq with h | h
      · exact hd b (List.mem_cons_of_mem _ hb) q h
      · simp only [List.mem_singleton] at h
        subst h
        intro e
        have e' : a.name = b.name := e
        exact hn.1 (e' ▸ List.mem_map.mpr ⟨b, hb, rfl⟩)

theorem axesOfM_nodup (m : List String) (L : List Ax) (h : (names L).Nodup) :
    axesOf (L.map (toLeafM m)) = L.map (fun a => (a.name, a.len)) := by
  rw [axesOf_eq, axesFoldM_nodup m L [] (fun _ _ _ hq => by simp at hq) h]; simp

theorem filter_marked_toLeafM (m : List String) (L : List Ax) :
    (L.map (toLeafM m)).filter (·.marked) = (markedAxes m L).map (toLeafM m) := by
  rw [List.filter_map]; rfl

theorem names_markedAxes_nodup (m : List String) {L : List Ax} (h : (names L).Nodup) : (names (markedAxes m L)).Nodup := by
  have : names (markedAxes m L) = (names L).filter (fun n => m.contains n) := names_filter L (fun n => m.contains n)
  rw [this]
  exact nodup_filter h _

/-- The iteration space of the bracketed axes of a repetition-free input: the `t`-th assignment gives the bracketed
axes the multi-index `unravel t`. -/
theorem markedAssignments (m : List String) {L : List Ax} (h : (names L).Nodup) :
    assignments (axesOf ((L.map (toLeafM m)).filter (·.marked)))
      = (List.range (prod (lens (markedAxes m L)))).map
          (fun t => (names (markedAxes m L)).zip (unravel (lens (markedAxes m L)) t)) := by
  rw [filter_marked_toLeafM, axesOfM_nodup m _ (names_markedAxes_nodup m h), assignments_eq, uassignments_eq]
  simp [List.map_map, Function.comp_def, names, lens]

/-! ### the assignment of the input axes -/

theorem get_zip_names : ∀ (ns : List String) (u : List Nat) (n : String), ns.length ≤ u.length →
    Assign.get (ns.zip u) n = (ns.idxOf? n).map (fun j => u.getD j 0)
  | [], _, _, _ => by simp [get_nil]
  | a :: ns, [], _, h => by simp at h
  | a :: ns, x :: u, n, h => by
    have ih := get_zip_names ns u n (by simpa using h)
    rw [List.zip_cons_cons, get_cons, List.idxOf?_cons]
    by_cases e : a = n
    · simp [e]
    · have e' : (a == n) = false := by simpa using e
      simp only [e, if_false, e', Bool.false_eq_true, ih, Option.map_map]
      cases ns.idxOf? n with
      | none => rfl
      | some j => simp

/-- `ovr` is the lookup in the zipped assignment of the bracketed axes, with `val` for the other names. -/
theorem ovr_eq (Mk : List Ax) (u : List Nat) (val : String → Nat) (n : String) (h : u.length = Mk.length) :
    ovr Mk u val n = (Assign.get ((names Mk).zip u) n).getD (val n) := by
  rw [get_zip_names _ _ _ (by simp [names, h])]
  unfold ovr
  cases (names Mk).idxOf? n with
  | none => rfl
  | some j => rfl

/-- One step of `inputAssign` when the leaf's value under the target valuation `w` is available (from `τ` for a
bracketed leaf; from `σ`, or 0 for a unit axis that `σ` lacks, for an un-bracketed one). -/
theorem inputStep_ok (σ τ : Assign) (w : String → Nat) (acc : Assign) (l : Leaf)
    (hm : l.marked = true → Assign.get τ l.name = some (w l.name))
    (hu : l.marked = false → Assign.get σ l.name = some (w l.name) ∨
      (Assign.get σ l.name = none ∧ l.size = 1 ∧ w l.name = 0))
    (hacc : ∀ x, Assign.get acc l.name = some x → x = w l.name) :
    ∃ acc', inputStep σ τ acc l = some acc' ∧ (∀ n x, Assign.get acc n = some x → Assign.get acc' n = some x) ∧
      Assign.get acc' l.name = some (w l.name) ∧
      (∀ n x, Assign.get acc' n = some x → Assign.get acc n = some x ∨ (n = l.name ∧ x = w l.name)) := by
  have happ : ∃ acc', (acc' = acc ∨ (Assign.get acc l.name = none ∧ acc' = acc ++ [(l.name, w l.name)])) ∧
      inputStep σ τ acc l = some acc' ∧ (Assign.get acc l.name = none → acc' = acc ++ [(l.name, w l.name)]) := by
    unfold inputStep
    by_cases hmk : l.marked = true
    · simp only [hmk, if_true, hm hmk]
      cases hg : Assign.get acc l.name with
      | none => exact ⟨_, Or.inr ⟨rfl, rfl⟩, by simp, fun _ => rfl⟩
      | some x => exact ⟨acc, Or.inl rfl, by simp, fun h => by cases h⟩
    · have hmk' : l.marked = false := (Bool.not_eq_true _).mp hmk
      simp only [hmk', Bool.false_eq_true, if_false]
      cases hg : Assign.get acc l.name with
      | some x => exact ⟨acc, Or.inl rfl, rfl, fun h => by cases h⟩
      | none =>
        rcases hu hmk' with h | ⟨h1, h2, h3⟩
        · simp only [h]
          exact ⟨_, Or.inr ⟨trivial, rfl⟩, rfl, fun _ => rfl⟩
        · simp only [h1, h2, h3, beq_self_eq_true, if_true]
          exact ⟨_, Or.inr ⟨trivial, rfl⟩, rfl, fun _ => rfl⟩
  obtain ⟨acc', hor, hstep, _⟩ := happ
  refine ⟨acc', hstep, ?_, ?_, ?_⟩
  · intro n x hx
    rcases hor with rfl | ⟨_, rfl⟩
    · exact hx
    · rw [get_append_single, hx]
  · rcases hor with rfl | ⟨hn, rfl⟩
    · cases hg : Assign.get acc' l.name with
      | none =>
        exfalso
        -- the step left `acc` unchanged although the leaf was unassigned: impossible
        rename_i h3
        have := h3 hg
        have hl := congrArg List.length this
        simp at hl
      | some x => rw [hacc x hg]
    · rw [get_append_single, hn]; simp
  · intro n x hx
    rcases hor with rfl | ⟨hn, rfl⟩
    · exact Or.inl hx
    · rw [get_append_single] at hx
      cases hg : Assign.get acc n with
      | some y => rw [hg] at hx; exact Or.inl hx
      | none =>
        rw [hg] at hx
        by_cases e : l.name = n
        · simp only [e, if_true, Option.some.injEq] at hx
          exact Or.inr ⟨e.symm, by rw [← hx, e]⟩
        · simp [e] at hx

/-- `inputAssign` (from any accumulator that agrees with the target valuation `w`) succeeds and gives every leaf its
value under `w`. -/
theorem inputFold_ok (σ τ : Assign) (w : String → Nat) : ∀ (ls : List Leaf) (acc : Assign),
    (∀ l ∈ ls, l.marked = true → Assign.get τ l.name = some (w l.name)) →
    (∀ l ∈ ls, l.marked = false → Assign.get σ l.name = some (w l.name) ∨
      (Assign.get σ l.name = none ∧ l.size = 1 ∧ w l.name = 0)) →
    (∀ n x, Assign.get acc n = some x → x = w n) →
    ∃ a, ls.foldlM (inputStep σ τ) acc = some a ∧ (∀ n x, Assign.get acc n = some x → Assign.get a n = some x) ∧
      (∀ l ∈ ls, Assign.get a l.name = some (w l.name))
  | [], acc, _, _, _ => ⟨acc, rfl, fun _ _ h => h, fun _ h => by simp at h⟩
  | l :: ls, acc, hm, hu, hinv => by
    obtain ⟨acc', hstep, hpres, hget, hnew⟩ := inputStep_ok σ τ w acc l (hm l (List.mem_cons_self ..))
      (hu l (List.mem_cons_self ..)) (fun x hx => hinv _ x hx)
    have hinv' : ∀ n x, Assign.get acc' n = some x → x = w n := by
      intro n x hx
      rcases hnew n x hx with h | ⟨h1, h2⟩
      · exact hinv n x h
      · rw [h1, h2]
    obtain ⟨a, hf, hp, hall⟩ := inputFold_ok σ τ w ls acc' (fun l' hl' => hm l' (List.mem_cons_of_mem _ hl'))
      (fun l' hl' => hu l' (List.mem_cons_of_mem _ hl')) hinv'
    refine ⟨a, ?_, fun n x hx => hp n x (hpres n x hx), ?_⟩
    · rw [List.foldlM_cons, hstep]; exact hf
    · intro l' hl'
      rcases List.mem_cons.mp hl' with rfl | h
      · exact hp _ _ hget
      · exact hall l' h

/-- The input element a reduction reads for the `k`-th output assignment and the `t`-th assignment of the bracketed
axes. -/
theorem rdCell_lower (m : List String) {ein eout : List G}
    (hin : (names (G.leavesL ein)).Nodup) (hout : (names (G.leavesL eout)).Nodup)
    (hsub : ∀ a ∈ G.leavesL ein, a.len ≠ 1 → m.contains a.name = false → a.name ∈ names (G.leavesL eout))
    {k : Nat} (hk : k < prod (lens (G.leavesL eout))) {u : List Nat}
    (hul : u.length = (markedAxes m (G.leavesL ein)).length) :
    rdCell (toDimML m ein) (gShape ein) ((G.leavesL ein).map (toLeafM m)) (sigmaOf (G.leavesL eout) k)
        ((names (markedAxes m (G.leavesL ein))).zip u)
      = some (.src 0 (ravel (lens (G.leavesL ein))
          (idx (G.leavesL ein) (ovr (markedAxes m (G.leavesL ein)) u (valOf (G.leavesL eout) k))))) := by
  have _ := hin
  obtain ⟨hLoval, _, _⟩ := sigmaOf_get hout hk
  generalize hMk : markedAxes m (G.leavesL ein) = Mk at *
  generalize hw : ovr Mk u (valOf (G.leavesL eout) k) = w
  have hweq : ∀ n, w n = (Assign.get ((names Mk).zip u) n).getD (valOf (G.leavesL eout) k n) := by
    intro n; rw [← hw]; exact ovr_eq Mk u _ n hul
  have hlen : (names Mk).length ≤ u.length := by simp [names, hul]
  -- bracketed leaves
  have hm : ∀ l ∈ (G.leavesL ein).map (toLeafM m), l.marked = true →
      Assign.get ((names Mk).zip u) l.name = some (w l.name) := by
    intro l hl hmk
    obtain ⟨a, ha, rfl⟩ := List.mem_map.mp hl
    have hmem : a.name ∈ names Mk := by
      rw [← hMk]
      exact List.mem_map.mpr ⟨a, List.mem_filter.mpr ⟨ha, hmk⟩, rfl⟩
    have hw' := hweq (toLeafM m a).name
    have hne : (names Mk).idxOf? a.name ≠ none := by
      intro h; exact (List.idxOf?_eq_none_iff.mp h) hmem
    have hg := get_zip_names (names Mk) u a.name hlen
    cases hj : (names Mk).idxOf? a.name with
    | none => exact absurd hj hne
    | some j =>
      rw [hj] at hg
      have hg' : Assign.get ((names Mk).zip u) (toLeafM m a).name = some (u.getD j 0) := hg
      rw [hw', hg']; rfl
  -- un-bracketed leaves
  have hu : ∀ l ∈ (G.leavesL ein).map (toLeafM m), l.marked = false →
      Assign.get (sigmaOf (G.leavesL eout) k) l.name = some (w l.name) ∨
      (Assign.get (sigmaOf (G.leavesL eout) k) l.name = none ∧ l.size = 1 ∧ w l.name = 0) := by
    intro l hl hmk
    obtain ⟨a, ha, rfl⟩ := List.mem_map.mp hl
    have hmk' : m.contains a.name = false := hmk
    have hnmem : a.name ∉ names Mk := by
      rw [← hMk]
      intro h
      obtain ⟨b, hb, hbn⟩ := List.mem_map.mp h
      have := (List.mem_filter.mp hb).2
      rw [hbn, hmk'] at this
      cases this
    have hg := get_zip_names (names Mk) u a.name hlen
    rw [List.idxOf?_eq_none_iff.mpr hnmem] at hg
    have hw' : w a.name = valOf (G.leavesL eout) k a.name := by
      rw [hweq, hg]; rfl
    show Assign.get (sigmaOf (G.leavesL eout) k) a.name = some (w a.name) ∨
      (Assign.get (sigmaOf (G.leavesL eout) k) a.name = none ∧ a.len = 1 ∧ w a.name = 0)
    rw [hw']
    cases hσ : Assign.get (sigmaOf (G.leavesL eout) k) a.name with
    | some y => left; simp only [valOf, hσ, Option.getD_some]
    | none =>
      right
      refine ⟨rfl, ?_, by simp only [valOf, hσ, Option.getD_none]⟩
      apply Classical.byContradiction
      intro hne
      obtain ⟨b, hb, hbn⟩ := List.mem_map.mp (hsub a ha hne hmk')
      have := hLoval b hb
      rw [hbn, hσ] at this
      cases this
  obtain ⟨a, hfold, _, hall⟩ := inputFold_ok (sigmaOf (G.leavesL eout) k) ((names Mk).zip u) w _ [] hm hu
    (fun n x h => by simp [get_nil] at h)
  have hval : ∀ x ∈ G.leavesL ein, Assign.get a x.name = some (w x.name) :=
    fun x hx => hall (toLeafM m x) (List.mem_map.mpr ⟨x, hx, rfl⟩)
  obtain ⟨ps, hps, _, hr⟩ := posL_toDimML m a w ein hval
  simp only [rdCell, inputAssign_eq, hfold, position_eq, hps, Option.map_some, hr]

/-- All input elements a reduction reads for the `k`-th output assignment. -/
theorem rdCellsOf_lower (m : List String) {ein eout : List G}
    (hin : (names (G.leavesL ein)).Nodup) (hout : (names (G.leavesL eout)).Nodup)
    (hsub : ∀ a ∈ G.leavesL ein, a.len ≠ 1 → m.contains a.name = false → a.name ∈ names (G.leavesL eout))
    {k : Nat} (hk : k < prod (lens (G.leavesL eout))) :
    mapOpt (rdCell (toDimML m ein) (gShape ein) ((G.leavesL ein).map (toLeafM m)) (sigmaOf (G.leavesL eout) k))
        (assignments (axesOf (((G.leavesL ein).map (toLeafM m)).filter (·.marked))))
      = some ((allIndices (lens (markedAxes m (G.leavesL ein)))).map (fun τ => Cell.src 0 (ravel (lens (G.leavesL ein))
          (idx (G.leavesL ein) (ovr (markedAxes m (G.leavesL ein)) τ (valOf (G.leavesL eout) k)))))) := by
  rw [markedAssignments m hin, mapOpt_eq_some_iff, allIndices, List.map_map, List.map_map, List.map_map]
  apply List.map_congr_left
  intro t ht
  have hv := unravel_valid _ _ (List.mem_range.mp ht)
  have hul : (unravel (lens (markedAxes m (G.leavesL ein))) t).length = (markedAxes m (G.leavesL ein)).length := by
    rw [valid_length hv]; simp [lens]
  simp only [Function.comp]
  exact rdCell_lower m hin hout hsub hk hul

/-- What a reduction writes for the `k`-th assignment of the iteration space: flat output position `k`, and the
reduction cell of the valuation of that assignment. -/
theorem rdEntry_lower (f : String) (m : List String) {ein eout : List G}
    (hin : (names (G.leavesL ein)).Nodup) (hout : (names (G.leavesL eout)).Nodup)
    (hsub : ∀ a ∈ G.leavesL ein, a.len ≠ 1 → m.contains a.name = false → a.name ∈ names (G.leavesL eout))
    {k : Nat} (hk : k < prod (lens (G.leavesL eout))) :
    (rdEntry f (toDimML m ein) (gShape ein) (Dim.leavesL (toDimML m ein))
        (axesOf ((Dim.leavesL (toDimML m ein)).filter (·.marked))) (toDimL eout) (sigmaOf (G.leavesL eout) k)).map
        (fun e => (ravel (gShape eout) e.1, e.2))
      = some (k, redCell f m (G.leavesL ein) (valOf (G.leavesL eout) k)) := by
  have hpos := flatPos_valOf hout hk
  simp only [flatPos] at hpos
  rw [leavesL_toDimML]
  simp only [rdEntry, rdCellsOf_lower m hin hout hsub hk]
  cases hp : position (toDimL eout) (sigmaOf (G.leavesL eout) k) with
  | none => rw [hp] at hpos; cases hpos
  | some po =>
    rw [hp] at hpos
    simp only [Option.map_some, Option.some.injEq] at hpos
    simp only [Option.map_some, hpos, redCell]

/-- **The denotation side of reductions**, functional form. -/
theorem rdCells_lower (f : String) (m : List String) {ein eout : List G}
    (hin : (names (G.leavesL ein)).Nodup) (hout : (names (G.leavesL eout)).Nodup)
    (hsub : ∀ a ∈ G.leavesL ein, a.len ≠ 1 → m.contains a.name = false → a.name ∈ names (G.leavesL eout)) :
    rdCells f (toDimML m ein) (gShape ein) (toDimL eout) (gShape eout)
      = some ((List.range (prod (gShape eout))).map
          (fun k => redCell f m (G.leavesL ein) (valOf (G.leavesL eout) k))) := by
  unfold rdCells
  exact gather_pointwise hout _ _ (fun k hk => rdEntry_lower f m hin hout hsub hk)

/-- **The denotation side of `lower_reduce_correct`.**  For a repetition-free input whose axes named in `m` are in
brackets and a repetition-free output, the reduction denotation is defined, and its `k`-th cell is the canonical
reduction cell of the input elements addressed by a valuation that addresses `k` through the output's leaf axes on
the un-bracketed axes, and by every multi-index of the bracketed axes. -/
theorem reduce_den_lower (f : String) (m : List String) {ein eout : List G}
    (hin : (names (G.leavesL ein)).Nodup) (hout : (names (G.leavesL eout)).Nodup)
    (hcons : ∀ a ∈ G.leavesL ein, ∀ b ∈ G.leavesL eout, a.name = b.name → a.len = b.len)
    (hsub : ∀ a ∈ G.leavesL ein, a.len ≠ 1 → m.contains a.name = false → a.name ∈ names (G.leavesL eout))
    (hmo : ∀ b ∈ G.leavesL eout, m.contains b.name = false) :
    ∃ cs, denoteReduce f (rootExprM m ein) (rootExpr eout) = .ok ⟨gShape eout, cs⟩ ∧
      cs.length = prod (gShape eout) ∧
      ∀ k, k < prod (gShape eout) → ∃ val : String → Nat, Bnd val (G.leavesL eout) ∧
        (∀ a ∈ G.leavesL ein, m.contains a.name = false → val a.name < a.len) ∧
        ravel (lens (G.leavesL eout)) (idx (G.leavesL eout) val) = k ∧
        cs[k]? = some (redCell f m (G.leavesL ein) val) := by
  have _ := hmo
  have hn : prod (gShape eout) = prod (lens (G.leavesL eout)) := prod_gShape_leaves eout
  refine ⟨(List.range (prod (gShape eout))).map
    (fun k => redCell f m (G.leavesL ein) (valOf (G.leavesL eout) k)), ?_, by simp, ?_⟩
  · apply ok_of_okOpt
    rw [denoteReduce_eq_fun f _ _ (concatFree_rootExprM m ein) (concatFree_rootExpr eout), rootDims_rootExprM,
      shapeOf_rootExprM, rootDims_rootExpr, shapeOf_rootExpr, rdCells_lower f m hin hout hsub]
    rfl
  · intro k hk
    have hk' : k < prod (lens (G.leavesL eout)) := hn ▸ hk
    obtain ⟨_, hidx, hbo⟩ := sigmaOf_get hout hk'
    refine ⟨valOf (G.leavesL eout) k, hbo, ?_, by rw [hidx]; exact ravel_unravel _ _ hk', ?_⟩
    · -- the un-bracketed input axes: `extend_valOf` on the input without its bracketed axes
      obtain ⟨_, _, _, hb⟩ := extend_valOf (Li := (G.leavesL ein).filter (fun a => !m.contains a.name)) hout
        (fun a ha b hb hab => hcons a (List.mem_filter.mp ha).1 b hb hab)
        (fun a ha hne => hsub a (List.mem_filter.mp ha).1 hne (by simpa using (List.mem_filter.mp ha).2)) hk'
      intro a ha hma
      exact hb a (List.mem_filter.mpr ⟨ha, by simp only [hma, Bool.not_false]⟩)
    · rw [List.getElem?_map, List.getElem?_range hk]
      rfl

end Einx.Lower
