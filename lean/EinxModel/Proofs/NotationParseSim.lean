import EinxModel.Proofs.NotationSimCore
import EinxModel.Proofs.NotationParseCases
/-!
# M1 Notation — `parse` ignores positions and redundant space atoms

`parse_rel`: on token trees that are equal up to positions (`TSimL`) or differ by one redundant space atom (`Ins`),
`parse` returns trees equal up to positions and fresh ids, or errors of the same kind.
-/
namespace Einx.Notation

variable {φ : Nat → Nat}

/-! ### `TSim` basics -/

theorem TSim.isText_eq {t t' : Tok} (h : TSim φ t t') (s : Str) : t'.isText s = t.isText s := by
  cases h with
  | atom h1 _ => simp [Tok.isText, h1]
  | group _ _ => rfl

theorem TSim.isSpace_eq {t t' : Tok} (h : TSim φ t t') : t'.isSpace = t.isSpace := h.isText_eq _

theorem TSim.isOp3_eq {t t' : Tok} (h : TSim φ t t') : t'.isOp3 = t.isOp3 := by
  simp only [Tok.isOp3, h.isText_eq]

theorem TSimL.any_isText : ∀ {ts ts' : List Tok}, TSimL φ ts ts' → ∀ s, ts'.any (Tok.isText s) = ts.any (Tok.isText s)
  | [], _, h, _ => by cases h; rfl
  | _ :: _, _, h, s => by
    cases h with
    | cons h1 h2 => simp only [List.any_cons, h1.isText_eq, TSimL.any_isText h2]

theorem TSimL.findOp_eq {ts ts' : List Tok} (h : TSimL φ ts ts') : ∀ ops, findOp ops ts' = findOp ops ts
  | [] => rfl
  | op :: ops => by simp only [findOp, h.any_isText, TSimL.findOp_eq h ops]

theorem TSimL.append : ∀ {as as' bs bs' : List Tok}, TSimL φ as as' → TSimL φ bs bs' → TSimL φ (as ++ bs) (as' ++ bs')
  | [], _, _, _, h, hb => by cases h; exact hb
  | _ :: _, _, _, _, h, hb => by cases h with | cons h1 h2 => exact TSimL.cons h1 (TSimL.append h2 hb)

theorem TSimL.dropWhile_space : ∀ {ts ts' : List Tok}, TSimL φ ts ts' →
    TSimL φ (ts.dropWhile Tok.isSpace) (ts'.dropWhile Tok.isSpace)
  | [], _, h => by cases h; exact TSimL.nil
  | t :: ts, _, h => by
    cases h with
    | cons h1 h2 =>
      simp only [List.dropWhile, h1.isSpace_eq]
      split
      · exact TSimL.dropWhile_space h2
      · exact TSimL.cons h1 h2

theorem TSimL.eq_nil_iff {ts ts' : List Tok} (h : TSimL φ ts ts') : ts' = [] ↔ ts = [] := by
  cases h <;> simp

/-- One step of `dropTrailSpaces`. -/
def dtCons (t : Tok) (r : List Tok) : List Tok :=
  match r with
  | [] => if t.isSpace then [] else [t]
  | r => t :: r

theorem dropTrail_cons_eq (t : Tok) (ts : List Tok) : dropTrailSpaces (t :: ts) = dtCons t (dropTrailSpaces ts) := by
  simp only [dropTrailSpaces, dtCons]
  cases dropTrailSpaces ts <;> rfl

theorem TSimL.dtCons {t t' : Tok} {r r' : List Tok} (h1 : TSim φ t t') (ih : TSimL φ r r') :
    TSimL φ (dtCons t r) (dtCons t' r') := by
  cases ih with
  | nil =>
    simp only [Einx.Notation.dtCons, h1.isSpace_eq]
    split
    · exact TSimL.nil
    · exact TSimL.cons h1 TSimL.nil
  | cons h3 h4 => exact TSimL.cons h1 (TSimL.cons h3 h4)

theorem TSimL.dropTrail : ∀ {ts ts' : List Tok}, TSimL φ ts ts' → TSimL φ (dropTrailSpaces ts) (dropTrailSpaces ts')
  | [], _, h => by cases h; exact TSimL.nil
  | t :: ts, _, h => by
    cases h with
    | cons h1 h2 =>
      rw [dropTrail_cons_eq, dropTrail_cons_eq]
      exact TSimL.dtCons h1 (TSimL.dropTrail h2)

theorem TSimL.strip {ts ts' : List Tok} (h : TSimL φ ts ts') : TSimL φ (strip ts) (strip ts') :=
  TSimL.dropTrail (TSimL.dropWhile_space h)

/-! ### Operands without positions -/

/-- Tokens of the first operand when splitting at `op`. -/
def segH (op : Str) (ts : List Tok) : List Tok := (splitOn op 0 ts).1.1
/-- Tokens of the remaining operands. -/
def segT (op : Str) (ts : List Tok) : List (List Tok) := (splitOn op 0 ts).2.map (·.1)

theorem splitOn_pos_irrel (op : Str) (d d' : Nat) : ∀ ts : List Tok,
    (splitOn op d ts).1.1 = (splitOn op d' ts).1.1 ∧ (splitOn op d ts).2.map (·.1) = (splitOn op d' ts).2.map (·.1)
  | [] => by simp [splitOn]
  | t :: ts => by
    have ih := splitOn_pos_irrel op d d' ts
    simp only [splitOn]
    split
    · simp [ih.1, ih.2]
    · simp [ih.1, ih.2]

theorem segH_cons (op : Str) (t : Tok) (ts : List Tok) :
    segH op (t :: ts) = if t.isText op then [] else t :: segH op ts := by
  simp only [segH, splitOn]
  split <;> rfl

theorem segT_cons (op : Str) (t : Tok) (ts : List Tok) :
    segT op (t :: ts) = if t.isText op then segH op ts :: segT op ts else segT op ts := by
  simp only [segT, segH, splitOn]
  split <;> simp

theorem operands_ts (op : Str) (ts : List Tok) : (operands op ts).map (·.ts) = segH op ts :: segT op ts := by
  have h := splitOn_pos_irrel op (lastEnd ts 0) 0 ts
  simp only [operands, List.map_cons, List.map_map, mkTL_ts, segH, segT, h.1]
  congr 1
  rw [← h.2]
  simp [Function.comp_def, mkTL_ts]

/-! ### Space atoms and operator atoms -/

theorem isSpace_isText_ne {sp : Tok} (h : sp.isSpace = true) {s : Str} (hs : s ≠ spaceLit) : sp.isText s = false := by
  cases sp with
  | atom t =>
    simp only [Tok.isSpace, Tok.isText, beq_iff_eq] at h
    simp only [Tok.isText, h, beq_eq_false_iff_ne, ne_eq]
    exact fun h' => hs h'.symm
  | group _ _ _ => rfl

theorem isSpace_not_isOp3 {sp : Tok} (h : sp.isSpace = true) : sp.isOp3 = false := by
  simp only [Tok.isOp3, isSpace_isText_ne h (s := lit "->") (by decide), isSpace_isText_ne h (s := lit ",") (by decide),
    isSpace_isText_ne h (s := lit "+") (by decide), Bool.or_self]

theorem isOp3_not_isSpace {a : Tok} (h : a.isOp3 = true) : a.isSpace = false := by
  cases hs : a.isSpace with
  | false => rfl
  | true => rw [isSpace_not_isOp3 hs] at h; cases h

theorem group_isSpace (o c : Token) (inner : List Tok) : (Tok.group o c inner).isSpace = false := rfl

/-! ### `strip` on `Ins`-related lists -/

theorem InsT.ne_nil {X X' : List Tok} (h : InsT φ X X') : X ≠ [] ∧ X' ≠ [] := by
  cases h <;> simp

theorem dropTrail_cons_ne {t : Tok} {ts : List Tok} (h : dropTrailSpaces ts ≠ []) :
    dropTrailSpaces (t :: ts) = t :: dropTrailSpaces ts := by
  rw [dropTrail_cons_eq]
  cases hr : dropTrailSpaces ts with
  | nil => exact (h hr).elim
  | cons r rs => rfl

theorem dropTrail_cons_nil {t : Tok} {ts : List Tok} (h : dropTrailSpaces ts = []) :
    dropTrailSpaces (t :: ts) = if t.isSpace then [] else [t] := by
  rw [dropTrail_cons_eq, h]
  rfl

theorem dropTrail_cons_nonspace {t : Tok} {ts : List Tok} (h : t.isSpace = false) :
    dropTrailSpaces (t :: ts) = t :: dropTrailSpaces ts := by
  cases hr : dropTrailSpaces ts with
  | nil => rw [dropTrail_cons_nil hr, h]; rfl
  | cons r rs => rw [dropTrail_cons_ne (by rw [hr]; simp), hr]

theorem InsT.dropWhile_space : ∀ {ts ts' : List Tok}, InsT φ ts ts' →
    TSimL φ (ts.dropWhile Tok.isSpace) (ts'.dropWhile Tok.isSpace) ∨
      InsT φ (ts.dropWhile Tok.isSpace) (ts'.dropWhile Tok.isSpace)
  | [], _, h => by cases h
  | t :: ts, _, h => by
    cases h with
    | afterOp ha hop hsp hR =>
      have h1 := isOp3_not_isSpace hop
      have h2 := ha.isSpace_eq
      rw [h1] at h2
      simp only [List.dropWhile, h1, h2]
      exact Or.inr (InsT.afterOp ha hop hsp hR)
    | beforeOp hsp ha hop hR =>
      have h1 := isOp3_not_isSpace hop
      have h2 := ha.isSpace_eq
      rw [h1] at h2
      simp only [List.dropWhile, h1, h2, hsp]
      exact Or.inl (TSimL.cons ha hR)
    | inside ho hin hR =>
      simp only [List.dropWhile, group_isSpace]
      exact Or.inr (InsT.inside ho hin hR)
    | cons ht hR =>
      simp only [List.dropWhile, ht.isSpace_eq]
      split
      · exact InsT.dropWhile_space hR
      · exact Or.inr (InsT.cons ht hR)

theorem InsT.dropTrail : ∀ {ts ts' : List Tok}, InsT φ ts ts' →
    TSimL φ (dropTrailSpaces ts) (dropTrailSpaces ts') ∨ InsT φ (dropTrailSpaces ts) (dropTrailSpaces ts')
  | [], _, h => by cases h
  | t :: ts, _, h => by
    cases h with
    | afterOp ha hop hsp hR =>
      rename_i a' sp R'
      have h1 := isOp3_not_isSpace hop
      have h2 := ha.isSpace_eq
      rw [h1] at h2
      have hd := TSimL.dropTrail hR
      rw [dropTrail_cons_nonspace h1, dropTrail_cons_nonspace h2]
      cases hr : dropTrailSpaces R' with
      | nil =>
        rw [hr] at hd
        rw [dropTrail_cons_nil hr, hsp, (hd.eq_nil_iff).mp rfl]
        exact Or.inl (TSimL.cons ha TSimL.nil)
      | cons r rs =>
        rw [dropTrail_cons_ne (by rw [hr]; simp)]
        exact Or.inr (InsT.afterOp ha hop hsp hd)
    | beforeOp hsp ha hop hR =>
      rename_i a' sp R'
      have h1 := isOp3_not_isSpace hop
      have h2 := ha.isSpace_eq
      rw [h1] at h2
      have hd := TSimL.dropTrail hR
      rw [dropTrail_cons_nonspace h1, dropTrail_cons_ne (by rw [dropTrail_cons_nonspace h2]; simp),
        dropTrail_cons_nonspace h2]
      exact Or.inr (InsT.beforeOp hsp ha hop hd)
    | inside ho hin hR =>
      rw [dropTrail_cons_nonspace (group_isSpace _ _ _), dropTrail_cons_nonspace (group_isSpace _ _ _)]
      exact Or.inr (InsT.inside ho hin (TSimL.dropTrail hR))
    | cons ht hR =>
      rcases InsT.dropTrail hR with ih | ih
      · rw [dropTrail_cons_eq, dropTrail_cons_eq]
        exact Or.inl (TSimL.dtCons ht ih)
      · rw [dropTrail_cons_ne ih.ne_nil.1, dropTrail_cons_ne ih.ne_nil.2]
        exact Or.inr (InsT.cons ht ih)

theorem strip_cons_space {sp : Tok} (h : sp.isSpace = true) (ts : List Tok) : strip (sp :: ts) = strip ts := by
  simp [strip, List.dropWhile, h]

theorem dropTrail_append_space {sp : Tok} (h : sp.isSpace = true) : ∀ ts : List Tok,
    dropTrailSpaces (ts ++ [sp]) = dropTrailSpaces ts
  | [] => by simp [dropTrailSpaces, h]
  | t :: ts => by
    rw [List.cons_append, dropTrail_cons_eq, dropTrail_cons_eq, dropTrail_append_space h ts]

theorem strip_append_space {sp : Tok} (h : sp.isSpace = true) : ∀ ts : List Tok, strip (ts ++ [sp]) = strip ts
  | [] => by simp [strip, List.dropWhile, h, dropTrailSpaces]
  | t :: ts => by
    cases ht : t.isSpace with
    | true => rw [List.cons_append, strip_cons_space ht, strip_cons_space ht, strip_append_space h ts]
    | false =>
      simp only [strip, List.cons_append, List.dropWhile, ht]
      exact dropTrail_append_space h (t :: ts)

/-- `strip` removes a leading/trailing additional space; what remains is similar or a tight insertion. -/
theorem Ins.strip {ts ts' : List Tok} (h : Ins φ ts ts') :
    TSimL φ (strip ts) (strip ts') ∨ InsT φ (strip ts) (strip ts') := by
  cases h with
  | lead hsp hR => rw [strip_cons_space hsp]; exact Or.inl hR.strip
  | trail hsp hL he => subst he; rw [strip_append_space hsp]; exact Or.inl hL.strip
  | tight ht =>
    rcases ht.dropWhile_space with h1 | h1
    · exact Or.inl h1.dropTrail
    · exact h1.dropTrail

/-! ### Shapes of related stripped lists -/

theorem TSimL.single_group {o c : Token} {inner X' : List Tok} (h : TSimL φ [.group o c inner] X') :
    ∃ o' c' inner', X' = [.group o' c' inner'] ∧ o'.text = o.text ∧ TSimL φ inner inner' := by
  cases h with
  | cons h1 h2 =>
    cases h2
    cases h1 with
    | group ho hi => exact ⟨_, _, _, rfl, ho, hi⟩

theorem InsT.single_group {o c : Token} {inner X' : List Tok} (h : InsT φ [.group o c inner] X') :
    ∃ o' c' inner', X' = [.group o' c' inner'] ∧ o'.text = o.text ∧ Ins φ inner inner' := by
  cases h with
  | afterOp ha hop _ _ => cases ha; simp [Tok.isOp3, Tok.isText] at hop
  | beforeOp _ ha hop _ => cases ha; simp [Tok.isOp3, Tok.isText] at hop
  | inside ho hin hR => cases hR; exact ⟨_, _, _, rfl, ho, hin⟩
  | cons _ hR => cases hR

theorem TSimL.notGroup {t0 t0' : Tok} {rest rest' : List Tok} (h : TSimL φ (t0 :: rest) (t0' :: rest'))
    (hng : NotGroup t0 rest) : NotGroup t0' rest' := by
  intro o' c' inner' h1 h2
  subst h1 h2
  cases h with
  | cons h1 h2 =>
    cases h2
    cases h1
    exact hng _ _ _ rfl rfl

theorem InsT.notGroup {t0 t0' : Tok} {rest rest' : List Tok} (h : InsT φ (t0 :: rest) (t0' :: rest'))
    (hng : NotGroup t0 rest) : NotGroup t0' rest' := by
  intro o' c' inner' h1 h2
  subst h1 h2
  cases h with
  | inside _ _ hR => cases hR; exact hng _ _ _ rfl rfl
  | cons _ hR => cases hR

/-! ### The operator found at a level -/

theorem naryOps_eq : naryOps = [lit "->", lit ",", lit "+", spaceLit] := by decide

theorem any_isOp3 (ts : List Tok) :
    ts.any Tok.isOp3 = (ts.any (Tok.isText (lit "->")) || ts.any (Tok.isText (lit ",")) || ts.any (Tok.isText (lit "+"))) := by
  induction ts with
  | nil => rfl
  | cons t ts ih =>
    simp only [List.any_cons, ih, Tok.isOp3]
    cases t.isText (lit "->") <;> cases t.isText (lit ",") <;> cases t.isText (lit "+") <;> simp

theorem InsT.any_isText {s : Str} (hs : s ≠ spaceLit) : ∀ {ts ts' : List Tok}, InsT φ ts ts' →
    ts'.any (Tok.isText s) = ts.any (Tok.isText s)
  | [], _, h => by cases h
  | t :: ts, _, h => by
    cases h with
    | afterOp ha _ hsp hR =>
      simp only [List.any_cons, ha.isText_eq, isSpace_isText_ne hsp hs, hR.any_isText, Bool.false_or]
    | beforeOp hsp ha _ hR =>
      simp only [List.any_cons, ha.isText_eq, isSpace_isText_ne hsp hs, hR.any_isText, Bool.false_or]
    | inside _ _ hR => simp only [List.any_cons, Tok.isText, hR.any_isText]
    | cons ht hR => simp only [List.any_cons, ht.isText_eq, InsT.any_isText hs hR]

theorem InsT.any_space : ∀ {ts ts' : List Tok}, InsT φ ts ts' →
    ts'.any (Tok.isText spaceLit) = ts.any (Tok.isText spaceLit) ∨ ts.any Tok.isOp3 = true
  | [], _, h => by cases h
  | t :: ts, _, h => by
    cases h with
    | afterOp _ hop _ _ => exact Or.inr (by simp [hop])
    | beforeOp _ _ hop _ => exact Or.inr (by simp [hop])
    | inside _ _ hR => exact Or.inl (by simp only [List.any_cons, Tok.isText, hR.any_isText])
    | cons ht hR =>
      rcases InsT.any_space hR with ih | ih
      · exact Or.inl (by simp only [List.any_cons, ht.isText_eq, ih])
      · exact Or.inr (by simp [ih])

theorem InsT.findOp_eq {ts ts' : List Tok} (h : InsT φ ts ts') : findOp naryOps ts' = findOp naryOps ts := by
  have h1 := h.any_isText (s := lit "->") (by decide)
  have h2 := h.any_isText (s := lit ",") (by decide)
  have h3 := h.any_isText (s := lit "+") (by decide)
  rw [naryOps_eq]
  simp only [findOp, h1, h2, h3]
  rcases h.any_space with h4 | h4
  · rw [h4]
  · rw [any_isOp3] at h4
    cases ha : ts.any (Tok.isText (lit "->")) <;> cases hb : ts.any (Tok.isText (lit ",")) <;>
      cases hc : ts.any (Tok.isText (lit "+")) <;> simp_all

/-- No operator at a level: no `->`, `,`, `+` and no space. -/
theorem findOp_none {ts : List Tok} (h : findOp naryOps ts = none) :
    ts.any Tok.isOp3 = false ∧ ts.any Tok.isSpace = false := by
  rw [naryOps_eq] at h
  simp only [findOp] at h
  rw [any_isOp3]
  cases ha : ts.any (Tok.isText (lit "->")) <;> cases hb : ts.any (Tok.isText (lit ",")) <;>
    cases hc : ts.any (Tok.isText (lit "+")) <;> cases hd : ts.any (Tok.isText spaceLit) <;>
    simp_all [Tok.isSpace]

/-- The operator found is ` ` only if there is no `->`, `,`, `+`. -/
theorem findOp_space {ts : List Tok} (h : findOp naryOps ts = some spaceLit) : ts.any Tok.isOp3 = false := by
  rw [naryOps_eq] at h
  simp only [findOp] at h
  rw [any_isOp3]
  cases ha : ts.any (Tok.isText (lit "->")) <;> cases hb : ts.any (Tok.isText (lit ",")) <;>
    cases hc : ts.any (Tok.isText (lit "+")) <;> simp_all <;> revert h <;> decide

/-! ### Operands of related lists -/

theorem Forall2.imp {α β : Type} {R S : α → β → Prop} (hRS : ∀ a b, R a b → S a b) :
    ∀ {l : List α} {l' : List β}, Forall2 R l l' → Forall2 S l l'
  | [], _, h => by cases h; exact Forall2.nil
  | _ :: _, _, h => by cases h with | cons h1 h2 => exact Forall2.cons (hRS _ _ h1) (Forall2.imp hRS h2)

/-- Operand token lists: similar, or one additional redundant space. -/
def OpRel (φ : Nat → Nat) (o o' : List Tok) : Prop := TSimL φ o o' ∨ Ins φ o o'

/-- The same for the operand under construction (more tokens may still be prepended): no leading additional space. -/
def HeadRel (φ : Nat → Nat) (h h' : List Tok) : Prop :=
  TSimL φ h h' ∨ InsT φ h h' ∨ ∃ sp L', sp.isSpace = true ∧ TSimL φ h L' ∧ h' = L' ++ [sp]

theorem HeadRel.toOpRel {h h' : List Tok} (hr : HeadRel φ h h') : OpRel φ h h' := by
  rcases hr with hr | hr | ⟨sp, L', hsp, hL, he⟩
  · exact Or.inl hr
  · exact Or.inr (Ins.tight hr)
  · exact Or.inr (Ins.trail hsp hL he)

theorem HeadRel.cons {t t' : Tok} {h h' : List Tok} (ht : TSim φ t t') (hr : HeadRel φ h h') :
    HeadRel φ (t :: h) (t' :: h') := by
  rcases hr with hr | hr | ⟨sp, L', hsp, hL, he⟩
  · exact Or.inl (TSimL.cons ht hr)
  · exact Or.inr (Or.inl (InsT.cons ht hr))
  · exact Or.inr (Or.inr ⟨sp, t' :: L', hsp, TSimL.cons ht hL, by rw [he]; rfl⟩)

theorem segH_nil (op : Str) : segH op [] = [] := rfl
theorem segT_nil (op : Str) : segT op [] = [] := rfl

theorem segs_TSimL (op : Str) : ∀ {X X' : List Tok}, TSimL φ X X' →
    TSimL φ (segH op X) (segH op X') ∧ Forall2 (TSimL φ) (segT op X) (segT op X')
  | [], _, h => by cases h; exact ⟨TSimL.nil, Forall2.nil⟩
  | t :: ts, _, h => by
    cases h with
    | cons h1 h2 =>
      have ih := segs_TSimL op h2
      rw [segH_cons, segH_cons, segT_cons, segT_cons, h1.isText_eq]
      split
      · exact ⟨TSimL.nil, Forall2.cons ih.1 ih.2⟩
      · exact ⟨TSimL.cons h1 ih.1, ih.2⟩

theorem segs_InsT {op : Str} (hop : op ≠ spaceLit) : ∀ {X X' : List Tok}, InsT φ X X' →
    HeadRel φ (segH op X) (segH op X') ∧ Forall2 (OpRel φ) (segT op X) (segT op X')
  | [], _, h => by cases h
  | t :: ts, _, h => by
    cases h with
    | afterOp ha hop3 hsp hR =>
      have ih := segs_TSimL (φ := φ) op hR
      have ih2 : Forall2 (OpRel φ) _ _ := Forall2.imp (fun _ _ h => Or.inl h) ih.2
      rw [segH_cons, segH_cons, segT_cons, segT_cons, ha.isText_eq, segH_cons, segT_cons, isSpace_isText_ne hsp hop]
      simp only [Bool.false_eq_true, if_false]
      split
      · exact ⟨Or.inl TSimL.nil, Forall2.cons (Or.inr (Ins.lead hsp ih.1)) ih2⟩
      · exact ⟨Or.inr (Or.inl (InsT.afterOp ha hop3 hsp ih.1)), ih2⟩
    | beforeOp hsp ha hop3 hR =>
      have ih := segs_TSimL (φ := φ) op hR
      have ih2 : Forall2 (OpRel φ) _ _ := Forall2.imp (fun _ _ h => Or.inl h) ih.2
      rw [segH_cons, segH_cons (t := _), segT_cons, segT_cons (t := _), isSpace_isText_ne hsp hop, segH_cons, segT_cons,
        ha.isText_eq]
      simp only [Bool.false_eq_true, if_false]
      split
      · exact ⟨Or.inr (Or.inr ⟨_, [], hsp, TSimL.nil, rfl⟩), Forall2.cons (Or.inl ih.1) ih2⟩
      · exact ⟨Or.inr (Or.inl (InsT.beforeOp hsp ha hop3 ih.1)), ih2⟩
    | inside ho hin hR =>
      have ih := segs_TSimL (φ := φ) op hR
      have ih2 : Forall2 (OpRel φ) _ _ := Forall2.imp (fun _ _ h => Or.inl h) ih.2
      rw [segH_cons, segH_cons, segT_cons, segT_cons]
      simp only [Tok.isText, Bool.false_eq_true, if_false]
      exact ⟨Or.inr (Or.inl (InsT.inside ho hin ih.1)), ih2⟩
    | cons ht hR =>
      have ih := segs_InsT hop hR
      rw [segH_cons, segH_cons, segT_cons, segT_cons, ht.isText_eq]
      split
      · exact ⟨Or.inl TSimL.nil, Forall2.cons ih.1.toOpRel ih.2⟩
      · exact ⟨ih.1.cons ht, ih.2⟩

/-- Operand token lists when no additional space stands next to an operator: similar or a tight insertion. -/
def OpRelT (φ : Nat → Nat) (o o' : List Tok) : Prop := TSimL φ o o' ∨ InsT φ o o'

theorem segs_InsT_noOp (op : Str) : ∀ {X X' : List Tok}, InsT φ X X' → X.any Tok.isOp3 = false →
    OpRelT φ (segH op X) (segH op X') ∧ Forall2 (OpRelT φ) (segT op X) (segT op X')
  | [], _, h, _ => by cases h
  | t :: ts, _, h, hno => by
    simp only [List.any_cons, Bool.or_eq_false_iff] at hno
    cases h with
    | afterOp _ hop3 _ _ => rw [hop3] at hno; cases hno.1
    | beforeOp _ _ hop3 _ => rw [hop3] at hno; cases hno.1
    | inside ho hin hR =>
      have ih := segs_TSimL (φ := φ) op hR
      have ih2 : Forall2 (OpRelT φ) _ _ := Forall2.imp (fun _ _ h => Or.inl h) ih.2
      rw [segH_cons, segH_cons, segT_cons, segT_cons]
      simp only [Tok.isText, Bool.false_eq_true, if_false]
      exact ⟨Or.inr (InsT.inside ho hin ih.1), ih2⟩
    | cons ht hR =>
      have ih := segs_InsT_noOp op hR hno.2
      rw [segH_cons, segH_cons, segT_cons, segT_cons, ht.isText_eq]
      split
      · exact ⟨Or.inl TSimL.nil, Forall2.cons ih.1 ih.2⟩
      · refine ⟨?_, ih.2⟩
        rcases ih.1 with h1 | h1
        · exact Or.inl (TSimL.cons ht h1)
        · exact Or.inr (InsT.cons ht h1)

theorem Forall2.of_map {α β γ δ : Type} {R : γ → δ → Prop} (f : α → γ) (g : β → δ) :
    ∀ {l : List α} {l' : List β}, Forall2 R (l.map f) (l'.map g) → Forall2 (fun a b => R (f a) (g b)) l l'
  | [], [], _ => Forall2.nil
  | [], _ :: _, h => by cases h
  | _ :: _, [], h => by cases h
  | _ :: _, _ :: _, h => by
    simp only [List.map_cons] at h
    cases h with
    | cons h1 h2 => exact Forall2.cons h1 (Forall2.of_map f g h2)

theorem operands_rel {P : List Tok → List Tok → Prop} (op : Str) {X X' : List Tok}
    (h : Forall2 P (segH op X :: segT op X) (segH op X' :: segT op X')) :
    Forall2 (fun o o' => P o.ts o'.ts) (operands op X) (operands op X') := by
  rw [← operands_ts, ← operands_ts] at h
  exact Forall2.of_map _ _ h

theorem lit_space : lit " " = spaceLit := rfl

theorem keepOperands_ne {op : Str} (h : op ≠ spaceLit) (l : List TL) : keepOperands op l = l := by
  unfold keepOperands
  rw [lit_space, if_neg (by simpa using h)]

theorem OpRelT.isEmpty_eq {o o' : List Tok} (h : OpRelT φ o o') : o'.isEmpty = o.isEmpty := by
  rcases h with h | h
  · cases h <;> rfl
  · have := h.ne_nil
    cases o <;> cases o' <;> simp_all

theorem keepOperands_space_rel : ∀ {l l' : List TL}, Forall2 (fun o o' => OpRelT φ o.ts o'.ts) l l' →
    Forall2 (fun o o' => OpRelT φ o.ts o'.ts) (keepOperands spaceLit l) (keepOperands spaceLit l')
  | [], _, h => by cases h; exact Forall2.nil
  | o :: l, _, h => by
    cases h with
    | cons h1 h2 =>
      have ih := keepOperands_space_rel h2
      unfold keepOperands at ih ⊢
      rw [lit_space] at ih ⊢
      simp only [if_true, beq_self_eq_true, List.filter_cons, h1.isEmpty_eq] at ih ⊢
      split
      · exact Forall2.cons h1 ih
      · exact ih

theorem mapM_rel {α : Type} {P : α → α → Prop} {f f' : α → Res Expr} : ∀ {l l' : List α}, Forall2 P l l' →
    (∀ o ∈ l, ∀ o', P o o' → RSim φ (f o) (f' o')) → RSimL φ (l.mapM f) (l'.mapM f')
  | [], _, h, _ => by cases h; exact ESimL.nil
  | o :: l, _, h, hf => by
    cases h with
    | cons h1 h2 =>
      rename_i o' l'
      have ih := mapM_rel h2 (fun a ha => hf a (List.mem_cons_of_mem _ ha))
      have h0 := hf o (by simp) o' h1
      simp only [List.mapM_cons, bind, Except.bind]
      cases hfo : f o with
      | error err =>
        rw [hfo] at h0
        cases hfo' : f' o' with
        | error err' => rw [hfo'] at h0; exact h0
        | ok y => rw [hfo'] at h0; exact h0.elim
      | ok x =>
        rw [hfo] at h0
        cases hfo' : f' o' with
        | error err' => rw [hfo'] at h0; exact h0.elim
        | ok y =>
          rw [hfo'] at h0
          simp only
          cases hl : l.mapM f with
          | error err =>
            rw [hl] at ih
            cases hl' : l'.mapM f' with
            | error err' => rw [hl'] at ih; exact ih
            | ok ys => rw [hl'] at ih; exact ih.elim
          | ok xs =>
            rw [hl] at ih
            cases hl' : l'.mapM f' with
            | error err' => rw [hl'] at ih; exact ih.elim
            | ok ys => rw [hl'] at ih; exact ESimL.cons h0 ih

/-! ### `combine`, `parseAxis` -/

theorem ESimL.filter_invalid_isEmpty : ∀ {xs xs' : List Expr}, ESimL φ xs xs' →
    (xs'.filter (fun o => !isAxisOrFlat o)).isEmpty = (xs.filter (fun o => !isAxisOrFlat o)).isEmpty
  | [], _, h => by cases h; rfl
  | x :: xs, _, h => by
    cases h with
    | cons h1 h2 =>
      simp only [List.filter_cons, h1.isAxisOrFlat_eq]
      split
      · rfl
      · exact ESimL.filter_invalid_isEmpty h2

theorem combine_sim {op : Str} {xs xs' : List Expr} {b e b' e' : Nat} {ipc : Bool} {ts ts' : List Tok}
    (h : ESimL φ xs xs') : RSim φ (combine op xs b e ipc ts) (combine op xs' b' e' ipc ts') := by
  unfold combine
  split
  · exact mkList_sim h
  · split
    · exact ESim.op h
    · split
      · exact ESim.args h
      · split
        · dsimp only
          rw [h.filter_invalid_isEmpty]
          split
          · rfl
          · split
            · rfl
            · exact mkConcat_sim h
        · rfl

theorem parseAxis_sim {t t' : Token} (h1 : t'.text = t.text) (h2 : t'.b = φ t.b) :
    RSim φ (parseAxis t) (parseAxis t') := by
  unfold parseAxis
  rw [h1, h2]
  split
  · split
    · exact ESim.axis (NameRel.unnamed φ _) (fun h => by cases h)
    · rfl
  · split
    · rename_i hn
      exact ESim.axis (NameRel.of_axisName φ hn) (fun _ => rfl)
    · rfl

/-! ### Related stripped lists (`OpRelT`) -/

theorem OpRelT.toOpRel {o o' : List Tok} (h : OpRelT φ o o') : OpRel φ o o' := by
  rcases h with h | h
  · exact Or.inl h
  · exact Or.inr (Ins.tight h)

theorem OpRel.strip {ts ts' : List Tok} (h : OpRel φ ts ts') : OpRelT φ (strip ts) (strip ts') := by
  rcases h with h | h
  · exact Or.inl h.strip
  · exact h.strip

theorem OpRelT.nil_left {X' : List Tok} (h : OpRelT φ [] X') : X' = [] := by
  rcases h with h | h
  · cases h; rfl
  · cases h

theorem OpRelT.single_group {o c : Token} {inner X' : List Tok} (h : OpRelT φ [.group o c inner] X') :
    ∃ o' c' inner', X' = [.group o' c' inner'] ∧ o'.text = o.text ∧ OpRel φ inner inner' := by
  rcases h with h | h
  · obtain ⟨o', c', inner', h1, h2, h3⟩ := h.single_group
    exact ⟨o', c', inner', h1, h2, Or.inl h3⟩
  · obtain ⟨o', c', inner', h1, h2, h3⟩ := h.single_group
    exact ⟨o', c', inner', h1, h2, Or.inr h3⟩

theorem OpRelT.cons_left {t0 : Tok} {rest X' : List Tok} (h : OpRelT φ (t0 :: rest) X') :
    ∃ t0' rest', X' = t0' :: rest' := by
  rcases h with h | h
  · cases h; exact ⟨_, _, rfl⟩
  · have := h.ne_nil.2
    cases X' with
    | nil => exact (this rfl).elim
    | cons a b => exact ⟨_, _, rfl⟩

theorem OpRelT.notGroup {t0 t0' : Tok} {rest rest' : List Tok} (h : OpRelT φ (t0 :: rest) (t0' :: rest'))
    (hng : NotGroup t0 rest) : NotGroup t0' rest' := by
  rcases h with h | h
  · exact h.notGroup hng
  · exact h.notGroup hng

theorem OpRelT.findOp_eq {X X' : List Tok} (h : OpRelT φ X X') : findOp naryOps X' = findOp naryOps X := by
  rcases h with h | h
  · exact h.findOp_eq _
  · exact h.findOp_eq

theorem OpRelT.keepOperands_rel {X X' : List Tok} {op : Str} (h : OpRelT φ X X') (hop : findOp naryOps X = some op) :
    Forall2 (fun o o' => OpRel φ o.ts o'.ts) (keepOperands op (operands op X)) (keepOperands op (operands op X')) := by
  by_cases hsp : op = spaceLit
  · subst hsp
    have hT : Forall2 (fun o o' => OpRelT φ o.ts o'.ts) (operands spaceLit X) (operands spaceLit X') := by
      apply operands_rel
      rcases h with h | h
      · have := segs_TSimL (φ := φ) spaceLit h
        exact Forall2.cons (Or.inl this.1) (Forall2.imp (fun _ _ h => Or.inl h) this.2)
      · have := segs_InsT_noOp spaceLit h (findOp_space hop)
        exact Forall2.cons this.1 this.2
    exact Forall2.imp (fun _ _ h => h.toOpRel) (keepOperands_space_rel hT)
  · rw [keepOperands_ne hsp, keepOperands_ne hsp]
    apply operands_rel
    rcases h with h | h
    · have := segs_TSimL (φ := φ) op h
      exact Forall2.cons (Or.inl this.1) (Forall2.imp (fun _ _ h => Or.inl h) this.2)
    · have := segs_InsT hsp h
      exact Forall2.cons this.1.toOpRel this.2

/-- Atom or group. -/
def Tok.isAtom : Tok → Bool
  | .atom _ => true
  | .group .. => false

theorem TSim.isAtom_eq {t t' : Tok} (h : TSim φ t t') : t'.isAtom = t.isAtom := by cases h <;> rfl

theorem TSimL.map_isAtom : ∀ {X X' : List Tok}, TSimL φ X X' → X'.map Tok.isAtom = X.map Tok.isAtom
  | [], _, h => by cases h; rfl
  | _ :: _, _, h => by cases h with | cons h1 h2 => simp only [List.map_cons, h1.isAtom_eq, TSimL.map_isAtom h2]

theorem InsT.map_isAtom : ∀ {X X' : List Tok}, InsT φ X X' → X.any Tok.isOp3 = false →
    X'.map Tok.isAtom = X.map Tok.isAtom
  | [], _, h, _ => by cases h
  | t :: ts, _, h, hno => by
    simp only [List.any_cons, Bool.or_eq_false_iff] at hno
    cases h with
    | afterOp _ hop3 _ _ => rw [hop3] at hno; cases hno.1
    | beforeOp _ _ hop3 _ => rw [hop3] at hno; cases hno.1
    | inside _ _ hR => simp only [List.map_cons, Tok.isAtom, hR.map_isAtom]
    | cons ht hR => simp only [List.map_cons, ht.isAtom_eq, InsT.map_isAtom hR hno.2]

theorem OpRelT.map_isAtom {X X' : List Tok} (h : OpRelT φ X X') (hno : X.any Tok.isOp3 = false) :
    X'.map Tok.isAtom = X.map Tok.isAtom := by
  rcases h with h | h
  · exact h.map_isAtom
  · exact h.map_isAtom hno

/-- Related pairs `[x] ~ [x']` and atoms `t ~ t'` from related two-element lists without operator. -/
theorem OpRelT.pair {x : Tok} {t : Token} {X' : List Tok} (h : OpRelT φ [x, .atom t] X')
    (hno : [x, Tok.atom t].any Tok.isOp3 = false) :
    ∃ x' t', X' = [x', .atom t'] ∧ OpRel φ [x] [x'] ∧ t'.text = t.text ∧ t'.b = φ t.b := by
  simp only [List.any_cons, List.any_nil, Bool.or_false, Bool.or_eq_false_iff] at hno
  rcases h with h | h
  · cases h with
    | cons hx h2 =>
      cases h2 with
      | cons ht h3 =>
        cases h3
        cases ht with
        | atom h1 h2 => exact ⟨_, _, rfl, Or.inl (TSimL.cons hx TSimL.nil), h1, h2⟩
  · cases h with
    | afterOp _ hop3 _ _ => rw [hop3] at hno; cases hno.1
    | beforeOp _ _ hop3 _ => rw [hop3] at hno; cases hno.1
    | inside ho hin hR =>
      cases hR with
      | cons ht h3 =>
        cases h3
        cases ht with
        | atom h1 h2 => exact ⟨_, _, rfl, Or.inr (Ins.tight (InsT.inside ho hin TSimL.nil)), h1, h2⟩
    | cons hx hR =>
      cases hR with
      | afterOp _ hop3 _ _ => rw [hop3] at hno; cases hno.2
      | beforeOp _ _ hop3 _ => rw [hop3] at hno; cases hno.2
      | cons _ h3 => cases h3

theorem OpRelT.single_atom {t : Token} {X' : List Tok} (h : OpRelT φ [.atom t] X')
    (hno : [Tok.atom t].any Tok.isOp3 = false) :
    ∃ t', X' = [.atom t'] ∧ t'.text = t.text ∧ t'.b = φ t.b := by
  simp only [List.any_cons, List.any_nil, Bool.or_false] at hno
  rcases h with h | h
  · cases h with
    | cons ht h3 =>
      cases h3
      cases ht with
      | atom h1 h2 => exact ⟨_, rfl, h1, h2⟩
  · cases h with
    | afterOp _ hop3 _ _ => rw [hop3] at hno; cases hno
    | beforeOp _ _ hop3 _ => rw [hop3] at hno; cases hno
    | cons _ h3 => cases h3

/-! ### The main lemma -/

theorem RSim.error_left {err : Err} {r : Res Expr} (h : RSim φ (.error err) r) : ∃ err', r = .error err' ∧ ErrSim err err' := by
  cases r with
  | error err' => exact ⟨err', rfl, h⟩
  | ok y => exact h.elim

theorem RSim.ok_left {x : Expr} {r : Res Expr} (h : RSim φ (.ok x) r) : ∃ y, r = .ok y ∧ ESim φ x y := by
  cases r with
  | error err' => exact h.elim
  | ok y => exact ⟨y, rfl, h⟩

theorem RSimL.error_left {err : Err} {r : Res (List Expr)} (h : RSimL φ (.error err) r) :
    ∃ err', r = .error err' ∧ ErrSim err err' := by
  cases r with
  | error err' => exact ⟨err', rfl, h⟩
  | ok y => exact h.elim

theorem RSimL.ok_left {x : List Expr} {r : Res (List Expr)} (h : RSimL φ (.ok x) r) : ∃ y, r = .ok y ∧ ESimL φ x y := by
  cases r with
  | error err' => exact h.elim
  | ok y => exact ⟨y, rfl, h⟩

/-- `parse` on token trees equal up to positions, or differing by one redundant space atom: same result up to
    positions and fresh ids / same kind of error. -/
theorem parse_rel (ts : List Tok) (b e : Nat) (ipc : Bool) :
    ∀ (ts' : List Tok) (b' e' : Nat), OpRel φ ts ts' → RSim φ (parse ts b e ipc) (parse ts' b' e' ipc) := by
  fun_induction parse ts b e ipc with
  | case1 ts b e ipc hs =>
    intro ts' b' e' hrel
    have hS := hrel.strip
    rw [hs] at hS
    rw [parse_nil b' e' ipc hS.nil_left]
    exact mkList_sim ESimL.nil
  | case2 ts b e ipc o c inner hs ib err heq ih =>
    intro ts' b' e' hrel
    have hS := hrel.strip
    rw [hs] at hS
    obtain ⟨o', c', inner', hs', ho, hin⟩ := hS.single_group
    have hi := ih inner' (firstInnerPos inner' c') (lastEnd inner' (firstInnerPos inner' c')) hin
    rw [heq] at hi
    obtain ⟨err', he', hee⟩ := hi.error_left
    rw [parse_group b' e' ipc hs', ho, he']
    exact hee
  | case3 ts b e ipc o c inner hs ib x heq h1 h2 ih =>
    intro ts' b' e' hrel
    have hS := hrel.strip
    rw [hs] at hS
    obtain ⟨o', c', inner', hs', ho, hin⟩ := hS.single_group
    have hi := ih inner' (firstInnerPos inner' c') (lastEnd inner' (firstInnerPos inner' c')) hin
    rw [heq] at hi
    obtain ⟨y, hy, hxy⟩ := hi.ok_left
    rw [parse_group b' e' ipc hs', ho, hy]
    simp only [h1, if_true, ← hxy.isConcat_eq, h2]
    exact hxy
  | case4 ts b e ipc o c inner hs ib x heq h1 h2 ih =>
    intro ts' b' e' hrel
    have hS := hrel.strip
    rw [hs] at hS
    obtain ⟨o', c', inner', hs', ho, hin⟩ := hS.single_group
    have hi := ih inner' (firstInnerPos inner' c') (lastEnd inner' (firstInnerPos inner' c')) hin
    rw [heq] at hi
    obtain ⟨y, hy, hxy⟩ := hi.ok_left
    rw [parse_group b' e' ipc hs', ho, hy]
    simp only [h1, if_true, ← hxy.isConcat_eq, h2]
    exact mkFlat_sim hxy
  | case5 ts b e ipc o c inner hs ib x heq h1 h2 ih =>
    intro ts' b' e' hrel
    have hS := hrel.strip
    rw [hs] at hS
    obtain ⟨o', c', inner', hs', ho, hin⟩ := hS.single_group
    have hi := ih inner' (firstInnerPos inner' c') (lastEnd inner' (firstInnerPos inner' c')) hin
    rw [heq] at hi
    obtain ⟨y, hy, hxy⟩ := hi.ok_left
    rw [parse_group b' e' ipc hs', ho, hy]
    simp only [h1, h2, if_true, if_false]
    exact mkBrackets_sim hxy
  | case6 ts b e ipc o c inner hs ib x heq h1 h2 ih =>
    intro ts' b' e' hrel
    have hS := hrel.strip
    rw [hs] at hS
    obtain ⟨o', c', inner', hs', ho, hin⟩ := hS.single_group
    have hi := ih inner' (firstInnerPos inner' c') (lastEnd inner' (firstInnerPos inner' c')) hin
    rw [heq] at hi
    obtain ⟨y, hy, hxy⟩ := hi.ok_left
    rw [parse_group b' e' ipc hs', ho, hy]
    simp only [h1, h2, if_false]
    rfl
  | case7 ts b e ipc t0 rest hng hs ts1 op hop err heq ih =>
    intro ts' b' e' hrel
    have hS := hrel.strip
    rw [hs] at hS
    obtain ⟨t0', rest', hs'⟩ := hS.cons_left
    rw [hs'] at hS
    have hop' : findOp naryOps (t0' :: rest') = some op := by rw [hS.findOp_eq]; exact hop
    rw [parse_nary b' e' ipc hs' (hS.notGroup hng) hop']
    have hm := mapM_rel (φ := φ) (f := fun (o : TL) => parse o.ts o.b o.e false) (f' := fun (o : TL) => parse o.ts o.b o.e false)
      (hS.keepOperands_rel hop) (fun o ho o' hoo => ih ⟨o, ho⟩ o'.ts o'.b o'.e hoo)
    rw [mapM_attach_eq _ (fun (o : TL) => parse o.ts o.b o.e false)] at heq
    rw [heq] at hm
    obtain ⟨err', he', hee⟩ := hm.error_left
    rw [he']
    exact hee
  | case8 ts b e ipc t0 rest hng hs ts1 b1 e1 op hop xs heq ih =>
    intro ts' b' e' hrel
    have hS := hrel.strip
    rw [hs] at hS
    obtain ⟨t0', rest', hs'⟩ := hS.cons_left
    rw [hs'] at hS
    have hop' : findOp naryOps (t0' :: rest') = some op := by rw [hS.findOp_eq]; exact hop
    rw [parse_nary b' e' ipc hs' (hS.notGroup hng) hop']
    have hm := mapM_rel (φ := φ) (f := fun (o : TL) => parse o.ts o.b o.e false) (f' := fun (o : TL) => parse o.ts o.b o.e false)
      (hS.keepOperands_rel hop) (fun o ho o' hoo => ih ⟨o, ho⟩ o'.ts o'.b o'.e hoo)
    rw [mapM_attach_eq _ (fun (o : TL) => parse o.ts o.b o.e false)] at heq
    rw [heq] at hm
    obtain ⟨ys, hy, hxy⟩ := hm.ok_left
    rw [hy]
    exact combine_sim hxy
  | case9 ts b e ipc t hs a1 a2 a3 a4 hop =>
    intro ts' b' e' hrel
    have hS := hrel.strip
    rw [hs] at hS
    obtain ⟨t', hs', h1, h2⟩ := hS.single_atom (findOp_none hop).1
    rw [hs'] at hS
    have hop' : findOp naryOps [Tok.atom t'] = none := by rw [hS.findOp_eq]; exact hop
    rw [parse_atom b' e' ipc hs' hop', h1, if_pos a1, h2]
    exact mkEllipsis_sim (ESim.axis (NameRel.anon φ) (fun _ => rfl))
  | case10 ts b e ipc t hs a1 a2 a3 a4 hop =>
    intro ts' b' e' hrel
    have hS := hrel.strip
    rw [hs] at hS
    obtain ⟨t', hs', h1, h2⟩ := hS.single_atom (findOp_none hop).1
    rw [hs'] at hS
    have hop' : findOp naryOps [Tok.atom t'] = none := by rw [hS.findOp_eq]; exact hop
    rw [parse_atom b' e' ipc hs' hop', h1, if_neg a1]
    exact parseAxis_sim h1 h2
  | case11 ts b e ipc x t hs a1 err heq a2 a3 a4 hop ih =>
    intro ts' b' e' hrel
    have hS := hrel.strip
    rw [hs] at hS
    obtain ⟨x', t', hs', hx, h1, h2⟩ := hS.pair (findOp_none hop).1
    rw [hs'] at hS
    have hop' : findOp naryOps [x', Tok.atom t'] = none := by rw [hS.findOp_eq]; exact hop
    have hi := ih [x'] x'.b x'.e hx
    rw [heq] at hi
    obtain ⟨err', he', hee⟩ := hi.error_left
    rw [parse_ell b' e' ipc hs' hop', h1, if_pos a1, he']
    exact hee
  | case12 ts b e ipc x t hs a1 operand heq a2 a3 a4 hop ih =>
    intro ts' b' e' hrel
    have hS := hrel.strip
    rw [hs] at hS
    obtain ⟨x', t', hs', hx, h1, h2⟩ := hS.pair (findOp_none hop).1
    rw [hs'] at hS
    have hop' : findOp naryOps [x', Tok.atom t'] = none := by rw [hS.findOp_eq]; exact hop
    have hi := ih [x'] x'.b x'.e hx
    rw [heq] at hi
    obtain ⟨y, hy, hxy⟩ := hi.ok_left
    rw [parse_ell b' e' ipc hs' hop', h1, if_pos a1, hy, h2]
    exact mkEllipsis_sim hxy
  | case13 ts b e ipc x t hs a1 a2 a3 a4 a5 e1 hop =>
    intro ts' b' e' hrel
    have hS := hrel.strip
    rw [hs] at hS
    obtain ⟨x', t', hs', hx, h1, h2⟩ := hS.pair (findOp_none hop).1
    rw [hs'] at hS
    have hop' : findOp naryOps [x', Tok.atom t'] = none := by rw [hS.findOp_eq]; exact hop
    rw [parse_ell b' e' ipc hs' hop', h1, if_neg a1]
    rfl
  | case14 ts b e ipc t0 rest a0 hs ts1 b1 e1 hop a2 a3 a4 =>
    intro ts' b' e' hrel
    have hS := hrel.strip
    rw [hs] at hS
    obtain ⟨t0', rest', hs'⟩ := hS.cons_left
    rw [hs'] at hS
    have hop' : findOp naryOps (t0' :: rest') = none := by rw [hS.findOp_eq]; exact hop
    have hm := hS.map_isAtom (findOp_none hop).1
    simp only [List.map_cons, List.cons.injEq] at hm
    have hr1 : rest ≠ [] := by
      intro hr
      subst hr
      cases t0 with
      | atom t => exact a3 t hs rfl rfl HEq.rfl
      | group o c inner => exact a0 o c inner rfl rfl
    have hr2 : ∀ t, rest ≠ [Tok.atom t] := by
      intro t hr
      subst hr
      exact a4 t a2 rfl HEq.rfl
    have hr1' : rest' ≠ [] := by
      intro hr
      rw [hr] at hm
      cases rest with
      | nil => exact hr1 rfl
      | cons a as => simp at hm
    have hr2' : ∀ t, rest' ≠ [Tok.atom t] := by
      intro t' hr
      rw [hr] at hm
      cases rest with
      | nil => exact hr1 rfl
      | cons a as =>
        cases as with
        | nil =>
          cases a with
          | atom t => exact hr2 t rfl
          | group o c inner => simp [Tok.isAtom] at hm
        | cons a2 as2 => simp at hm
    rw [parse_invalid b' e' ipc hs' hop' hr1' hr2']
    have hlen : (t0' :: rest').length = (t0 :: rest).length := by
      have := congrArg List.length hm.2
      simp only [List.length_map] at this
      simp [this]
    simp only [RSim, ErrSim, hlen]
    rfl

end Einx.Notation
