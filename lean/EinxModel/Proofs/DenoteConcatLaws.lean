import EinxModel.Proofs.DenoteConcat
import EinxModel.Proofs.DenoteDotPerm
/-!
`id` with concatenations (C08c): the enumeration of virtual tensors (`views`) commutes with grouping adjacent root
dimensions; congruence lemmas for the functional form `denoteIdFunG` (one lemma for the inputs, with a map on cells, one
for the outputs).
-/
namespace Einx.Denote
open Einx Einx.IR List
open Einx.Update (mapOpt mapOpt_eq_some_iff mapOpt_congr mapOpt_length)

/-! ### `chooseL`, `nblocksL`, `nconcatL` on appended lists -/

theorem nconcatL_append (A B : List Dim) : Dim.nconcatL (A ++ B) = Dim.nconcatL A + Dim.nconcatL B := by
  induction A with
  | nil => simp [Dim.nconcatL]
  | cons d A ih => simp only [List.cons_append, Dim.nconcatL, ih]; omega

theorem chooseL_append (k : Nat) (A B : List Dim) :
    Dim.chooseL k (A ++ B) = if Dim.nconcatL A > 0 then (Dim.chooseL k A).map (· ++ B) else (Dim.chooseL k B).map (A ++ ·) := by
  induction A with
  | nil => simp [Dim.nconcatL]
  | cons d A ih =>
    simp only [List.cons_append, Dim.chooseL, Dim.nconcatL]
    by_cases hd : d.nconcat > 0
    · have : d.nconcat + Dim.nconcatL A > 0 := by omega
      simp only [hd, this, if_true]
      cases d.choose k <;> rfl
    · have h0 : d.nconcat = 0 := by omega
      simp only [if_neg hd]
      rw [ih]
      simp only [h0, Nat.zero_add]
      by_cases hA : Dim.nconcatL A > 0
      · simp only [hA, if_true]; cases Dim.chooseL k A <;> rfl
      · simp only [hA, if_false]; cases Dim.chooseL k B <;> rfl

theorem nblocksL_append (A B : List Dim) :
    Dim.nblocksL (A ++ B) = if Dim.nconcatL A > 0 then Dim.nblocksL A else Dim.nblocksL B := by
  induction A with
  | nil => simp [Dim.nconcatL]
  | cons d A ih =>
    simp only [List.cons_append, Dim.nblocksL, Dim.nconcatL]
    by_cases hd : d.nconcat > 0
    · have : d.nconcat + Dim.nconcatL A > 0 := by omega
      simp only [hd, this, if_true]
    · have h0 : d.nconcat = 0 := by omega
      simp only [if_neg hd]
      rw [ih]
      simp only [h0, Nat.zero_add]

/-! ### the enumeration of views commutes with grouping -/

/-- `g` is `u` with some adjacent root dimensions wrapped in parentheses. -/
def Regroup (g u : List Dim) : Prop := ∃ P M Q, g = P ++ [Dim.flat M] ++ Q ∧ u = P ++ M ++ Q

theorem forall₂_flatMap {α β γ : Type} {R : β → γ → Prop} (l : List α) (f : α → List β) (g : α → List γ)
    (h : ∀ a ∈ l, Forall₂ R (f a) (g a)) : Forall₂ R (l.flatMap f) (l.flatMap g) := by
  induction l with
  | nil => exact Forall₂.nil
  | cons a l ih =>
    simp only [List.flatMap_cons]
    exact List.rel_append (h a (List.mem_cons_self ..)) (ih (fun b hb => h b (List.mem_cons_of_mem _ hb)))

theorem viewsFuel_regroup : ∀ (n : Nat) (P M Q : List Dim),
    Forall₂ Regroup (viewsFuel n (P ++ [Dim.flat M] ++ Q)) (viewsFuel n (P ++ M ++ Q))
  | 0, P, M, Q => Forall₂.cons ⟨P, M, Q, rfl, rfl⟩ Forall₂.nil
  | n + 1, P, M, Q => by
    have hnc : Dim.nconcatL (P ++ [Dim.flat M] ++ Q) = Dim.nconcatL (P ++ M ++ Q) := by
      simp only [nconcatL_append, Dim.nconcatL, Dim.nconcat]; omega
    rw [viewsFuel, viewsFuel, hnc]
    split
    · exact Forall₂.cons ⟨P, M, Q, rfl, rfl⟩ Forall₂.nil
    · have hnb : Dim.nblocksL (P ++ [Dim.flat M] ++ Q) = Dim.nblocksL (P ++ M ++ Q) := by
        simp only [List.append_assoc, nblocksL_append, List.cons_append, List.nil_append, Dim.nblocksL, Dim.nconcat,
          Dim.nblocks]
        by_cases hP : Dim.nconcatL P > 0 <;> by_cases hM : Dim.nconcatL M > 0 <;> simp only [hP, hM, if_true, if_false]
      rw [hnb]
      apply forall₂_flatMap
      intro k _
      simp only [List.append_assoc, chooseL_append, List.cons_append, List.nil_append, Dim.chooseL, Dim.nconcat,
        Dim.choose]
      by_cases hP : Dim.nconcatL P > 0
      · simp only [hP, if_true]
        cases Dim.chooseL k P with
        | none => exact Forall₂.nil
        | some P' =>
          have := viewsFuel_regroup n P' M Q
          simpa only [List.append_assoc, List.cons_append, List.nil_append, Option.map_some] using this
      · simp only [hP, if_false]
        by_cases hM : Dim.nconcatL M > 0
        · simp only [hM, if_true]
          cases Dim.chooseL k M with
          | none => exact Forall₂.nil
          | some M' =>
            have := viewsFuel_regroup n P M' Q
            simpa only [List.append_assoc, List.cons_append, List.nil_append, Option.map_some] using this
        · simp only [hM, if_false]
          cases Dim.chooseL k Q with
          | none => exact Forall₂.nil
          | some Q' =>
            have := viewsFuel_regroup n P M Q'
            simpa only [List.append_assoc, List.cons_append, List.nil_append, Option.map_some] using this

/-! ### every view has the shape of the real tensor -/

theorem foldl_size_le (ds : List Dim) : ∀ (k acc : Nat) (d : Dim), ds[k]? = some d →
    (ds.take k).foldl (fun a x => a + x.size) acc + d.size ≤ acc + Dim.sizeSum ds := by
  induction ds with
  | nil => intro k acc d h; simp at h
  | cons x ds ih =>
    intro k acc d h
    cases k with
    | zero =>
      simp only [List.getElem?_cons_zero, Option.some.injEq] at h
      subst h
      simp only [List.take_zero, List.foldl_nil, Dim.sizeSum]; omega
    | succ k =>
      simp only [List.getElem?_cons_succ] at h
      have := ih k (acc + x.size) d h
      simp only [List.take_succ_cons, List.foldl_cons, Dim.sizeSum]; omega

mutual
theorem choose_size (k : Nat) : ∀ (d d' : Dim), d.choose k = some d' → d'.size = d.size
  | .axis _, d', h => by simp [Dim.choose] at h
  | .flat ds, d', h => by
    simp only [Dim.choose] at h
    cases hc : Dim.chooseL k ds with
    | none => simp [hc] at h
    | some ds' =>
      simp only [hc, Option.map_some, Option.some.injEq] at h
      subst h
      simp only [Dim.size]
      exact chooseL_sizeProd k ds ds' hc
  | .concat ds, d', h => by
    simp only [Dim.choose] at h
    cases hg : ds[k]? with
    | none => simp [hg] at h
    | some d =>
      simp only [hg, Option.some.injEq] at h
      subst h
      rfl
  | .off o d t, d', h => by
    simp only [Dim.choose] at h
    cases hc : d.choose k with
    | none => simp [hc] at h
    | some d2 =>
      simp only [hc, Option.map_some, Option.some.injEq] at h
      subst h
      rfl
theorem chooseL_sizeProd (k : Nat) : ∀ (ds ds' : List Dim), Dim.chooseL k ds = some ds' → Dim.sizeProd ds' = Dim.sizeProd ds
  | [], ds', h => by simp [Dim.chooseL] at h
  | d :: ds, ds', h => by
    simp only [Dim.chooseL] at h
    split at h
    · cases hc : d.choose k with
      | none => simp [hc] at h
      | some d2 =>
        simp only [hc, Option.map_some, Option.some.injEq] at h
        subst h
        simp only [Dim.sizeProd, choose_size k d d2 hc]
    · cases hc : Dim.chooseL k ds with
      | none => simp [hc] at h
      | some ds2 =>
        simp only [hc, Option.map_some, Option.some.injEq] at h
        subst h
        simp only [Dim.sizeProd, chooseL_sizeProd k ds ds2 hc]
end

theorem chooseL_viewShape (k : Nat) : ∀ (ds ds' : List Dim), Dim.chooseL k ds = some ds' → viewShape ds' = viewShape ds
  | [], ds', h => by simp [Dim.chooseL] at h
  | d :: ds, ds', h => by
    simp only [Dim.chooseL] at h
    split at h
    · cases hc : d.choose k with
      | none => simp [hc] at h
      | some d2 =>
        simp only [hc, Option.map_some, Option.some.injEq] at h
        subst h
        simp only [viewShape, List.map_cons, choose_size k d d2 hc]
    · cases hc : Dim.chooseL k ds with
      | none => simp [hc] at h
      | some ds2 =>
        simp only [hc, Option.map_some, Option.some.injEq] at h
        subst h
        have := chooseL_viewShape k ds ds2 hc
        simp only [viewShape] at this
        simp only [viewShape, List.map_cons, this]

theorem viewsFuel_viewShape : ∀ (n : Nat) (ds : List Dim), ∀ v ∈ viewsFuel n ds, viewShape v = viewShape ds
  | 0, ds, v, hv => by
    simp only [viewsFuel, List.mem_singleton] at hv
    subst hv; rfl
  | n + 1, ds, v, hv => by
    rw [viewsFuel] at hv
    split at hv
    · simp only [List.mem_singleton] at hv
      subst hv; rfl
    · simp only [List.mem_flatMap, List.mem_range] at hv
      obtain ⟨k, _, hk⟩ := hv
      cases hc : Dim.chooseL k ds with
      | none => simp [hc] at hk
      | some ds' =>
        simp only [hc] at hk
        rw [viewsFuel_viewShape n ds' v hk, chooseL_viewShape k ds ds' hc]

theorem views_viewShape (e : Expr) : ∀ v ∈ views e, viewShape v = shapeOf e := by
  intro v hv
  exact viewsFuel_viewShape _ _ v hv

/-! ### congruence of `denoteIdFunG` in the inputs, with a map on cells -/

theorem entriesFor_map (h : Cell → Cell) (k : Nat) (ks : List Nat) : ∀ (ess : List (List (Nat × Cell))),
    entriesFor k (List.zip ks (ess.map (List.map (fun e => (e.1, h e.2)))))
      = (entriesFor k (List.zip ks ess)).map (fun e => (e.1, h e.2)) := by
  induction ks with
  | nil => intro ess; simp [entriesFor]
  | cons k0 ks ih =>
    intro ess
    cases ess with
    | nil => simp [entriesFor]
    | cons es ess =>
      simp only [List.map_cons, List.zip_cons_cons, entriesFor_cons, ih ess]
      split
      · simp
      · rfl

theorem zip_map_snd_congr {α β γ δ : Type} (g : γ → δ) : ∀ (A : List α) (B : List β) (Z : List γ),
    A.length = B.length → (List.zip A Z).map (fun p => g p.2) = (List.zip B Z).map (fun p => g p.2) := by
  intro A
  induction A with
  | nil => intro B Z h; cases B with
    | nil => rfl
    | cons _ _ => simp at h
  | cons a A ih =>
    intro B Z h
    cases B with
    | nil => simp at h
    | cons b B =>
      cases Z with
      | nil => rfl
      | cons z Z => simp only [List.zip_cons_cons, List.map_cons, ih B Z (by simpa using h)]

/-- If the virtual inputs of two `id` operations with the same outputs correspond one to one, and for every pair the
entries of the first, mapped by `h` on cells, are the entries of the second, then the results correspond under `h`. -/
theorem denoteIdFunG_congr_in (h : Cell → Cell) (insA insB outs : List Expr)
    (hpair : Forall₂ (fun a b => ∀ z ∈ idVout outs, (idPairEntries outs (a, z)).map (List.map (fun e => (e.1, h e.2)))
        = idPairEntries outs (b, z)) (idVin insA) (idVin insB)) :
    (denoteIdFunG insA outs).map (List.map (Tensor.map h)) = denoteIdFunG insB outs := by
  unfold denoteIdFunG
  have hlen : (idVin insA).length = (idVin insB).length := hpair.length_eq
  simp only [hlen]
  split
  · rfl
  · have hm : (mapOpt (idPairEntries outs) (List.zip (idVin insA) (idVout outs))).map
        (List.map (List.map (fun e => (e.1, h e.2))))
        = mapOpt (idPairEntries outs) (List.zip (idVin insB) (idVout outs)) := by
      apply mapOpt_pointwise
      · simp [hlen]
      · intro k a b ha hb
        obtain ⟨a1, a2⟩ := a
        obtain ⟨b1, b2⟩ := b
        rw [List.getElem?_zip_eq_some] at ha hb
        simp only at ha hb
        have hz : a2 = b2 := by
          have := ha.2.symm.trans hb.2
          exact Option.some.inj this
        have hab := List.forall₂_iff_get.mp hpair
        have hk1 : k < (idVin insA).length := by
          rcases Nat.lt_or_ge k (idVin insA).length with hh | hh
          · exact hh
          · rw [List.getElem?_eq_none hh] at ha; simp at ha
        have hk2 : k < (idVin insB).length := by omega
        have h1 : (idVin insA)[k] = a1 := by
          have := ha.1; rw [List.getElem?_eq_getElem hk1] at this; exact Option.some.inj this
        have h2 : (idVin insB)[k] = b1 := by
          have := hb.1; rw [List.getElem?_eq_getElem hk2] at this; exact Option.some.inj this
        subst hz
        have := hab.2 k hk1 hk2 a2 (List.mem_of_getElem? ha.2)
        simp only [List.get_eq_getElem, h1, h2] at this
        exact this
    have hks : (List.zip (idVin insA) (idVout outs)).map (fun p => p.2.2)
        = (List.zip (idVin insB) (idVout outs)).map (fun p => p.2.2) :=
      zip_map_snd_congr (fun z : List Dim × Nat => z.2) _ _ _ hlen
    rw [← hm, ← hks]
    cases mapOpt (idPairEntries outs) (List.zip (idVin insA) (idVout outs)) with
    | none => rfl
    | some ess =>
      simp only [Option.map_some]
      rw [← mapOpt_optmap]
      apply mapOpt_congr
      intro x _
      rw [entriesFor_map, gatherAll_map]
      cases gatherAll (prod (shapeOf x.1)) (entriesFor x.2 (List.zip
        ((List.zip (idVin insA) (idVout outs)).map (fun p => p.2.2)) ess)) <;> rfl

end Einx.Denote

namespace Einx.Denote
open Einx Einx.IR List
open Einx.Update (mapOpt mapOpt_eq_some_iff mapOpt_congr mapOpt_length)

/-! ### parentheses on an input expression of `id`, concatenations included -/

theorem forall₂_flatMap₂ {α α' β γ : Type} {R : β → γ → Prop} {S : α → α' → Prop} {l1 : List α} {l2 : List α'}
    (f : α → List β) (g : α' → List γ) (h : Forall₂ S l1 l2) (hf : ∀ a b, S a b → Forall₂ R (f a) (g b)) :
    Forall₂ R (l1.flatMap f) (l2.flatMap g) := by
  induction h with
  | nil => exact Forall₂.nil
  | cons hab _ ih =>
    simp only [List.flatMap_cons]
    exact List.rel_append (hf _ _ hab) ih

theorem forall₂_and_mem {α β : Type} {R : α → β → Prop} {l1 : List α} {l2 : List β} (h : Forall₂ R l1 l2) :
    Forall₂ (fun a b => R a b ∧ a ∈ l1 ∧ b ∈ l2) l1 l2 := by
  induction h with
  | nil => exact Forall₂.nil
  | cons hab _ ih =>
    refine Forall₂.cons ⟨hab, List.mem_cons_self .., List.mem_cons_self ..⟩ ?_
    exact ih.imp (fun _ _ h => ⟨h.1, List.mem_cons_of_mem _ h.2.1, List.mem_cons_of_mem _ h.2.2⟩)

theorem forall₂_zipIdx_set {α : Type} (l : List α) (j : Nat) (a b : α) :
    Forall₂ (fun x y => x.2 = y.2 ∧ (x.1 = y.1 ∨ (x.1 = a ∧ y.1 = b))) (l.set j a).zipIdx (l.set j b).zipIdx := by
  rw [List.forall₂_iff_get]
  refine ⟨by simp, ?_⟩
  intro i h1 h2
  simp only [List.get_eq_getElem, List.getElem_zipIdx, List.getElem_set, Nat.zero_add, true_and]
  by_cases hji : j = i
  · simp [hji]
  · simp [hji]

/-- The entries of a pair do not change when the virtual input is regrouped (its register reshaped). -/
theorem idPairEntries_regroup_in (outs : List Expr) (P M Q : List Dim) (i : Nat) (z : List Dim × Nat) :
    idPairEntries outs ((P ++ [Dim.flat M] ++ Q, i, viewShape (P ++ [Dim.flat M] ++ Q)), z)
      = idPairEntries outs ((P ++ M ++ Q, i, viewShape (P ++ M ++ Q)), z) := by
  unfold idPairEntries
  have : idEntry (P ++ [Dim.flat M] ++ Q) (viewShape (P ++ [Dim.flat M] ++ Q)) i z.1 (shapeOf (outs.getD z.2 (Expr.list [])))
      = idEntry (P ++ M ++ Q) (viewShape (P ++ M ++ Q)) i z.1 (shapeOf (outs.getD z.2 (Expr.list []))) := by
    funext σ
    simp only [idEntry, leavesL_regroup, cellAt_regroup]
  simp only [this]

theorem dimsL_append' (m : Bool) (a b : List Expr) : dimsL m (a ++ b) = dimsL m a ++ dimsL m b := by
  induction a with
  | nil => simp [dimsL]
  | cons x a ih => simp [dimsL, ih]

theorem views_regroup (pre mid post : List Expr) :
    Forall₂ (fun g u => Regroup g u ∧ viewShape g = viewShape (dimsL false pre ++ [Dim.flat (dimsL false mid)] ++ dimsL false post)
        ∧ viewShape u = viewShape (dimsL false pre ++ dimsL false mid ++ dimsL false post))
      (views (.list (pre ++ [.flat (.list mid)] ++ post))) (views (.list (pre ++ mid ++ post))) := by
  have hg : dims false (.list (pre ++ [.flat (.list mid)] ++ post))
      = dimsL false pre ++ [Dim.flat (dimsL false mid)] ++ dimsL false post := by
    simp [dims, dimsL_append', dimsL]
  have hu : dims false (.list (pre ++ mid ++ post)) = dimsL false pre ++ dimsL false mid ++ dimsL false post := by
    simp [dims, dimsL_append']
  unfold views
  simp only [hg, hu]
  have hnc : Dim.nconcatL (dimsL false pre ++ [Dim.flat (dimsL false mid)] ++ dimsL false post)
      = Dim.nconcatL (dimsL false pre ++ dimsL false mid ++ dimsL false post) := by
    simp only [nconcatL_append, Dim.nconcatL, Dim.nconcat]; omega
  rw [hnc]
  refine (forall₂_and_mem (viewsFuel_regroup _ _ _ _)).imp ?_
  intro g u h
  exact ⟨h.1, viewsFuel_viewShape _ _ g h.2.1, viewsFuel_viewShape _ _ u h.2.2⟩

end Einx.Denote

namespace Einx.Denote
open Einx Einx.IR List
open Einx.Update (mapOpt mapOpt_eq_some_iff mapOpt_congr mapOpt_length)

/-! ### positions of well-formed virtual tensors (chosen blocks of concatenations allowed) -/

mutual
theorem pos_lt_view {σ : Assign} : ∀ d : Dim, d.viewOK = true → BoundedOn σ d.leaves →
    ∃ p, d.pos σ = some p ∧ p < d.size
  | .axis l, _, h => by
    obtain ⟨x, hx, hlt⟩ := h l (by simp [Dim.leaves])
    exact ⟨x, by simpa [Dim.pos] using hx, by simpa [Dim.size] using hlt⟩
  | .flat ds, hc, h => by
    obtain ⟨ps, hps, hv⟩ := mapOpt_pos_valid_view ds (by simpa [Dim.viewOK] using hc) (by simpa [Dim.leaves] using h)
    refine ⟨ravel (viewShape ds) ps, ?_, ?_⟩
    · rw [pos_flat, position_eq, hps]; rfl
    · rw [size_flat]; exact ravel_lt hv
  | .concat _, hc, _ => by simp [Dim.viewOK] at hc
  | .off o d t, hc, h => by
    simp only [Dim.viewOK, Bool.and_eq_true, decide_eq_true_eq] at hc
    obtain ⟨p, hp, hlt⟩ := pos_lt_view d hc.1 (by simpa [Dim.leaves] using h)
    exact ⟨o + p, by simp [Dim.pos, hp], by simp only [Dim.size]; omega⟩
theorem mapOpt_pos_valid_view {σ : Assign} : ∀ ds : List Dim, Dim.viewOKL ds = true → BoundedOn σ (Dim.leavesL ds) →
    ∃ ps, mapOpt (Dim.pos σ) ds = some ps ∧ Valid (viewShape ds) ps
  | [], _, _ => ⟨[], rfl, Valid.nil⟩
  | d :: ds, hc, h => by
    simp only [Dim.viewOKL, Bool.and_eq_true] at hc
    simp only [Dim.leavesL] at h
    obtain ⟨p, hp, hlt⟩ := pos_lt_view d hc.1 h.append.1
    obtain ⟨ps, hps, hv⟩ := mapOpt_pos_valid_view ds hc.2 h.append.2
    exact ⟨p :: ps, by simp [mapOpt, hp, hps], Valid.cons hlt hv⟩
end

theorem position_valid_view {σ : Assign} (v : List Dim) (hc : Dim.viewOKL v = true) (h : BoundedOn σ (Dim.leavesL v)) :
    ∃ p, position v σ = some p ∧ Valid (viewShape v) p := by
  rw [position_eq]; exact mapOpt_pos_valid_view v hc h

theorem cellAt_permute_input_view {v v' : List Dim} {perm : List Nat} {shapes : List (List Nat)} {x : Nat} {σ : Assign}
    {plan : Plan} (hperm : isPermOf perm v.length = true) (hv' : permuteL perm v = some v')
    (hc : Dim.viewOKL v = true) (hb : BoundedOn σ (Dim.leavesL v))
    (hx : shapes[x]? = some (viewShape v)) (hplan : planInstr shapes (.transpose x perm) = .ok plan) :
    (cellAt v' (viewShape v') 0 σ).map (subst [⟨plan.shape, plan.cells⟩]) = cellAt v (viewShape v) x σ := by
  obtain ⟨p, hp, hv⟩ := position_valid_view v hc hb
  have hlen : (viewShape v).length = v.length := by simp [viewShape]
  obtain ⟨plan2, hplan2, hshape, _, hreads⟩ :=
    transpose_plan_ok shapes x (viewShape v) perm hx (by rw [hlen]; exact hperm)
  rw [hplan] at hplan2
  have : plan = plan2 := Except.ok.inj hplan2
  subst this
  obtain ⟨p', hp', _, hcell⟩ := hreads p hv
  have hs : plan.shape = viewShape v' := by
    have := viewShape_permute hv'
    rw [hshape] at this
    exact Option.some.inj this
  have hpos' : position v' σ = some p' := by rw [position_permute hp hv', hp']
  rw [← hs]
  simp only [cellAt, flatPos, hpos', hp, Option.map_some, subst_src, hcell, Option.getD_some]

theorem idEntry_permute_input_view {v v' w : List Dim} {perm : List Nat} {shapes : List (List Nat)} {x : Nat} {σ : Assign}
    {sw : List Nat} {plan : Plan} (hperm : isPermOf perm v.length = true) (hv' : permuteL perm v = some v')
    (hc : Dim.viewOKL v = true) (hcons : Consistent (Dim.leavesL v)) (hr : InRangeOn σ (Dim.leavesL v))
    (hx : shapes[x]? = some (viewShape v)) (hplan : planInstr shapes (.transpose x perm) = .ok plan) :
    (idEntry v' (viewShape v') 0 w sw σ).map (fun e => (e.1, subst [⟨plan.shape, plan.cells⟩] e.2))
      = idEntry v (viewShape v) x w sw σ := by
  rcases extend_perm (leavesL_permute hperm hv') hcons σ σ (fun _ => rfl) with ⟨h1, h2⟩ | ⟨σ1, σ1', h1, h2, hs, hE⟩
  · simp [idEntry, h1, h2]
  · have hb : BoundedOn σ1 (Dim.leavesL v) := bounded_of_extend hr hE h1
    have hcell := cellAt_permute_input_view hperm hv' hc (hb.sameGet hs) hx hplan
    rw [← cellAt_sameGet hs v] at hcell
    simp only [idEntry, h1, h2]
    cases flatPos w sw σ with
    | none => rfl
    | some po =>
      rw [← hcell]
      cases cellAt v' (viewShape v') 0 σ1' <;> rfl

/-- The entries of one (virtual input, virtual output) pair when the virtual input is permuted and read from the
transposed real tensor. -/
theorem idPairEntries_permute_in (outs : List Expr) {v v' : List Dim} {perm : List Nat} {plan : Plan}
    (z : List Dim × Nat) (hperm : isPermOf perm v.length = true) (hv' : permuteL perm v = some v')
    (hok : Dim.viewOKL v = true) (hcons : Consistent (Dim.leavesL v ++ Dim.leavesL z.1))
    (hplan : planInstr [viewShape v] (.transpose 0 perm) = .ok plan) :
    (idPairEntries outs ((v', 0, viewShape v'), z)).map
        (List.map (fun e => (e.1, subst [⟨plan.shape, plan.cells⟩] e.2)))
      = idPairEntries outs ((v, 0, viewShape v), z) := by
  unfold idPairEntries
  rw [← mapOpt_optmap]
  apply mapOpt_congr
  intro σ hσ
  have hcv : Consistent (Dim.leavesL v) :=
    fun a ha b hb => hcons a (List.mem_append_left _ ha) b (List.mem_append_left _ hb)
  exact idEntry_permute_input_view hperm hv' hok hcv (outAssignments_inRange hcons hσ) rfl hplan

end Einx.Denote
