import EinxModel.Proofs.NotationPrintTree
import EinxModel.Proofs.NotationPrintParse
import EinxModel.Proofs.NotationFinishNF
import EinxModel.Proofs.NotationPrintConflict
import EinxModel.Proofs.NotationPrintShape
import EinxModel.Proofs.NotationPrintAdj
/-!
# M1 Notation — re-parsing the printed text of a printable expression (assembly)
-/
namespace Einx.Notation

/-- From the token tree of the printed text and the tree `parse` returns for it to the result of `parse_op`. -/
theorem parseOp_print_core {t : Expr} (hroot : PRoot t = true) (hconf : conflictNames (occs [] false t) = [])
    {toks : List Token} {T : List Tok} {x : Expr} (hlex : lex t.print = .ok toks)
    (htree : buildTree (dedupSpaces toks false) [] [] = .ok T) (hx : parse T 0 (lastEnd T 0) false = .ok x)
    (hshape : x.shape = (preTree t).shape) (hfresh : ValuedFresh x) :
    ∃ y, parseOp t.print = .ok y ∧ y.shape = t.shape := by
  have hpre := preTree_PRoot hroot
  have hq : QRoot x = true := by rw [← QRoot_shape, hshape, QRoot_shape]; exact hpre.1
  obtain ⟨y, hy, hys, hocc⟩ := finish_nf (posForLiteral (lit "->") t.print 0) x hq
  have hG : G true true true x = true := ((NF.parse_G T 0 (lastEnd T 0) false).of_eq hx).1
  have hnd : (Fresh.vnames x).Nodup := Fresh.parse_fresh_nodup hlex htree hx
  have hc := conflict_free_of_shape hroot hshape hfresh hG hnd hconf
  refine ⟨y, ?_, ?_⟩
  · rw [parseOp_eq, hlex]
    simp only
    rw [htree]
    simp only
    rw [hx]
    simp only
    rw [hy]
    exact checkBrackets_eq_ok (by rw [hocc]; exact hc)
  · rw [hys, ← canonShape_shape, hshape, canonShape_shape]
    exact hpre.2

/-- `parse_op(str(t))` succeeds for a printable `t` and returns `t` up to positions and fresh names. -/
theorem parseOp_print {t : Expr} (h : Printable t = true) : ∃ y, parseOp t.print = .ok y ∧ y.shape = t.shape := by
  simp only [Printable, Bool.and_eq_true, List.isEmpty_iff] at h
  obtain ⟨hroot, hconf⟩ := h
  cases hadj : hasAdjSpaces (textsL t.ptree) with
  | false =>
    obtain ⟨toks, T, hlex, htree, hE⟩ := tree_of_print t hroot hadj
    obtain ⟨x, hx, hshape, hfresh⟩ := parse_printed t hroot T hE
    exact parseOp_print_core hroot hconf hlex htree hx hshape hfresh
  | true =>
    -- the left side of `->` ends with an empty argument: `"a,  -> b"`; the duplicate-space pass drops one of the two spaces
    obtain ⟨s1, s2, b, e, A, rfl, _, _, hA, hna⟩ := Adj.root_adj hroot hadj
    obtain ⟨toks, T, hlex, htree, hE⟩ := tree_of_print_adj hroot hA hna
    obtain ⟨x, hx, hshape, hfresh⟩ := parse_printed_adj hroot T hE
    exact parseOp_print_core hroot hconf hlex htree hx hshape hfresh

end Einx.Notation
