import EinxModel.Proofs.NotationPrintTree
import EinxModel.Proofs.NotationPrintParse
import EinxModel.Proofs.NotationFinishNF
import EinxModel.Proofs.NotationPrintConflict
import EinxModel.Proofs.NotationPrintShape
/-!
# M1 Notation — re-parsing the printed text of a printable expression (assembly)
-/
namespace Einx.Notation

/-- `parse_op(str(t))` succeeds for a printable `t` and returns `t` up to positions and fresh names. -/
theorem parseOp_print {t : Expr} (h : Printable t = true) : ∃ y, parseOp t.print = .ok y ∧ y.shape = t.shape := by
  simp only [Printable, Bool.and_eq_true, Bool.not_eq_true', List.isEmpty_iff] at h
  obtain ⟨⟨hroot, hadj⟩, hconf⟩ := h
  obtain ⟨toks, T, hlex, htree, hE⟩ := tree_of_print t hroot hadj
  obtain ⟨x, hx, hshape, hfresh⟩ := parse_printed t hroot T hE
  have hpre := preTree_PRoot hroot
  have hq : QRoot x = true := by rw [← QRoot_shape, hshape, QRoot_shape]; exact hpre.1
  obtain ⟨y, hy, hys, hocc⟩ := finish_nf (posForLiteral (lit "->") t.print 0) x hq
  have hc := conflict_free_of_shape hroot hshape hfresh hconf
  refine ⟨y, ?_, ?_⟩
  · rw [parseOp_eq, hlex]
    simp only
    rw [htree]
    simp only
    rw [hx]
    simp only
    rw [hy]
    exact checkBrackets_eq_ok (by rw [hocc]; exact hc)
  · rw [hys, ← canonShape_shape, hshape, canonShape_shape]
    exact hpre.2

end Einx.Notation
