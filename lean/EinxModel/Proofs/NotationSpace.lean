import EinxModel.Proofs.NotationSegment
import EinxModel.Proofs.NotationTree
import EinxModel.Proofs.NotationParseSim
import EinxModel.Proofs.NotationSimBack
/-!
# M1 Notation — `parse_op` ignores a redundant space (assembly of the four layers)
-/
namespace Einx.Notation

/-! ### `ESim` implies equal `shape` -/

mutual
theorem ESim.shape_eq {φ : Nat → Nat} : ∀ (x y : Expr), ESim φ x y → x.shape = y.shape
  | .axis _ v _ _, _, h => by
    cases h with
    | axis hn hv =>
      cases v with
      | none => simp only [Expr.shape, hv rfl]
      | some k => simp only [Expr.shape]
  | .flat i _ _, _, h => by cases h with | flat hi => simp only [Expr.shape, ESim.shape_eq _ _ hi]
  | .brackets i _ _, _, h => by cases h with | brackets hi => simp only [Expr.shape, ESim.shape_eq _ _ hi]
  | .ellipsis i _ _ _, _, h => by cases h with | ellipsis hi => simp only [Expr.shape, ESim.shape_eq _ _ hi]
  | .concat cs _ _, _, h => by cases h with | concat hcs => simp only [Expr.shape, ESimL.shapeL_eq _ _ hcs]
  | .list cs _ _, _, h => by cases h with | list hcs => simp only [Expr.shape, ESimL.shapeL_eq _ _ hcs]
  | .args cs _ _, _, h => by cases h with | args hcs => simp only [Expr.shape, ESimL.shapeL_eq _ _ hcs]
  | .op cs _ _, _, h => by cases h with | op hcs => simp only [Expr.shape, ESimL.shapeL_eq _ _ hcs]
theorem ESimL.shapeL_eq {φ : Nat → Nat} : ∀ (cs cs' : List Expr), ESimL φ cs cs' → shapeL cs = shapeL cs'
  | [], _, h => by cases h; rfl
  | c :: cs, _, h => by
    cases h with
    | cons h1 h2 => simp only [shapeL, ESim.shape_eq _ _ h1, ESimL.shapeL_eq _ _ h2]
end

/-! ### The renumbering of positions caused by one additional character at position `k` -/

/-- Begin positions before `k` stay, the others move one to the right. -/
def shiftAt (k p : Nat) : Nat := if p < k then p else p + 1

theorem shiftAt_injective (k : Nat) : Function.Injective (shiftAt k) := by
  intro a b h
  unfold shiftAt at h
  split at h <;> split at h <;> omega

theorem Forall2.self_of_mem {α : Type} {R : α → α → Prop} : ∀ {l : List α}, (∀ a ∈ l, R a a) → Forall2 R l l
  | [], _ => Forall2.nil
  | a :: l, h => Forall2.cons (h a (by simp)) (Forall2.self_of_mem (fun x hx => h x (List.mem_cons_of_mem _ hx)))

theorem Forall2.imp_mem {α β : Type} {R S : α → β → Prop} : ∀ {l : List α} {l' : List β}, Forall2 R l l' →
    (∀ a ∈ l, ∀ b, R a b → S a b) → Forall2 S l l'
  | [], _, h, _ => by cases h; exact Forall2.nil
  | a :: l, _, h, hRS => by
    cases h with
    | cons h1 h2 =>
      exact Forall2.cons (hRS a (by simp) _ h1) (Forall2.imp_mem h2 (fun x hx => hRS x (List.mem_cons_of_mem _ hx)))

/-! ### Lexer layer: validity of the tokens -/

theorem lex_def (text : Str) : lex text =
    match (segment literals text 0 0 []).find? (fun t => !validToken t.text) with
    | some t => .error (.syntax .invalidToken (posRange (Int.ofNat t.b) (Int.ofNat t.e)) [])
    | none => .ok (segment literals text 0 0 []) := rfl

theorem find_invalid_rel {R : Token → Token → Prop} (hR : ∀ t t', R t t' → t'.text = t.text) :
    ∀ {B B' : List Token}, Forall2 R B B' →
      (∃ t t', B.find? (fun t => !validToken t.text) = some t ∧ B'.find? (fun t => !validToken t.text) = some t') ∨
      (B.find? (fun t => !validToken t.text) = none ∧ B'.find? (fun t => !validToken t.text) = none)
  | [], _, h => by cases h; exact Or.inr ⟨rfl, rfl⟩
  | t :: B, _, h => by
    cases h with
    | cons h1 h2 =>
      simp only [List.find?_cons, hR _ _ h1]
      cases validToken t.text with
      | false => exact Or.inl ⟨_, _, rfl, rfl⟩
      | true => exact find_invalid_rel hR h2

/-- Both texts are rejected by the lexer (invalid token), or both are lexed to the given token lists. -/
theorem lex_insert {text text' : Str} {A B B' : List Token} {sp : Token} {R : Token → Token → Prop}
    (hR : ∀ t t', R t t' → t'.text = t.text)
    (h1 : segment literals text 0 0 [] = A ++ B) (h2 : segment literals text' 0 0 [] = A ++ sp :: B')
    (hsp : sp.text = spaceLit) (hB : Forall2 R B B') :
    (∃ e e', lex text = .error e ∧ lex text' = .error e' ∧ ErrSim e e') ∨
      (lex text = .ok (A ++ B) ∧ lex text' = .ok (A ++ sp :: B')) := by
  rw [lex_def, lex_def, h1, h2, List.find?_append, List.find?_append]
  cases hA : A.find? (fun t => !validToken t.text) with
  | some t => exact Or.inl ⟨_, _, rfl, rfl, rfl⟩
  | none =>
    have hv : validToken sp.text = true := by rw [hsp]; decide
    simp only [Option.none_or, List.find?_cons, hv, Bool.not_true]
    rcases find_invalid_rel hR hB with ⟨t, t', h3, h4⟩ | ⟨h3, h4⟩
    · rw [h3, h4]; exact Or.inl ⟨_, _, rfl, rfl, rfl⟩
    · rw [h3, h4]; exact Or.inr ⟨rfl, rfl⟩

/-! ### Assembly -/

/-- `parse_op` of a text and of the text with one redundant space inserted: the results are equal up to positions and
    the renumbering `shiftAt k` of the fresh ids, or both are errors of the same kind. -/
theorem parseOp_insert (xs ys : Str) (h : RedundantAt xs ys = true) :
    ∃ k, RSim (shiftAt k) (parseOp (xs ++ ys)) (parseOp (xs ++ ' ' :: ys)) := by
  obtain ⟨A, B, B', sp, k, h1, h2, hsp, hA, hB, hBB, hc⟩ := segment_insert xs ys h
  refine ⟨k, ?_⟩
  have hRA : Forall2 (TokRel (shiftAt k)) A A :=
    Forall2.self_of_mem (fun t ht => ⟨rfl, by simp [shiftAt, hA t ht]⟩)
  have hRB : Forall2 (TokRel (shiftAt k)) B B' :=
    Forall2.imp_mem hBB (fun t ht t' htt => ⟨htt.1, by
      have := hB t ht
      rw [htt.2]
      unfold shiftAt
      rw [if_neg (by omega)]⟩)
  rw [parseOp_eq, parseOp_eq]
  rcases lex_insert (fun _ _ h => h.1) h1 h2 hsp hBB with ⟨e, e', he, he', hee⟩ | ⟨hl, hl'⟩
  · rw [he, he']; exact hee
  · rw [hl, hl']
    simp only
    have ht := tree_insert (shiftAt k) A A B B' sp hRA hRB hsp hc
    cases hT : buildTree (dedupSpaces (A ++ B) false) [] [] with
    | error e =>
      rw [hT] at ht
      cases hT' : buildTree (dedupSpaces (A ++ sp :: B') false) [] [] with
      | error e' => rw [hT'] at ht; exact ht
      | ok T' => rw [hT'] at ht; exact ht.elim
    | ok T =>
      rw [hT] at ht
      cases hT' : buildTree (dedupSpaces (A ++ sp :: B') false) [] [] with
      | error e' => rw [hT'] at ht; exact ht.elim
      | ok T' =>
        rw [hT'] at ht
        simp only
        have hp := parse_rel (φ := shiftAt k) T 0 (lastEnd T 0) false T' 0 (lastEnd T' 0) ht
        cases hP : parse T 0 (lastEnd T 0) false with
        | error e =>
          rw [hP] at hp
          obtain ⟨e', he', hee⟩ := hp.error_left
          rw [he']; exact hee
        | ok x =>
          rw [hP] at hp
          obtain ⟨y, hy, hxy⟩ := hp.ok_left
          rw [hy]
          exact finish_sim (shiftAt_injective k) _ _ hxy

end Einx.Notation
