import EinxModel.Exec.View
import EinxModel.Proofs.CompileOrder
/-! Helper lemmas for `Props/C13Exec.lean`: structural facts about the translation `toV` (which tracers a translated value
mentions), about pytrees of tracers (`isVarTree`) and the keys the generator registers for them. -/
namespace Einx.Exec
open Einx.Compile Einx.Factory

theorem mem_refsL (vs : List V) (r : Nat) : r ∈ refsL vs ↔ ∃ v ∈ vs, r ∈ v.refs := by
  induction vs with
  | nil => simp [refsL]
  | cons v rest ih => simp [refsL, ih]

theorem toVL_eq (a : E) : toVL a = a.toList.map toV := by
  induction a with
  | cons h t _ iht => simp [toVL, E.toList, iht]
  | _ => simp [toVL, E.toList]

theorem mem_refs_toVL (a : E) (r : Nat) : r ∈ refsL (toVL a) ↔ ∃ o ∈ a.toList, r ∈ (toV o).refs := by
  rw [toVL_eq, mem_refsL]
  constructor
  · rintro ⟨v, hv, hr⟩
    obtain ⟨o, ho, rfl⟩ := List.mem_map.1 hv
    exact ⟨o, ho, hr⟩
  · rintro ⟨o, ho, hr⟩
    exact ⟨toV o, List.mem_map.2 ⟨o, ho, rfl⟩, hr⟩

theorem mem_refsL_map (l : List E) (r : Nat) : r ∈ refsL (l.map toV) ↔ ∃ o ∈ l, r ∈ (toV o).refs := by
  rw [mem_refsL]
  constructor
  · rintro ⟨v, hv, hr⟩
    obtain ⟨o, ho, rfl⟩ := List.mem_map.1 hv
    exact ⟨o, ho, hr⟩
  · rintro ⟨o, ho, hr⟩
    exact ⟨toV o, List.mem_map.2 ⟨o, ho, rfl⟩, hr⟩

theorem mem_evens_odds {α : Type} (x : α) : ∀ (n : Nat) (l : List α), l.length ≤ n → (x ∈ evens l ++ odds l ↔ x ∈ l) := by
  intro n
  induction n with
  | zero =>
    intro l hl
    have : l = [] := List.length_eq_zero_iff.1 (by omega)
    subst this
    simp [evens, odds]
  | succ n ih =>
    intro l hl
    match l with
    | [] => simp [evens, odds]
    | [a] => simp [evens, odds]
    | a :: b :: rest =>
      have := ih rest (by simp at hl; omega)
      simp only [evens, odds, List.mem_append, List.mem_cons] at this ⊢
      constructor
      · rintro ((h | h) | (h | h))
        · exact Or.inl h
        · exact Or.inr (Or.inr (this.1 (Or.inl h)))
        · exact Or.inr (Or.inl h)
        · exact Or.inr (Or.inr (this.1 (Or.inr h)))
      · rintro (h | h | h)
        · exact Or.inl (Or.inl h)
        · exact Or.inr (Or.inl h)
        · rcases this.2 h with h | h
          · exact Or.inl (Or.inr h)
          · exact Or.inr (Or.inr h)

theorem mem_refsL_evens_odds (l : List V) (r : Nat) : r ∈ refsL (evens l ++ odds l) ↔ r ∈ refsL l := by
  rw [mem_refsL, mem_refsL]
  constructor
  · rintro ⟨v, hv, hr⟩
    exact ⟨v, (mem_evens_odds v l.length l (Nat.le_refl _)).1 hv, hr⟩
  · rintro ⟨v, hv, hr⟩
    exact ⟨v, (mem_evens_odds v l.length l (Nat.le_refl _)).2 hv, hr⟩

theorem mem_refsL_padSlice (r : Nat) : ∀ (fs : List Bool) (ps : List V), r ∈ refsL (padSlice fs ps) ↔ r ∈ refsL ps := by
  intro fs
  induction fs with
  | nil => intro ps; rw [padSlice]
  | cons f fs ih =>
    intro ps
    cases f with
    | true =>
      cases ps with
      | nil => rw [padSlice]; exact ih []
      | cons p ps => rw [padSlice]; simp only [refsL, List.mem_append, ih ps]
    | false =>
      rw [padSlice]
      simp only [refsL, V.refs, List.nil_append, ih ps]

theorem toV_tuple (a : E) : toV (.node .tuple a) = .seq "tuple" (toVL a) := by simp [toV]
theorem toV_list (a : E) : toV (.node .list a) = .seq "list" (toVL a) := by simp [toV]
theorem toV_dict (a : E) : toV (.node .dict a) = .seq "dict" (evens (toVL a) ++ odds (toVL a)) := by simp [toV]
theorem toV_slice (x y z : Bool) (a : E) : toV (.node (.slice x y z) a) = .seq "slice" (padSlice [x, y, z] (toVL a)) := by
  simp [toV]

theorem mem_refs_tuple (a : E) (r : Nat) : r ∈ (toV (.node .tuple a)).refs ↔ ∃ o ∈ a.toList, r ∈ (toV o).refs := by
  rw [toV_tuple]; simp only [V.refs]; exact mem_refs_toVL a r

theorem mem_refs_list (a : E) (r : Nat) : r ∈ (toV (.node .list a)).refs ↔ ∃ o ∈ a.toList, r ∈ (toV o).refs := by
  rw [toV_list]; simp only [V.refs]; exact mem_refs_toVL a r

theorem mem_refs_dict (a : E) (r : Nat) : r ∈ (toV (.node .dict a)).refs ↔ ∃ o ∈ a.toList, r ∈ (toV o).refs := by
  rw [toV_dict]; simp only [V.refs]; rw [mem_refsL_evens_odds]; exact mem_refs_toVL a r

theorem mem_refs_slice (x y z : Bool) (a : E) (r : Nat) :
    r ∈ (toV (.node (.slice x y z) a)).refs ↔ ∃ o ∈ a.toList, r ∈ (toV o).refs := by
  rw [toV_slice]; simp only [V.refs]; rw [mem_refsL_padSlice]; exact mem_refs_toVL a r

/-- The tracers a translated container mentions are those of its elements (as the generator enumerates them). -/
theorem mem_refs_node (tag : Tag) (a : E) (r : Nat) (hr : r ∈ (toV (.node tag a)).refs) :
    ∃ o ∈ a.toList, r ∈ (toV o).refs := by
  cases tag with
  | tuple => exact (mem_refs_tuple a r).1 hr
  | list => exact (mem_refs_list a r).1 hr
  | dict => exact (mem_refs_dict a r).1 hr
  | slice x y z => exact (mem_refs_slice x y z a r).1 hr
  | _ => simp [toV, V.refs] at hr

theorem refs_lit (s : String) : (toV (.lit s)).refs = [] := by
  simp only [toV]; cases litKind s <;> simp [V.refs]

theorem refs_var (t : Nat) : (toV (.var t)).refs = [t] := by simp [toV, V.refs]

theorem refs_gref (k : Nat) : (toV (.gref k)).refs = [] := by simp [toV, V.refs]

/-! ### Operands: what the generator asks for = what the translated node consumes -/

def sliceFlat : E → List E
  | .node (.slice ..) a => a.toList
  | p => [p]

theorem mem_refs_sliceFlat (p : E) (r : Nat) : r ∈ (toV p).refs ↔ ∃ o ∈ sliceFlat p, r ∈ (toV o).refs := by
  cases p with
  | node tag a =>
    cases tag with
    | slice x y z => simp only [sliceFlat]; exact mem_refs_slice x y z a r
    | _ => simp [sliceFlat]
  | _ => simp [sliceFlat]

theorem mem_refs_key (key : E) (r : Nat) :
    r ∈ (toV key).refs ↔ ∃ o ∈ (keyParts key).flatMap sliceFlat, r ∈ (toV o).refs := by
  have single : ∀ k : E, keyParts k = [k] →
      (r ∈ (toV k).refs ↔ ∃ o ∈ (keyParts k).flatMap sliceFlat, r ∈ (toV o).refs) := by
    intro k hk
    rw [hk]
    simpa using mem_refs_sliceFlat k r
  cases key with
  | node tag a =>
    cases tag with
    | tuple =>
      simp only [keyParts, List.mem_flatMap]
      rw [mem_refs_tuple]
      constructor
      · rintro ⟨p, hp, hr⟩
        obtain ⟨o, ho, hro⟩ := (mem_refs_sliceFlat p r).1 hr
        exact ⟨o, ⟨p, hp, ho⟩, hro⟩
      · rintro ⟨o, ⟨p, hp, ho⟩, hro⟩
        exact ⟨p, hp, (mem_refs_sliceFlat p r).2 ⟨o, ho, hro⟩⟩
    | _ => exact single _ rfl
  | _ => exact single _ rfl

theorem genOperands_getitem (obj key : E) (out : Nat) :
    (App.getitem obj key out).genOperands = obj :: (keyParts key).flatMap sliceFlat := by
  simp only [App.genOperands]
  congr 2

theorem genOperands_updateitem (obj key value : E) (op : String) (out : Nat) :
    (App.updateitem obj key value op out).genOperands = obj :: (keyParts key).flatMap sliceFlat ++ [value, obj] := by
  simp only [App.genOperands]
  congr 3

theorem mem_refsL_cons (v : V) (vs : List V) (r : Nat) : r ∈ refsL (v :: vs) ↔ r ∈ v.refs ∨ r ∈ refsL vs := by
  simp [refsL]

theorem mem_refsL_append (l1 l2 : List V) (r : Nat) : r ∈ refsL (l1 ++ l2) ↔ r ∈ refsL l1 ∨ r ∈ refsL l2 := by
  induction l1 with
  | nil => simp [refsL]
  | cons v rest ih => simp [refsL, ih, or_assoc]

theorem mem_refsL_nil (r : Nat) : r ∈ refsL [] ↔ False := by simp [refsL]

/-- `r` is mentioned by one of the values `l`. -/
def Ment (r : Nat) (l : List E) : Prop := ∃ o ∈ l, r ∈ (toV o).refs

theorem ment_cons (r : Nat) (x : E) (l : List E) : Ment r (x :: l) ↔ r ∈ (toV x).refs ∨ Ment r l := by
  simp [Ment]

theorem ment_append (r : Nat) (l1 l2 : List E) : Ment r (l1 ++ l2) ↔ Ment r l1 ∨ Ment r l2 := by
  simp only [Ment, List.mem_append]
  constructor
  · rintro ⟨o, (ho | ho), hr⟩
    · exact Or.inl ⟨o, ho, hr⟩
    · exact Or.inr ⟨o, ho, hr⟩
  · rintro (⟨o, ho, hr⟩ | ⟨o, ho, hr⟩)
    · exact ⟨o, Or.inl ho, hr⟩
    · exact ⟨o, Or.inr ho, hr⟩

theorem ment_nil (r : Nat) : Ment r [] ↔ False := by simp [Ment]

theorem ment_map (r : Nat) (l : List E) : r ∈ refsL (l.map toV) ↔ Ment r l := mem_refsL_map l r

theorem kw_vals (kwargs : List (String × E)) :
    (kwargs.map (fun kv => (kv.1, toV kv.2))).map (·.2) = (kwargs.map (·.2)).map toV := by
  simp [List.map_map, Function.comp_def]

/-- **Operands agree**: the tracers the translated node consumes (C13: `GNode.operands`) are exactly those of the values
the generator asks expressions for (C04: `App.genOperands`); additional dependencies are operands of neither. -/
theorem operand_refs (a : App) (r : Nat) :
    r ∈ refsL (toNode a).operands ↔ ∃ o ∈ a.genOperands, r ∈ (toV o).refs := by
  show _ ↔ Ment r a.genOperands
  cases a with
  | call fn args kwargs deps out =>
    simp only [toNode, GNode.operands, App.genOperands, kw_vals, List.cons_append, mem_refsL_cons, mem_refsL_append,
      ment_map, ment_cons, ment_append]
  | callInplace xs fn args kwargs deps out =>
    simp only [toNode, GNode.operands, App.genOperands, kw_vals, List.cons_append, List.nil_append, mem_refsL_cons,
      mem_refsL_append, ment_map, ment_cons, ment_append]
  | getattr obj key out =>
    simp only [toNode, GNode.operands, App.genOperands, mem_refsL_cons, mem_refsL_nil, ment_cons, ment_nil]
  | getitem obj key out =>
    rw [genOperands_getitem]
    simp only [toNode, GNode.operands, mem_refsL_cons, mem_refsL_nil, ment_cons, or_false]
    rw [mem_refs_key key]
    rfl
  | updateitem obj key value op out =>
    rw [genOperands_updateitem]
    simp only [toNode, GNode.operands, mem_refsL_cons, mem_refsL_nil, ment_cons, ment_append,
      ment_nil, or_false, List.cons_append]
    rw [mem_refs_key key]
    show _ ∨ Ment r _ ∨ _ ↔ _
    constructor
    · rintro (h | h | h)
      · exact Or.inl h
      · exact Or.inr (Or.inl h)
      · exact Or.inr (Or.inr (Or.inl h))
    · rintro (h | h | h | h)
      · exact Or.inl h
      · exact Or.inr (Or.inl h)
      · exact Or.inr (Or.inr h)
      · exact Or.inl h
  | import_ imp from_ as_ out => simp only [toNode, GNode.operands, App.genOperands, mem_refsL_nil, ment_nil]
  | operator op operands out => simp only [toNode, GNode.operands, App.genOperands, ment_map]
  | builtin name out => simp only [toNode, GNode.operands, App.genOperands, mem_refsL_nil, ment_nil]
  | assert_ xs cond msg out =>
    simp only [toNode, GNode.operands, App.genOperands, mem_refsL_cons, mem_refsL_nil, ment_cons, ment_nil]
  | constant str out => simp only [toNode, GNode.operands, App.genOperands, mem_refsL_nil, ment_nil]
  | cast input out =>
    simp only [toNode, GNode.operands, App.genOperands, mem_refsL_cons, mem_refsL_nil, ment_cons, ment_nil]

/-! ### Pytrees of tracers and their keys -/

theorem varTree_props (o : E) :
    (isVarTree o = true →
      (∃ k, keyOf o = some k) ∧
      (∀ r, E.var r ∈ regKeys o ↔ r ∈ (toV o).refs) ∧
      (∀ x, keyOf x = keyOf o → (toV x).refs = (toV o).refs) ∧
      (∀ k ∈ regKeys o, ∃ o', isVarTree o' = true ∧ keyOf o' = some k ∧ ∀ r ∈ (toV o').refs, E.var r ∈ regKeys o)) ∧
    (isVarTreeL o = true →
      (∀ r, E.var r ∈ regKeys.regKeysL o ↔ r ∈ refsL (toVL o)) ∧
      (∀ x, keyOf.keyL x = keyOf.keyL o → refsL (toVL x) = refsL (toVL o)) ∧
      (∀ k ∈ regKeys.regKeysL o, ∃ o', isVarTree o' = true ∧ keyOf o' = some k ∧ ∀ r ∈ (toV o').refs, E.var r ∈ regKeys.regKeysL o)) := by
  induction o with
  | var t =>
    refine ⟨fun _ => ⟨⟨_, rfl⟩, ?_, ?_, ?_⟩, fun h => by simp [isVarTreeL] at h⟩
    · intro r; simp [regKeys, keyOf, refs_var]
    · intro x hx
      cases x with
      | var t' => simp only [keyOf, Option.some.injEq, E.var.injEq] at hx; rw [hx]
      | gref g => simp [keyOf] at hx
      | node tag a => cases tag <;> simp [keyOf] at hx
      | _ => simp [keyOf] at hx
    · intro k hk
      simp only [regKeys, keyOf, Option.toList, List.mem_singleton] at hk
      subst hk
      exact ⟨.var t, rfl, rfl, by intro r hr; simp [regKeys, keyOf]; simpa [refs_var] using hr⟩
  | lit s => exact ⟨fun h => by simp [isVarTree] at h, fun h => by simp [isVarTreeL] at h⟩
  | gref g => exact ⟨fun h => by simp [isVarTree] at h, fun h => by simp [isVarTreeL] at h⟩
  | nil =>
    refine ⟨fun h => by simp [isVarTree] at h, fun _ => ⟨?_, ?_, ?_⟩⟩
    · intro r; simp [regKeys.regKeysL, toVL, refsL]
    · intro x hx
      cases x with
      | cons h t => simp [keyOf.keyL] at hx
      | _ => simp [toVL]
    · intro k hk; simp [regKeys.regKeysL] at hk
  | cons h t ihh iht =>
    refine ⟨fun hv => by simp [isVarTree] at hv, fun hv => ?_⟩
    simp only [isVarTreeL, Bool.and_eq_true] at hv
    obtain ⟨⟨kh, hkh⟩, h1, h2, h3⟩ := ihh.1 hv.1
    obtain ⟨t1, t2, t3⟩ := iht.2 hv.2
    refine ⟨?_, ?_, ?_⟩
    · intro r
      simp only [regKeys.regKeysL, toVL, refsL, List.mem_append, h1 r, t1 r]
    · intro x hx
      cases x with
      | cons h' t' =>
        simp only [keyOf.keyL, E.cons.injEq] at hx
        obtain ⟨hx1, hx2⟩ := hx
        have hk' : keyOf h' = keyOf h := by
          rw [hkh] at hx1 ⊢
          cases hh' : keyOf h' with
          | some k' => simpa [hh'] using hx1
          | none =>
            simp only [hh', Option.getD_none, Option.getD_some] at hx1
            -- the key of a pytree of tracers is never the scalar placeholder
            exfalso
            cases h with
            | var t0 => simp [keyOf] at hkh; rw [← hkh] at hx1; cases hx1
            | node tag a =>
              cases tag <;> simp [isVarTree] at hv <;> simp [keyOf] at hkh <;> (rw [← hkh] at hx1; cases hx1)
            | _ => simp [isVarTree] at hv
        simp only [toVL, refsL, h2 h' hk', t2 t' hx2]
      | _ => simp [keyOf.keyL] at hx
    · intro k hk
      simp only [regKeys.regKeysL, List.mem_append] at hk
      rcases hk with hk | hk
      · obtain ⟨o', a1, a2, a3⟩ := h3 k hk
        exact ⟨o', a1, a2, fun r hr => by simp only [regKeys.regKeysL, List.mem_append]; exact Or.inl (a3 r hr)⟩
      · obtain ⟨o', a1, a2, a3⟩ := t3 k hk
        exact ⟨o', a1, a2, fun r hr => by simp only [regKeys.regKeysL, List.mem_append]; exact Or.inr (a3 r hr)⟩
  | node tag a ih =>
    refine ⟨fun hv => ?_, fun hv => by simp [isVarTreeL] at hv⟩
    have key : ∀ (tg : Tag), (tg = .tuple ∨ tg = .list) → isVarTreeL a = true →
        (∃ k, keyOf (.node tg a) = some k) ∧
        (∀ r, E.var r ∈ regKeys (.node tg a) ↔ r ∈ (toV (.node tg a)).refs) ∧
        (∀ x, keyOf x = keyOf (.node tg a) → (toV x).refs = (toV (.node tg a)).refs) ∧
        (∀ k ∈ regKeys (.node tg a), ∃ o', isVarTree o' = true ∧ keyOf o' = some k ∧
          ∀ r ∈ (toV o').refs, E.var r ∈ regKeys (.node tg a)) := by
      intro tg htg hva
      obtain ⟨t1, t2, t3⟩ := ih.2 hva
      have hrefs : (toV (.node tg a)).refs = refsL (toVL a) := by
        rcases htg with rfl | rfl <;> simp [toV, V.refs]
      have hkey : keyOf (.node tg a) = some (.node tg (keyOf.keyL a)) := by
        rcases htg with rfl | rfl <;> simp [keyOf]
      have hreg : regKeys (.node tg a) = [E.node tg (keyOf.keyL a)] ++ regKeys.regKeysL a := by
        rcases htg with rfl | rfl <;> simp [regKeys, keyOf]
      refine ⟨⟨_, hkey⟩, ?_, ?_, ?_⟩
      · intro r
        rw [hreg, hrefs]
        simp only [List.mem_append, List.mem_singleton, reduceCtorEq, false_or]
        exact t1 r
      · intro x hx
        rw [hkey] at hx
        rw [hrefs]
        cases x with
        | node tag' a' =>
          have : tag' = tg ∧ keyOf.keyL a' = keyOf.keyL a := by
            cases tag' <;> simp [keyOf] at hx <;> (rcases htg with rfl | rfl <;> simp_all)
          obtain ⟨rfl, hk⟩ := this
          have hrefs' : (toV (.node tag' a')).refs = refsL (toVL a') := by
            rcases htg with rfl | rfl <;> simp [toV, V.refs]
          rw [hrefs', t2 a' hk]
        | var t0 => simp [keyOf] at hx
        | gref g0 => simp [keyOf] at hx
        | _ => simp [keyOf] at hx
      · intro k hk
        rw [hreg] at hk
        simp only [List.mem_append, List.mem_singleton] at hk
        rcases hk with rfl | hk
        · refine ⟨.node tg a, ?_, hkey, ?_⟩
          · rcases htg with rfl | rfl <;> simpa [isVarTree] using hva
          · intro r hr
            rw [hrefs] at hr
            rw [hreg]
            exact List.mem_append_right _ ((t1 r).2 hr)
        · obtain ⟨o', a1, a2, a3⟩ := t3 k hk
          exact ⟨o', a1, a2, fun r hr => by rw [hreg]; exact List.mem_append_right _ (a3 r hr)⟩
    cases tag with
    | tuple => exact key .tuple (Or.inl rfl) (by simpa [isVarTree] using hv)
    | list => exact key .list (Or.inr rfl) (by simpa [isVarTree] using hv)
    | _ => simp [isVarTree] at hv

theorem varTree_regKeys_iff (o : E) (h : isVarTree o = true) (r : Nat) : E.var r ∈ regKeys o ↔ r ∈ (toV o).refs :=
  ((varTree_props o).1 h).2.1 r

theorem varTree_key_refs (o x : E) (h : isVarTree o = true) (hx : keyOf x = keyOf o) : (toV x).refs = (toV o).refs :=
  ((varTree_props o).1 h).2.2.1 x hx

theorem varTree_regKeys_sub (o : E) (h : isVarTree o = true) (k : E) (hk : k ∈ regKeys o) :
    ∃ o', isVarTree o' = true ∧ keyOf o' = some k ∧ ∀ r ∈ (toV o').refs, E.var r ∈ regKeys o :=
  ((varTree_props o).1 h).2.2.2 k hk

end Einx.Exec
