import EinxModel.Proofs.CseTreesDecl
/-!
Helper lemmas for `Props/C02Cse.lean`, part 4: the meaning of `forestSys`; the replacement of all roots; `sameShape`.
-/
namespace Einx.Solve.CseT
open Einx.Solve

/-! ### the equations of `forestSys` by their meaning -/

/-- the values of the root-level entries of an expression (`None` stays `None`) -/
def rootVals (σ : Var → Nat) : Option VExpr → Option (List Nat)
  | none => none
  | some r => some (evalVL σ (items r))

/-- "same root values" on the values: paired entries that are both present are equal -/
def ValsOK (vs : List (Option (List Nat))) : Prop :=
  ∀ p ∈ List.zip (vs.take (vs.length / 2)) (vs.drop (vs.length / 2)), ∀ a b, p = (some a, some b) → a = b

theorem zipEqns_hold (σ : Var → Nat) : ∀ (xs ys : List VExpr), xs.length = ys.length →
    ((∀ e ∈ List.zipWith (fun p q => (⟨polyOf p, polyOf q⟩ : Eqn)) xs ys, evalPoly σ e.lhs = evalPoly σ e.rhs) ↔
      evalVL σ xs = evalVL σ ys)
  | [], [], _ => by simp [evalVL]
  | x :: xs, y :: ys, h => by
    have ih := zipEqns_hold σ xs ys (by simpa using h)
    simp only [List.zipWith_cons_cons, List.mem_cons, forall_eq_or_imp, evalPoly_polyOf, evalVL, List.cons.injEq, ih]
  | [], _ :: _, h => by simp at h
  | _ :: _, [], h => by simp at h

theorem pairEqns_hold (σ : Var → Nat) (a b : Option VExpr) :
    (∀ e ∈ pairEqns a b, evalPoly σ e.lhs = evalPoly σ e.rhs) ↔
      (∀ x y, rootVals σ a = some x → rootVals σ b = some y → x = y) := by
  cases a with
  | none => simp [pairEqns, rootVals]
  | some x =>
    cases b with
    | none => simp [pairEqns, rootVals]
    | some y =>
      have hsimp : (∀ a b : List Nat, rootVals σ (some x) = some a → rootVals σ (some y) = some b → a = b) ↔
          evalVL σ (items x) = evalVL σ (items y) := by
        simp only [rootVals, Option.some.injEq]
        exact ⟨fun h => h _ _ rfl rfl, fun h a b ha hb => by rw [← ha, ← hb, h]⟩
      rw [hsimp]
      simp only [pairEqns]
      split
      · rename_i hl
        exact zipEqns_hold σ _ _ hl
      · rename_i hl
        constructor
        · intro h
          have := h contraEqn (List.mem_singleton.mpr rfl)
          simp [contraEqn, evalPoly, evalMono, prodVars] at this
        · intro h
          exfalso; apply hl
          have := congrArg List.length h
          simpa [evalVL_length] using this

theorem mem_zipWith_iff {α β γ : Type} (f : α → β → γ) (l₁ : List α) (l₂ : List β) (c : γ) :
    c ∈ List.zipWith f l₁ l₂ ↔ ∃ p ∈ List.zip l₁ l₂, c = f p.1 p.2 := by
  induction l₁ generalizing l₂ with
  | nil => simp
  | cons a as ih =>
    cases l₂ with
    | nil => simp
    | cons b bs =>
      simp only [List.zipWith_cons_cons, List.mem_cons, List.zip_cons_cons, ih]
      constructor
      · rintro (h | ⟨p, hp, h⟩)
        · exact ⟨(a, b), Or.inl rfl, h⟩
        · exact ⟨p, Or.inr hp, h⟩
      · rintro ⟨p, hp | hp, h⟩
        · subst hp; exact Or.inl h
        · exact Or.inr ⟨p, hp, h⟩

/-- the equations of `forestSys rs` hold under `σ` iff paired roots have the same entry values -/
theorem forestSys_eqns_iff (σ : Var → Nat) (rs : List (Option VExpr)) :
    (∀ e ∈ (forestSys rs).eqns, evalPoly σ e.lhs = evalPoly σ e.rhs) ↔ ValsOK (rs.map (rootVals σ)) := by
  simp only [forestSys, List.mem_flatten, mem_zipWith_iff, ValsOK, List.length_map]
  rw [← List.map_take, ← List.map_drop, List.zip_map, List.forall_mem_map]
  constructor
  · intro h p hp a b hab
    simp only [Prod.map, Prod.mk.injEq] at hab
    have := (pairEqns_hold σ p.1 p.2).mp (fun e he => h e ⟨_, ⟨p, hp, rfl⟩, he⟩)
    exact this a b hab.1 hab.2
  · rintro h e ⟨l, ⟨p, hp, rfl⟩, he⟩
    refine (pairEqns_hold σ p.1 p.2).mpr (fun x y hx hy => ?_) e he
    exact h p hp x y (by simp [Prod.map, hx, hy])

theorem sat_forestSys_iff (σ : Var → Nat) (rs : List (Option VExpr)) :
    Sat (forestSys rs) σ ↔ (∀ p ∈ rootDecls rs, p.2 ≤ σ p.1) ∧ ValsOK (rs.map (rootVals σ)) := by
  unfold Sat
  rw [forestSys_eqns_iff]
  simp [forestSys]

/-! ### all roots -/

theorem roots_spec (cands : List Cand) (σ σ' : Var → Nat) : ∀ (rs : List (Option VExpr)) (k : Nat) (out : List (Option VExpr)),
    replaceRoots cands k rs = .ok out → wfForest rs = true →
    (∀ ev ∈ traceRoots cands k rs, GoodEv σ σ' ev) →
    out.map (rootVals σ') = rs.map (rootVals σ)
  | [], k, out => by
    intro h _ _
    simp only [replaceRoots, replaceRootsM] at h
    have := pure_ok.mp h; subst this; rfl
  | none :: rs, k, out => by
    intro h hwf hg
    simp only [replaceRoots, replaceRootsM] at h
    obtain ⟨o, ho, hp⟩ := bind_ok.mp h
    have := pure_ok.mp hp; subst this
    simp only [traceRoots] at hg
    have ih := roots_spec cands σ σ' rs (k + 1) o ho (by simpa [wfForest] using hwf) hg
    simp [rootVals, ih]
  | some r :: rs, k, out => by
    intro h hwf hg
    simp only [replaceRoots, replaceRootsM] at h
    obtain ⟨a, ha, h2⟩ := bind_ok.mp h
    obtain ⟨o, ho, hp⟩ := bind_ok.mp h2
    have := pure_ok.mp hp; subst this
    simp only [traceRoots] at hg
    simp only [wfForest, List.all_cons, Bool.and_eq_true] at hwf
    have ih := roots_spec cands σ σ' rs (k + 1) o ho (by simpa [wfForest] using hwf.2)
      (fun ev hev => hg ev (List.mem_append_right _ hev))
    obtain ⟨_, h1, _⟩ := rNode (matchNode cands) (matchAt cands) σ σ' r true [k] a hwf.1 ha
      (fun ev hev => hg ev (List.mem_append_left _ hev))
    simp only [List.map_cons, rootVals, ih, (mkList_spec σ' a).2.1, h1 rfl]

theorem roots_decls (cands : List Cand) : ∀ (rs : List (Option VExpr)) (k : Nat) (out : List (Option VExpr)),
    replaceRoots cands k rs = .ok out → (∀ ev ∈ traceRoots cands k rs, EvPos ev) →
    rootDecls out = (traceRoots cands k rs).flatMap outDecls ∧ rootDecls rs = (traceRoots cands k rs).flatMap inDecls
  | [], k, out => by
    intro h _
    simp only [replaceRoots, replaceRootsM] at h
    have := pure_ok.mp h; subst this; simp [rootDecls, traceRoots]
  | none :: rs, k, out => by
    intro h hg
    simp only [replaceRoots, replaceRootsM] at h
    obtain ⟨o, ho, hp⟩ := bind_ok.mp h
    have := pure_ok.mp hp; subst this
    simp only [traceRoots] at hg ⊢
    simpa [rootDecls] using roots_decls cands rs (k + 1) o ho hg
  | some r :: rs, k, out => by
    intro h hg
    simp only [replaceRoots, replaceRootsM] at h
    obtain ⟨a, ha, h2⟩ := bind_ok.mp h
    obtain ⟨o, ho, hp⟩ := bind_ok.mp h2
    have := pure_ok.mp hp; subst this
    simp only [traceRoots] at hg ⊢
    obtain ⟨ih1, ih2⟩ := roots_decls cands rs (k + 1) o ho (fun ev hev => hg ev (List.mem_append_right _ hev))
    obtain ⟨h1, h2⟩ := dNode (matchNode cands) (matchAt cands) r true [k] a ha
      (fun ev hev => hg ev (List.mem_append_left _ hev))
    simp only [rootDecls, List.flatMap_append, (mkList_spec (fun _ => 0) a).2.2, h1, h2, ih1, ih2, and_self]

/-! ### `sameShape` -/

mutual
theorem eraseValued_spec (σ : Var → Nat) : ∀ e : VExpr,
    evalV σ (eraseValued e) = evalV σ e ∧ freeAxes (eraseValued e) = freeAxes e
  | .axis n none m => by simp [eraseValued]
  | .axis n (some v) m => by simp [eraseValued, evalV, freeAxes]
  | .flat e => by simpa [eraseValued, evalV, freeAxes] using eraseValued_spec σ e
  | .brackets e => by simpa [eraseValued, evalV, freeAxes] using eraseValued_spec σ e
  | .list cs => by
    obtain ⟨h1, h2⟩ := eraseValuedL_spec σ cs
    simp [eraseValued, evalV, freeAxes, h1, h2]
  | .concat cs => by
    obtain ⟨h1, h2⟩ := eraseValuedL_spec σ cs
    simp [eraseValued, evalV, freeAxes, h1, h2]
theorem eraseValuedL_spec (σ : Var → Nat) : ∀ cs : List VExpr,
    evalVL σ (eraseValuedL cs) = evalVL σ cs ∧ freeAxesL (eraseValuedL cs) = freeAxesL cs
  | [] => by simp [eraseValuedL]
  | c :: cs => by
    obtain ⟨h1, h2⟩ := eraseValued_spec σ c
    obtain ⟨g1, g2⟩ := eraseValuedL_spec σ cs
    simp [eraseValuedL, evalVL, freeAxesL, h1, h2, g1, g2]
end

mutual
theorem beqV_eq : ∀ a b : VExpr, beqV a b = true → a = b
  | .axis n v m, .axis n' v' m' => by
    intro h; simp only [beqV, Bool.and_eq_true, beq_iff_eq] at h
    obtain ⟨⟨rfl, rfl⟩, rfl⟩ := h; rfl
  | .list cs, .list cs' => by intro h; simp only [beqV] at h; rw [beqVL_eq cs cs' h]
  | .flat e, .flat e' => by intro h; simp only [beqV] at h; rw [beqV_eq e e' h]
  | .concat cs, .concat cs' => by intro h; simp only [beqV] at h; rw [beqVL_eq cs cs' h]
  | .brackets e, .brackets e' => by intro h; simp only [beqV] at h; rw [beqV_eq e e' h]
  | .axis _ _ _, .list _ => by simp [beqV]
  | .axis _ _ _, .flat _ => by simp [beqV]
  | .axis _ _ _, .concat _ => by simp [beqV]
  | .axis _ _ _, .brackets _ => by simp [beqV]
  | .list _, .axis _ _ _ => by simp [beqV]
  | .list _, .flat _ => by simp [beqV]
  | .list _, .concat _ => by simp [beqV]
  | .list _, .brackets _ => by simp [beqV]
  | .flat _, .axis _ _ _ => by simp [beqV]
  | .flat _, .list _ => by simp [beqV]
  | .flat _, .concat _ => by simp [beqV]
  | .flat _, .brackets _ => by simp [beqV]
  | .concat _, .axis _ _ _ => by simp [beqV]
  | .concat _, .list _ => by simp [beqV]
  | .concat _, .flat _ => by simp [beqV]
  | .concat _, .brackets _ => by simp [beqV]
  | .brackets _, .axis _ _ _ => by simp [beqV]
  | .brackets _, .list _ => by simp [beqV]
  | .brackets _, .flat _ => by simp [beqV]
  | .brackets _, .concat _ => by simp [beqV]
theorem beqVL_eq : ∀ a b : List VExpr, beqVL a b = true → a = b
  | [], [] => by simp
  | c :: cs, c' :: cs' => by
    intro h; simp only [beqVL, Bool.and_eq_true] at h
    rw [beqV_eq c c' h.1, beqVL_eq cs cs' h.2]
  | [], _ :: _ => by simp [beqVL]
  | _ :: _, [] => by simp [beqVL]
end

theorem unwrap1_spec (σ : Var → Nat) (e : VExpr) :
    evalV σ (unwrap1 e) = evalV σ e ∧ freeAxes (unwrap1 e) = freeAxes e := by
  unfold unwrap1
  split
  · simp [evalV, evalVL, natProd, freeAxes, freeAxesL]
  · exact ⟨rfl, rfl⟩

/-- two sub-expressions of the same shape have the same value under every assignment and the same unknown axes -/
theorem sameShape_spec {e e' : VExpr} (h : sameShape e e' = true) (σ : Var → Nat) :
    evalV σ e = evalV σ e' ∧ freeAxes e = freeAxes e' := by
  have := beqV_eq _ _ h
  obtain ⟨a1, a2⟩ := eraseValued_spec σ (unwrap1 e)
  obtain ⟨b1, b2⟩ := eraseValued_spec σ (unwrap1 e')
  obtain ⟨c1, c2⟩ := unwrap1_spec σ e
  obtain ⟨d1, d2⟩ := unwrap1_spec σ e'
  rw [← c1, ← c2, ← d1, ← d2, ← a1, ← a2, ← b1, ← b2, this]; exact ⟨rfl, rfl⟩

mutual
theorem valueOf_some_free : ∀ (e : VExpr) (v : Nat), valueOf e = some v → freeAxes e = []
  | .axis _ none _, v => by simp [valueOf]
  | .axis _ (some w) _, v => by simp [freeAxes]
  | .flat e, v => by simp only [valueOf, freeAxes]; exact valueOf_some_free e v
  | .brackets e, v => by simp only [valueOf, freeAxes]; exact valueOf_some_free e v
  | .list cs, v => by
    intro h
    simp only [valueOf] at h
    obtain ⟨vs, hvs, _⟩ := prodOpt_some h
    simp only [freeAxes]; exact valuesOf_some_free cs vs hvs
  | .concat cs, v => by
    intro h
    simp only [valueOf] at h
    obtain ⟨vs, hvs, _⟩ := sumOpt_some h
    simp only [freeAxes]; exact valuesOf_some_free cs vs hvs
theorem valuesOf_some_free : ∀ (cs : List VExpr) (vs : List Nat), valuesOf cs = vs.map some → freeAxesL cs = []
  | [], vs => by intro _; simp [freeAxesL]
  | c :: cs, vs => by
    intro h
    cases vs with
    | nil => simp [valuesOf] at h
    | cons v vs =>
      simp only [valuesOf, List.map_cons, List.cons.injEq] at h
      simp only [freeAxesL]
      rw [valueOf_some_free c v h.1, valuesOf_some_free cs vs h.2]; rfl
end

end Einx.Solve.CseT
