import EinxModel.Proofs.Denote
/-! The loop form (`Denote.denoteId`, written with `for` in `Except`) and the functional form
(`Denote.denoteIdFun`) of the `id` denotation agree on concatenation-free single-input single-output
operations (up to the text of the error message). -/
namespace Einx.Denote
open Einx Einx.IR
open Einx.Update (mapOpt)

mutual
theorem nconcat_of_concatFree : ∀ d : Dim, d.concatFree = true → d.nconcat = 0
  | .axis _, _ => by simp [Dim.nconcat]
  | .flat ds, h => by simp only [Dim.nconcat]; exact nconcatL_of_concatFree ds (by simpa [Dim.concatFree] using h)
  | .concat _, h => by simp [Dim.concatFree] at h
  | .off _ _ _, h => by simp [Dim.concatFree] at h
theorem nconcatL_of_concatFree : ∀ ds : List Dim, Dim.concatFreeL ds = true → Dim.nconcatL ds = 0
  | [], _ => by simp [Dim.nconcatL]
  | d :: ds, h => by
    simp only [Dim.concatFreeL, Bool.and_eq_true] at h
    simp [Dim.nconcatL, nconcat_of_concatFree d h.1, nconcatL_of_concatFree ds h.2]
end

theorem views_of_concatFree {e : Expr} (h : e.concatFree = true) : views e = [rootDims e] := by
  have := nconcatL_of_concatFree _ (rootDims_concatFree h)
  simp only [rootDims] at this
  simp [views, viewsFuel, this, rootDims]

def okOpt {α : Type} : E α → Option α
  | .ok a => some a
  | .error _ => none

theorem okOpt_mapM_optE (msg : String) (cells : List (Option Cell)) :
    okOpt (cells.mapM (optE msg)) = mapOpt id cells := by
  induction cells with
  | nil => rfl
  | cons c cs ih =>
    simp only [List.mapM_cons, mapOpt, id]
    cases c with
    | none => rfl
    | some x =>
      simp only [optE, pure, Except.pure, bind, Except.bind]
      cases hm : List.mapM (optE msg) cs with
      | error e => simp [hm, okOpt] at ih ⊢; rw [← ih]
      | ok r => simp [hm, okOpt] at ih ⊢; rw [← ih]

theorem optE_some {α : Type} (msg : String) (a : α) : optE msg (some a) = pure a := rfl
theorem optE_none {α : Type} (msg : String) : optE msg (none : Option α) = Except.error msg := rfl
theorem ok_bind {α β : Type} (a : α) (f : α → E β) : (Except.ok a : E α) >>= f = f a := rfl
theorem error_bind {α β : Type} (e : String) (f : α → E β) : (Except.error e : E α) >>= f = Except.error e := rfl

/-- The inner loop of `denoteId` over the assignments is the fold of the entries. -/
theorem inner_loop (vi : List Dim) (si : List Nat) (i : Nat) (vo : List Dim) (so : List Nat) :
    ∀ (asg : List Assign) (o : List (Option Cell)),
      okOpt (forIn asg [o] (fun σ (s : List (List (Option Cell))) => (do
          let σ' ← optE "input axis missing from output" (extend σ (Dim.leavesL vi))
          let po ← optE "unassigned output axis" (position vo σ)
          let pi ← optE "unassigned input axis" (position vi σ')
          pure (ForInStep.yield (s.set 0 ((s.getD 0 []).set (ravel so po) (some (Cell.src i (ravel si pi)))))) : E _)))
      = (mapOpt (idEntry vi si i vo so) asg).map
          (fun es => [es.foldl (fun acc e => acc.set e.1 (some e.2)) o]) := by
  intro asg
  induction asg with
  | nil => intro o; rfl
  | cons σ asg ih =>
    intro o
    rw [List.forIn_cons]
    simp only [mapOpt, idEntry, flatPos, cellAt]
    cases hx : extend σ (Dim.leavesL vi) with
    | none => simp only [hx, optE_none, error_bind, okOpt, Option.map_none]
    | some σ' =>
      cases hpo : position vo σ with
      | none => simp only [hx, hpo, optE_some, optE_none, pure_bind, error_bind, okOpt, Option.map_none]
      | some po =>
        cases hpi : position vi σ' with
        | none => simp only [hx, hpo, hpi, optE_some, optE_none, pure_bind, error_bind, okOpt, Option.map_none, Option.map_some]
        | some pi =>
          simp only [hx, hpo, hpi, optE_some, pure_bind, Option.map_some, List.set_cons_zero, List.getD_cons_zero]
          rw [ih]
          cases mapOpt (idEntry vi si i vo so) asg <;> simp [List.foldl_cons]

theorem okOpt_denoteIdFun_single (e1 e2 : Expr) (h1 : e1.concatFree = true) (h2 : e2.concatFree = true) :
    okOpt (denoteIdFun [e1] [e2]) =
      (idCells (rootDims e1) (shapeOf e1) 0 (rootDims e2) (shapeOf e2)).map (fun cs => [⟨shapeOf e2, cs⟩]) := by
  unfold denoteIdFun
  simp only [Expr.concatFreeL, h1, h2, Bool.and_self, Bool.not_true, Bool.false_eq_true, if_false,
    List.length_singleton, bne_self_eq_false, List.zipIdx_cons, List.zipIdx_nil, List.zip_cons_cons,
    List.zip_nil_right, List.mapM_cons, List.mapM_nil, denoteIdFun1]
  cases idCells (rootDims e1) (shapeOf e1) 0 (rootDims e2) (shapeOf e2) with
  | none => rfl
  | some cs => rfl

/-- **Tie between the loop form and the functional form** (single concatenation-free input and output):
`Denote.denoteId` succeeds iff `Denote.denoteIdFun` does, with the same symbolic tensors. -/
theorem denoteId_eq_denoteIdFun (e1 e2 : Expr) (h1 : e1.concatFree = true) (h2 : e2.concatFree = true) :
    okOpt (denoteId [e1] [e2]) = okOpt (denoteIdFun [e1] [e2]) := by
  rw [okOpt_denoteIdFun_single e1 e2 h1 h2]
  unfold denoteId
  simp only [List.zipIdx_cons, List.zipIdx_nil, List.flatMap_cons, List.flatMap_nil, views_of_concatFree h1,
    views_of_concatFree h2, List.map_cons, List.map_nil, List.append_nil, List.zip_cons_cons, List.zip_nil_right,
    List.length_singleton, bne_self_eq_false, Bool.false_eq_true, if_false, List.forIn_cons, List.forIn_nil,
    List.getD_cons_zero]
  have hin := inner_loop (rootDims e1) (shapeOf e1) 0 (rootDims e2) (shapeOf e2)
    (assignments (axesOf (Dim.leavesL (rootDims e2)))) (List.replicate (prod (shapeOf e2)) none)
  generalize hL : (forIn (assignments (axesOf (Dim.leavesL (rootDims e2)))) [List.replicate (prod (shapeOf e2)) none] _ : E _) = L at hin ⊢
  clear hL
  simp only [idCells, idEntries, outAssignments, gatherAll, scatter]
  cases L with
  | error e =>
    simp only [okOpt] at hin
    cases hm : mapOpt (idEntry (rootDims e1) (shapeOf e1) 0 (rootDims e2) (shapeOf e2))
        (assignments (axesOf (Dim.leavesL (rootDims e2)))) with
    | none => rfl
    | some es => simp [hm] at hin
  | ok s =>
    simp only [okOpt] at hin
    cases hm : mapOpt (idEntry (rootDims e1) (shapeOf e1) 0 (rootDims e2) (shapeOf e2))
        (assignments (axesOf (Dim.leavesL (rootDims e2)))) with
    | none => simp [hm] at hin
    | some es =>
      simp only [hm, Option.map_some, Option.some.injEq] at hin
      subst hin
      simp only [ok_bind, bind_assoc, pure_bind, List.zip_cons_cons, List.zip_nil_right, List.forIn_cons,
        List.forIn_nil, List.nil_append]
      have hm2 := okOpt_mapM_optE "output not fully defined"
        (List.foldl (fun acc e => acc.set e.fst (some e.snd)) (List.replicate (prod (shapeOf e2)) none) es)
      generalize List.mapM (optE "output not fully defined")
        (List.foldl (fun acc e => acc.set e.fst (some e.snd)) (List.replicate (prod (shapeOf e2)) none) es) = M at hm2 ⊢
      rw [← hm2]
      cases M with
      | error e => simp only [error_bind, okOpt, Option.map_none]
      | ok cs => simp only [ok_bind, pure_bind, okOpt, Option.map_some]; rfl

end Einx.Denote
