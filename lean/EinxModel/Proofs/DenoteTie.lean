import EinxModel.Proofs.Denote
import EinxModel.Denote.Expr2
/-! The loop form (`Denote.denoteId`, written with `for` in `Except`) and the functional form
(`Denote.denoteIdFun`) of the `id` denotation agree on concatenation-free single-input single-output
operations (up to the text of the error message). -/
namespace Einx.Denote
open Einx Einx.IR
open Einx.Update (mapOpt mapOpt_congr mapOpt_length)
open Einx.Order.Fresh (InjOn)

mutual
theorem nconcat_of_concatFree : ∀ d : Dim, d.concatFree = true → d.nconcat = 0
  | .axis _, _ => by simp [Dim.nconcat]
  | .flat ds, h => by simp only [Dim.nconcat]; exact nconcatL_of_concatFree ds (by simpa [Dim.concatFree] using h)
  | .concat _, h => by simp [Dim.concatFree] at h
  | .off _ _ _, h => by simp [Dim.concatFree] at h
theorem nconcatL_of_concatFree : ∀ ds : List Dim, Dim.concatFreeL ds = true → Dim.nconcatL ds = 0
  | [], _ => by simp [Dim.nconcatL]
  | d :: ds, h => by
    simp only [Dim.concatFreeL, Bool.and_eq_true] at h
    simp [Dim.nconcatL, nconcat_of_concatFree d h.1, nconcatL_of_concatFree ds h.2]
end

theorem views_of_concatFree {e : Expr} (h : e.concatFree = true) : views e = [rootDims e] := by
  have := nconcatL_of_concatFree _ (rootDims_concatFree h)
  simp only [rootDims] at this
  simp [views, viewsFuel, this, rootDims]

def okOpt {α : Type} : E α → Option α
  | .ok a => some a
  | .error _ => none

theorem okOpt_mapM_optE (msg : String) (cells : List (Option Cell)) :
    okOpt (cells.mapM (optE msg)) = mapOpt id cells := by
  induction cells with
  | nil => rfl
  | cons c cs ih =>
    simp only [List.mapM_cons, mapOpt, id]
    cases c with
    | none => rfl
    | some x =>
      simp only [optE, pure, Except.pure, bind, Except.bind]
      cases hm : List.mapM (optE msg) cs with
      | error e => simp [hm, okOpt] at ih ⊢; rw [← ih]
      | ok r => simp [hm, okOpt] at ih ⊢; rw [← ih]

theorem optE_some {α : Type} (msg : String) (a : α) : optE msg (some a) = pure a := rfl
theorem optE_none {α : Type} (msg : String) : optE msg (none : Option α) = Except.error msg := rfl
theorem ok_bind {α β : Type} (a : α) (f : α → E β) : (Except.ok a : E α) >>= f = f a := rfl
theorem error_bind {α β : Type} (e : String) (f : α → E β) : (Except.error e : E α) >>= f = Except.error e := rfl

/-- The inner loop of `denoteId` over the assignments is the fold of the entries. -/
theorem inner_loop (vi : List Dim) (si : List Nat) (i : Nat) (vo : List Dim) (so : List Nat) :
    ∀ (asg : List Assign) (o : List (Option Cell)),
      okOpt (forIn asg [o] (fun σ (s : List (List (Option Cell))) => (do
          let σ' ← optE "input axis missing from output" (extend σ (Dim.leavesL vi))
          let po ← optE "unassigned output axis" (position vo σ)
          let pi ← optE "unassigned input axis" (position vi σ')
          pure (ForInStep.yield (s.set 0 ((s.getD 0 []).set (ravel so po) (some (Cell.src i (ravel si pi)))))) : E _)))
      = (mapOpt (idEntry vi si i vo so) asg).map
          (fun es => [es.foldl (fun acc e => acc.set e.1 (some e.2)) o]) := by
  intro asg
  induction asg with
  | nil => intro o; rfl
  | cons σ asg ih =>
    intro o
    rw [List.forIn_cons]
    simp only [mapOpt, idEntry, flatPos, cellAt]
    cases hx : extend σ (Dim.leavesL vi) with
    | none => simp only [hx, optE_none, error_bind, okOpt, Option.map_none]
    | some σ' =>
      cases hpo : position vo σ with
      | none => simp only [hx, hpo, optE_some, optE_none, pure_bind, error_bind, okOpt, Option.map_none]
      | some po =>
        cases hpi : position vi σ' with
        | none => simp only [hx, hpo, hpi, optE_some, optE_none, pure_bind, error_bind, okOpt, Option.map_none, Option.map_some]
        | some pi =>
          simp only [hx, hpo, hpi, optE_some, pure_bind, Option.map_some, List.set_cons_zero, List.getD_cons_zero]
          rw [ih]
          cases mapOpt (idEntry vi si i vo so) asg <;> simp [List.foldl_cons]

theorem okOpt_denoteIdFun_single (e1 e2 : Expr) (h1 : e1.concatFree = true) (h2 : e2.concatFree = true) :
    okOpt (denoteIdFun [e1] [e2]) =
      (idCells (rootDims e1) (shapeOf e1) 0 (rootDims e2) (shapeOf e2)).map (fun cs => [⟨shapeOf e2, cs⟩]) := by
  unfold denoteIdFun
  simp only [Expr.concatFreeL, h1, h2, Bool.and_self, Bool.not_true, Bool.false_eq_true, if_false,
    List.length_singleton, bne_self_eq_false, List.zipIdx_cons, List.zipIdx_nil, List.zip_cons_cons,
    List.zip_nil_right, List.mapM_cons, List.mapM_nil, denoteIdFun1]
  cases idCells (rootDims e1) (shapeOf e1) 0 (rootDims e2) (shapeOf e2) with
  | none => rfl
  | some cs => rfl

/-- **Tie between the loop form and the functional form** (single concatenation-free input and output):
`Denote.denoteId` succeeds iff `Denote.denoteIdFun` does, with the same symbolic tensors. -/
theorem denoteId_eq_denoteIdFun (e1 e2 : Expr) (h1 : e1.concatFree = true) (h2 : e2.concatFree = true) :
    okOpt (denoteId [e1] [e2]) = okOpt (denoteIdFun [e1] [e2]) := by
  rw [okOpt_denoteIdFun_single e1 e2 h1 h2]
  unfold denoteId
  simp only [List.zipIdx_cons, List.zipIdx_nil, List.flatMap_cons, List.flatMap_nil, views_of_concatFree h1,
    views_of_concatFree h2, List.map_cons, List.map_nil, List.append_nil, List.zip_cons_cons, List.zip_nil_right,
    List.length_singleton, bne_self_eq_false, Bool.false_eq_true, if_false, List.forIn_cons, List.forIn_nil,
    List.getD_cons_zero]
  have hin := inner_loop (rootDims e1) (shapeOf e1) 0 (rootDims e2) (shapeOf e2)
    (assignments (axesOf (Dim.leavesL (rootDims e2)))) (List.replicate (prod (shapeOf e2)) none)
  generalize hL : (forIn (assignments (axesOf (Dim.leavesL (rootDims e2)))) [List.replicate (prod (shapeOf e2)) none] _ : E _) = L at hin ⊢
  clear hL
  simp only [idCells, idEntries, outAssignments, gatherAll, scatter]
  cases L with
  | error e =>
    simp only [okOpt] at hin
    cases hm : mapOpt (idEntry (rootDims e1) (shapeOf e1) 0 (rootDims e2) (shapeOf e2))
        (assignments (axesOf (Dim.leavesL (rootDims e2)))) with
    | none => rfl
    | some es => simp [hm] at hin
  | ok s =>
    simp only [okOpt] at hin
    cases hm : mapOpt (idEntry (rootDims e1) (shapeOf e1) 0 (rootDims e2) (shapeOf e2))
        (assignments (axesOf (Dim.leavesL (rootDims e2)))) with
    | none => simp [hm] at hin
    | some es =>
      simp only [hm, Option.map_some, Option.some.injEq] at hin
      subst hin
      simp only [ok_bind, bind_assoc, pure_bind, List.zip_cons_cons, List.zip_nil_right, List.forIn_cons,
        List.forIn_nil, List.nil_append]
      have hm2 := okOpt_mapM_optE "output not fully defined"
        (List.foldl (fun acc e => acc.set e.fst (some e.snd)) (List.replicate (prod (shapeOf e2)) none) es)
      generalize List.mapM (optE "output not fully defined")
        (List.foldl (fun acc e => acc.set e.fst (some e.snd)) (List.replicate (prod (shapeOf e2)) none) es) = M at hm2 ⊢
      rw [← hm2]
      cases M with
      | error e => simp only [error_bind, okOpt, Option.map_none]
      | ok cs => simp only [ok_bind, pure_bind, okOpt, Option.map_some]; rfl

/-! ## Any number of inputs/outputs, and elementwise operations -/

/-! ### the loop form, with named loop bodies -/

abbrev Outs := List (List (Option Cell))

def idInner (vi : List Dim) (si : List Nat) (i : Nat) (vo : List Dim) (so : List Nat) (k : Nat) :
    Assign → Outs → E (ForInStep Outs) := fun σ outs => do
  let σ' ← optE "input axis missing from output" (extend σ (Dim.leavesL vi))
  let po ← optE "unassigned output axis" (position vo σ)
  let pi ← optE "unassigned input axis" (position vi σ')
  pure (ForInStep.yield (outs.set k ((outs.getD k []).set (ravel so po) (some (Cell.src i (ravel si pi))))))

def idOuter (exprsOut : List Expr) : (List Dim × Nat × List Nat) × (List Dim × Nat) → Outs → E (ForInStep Outs) :=
  fun x outs =>
    match x with
    | ((vi, i, si), vo, k) => do
      let s ← forIn (assignments (axesOf (Dim.leavesL vo))) outs
        (idInner vi si i vo (shapeOf (exprsOut.getD k (Expr.list []))) k)
      pure (ForInStep.yield s)

def idFinal : Expr × List (Option Cell) → List (Tensor Cell) → E (ForInStep (List (Tensor Cell))) :=
  fun x res =>
    match x with
    | (e, cells) => do
      let cs ← List.mapM (optE "output not fully defined") cells
      pure (ForInStep.yield (res ++ [{ shape := shapeOf e, data := cs }]))

theorem denoteId_eq (exprsIn exprsOut : List Expr) :
    denoteId exprsIn exprsOut =
      (let vin := (exprsIn.zipIdx).flatMap (fun (e, i) => (views e).map (fun v => (v, i, shapeOf e)))
       let vout := (exprsOut.zipIdx).flatMap (fun (e, k) => (views e).map (fun v => (v, k)))
       if vin.length != vout.length then throw "number of virtual inputs and outputs differs"
       else do
         let s ← forIn (vin.zip vout) (exprsOut.map (fun e => List.replicate (prod (shapeOf e)) none)) (idOuter exprsOut)
         forIn (exprsOut.zip s) [] idFinal) := by
  unfold denoteId
  simp only []
  split
  · rfl
  · simp only [bind_pure]; rfl


theorem okOpt_bind {α β : Type} (x : E α) (f : α → E β) :
    okOpt (x >>= f) = (okOpt x).bind (fun a => okOpt (f a)) := by
  cases x <;> rfl

theorem okOpt_pure {α : Type} (a : α) : okOpt (pure a : E α) = some a := rfl

theorem okOpt_optE {α : Type} (msg : String) (o : Option α) : okOpt (optE msg o) = o := by
  cases o <;> rfl

def setter (acc : List (Option Cell)) (e : Nat × Cell) : List (Option Cell) := acc.set e.1 (some e.2)

theorem set_getD_set (s : Outs) (k : Nat) (y : List (Option Cell)) (F : List (Option Cell) → List (Option Cell)) :
    (s.set k y).set k (F ((s.set k y).getD k [])) = s.set k (F y) := by
  rw [List.set_set]
  by_cases h : k < s.length
  · simp [List.getD_eq_getElem?_getD, h]
  · rw [List.set_eq_of_length_le (by omega), List.set_eq_of_length_le (by omega)]

/-- The inner loop of `denoteId` over the assignments, for any state and output index. -/
theorem inner_loop_gen (vi : List Dim) (si : List Nat) (i : Nat) (vo : List Dim) (so : List Nat) (k : Nat) :
    ∀ (asg : List Assign) (s : Outs),
      okOpt (forIn asg s (idInner vi si i vo so k))
      = (mapOpt (idEntry vi si i vo so) asg).map (fun es => s.set k (es.foldl setter (s.getD k []))) := by
  intro asg
  induction asg with
  | nil =>
    intro s
    simp only [List.forIn_nil, okOpt_pure, mapOpt, Option.map_some, List.foldl_nil]
    by_cases h : k < s.length
    · congr 1; apply List.ext_getElem? ; intro j
      simp only [List.getElem?_set, List.getD_eq_getElem?_getD]
      by_cases e : k = j
      · subst e; simp [h]
      · simp [e]
    · rw [List.set_eq_of_length_le (by omega)]
  | cons σ asg ih =>
    intro s
    rw [List.forIn_cons]
    simp only [mapOpt, idEntry, flatPos, cellAt, idInner]
    cases hx : extend σ (Dim.leavesL vi) with
    | none => simp only [optE_none, error_bind, okOpt, Option.map_none]
    | some σ' =>
      cases hpo : position vo σ with
      | none => simp only [optE_some, optE_none, pure_bind, error_bind, okOpt, Option.map_none]
      | some po =>
        cases hpi : position vi σ' with
        | none => simp only [hpi, optE_some, optE_none, pure_bind, error_bind, okOpt, Option.map_none, Option.map_some]
        | some pi =>
          simp only [hpi, optE_some, pure_bind, Option.map_some]
          have := ih (s.set k ((s.getD k []).set (ravel so po) (some (Cell.src i (ravel si pi)))))
          rw [this]
          cases mapOpt (idEntry vi si i vo so) asg with
          | none => rfl
          | some es =>
            simp only [Option.map_some, List.foldl_cons, Option.some.injEq]
            exact set_getD_set s k _ (fun o => es.foldl setter o)


abbrev IdPair := (List Dim × Nat × List Nat) × (List Dim × Nat)

/-- The entries one virtual input/output pair writes (`so` looked up as the loop does). -/
def pairEntries (exprsOut : List Expr) (x : IdPair) : Option (List (Nat × Cell)) :=
  mapOpt (idEntry x.1.1 x.1.2.2 x.1.2.1 x.2.1 (shapeOf (exprsOut.getD x.2.2 (Expr.list []))))
    (assignments (axesOf (Dim.leavesL x.2.1)))

/-- Apply the entries of every pair to the output slot of its key. -/
def applyEntries (s : Outs) (kes : List (Nat × List (Nat × Cell))) : Outs :=
  kes.foldl (fun s ke => s.set ke.1 (ke.2.foldl setter (s.getD ke.1 []))) s

theorem outer_loop (exprsOut : List Expr) : ∀ (ps : List IdPair) (s : Outs),
    okOpt (forIn ps s (idOuter exprsOut))
      = (mapOpt (pairEntries exprsOut) ps).map (fun ess => applyEntries s (List.zip (ps.map (fun x => x.2.2)) ess)) := by
  intro ps
  induction ps with
  | nil => intro s; rfl
  | cons x ps ih =>
    intro s
    obtain ⟨⟨vi, i, si⟩, vo, k⟩ := x
    rw [List.forIn_cons]
    simp only [idOuter, bind_assoc, pure_bind]
    rw [okOpt_bind, inner_loop_gen]
    simp only [mapOpt, pairEntries]
    cases mapOpt (idEntry vi si i vo (shapeOf (exprsOut.getD k (Expr.list [])))) (assignments (axesOf (Dim.leavesL vo))) with
    | none => rfl
    | some es =>
      simp only [Option.map_some, Option.bind_some, ih]
      cases mapOpt (pairEntries exprsOut) ps with
      | none => rfl
      | some ess => rfl

theorem final_loop : ∀ (l : List (Expr × List (Option Cell))) (res : List (Tensor Cell)),
    okOpt (forIn l res idFinal)
      = (mapOpt (fun (x : Expr × List (Option Cell)) => (mapOpt id x.2).map (fun cs => (⟨shapeOf x.1, cs⟩ : Tensor Cell))) l).map
          (fun ts => res ++ ts) := by
  intro l
  induction l with
  | nil => intro res; simp [mapOpt, okOpt_pure]
  | cons x l ih =>
    intro res
    obtain ⟨e, cells⟩ := x
    rw [List.forIn_cons]
    simp only [idFinal, bind_assoc, pure_bind]
    rw [okOpt_bind, okOpt_mapM_optE]
    simp only [mapOpt]
    cases mapOpt id cells with
    | none => rfl
    | some cs =>
      simp only [Option.bind_some, Option.map_some, ih]
      cases mapOpt (fun (x : Expr × List (Option Cell)) => (mapOpt id x.2).map (fun cs => (⟨shapeOf x.1, cs⟩ : Tensor Cell))) l with
      | none => rfl
      | some ts => simp

theorem applyEntries_shift (o : List (Option Cell)) : ∀ (kes : List (Nat × List (Nat × Cell))) (s : Outs),
    applyEntries (o :: s) (kes.map (fun ke => (ke.1 + 1, ke.2))) = o :: applyEntries s kes := by
  intro kes
  induction kes with
  | nil => intro s; rfl
  | cons ke kes ih =>
    intro s
    simp only [applyEntries, List.map_cons, List.foldl_cons, List.set_cons_succ, List.getD_cons_succ] at ih ⊢
    exact ih _

theorem applyEntries_range : ∀ (ess : List (List (Nat × Cell))) (s : Outs), ess.length = s.length →
    applyEntries s (List.zip (List.range ess.length) ess) = List.zipWith (fun es o => es.foldl setter o) ess s := by
  intro ess
  induction ess with
  | nil => intro s h; cases s <;> simp_all [applyEntries]
  | cons es ess ih =>
    intro s h
    cases s with
    | nil => simp at h
    | cons o s =>
      have hr : List.range (es :: ess).length = 0 :: (List.range ess.length).map Nat.succ := by
        rw [List.length_cons, List.range_succ_eq_map]
      have hz : List.zip ((List.range ess.length).map Nat.succ) ess
          = (List.zip (List.range ess.length) ess).map (fun ke => (ke.1 + 1, ke.2)) := by
        rw [List.zip_map_left]; rfl
      rw [hr, List.zip_cons_cons, hz]
      have : applyEntries (o :: s) ((0, es) :: (List.zip (List.range ess.length) ess).map (fun ke => (ke.1 + 1, ke.2)))
          = applyEntries (es.foldl setter o :: s) ((List.zip (List.range ess.length) ess).map (fun ke => (ke.1 + 1, ke.2))) := by
        simp [applyEntries]
      rw [this, applyEntries_shift, ih s (by simpa using h)]
      rfl


/-! list plumbing -/

theorem concatFreeL_cons (c : Expr) (cs : List Expr) :
    Expr.concatFreeL (c :: cs) = (c.concatFree && Expr.concatFreeL cs) := by simp [Expr.concatFreeL]

theorem vin_of_concatFree {β : Type} (g : Expr → Nat → List Dim → β) : ∀ (l : List Expr) (n : Nat),
    Expr.concatFreeL l = true →
    (l.zipIdx n).flatMap (fun (x : Expr × Nat) => (views x.1).map (g x.1 x.2))
      = (l.zipIdx n).map (fun x => g x.1 x.2 (rootDims x.1)) := by
  intro l
  induction l with
  | nil => intro n _; rfl
  | cons e l ih =>
    intro n h
    rw [concatFreeL_cons, Bool.and_eq_true] at h
    simp only [List.zipIdx_cons, List.flatMap_cons, List.map_cons, views_of_concatFree h.1, List.map_nil,
      List.singleton_append, ih (n + 1) h.2]

theorem zip_zipIdx_zipIdx {α β : Type} : ∀ (l1 : List α) (l2 : List β) (n : Nat),
    List.zip (l1.zipIdx n) (l2.zipIdx n)
      = (List.zip (l1.zipIdx n) l2).map (fun q => (q.1, (q.2, q.1.2))) := by
  intro l1
  induction l1 with
  | nil => intro l2 n; simp
  | cons a l1 ih =>
    intro l2 n
    cases l2 with
    | nil => simp
    | cons b l2 => simp [List.zipIdx_cons, ih l2 (n + 1)]

theorem getD_of_mem_zip {α β : Type} (d : β) : ∀ (l1 : List α) (l2 pre : List β),
    ∀ q ∈ List.zip (l1.zipIdx pre.length) l2, (pre ++ l2).getD q.1.2 d = q.2 := by
  intro l1
  induction l1 with
  | nil => intro l2 pre q hq; simp at hq
  | cons a l1 ih =>
    intro l2 pre q hq
    cases l2 with
    | nil => simp at hq
    | cons b l2 =>
      simp only [List.zipIdx_cons, List.zip_cons_cons, List.mem_cons] at hq
      rcases hq with rfl | hq
      · simp
      · have := ih l2 (pre ++ [b]) q (by simpa using hq)
        simpa using this

theorem zip_zipWith_aux {α β γ δ : Type} (p : α → γ) (r : α → δ) (F : β → δ → δ) : ∀ (Q : List α) (ess : List β),
    List.zip (Q.map p) (List.zipWith F ess (Q.map r)) = (List.zip Q ess).map (fun ab => (p ab.1, F ab.2 (r ab.1))) := by
  intro Q
  induction Q with
  | nil => intro ess; simp
  | cons q Q ih =>
    intro ess
    cases ess with
    | nil => simp
    | cons es ess => simp [ih ess]

theorem mapOpt_fuse {α β γ : Type} (f : α → Option β) (g : α → β → Option γ) : ∀ Q : List α,
    (mapOpt f Q).bind (fun bs => mapOpt (fun ab => g ab.1 ab.2) (List.zip Q bs)) = mapOpt (fun a => (f a).bind (g a)) Q := by
  intro Q
  induction Q with
  | nil => rfl
  | cons a Q ih =>
    simp only [mapOpt]
    cases hf : f a with
    | none => rfl
    | some b =>
      rw [← ih]
      cases hm : mapOpt f Q with
      | none => simp only [Option.bind_some, Option.bind_none]; cases g a b <;> rfl
      | some bs =>
        simp only [Option.bind_some, List.zip_cons_cons, mapOpt]

theorem okOpt_mapM {α β : Type} (f : α → E β) (l : List α) : okOpt (l.mapM f) = mapOpt (fun a => okOpt (f a)) l := by
  induction l with
  | nil => rfl
  | cons a l ih =>
    rw [List.mapM_cons, okOpt_bind]
    simp only [mapOpt]
    cases okOpt (f a) with
    | none => rfl
    | some b =>
      simp only [Option.bind_some, okOpt_bind, ih]
      cases mapOpt (fun a => okOpt (f a)) l <;> rfl

theorem okOpt_denoteIdFun1 (vi : List Dim) (si : List Nat) (i : Nat) (vo : List Dim) (so : List Nat) :
    okOpt (denoteIdFun1 vi si i vo so) = (idCells vi si i vo so).map (fun cs => (⟨so, cs⟩ : Tensor Cell)) := by
  unfold denoteIdFun1
  cases idCells vi si i vo so <;> rfl


/-- **Tie between the loop form and the functional form, any number of concatenation-free inputs/outputs.** -/
theorem denoteId_eq_denoteIdFun_multi (exprsIn exprsOut : List Expr)
    (hin : Expr.concatFreeL exprsIn = true) (hout : Expr.concatFreeL exprsOut = true) :
    okOpt (denoteId exprsIn exprsOut) = okOpt (denoteIdFun exprsIn exprsOut) := by
  rw [denoteId_eq]
  have hvin := vin_of_concatFree (fun e i v => (v, i, shapeOf e)) exprsIn 0 hin
  have hvout := vin_of_concatFree (fun _ k v => (v, k)) exprsOut 0 hout
  simp only [] at hvin hvout ⊢
  rw [hvin, hvout]
  unfold denoteIdFun
  simp only [hin, hout, Bool.and_self, Bool.not_true, Bool.false_eq_true, if_false, List.length_map,
    List.length_zipIdx]
  by_cases hlen' : exprsIn.length ≠ exprsOut.length
  · have : (exprsIn.length != exprsOut.length) = true := by simpa using hlen'
    simp only [this, if_true]
  have hlen : exprsIn.length = exprsOut.length := Decidable.of_not_not hlen'
  have hne : (exprsIn.length != exprsOut.length) = false := by simpa using hlen
  simp only [hne, Bool.false_eq_true, if_false]
  -- the pairs, as a map over `Q`
  let Q := List.zip exprsIn.zipIdx exprsOut
  have hps : List.zip (exprsIn.zipIdx.map (fun x => (rootDims x.1, x.2, shapeOf x.1)))
        (exprsOut.zipIdx.map (fun x => (rootDims x.1, x.2)))
      = Q.map (fun q => ((rootDims q.1.1, q.1.2, shapeOf q.1.1), (rootDims q.2, q.1.2))) := by
    rw [List.zip_map, zip_zipIdx_zipIdx, List.map_map]
    rfl
  rw [hps, okOpt_bind, outer_loop, okOpt_mapM]
  have hQlen : Q.length = exprsOut.length := by simp [Q, hlen]
  have hQsnd : Q.map (fun q => q.2) = exprsOut := by
    have := List.map_snd_zip (l₁ := exprsIn.zipIdx) (l₂ := exprsOut) (by simp [hlen])
    simpa [Q] using this
  have hkeys : (Q.map (fun q => ((rootDims q.1.1, q.1.2, shapeOf q.1.1), (rootDims q.2, q.1.2)))).map (fun x => x.2.2)
      = List.range Q.length := by
    rw [List.map_map]
    have h1 : Q.map (fun q => q.1.2) = (exprsIn.zipIdx).map (fun x => x.2) := by
      have := List.map_fst_zip (l₁ := exprsIn.zipIdx) (l₂ := exprsOut) (by simp [hlen])
      have h2 := congrArg (List.map (fun (x : Expr × Nat) => x.2)) this
      rw [List.map_map] at h2
      exact h2
    have h3 : (exprsIn.zipIdx).map (fun x => x.2) = List.range Q.length := by
      rw [hQlen, ← hlen, List.range_eq_range', List.zipIdx_map_snd]
    exact h1.trans h3
  have hentries : mapOpt (pairEntries exprsOut) (Q.map (fun q => ((rootDims q.1.1, q.1.2, shapeOf q.1.1), (rootDims q.2, q.1.2))))
      = mapOpt (fun q => idEntries (rootDims q.1.1) (shapeOf q.1.1) q.1.2 (rootDims q.2) (shapeOf q.2)) Q := by
    rw [mapOpt_map]
    apply mapOpt_congr
    intro q hq
    have := getD_of_mem_zip (Expr.list []) exprsIn exprsOut [] q (by simpa [Q] using hq)
    simp only [List.nil_append] at this
    simp only [pairEntries, this, idEntries, outAssignments]
  rw [hkeys, hentries]
  -- the state after the outer loop and the final loop
  have hstep : ∀ ess : List (List (Nat × Cell)), ess.length = Q.length →
      okOpt (forIn (exprsOut.zip (applyEntries (exprsOut.map (fun e => List.replicate (prod (shapeOf e)) none))
          (List.zip (List.range Q.length) ess))) [] idFinal)
        = mapOpt (fun (ab : ((Expr × Nat) × Expr) × List (Nat × Cell)) =>
            (gatherAll (prod (shapeOf ab.1.2)) ab.2).map (fun cs => (⟨shapeOf ab.1.2, cs⟩ : Tensor Cell))) (List.zip Q ess) := by
    intro ess hess
    rw [← hess, applyEntries_range ess _ (by simp [hess, hQlen]), final_loop]
    have hz := zip_zipWith_aux (fun (q : (Expr × Nat) × Expr) => q.2)
      (fun (q : (Expr × Nat) × Expr) => List.replicate (prod (shapeOf q.2)) (none : Option Cell))
      (fun (es : List (Nat × Cell)) o => es.foldl setter o) Q ess
    rw [hQsnd] at hz
    have hS : Q.map (fun q => List.replicate (prod (shapeOf q.2)) (none : Option Cell))
        = exprsOut.map (fun e => List.replicate (prod (shapeOf e)) none) := by
      rw [← hQsnd, List.map_map]; rfl
    rw [hS] at hz
    rw [hz, mapOpt_map]
    simp only [List.nil_append, Option.map_id', gatherAll, scatter]
    rfl
  have hbind : ((mapOpt (fun q => idEntries (rootDims q.1.1) (shapeOf q.1.1) q.1.2 (rootDims q.2) (shapeOf q.2)) Q).map
        (fun ess => applyEntries (exprsOut.map (fun e => List.replicate (prod (shapeOf e)) none))
          (List.zip (List.range Q.length) ess))).bind
        (fun s => okOpt (forIn (exprsOut.zip s) [] idFinal))
      = (mapOpt (fun q => idEntries (rootDims q.1.1) (shapeOf q.1.1) q.1.2 (rootDims q.2) (shapeOf q.2)) Q).bind
        (fun ess => mapOpt (fun (ab : ((Expr × Nat) × Expr) × List (Nat × Cell)) =>
            (gatherAll (prod (shapeOf ab.1.2)) ab.2).map (fun cs => (⟨shapeOf ab.1.2, cs⟩ : Tensor Cell))) (List.zip Q ess)) := by
    cases hm : mapOpt (fun q => idEntries (rootDims q.1.1) (shapeOf q.1.1) q.1.2 (rootDims q.2) (shapeOf q.2)) Q with
    | none => rfl
    | some ess =>
      simp only [Option.map_some, Option.bind_some]
      exact hstep ess (mapOpt_length hm)
  rw [hbind, mapOpt_fuse _ (fun (q : (Expr × Nat) × Expr) es =>
    (gatherAll (prod (shapeOf q.2)) es).map (fun cs => (⟨shapeOf q.2, cs⟩ : Tensor Cell)))]
  apply mapOpt_congr
  intro q _
  rw [okOpt_denoteIdFun1]
  simp only [idCells]
  cases idEntries (rootDims q.1.1) (shapeOf q.1.1) q.1.2 (rootDims q.2) (shapeOf q.2) <;> rfl

/-! ### elementwise -/

def ewInner (σ : Assign) : (List Dim × Expr) × Nat → List Cell → E (ForInStep (List Cell)) :=
  fun x args =>
    match x with
    | ((v, e), i) => do
      let σ' ← optE "input axis missing from output" (extend σ (Dim.leavesL v))
      let p ← optE "unassigned input axis" (position v σ')
      pure (ForInStep.yield (args ++ [Cell.src i (ravel (shapeOf e) p)]))

def ewOuter (f : String) (vis : List (List Dim)) (exprsIn : List Expr) (vo : List Dim) (so : List Nat) :
    Assign → List (Option Cell) → E (ForInStep (List (Option Cell))) :=
  fun σ out => do
    let args ← forIn (vis.zip exprsIn).zipIdx [] (ewInner σ)
    let po ← optE "unassigned output axis" (position vo σ)
    pure (ForInStep.yield (out.set (ravel so po) (some (Cell.app f args))))

theorem denoteElementwise_eq (f : String) (exprsIn : List Expr) (exprOut : Expr) :
    denoteElementwise f exprsIn exprOut = (do
      let vis ← exprsIn.mapM singleView
      let vo ← singleView exprOut
      let s ← forIn (assignments (axesOf (Dim.leavesL vo))) (List.replicate (prod (shapeOf exprOut)) none)
        (ewOuter f vis exprsIn vo (shapeOf exprOut))
      let cs ← s.mapM (optE "output not fully defined")
      pure ⟨shapeOf exprOut, cs⟩) := by
  unfold denoteElementwise
  rfl

def ewArg (σ : Assign) (x : (List Dim × Expr) × Nat) : Option Cell :=
  match extend σ (Dim.leavesL x.1.1) with
  | some σ' => cellAt x.1.1 (shapeOf x.1.2) x.2 σ'
  | none => none

theorem ew_inner_loop (σ : Assign) : ∀ (l : List ((List Dim × Expr) × Nat)) (args : List Cell),
    okOpt (forIn l args (ewInner σ)) = (mapOpt (ewArg σ) l).map (fun cs => args ++ cs) := by
  intro l
  induction l with
  | nil => intro args; simp [mapOpt, okOpt_pure]
  | cons x l ih =>
    intro args
    obtain ⟨⟨v, e⟩, i⟩ := x
    rw [List.forIn_cons]
    simp only [mapOpt, ewArg, ewInner, cellAt, flatPos]
    cases hx : extend σ (Dim.leavesL v) with
    | none => simp only [optE_none, error_bind, okOpt, Option.map_none]
    | some σ' =>
      cases hp : position v σ' with
      | none => simp only [hp, optE_some, optE_none, pure_bind, error_bind, okOpt, Option.map_none]
      | some p =>
        simp only [hp, optE_some, pure_bind, Option.map_some, ih]
        cases mapOpt (ewArg σ) l with
        | none => rfl
        | some cs => simp

def ewEntryL (f : String) (vis : List (List Dim)) (exprsIn : List Expr) (vo : List Dim) (so : List Nat) (σ : Assign) :
    Option (Nat × Cell) :=
  match mapOpt (ewArg σ) (vis.zip exprsIn).zipIdx, flatPos vo so σ with
  | some args, some po => some (po, .app f args)
  | _, _ => none

theorem ew_outer_loop (f : String) (vis : List (List Dim)) (exprsIn : List Expr) (vo : List Dim) (so : List Nat) :
    ∀ (asg : List Assign) (out : List (Option Cell)),
      okOpt (forIn asg out (ewOuter f vis exprsIn vo so))
        = (mapOpt (ewEntryL f vis exprsIn vo so) asg).map (fun es => es.foldl setter out) := by
  intro asg
  induction asg with
  | nil => intro out; rfl
  | cons σ asg ih =>
    intro out
    rw [List.forIn_cons]
    simp only [ewOuter, bind_assoc, pure_bind]
    rw [okOpt_bind, ew_inner_loop]
    simp only [mapOpt, ewEntryL, flatPos]
    cases mapOpt (ewArg σ) (vis.zip exprsIn).zipIdx with
    | none => rfl
    | some args =>
      simp only [Option.map_some, Option.bind_some, List.nil_append]
      cases hp : position vo σ with
      | none => simp only [optE_none, error_bind, okOpt, Option.map_none]
      | some po =>
        simp only [optE_some, pure_bind, Option.map_some, ih]
        cases mapOpt (ewEntryL f vis exprsIn vo so) asg with
        | none => rfl
        | some es => rfl

theorem singleView_of_concatFree {e : Expr} (h : e.concatFree = true) : singleView e = pure (rootDims e) := by
  simp [singleView, views_of_concatFree h]

theorem mapM_singleView : ∀ (l : List Expr), Expr.concatFreeL l = true →
    l.mapM singleView = (pure (l.map rootDims) : E _) := by
  intro l
  induction l with
  | nil => intro _; rfl
  | cons e l ih =>
    intro h
    rw [concatFreeL_cons, Bool.and_eq_true] at h
    rw [List.mapM_cons, singleView_of_concatFree h.1, ih h.2]
    rfl

/-- **Tie between the loop form and the functional form of elementwise operations.** -/
theorem denoteElementwise_eq_fun (f : String) (exprsIn : List Expr) (exprOut : Expr)
    (hin : Expr.concatFreeL exprsIn = true) (hout : exprOut.concatFree = true) :
    okOpt (denoteElementwise f exprsIn exprOut) = okOpt (denoteElementwiseFun f exprsIn exprOut) := by
  rw [denoteElementwise_eq, mapM_singleView exprsIn hin, singleView_of_concatFree hout]
  simp only [pure_bind]
  rw [okOpt_bind, ew_outer_loop]
  unfold denoteElementwiseFun
  simp only [hin, hout, Bool.and_self, Bool.not_true, Bool.false_eq_true, if_false, ewCells, outAssignments]
  have hent : ewEntryL f (exprsIn.map rootDims) exprsIn (rootDims exprOut) (shapeOf exprOut)
      = ewEntry f (exprsIn.map (fun e => (rootDims e, shapeOf e))) (rootDims exprOut) (shapeOf exprOut) := by
    funext σ
    have : mapOpt (ewArg σ) ((exprsIn.map rootDims).zip exprsIn).zipIdx
        = ewArgs (exprsIn.map (fun e => (rootDims e, shapeOf e))) σ := by
      unfold ewArgs
      have h1 : (exprsIn.map rootDims).zip exprsIn = exprsIn.map (fun e => (rootDims e, e)) := by
        rw [List.zip_map_left, List.zip_eq_zipWith]; simp [List.zipWith_self]
      rw [h1, List.zipIdx_map, List.zipIdx_map, mapOpt_map, mapOpt_map]
      rfl
    simp only [ewEntryL, ewEntry, this]
    rfl
  rw [hent]
  cases mapOpt (ewEntry f (exprsIn.map (fun e => (rootDims e, shapeOf e))) (rootDims exprOut) (shapeOf exprOut))
      (assignments (axesOf (Dim.leavesL (rootDims exprOut)))) with
  | none => rfl
  | some es =>
    have hs : setter = fun acc e => acc.set e.1 (some e.2) := rfl
    simp only [Option.map_some, Option.bind_some, okOpt_bind, okOpt_mapM_optE, gatherAll, scatter, hs]
    cases mapOpt id (List.foldl (fun acc e => acc.set e.1 (some e.2)) (List.replicate (prod (shapeOf exprOut)) none) es) with
    | none => rfl
    | some cs => rfl

/-! ### reductions: invariance of `denoteReduce` under renaming -/

def rdInner (vi : List Dim) (si : List Nat) (li : List Leaf) (σ : Assign) :
    Assign → List Cell → E (ForInStep (List Cell)) := fun τ cells => do
  let a ← optE "un-bracketed input axis missing from output" (inputAssign σ τ li)
  let p ← optE "unassigned input axis" (position vi a)
  pure (ForInStep.yield (cells ++ [Cell.src 0 (ravel si p)]))

def rdOuter (f : String) (vi : List Dim) (si : List Nat) (li : List Leaf) (marked : List (String × Nat)) (vo : List Dim) :
    Assign → List (List Nat × Cell) → E (ForInStep (List (List Nat × Cell))) := fun σ entries => do
  let cells ← forIn (assignments marked) [] (rdInner vi si li σ)
  let po ← optE "unassigned output axis" (position vo σ)
  pure (ForInStep.yield (entries ++ [(po, mkRed f cells)]))

theorem denoteReduce_eq (f : String) (e eo : Expr) :
    denoteReduce f e eo = (do
      let vi ← singleView e
      let vo ← singleView eo
      let entries ← forIn (assignments (axesOf (Dim.leavesL vo))) []
        (rdOuter f vi (shapeOf e) (Dim.leavesL vi) (axesOf ((Dim.leavesL vi).filter (·.marked))) vo)
      fillOutput (shapeOf eo) entries) := by
  unfold denoteReduce
  rfl

def inputStep (σ τ : Assign) (acc : Assign) (l : Leaf) : Option Assign :=
  if l.marked then
    match τ.get l.name with
    | some v => some (if (acc.get l.name).isSome then acc else acc ++ [(l.name, v)])
    | none => none
  else
    match acc.get l.name with
    | some _ => some acc
    | none =>
      match σ.get l.name with
      | some v => some (acc ++ [(l.name, v)])
      | none => if l.size == 1 then some (acc ++ [(l.name, 0)]) else none

theorem inputAssign_eq (σ τ : Assign) (ls : List Leaf) : inputAssign σ τ ls = ls.foldlM (inputStep σ τ) [] := rfl

theorem inputStep_rename {ρ : String → String} (hρ : Function.Injective ρ) (σ τ acc : Assign) (l : Leaf) :
    inputStep (Assign.rename ρ σ) (Assign.rename ρ τ) (Assign.rename ρ acc) (Leaf.rename ρ l)
      = (inputStep σ τ acc l).map (Assign.rename ρ) := by
  have hn : (Leaf.rename ρ l).name = ρ l.name := rfl
  have hm : (Leaf.rename ρ l).marked = l.marked := rfl
  have hs : (Leaf.rename ρ l).size = l.size := rfl
  simp only [inputStep, hn, hm, hs, get_rename hρ]
  by_cases hmk : l.marked = true
  · simp only [hmk, if_true]
    cases τ.get l.name with
    | none => rfl
    | some v =>
      cases (acc.get l.name).isSome <;> simp [Assign.rename]
  · simp only [hmk, Bool.false_eq_true, if_false]
    cases acc.get l.name with
    | some _ => rfl
    | none =>
      cases σ.get l.name with
      | some v => simp [Assign.rename]
      | none =>
        by_cases h1 : (l.size == 1) = true
        · simp [h1, Assign.rename]
        · simp [h1]

theorem inputFold_rename {ρ : String → String} (hρ : Function.Injective ρ) (σ τ : Assign) : ∀ (ls : List Leaf) (acc : Assign),
    (ls.map (Leaf.rename ρ)).foldlM (inputStep (Assign.rename ρ σ) (Assign.rename ρ τ)) (Assign.rename ρ acc)
      = (ls.foldlM (inputStep σ τ) acc).map (Assign.rename ρ) := by
  intro ls
  induction ls with
  | nil => intro acc; rfl
  | cons l ls ih =>
    intro acc
    simp only [List.map_cons, List.foldlM_cons, inputStep_rename hρ]
    cases inputStep σ τ acc l with
    | none => rfl
    | some acc' => exact ih acc'

theorem inputAssign_rename {ρ : String → String} (hρ : Function.Injective ρ) (σ τ : Assign) (ls : List Leaf) :
    inputAssign (Assign.rename ρ σ) (Assign.rename ρ τ) (ls.map (Leaf.rename ρ)) = (inputAssign σ τ ls).map (Assign.rename ρ) :=
  inputFold_rename hρ σ τ ls []

theorem filter_marked_rename (ρ : String → String) (ls : List Leaf) :
    (ls.map (Leaf.rename ρ)).filter (·.marked) = (ls.filter (·.marked)).map (Leaf.rename ρ) := by
  rw [List.filter_map]; rfl

theorem rdInner_rename {ρ : String → String} (hρ : Function.Injective ρ) (vi : List Dim) (si : List Nat) (li : List Leaf)
    (σ τ : Assign) (cells : List Cell) :
    rdInner (Dim.renameL ρ vi) si (li.map (Leaf.rename ρ)) (Assign.rename ρ σ) (Assign.rename ρ τ) cells
      = rdInner vi si li σ τ cells := by
  simp only [rdInner, inputAssign_rename hρ]
  cases inputAssign σ τ li with
  | none => rfl
  | some a => simp only [Option.map_some, optE_some, pure_bind, position_rename hρ]

theorem rdOuter_rename {ρ : String → String} (hρ : Function.Injective ρ) (f : String) (vi : List Dim) (si : List Nat)
    (vo : List Dim) (σ : Assign) (entries : List (List Nat × Cell)) :
    rdOuter f (Dim.renameL ρ vi) si (Dim.leavesL (Dim.renameL ρ vi))
        (axesOf ((Dim.leavesL (Dim.renameL ρ vi)).filter (·.marked))) (Dim.renameL ρ vo) (Assign.rename ρ σ) entries
      = rdOuter f vi si (Dim.leavesL vi) (axesOf ((Dim.leavesL vi).filter (·.marked))) vo σ entries := by
  simp only [rdOuter, leavesL_rename, filter_marked_rename, axesOf_rename hρ, assignments_rename, List.forIn_map,
    position_rename hρ]
  have : (fun τ y => rdInner (Dim.renameL ρ vi) si ((Dim.leavesL vi).map (Leaf.rename ρ)) (Assign.rename ρ σ)
      (Assign.rename ρ τ) y) = rdInner vi si (Dim.leavesL vi) σ := by
    funext τ y; exact rdInner_rename hρ vi si _ σ τ y
  rw [this]

/-- **Reductions are invariant under consistent renaming** (executable loop form, concatenation-free). -/
theorem denoteReduce_rename {ρ : String → String} (hρ : Function.Injective ρ) (f : String) (e eo : Expr)
    (he : e.concatFree = true) (heo : eo.concatFree = true) :
    denoteReduce f (e.rename ρ) (eo.rename ρ) = denoteReduce f e eo := by
  rw [denoteReduce_eq, denoteReduce_eq,
    singleView_of_concatFree (by rw [concatFree_rename]; exact he),
    singleView_of_concatFree (by rw [concatFree_rename]; exact heo),
    singleView_of_concatFree he, singleView_of_concatFree heo]
  simp only [pure_bind, rootDims_rename, shapeOf_rename, leavesL_rename ρ (rootDims eo), axesOf_rename hρ,
    assignments_rename, List.forIn_map]
  have : (fun σ y => rdOuter f (Dim.renameL ρ (rootDims e)) (shapeOf e) (Dim.leavesL (Dim.renameL ρ (rootDims e)))
      (axesOf ((Dim.leavesL (Dim.renameL ρ (rootDims e))).filter (·.marked))) (Dim.renameL ρ (rootDims eo))
      (Assign.rename ρ σ) y)
      = rdOuter f (rootDims e) (shapeOf e) (Dim.leavesL (rootDims e))
          (axesOf ((Dim.leavesL (rootDims e)).filter (·.marked))) (rootDims eo) := by
    funext σ y; exact rdOuter_rename hρ f _ _ _ σ y
  rw [this]

theorem denoteReduce_rename_on {ρ : String → String} (f : String) (e eo : Expr)
    (he : e.concatFree = true) (heo : eo.concatFree = true) (hρ : InjOn ρ (e.names ++ eo.names)) :
    denoteReduce f (e.rename ρ) (eo.rename ρ) = denoteReduce f e eo := by
  have h := denoteReduce_rename (extInj_injective hρ) f e eo he heo
  rw [Expr.rename_congr (ρ := ρ) (ρ' := extInj ρ (e.names ++ eo.names)) e
      (fun n hn => (extInj_agree ρ _ (List.mem_append_left _ hn)).symm),
    Expr.rename_congr (ρ := ρ) (ρ' := extInj ρ (e.names ++ eo.names)) eo
      (fun n hn => (extInj_agree ρ _ (List.mem_append_right _ hn)).symm)]
  exact h

end Einx.Denote
