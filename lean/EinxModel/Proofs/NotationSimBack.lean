import EinxModel.Proofs.NotationSimCore
/-!
# M1 Notation — the passes after `parse` respect `ESim` (`finish_sim`)

Both `move_up` passes, redundant-bracket removal, the "more than one `->`" check and the inconsistent-brackets check never
look at positions, ellipsis ids or the numbers inside fresh names except for comparing names for equality.
-/
namespace Einx.Notation

variable {φ : Nat → Nat}

/-! ### List congruences -/

theorem ESimL.map {f g : Expr → Expr} (hfg : ∀ a a', ESim φ a a' → ESim φ (f a) (g a')) :
    ∀ {cs cs' : List Expr}, ESimL φ cs cs' → ESimL φ (cs.map f) (cs'.map g)
  | [], _, h => by cases h; exact ESimL.nil
  | _ :: _, _, h => by
    cases h with
    | cons h1 h2 => exact ESimL.cons (hfg _ _ h1) (ESimL.map hfg h2)

theorem ESimL.mapIdx {f g : Nat → Expr} (hfg : ∀ i, ESim φ (f i) (g i)) :
    ∀ (l : List Nat), ESimL φ (l.map f) (l.map g)
  | [] => ESimL.nil
  | i :: l => ESimL.cons (hfg i) (ESimL.mapIdx hfg l)

theorem ESimL.getD {d d' : Expr} (hd : ESim φ d d') :
    ∀ {cs cs' : List Expr} (idx : Nat), ESimL φ cs cs' → ESim φ (cs.getD idx d) (cs'.getD idx d')
  | [], _, _, h => by cases h; simpa using hd
  | _ :: _, _, 0, h => by cases h with | cons h1 _ => simpa using h1
  | _ :: _, _, idx + 1, h => by
    cases h with
    | cons _ h2 => simpa using ESimL.getD hd idx h2

theorem ESimL.flatMap_children :
    ∀ {cs cs' : List Expr}, ESimL φ cs cs' → ESimL φ (cs.flatMap Expr.children) (cs'.flatMap Expr.children)
  | [], _, h => by cases h; exact ESimL.nil
  | _ :: _, _, h => by
    cases h with
    | cons h1 h2 =>
      simp only [List.flatMap_cons]
      exact ESimL.append h1.children (ESimL.flatMap_children h2)

theorem ESimL.childLens_eq :
    ∀ {cs cs' : List Expr}, ESimL φ cs cs' →
      cs.map (fun c => c.children.length) = cs'.map (fun c => c.children.length)
  | [], _, h => by cases h; rfl
  | _ :: _, _, h => by
    cases h with
    | cons h1 h2 =>
      simp only [List.map_cons]
      rw [ESimL.length_eq h1.children, ESimL.childLens_eq h2]

/-! ### `move_up` -/

theorem wrap_sim (k : Lift) {cs cs' : List Expr} {b e b' e' : Int} (h : ESimL φ cs cs') :
    ESim φ (k.wrap cs b e) (k.wrap cs' b' e') := by
  cases k
  · exact ESim.op h
  · exact ESim.args h

theorem cls_create_sim (cls : Cls) {cs cs' : List Expr} {b e b' e' : Int} (h : ESimL φ cs cs') :
    ESim φ (cls.create cs b e) (cls.create cs' b' e') := by
  cases cls
  · exact mkList_sim h
  · exact mkConcat_sim h
  · exact ESim.args h

theorem pick_sim (idx : Nat) {x y : Expr} (h : ESim φ x y) : ESim φ (pick idx x) (pick idx y) := by
  unfold pick
  have hc := h.children
  generalize x.children = l at hc
  generalize y.children = l' at hc
  cases hc with
  | nil => exact ESimL.getD emptyList_sim idx ESimL.nil
  | cons h1 h2 =>
    cases h2 with
    | nil => exact h1
    | cons h2 h3 => exact ESimL.getD emptyList_sim idx (ESimL.cons h1 (ESimL.cons h2 h3))

theorem distribute_sim (k : Lift) (cls : Cls) {ch ch' : List Expr} {b e b' e' : Int} (a a' : List Int)
    (h : ESimL φ ch ch') : RSim φ (distribute k cls ch b e a) (distribute k cls ch' b' e' a') := by
  unfold distribute
  dsimp only
  rw [ESimL.childLens_eq h]
  split
  · cases k <;> exact rfl
  · simp only [RSim]
    apply wrap_sim
    apply ESimL.mapIdx
    intro idx
    apply cls_create_sim
    exact ESimL.map (fun _ _ hx => pick_sim idx hx) h

/-- The common step of the `flat`/`brackets`/`ellipsis` cases of `moveUp`. -/
theorem wrapMap_sim (k : Lift) {r r' : Res Expr} {f g : Expr → Expr}
    (hfg : ∀ a a', ESim φ a a' → ESim φ (f a) (g a')) :
    RSim φ r r' → RSim φ
      (match r with
        | .error err => .error err
        | .ok o => .ok (k.wrap (o.children.map f) o.b o.e))
      (match r' with
        | .error err => .error err
        | .ok o => .ok (k.wrap (o.children.map g) o.b o.e)) := by
  cases r <;> cases r' <;> simp only [RSim] <;> intro h
  · exact h
  · exact h.elim
  · exact h.elim
  · exact wrap_sim k (ESimL.map hfg h.children)

/-- The common step of the `list`/`concat`/`args` cases of `moveUp`. -/
theorem distStep_sim (k : Lift) (cls : Cls) {r r' : Res (List Expr)} {b e b' e' : Int}
    (a a' : List Int) :
    RSimL φ r r' → RSim φ
      (match r with
        | .error err => .error err
        | .ok ch => distribute k cls ch b e a)
      (match r' with
        | .error err => .error err
        | .ok ch => distribute k cls ch b' e' a') := by
  cases r <;> cases r' <;> simp only [RSimL] <;> intro h
  · exact h
  · exact h.elim
  · exact h.elim
  · exact distribute_sim k cls a a' h

mutual
theorem moveUp_sim (k : Lift) (a a' : List Int) :
    ∀ (x y : Expr), ESim φ x y → RSim φ (moveUp k a x) (moveUp k a' y)
  | .axis .., _, h => by
    cases h with
    | axis hn hv =>
      simp only [moveUp, RSim]
      exact wrap_sim k (ESimL.cons (ESim.axis hn hv) ESimL.nil)
  | .flat i _ _, _, h => by
    cases h with
    | flat hi =>
      simp only [moveUp]
      exact wrapMap_sim k (fun _ _ hx => mkFlat_sim hx) (moveUp_sim k a a' _ _ hi)
  | .brackets i _ _, _, h => by
    cases h with
    | brackets hi =>
      simp only [moveUp]
      exact wrapMap_sim k (fun _ _ hx => mkBrackets_sim hx) (moveUp_sim k a a' _ _ hi)
  | .ellipsis i _ _ _, _, h => by
    cases h with
    | ellipsis hi =>
      simp only [moveUp]
      exact wrapMap_sim k (fun _ _ hx => mkEllipsis_sim hx) (moveUp_sim k a a' _ _ hi)
  | .list cs _ _, _, h => by
    cases h with
    | list hcs =>
      simp only [moveUp]
      exact distStep_sim k .list a a' (moveUpL_sim k a a' _ _ hcs)
  | .concat cs _ _, _, h => by
    cases h with
    | concat hcs =>
      simp only [moveUp]
      exact distStep_sim k .concat a a' (moveUpL_sim k a a' _ _ hcs)
  | .args cs _ _, _, h => by
    cases h with
    | args hcs =>
      have ih := moveUpL_sim k a a' _ _ hcs
      cases k with
      | op =>
        simp only [moveUp]
        exact distStep_sim .op .args a a' ih
      | args =>
        simp only [moveUp]
        revert ih
        cases moveUpL .args a cs <;> cases moveUpL .args a' _ <;> simp only [RSimL, RSim] <;> intro ih
        · exact ih
        · exact ih.elim
        · exact ih.elim
        · exact ESim.args (ESimL.flatMap_children ih)
  | .op cs _ _, _, h => by
    cases h with
    | op hcs =>
      cases k with
      | args => simp [moveUp, RSim, ErrSim]
      | op =>
        have ih := moveUpL_sim .op a a' _ _ hcs
        simp only [moveUp]
        revert ih
        cases moveUpL .op a cs <;> cases moveUpL .op a' _ <;> simp only [RSimL, RSim] <;> intro ih
        · exact ih
        · exact ih.elim
        · exact ih.elim
        · exact ESim.op (ESimL.flatMap_children ih)
theorem moveUpL_sim (k : Lift) (a a' : List Int) :
    ∀ (cs cs' : List Expr), ESimL φ cs cs' → RSimL φ (moveUpL k a cs) (moveUpL k a' cs')
  | [], _, h => by cases h; simp [moveUpL, RSimL, ESimL.nil]
  | c :: cs, _, h => by
    cases h with
    | cons h1 h2 =>
      have ih1 := moveUp_sim k a a' _ _ h1
      have ih2 := moveUpL_sim k a a' _ _ h2
      simp only [moveUpL]
      revert ih1 ih2
      cases moveUp k a c <;> cases moveUp k a' _ <;> simp only [RSim] <;> intro ih1
      · intro _; exact ih1
      · exact ih1.elim
      · exact ih1.elim
      · cases moveUpL k a cs <;> cases moveUpL k a' _ <;> simp only [RSimL] <;> intro ih2
        · exact ih2
        · exact ih2.elim
        · exact ih2.elim
        · exact ESimL.cons ih1 ih2
end

/-! ### Redundant brackets -/

mutual
theorem traverse_sim (inBr : Bool) : ∀ (x y : Expr), ESim φ x y → ESim φ (traverse inBr x) (traverse inBr y)
  | .axis .., _, h => by cases h with | axis hn hv => simp only [traverse]; exact ESim.axis hn hv
  | .flat i _ _, _, h => by
    cases h with
    | flat hi => simp only [traverse]; exact mkFlat_sim (traverse_sim inBr _ _ hi)
  | .list cs _ _, _, h => by
    cases h with
    | list hcs => simp only [traverse]; exact mkList_sim (traverseL_sim inBr _ _ hcs)
  | .concat cs _ _, _, h => by
    cases h with
    | concat hcs => simp only [traverse]; exact mkConcat_sim (traverseL_sim inBr _ _ hcs)
  | .brackets i _ _, _, h => by
    cases h with
    | brackets hi =>
      simp only [traverse]
      cases inBr
      · exact mkBrackets_sim (traverse_sim true _ _ hi)
      · exact traverse_sim true _ _ hi
  | .ellipsis i _ _ _, _, h => by
    cases h with
    | ellipsis hi => simp only [traverse]; exact mkEllipsis_sim (traverse_sim inBr _ _ hi)
  | .op cs _ _, _, h => by
    cases h with
    | op hcs => simp only [traverse]; exact ESim.op (traverseL_sim inBr _ _ hcs)
  | .args cs _ _, _, h => by
    cases h with
    | args hcs => simp only [traverse]; exact ESim.args (traverseL_sim inBr _ _ hcs)
theorem traverseL_sim (inBr : Bool) :
    ∀ (cs cs' : List Expr), ESimL φ cs cs' → ESimL φ (traverseL inBr cs) (traverseL inBr cs')
  | [], _, h => by cases h; exact ESimL.nil
  | c :: cs, _, h => by
    cases h with
    | cons h1 h2 =>
      simp only [traverseL]
      exact ESimL.cons (traverse_sim inBr _ _ h1) (traverseL_sim inBr _ _ h2)
end

/-! ### Inconsistent brackets -/

/-- Occurrences related: names related by `NameRel φ`, same `marked` flag (positions are arbitrary). -/
def OccRel (φ : Nat → Nat) (o o' : Occ) : Prop := NameRel φ o.name o'.name ∧ o.marked = o'.marked

/-- Pointwise relation between two lists (own copy, so that this file depends on nothing but the interface). -/
inductive PW {α β : Type} (R : α → β → Prop) : List α → List β → Prop
  | nil : PW R [] []
  | cons {a : α} {b : β} {l₁ : List α} {l₂ : List β} : R a b → PW R l₁ l₂ → PW R (a :: l₁) (b :: l₂)

theorem PW.append {α β : Type} {R : α → β → Prop} :
    ∀ {as : List α} {as' : List β} {bs : List α} {bs' : List β},
      PW R as as' → PW R bs bs' → PW R (as ++ bs) (as' ++ bs')
  | [], _, _, _, h, hb => by cases h; exact hb
  | _ :: _, _, _, _, h, hb => by
    cases h with
    | cons h1 h2 => exact PW.cons h1 (PW.append h2 hb)

theorem PW.mem_left {α β : Type} {R : α → β → Prop} :
    ∀ {as : List α} {as' : List β}, PW R as as' → ∀ a ∈ as, ∃ a' ∈ as', R a a'
  | [], _, h, a, ha => by cases ha
  | _ :: _, _, h, a, ha => by
    cases h with
    | cons h1 h2 =>
      rcases List.mem_cons.mp ha with rfl | ha
      · exact ⟨_, List.mem_cons_self, h1⟩
      · obtain ⟨a', ha', hr⟩ := PW.mem_left h2 a ha
        exact ⟨a', List.mem_cons_of_mem _ ha', hr⟩

theorem PW.mem_right {α β : Type} {R : α → β → Prop} :
    ∀ {as : List α} {as' : List β}, PW R as as' → ∀ a' ∈ as', ∃ a ∈ as, R a a'
  | [], _, h, a', ha => by cases h; cases ha
  | _ :: _, _, h, a', ha => by
    cases h with
    | cons h1 h2 =>
      rcases List.mem_cons.mp ha with rfl | ha
      · exact ⟨_, List.mem_cons_self, h1⟩
      · obtain ⟨a, ha2, hr⟩ := PW.mem_right h2 a' ha
        exact ⟨a, List.mem_cons_of_mem _ ha2, hr⟩

mutual
theorem occs_rel : ∀ (x y : Expr), ESim φ x y → ∀ (br br' : List Int) (m : Bool),
    PW (OccRel φ) (occs br m x) (occs br' m y)
  | .axis .., _, h => by
    cases h with
    | axis hn =>
      intro br br' m
      simp only [occs]
      exact PW.cons ⟨hn, rfl⟩ PW.nil
  | .flat i _ _, _, h => by
    cases h with
    | flat hi => intro br br' m; simp only [occs]; exact occs_rel _ _ hi _ _ _
  | .brackets i _ _, _, h => by
    cases h with
    | brackets hi => intro br br' m; simp only [occs]; exact occs_rel _ _ hi _ _ _
  | .ellipsis i _ _ _, _, h => by
    cases h with
    | ellipsis hi => intro br br' m; simp only [occs]; exact occs_rel _ _ hi _ _ _
  | .concat cs _ _, _, h => by
    cases h with
    | concat hcs => intro br br' m; simp only [occs]; exact occsL_rel _ _ hcs _ _ _
  | .list cs _ _, _, h => by
    cases h with
    | list hcs => intro br br' m; simp only [occs]; exact occsL_rel _ _ hcs _ _ _
  | .args cs _ _, _, h => by
    cases h with
    | args hcs => intro br br' m; simp only [occs]; exact occsL_rel _ _ hcs _ _ _
  | .op cs _ _, _, h => by
    cases h with
    | op hcs => intro br br' m; simp only [occs]; exact occsL_rel _ _ hcs _ _ _
theorem occsL_rel : ∀ (cs cs' : List Expr), ESimL φ cs cs' → ∀ (br br' : List Int) (m : Bool),
    PW (OccRel φ) (occsL br m cs) (occsL br' m cs')
  | [], _, h => by cases h; intro _ _ _; exact PW.nil
  | c :: cs, _, h => by
    cases h with
    | cons h1 h2 =>
      intro br br' m
      simp only [occsL]
      exact PW.append (occs_rel _ _ h1 _ _ _) (occsL_rel _ _ h2 _ _ _)
end

/-- Some name occurs both marked and unmarked. -/
def Conflict (os : List Occ) : Prop :=
  ∃ o1 ∈ os, ∃ o2 ∈ os, o1.name = o2.name ∧ o1.marked = true ∧ o2.marked = false

theorem conflictNames_ne_nil_iff (os : List Occ) : conflictNames os ≠ [] ↔ Conflict os := by
  unfold conflictNames Conflict
  constructor
  · intro hne
    obtain ⟨n, hn⟩ := List.exists_mem_of_ne_nil _ hne
    have hp := (List.mem_filter.mp hn).2
    simp only [Bool.and_eq_true, List.any_eq_true, beq_iff_eq, Bool.not_eq_true'] at hp
    obtain ⟨⟨o1, ho1, hn1, hm1⟩, ⟨o2, ho2, hn2, hm2⟩⟩ := hp
    exact ⟨o1, ho1, o2, ho2, hn1.trans hn2.symm, hm1, hm2⟩
  · rintro ⟨o1, ho1, o2, ho2, hn, hm1, hm2⟩
    have hmem : o1.name ∈ (List.map (fun x => x.name) os).eraseDups :=
      List.mem_eraseDups.mpr (List.mem_map.mpr ⟨o1, ho1, rfl⟩)
    have : o1.name ∈ List.filter (fun n =>
        os.any (fun o => o.name == n && o.marked) && os.any (fun o => o.name == n && !o.marked))
        (List.map (fun x => x.name) os).eraseDups := by
      refine List.mem_filter.mpr ⟨hmem, ?_⟩
      simp only [Bool.and_eq_true, List.any_eq_true, beq_iff_eq, Bool.not_eq_true']
      exact ⟨⟨o1, ho1, rfl, hm1⟩, ⟨o2, ho2, hn.symm, hm2⟩⟩
    exact List.ne_nil_of_mem this

theorem conflict_transfer (hφ : Function.Injective φ) {os os' : List Occ}
    (h : PW (OccRel φ) os os') : Conflict os ↔ Conflict os' := by
  constructor
  · rintro ⟨o1, ho1, o2, ho2, hn, hm1, hm2⟩
    obtain ⟨p1, hp1, hr1⟩ := PW.mem_left h o1 ho1
    obtain ⟨p2, hp2, hr2⟩ := PW.mem_left h o2 ho2
    exact ⟨p1, hp1, p2, hp2, (NameRel.eq_iff hφ hr1.1 hr2.1).mp hn, hr1.2 ▸ hm1, hr2.2 ▸ hm2⟩
  · rintro ⟨p1, hp1, p2, hp2, hn, hm1, hm2⟩
    obtain ⟨o1, ho1, hr1⟩ := PW.mem_right h p1 hp1
    obtain ⟨o2, ho2, hr2⟩ := PW.mem_right h p2 hp2
    exact ⟨o1, ho1, o2, ho2, (NameRel.eq_iff hφ hr1.1 hr2.1).mpr hn, hr1.2.symm ▸ hm1, hr2.2.symm ▸ hm2⟩

theorem checkBrackets_eq_ok {x : Expr} (h : conflictNames (occs [] false x) = []) : checkBrackets x = .ok x := by
  unfold checkBrackets
  simp only [h, List.map_nil]

theorem checkBrackets_eq_error {x : Expr} (h : conflictNames (occs [] false x) ≠ []) :
    ∃ p ps, checkBrackets x = .error (.syntax .inconsistentBrackets p ps) := by
  unfold checkBrackets
  dsimp only
  cases hc : conflictNames (occs [] false x) with
  | nil => exact absurd hc h
  | cons n ns => exact ⟨_, _, rfl⟩

theorem checkBrackets_sim (hφ : Function.Injective φ) {x y : Expr} (h : ESim φ x y) :
    RSim φ (checkBrackets x) (checkBrackets y) := by
  have hrel := occs_rel x y h [] [] false
  have hiff := conflict_transfer hφ hrel
  by_cases hc : conflictNames (occs [] false x) = []
  · have hc' : conflictNames (occs [] false y) = [] := by
      apply Classical.byContradiction
      intro hne
      exact ((conflictNames_ne_nil_iff _).mpr (hiff.mpr ((conflictNames_ne_nil_iff _).mp hne))) hc
    rw [checkBrackets_eq_ok hc, checkBrackets_eq_ok hc']
    exact h
  · have hc' : conflictNames (occs [] false y) ≠ [] :=
      (conflictNames_ne_nil_iff _).mpr (hiff.mp ((conflictNames_ne_nil_iff _).mp hc))
    obtain ⟨p, ps, he⟩ := checkBrackets_eq_error hc
    obtain ⟨p', ps', he'⟩ := checkBrackets_eq_error hc'
    rw [he, he']
    exact rfl

/-! ### Assembly -/

/-- The part of `finish` after the first `move_up` pass. -/
theorem finish_tail_sim (hφ : Function.Injective φ) (arrows arrows' : List Int) {cs cs' : List Expr} {b e b' e' : Int}
    (h : ESimL φ cs cs') :
    RSim φ
      (match moveUpL .args arrows cs with
        | .error err => .error err
        | .ok cs2 =>
          let x3 := traverse false (.op cs2 b e)
          if x3.children.length > 2 then .error (.syntax .multipleArrows arrows [])
          else checkBrackets x3)
      (match moveUpL .args arrows' cs' with
        | .error err => .error err
        | .ok cs2 =>
          let x3 := traverse false (.op cs2 b' e')
          if x3.children.length > 2 then .error (.syntax .multipleArrows arrows' [])
          else checkBrackets x3) := by
  have ih := moveUpL_sim (φ := φ) .args arrows arrows' _ _ h
  revert ih
  cases moveUpL .args arrows cs <;> cases moveUpL .args arrows' cs' <;> simp only [RSimL] <;> intro ih
  · exact ih
  · exact ih.elim
  · exact ih.elim
  · rename_i c2 c2'
    have ht : ESim φ (traverse false (.op c2 b e)) (traverse false (.op c2' b' e')) :=
      traverse_sim false _ _ (ESim.op ih)
    rw [ESimL.length_eq ht.children]
    split
    · exact rfl
    · exact checkBrackets_sim hφ ht

theorem finish_sim {φ : Nat → Nat} (hφ : Function.Injective φ) (arrows arrows' : List Int) {x y : Expr}
    (h : ESim φ x y) : RSim φ (finish arrows x) (finish arrows' y) := by
  have ih := moveUp_sim (φ := φ) .op arrows arrows' _ _ h
  unfold finish
  revert ih
  cases moveUp .op arrows x <;> cases moveUp .op arrows' y <;> simp only [RSim] <;> intro ih
  · exact ih
  · exact ih.elim
  · exact ih.elim
  · cases ih with
    | op hcs => exact finish_tail_sim hφ arrows arrows' hcs
    | axis _ => exact rfl
    | flat _ => exact rfl
    | brackets _ => exact rfl
    | ellipsis _ => exact rfl
    | concat _ => exact rfl
    | list _ => exact rfl
    | args _ => exact rfl

end Einx.Notation
