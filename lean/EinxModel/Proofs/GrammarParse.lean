import EinxModel.Proofs.GrammarDepth0
import EinxModel.Proofs.NotationNFParse
/-!
# `parse` succeeds exactly on the token trees of the attribute grammar `Gram` (helper lemmas for Props/C03Grammar.lean)
-/
namespace Einx.Notation

open NF

/-! ## Kinds of expressions and of the smart constructors -/

theorem exprKind_empty_iff (x : Expr) : exprKind x = .empty ↔ isEmptyList x = true := by
  cases x with
  | list cs b e => cases cs <;> simp [exprKind, isEmptyList]
  | _ => simp [exprKind, isEmptyList]

theorem exprKind_concat_iff (x : Expr) : exprKind x = .concat ↔ x.isConcat = true := by
  cases x with
  | list cs b e => cases cs <;> simp [exprKind, Expr.isConcat]
  | _ => simp [exprKind, Expr.isConcat]

theorem isAxisOrFlat_kind (x : Expr) : isAxisOrFlat x = (exprKind x).isAxisLike := by
  cases x with
  | list cs b e => cases cs <;> simp [exprKind, isAxisOrFlat, Expr.isAxis, Expr.isFlat, Kind.isAxisLike]
  | _ => simp [exprKind, isAxisOrFlat, Expr.isAxis, Expr.isFlat, Kind.isAxisLike]

theorem exprKind_mkFlat (x : Expr) (b e : Int) : exprKind (mkFlat x b e) = .flat := by
  have := mkFlat_isFlat x b e
  cases hm : mkFlat x b e <;> rw [hm] at this <;> simp [Expr.isFlat] at this
  simp [exprKind]

theorem G_item_ndim {ao aa al : Bool} {x : Expr} (h : G ao aa al x = true) (hi : isItem x = true) : x.ndim ≠ some 0 := by
  cases x with
  | axis => simp [Expr.ndim]
  | flat => simp [Expr.ndim]
  | concat => simp [Expr.ndim]
  | brackets i b e =>
    simp only [G, Bool.and_eq_true, bne_iff_ne, ne_eq] at h
    simp only [Expr.ndim]
    exact h.1.2
  | ellipsis i d b e =>
    simp only [G, Bool.or_eq_true, Bool.and_eq_true, bne_iff_ne, ne_eq] at h
    simp only [Expr.ndim]
    rcases h with h | h
    · cases i <;> simp [isAnonAxisNone] at h
      simp [Expr.ndim]
    · have : (i.ndim == some 0) = false := by simpa using h.1
      simp [this]
  | list => simp [isItem] at hi
  | args => simp [isItem] at hi
  | op => simp [isItem] at hi

/-- In the grammar of `parse`'s results only `List([])` has no dimension. -/
theorem G_ndim0 {ao aa al : Bool} {x : Expr} (h : G ao aa al x = true) (hn : x.ndim = some 0) : isEmptyList x = true := by
  cases x with
  | list cs b e =>
    cases cs with
    | nil => rfl
    | cons c cs =>
      simp only [G, Bool.and_eq_true] at h
      have hc : G ao aa false c = true := (GL_iff.mp h.2) c (by simp)
      have := G_item_ndim hc (G_false_item hc)
      simp only [Expr.ndim, ndimSum] at hn
      cases h1 : c.ndim with
      | none => rw [h1] at hn; simp at hn
      | some a =>
        cases h2 : ndimSum cs with
        | none => rw [h1, h2] at hn; simp at hn
        | some b' =>
          rw [h1, h2] at hn
          simp only [Option.some.injEq] at hn
          have : a = 0 := by omega
          subst this
          exact absurd h1 this
  | args => simp [Expr.ndim] at hn
  | op => simp [Expr.ndim] at hn
  | axis => exact absurd hn (G_item_ndim h rfl)
  | flat => exact absurd hn (G_item_ndim h rfl)
  | concat => exact absurd hn (G_item_ndim h rfl)
  | brackets => exact absurd hn (G_item_ndim h rfl)
  | ellipsis => exact absurd hn (G_item_ndim h rfl)

theorem exprKind_emptyList : exprKind emptyList = .empty := rfl

theorem exprKind_mkBrackets {ao aa al : Bool} {x : Expr} (b e : Int) (h : G ao aa al x = true) :
    exprKind (mkBrackets x b e) = (exprKind x).ofBracket := by
  unfold mkBrackets
  split
  · rename_i hb
    cases x <;> simp [Expr.isBrackets] at hb
    simp [exprKind, Kind.ofBracket]
  · split
    · rename_i hn
      have := (exprKind_empty_iff x).mpr (G_ndim0 h (by simpa using hn))
      simp [this, Kind.ofBracket, exprKind_emptyList]
    · rename_i hn
      have hne : exprKind x ≠ .empty := by
        intro he
        have := isEmptyList_ndim ((exprKind_empty_iff x).mp he)
        simp [this] at hn
      rw [Kind.ofBracket, if_neg hne]
      rfl

theorem exprKind_mkEllipsis {ao aa al : Bool} {x : Expr} (b e : Int) (d : Nat) (h : G ao aa al x = true) :
    exprKind (mkEllipsis x b e d) = (exprKind x).ofBracket := by
  unfold mkEllipsis
  split
  · rename_i hn
    have := (exprKind_empty_iff x).mpr (G_ndim0 h (by simpa using hn))
    simp [this, Kind.ofBracket, exprKind_emptyList]
  · rename_i hn
    have hne : exprKind x ≠ .empty := by
      intro he
      have := isEmptyList_ndim ((exprKind_empty_iff x).mp he)
      simp [this] at hn
    rw [Kind.ofBracket, if_neg hne]
    rfl

theorem flattenAll_filter : ∀ {xs : List Expr}, (∀ x ∈ xs, (isItem x || isEmptyList x) = true) →
    flattenAll xs = xs.filter (fun x => !isEmptyList x)
  | [], _ => rfl
  | x :: xs, h => by
    have ih := flattenAll_filter (fun y hy => h y (List.mem_cons_of_mem _ hy))
    have hx := h x (by simp)
    simp only [flattenAll, ih, List.filter_cons]
    cases he : isEmptyList x with
    | true => simp [flattenOne_empty he]
    | false =>
      have hit : isItem x = true := by simpa [he] using hx
      simp [flattenOne_item hit]

theorem exprKind_mkList {xs : List Expr} (b e : Int) (hi : ∀ x ∈ xs, (isItem x || isEmptyList x) = true) :
    exprKind (mkList xs b e) = Kind.ofList (xs.map exprKind) := by
  have hf : (xs.map exprKind).filter (fun k => k != .empty) = (xs.filter (fun x => !isEmptyList x)).map exprKind := by
    rw [List.filter_map]
    congr 1
    apply List.filter_congr
    intro x _
    simp only [Function.comp]
    cases he : isEmptyList x with
    | true => simp [(exprKind_empty_iff x).mpr he]
    | false =>
      have : exprKind x ≠ .empty := fun h => by rw [(exprKind_empty_iff x).mp h] at he; cases he
      simp [this]
  unfold mkList Kind.ofList
  rw [hf, flattenAll_filter hi]
  match xs.filter (fun x => !isEmptyList x) with
  | [] => simp [exprKind]
  | [c] => simp
  | c1 :: c2 :: r => simp [exprKind]

/-! ## `combine` and `combineKind` -/

theorem all_axisLike (xs : List Expr) : (xs.map exprKind).all Kind.isAxisLike = xs.all isAxisOrFlat := by
  rw [List.all_map]
  congr 1
  funext x
  simp [isAxisOrFlat_kind]

theorem combine_kind {op : Str} {xs : List Expr} {b e : Nat} {ipc : Bool} {ts : List Tok}
    (hsp : op = lit " " → ∀ x ∈ xs, (isItem x || isEmptyList x) = true) (h2 : op = lit "+" → 2 ≤ xs.length) :
    (∀ y, combine op xs b e ipc ts = .ok y → combineKind op ipc (xs.map exprKind) = some (exprKind y)) ∧
    (∀ k, combineKind op ipc (xs.map exprKind) = some k → ∃ y, combine op xs b e ipc ts = .ok y ∧ exprKind y = k) := by
  unfold combine combineKind
  by_cases h1 : (op == lit " ") = true
  · simp only [h1, if_true]
    have := exprKind_mkList (Int.ofNat b) (Int.ofNat e) (hsp (by simpa using h1))
    constructor
    · intro y hy; cases hy; exact congrArg some this.symm
    · intro k hk; cases hk; exact ⟨_, rfl, this⟩
  · simp only [h1, if_false]
    by_cases h3 : (op == lit "->") = true
    · simp only [h3, if_true]
      constructor
      · intro y hy; cases hy; rfl
      · intro k hk; cases hk; exact ⟨_, rfl, rfl⟩
    · simp only [h3, if_false]
      by_cases h4 : (op == lit ",") = true
      · simp only [h4, if_true]
        constructor
        · intro y hy; cases hy; rfl
        · intro k hk; cases hk; exact ⟨_, rfl, rfl⟩
      · simp only [h4, if_false]
        by_cases h5 : (op == lit "+") = true
        · simp only [h5, if_true]
          have hlen := h2 (by simpa using h5)
          have hk : exprKind (mkConcat xs (Int.ofNat b) (Int.ofNat e)) = .concat := by
            rw [mkConcat_two _ _ hlen]; rfl
          rw [all_axisLike]
          by_cases hall : xs.all isAxisOrFlat = true
          · have hinv : (xs.filter (fun o => !isAxisOrFlat o)) = [] := by
              rw [List.filter_eq_nil_iff]
              intro a ha
              have := List.all_eq_true.mp hall a ha
              simp [this]
            simp only [hinv, hall, List.isEmpty_nil, Bool.not_true, Bool.false_eq_true, if_false, Bool.true_and]
            cases ipc with
            | true =>
              simp only [Bool.not_true, Bool.false_eq_true, if_false, if_true]
              constructor
              · intro y hy; cases hy; exact congrArg some hk.symm
              · intro k hk'; cases hk'; exact ⟨_, rfl, hk⟩
            | false =>
              simp only [Bool.not_false, if_true, Bool.false_eq_true, if_false]
              constructor
              · intro y hy; cases hy
              · intro k hk'; cases hk'
          · have hinv : (xs.filter (fun o => !isAxisOrFlat o)).isEmpty = false := by
              rw [List.isEmpty_eq_false_iff]
              intro h0
              rw [List.filter_eq_nil_iff] at h0
              apply hall
              rw [List.all_eq_true]
              intro a ha
              have := h0 a ha
              simpa using this
            have hall' : xs.all isAxisOrFlat = false := by simpa using hall
            simp only [hinv, hall', Bool.not_false, if_true, Bool.false_and, Bool.false_eq_true, if_false]
            constructor
            · intro y hy; cases hy
            · intro k hk'; cases hk'
        · simp only [h5, if_false]
          constructor
          · intro y hy; cases hy
          · intro k hk'; cases hk'

/-! ## `mapM` -/

theorem mapM_ok_map {α β γ : Type} (f : α → Res β) (g : β → γ) (h : α → γ) : ∀ (l : List α) (xs : List β),
    l.mapM f = .ok xs → (∀ a ∈ l, ∀ x, f a = .ok x → g x = h a) → xs.map g = l.map h
  | [], xs, hm, _ => by
    simp only [List.mapM_nil, pure, Except.pure, Except.ok.injEq] at hm
    subst hm; rfl
  | a :: l, xs, hm, hg => by
    simp only [List.mapM_cons, bind, Except.bind] at hm
    cases hfa : f a with
    | error err => rw [hfa] at hm; simp at hm
    | ok y =>
      rw [hfa] at hm
      simp only at hm
      cases hl : l.mapM f with
      | error err => rw [hl] at hm; simp at hm
      | ok ys =>
        rw [hl] at hm
        simp only [pure, Except.pure, Except.ok.injEq] at hm
        subst hm
        simp only [List.map_cons, List.cons.injEq]
        exact ⟨hg a (by simp) y hfa, mapM_ok_map f g h l ys hl (fun a' ha' => hg a' (List.mem_cons_of_mem _ ha'))⟩

theorem mapM_ok_of_all {α β : Type} (f : α → Res β) : ∀ (l : List α), (∀ a ∈ l, ∃ x, f a = .ok x) → ∃ xs, l.mapM f = .ok xs
  | [], _ => ⟨[], rfl⟩
  | a :: l, h => by
    obtain ⟨y, hy⟩ := h a (by simp)
    obtain ⟨ys, hys⟩ := mapM_ok_of_all f l (fun a' ha' => h a' (List.mem_cons_of_mem _ ha'))
    refine ⟨y :: ys, ?_⟩
    simp only [List.mapM_cons, bind, Except.bind, hy, hys]
    rfl

theorem parse_G_ok {ts : List Tok} {b e : Nat} {ipc : Bool} {x : Expr} (h : parse ts b e ipc = .ok x) :
    G true true true x = true ∧ (findOp naryOps (strip ts) = none → (isItem x || isEmptyList x) = true) := by
  have := parse_G ts b e ipc
  rw [h] at this
  exact this

/-- Side conditions of `combine_kind` for the parsed operands of an operator found by `findOp`. -/
theorem operands_side {ts1 : List Tok} {op : Str} {xs : List Expr} (hop : findOp naryOps ts1 = some op)
    (heq : (keepOperands op (operands op ts1)).mapM (fun o => parse o.ts o.b o.e false) = .ok xs) :
    (op = lit " " → ∀ x ∈ xs, (isItem x || isEmptyList x) = true) ∧ (op = lit "+" → 2 ≤ xs.length) := by
  have hlen := NF.mapM_ok_length _ _ _ heq
  constructor
  · intro hsp x hx
    obtain ⟨a, ha, hax⟩ := mapM_ok_mem _ _ _ heq x hx
    subst hsp
    exact (parse_G_ok hax).2 (space_operand_noOps hop (mem_keepOperands ha))
  · intro hpl
    have hsp : op ≠ lit " " := by rw [hpl]; decide
    rw [keepOperands_of_ne hsp] at hlen
    have := operands_length_two (findOp_any hop)
    omega

end Einx.Notation
