import EinxModel.Proofs.GrammarDepth0
import EinxModel.Proofs.NotationNFParse
/-!
# `parse` succeeds exactly on the token trees of the attribute grammar `Gram` (helper lemmas for Props/C03Grammar.lean)
-/
namespace Einx.Notation

open NF

/-! ## Kinds of expressions and of the smart constructors -/

theorem exprKind_empty_iff (x : Expr) : exprKind x = .empty ↔ isEmptyList x = true := by
  cases x with
  | list cs b e => cases cs <;> simp [exprKind, isEmptyList]
  | _ => simp [exprKind, isEmptyList]

theorem exprKind_concat_iff (x : Expr) : exprKind x = .concat ↔ x.isConcat = true := by
  cases x with
  | list cs b e => cases cs <;> simp [exprKind, Expr.isConcat]
  | _ => simp [exprKind, Expr.isConcat]

theorem isAxisOrFlat_kind (x : Expr) : isAxisOrFlat x = (exprKind x).isAxisLike := by
  cases x with
  | list cs b e => cases cs <;> simp [exprKind, isAxisOrFlat, Expr.isAxis, Expr.isFlat, Kind.isAxisLike]
  | _ => simp [exprKind, isAxisOrFlat, Expr.isAxis, Expr.isFlat, Kind.isAxisLike]

theorem exprKind_mkFlat (x : Expr) (b e : Int) : exprKind (mkFlat x b e) = .flat := by
  have := mkFlat_isFlat x b e
  cases hm : mkFlat x b e <;> rw [hm] at this <;> simp [Expr.isFlat] at this
  simp [exprKind]

theorem G_item_ndim {ao aa al : Bool} {x : Expr} (h : G ao aa al x = true) (hi : isItem x = true) : x.ndim ≠ some 0 := by
  cases x with
  | axis => simp [Expr.ndim]
  | flat => simp [Expr.ndim]
  | concat => simp [Expr.ndim]
  | brackets i b e =>
    simp only [G, Bool.and_eq_true, bne_iff_ne, ne_eq] at h
    simp only [Expr.ndim]
    exact h.1.2
  | ellipsis i d b e =>
    simp only [G, Bool.or_eq_true, Bool.and_eq_true, bne_iff_ne, ne_eq] at h
    simp only [Expr.ndim]
    rcases h with h | h
    · cases i <;> simp [isAnonAxisNone] at h
      simp [Expr.ndim]
    · have : (i.ndim == some 0) = false := by simpa using h.1
      simp [this]
  | list => simp [isItem] at hi
  | args => simp [isItem] at hi
  | op => simp [isItem] at hi

/-- In the grammar of `parse`'s results only `List([])` has no dimension. -/
theorem G_ndim0 {ao aa al : Bool} {x : Expr} (h : G ao aa al x = true) (hn : x.ndim = some 0) : isEmptyList x = true := by
  cases x with
  | list cs b e =>
    cases cs with
    | nil => rfl
    | cons c cs =>
      simp only [G, Bool.and_eq_true] at h
      have hc : G ao aa false c = true := (GL_iff.mp h.2) c (by simp)
      have := G_item_ndim hc (G_false_item hc)
      simp only [Expr.ndim, ndimSum] at hn
      cases h1 : c.ndim with
      | none => rw [h1] at hn; simp at hn
      | some a =>
        cases h2 : ndimSum cs with
        | none => rw [h1, h2] at hn; simp at hn
        | some b' =>
          rw [h1, h2] at hn
          simp only [Option.some.injEq] at hn
          have : a = 0 := by omega
          subst this
          exact absurd h1 this
  | args => simp [Expr.ndim] at hn
  | op => simp [Expr.ndim] at hn
  | axis => exact absurd hn (G_item_ndim h rfl)
  | flat => exact absurd hn (G_item_ndim h rfl)
  | concat => exact absurd hn (G_item_ndim h rfl)
  | brackets => exact absurd hn (G_item_ndim h rfl)
  | ellipsis => exact absurd hn (G_item_ndim h rfl)

theorem exprKind_emptyList : exprKind emptyList = .empty := rfl

theorem exprKind_mkBrackets {ao aa al : Bool} {x : Expr} (b e : Int) (h : G ao aa al x = true) :
    exprKind (mkBrackets x b e) = (exprKind x).ofBracket := by
  unfold mkBrackets
  split
  · rename_i hb
    cases x <;> simp [Expr.isBrackets] at hb
    simp [exprKind, Kind.ofBracket]
  · split
    · rename_i hn
      have := (exprKind_empty_iff x).mpr (G_ndim0 h (by simpa using hn))
      simp [this, Kind.ofBracket, exprKind_emptyList]
    · rename_i hn
      have hne : exprKind x ≠ .empty := by
        intro he
        have := isEmptyList_ndim ((exprKind_empty_iff x).mp he)
        simp [this] at hn
      rw [Kind.ofBracket, if_neg hne]
      rfl

theorem exprKind_mkEllipsis {ao aa al : Bool} {x : Expr} (b e : Int) (d : Nat) (h : G ao aa al x = true) :
    exprKind (mkEllipsis x b e d) = (exprKind x).ofBracket := by
  unfold mkEllipsis
  split
  · rename_i hn
    have := (exprKind_empty_iff x).mpr (G_ndim0 h (by simpa using hn))
    simp [this, Kind.ofBracket, exprKind_emptyList]
  · rename_i hn
    have hne : exprKind x ≠ .empty := by
      intro he
      have := isEmptyList_ndim ((exprKind_empty_iff x).mp he)
      simp [this] at hn
    rw [Kind.ofBracket, if_neg hne]
    rfl

theorem flattenAll_filter : ∀ {xs : List Expr}, (∀ x ∈ xs, (isItem x || isEmptyList x) = true) →
    flattenAll xs = xs.filter (fun x => !isEmptyList x)
  | [], _ => rfl
  | x :: xs, h => by
    have ih := flattenAll_filter (fun y hy => h y (List.mem_cons_of_mem _ hy))
    have hx := h x (by simp)
    simp only [flattenAll, ih, List.filter_cons]
    cases he : isEmptyList x with
    | true => simp [flattenOne_empty he]
    | false =>
      have hit : isItem x = true := by simpa [he] using hx
      simp [flattenOne_item hit]

theorem exprKind_mkList {xs : List Expr} (b e : Int) (hi : ∀ x ∈ xs, (isItem x || isEmptyList x) = true) :
    exprKind (mkList xs b e) = Kind.ofList (xs.map exprKind) := by
  have hf : (xs.map exprKind).filter (fun k => k != .empty) = (xs.filter (fun x => !isEmptyList x)).map exprKind := by
    rw [List.filter_map]
    congr 1
    apply List.filter_congr
    intro x _
    simp only [Function.comp]
    cases he : isEmptyList x with
    | true => simp [(exprKind_empty_iff x).mpr he]
    | false =>
      have : exprKind x ≠ .empty := fun h => by rw [(exprKind_empty_iff x).mp h] at he; cases he
      simp [this]
  unfold mkList Kind.ofList
  rw [hf, flattenAll_filter hi]
  match xs.filter (fun x => !isEmptyList x) with
  | [] => simp [exprKind]
  | [c] => simp
  | c1 :: c2 :: r => simp [exprKind]

/-! ## `combine` and `combineKind` -/

theorem all_axisLike (xs : List Expr) : (xs.map exprKind).all Kind.isAxisLike = xs.all isAxisOrFlat := by
  rw [List.all_map]
  congr 1
  funext x
  simp [isAxisOrFlat_kind]

theorem combine_kind {op : Str} {xs : List Expr} {b e : Nat} {ipc : Bool} {ts : List Tok}
    (hsp : op = lit " " → ∀ x ∈ xs, (isItem x || isEmptyList x) = true) (h2 : op = lit "+" → 2 ≤ xs.length) :
    (∀ y, combine op xs b e ipc ts = .ok y → combineKind op ipc (xs.map exprKind) = some (exprKind y)) ∧
    (∀ k, combineKind op ipc (xs.map exprKind) = some k → ∃ y, combine op xs b e ipc ts = .ok y ∧ exprKind y = k) := by
  unfold combine combineKind
  by_cases h1 : (op == lit " ") = true
  · simp only [h1, if_true]
    have := exprKind_mkList (Int.ofNat b) (Int.ofNat e) (hsp (by simpa using h1))
    constructor
    · intro y hy; cases hy; exact congrArg some this.symm
    · intro k hk; cases hk; exact ⟨_, rfl, this⟩
  · simp only [h1, if_false]
    by_cases h3 : (op == lit "->") = true
    · simp only [h3, if_true]
      constructor
      · intro y hy; cases hy; rfl
      · intro k hk; cases hk; exact ⟨_, rfl, rfl⟩
    · simp only [h3, if_false]
      by_cases h4 : (op == lit ",") = true
      · simp only [h4, if_true]
        constructor
        · intro y hy; cases hy; rfl
        · intro k hk; cases hk; exact ⟨_, rfl, rfl⟩
      · simp only [h4, if_false]
        by_cases h5 : (op == lit "+") = true
        · simp only [h5, if_true]
          have hlen := h2 (by simpa using h5)
          have hk : exprKind (mkConcat xs (Int.ofNat b) (Int.ofNat e)) = .concat := by
            rw [mkConcat_two _ _ hlen]; rfl
          rw [all_axisLike]
          by_cases hall : xs.all isAxisOrFlat = true
          · have hinv : (xs.filter (fun o => !isAxisOrFlat o)) = [] := by
              rw [List.filter_eq_nil_iff]
              intro a ha
              have := List.all_eq_true.mp hall a ha
              simp [this]
            simp only [hinv, hall, List.isEmpty_nil, Bool.not_true, Bool.false_eq_true, if_false, Bool.true_and]
            cases ipc with
            | true =>
              simp only [Bool.not_true, Bool.false_eq_true, if_false, if_true]
              constructor
              · intro y hy; cases hy; exact congrArg some hk.symm
              · intro k hk'; cases hk'; exact ⟨_, rfl, hk⟩
            | false =>
              simp only [Bool.not_false, if_true, Bool.false_eq_true, if_false]
              constructor
              · intro y hy; cases hy
              · intro k hk'; cases hk'
          · have hinv : (xs.filter (fun o => !isAxisOrFlat o)).isEmpty = false := by
              rw [List.isEmpty_eq_false_iff]
              intro h0
              rw [List.filter_eq_nil_iff] at h0
              apply hall
              rw [List.all_eq_true]
              intro a ha
              have := h0 a ha
              simpa using this
            have hall' : xs.all isAxisOrFlat = false := by simpa using hall
            simp only [hinv, hall', Bool.not_false, if_true, Bool.false_and, Bool.false_eq_true, if_false]
            constructor
            · intro y hy; cases hy
            · intro k hk'; cases hk'
        · simp only [h5, if_false]
          constructor
          · intro y hy; cases hy
          · intro k hk'; cases hk'

/-! ## `mapM` -/

theorem mapM_ok_map {α β γ : Type} (f : α → Res β) (g : β → γ) (h : α → γ) : ∀ (l : List α) (xs : List β),
    l.mapM f = .ok xs → (∀ a ∈ l, ∀ x, f a = .ok x → g x = h a) → xs.map g = l.map h
  | [], xs, hm, _ => by
    simp only [List.mapM_nil, pure, Except.pure, Except.ok.injEq] at hm
    subst hm; rfl
  | a :: l, xs, hm, hg => by
    simp only [List.mapM_cons, bind, Except.bind] at hm
    cases hfa : f a with
    | error err => rw [hfa] at hm; simp at hm
    | ok y =>
      rw [hfa] at hm
      simp only at hm
      cases hl : l.mapM f with
      | error err => rw [hl] at hm; simp at hm
      | ok ys =>
        rw [hl] at hm
        simp only [pure, Except.pure, Except.ok.injEq] at hm
        subst hm
        simp only [List.map_cons, List.cons.injEq]
        exact ⟨hg a (by simp) y hfa, mapM_ok_map f g h l ys hl (fun a' ha' => hg a' (List.mem_cons_of_mem _ ha'))⟩

theorem mapM_ok_of_all {α β : Type} (f : α → Res β) : ∀ (l : List α), (∀ a ∈ l, ∃ x, f a = .ok x) → ∃ xs, l.mapM f = .ok xs
  | [], _ => ⟨[], rfl⟩
  | a :: l, h => by
    obtain ⟨y, hy⟩ := h a (by simp)
    obtain ⟨ys, hys⟩ := mapM_ok_of_all f l (fun a' ha' => h a' (List.mem_cons_of_mem _ ha'))
    refine ⟨y :: ys, ?_⟩
    simp only [List.mapM_cons, bind, Except.bind, hy, hys]
    rfl

theorem parse_G_ok {ts : List Tok} {b e : Nat} {ipc : Bool} {x : Expr} (h : parse ts b e ipc = .ok x) :
    G true true true x = true ∧ (findOp naryOps (strip ts) = none → (isItem x || isEmptyList x) = true) := by
  have := parse_G ts b e ipc
  rw [h] at this
  exact this

/-- Side conditions of `combine_kind` for the parsed operands of an operator found by `findOp`. -/
theorem operands_side {ts1 : List Tok} {op : Str} {xs : List Expr} (hop : findOp naryOps ts1 = some op)
    (heq : (keepOperands op (operands op ts1)).mapM (fun o => parse o.ts o.b o.e false) = .ok xs) :
    (op = lit " " → ∀ x ∈ xs, (isItem x || isEmptyList x) = true) ∧ (op = lit "+" → 2 ≤ xs.length) := by
  have hlen := NF.mapM_ok_length _ _ _ heq
  constructor
  · intro hsp x hx
    obtain ⟨a, ha, hax⟩ := mapM_ok_mem _ _ _ heq x hx
    subst hsp
    exact (parse_G_ok hax).2 (space_operand_noOps hop (mem_keepOperands ha))
  · intro hpl
    have hsp : op ≠ lit " " := by rw [hpl]; decide
    rw [keepOperands_of_ne hsp] at hlen
    have := operands_length_two (findOp_any hop)
    omega

/-! ## `parse` succeeds ⇒ the token list is in the grammar -/

/-- The kind of an operand: the kind of what `parse` returns for it. -/
def kindOfTL (o : TL) : Kind :=
  match parse o.ts o.b o.e false with
  | .ok x => exprKind x
  | .error _ => .other

theorem parse_gram (ts : List Tok) (b e : Nat) (ipc : Bool) :
    ∀ r, parse ts b e ipc = .ok r → Gram ipc ts (exprKind r) := by
  fun_induction parse ts b e ipc with
  | case1 ts b e ipc hs =>
    intro r hr; cases hr
    have h0 : ∀ (b e : Int), exprKind (mkList [] b e) = .empty := by intro b e; simp [mkList, flattenAll, exprKind]
    rw [h0]
    exact Gram.nil hs
  | case2 => intro r hr; cases hr
  | case3 ts b e ipc o c inner hs ib x heq ho hc ih =>
    intro r hr; cases hr
    have ho' : o.text = ['('] := by simpa [lit] using ho
    rw [ho] at ih
    have hg := Gram.paren (ipc := ipc) hs ho' (ih x (by rw [← ho]; exact heq))
    have hk := (exprKind_concat_iff x).mpr hc
    simpa [Kind.ofParen, hk] using hg
  | case4 ts b e ipc o c inner hs ib x heq ho hc ih =>
    intro r hr; cases hr
    have ho' : o.text = ['('] := by simpa [lit] using ho
    rw [ho] at ih
    have hg := Gram.paren (ipc := ipc) hs ho' (ih x (by rw [← ho]; exact heq))
    have hk : exprKind x ≠ .concat := fun h => hc ((exprKind_concat_iff x).mp h)
    rw [exprKind_mkFlat]
    simpa [Kind.ofParen, hk] using hg
  | case5 ts b e ipc o c inner hs ib x heq ho hb ih =>
    intro r hr; cases hr
    have hb' : o.text = ['['] := by simpa [lit] using hb
    have ho' : (o.text == lit "(") = false := by simpa using ho
    rw [ho'] at ih heq
    have hg := Gram.bracket (ipc := ipc) hs hb' (ih x heq)
    rw [exprKind_mkBrackets _ _ (parse_G_ok heq).1]
    exact hg
  | case6 => intro r hr; cases hr
  | case7 => intro r hr; cases hr
  | case8 ts b e ipc t0 rest _ hs ts1 b1 e1 op hop xs heq ih =>
    intro r hr
    rw [mapM_attach_eq _ (fun (o : TL) => parse o.ts o.b o.e false)] at heq
    have hside := operands_side hop heq
    have hmap : xs.map exprKind = (keepOperands op (operands op ts1)).map kindOfTL :=
      mapM_ok_map _ _ _ _ _ heq (by
        intro a _ x hax
        simp only [kindOfTL, hax])
    have hk := (combine_kind (b := b1) (e := e1) (ipc := ipc) (ts := ts1) hside.1 hside.2).1 r hr
    rw [hmap] at hk
    refine Gram.nary kindOfTL hs hop ?_ hk
    intro o ho
    obtain ⟨x, hx⟩ := mapM_ok_all _ _ _ heq o ho
    have := ih ⟨o, ho⟩ x hx
    simpa [kindOfTL, hx] using this
  | case9 ts b e ipc t hs h1 h2 h3 ts1 hop =>
    intro r hr; cases hr
    have h0 : ∀ (b e : Int) (d : Nat), exprKind (mkEllipsis (.axis anonName none b b) b e d) = .other := by
      intro b e d; simp [mkEllipsis, Expr.ndim, exprKind]
    rw [h0]
    exact Gram.dots hs (by simpa using h1)
  | case10 ts b e ipc t hs ht _ _ ts1 hop =>
    intro r hr
    have hne : t.text ≠ ellipsisLit := by simpa using ht
    unfold parseAxis at hr
    split at hr
    · rename_i hd
      split at hr
      · cases hr
        exact Gram.axis hs hop hne (Or.inl hd)
      · cases hr
    · split at hr
      · rename_i hn
        cases hr
        exact Gram.axis hs hop hne (Or.inr hn)
      · cases hr
  | case11 => intro r hr; cases hr
  | case12 ts b e ipc x t hs ht operand heq _ _ ts1 hop ih =>
    intro r hr; cases hr
    rw [exprKind_mkEllipsis _ _ _ (parse_G_ok heq).1]
    exact Gram.ell hs hop (by simpa using ht) (ih operand heq)
  | case13 => intro r hr; cases hr
  | case14 => intro r hr; cases hr

/-! ## The token list is in the grammar ⇒ `parse` succeeds -/

theorem findOp_group_none (o c : Token) (inner : List Tok) : ∀ ops : List Str, findOp ops [.group o c inner] = none
  | [] => rfl
  | _ :: ops => by simp [findOp, Tok.isText, findOp_group_none o c inner ops]

theorem findOp_dots_none {t : Token} (ht : t.text = ellipsisLit) : findOp naryOps [.atom t] = none := by
  rw [naryOps_eq']
  have e1 : (ellipsisLit == lit "->") = false := by decide
  have e2 : (ellipsisLit == lit ",") = false := by decide
  have e3 : (ellipsisLit == lit "+") = false := by decide
  have e4 : (ellipsisLit == spaceLit) = false := by decide
  simp [findOp, Tok.isText, ht, e1, e2, e3, e4]

theorem parseAxis_ok_kind {t : Token} (h : isDigitStr t.text = true ∨ isAxisName t.text = true) :
    ∃ x, parseAxis t = .ok x ∧ exprKind x = .axis := by
  unfold parseAxis
  by_cases hd : isDigitStr t.text = true
  · have hall : t.text.all isDecimalChar = true := by
      simp only [isDigitStr, Bool.and_eq_true] at hd
      rw [List.all_eq_true] at hd ⊢
      intro c hc
      rw [isDigit_isDecimal]
      exact hd.2 c hc
    simp only [hd, hall, if_true]
    exact ⟨_, rfl, rfl⟩
  · have hn : isAxisName t.text = true := by
      rcases h with h | h
      · exact absurd h hd
      · exact h
    simp only [hd, hn, if_true, Bool.false_eq_true, if_false]
    exact ⟨_, rfl, rfl⟩

theorem gram_parse {ipc : Bool} {ts : List Tok} {k : Kind} (h : Gram ipc ts k) :
    ∀ b e, ∃ x, parse ts b e ipc = .ok x ∧ exprKind x = k := by
  induction h with
  | nil hs =>
    intro b e
    exact ⟨_, parse_nil b e _ hs, by simp [mkList, flattenAll, exprKind]⟩
  | @paren ipc ts o c inner k hs ho _ ih =>
    intro b e
    have ho' : (o.text == lit "(") = true := by simp [ho, lit]
    obtain ⟨x, hx, hk⟩ := ih (firstInnerPos inner c) (lastEnd inner (firstInnerPos inner c))
    rw [parse_group b e ipc hs, ho', hx]
    simp only [if_true]
    by_cases hc : x.isConcat = true
    · simp only [hc, if_true]
      have := (exprKind_concat_iff x).mpr hc
      exact ⟨x, rfl, by rw [← hk, this]; simp [Kind.ofParen]⟩
    · simp only [hc, Bool.false_eq_true, if_false]
      have : exprKind x ≠ .concat := fun h => hc ((exprKind_concat_iff x).mp h)
      refine ⟨_, rfl, ?_⟩
      rw [exprKind_mkFlat, ← hk]
      simp [Kind.ofParen, this]
  | @bracket ipc ts o c inner k hs ho _ ih =>
    intro b e
    have ho' : (o.text == lit "(") = false := by simp [ho, lit]
    have hb' : (o.text == lit "[") = true := by simp [ho, lit]
    obtain ⟨x, hx, hk⟩ := ih (firstInnerPos inner c) (lastEnd inner (firstInnerPos inner c))
    rw [parse_group b e ipc hs, ho', hx]
    simp only [Bool.false_eq_true, if_false, hb', if_true]
    refine ⟨_, rfl, ?_⟩
    rw [exprKind_mkBrackets _ _ (parse_G_ok hx).1, hk]
  | @nary ipc ts t0 rest op k ks hs hop _ hk ih =>
    intro b e
    have hng : NotGroup t0 rest := by
      intro o c inner h0 hr
      subst h0; subst hr
      rw [findOp_group_none] at hop
      cases hop
    rw [parse_nary b e ipc hs hng hop]
    obtain ⟨xs, heq⟩ := mapM_ok_of_all (fun (o : TL) => parse o.ts o.b o.e false)
      (keepOperands op (operands op (t0 :: rest))) (fun o ho => by
        obtain ⟨x, hx, _⟩ := ih o ho o.b o.e
        exact ⟨x, hx⟩)
    have hmap : xs.map exprKind = (keepOperands op (operands op (t0 :: rest))).map ks :=
      mapM_ok_map _ _ _ _ _ heq (by
        intro a ha x hax
        obtain ⟨x', hx', hk'⟩ := ih a ha a.b a.e
        rw [hax] at hx'
        cases hx'
        exact hk')
    have hside := operands_side hop heq
    rw [← hmap] at hk
    obtain ⟨y, hy, hyk⟩ := (combine_kind (b := t0.b) (e := lastEnd (t0 :: rest) 0) (ipc := ipc) (ts := t0 :: rest) hside.1 hside.2).2 k hk
    rw [heq]
    exact ⟨y, hy, hyk⟩
  | @axis ipc ts t hs hop hne hda =>
    intro b e
    have : (t.text == ellipsisLit) = false := by simpa using hne
    rw [parse_atom b e ipc hs hop, this]
    simp only [Bool.false_eq_true, if_false]
    exact parseAxis_ok_kind hda
  | @dots ipc ts t hs ht =>
    intro b e
    have : (t.text == ellipsisLit) = true := by simp [ht]
    rw [parse_atom b e ipc hs (findOp_dots_none ht), this]
    simp only [if_true]
    exact ⟨_, rfl, by simp [mkEllipsis, Expr.ndim, exprKind]⟩
  | @ell ipc ts x t k hs hop ht _ ih =>
    intro b e
    have : (t.text == ellipsisLit) = true := by simp [ht]
    obtain ⟨y, hy, hk⟩ := ih x.b x.e
    rw [parse_ell b e ipc hs hop, this, hy]
    simp only [if_true]
    refine ⟨_, rfl, ?_⟩
    rw [exprKind_mkEllipsis _ _ _ (parse_G_ok hy).1, hk]

end Einx.Notation
