import EinxModel.Proofs.LowerEwDenote
/-! Shared definitions of the two halves of `lower_reduce_correct` (run side: `Proofs/LowerRedRun.lean`, denotation
side: `Proofs/LowerRedDenote.lean`): the cell a reduction computes for a valuation of the un-bracketed axis names. -/
namespace Einx.Lower
open Einx Einx.IR Einx.Generic Einx.Denote

/-- The bracketed axes of a flat expression (`m` lists the bracketed names). -/
def markedAxes (m : List String) (L : List Ax) : List Ax := L.filter (fun a => m.contains a.name)

/-- The valuation `val` with the axes of `Mk` overridden by the multi-index `τ` (position by position). -/
def ovr (Mk : List Ax) (τ : List Nat) (val : String → Nat) : String → Nat :=
  fun n => match (names Mk).idxOf? n with
    | some j => τ.getD j 0
    | none => val n

/-- The cell of a reduction `f` over the bracketed axes of the input with leaf axes `Li`: the canonical reduction
cell of the input elements addressed by `val` on the un-bracketed axes and by every multi-index of the bracketed
axes, in row-major order. -/
def redCell (f : String) (m : List String) (Li : List Ax) (val : String → Nat) : Cell :=
  mkRed f ((allIndices (lens (markedAxes m Li))).map
    (fun τ => .src 0 (ravel (lens Li) (idx Li (ovr (markedAxes m Li) τ val)))))

end Einx.Lower
