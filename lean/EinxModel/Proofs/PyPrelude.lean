import EinxModel.Basic.PyPrelude
/-! Lemmas about the reading of Python's builtins (`Basic/PyPrelude.lean`) that the `extracted_*_eq`
theorems need: sets as duplicate-free lists, `index`, dicts as association lists. -/
namespace Einx.Py

/-! ### sets -/

theorem mem_setOf {α : Type} [BEq α] [LawfulBEq α] (x : α) : ∀ l : List α, x ∈ setOf l ↔ x ∈ l
  | [] => by simp [setOf]
  | y :: ys => by
    have ih := mem_setOf x ys
    unfold setOf
    split
    · rename_i h
      rw [ih]
      simp only [List.mem_cons]
      constructor
      · exact Or.inr
      · rintro (rfl | h2)
        · simpa using h
        · exact h2
    · simp only [List.mem_cons, ih]

theorem contains_setOf {α : Type} [BEq α] [LawfulBEq α] (l : List α) (x : α) :
    (setOf l).contains x = l.contains x := by
  have := mem_setOf x l
  cases h1 : (setOf l).contains x <;> cases h2 : l.contains x <;> simp_all

theorem mem_setDiff {α : Type} [BEq α] [LawfulBEq α] (a b : List α) (x : α) :
    x ∈ setDiff a b ↔ x ∈ a ∧ x ∉ b := by
  simp [setDiff]

theorem contains_setDiff {α : Type} [BEq α] [LawfulBEq α] (a b : List α) (x : α) :
    (setDiff a b).contains x = (a.contains x && !b.contains x) := by
  have := mem_setDiff a b x
  cases h1 : (setDiff a b).contains x <;> cases h2 : a.contains x <;> cases h3 : b.contains x <;> simp_all

/-- A list is non-empty iff it has a member, as a `decide`d test on the length. -/
theorem length_pos_iff_exists {α : Type} (l : List α) : 0 < l.length ↔ ∃ x, x ∈ l := by
  cases l with
  | nil => simp
  | cons a t => simp

/-- Two lists with the same members are both empty or both non-empty. -/
theorem decide_length_pos_congr {α : Type} (l m : List α) (h : ∀ x, x ∈ l ↔ x ∈ m) :
    decide (l.length > 0) = decide (m.length > 0) := by
  have : (0 < l.length) ↔ (0 < m.length) := by
    rw [length_pos_iff_exists, length_pos_iff_exists]
    exact ⟨fun ⟨x, hx⟩ => ⟨x, (h x).mp hx⟩, fun ⟨x, hx⟩ => ⟨x, (h x).mpr hx⟩⟩
  simp only [gt_iff_lt, this]

/-- `set(a) == set(b)` is mutual inclusion of the lists. -/
theorem setEq_setOf {α : Type} [BEq α] [LawfulBEq α] (a b : List α) :
    setEq (setOf a) (setOf b) = (a.all (fun x => b.contains x) && b.all (fun x => a.contains x)) := by
  unfold setEq
  have h1 : ∀ a b : List α, (setOf a).all (fun x => (setOf b).contains x) = a.all (fun x => b.contains x) := by
    intro a b
    rw [Bool.eq_iff_iff]
    simp only [List.all_eq_true, contains_setOf, mem_setOf]
  rw [h1 a b, h1 b a]

/-! ### index -/

theorem index_of_mem {α : Type} [BEq α] [LawfulBEq α] (l : List α) (x : α) (h : x ∈ l) :
    index l x = .ok (l.idxOf x) := by
  unfold index
  simp [h]

/-- `[l.index(x) for x in xs]` succeeds when every `x` occurs in `l`. -/
theorem mapM_index_of_subset {α : Type} [BEq α] [LawfulBEq α] (l : List α) : ∀ (xs : List α), (∀ x ∈ xs, x ∈ l) →
    xs.mapM (fun x => index l x) = .ok (xs.map (fun x => l.idxOf x))
  | [], _ => rfl
  | x :: xs, h => by
    have ih := mapM_index_of_subset l xs (fun y hy => h y (List.mem_cons_of_mem _ hy))
    rw [List.mapM_cons, index_of_mem l x (h x (List.mem_cons_self ..)), ih]
    rfl

/-! ### dicts -/

theorem lookup_dictSet {κ ν : Type} [BEq κ] [LawfulBEq κ] (k : κ) (v : ν) (k' : κ) : ∀ d : List (κ × ν),
    (dictSet d k v).lookup k' = if k' == k then some v else d.lookup k'
  | [] => by
    simp only [dictSet, List.lookup]
    cases h : k' == k <;> simp
  | (k0, v0) :: d => by
    have ih := lookup_dictSet k v k' d
    cases hk : k == k0
    · have e : dictSet ((k0, v0) :: d) k v = (k0, v0) :: dictSet d k v := by simp [dictSet, hk]
      rw [e, List.lookup_cons, List.lookup_cons, ih]
      cases h : k' == k0
      · rfl
      · have h1 : k' = k0 := by simpa using h
        have : (k' == k) = false := by
          subst h1
          cases h2 : k' == k
          · rfl
          · have : k' = k := by simpa using h2
            subst this
            simp at hk
        simp [this]
    · have hkk : k = k0 := by simpa using hk
      subst hkk
      have e : dictSet ((k, v0) :: d) k v = (k, v) :: d := by simp [dictSet]
      rw [e, List.lookup_cons, List.lookup_cons]
      cases h : k' == k <;> simp

theorem dictGetD_dictSet {κ ν : Type} [BEq κ] [LawfulBEq κ] (d : List (κ × ν)) (k : κ) (v : ν) (k' : κ) (dflt : ν) :
    dictGetD (dictSet d k v) k' dflt = if k' == k then v else dictGetD d k' dflt := by
  unfold dictGetD
  rw [lookup_dictSet]
  cases h : k' == k <;> simp

theorem dictGetD_nil {κ ν : Type} [BEq κ] (k : κ) (dflt : ν) : dictGetD ([] : List (κ × ν)) k dflt = dflt := rfl

end Einx.Py
