import EinxModel.Adapt.Model
import EinxModel.Extracted.Adapt
/-! Helper lemmas for C15 (`Props/C15.lean`). -/
namespace Einx.Adapt
open Einx Einx.Denote

/-! ### `splitKwargs` -/

theorem split_fst {α : Type} (isk : String → Bool) (kw : List (String × α)) :
    (splitKwargs isk kw).1 = kw.filter (fun kv => isk kv.1) := by
  induction kw with
  | nil => rfl
  | cons kv rest ih =>
    obtain ⟨k, v⟩ := kv
    simp only [splitKwargs, List.filter_cons]
    split <;> simp_all

theorem split_snd {α : Type} (isk : String → Bool) (kw : List (String × α)) :
    (splitKwargs isk kw).2 = kw.filter (fun kv => !isk kv.1) := by
  induction kw with
  | nil => rfl
  | cons kv rest ih =>
    obtain ⟨k, v⟩ := kv
    simp only [splitKwargs, List.filter_cons]
    split <;> simp_all

theorem filter_not_perm {α : Type} (p : α → Bool) (l : List α) :
    (l.filter p ++ l.filter (fun a => !p a)).Perm l := by
  induction l with
  | nil => simp
  | cons a l ih =>
    simp only [List.filter_cons]
    cases h : p a
    · simp only [Bool.false_eq_true, if_false, Bool.not_false, if_true]
      exact (List.perm_middle).trans (List.Perm.cons a ih)
    · simp only [if_true, Bool.not_true, Bool.false_eq_true, if_false, List.cons_append]
      exact List.Perm.cons a ih

/-! ### `kwargNames` -/

theorem kwargNames_ok (cfg : Cfg) (ps : List Param) (names : List String) (h : kwargNames cfg ps = .ok names) :
    names = (ps.filter (fun p => cfg.optionKinds.contains p.kind)).map (·.name) := by
  induction ps generalizing names with
  | nil =>
    simp only [kwargNames, Except.ok.injEq] at h
    subst h; rfl
  | cons p ps ih =>
    simp only [kwargNames] at h
    rw [List.filter_cons]
    cases h1 : cfg.optionKinds.contains p.kind with
    | true =>
      simp only [h1, if_true] at h ⊢
      cases hr : kwargNames cfg ps with
      | error e => simp only [hr, Except.map] at h; cases h
      | ok ns =>
        simp only [hr, Except.map, Except.ok.injEq] at h
        rw [← h, ih ns hr]; rfl
    | false =>
      simp only [h1, Bool.false_eq_true, if_false] at h ⊢
      cases h2 : cfg.rejectedKinds.contains p.kind with
      | true => simp only [h2, if_true] at h; cases h
      | false =>
        simp only [h2, Bool.false_eq_true, if_false] at h
        exact ih names h

/-! ### `exprToAxis` -/

theorem mem_exprToAxisFrom (i : Nat) (ms : List Bool) (k : Nat) :
    k ∈ exprToAxisFrom i ms ↔ ∃ j, ms[j]? = some true ∧ k = i + j := by
  induction ms generalizing i with
  | nil => simp [exprToAxisFrom]
  | cons m ms ih =>
    simp only [exprToAxisFrom]
    constructor
    · intro h
      cases m with
      | true =>
        simp only [if_true, List.mem_cons] at h
        rcases h with h | h
        · exact ⟨0, by simp, by omega⟩
        · obtain ⟨j, hj, hk⟩ := (ih (i + 1)).1 h
          exact ⟨j + 1, by simpa using hj, by omega⟩
      | false =>
        simp only [Bool.false_eq_true, if_false] at h
        obtain ⟨j, hj, hk⟩ := (ih (i + 1)).1 h
        exact ⟨j + 1, by simpa using hj, by omega⟩
    · rintro ⟨j, hj, hk⟩
      cases j with
      | zero =>
        simp only [List.getElem?_cons_zero, Option.some.injEq] at hj
        subst hj
        simp [hk]
      | succ j =>
        have : k ∈ exprToAxisFrom (i + 1) ms := (ih (i + 1)).2 ⟨j, by simpa using hj, by omega⟩
        cases m <;> simp [this]

theorem exprToAxisFrom_ge (i : Nat) (ms : List Bool) : ∀ k ∈ exprToAxisFrom i ms, i ≤ k := by
  intro k hk
  obtain ⟨j, _, h⟩ := (mem_exprToAxisFrom i ms k).1 hk
  omega

theorem exprToAxisFrom_sorted (i : Nat) (ms : List Bool) : (exprToAxisFrom i ms).Pairwise (· < ·) := by
  induction ms generalizing i with
  | nil => simp [exprToAxisFrom]
  | cons m ms ih =>
    simp only [exprToAxisFrom]
    cases m with
    | true =>
      simp only [if_true, List.pairwise_cons]
      refine ⟨fun k hk => ?_, ih (i + 1)⟩
      have := exprToAxisFrom_ge (i + 1) ms k hk
      omega
    | false => simpa using ih (i + 1)

theorem extracted_exprToAxis_from (ms : List Bool) (i : Nat) (acc : List Nat) :
    (ms.zipIdx i).foldl (fun (idxs : List Nat) (it : Bool × Nat) => if it.1 then idxs ++ [it.2] else idxs) acc
      = acc ++ exprToAxisFrom i ms := by
  induction ms generalizing i acc with
  | nil => simp [exprToAxisFrom]
  | cons m ms ih =>
    simp only [List.zipIdx_cons, List.foldl_cons, exprToAxisFrom]
    rw [ih]
    cases m <;> simp

end Einx.Adapt

namespace Einx.Adapt
open Einx Einx.Denote

/-! ### Index lemmas for `reduce_axis_semantics` -/

theorem mem_exprToAxis (marks : List Bool) (i : Nat) : i ∈ exprToAxis marks ↔ marks[i]? = some true := by
  simp only [exprToAxis, mem_exprToAxisFrom]
  constructor
  · rintro ⟨j, hj, rfl⟩; simpa using hj
  · intro h; exact ⟨i, h, by omega⟩

/-- The tuple of bracketed positions determines the marks again. -/
theorem marksAt_exprToAxis (ms : List Bool) : marksAt (exprToAxis ms) ms.length = ms := by
  apply List.ext_getElem
  · simp [marksAt]
  · intro i h1 h2
    simp only [marksAt, List.getElem_map, List.getElem_range]
    cases hb : ms[i] with
    | true =>
      have : i ∈ exprToAxis ms := (mem_exprToAxis ms i).2 (by rw [List.getElem?_eq_getElem h2, hb])
      simpa using this
    | false =>
      have : ¬ i ∈ exprToAxis ms := by
        intro hm
        have := (mem_exprToAxis ms i).1 hm
        rw [List.getElem?_eq_getElem h2, hb] at this
        cases this
      simpa using this

theorem select_marks (b : Bool) (ls : List Leaf) :
    select b (marksOf ls) (ls.map (·.size)) = (ls.filter (fun l => l.marked == b)).map (·.size) := by
  induction ls with
  | nil => rfl
  | cons l ls ih =>
    simp only [marksOf, List.map_cons, select, List.filter_cons]
    simp only [marksOf] at ih
    split <;> simp_all

theorem mapM_eq_some_map {α β : Type} (f : α → Option β) (g : α → β) (l : List α) (h : ∀ a ∈ l, f a = some (g a)) :
    l.mapM f = some (l.map g) := by
  induction l with
  | nil => rfl
  | cons a l ih =>
    have h1 := h a (by simp)
    have h2 := ih (fun b hb => h b (by simp [hb]))
    simp [List.mapM_cons, h1, h2]

theorem position_cons (d : Dim) (ds : List Dim) (σ : Assign) :
    position (d :: ds) σ = (match d.pos σ with
      | some p => (position ds σ).map (p :: ·)
      | none => none) := by
  simp only [position, List.mapM_cons]
  cases d.pos σ with
  | none => rfl
  | some p =>
    cases List.mapM (Dim.pos σ) ds <;> rfl

/-- A view of plain axes under an assignment that gives the `k`-th axis the value `ρ[k]`. -/
theorem position_axes (ls : List Leaf) (ρ : List Nat) (σ : Assign) (hl : ρ.length = ls.length)
    (h : ∀ p ∈ (ls.map (·.name)).zip ρ, σ.get p.1 = some p.2) :
    position (ls.map Dim.axis) σ = some ρ := by
  induction ls generalizing ρ with
  | nil =>
    cases ρ with
    | nil => rfl
    | cons _ _ => simp at hl
  | cons l ls ih =>
    cases ρ with
    | nil => simp at hl
    | cons r ρ =>
      simp only [List.map_cons, List.zip_cons_cons, List.mem_cons, forall_eq_or_imp] at h
      rw [List.map_cons, position_cons]
      simp only [Dim.pos, h.1]
      rw [ih ρ (by simpa using hl) h.2]
      rfl

/-- The index lemma: under an assignment that gives the `k`-th un-bracketed axis `ρ[k]` and the `k`-th bracketed axis
`τ[k]`, the position in the flat input expression is the interleaving of `ρ` and `τ` along the marks. -/
theorem position_interleave_of_get (ls : List Leaf) (ρ τ : List Nat) (σ : Assign)
    (hρ : ρ.length = (ls.filter (fun l => l.marked == false)).length)
    (hτ : τ.length = (ls.filter (fun l => l.marked == true)).length)
    (hu : ∀ p ∈ ((ls.filter (fun l => l.marked == false)).map (·.name)).zip ρ, σ.get p.1 = some p.2)
    (hm : ∀ p ∈ ((ls.filter (fun l => l.marked == true)).map (·.name)).zip τ, σ.get p.1 = some p.2) :
    position (ls.map Dim.axis) σ = some (interleave (marksOf ls) ρ τ) := by
  induction ls generalizing ρ τ with
  | nil => rfl
  | cons l ls ih =>
    rw [List.map_cons, position_cons]
    cases hk : l.marked with
    | false =>
      simp only [List.filter_cons, hk, beq_self_eq_true, if_true, Bool.false_eq_true, if_false,
        show ((false == true) = false) from rfl] at hρ hτ hu hm
      cases ρ with
      | nil => simp at hρ
      | cons r ρ =>
        simp only [List.map_cons, List.zip_cons_cons, List.mem_cons, forall_eq_or_imp] at hu
        simp only [Dim.pos, hu.1, marksOf, List.map_cons, hk, interleave]
        have := ih ρ τ (by simpa using hρ) hτ hu.2 hm
        simp only [marksOf] at this
        rw [this]; rfl
    | true =>
      simp only [List.filter_cons, hk, beq_self_eq_true, if_true, Bool.false_eq_true, if_false,
        show ((true == false) = false) from rfl] at hρ hτ hu hm
      cases τ with
      | nil => simp at hτ
      | cons t τ =>
        simp only [List.map_cons, List.zip_cons_cons, List.mem_cons, forall_eq_or_imp] at hm
        simp only [Dim.pos, hm.1, marksOf, List.map_cons, hk, interleave]
        have := ih ρ τ hρ (by simpa using hτ) hu hm.2
        simp only [marksOf] at this
        rw [this]; rfl

/-- Looking a key up in a zipped assignment with distinct keys gives the value zipped with it. -/
theorem get_zip_of_nodup (keys : List String) (vals : List Nat) (hnd : keys.Nodup) :
    ∀ p ∈ keys.zip vals, Assign.get (keys.zip vals) p.1 = some p.2 := by
  induction keys generalizing vals with
  | nil => intro p hp; simp at hp
  | cons k ks ih =>
    cases vals with
    | nil => intro p hp; simp at hp
    | cons v vs =>
      intro p hp
      simp only [List.zip_cons_cons, List.mem_cons] at hp
      rcases hp with rfl | hp
      · simp [Assign.get]
      · have hk : p.1 ∈ ks := (List.of_mem_zip (a := p.1) (b := p.2) (by simpa using hp)).1
        have hne : ¬ k = p.1 := fun e => (List.nodup_cons.1 hnd).1 (e ▸ hk)
        have hb : (k == p.1) = false := by simpa using hne
        have := ih vs (List.nodup_cons.1 hnd).2 p hp
        simp only [Assign.get, List.zip_cons_cons, List.find?_cons, hb] at this ⊢
        exact this

theorem filter_marked_perm (ls : List Leaf) :
    (ls.filter (fun l => l.marked == false) ++ ls.filter (fun l => l.marked == true)).Perm ls := by
  have h := filter_not_perm (fun l : Leaf => l.marked == false) ls
  have e : (fun l : Leaf => !(l.marked == false)) = (fun l : Leaf => l.marked == true) := by
    funext l; cases l.marked <;> rfl
  rwa [e] at h

theorem assignments_eq_allIdx (axes : List (String × Nat)) :
    assignments axes = (allIdx (axes.map (·.2))).map (fun idx => (axes.map (·.1)).zip idx) := by
  induction axes with
  | nil => rfl
  | cons a axes ih =>
    obtain ⟨n, s⟩ := a
    simp only [assignments, List.map_cons, allIdx, ih, List.map_flatMap, List.map_map]
    congr 1

theorem allIdx_valid (s : List Nat) : ∀ τ ∈ allIdx s, Valid s τ := by
  induction s with
  | nil => intro τ h; simp [allIdx] at h; subst h; exact Valid.nil
  | cons a s ih =>
    intro τ h
    simp only [allIdx, List.mem_flatMap, List.mem_range, List.mem_map] at h
    obtain ⟨i, hi, r, hr, rfl⟩ := h
    exact Valid.cons hi (ih r hr)

theorem zip_get (ls : List Leaf) (hnd : (ls.map (·.name)).Nodup) (ρ τ : List Nat)
    (hρ : ρ.length = (ls.filter (fun l => l.marked == false)).length) :
    (∀ p ∈ ((ls.filter (fun l => l.marked == false)).map (·.name)).zip ρ,
      Assign.get (((ls.filter (fun l => l.marked == false)).map (·.name)).zip ρ ++ ((ls.filter (fun l => l.marked == true)).map (·.name)).zip τ) p.1 = some p.2)
    ∧ (∀ p ∈ ((ls.filter (fun l => l.marked == true)).map (·.name)).zip τ,
      Assign.get (((ls.filter (fun l => l.marked == false)).map (·.name)).zip ρ ++ ((ls.filter (fun l => l.marked == true)).map (·.name)).zip τ) p.1 = some p.2) := by
  have hz : ((ls.filter (fun l => l.marked == false)).map (·.name)).zip ρ ++ ((ls.filter (fun l => l.marked == true)).map (·.name)).zip τ
      = ((ls.filter (fun l => l.marked == false)).map (·.name) ++ (ls.filter (fun l => l.marked == true)).map (·.name)).zip (ρ ++ τ) :=
    (List.zip_append (by simp [hρ])).symm
  have hnd' : ((ls.filter (fun l => l.marked == false)).map (·.name) ++ (ls.filter (fun l => l.marked == true)).map (·.name)).Nodup := by
    rw [← List.map_append]
    exact (((filter_marked_perm ls).map (·.name)).nodup_iff).2 hnd
  have hg := get_zip_of_nodup _ (ρ ++ τ) hnd'
  rw [← hz] at hg
  exact ⟨fun p hp => hg p (List.mem_append_left _ hp), fun p hp => hg p (List.mem_append_right _ hp)⟩

theorem axesOfMarked_names (b : Bool) (ls : List Leaf) :
    (axesOfMarked b ls).map (·.1) = (ls.filter (fun l => l.marked == b)).map (·.name) := by
  simp [axesOfMarked, List.map_map, Function.comp_def]

theorem axesOfMarked_sizes (b : Bool) (ls : List Leaf) :
    (axesOfMarked b ls).map (·.2) = (ls.filter (fun l => l.marked == b)).map (·.size) := by
  simp [axesOfMarked, List.map_map, Function.comp_def]

/-! ### The graph checker -/

mutual
theorem Val.beq_eq : ∀ (a b : Val), Val.beq a b = true → a = b
  | .ref x, b, h => by cases b <;> simp [Val.beq] at h; simp [h]
  | .int x, b, h => by cases b <;> simp [Val.beq] at h; simp [h]
  | .float x, b, h => by cases b <;> simp [Val.beq] at h; simp [h]
  | .bool x, b, h => by cases b <;> simp [Val.beq] at h; simp [h]
  | .str x, b, h => by cases b <;> simp [Val.beq] at h; simp [h]
  | .none, b, h => by cases b <;> simp [Val.beq] at h; rfl
  | .obj x, b, h => by cases b <;> simp [Val.beq] at h; simp [h]
  | .other x, b, h => by cases b <;> simp [Val.beq] at h; simp [h]
  | .tuple l, b, h => by
    cases b with
    | tuple l' => simp only [Val.beq] at h; rw [Val.beqL_eq l l' h]
    | _ => simp [Val.beq] at h
  | .list l, b, h => by
    cases b with
    | list l' => simp only [Val.beq] at h; rw [Val.beqL_eq l l' h]
    | _ => simp [Val.beq] at h
  | .dict k v, b, h => by
    cases b with
    | dict k' v' =>
      simp only [Val.beq, Bool.and_eq_true] at h
      rw [Val.beqL_eq k k' h.1, Val.beqL_eq v v' h.2]
    | _ => simp [Val.beq] at h
theorem Val.beqL_eq : ∀ (as bs : List Val), Val.beqL as bs = true → as = bs
  | [], [], _ => rfl
  | a :: as, b :: bs, h => by
    simp only [Val.beqL, Bool.and_eq_true] at h
    rw [Val.beq_eq a b h.1, Val.beqL_eq as bs h.2]
  | [], _ :: _, h | _ :: _, [], h => by simp [Val.beqL] at h
end

theorem kwBeq_eq : ∀ (a b : List (String × Val)), kwBeq a b = true → a = b
  | [], [], _ => rfl
  | (k, v) :: r, (k', v') :: r', h => by
    simp only [kwBeq, Bool.and_eq_true, beq_iff_eq] at h
    rw [h.1.1, Val.beq_eq v v' h.1.2, kwBeq_eq r r' h.2]
  | [], _ :: _, h | _ :: _, [], h => by simp [kwBeq] at h

/-- `cnd` is the tracer of `isinstance(r, numpy.ndarray)`: the nodes exist in the graph. -/
def IsinstanceCond (g : Graph) (cnd r : Nat) : Prop :=
  ∃ b nd m, App.call (.ref b) [.ref r, .ref nd] [] (.ref cnd) ∈ g.apps ∧ App.builtin "isinstance" b ∈ g.apps
    ∧ App.getattr (.ref m) "ndarray" nd ∈ g.apps ∧ App.import_ "numpy" m ∈ g.apps

/-- `cnd` is the tracer of `tuple(r.shape) == shape`. -/
def ShapeCond (g : Graph) (cnd r : Nat) (shape : List Nat) : Prop :=
  ∃ ts tp sh, App.operator "==" [.ref ts, intsVal shape] cnd ∈ g.apps ∧ App.call (.ref tp) [.ref sh] [] (.ref ts) ∈ g.apps
    ∧ App.builtin "tuple" tp ∈ g.apps ∧ App.getattr (.ref r) "shape" sh ∈ g.apps

/-- The positional arguments are tracers with the given traced shapes. -/
def ArgsAre (g : Graph) : List Val → List (List Nat) → Prop
  | [], [] => True
  | .ref t :: as, s :: ss => g.shapeOf t = some s ∧ ArgsAre g as ss
  | _, _ => False

theorem any_isBuiltin {apps : List App} {n : String} {o : Nat} (h : apps.any (App.isBuiltin n o) = true) :
    App.builtin n o ∈ apps := by
  obtain ⟨a, ha, hb⟩ := List.any_eq_true.1 h
  cases a <;> simp [App.isBuiltin] at hb
  obtain ⟨rfl, rfl⟩ := hb
  exact ha

theorem any_isImport {apps : List App} {n : String} {o : Nat} (h : apps.any (App.isImport n o) = true) :
    App.import_ n o ∈ apps := by
  obtain ⟨a, ha, hb⟩ := List.any_eq_true.1 h
  cases a <;> simp [App.isImport] at hb
  obtain ⟨rfl, rfl⟩ := hb
  exact ha

theorem isinstanceCond_sound (g : Graph) (cnd r : Nat) (h : isinstanceCond g cnd r = true) : IsinstanceCond g cnd r := by
  simp only [isinstanceCond] at h
  obtain ⟨a, ha, hb⟩ := List.any_eq_true.1 h
  split at hb
  · rename_i b x nd o
    simp only [Bool.and_eq_true, beq_iff_eq] at hb
    obtain ⟨⟨⟨rfl, rfl⟩, h1⟩, h2⟩ := hb
    obtain ⟨a', ha', hb'⟩ := List.any_eq_true.1 h2
    split at hb'
    · rename_i m k nd'
      simp only [Bool.and_eq_true, beq_iff_eq] at hb'
      obtain ⟨⟨rfl, rfl⟩, h3⟩ := hb'
      exact ⟨b, nd', m, ha, any_isBuiltin h1, ha', any_isImport h3⟩
    · cases hb'
  · cases hb

theorem shapeCond_sound (g : Graph) (cnd r : Nat) (shape : List Nat) (h : shapeCond g cnd r shape = true) :
    ShapeCond g cnd r shape := by
  simp only [shapeCond] at h
  obtain ⟨a, ha, hb⟩ := List.any_eq_true.1 h
  split at hb
  · rename_i op ts lit o
    simp only [Bool.and_eq_true, beq_iff_eq] at hb
    obtain ⟨⟨⟨rfl, rfl⟩, hl⟩, h2⟩ := hb
    have := Val.beq_eq _ _ hl
    subst this
    obtain ⟨a', ha', hb'⟩ := List.any_eq_true.1 h2
    split at hb'
    · rename_i tp sh ts'
      simp only [Bool.and_eq_true, beq_iff_eq] at hb'
      obtain ⟨⟨rfl, h3⟩, h4⟩ := hb'
      obtain ⟨a'', ha'', hb''⟩ := List.any_eq_true.1 h4
      split at hb''
      · rename_i x k sh'
        simp only [Bool.and_eq_true, beq_iff_eq] at hb''
        obtain ⟨⟨rfl, rfl⟩, rfl⟩ := hb''
        exact ⟨ts', tp, sh', ha, ha', any_isBuiltin h3, ha''⟩
      · cases hb''
    · cases hb'
  · cases hb

theorem argsOK_sound (g : Graph) : ∀ (args : List Val) (shapes : List (List Nat)), argsOK g args shapes = true → ArgsAre g args shapes
  | [], [], _ => trivial
  | .ref t :: as, s :: ss, h => by
    simp only [argsOK, Bool.and_eq_true, beq_iff_eq] at h
    exact ⟨h.1, argsOK_sound g as ss h.2⟩
  | [], _ :: _, h => by simp [argsOK] at h
  | .ref _ :: _, [], h => by simp [argsOK] at h
  | .int _ :: _, _, h | .float _ :: _, _, h | .bool _ :: _, _, h | .str _ :: _, _, h | .none :: _, _, h
  | .tuple _ :: _, _, h | .list _ :: _, _, h | .dict _ _ :: _, _, h | .obj _ :: _, _, h | .other _ :: _, _, h => by
    simp [argsOK] at h

/-! ### The expected shape of the elementwise adapter -/

theorem foldl_zipWith_max (n : Nat) : ∀ (ss : List (List Nat)) (acc : List Nat), acc.length = n → (∀ t ∈ ss, t.length = n) →
    (ss.foldl (fun acc t => List.zipWith max acc t) acc).length = n
    ∧ ∀ i, i < n → (acc.getD i 0 ≤ (ss.foldl (fun acc t => List.zipWith max acc t) acc).getD i 0)
      ∧ (∀ t ∈ ss, t.getD i 0 ≤ (ss.foldl (fun acc t => List.zipWith max acc t) acc).getD i 0)
      ∧ ((ss.foldl (fun acc t => List.zipWith max acc t) acc).getD i 0 = acc.getD i 0
          ∨ ∃ t ∈ ss, (ss.foldl (fun acc t => List.zipWith max acc t) acc).getD i 0 = t.getD i 0)
  | [], acc, ha, _ => ⟨ha, fun i _ => ⟨Nat.le_refl _, by simp, Or.inl rfl⟩⟩
  | t :: ss, acc, ha, ht => by
    have htl : t.length = n := ht t (by simp)
    have hz : (List.zipWith max acc t).length = n := by simp [ha, htl]
    obtain ⟨h1, h2⟩ := foldl_zipWith_max n ss (List.zipWith max acc t) hz (fun u hu => ht u (by simp [hu]))
    refine ⟨by simpa using h1, fun i hi => ?_⟩
    obtain ⟨ha', hs', ho'⟩ := h2 i hi
    have hzi : (List.zipWith max acc t).getD i 0 = max (acc.getD i 0) (t.getD i 0) := by
      simp [List.getD, List.getElem?_zipWith, List.getElem?_eq_getElem (show i < acc.length by omega),
        List.getElem?_eq_getElem (show i < t.length by omega)]
    simp only [List.foldl_cons]
    rw [hzi] at ha' ho'
    refine ⟨by omega, ?_, ?_⟩
    · intro u hu
      simp only [List.mem_cons] at hu
      rcases hu with rfl | hu
      · omega
      · exact hs' u hu
    · rcases ho' with h | ⟨u, hu, h⟩
      · rcases Nat.le_total (acc.getD i 0) (t.getD i 0) with hle | hle
        · exact Or.inr ⟨t, by simp, by rw [h, Nat.max_eq_right hle]⟩
        · exact Or.inl (by rw [h, Nat.max_eq_left hle])
      · exact Or.inr ⟨u, by simp [hu], h⟩

end Einx.Adapt
