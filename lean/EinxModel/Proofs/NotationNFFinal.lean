import EinxModel.Proofs.NotationNFTraverse
import EinxModel.Proofs.NotationPrintFinal
/-!
# M1 Notation — the normal form of `parseOp`'s results (assembly) and the bridge to `Printable`

* `finish_NRoot` / `parseOp_NRoot`: every tree that `parseOp` returns satisfies `NRoot` and passes the bracket check.
* `PRoot_of_NRoot`: an `NRoot` tree without the three bad patterns is `PRoot`.
* `printable_of_parseOp`: `parseOp s = .ok t → Excluded t = false → Printable t = true`.
-/
namespace Einx.Notation

namespace NF
open FinNF

theorem traverseL_eq_map (inBr : Bool) : ∀ (cs : List Expr), traverseL inBr cs = cs.map (traverse inBr)
  | [] => rfl
  | c :: cs => by simp only [traverseL, List.map_cons, traverseL_eq_map inBr cs]

theorem checkBrackets_ok_iff {x t : Expr} (h : checkBrackets x = .ok t) :
    t = x ∧ conflictNames (occs [] false x) = [] := by
  unfold checkBrackets at h
  dsimp only at h
  cases hc : conflictNames (occs [] false x) with
  | nil =>
    rw [hc] at h
    simp only [List.map_nil, Except.ok.injEq] at h
    exact ⟨h.symm, rfl⟩
  | cons n ns => rw [hc] at h; simp at h

/-- The second pass and the bracket pass on one alternative of the first pass. -/
theorem side_NArgs {o : Expr} (h : UpOK .args false true false false o) : NArgs (traverse false o) = true := by
  obtain ⟨alts, b, e, rfl, hne, ha⟩ := h
  have hg : GL false false true alts = true := GL_iff.mpr (fun a haa => (ha a haa).1)
  have ht := traverseL_N alts false true hg
  simp only [Lift.wrap, traverse, NArgs, Bool.and_eq_true, Bool.not_eq_true', List.isEmpty_eq_false_iff,
    List.all_eq_true]
  refine ⟨?_, ht.1⟩
  intro h0
  have := ht.2.2.1
  rw [h0] at this
  cases alts with
  | nil => exact hne rfl
  | cons _ _ => simp at this

/-- Layers 1–3 and the post-checks: on a result of `parse`, `finish` returns an `NRoot` tree that passes the bracket check. -/
theorem finish_NRoot (arrows : List Int) (x : Expr) (h : G true true true x = true) :
    OkP (fun t => NRoot t = true ∧ conflictNames (occs [] false t) = []) (finish arrows x) := by
  unfold finish
  have h1 := moveUp_G .op arrows true true x h
  cases hm : moveUp .op arrows x with
  | error err => trivial
  | ok x1 =>
    rw [hm] at h1
    simp only [OkP] at h1
    obtain ⟨alts, b, e, rfl, hne, ha⟩ := h1
    simp only [Lift.wrap]
    have hg : GL false true true alts = true := GL_iff.mpr (fun a haa => (ha a haa).1)
    have h2 := moveUpL_G .args arrows false true true alts hg
    cases hm2 : moveUpL .args arrows alts with
    | error err => trivial
    | ok cs2 =>
      rw [hm2] at h2
      simp only [OkP] at h2
      have hx3 : traverse false (Expr.op cs2 b e) = .op (traverseL false cs2) b e := by simp only [traverse]
      dsimp only
      generalize traverse false (Expr.op cs2 b e) = x3 at hx3
      by_cases hlen : x3.children.length > 2
      · rw [if_pos hlen]; trivial
      · rw [if_neg hlen]
        subst hx3
        simp only [Expr.children] at hlen
        cases hcb : checkBrackets (.op (traverseL false cs2) b e) with
        | error err => trivial
        | ok t =>
          obtain ⟨rfl, hconf⟩ := checkBrackets_ok_iff hcb
          simp only [OkP]
          refine ⟨?_, hconf⟩
          have hl : (traverseL false cs2).length = alts.length := by
            rw [traverseL_eq_map, List.length_map, h2.1]
          have hpos : 1 ≤ alts.length := by
            cases alts with
            | nil => exact (hne rfl).elim
            | cons _ _ => simp
          simp only [NRoot, Bool.and_eq_true, Bool.or_eq_true, beq_iff_eq, List.all_eq_true]
          refine ⟨by omega, ?_⟩
          intro y hy
          rw [traverseL_eq_map] at hy
          obtain ⟨o, ho, rfl⟩ := List.mem_map.mp hy
          exact side_NArgs ((h2.2 o ho).weaken (by simp) (by simp))

/-- **The normal form of `parse_op`'s output**: every returned tree is `NRoot` and has no axis name both inside and outside
    brackets. -/
theorem parseOp_NRoot (text : Str) (t : Expr) (h : parseOp text = .ok t) :
    NRoot t = true ∧ conflictNames (occs [] false t) = [] := by
  rw [parseOp_eq] at h
  cases hl : lex text with
  | error err => rw [hl] at h; cases h
  | ok toks =>
    rw [hl] at h
    simp only at h
    cases hb : buildTree (dedupSpaces toks false) [] [] with
    | error err => rw [hb] at h; cases h
    | ok tree =>
      rw [hb] at h
      simp only at h
      have hp := parse_G tree 0 (lastEnd tree 0) false
      cases hpa : parse tree 0 (lastEnd tree 0) false with
      | error err => rw [hpa] at h; cases h
      | ok x =>
        rw [hpa] at h hp
        simp only at h
        simp only [OkP] at hp
        exact (finish_NRoot _ x hp.1).of_eq h

/-! ### From `NRoot` without the excluded patterns to `PRoot` -/

theorem anyNodeL_false {p : Expr → Bool} : ∀ {cs : List Expr}, anyNodeL p cs = false → ∀ c ∈ cs, anyNode p c = false
  | [], _, c, hc => by cases hc
  | x :: xs, h, c, hc => by
    simp only [anyNodeL, Bool.or_eq_false_iff] at h
    rcases List.mem_cons.mp hc with rfl | hc
    · exact h.1
    · exact anyNodeL_false h.2 c hc

theorem isAxisName_anon : isAxisName anonName = false := by decide

theorem not_anon_of_axisOK {n : Str} {v : Option Nat} {b : Int} (h : axisOK n v b = true) : (n == anonName) = false := by
  cases v with
  | none =>
    simp only [axisOK] at h
    cases hn : n == anonName with
    | false => rfl
    | true =>
      have := beq_iff_eq.mp hn
      rw [this, isAxisName_anon] at h
      cases h
  | some k =>
    simp only [axisOK, beq_iff_eq] at h
    cases hn : n == anonName with
    | false => rfl
    | true =>
      have := beq_iff_eq.mp hn
      exact (anonName_ne_unnamed _ (this.symm.trans h)).elim

/-- The three bad patterns do not occur anywhere in `x`. -/
def NoBad (x : Expr) : Prop :=
  anyNode patEllList x = false ∧ anyNode patEllEll x = false ∧ anyNode patFlatConcat x = false

def NoBadL (cs : List Expr) : Prop :=
  anyNodeL patEllList cs = false ∧ anyNodeL patEllEll cs = false ∧ anyNodeL patFlatConcat cs = false

theorem NoBadL.mem {cs : List Expr} (h : NoBadL cs) {c : Expr} (hc : c ∈ cs) : NoBad c :=
  ⟨anyNodeL_false h.1 c hc, anyNodeL_false h.2.1 c hc, anyNodeL_false h.2.2 c hc⟩

theorem NoBadL.tail {c : Expr} {cs : List Expr} (h : NoBadL (c :: cs)) : NoBad c ∧ NoBadL cs := by
  obtain ⟨h1, h2, h3⟩ := h
  simp only [anyNodeL, Bool.or_eq_false_iff] at h1 h2 h3
  exact ⟨⟨h1.1, h2.1, h3.1⟩, h1.2, h2.2, h3.2⟩

mutual
/-- An `N` tree without the three bad patterns is printable (`PT`). -/
theorem PT_of_N : ∀ (x : Expr) (inBr al : Bool), N inBr al x = true → NoBad x →
    PT inBr al x = true
  | .axis n v b e, inBr, al, h, _ => by
    cases v with
    | none => simpa only [N, axisOK, PT] using h
    | some k => simp only [PT]
  | .flat i b e, inBr, al, h, hb => by
    simp only [N, Bool.and_eq_true] at h
    obtain ⟨h1, h2, h3⟩ := hb
    simp only [anyNode, Bool.or_eq_false_iff] at h1 h2 h3
    have ih := PT_of_N i inBr true h.2 ⟨h1.2, h2.2, h3.2⟩
    have hc : i.isConcat = false := by
      cases i <;> first | rfl | (simp [patFlatConcat] at h3)
    simp only [PT, Bool.and_eq_true, Bool.not_eq_true']
    exact ⟨⟨by simpa using h.1, hc⟩, ih⟩
  | .brackets i b e, inBr, al, h, hb => by
    simp only [N, Bool.and_eq_true] at h
    obtain ⟨h1, h2, h3⟩ := hb
    simp only [anyNode, Bool.or_eq_false_iff] at h1 h2 h3
    have ih := PT_of_N i true true h.2 ⟨h1.2, h2.2, h3.2⟩
    simp only [PT, Bool.and_eq_true]
    exact ⟨h.1, ih⟩
  | .ellipsis i d b e, inBr, al, h, hb => by
    simp only [N, Bool.or_eq_true, Bool.and_eq_true] at h
    simp only [PT, Bool.or_eq_true, Bool.and_eq_true, Bool.not_eq_true']
    rcases h with h | h
    · exact Or.inl h
    · right
      obtain ⟨h1, h2, h3⟩ := hb
      simp only [anyNode, Bool.or_eq_false_iff] at h1 h2 h3
      have hl : i.isList = false := by
        cases i <;> first | rfl | (simp [patEllList] at h1)
      have ih := PT_of_N i inBr false (N_notList h.2 hl) ⟨h1.2, h2.2, h3.2⟩
      refine ⟨⟨?_, ?_⟩, ih⟩
      · cases i with
        | axis n v bi ei =>
          simp only [N] at h
          simpa only [isAnonAxis] using not_anon_of_axisOK h.2
        | _ => rfl
      · cases i with
        | list => simp [Expr.isList] at hl
        | ellipsis j dj bj ej =>
          have : isAnonAxisNone j = true := by simpa [patEllEll] using h2.1
          simp [ellOperand, isEllAnon, this]
        | args => simp [N] at h
        | op => simp [N] at h
        | _ => simp [ellOperand, Expr.isAxis, Expr.isFlat, Expr.isBrackets, Expr.isConcat]
  | .concat cs b e, inBr, al, h, hb => by
    simp only [N, Bool.and_eq_true] at h
    obtain ⟨h1, h2, h3⟩ := hb
    simp only [anyNode, Bool.or_eq_false_iff] at h1 h2 h3
    have ih := PTL_of_NL cs inBr h.2 ⟨h1.2, h2.2, h3.2⟩
    simp only [PT, Bool.and_eq_true]
    exact ⟨h.1, ih⟩
  | .list cs b e, inBr, al, h, hb => by
    simp only [N, Bool.and_eq_true] at h
    obtain ⟨h1, h2, h3⟩ := hb
    simp only [anyNode, Bool.or_eq_false_iff] at h1 h2 h3
    have ih := PTL_of_NL cs inBr h.2 ⟨h1.2, h2.2, h3.2⟩
    simp only [PT, Bool.and_eq_true]
    exact ⟨h.1, ih⟩
  | .args .., _, _, h, _ => by simp [N] at h
  | .op .., _, _, h, _ => by simp [N] at h
theorem PTL_of_NL : ∀ (cs : List Expr) (inBr : Bool), NL inBr cs = true → NoBadL cs →
    PTL inBr cs = true
  | [], _, _, _ => rfl
  | c :: cs, inBr, h, hb => by
    simp only [NL, Bool.and_eq_true] at h
    have hb' := hb.tail
    simp only [PTL, Bool.and_eq_true]
    exact ⟨PT_of_N c inBr false h.1 hb'.1, PTL_of_NL cs inBr h.2 hb'.2⟩
end

theorem PArgs_of_NArgs {a : Expr} (h : NArgs a = true) (hb : NoBad a) : PArgs a = true := by
  cases a with
  | args as b e =>
    simp only [NArgs, Bool.and_eq_true, List.all_eq_true] at h
    obtain ⟨h1, h2, h3⟩ := hb
    simp only [anyNode, Bool.or_eq_false_iff] at h1 h2 h3
    simp only [PArgs, Bool.and_eq_true, List.all_eq_true]
    refine ⟨h.1, fun c hc => ?_⟩
    exact PT_of_N c false true (h.2 c hc)
      ⟨anyNodeL_false h1.2 c hc, anyNodeL_false h2.2 c hc, anyNodeL_false h3.2 c hc⟩
  | _ => simp [NArgs] at h

/-- An `NRoot` tree without the three bad patterns is `PRoot`. -/
theorem PRoot_of_NRoot {t : Expr} (h : NRoot t = true) (hb : hasBadPattern t = false) : PRoot t = true := by
  cases t with
  | op cs b e =>
    simp only [NRoot, Bool.and_eq_true, List.all_eq_true] at h
    simp only [hasBadPattern, Bool.or_eq_false_iff] at hb
    obtain ⟨⟨h1, h2⟩, h3⟩ := hb
    simp only [anyNode, Bool.or_eq_false_iff] at h1 h2 h3
    simp only [PRoot, Bool.and_eq_true, List.all_eq_true]
    refine ⟨h.1, fun c hc => ?_⟩
    exact PArgs_of_NArgs (h.2 c hc)
      ⟨anyNodeL_false h1.2 c hc, anyNodeL_false h2.2 c hc, anyNodeL_false h3.2 c hc⟩
  | _ => simp [NRoot] at h

/-! ### Conversely: a printable tree contains none of the three patterns -/

theorem anyNodeL_of_all {p : Expr → Bool} : ∀ {cs : List Expr}, (∀ c ∈ cs, anyNode p c = false) → anyNodeL p cs = false
  | [], _ => rfl
  | c :: cs, h => by
    simp only [anyNodeL, Bool.or_eq_false_iff]
    exact ⟨h c (by simp), anyNodeL_of_all (fun c' hc' => h c' (by simp [hc']))⟩

mutual
theorem noBad_of_PT : ∀ (x : Expr) (inBr al : Bool), PT inBr al x = true → NoBad x
  | .axis .., _, _, _ => ⟨rfl, rfl, rfl⟩
  | .flat i b e, inBr, _, h => by
    simp only [PT, Bool.and_eq_true, Bool.not_eq_true'] at h
    obtain ⟨h1, h2, h3⟩ := noBad_of_PT i inBr true h.2
    refine ⟨by simp only [anyNode, h1]; rfl, by simp only [anyNode, h2]; rfl, ?_⟩
    simp only [anyNode, h3, Bool.or_false]
    cases i <;> first | rfl | (simp [Expr.isConcat] at h)
  | .brackets i b e, _, _, h => by
    simp only [PT, Bool.and_eq_true] at h
    obtain ⟨h1, h2, h3⟩ := noBad_of_PT i true true h.2
    exact ⟨by simp only [anyNode, h1]; rfl, by simp only [anyNode, h2]; rfl, by simp only [anyNode, h3]; rfl⟩
  | .ellipsis i d b e, inBr, _, h => by
    simp only [PT, Bool.or_eq_true, Bool.and_eq_true, Bool.not_eq_true'] at h
    rcases h with h | h
    · cases i with
      | axis n v bi ei => exact ⟨rfl, rfl, rfl⟩
      | _ => simp [isAnonAxisNone] at h
    · obtain ⟨h1, h2, h3⟩ := noBad_of_PT i inBr false h.2
      refine ⟨?_, ?_, by simp only [anyNode, h3]; rfl⟩
      · simp only [anyNode, h1, Bool.or_false]
        cases i <;> first | rfl | (simp [PT] at h)
      · simp only [anyNode, h2, Bool.or_false]
        cases i with
        | ellipsis j dj bj ej =>
          have : isAnonAxisNone j = true := by
            simpa [ellOperand, isEllAnon, Expr.isAxis, Expr.isFlat, Expr.isBrackets, Expr.isConcat] using h.1.2
          simp [patEllEll, this]
        | _ => rfl
  | .concat cs b e, inBr, _, h => by
    simp only [PT, Bool.and_eq_true] at h
    obtain ⟨h1, h2, h3⟩ := noBadL_of_PTL cs inBr h.2
    exact ⟨by simp only [anyNode, h1]; rfl, by simp only [anyNode, h2]; rfl, by simp only [anyNode, h3]; rfl⟩
  | .list cs b e, inBr, _, h => by
    simp only [PT, Bool.and_eq_true] at h
    obtain ⟨h1, h2, h3⟩ := noBadL_of_PTL cs inBr h.2
    exact ⟨by simp only [anyNode, h1]; rfl, by simp only [anyNode, h2]; rfl, by simp only [anyNode, h3]; rfl⟩
  | .args .., _, _, h => by simp [PT] at h
  | .op .., _, _, h => by simp [PT] at h
theorem noBadL_of_PTL : ∀ (cs : List Expr) (inBr : Bool), PTL inBr cs = true → NoBadL cs
  | [], _, _ => ⟨rfl, rfl, rfl⟩
  | c :: cs, inBr, h => by
    simp only [PTL, Bool.and_eq_true] at h
    obtain ⟨a1, a2, a3⟩ := noBad_of_PT c inBr false h.1
    obtain ⟨b1, b2, b3⟩ := noBadL_of_PTL cs inBr h.2
    exact ⟨by simp only [anyNodeL, a1, b1]; rfl, by simp only [anyNodeL, a2, b2]; rfl, by simp only [anyNodeL, a3, b3]; rfl⟩
end

/-- A `PRoot` tree contains none of the three patterns. -/
theorem noBad_of_PRoot {t : Expr} (h : PRoot t = true) : hasBadPattern t = false := by
  cases t with
  | op cs b e =>
    simp only [PRoot, Bool.and_eq_true, List.all_eq_true] at h
    have hall : ∀ c ∈ cs, NoBad c := by
      intro c hc
      have hp := h.2 c hc
      cases c with
      | args as b' e' =>
        simp only [PArgs, Bool.and_eq_true, List.all_eq_true] at hp
        have hin : ∀ a ∈ as, NoBad a := fun a ha => noBad_of_PT a false true (hp.2 a ha)
        exact ⟨by simp only [anyNode, anyNodeL_of_all (fun a ha => (hin a ha).1)]; rfl,
          by simp only [anyNode, anyNodeL_of_all (fun a ha => (hin a ha).2.1)]; rfl,
          by simp only [anyNode, anyNodeL_of_all (fun a ha => (hin a ha).2.2)]; rfl⟩
      | _ => simp [PArgs] at hp
    simp only [hasBadPattern, anyNode, anyNodeL_of_all (fun c hc => (hall c hc).1),
      anyNodeL_of_all (fun c hc => (hall c hc).2.1), anyNodeL_of_all (fun c hc => (hall c hc).2.2)]
    rfl
  | _ => simp [PRoot] at h

end NF

mutual
theorem Expr.beq_refl : ∀ x : Expr, x.beq x = true
  | .axis .. => by simp [Expr.beq]
  | .flat i _ _ => by simp [Expr.beq, Expr.beq_refl i]
  | .brackets i _ _ => by simp [Expr.beq, Expr.beq_refl i]
  | .ellipsis i _ _ _ => by simp [Expr.beq, Expr.beq_refl i]
  | .concat cs _ _ => by simp [Expr.beq, beqL_refl cs]
  | .list cs _ _ => by simp [Expr.beq, beqL_refl cs]
  | .args cs _ _ => by simp [Expr.beq, beqL_refl cs]
  | .op cs _ _ => by simp [Expr.beq, beqL_refl cs]
theorem beqL_refl : ∀ cs : List Expr, beqL cs cs = true
  | [] => rfl
  | c :: cs => by simp [beqL, Expr.beq_refl c, beqL_refl cs]
end

open NF in
/-- Every result of `parseOp` that is not `Excluded` is `Printable`. -/
theorem printable_of_parseOp (text : Str) (t : Expr) (h : parseOp text = .ok t) (hx : Excluded t = false) :
    Printable t = true := by
  obtain ⟨hroot, hconf⟩ := parseOp_NRoot text t h
  simp only [Excluded] at hx
  simp only [Printable, Bool.and_eq_true, List.isEmpty_iff]
  exact ⟨PRoot_of_NRoot hroot hx, hconf⟩

open NF in
/-- On the results of `parseOp`, `Printable` is exactly the complement of `Excluded`. -/
theorem printable_iff_not_excluded (text : Str) (t : Expr) (h : parseOp text = .ok t) :
    Printable t = !Excluded t := by
  cases hx : Excluded t with
  | false => simpa using printable_of_parseOp text t h hx
  | true =>
    cases hp : Printable t with
    | false => rfl
    | true =>
      simp only [Printable, Bool.and_eq_true] at hp
      have := noBad_of_PRoot hp.1
      simp only [Excluded] at hx
      rw [hx] at this
      cases this

end Einx.Notation
