import EinxModel.Proofs.RejectRoot
/-!
# A `+` outside every pair of delimiters is rejected (helper lemmas for `parse_rejects_unwrapped_concat`, Props/C03Reject.lean)

String-level defect: `atDepth0 '+' text []` (Notation/Spec.lean) — some `+` of the text stands where the bracket scan has an
empty stack.  Chain: the lexer makes that `+` a token of its own, preceded by the tokens of the text before it
(`segment_split_after`); the duplicate-space pass keeps it; the delimiter stack puts it into the top-level token list
(`buildTree_depth0`); `parse` without an enclosing parenthesis (`is_parent_composition=False`) cannot succeed on a token list
that has a `+` atom (`parse_plus_fails`: the lowest-precedence operator is `->`, `,` or `+`; the first two hand the `+` to an
operand, parsed again with `is_parent_composition=False`; `+` itself raises l.210 or l.216).
-/
namespace Einx.Notation

theorem naryOps_eq' : naryOps = [lit "->", lit ",", lit "+", spaceLit] := by decide

/-! ## From the string to the token list -/

theorem atDepth0_split (c : Char) : ∀ (s : Str) (st : List Char), atDepth0 c s st = true →
    ∃ u v, s = u ++ c :: v ∧ delimRun u st = some []
  | [], _, h => by simp [atDepth0] at h
  | x :: xs, st, h => by
    simp only [atDepth0, Bool.or_eq_true, Bool.and_eq_true, List.isEmpty_iff, beq_iff_eq] at h
    rcases h with ⟨hst, hx⟩ | h
    · subst hst; subst hx
      exact ⟨[], xs, rfl, rfl⟩
    · cases hd : delimStep st x with
      | none => rw [hd] at h; cases h
      | some st' =>
        rw [hd] at h
        obtain ⟨u, v, hs, hr⟩ := atDepth0_split c xs st' h
        refine ⟨x :: u, v, by rw [hs]; rfl, ?_⟩
        simp only [delimRun, hd]
        exact hr

theorem plus_mem_afterLits : ['+'] ∈ afterLits := by
  simp [afterLits, afterOps, lit]

theorem dedupSpaces_split (pre : List Token) (t : Token) (post : List Token) (ht : t.isSpace = false) (f : Bool) :
    dedupSpaces (pre ++ t :: post) f = dedupSpaces pre f ++ t :: dedupSpaces post false := by
  induction pre generalizing f with
  | nil => simp [dedupSpaces, ht]
  | cons p pre ih =>
    simp only [List.cons_append, dedupSpaces]
    split
    · split
      · exact ih true
      · rw [ih true]; rfl
    · rw [ih false]; rfl

/-! ## The delimiter stack keeps depth-0 tokens at the top level -/

theorem buildTree_base_sub : ∀ (ts : List Token) (frames : List (Token × List Tok)) (base : List Tok) (tree : List Tok),
    buildTree ts frames base = .ok tree → ∀ x ∈ base, x ∈ tree
  | [], frames, base, tree, h => by
    cases frames with
    | nil => simp only [buildTree, Except.ok.injEq] at h; subst h; intro x hx; exact hx
    | cons f fs => obtain ⟨o, items⟩ := f; simp [buildTree] at h
  | t :: ts, frames, base, tree, h => by
    have ih := buildTree_base_sub ts
    simp only [buildTree] at h
    split at h
    · exact ih _ _ _ h
    · split at h
      · cases frames with
        | nil => simp at h
        | cons f fs =>
          obtain ⟨o, items⟩ := f
          simp only at h
          split at h
          · cases h
          · cases fs with
            | nil =>
              simp only at h
              intro x hx
              exact ih _ _ _ h x (List.mem_append_left _ hx)
            | cons f2 fs2 =>
              obtain ⟨o2, items2⟩ := f2
              simp only at h
              exact ih _ _ _ h
      · cases frames with
        | nil =>
          simp only at h
          intro x hx
          exact ih _ _ _ h x (List.mem_append_left _ hx)
        | cons f fs =>
          obtain ⟨o, items⟩ := f
          simp only at h
          exact ih _ _ _ h

/-- A token without delimiter characters that is reached with an empty scan stack becomes a top-level atom. -/
theorem buildTree_depth0 (t : Token) (post : List Token) (ht : ∀ c ∈ t.text, isDelimChar c = false) :
    ∀ (pre : List Token) (frames : List (Token × List Tok)) (base : List Tok),
    (∀ p ∈ pre, TokenClean p) → (∀ f ∈ frames, IsOpen f.1) →
    delimRun (pre.flatMap (·.text)) (frames.map (fun f => closerOf f.1)) = some [] →
    ∀ tree, buildTree (pre ++ t :: post) frames base = .ok tree → Tok.atom t ∈ tree
  | [], frames, base, _, _, hrun, tree, h => by
    simp only [List.flatMap_nil, delimRun, Option.some.injEq, List.map_eq_nil_iff] at hrun
    subst hrun
    have hne : ∀ d : Char, isDelimChar d = true → t.text ≠ [d] := by
      intro d hd he
      have := ht d (by rw [he]; simp)
      rw [hd] at this; cases this
    have h1 : delimsFront.contains t.text = false := by
      rw [delimsFront_eq']
      have a := hne '(' (by decide)
      have b := hne '[' (by decide)
      simp [a, b]
    have h2 : delimsBack.contains t.text = false := by
      rw [delimsBack_eq]
      have a := hne ')' (by decide)
      have b := hne ']' (by decide)
      simp [a, b]
    simp only [List.nil_append, buildTree, h1, h2, Bool.false_eq_true, if_false] at h
    exact buildTree_base_sub _ _ _ _ h _ (by simp)
  | p :: pre, frames, base, hpre, hfr, hrun, tree, h => by
    have ih := buildTree_depth0 t post ht pre
    have hpre' : ∀ q ∈ pre, TokenClean q := fun q hq => hpre q (List.mem_cons_of_mem _ hq)
    have hp := hpre p (by simp)
    simp only [List.flatMap_cons] at hrun
    rw [delimRun_append] at hrun
    simp only [List.cons_append] at h
    rcases hp with hp | hp | hp | hp | hp
    · -- "("
      have h1 : delimsFront.contains p.text = true := by rw [hp, delimsFront_eq']; decide
      have hr : delimRun p.text (frames.map (fun f => closerOf f.1)) = some (')' :: frames.map (fun f => closerOf f.1)) := by
        rw [hp]; rfl
      rw [hr] at hrun
      simp only [buildTree, h1, if_true] at h
      refine ih ((p, []) :: frames) base hpre' ?_ (by simpa [closerOf, hp] using hrun) tree h
      intro f hf; rcases List.mem_cons.mp hf with rfl | hf
      · exact Or.inl hp
      · exact hfr f hf
    · -- "["
      have h1 : delimsFront.contains p.text = true := by rw [hp, delimsFront_eq']; decide
      have hr : delimRun p.text (frames.map (fun f => closerOf f.1)) = some (']' :: frames.map (fun f => closerOf f.1)) := by
        rw [hp]; rfl
      rw [hr] at hrun
      simp only [buildTree, h1, if_true] at h
      refine ih ((p, []) :: frames) base hpre' ?_ (by simpa [closerOf, hp] using hrun) tree h
      intro f hf; rcases List.mem_cons.mp hf with rfl | hf
      · exact Or.inr hp
      · exact hfr f hf
    · -- ")"
      have h1 : delimsFront.contains p.text = false := by rw [hp, delimsFront_eq']; decide
      have h2 : delimsBack.contains p.text = true := by rw [hp, delimsBack_eq]; decide
      simp only [buildTree, h1, h2, if_true, Bool.false_eq_true, if_false] at h
      cases frames with
      | nil => simp at h
      | cons f fs =>
        obtain ⟨o, items⟩ := f
        have ho : IsOpen o := hfr (o, items) (by simp)
        rcases ho with ho | ho
        · have hc : (closingOf o.text != some p.text) = false := by rw [ho, hp]; decide
          have hr : delimRun p.text (((o, items) :: fs).map (fun f => closerOf f.1)) = some (fs.map (fun f => closerOf f.1)) := by
            rw [hp]; simp [delimRun, delimStep, closerOf, ho]
          rw [hr] at hrun
          simp only [hc, Bool.false_eq_true, if_false] at h
          cases fs with
          | nil => exact ih [] _ hpre' (by simp) (by simpa using hrun) tree h
          | cons f2 fs2 =>
            obtain ⟨o2, items2⟩ := f2
            refine ih ((o2, items2 ++ [Tok.group o p items]) :: fs2) base hpre' ?_ (by simpa [closerOf] using hrun) tree h
            intro f hf; rcases List.mem_cons.mp hf with rfl | hf
            · exact hfr (o2, items2) (by simp)
            · exact hfr f (by simp [hf])
        · have hr : delimRun p.text (((o, items) :: fs).map (fun f => closerOf f.1)) = none := by
            rw [hp]; simp [delimRun, delimStep, closerOf, ho]
          rw [hr] at hrun; cases hrun
    · -- "]"
      have h1 : delimsFront.contains p.text = false := by rw [hp, delimsFront_eq']; decide
      have h2 : delimsBack.contains p.text = true := by rw [hp, delimsBack_eq]; decide
      simp only [buildTree, h1, h2, if_true, Bool.false_eq_true, if_false] at h
      cases frames with
      | nil => simp at h
      | cons f fs =>
        obtain ⟨o, items⟩ := f
        have ho : IsOpen o := hfr (o, items) (by simp)
        rcases ho with ho | ho
        · have hr : delimRun p.text (((o, items) :: fs).map (fun f => closerOf f.1)) = none := by
            rw [hp]; simp [delimRun, delimStep, closerOf, ho]
          rw [hr] at hrun; cases hrun
        · have hc : (closingOf o.text != some p.text) = false := by rw [ho, hp]; decide
          have hr : delimRun p.text (((o, items) :: fs).map (fun f => closerOf f.1)) = some (fs.map (fun f => closerOf f.1)) := by
            rw [hp]; simp [delimRun, delimStep, closerOf, ho]
          rw [hr] at hrun
          simp only [hc, Bool.false_eq_true, if_false] at h
          cases fs with
          | nil => exact ih [] _ hpre' (by simp) (by simpa using hrun) tree h
          | cons f2 fs2 =>
            obtain ⟨o2, items2⟩ := f2
            refine ih ((o2, items2 ++ [Tok.group o p items]) :: fs2) base hpre' ?_ (by simpa [closerOf] using hrun) tree h
            intro f hf; rcases List.mem_cons.mp hf with rfl | hf
            · exact hfr (o2, items2) (by simp)
            · exact hfr f (by simp [hf])
    · -- no delimiter character
      have hne : ∀ d : Char, isDelimChar d = true → p.text ≠ [d] := by
        intro d hd he
        have := hp d (by rw [he]; simp)
        rw [hd] at this; cases this
      have h1 : delimsFront.contains p.text = false := by
        rw [delimsFront_eq']
        have a := hne '(' (by decide)
        have b := hne '[' (by decide)
        simp [a, b]
      have h2 : delimsBack.contains p.text = false := by
        rw [delimsBack_eq]
        have a := hne ')' (by decide)
        have b := hne ']' (by decide)
        simp [a, b]
      rw [delimRun_clean _ _ hp] at hrun
      simp only [buildTree, h1, h2, Bool.false_eq_true, if_false] at h
      cases frames with
      | nil => exact ih [] _ hpre' (by simp) (by simpa using hrun) tree h
      | cons f fs =>
        obtain ⟨o, items⟩ := f
        refine ih ((o, items ++ [Tok.atom p]) :: fs) base hpre' ?_ (by simpa [closerOf] using hrun) tree h
        intro f hf; rcases List.mem_cons.mp hf with rfl | hf
        · exact hfr (o, items) (by simp)
        · exact hfr f (by simp [hf])

/-! ## `parse` on a token list with a `+` atom, outside parentheses -/

def IsPlus (x : Tok) : Prop := ∃ t, x = Tok.atom t ∧ t.text = ['+']

theorem isPlus_not_space {x : Tok} (h : IsPlus x) : x.isSpace = false := by
  obtain ⟨t, rfl, ht⟩ := h
  simp [Tok.isSpace, Tok.isText, ht, spaceLit]

theorem mem_dropTrailSpaces_of {ts : List Tok} {x : Tok} (hx : x ∈ ts) (hns : x.isSpace = false) : x ∈ dropTrailSpaces ts := by
  induction ts with
  | nil => cases hx
  | cons t ts ih =>
    simp only [dropTrailSpaces]
    rcases List.mem_cons.mp hx with rfl | hx
    · cases hr : dropTrailSpaces ts with
      | nil => simp [hns]
      | cons r rs => simp
    · have := ih hx
      cases hr : dropTrailSpaces ts with
      | nil => rw [hr] at this; cases this
      | cons r rs => rw [hr] at this; simp only; exact List.mem_cons_of_mem _ this

theorem mem_dropWhile_of {ts : List Tok} {x : Tok} (hx : x ∈ ts) (hns : x.isSpace = false) : x ∈ ts.dropWhile Tok.isSpace := by
  induction ts with
  | nil => cases hx
  | cons t ts ih =>
    simp only [List.dropWhile]
    split
    · rename_i hsp
      rcases List.mem_cons.mp hx with rfl | hx
      · rw [hns] at hsp; cases hsp
      · exact ih hx
    · exact hx

theorem mem_strip_of {ts : List Tok} {x : Tok} (hx : x ∈ ts) (hns : x.isSpace = false) : x ∈ strip ts :=
  mem_dropTrailSpaces_of (mem_dropWhile_of hx hns) hns

/-- A token that is not a separator ends up in one of the operands. -/
theorem splitOn_mem_inv (op : Str) (d : Nat) : ∀ (ts : List Tok) (x : Tok), x ∈ ts → x.isText op = false →
    ∃ o ∈ (splitOn op d ts).1 :: (splitOn op d ts).2, x ∈ o.1
  | [], x, hx, _ => by cases hx
  | t :: ts, x, hx, hn => by
    simp only [splitOn]
    by_cases ht : t.isText op = true
    · simp only [ht, if_true]
      rcases List.mem_cons.mp hx with rfl | hx
      · rw [hn] at ht; cases ht
      · obtain ⟨o, ho, hxo⟩ := splitOn_mem_inv op d ts x hx hn
        exact ⟨o, List.mem_cons_of_mem _ ho, hxo⟩
    · simp only [ht, Bool.false_eq_true, if_false]
      rcases List.mem_cons.mp hx with rfl | hx
      · exact ⟨(x :: (splitOn op d ts).1.1, (splitOn op d ts).1.2), by simp, by simp⟩
      · obtain ⟨o, ho, hxo⟩ := splitOn_mem_inv op d ts x hx hn
        rcases List.mem_cons.mp ho with rfl | ho
        · exact ⟨(t :: (splitOn op d ts).1.1, (splitOn op d ts).1.2), by simp, List.mem_cons_of_mem _ hxo⟩
        · exact ⟨o, by simp [ho], hxo⟩

theorem operands_mem_inv (op : Str) (ts : List Tok) (x : Tok) (hx : x ∈ ts) (hn : x.isText op = false) :
    ∃ o ∈ operands op ts, x ∈ o.ts := by
  obtain ⟨p, hp, hxp⟩ := splitOn_mem_inv op (lastEnd ts 0) ts x hx hn
  refine ⟨mkTL p.1 p.2, ?_, by rw [mkTL_ts]; exact hxp⟩
  simp only [operands, List.mem_map]
  exact ⟨p, by simpa using hp, rfl⟩

theorem mapM_ok_all {α β : Type} (f : α → Res β) : ∀ (l : List α) (xs : List β), l.mapM f = .ok xs →
    ∀ a ∈ l, ∃ x, f a = .ok x
  | [], _, _ => by intro a ha; cases ha
  | a0 :: l, xs, h => by
    simp only [List.mapM_cons, bind, Except.bind] at h
    cases hfa : f a0 with
    | error e => rw [hfa] at h; simp at h
    | ok y =>
      rw [hfa] at h
      simp only at h
      cases hl : l.mapM f with
      | error e => rw [hl] at h; simp at h
      | ok ys =>
        intro a ha
        rcases List.mem_cons.mp ha with rfl | ha
        · exact ⟨y, hfa⟩
        · exact mapM_ok_all f l ys hl a ha

theorem combine_plus_fails (xs : List Expr) (b e : Nat) (ts : List Tok) : ∀ r, combine (lit "+") xs b e false ts ≠ .ok r := by
  intro r hr
  unfold combine at hr
  have e1 : (lit "+" == lit " ") = false := by decide
  have e2 : (lit "+" == lit "->") = false := by decide
  have e3 : (lit "+" == lit ",") = false := by decide
  have e4 : (lit "+" == lit "+") = true := by decide
  simp only [e1, e2, e3, e4, Bool.false_eq_true, if_false, if_true, Bool.not_false] at hr
  split at hr <;> cases hr

theorem isText_plus_of {x : Tok} (h : IsPlus x) : x.isText (lit "+") = true := by
  obtain ⟨t, rfl, ht⟩ := h
  simp [Tok.isText, ht, lit]

/-- `parse(tokens, is_parent_composition=False)` cannot succeed on tokens with a top-level `+`. -/
theorem parse_plus_fails (ts : List Tok) (b e : Nat) (ipc : Bool) :
    ipc = false → (∃ x ∈ ts, IsPlus x) → ∀ r, parse ts b e ipc ≠ .ok r := by
  fun_induction parse ts b e ipc with
  | case1 ts b e ipc hs =>
    intro _ ⟨x, hx, hp⟩ r _
    have := mem_strip_of hx (isPlus_not_space hp)
    rw [hs] at this; cases this
  | case2 => intro _ _ r hr; cases hr
  | case3 ts b e ipc o c inner hs ib x heq _ _ ih =>
    intro _ ⟨y, hy, hp⟩ r _
    have := mem_strip_of hy (isPlus_not_space hp)
    rw [hs] at this
    obtain ⟨t, rfl, _⟩ := hp
    simp at this
  | case4 ts b e ipc o c inner hs ib x heq _ _ ih =>
    intro _ ⟨y, hy, hp⟩ r _
    have := mem_strip_of hy (isPlus_not_space hp)
    rw [hs] at this
    obtain ⟨t, rfl, _⟩ := hp
    simp at this
  | case5 ts b e ipc o c inner hs ib x heq _ _ ih =>
    intro _ ⟨y, hy, hp⟩ r _
    have := mem_strip_of hy (isPlus_not_space hp)
    rw [hs] at this
    obtain ⟨t, rfl, _⟩ := hp
    simp at this
  | case6 => intro _ _ r hr; cases hr
  | case7 => intro _ _ r hr; cases hr
  | case8 ts b e ipc t0 rest _ hs ts1 b1 e1 op hop xs heq ih =>
    intro hipc ⟨y, hy, hp⟩ r hr
    subst hipc
    have hy1 : y ∈ ts1 := by
      have := mem_strip_of hy (isPlus_not_space hp)
      rw [hs] at this; exact this
    have hany : ts1.any (Tok.isText (lit "+")) = true := List.any_eq_true.mpr ⟨y, hy1, isText_plus_of hp⟩
    -- which operator was found
    have hcases : op = lit "->" ∨ op = lit "," ∨ op = lit "+" := by
      rw [naryOps_eq'] at hop
      simp only [findOp, hany, if_true] at hop
      split at hop
      · cases hop; exact Or.inl rfl
      · split at hop
        · cases hop; exact Or.inr (Or.inl rfl)
        · cases hop; exact Or.inr (Or.inr rfl)
    rcases hcases with hop' | hop' | hop'
    · -- the `+` is in an operand of `->`
      have hn : y.isText op = false := by
        obtain ⟨t, rfl, ht⟩ := hp
        rw [hop']; simp [Tok.isText, ht, lit]
      obtain ⟨o, ho, hyo⟩ := operands_mem_inv op ts1 y hy1 hn
      have hk : keepOperands op (operands op ts1) = operands op ts1 := by
        unfold keepOperands; rw [hop']; simp [lit]
      have ho' : o ∈ keepOperands op (operands op ts1) := by rw [hk]; exact ho
      obtain ⟨x, hx⟩ := mapM_ok_all _ _ _ heq ⟨o, ho'⟩ (List.mem_attach _ _)
      exact ih ⟨o, ho'⟩ rfl ⟨y, hyo, hp⟩ x hx
    · have hn : y.isText op = false := by
        obtain ⟨t, rfl, ht⟩ := hp
        rw [hop']; simp [Tok.isText, ht, lit]
      obtain ⟨o, ho, hyo⟩ := operands_mem_inv op ts1 y hy1 hn
      have hk : keepOperands op (operands op ts1) = operands op ts1 := by
        unfold keepOperands; rw [hop']; simp [lit]
      have ho' : o ∈ keepOperands op (operands op ts1) := by rw [hk]; exact ho
      obtain ⟨x, hx⟩ := mapM_ok_all _ _ _ heq ⟨o, ho'⟩ (List.mem_attach _ _)
      exact ih ⟨o, ho'⟩ rfl ⟨y, hyo, hp⟩ x hx
    · rw [hop'] at hr
      exact combine_plus_fails xs b1 e1 ts1 r hr
  | case9 ts b e ipc t hs _ _ _ ts1 hop =>
    intro _ ⟨y, hy, hp⟩ r _
    have hy1 : y ∈ ts1 := by
      have := mem_strip_of hy (isPlus_not_space hp)
      rw [hs] at this; exact this
    have := findOp_none_all hop (lit "+") (by rw [naryOps_eq']; simp)
    rw [List.any_eq_false] at this
    exact this y hy1 (isText_plus_of hp)
  | case10 ts b e ipc t hs _ _ _ ts1 hop =>
    intro _ ⟨y, hy, hp⟩ r _
    have hy1 : y ∈ ts1 := by
      have := mem_strip_of hy (isPlus_not_space hp)
      rw [hs] at this; exact this
    have := findOp_none_all hop (lit "+") (by rw [naryOps_eq']; simp)
    rw [List.any_eq_false] at this
    exact this y hy1 (isText_plus_of hp)
  | case11 => intro _ _ r hr; cases hr
  | case12 ts b e ipc x t hs _ operand heq _ _ ts1 hop ih =>
    intro _ ⟨y, hy, hp⟩ r _
    have hy1 : y ∈ ts1 := by
      have := mem_strip_of hy (isPlus_not_space hp)
      rw [hs] at this; exact this
    have := findOp_none_all hop (lit "+") (by rw [naryOps_eq']; simp)
    rw [List.any_eq_false] at this
    exact this y hy1 (isText_plus_of hp)
  | case13 => intro _ _ r hr; cases hr
  | case14 => intro _ _ r hr; cases hr

/-! ## Assembly -/

theorem parseOp_plus_depth0 (text : Str) (h : atDepth0 '+' text [] = true) : ∀ x, parseOp text ≠ .ok x := by
  intro x hx
  obtain ⟨u, v, hs, hrun⟩ := atDepth0_split '+' text [] h
  unfold parseOp at hx
  cases hl : lex text with
  | error err => rw [hl] at hx; cases hx
  | ok toks =>
    rw [hl] at hx
    simp only at hx
    obtain ⟨htoks, _⟩ := lex_ok_tokens hl
    -- the token list splits at the `+`
    have hseg : toks = segment literals u 0 0 [] ++ ⟨['+'], u.length, u.length + 1⟩ :: segment literals v (u.length + 1) (u.length + 1) [] := by
      rw [htoks, hs]
      have := segment_split_after plus_mem_afterLits u v 0 0 []
      simp only [List.append_assoc, List.singleton_append, Nat.zero_add, List.length_append, List.length_singleton] at this
      exact this
    let t : Token := ⟨['+'], u.length, u.length + 1⟩
    have htsp : t.isSpace = false := by simp [t, Token.isSpace, spaceLit]
    have hclean_all : ∀ p ∈ toks, TokenClean p := by
      intro p hp; rw [htoks] at hp; exact segment_clean text p hp
    cases hb : buildTree (dedupSpaces toks false) [] [] with
    | error err => rw [hb] at hx; cases hx
    | ok tree =>
      rw [hb] at hx
      simp only at hx
      have hd : dedupSpaces toks false = dedupSpaces (segment literals u 0 0 []) false ++ t :: dedupSpaces (segment literals v (u.length + 1) (u.length + 1) []) false := by
        rw [hseg]; exact dedupSpaces_split _ t _ htsp false
      have hpre_clean : ∀ p ∈ dedupSpaces (segment literals u 0 0 []) false, TokenClean p := by
        intro p hp
        apply hclean_all
        rw [hseg]
        exact List.mem_append_left _ (mem_dedupSpaces hp)
      have hrun' : delimRun ((dedupSpaces (segment literals u 0 0 []) false).flatMap (·.text)) (([] : List (Token × List Tok)).map (fun f => closerOf f.1)) = some [] := by
        rw [List.map_nil, delimRun_dedup, segment_concat, List.nil_append]
        exact hrun
      rw [hd] at hb
      have hmem := buildTree_depth0 t _ (by intro c hc; simp only [t, List.mem_singleton] at hc; subst hc; decide) _ [] [] hpre_clean
        (by intro f hf; cases hf) hrun' tree hb
      have := parse_plus_fails tree 0 (lastEnd tree 0) false rfl ⟨Tok.atom t, hmem, t, rfl, rfl⟩
      cases hp : parse tree 0 (lastEnd tree 0) false with
      | error err => rw [hp] at hx; cases hx
      | ok y => exact this y hp

end Einx.Notation
