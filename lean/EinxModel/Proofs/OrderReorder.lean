import EinxModel.Order.Reorder
import EinxModel.Proofs.Update
/-!
C16 / M3: listing the iteration axes of an indexed update in a different order does not change its denotation
(`add_at`, `subtract_at` unconditionally; `set_at` when no two assignments address the same element).
Core Lean only.
-/
namespace Einx.Order
open Einx Einx.Update

/-! ### permutations of `range n` -/

theorem perm_length {p : List Nat} {n : Nat} (hp : p.Perm (List.range n)) : p.length = n := by
  simpa using hp.length_eq

theorem perm_nodup {p : List Nat} {n : Nat} (hp : p.Perm (List.range n)) : p.Nodup :=
  hp.nodup_iff.mpr List.nodup_range

theorem perm_mem {p : List Nat} {n : Nat} (hp : p.Perm (List.range n)) (j : Nat) : j ∈ p ↔ j < n := by
  rw [hp.mem_iff, List.mem_range]

theorem newPos_lt {p : List Nat} {n : Nat} (hp : p.Perm (List.range n)) {j : Nat} (hj : j < n) :
    newPos p j < n := by
  have h : List.idxOf j p < p.length := List.idxOf_lt_length_iff.mpr ((perm_mem hp j).mpr hj)
  rw [perm_length hp] at h
  exact h

theorem newPos_ge {p : List Nat} {n : Nat} (hp : p.Perm (List.range n)) {j : Nat} (hj : n ≤ j) :
    newPos p j = n := by
  have hn : j ∉ p := by rw [perm_mem hp]; omega
  unfold newPos
  rw [List.idxOf_eq_length hn, perm_length hp]

theorem getElem?_newPos {p : List Nat} {n : Nat} (hp : p.Perm (List.range n)) {j : Nat} (hj : j < n) :
    p[newPos p j]? = some j := by
  have h' : List.idxOf j p < p.length := by rw [perm_length hp]; exact newPos_lt hp hj
  unfold newPos
  rw [List.getElem?_eq_getElem h', List.getElem_idxOf h']

theorem newPos_getElem {p : List Nat} {n : Nat} (hp : p.Perm (List.range n)) {i : Nat} (hi : i < p.length) :
    newPos p p[i] = i := (perm_nodup hp).idxOf_getElem i hi

/-! ### renaming of positions -/

/-- `A'` is `A` with its positions renamed by `newPos p`. -/
def Rel (p A' A : List Nat) : Prop := ∀ j, A'[newPos p j]? = A[j]?

theorem rel_pick {p A A' : List Nat} (hp : p.Perm (List.range A.length)) (h : pick A p = some A') :
    Rel p A' A := by
  intro j
  have hl : A'.length = p.length := mapOpt_length h
  by_cases hj : j < A.length
  · exact (mapOpt_getElem? h (newPos p j) j (getElem?_newPos hp hj)).symm
  · have hj' : A.length ≤ j := by omega
    rw [newPos_ge hp hj', List.getElem?_eq_none hj', List.getElem?_eq_none]
    rw [hl, perm_length hp]
    exact Nat.le_refl _

theorem unperm_length (p : List Nat) (n : Nat) (σ' : List Nat) : (unperm p n σ').length = n := by
  simp [unperm]

theorem rel_unperm {p : List Nat} {n : Nat} {σ' : List Nat} (hp : p.Perm (List.range n)) (hl : σ'.length = n) :
    Rel p σ' (unperm p n σ') := by
  intro j
  unfold unperm
  by_cases hj : j < n
  · have h := newPos_lt hp hj
    have h' : newPos p j < σ'.length := by omega
    rw [List.getElem?_map, List.getElem?_range hj]
    simp [List.getElem?_eq_getElem h']
  · have hj' : n ≤ j := by omega
    rw [newPos_ge hp hj', List.getElem?_eq_none (by omega), List.getElem?_eq_none (by simp; omega)]

theorem rel_right_unique {p σ' σ τ : List Nat} (S1 : Rel p σ' σ) (S2 : Rel p σ' τ) : σ = τ :=
  List.ext_getElem? (fun j => (S1 j).symm.trans (S2 j))

theorem rel_left_unique {p : List Nat} {n : Nat} {σ1 σ2 σ : List Nat} (hp : p.Perm (List.range n))
    (h1 : σ1.length = n) (h2 : σ2.length = n) (S1 : Rel p σ1 σ) (S2 : Rel p σ2 σ) : σ1 = σ2 := by
  apply List.ext_getElem?
  intro i
  by_cases hi : i < n
  · have hi' : i < p.length := by rw [perm_length hp]; exact hi
    have e := newPos_getElem hp hi'
    have a := S1 p[i]
    have b := S2 p[i]
    rw [e] at a b
    rw [a, b]
  · rw [List.getElem?_eq_none (by omega), List.getElem?_eq_none (by omega)]

/-! ### `mapOpt` -/

theorem mapOpt_map {α β γ : Type} (f : β → Option γ) (g : α → β) (l : List α) :
    mapOpt f (l.map g) = mapOpt (fun a => f (g a)) l := by
  induction l with
  | nil => rfl
  | cons a as ih => simp only [List.map_cons, mapOpt, ih]

theorem mapOpt_perm {α β : Type} (f : α → Option β) {l₁ l₂ : List α} (h : l₁.Perm l₂) :
    (mapOpt f l₁ = none ∧ mapOpt f l₂ = none) ∨
      ∃ r₁ r₂, mapOpt f l₁ = some r₁ ∧ mapOpt f l₂ = some r₂ ∧ r₁.Perm r₂ := by
  induction h with
  | nil => exact Or.inr ⟨[], [], rfl, rfl, .nil⟩
  | cons x _ ih =>
    cases hx : f x with
    | none => left; simp [mapOpt, hx]
    | some b =>
      rcases ih with ⟨h1, h2⟩ | ⟨r1, r2, h1, h2, hp⟩
      · left; simp [mapOpt, hx, h1, h2]
      · right; exact ⟨b :: r1, b :: r2, by simp [mapOpt, hx, h1], by simp [mapOpt, hx, h2], hp.cons b⟩
  | swap x y l =>
    cases hx : f x <;> cases hy : f y <;> cases hl : mapOpt f l <;> simp [mapOpt, hx, hy, hl]
    exact List.Perm.swap ..
  | trans _ _ ih1 ih2 =>
    rcases ih1 with ⟨a1, a2⟩ | ⟨r1, r2, a1, a2, ap⟩ <;> rcases ih2 with ⟨b1, b2⟩ | ⟨s1, s2, b1, b2, bp⟩
    · exact Or.inl ⟨a1, b2⟩
    · rw [a2] at b1; cases b1
    · rw [a2] at b1; cases b1
    · rw [a2] at b1; cases b1
      exact Or.inr ⟨r1, s2, a1, b2, ap.trans bp⟩

/-! ### the ingredients of a contribution under a renaming -/

/-- What `reorder` does to one coordinate tensor. -/
def reorderCoord (p : List Nat) (c : Coord) : Coord := { c with dims := c.dims.map (reorderC p) }

theorem size_reorderC {p A' A : List Nat} (R : Rel p A' A) (d : CDim) :
    CDim.size A' (reorderC p d) = CDim.size A d := by
  cases d with
  | ax j => exact R j
  | br n => rfl

theorem index_reorderC {p σ' σ : List Nat} (S : Rel p σ' σ) (i : Nat) (d : CDim) :
    CDim.index σ' i (reorderC p d) = CDim.index σ i d := by
  cases d with
  | ax j => exact S j
  | br n => rfl

theorem size_reorderT {p A' A : List Nat} (R : Rel p A' A) (d : TDim) :
    TDim.size A' (reorderT p d) = TDim.size A d := by
  cases d with
  | vec j => exact R j
  | idx n => rfl

theorem filterMap_brLen (p : List Nat) (dims : List CDim) :
    (dims.map (reorderC p)).filterMap CDim.brLen = dims.filterMap CDim.brLen := by
  rw [List.filterMap_map]
  congr 1
  funext d
  cases d <;> rfl

theorem count_reorderCoord (p : List Nat) (c : Coord) : (reorderCoord p c).count = c.count := by
  simp only [Coord.count, reorderCoord, filterMap_brLen]

theorem wf_reorderCoord (p : List Nat) (c : Coord) : (reorderCoord p c).wf = c.wf := by
  simp only [Coord.wf, reorderCoord, filterMap_brLen]

theorem read_reorderCoord {p A' A σ' σ : List Nat} (R : Rel p A' A) (S : Rel p σ' σ) (c : Coord) (i : Nat) :
    Coord.read A' σ' (reorderCoord p c) i = Coord.read A σ c i := by
  have h1 : (fun d => CDim.size A' (reorderC p d)) = CDim.size A := funext (size_reorderC R)
  have h2 : (fun d => CDim.index σ' i (reorderC p d)) = CDim.index σ i := funext (index_reorderC S i)
  simp only [Coord.read, reorderCoord, mapOpt_map, h1, h2]

theorem coordVector_reorder {p A' A σ' σ : List Nat} (R : Rel p A' A) (S : Rel p σ' σ) (coords : List Coord) :
    coordVector A' σ' (coords.map (reorderCoord p)) = coordVector A σ coords := by
  have h : (fun c => mapOpt ((reorderCoord p c).read A' σ') (List.range (reorderCoord p c).count))
      = (fun c => mapOpt (c.read A σ) (List.range c.count)) := by
    funext c
    rw [count_reorderCoord]
    congr 1
    funext i
    exact read_reorderCoord R S c i
  simp only [coordVector, mapOpt_map, h]

theorem targetShape_reorder {p A' A : List Nat} (R : Rel p A' A) (tdims : List TDim) :
    targetShape A' (tdims.map (reorderT p)) = targetShape A tdims := by
  have h : (fun d => TDim.size A' (reorderT p d)) = TDim.size A := funext (size_reorderT R)
  simp only [targetShape, mapOpt_map, h]

theorem targetIndex_reorder {p σ' σ : List Nat} (S : Rel p σ' σ) (tdims : List TDim) (cs : List Nat) :
    targetIndex σ' (tdims.map (reorderT p)) cs = targetIndex σ tdims cs := by
  induction tdims generalizing cs with
  | nil => cases cs <;> rfl
  | cons d ds ih =>
    cases d with
    | vec j => simp only [List.map_cons, reorderT, targetIndex, S j, ih]
    | idx n =>
      cases cs with
      | nil => rfl
      | cons c cs => simp only [List.map_cons, reorderT, targetIndex, ih]

theorem pick_reorder {p σ' σ : List Nat} (S : Rel p σ' σ) (pos : List Nat) :
    pick σ' (pos.map (newPos p)) = pick σ pos := by
  have h : (fun j => σ'[newPos p j]?) = (fun j => σ[j]?) := funext S
  simp only [pick, mapOpt_map, h]

theorem reorder_eq {p : List Nat} {op op' : Op} (h : reorder p op = some op') :
    ∃ axes', pick op.axes p = some axes' ∧
      op' = { axes := axes', tdims := op.tdims.map (reorderT p), coords := op.coords.map (reorderCoord p),
              udims := op.udims.map (newPos p), udata := op.udata } := by
  unfold reorder at h
  split at h
  · rename_i axes' hpk
    refine ⟨axes', hpk, ?_⟩
    injection h with h
    exact h.symm
  · cases h

theorem contribAt_reorder {p : List Nat} {op op' : Op} (h : reorder p op = some op') {σ' σ : List Nat}
    (R : Rel p op'.axes op.axes) (S : Rel p σ' σ) : op'.contribAt σ' = op.contribAt σ := by
  obtain ⟨axes', _, rfl⟩ := reorder_eq h
  simp only [Op.contribAt, Op.tidxAt, Op.readUpd, targetShape_reorder R, coordVector_reorder R S,
    targetIndex_reorder S, pick_reorder R, pick_reorder S]

/-! ### the assignments of the reordered axes -/

theorem valid_iff {s σ : List Nat} :
    Valid s σ ↔ σ.length = s.length ∧ ∀ j a b : Nat, s[j]? = some a → σ[j]? = some b → b < a := by
  induction s generalizing σ with
  | nil =>
    cases σ with
    | nil => simp; exact Valid.nil
    | cons i is => simp; intro h; cases h
  | cons a ss ih =>
    cases σ with
    | nil => simp; intro h; cases h
    | cons i is =>
      constructor
      · intro h
        cases h with
        | cons hi hv =>
          obtain ⟨hl, hf⟩ := ih.mp hv
          refine ⟨by simp [hl], ?_⟩
          intro j x y hx hy
          cases j with
          | zero => simp at hx hy; subst hx; subst hy; exact hi
          | succ j => simp at hx hy; exact hf j x y hx hy
      · rintro ⟨hl, hf⟩
        refine Valid.cons (hf 0 a i rfl rfl) (ih.mpr ⟨by simpa using hl, ?_⟩)
        intro j x y hx hy
        exact hf (j + 1) x y (by simpa using hx) (by simpa using hy)

theorem valid_of_rel {p A' A σ' σ : List Nat} (R : Rel p A' A) (S : Rel p σ' σ) (hl : σ.length = A.length)
    (hv : Valid A' σ') : Valid A σ := by
  rw [valid_iff]
  refine ⟨hl, ?_⟩
  intro j a b ha hb
  rw [← R j] at ha
  rw [← S j] at hb
  exact (valid_iff.mp hv).2 _ a b ha hb

theorem valid_of_rel' {p : List Nat} {n : Nat} {A' A σ' σ : List Nat} (hp : p.Perm (List.range n))
    (R : Rel p A' A) (S : Rel p σ' σ) (hA' : A'.length = n) (hl : σ'.length = n)
    (hv : Valid A σ) : Valid A' σ' := by
  rw [valid_iff]
  refine ⟨by omega, ?_⟩
  intro i a b ha hb
  have hi : i < p.length := by
    rw [perm_length hp, ← hA']
    exact (List.getElem?_eq_some_iff.mp ha).1
  have e := newPos_getElem hp hi
  have r := R p[i]
  have s := S p[i]
  rw [e] at r s
  rw [r] at ha
  rw [s] at hb
  exact (valid_iff.mp hv).2 _ a b ha hb

theorem assignments_perm {p A A' : List Nat} (hp : p.Perm (List.range A.length)) (R : Rel p A' A)
    (hA' : A'.length = A.length) :
    ((assignments A').map (unperm p A.length)).Perm (assignments A) := by
  have hnd : ((assignments A').map (unperm p A.length)).Nodup := by
    rw [List.Nodup, List.pairwise_map]
    refine List.Pairwise.imp_of_mem ?_ (assignments_nodup A')
    intro a b ha hb hne heq
    have la : a.length = A.length := (valid_length (mem_assignments_iff_valid.mp ha)).trans hA'
    have lb : b.length = A.length := (valid_length (mem_assignments_iff_valid.mp hb)).trans hA'
    have Sa := rel_unperm hp la
    have Sb := rel_unperm hp lb
    rw [heq] at Sa
    exact hne (rel_left_unique hp la lb Sa Sb)
  rw [List.perm_ext_iff_of_nodup hnd (assignments_nodup A)]
  intro τ
  simp only [List.mem_map, mem_assignments_iff_valid]
  constructor
  · rintro ⟨σ', hv, rfl⟩
    have l' : σ'.length = A.length := (valid_length hv).trans hA'
    exact valid_of_rel R (rel_unperm hp l') (unperm_length ..) hv
  · intro hv
    have lτ : τ.length = A.length := valid_length hv
    have lσ : (p.map (fun j => τ.getD j 0)).length = A.length := by simp [perm_length hp]
    have S : Rel p (p.map (fun j => τ.getD j 0)) τ := by
      intro j
      by_cases hj : j < A.length
      · have hj' : j < τ.length := by omega
        rw [List.getElem?_map, getElem?_newPos hp hj]
        simp [List.getElem?_eq_getElem hj']
      · have hj' : A.length ≤ j := by omega
        rw [newPos_ge hp hj', List.getElem?_eq_none (by omega), List.getElem?_eq_none (by omega)]
    refine ⟨_, valid_of_rel' hp R S hA' lσ hv, ?_⟩
    exact rel_right_unique (rel_unperm hp lσ) S

/-! ### `applyUpdates` under a permutation of the contributions -/

theorem applyUpdates_perm_add_sub (m : Mode) (hm : m = .add ∨ m = .sub) (t : List Int) {cs ds : List (Nat × Int)}
    (h : cs.Perm ds) : applyUpdates m t cs = applyUpdates m t ds := by
  apply List.ext_getElem?
  intro k
  rw [getElem?_applyUpdates, getElem?_applyUpdates]
  have hs : (addressedTo k cs).sum = (addressedTo k ds).sum := addressedTo_perm_sum h
  rcases hm with rfl | rfl
  · simp only [foldl_add, hs]
  · simp only [foldl_sub, hs]

theorem addressedTo_eq_nil {k : Nat} {cs : List (Nat × Int)} (h : k ∉ cs.map (·.1)) : addressedTo k cs = [] := by
  simp only [addressedTo, List.map_eq_nil_iff, List.filter_eq_nil_iff]
  intro c hc hk
  apply h
  simp only [List.mem_map]
  exact ⟨c, hc, by simpa using hk⟩

theorem addressedTo_length_le_one {k : Nat} {cs : List (Nat × Int)} (hn : (cs.map (·.1)).Nodup) :
    (addressedTo k cs).length ≤ 1 := by
  induction cs with
  | nil => simp [addressedTo]
  | cons c cs ih =>
    simp only [List.map_cons, List.nodup_cons] at hn
    by_cases hc : c.1 = k
    · subst hc
      have := addressedTo_eq_nil hn.1
      simp only [addressedTo] at this
      simp [addressedTo, this]
    · have hb : (c.1 == k) = false := by simpa using hc
      have := ih hn.2
      simp only [addressedTo] at this
      simp only [addressedTo, List.filter_cons, hb]
      simpa using this

theorem applyUpdates_perm_set (t : List Int) {cs ds : List (Nat × Int)} (h : cs.Perm ds)
    (hn : (cs.map (·.1)).Nodup) : applyUpdates .set t cs = applyUpdates .set t ds := by
  apply List.ext_getElem?
  intro k
  rw [getElem?_applyUpdates, getElem?_applyUpdates]
  have hperm : (addressedTo k cs).Perm (addressedTo k ds) := (h.filter _).map _
  have hlen : (addressedTo k cs).length ≤ 1 := addressedTo_length_le_one hn
  have heq : addressedTo k cs = addressedTo k ds := by
    generalize addressedTo k cs = a at hperm hlen
    generalize addressedTo k ds = b at hperm
    cases a with
    | nil => exact (hperm.symm.eq_nil).symm
    | cons x xs =>
      cases xs with
      | nil => exact hperm.singleton_eq
      | cons y ys => simp at hlen
  rw [heq]

/-! ### assembling the denotation -/

theorem reorder_core {op op' : Op} {p : List Nat} (hp : p.Perm (List.range op.axes.length))
    (h : reorder p op = some op') :
    targetShape op'.axes op'.tdims = targetShape op.axes op.tdims ∧
    op'.coords.all Coord.wf = op.coords.all Coord.wf ∧
    ((op'.contribs = none ∧ op.contribs = none) ∨
      ∃ r₁ r₂, op'.contribs = some r₁ ∧ op.contribs = some r₂ ∧ r₁.Perm r₂) := by
  obtain ⟨axes', hpk, hop⟩ := reorder_eq h
  have hax : op'.axes = axes' := by rw [hop]
  have R : Rel p op'.axes op.axes := by rw [hax]; exact rel_pick hp hpk
  have hA' : op'.axes.length = op.axes.length := by
    rw [hax, show axes'.length = p.length from mapOpt_length hpk, perm_length hp]
  refine ⟨?_, ?_, ?_⟩
  · have : op'.tdims = op.tdims.map (reorderT p) := by rw [hop]
    rw [this]
    exact targetShape_reorder R _
  · have : op'.coords = op.coords.map (reorderCoord p) := by rw [hop]
    rw [this, List.all_map]
    congr 1
    funext c
    exact wf_reorderCoord p c
  · have hc : op'.contribs = mapOpt op.contribAt ((assignments op'.axes).map (unperm p op.axes.length)) := by
      rw [mapOpt_map]
      unfold Op.contribs
      apply mapOpt_congr
      intro σ' hσ'
      have l' : σ'.length = op.axes.length := (valid_length (mem_assignments_iff_valid.mp hσ')).trans hA'
      exact contribAt_reorder h R (rel_unperm hp l')
    rw [hc]
    exact mapOpt_perm op.contribAt (assignments_perm hp R hA')

/-- Listing the iteration axes of an indexed update in a different order does not change `add_at` / `subtract_at`. -/
theorem reorder_denote_add_sub (m : Mode) (hm : m = .add ∨ m = .sub) (op op' : Op) (p : List Nat) (t : List Int)
    (hp : p.Perm (List.range op.axes.length)) (h : reorder p op = some op') :
    denote m op' t = denote m op t := by
  obtain ⟨hts, hwf, hcs⟩ := reorder_core hp h
  unfold denote
  rw [hts, hwf]
  rcases hcs with ⟨h1, h2⟩ | ⟨r₁, r₂, h1, h2, hperm⟩
  · rw [h1, h2]
  · rw [h1, h2]
    cases targetShape op.axes op.tdims with
    | none => rfl
    | some tshape =>
      simp only
      rw [applyUpdates_perm_add_sub m hm t hperm]

/-- ... nor `set_at`, provided no two assignments address the same element. -/
theorem reorder_denote_set (op op' : Op) (p : List Nat) (t : List Int)
    (hp : p.Perm (List.range op.axes.length)) (h : reorder p op = some op')
    (hd : distinctAddresses op = true) :
    denote .set op' t = denote .set op t := by
  obtain ⟨hts, hwf, hcs⟩ := reorder_core hp h
  unfold denote
  rw [hts, hwf]
  rcases hcs with ⟨h1, h2⟩ | ⟨r₁, r₂, h1, h2, hperm⟩
  · rw [h1, h2]
  · have hn : (r₂.map (·.1)).Nodup := by
      unfold distinctAddresses at hd
      rw [h2] at hd
      simpa using hd
    rw [h1, h2]
    cases targetShape op.axes op.tdims with
    | none => rfl
    | some tshape =>
      simp only
      rw [← applyUpdates_perm_set t hperm.symm hn]

/-! ### non-vacuity -/

/-- A concrete instance: 2 iteration axes of lengths 2 and 3, a 1-d target of length 4 indexed by one coordinate
tensor over both axes, the update tensor over the second axis only.  Swapping the two axes gives a different `Op`
(whose contributions come in a different order), the same denotation, and that denotation changes the target. -/
example :
    let op : Op := { axes := [2, 3], tdims := [.idx 4], coords := [⟨[.ax 0, .ax 1], [0, 1, 2, 1, 2, 3]⟩],
                     udims := [1], udata := [10, 20, 30] }
    let op' : Op := { axes := [3, 2], tdims := [.idx 4], coords := [⟨[.ax 1, .ax 0], [0, 1, 2, 1, 2, 3]⟩],
                      udims := [0], udata := [10, 20, 30] }
    let t : List Int := [0, 0, 0, 0]
    [1, 0].Perm (List.range op.axes.length) ∧ reorder [1, 0] op = some op' ∧ op' ≠ op ∧
      op'.contribs ≠ op.contribs ∧
      denote .add op' t = denote .add op t ∧ denote .add op t = some [10, 30, 50, 30] ∧
      ([10, 30, 50, 30] : List Int) ≠ t := by
  decide

end Einx.Order
