import EinxModel.Factory.Check
/-! Helper lemmas for `Props/C13Exec.lean`: the backward pass `Factory.reachable` computes exactly the applications
from which the graph output is reachable along operand edges (`Reach`), for every serialisation-sane (`wf`) graph. -/
namespace Einx.Factory

/-- Application `i` produces a tracer that the graph output mentions, or that a reachable application consumes. -/
inductive Reach (g : Graph) : Nat → Prop
  | out (i : Nat) (a : GApp) (r : Nat) : g.apps[i]? = some a → r ∈ a.out.refs → r ∈ g.output.refs → Reach g i
  | step (j : Nat) (b : GApp) (i : Nat) (a : GApp) (r : Nat) : Reach g j → g.apps[j]? = some b →
      r ∈ refsL b.node.operands → g.apps[i]? = some a → r ∈ a.out.refs → Reach g i

theorem Reach.lt {g : Graph} {i : Nat} (h : Reach g i) : i < g.apps.length := by
  cases h with
  | out _ a r ha _ _ => exact (List.getElem?_eq_some_iff.1 ha).1
  | step j b _ a r _ _ _ ha _ => exact (List.getElem?_eq_some_iff.1 ha).1

/-! ### What `wf` says -/

theorem wf_out {g : Graph} (hwf : wf g = true) (i : Nat) (a : GApp) (ha : g.apps[i]? = some a) (k : Nat) (hk : k ∈ a.out.refs) :
    ∃ ti, g.tracers[k]? = some ti ∧ ti.origin = some i := by
  simp only [wf, Bool.and_eq_true, List.all_eq_true] at hwf
  have h1 := (hwf.1.2 (a, i) (List.mem_zipIdx_iff_getElem?.2 ha)).1 k hk
  cases ht : g.tracers[k]? with
  | none => simp [ht] at h1
  | some ti => exact ⟨ti, rfl, by simpa [ht] using h1⟩

theorem wf_operand {g : Graph} (hwf : wf g = true) (i : Nat) (a : GApp) (ha : g.apps[i]? = some a) (x : Nat)
    (hx : x ∈ refsL a.node.operands) : ∃ ti, g.tracers[x]? = some ti ∧ ∀ o, ti.origin = some o → o < i := by
  simp only [wf, Bool.and_eq_true, List.all_eq_true] at hwf
  have h1 := (hwf.1.2 (a, i) (List.mem_zipIdx_iff_getElem?.2 ha)).2 x hx
  cases ht : g.tracers[x]? with
  | none => simp [ht] at h1
  | some ti =>
    refine ⟨ti, rfl, ?_⟩
    intro o ho
    simpa [ht, ho] using h1

theorem wf_input {g : Graph} (hwf : wf g = true) (t : Nat) (ht : t ∈ g.inputs) :
    ∃ ti, g.tracers[t]? = some ti ∧ ti.origin = none := by
  simp only [wf, Bool.and_eq_true, List.all_eq_true] at hwf
  have h1 := hwf.1.1 t ht
  cases hti : g.tracers[t]? with
  | none => simp [hti] at h1
  | some ti => exact ⟨ti, rfl, by simpa [hti] using h1⟩

/-- Every tracer has at most one producer. -/
theorem wf_producer_unique {g : Graph} (hwf : wf g = true) (i i' : Nat) (a a' : GApp) (ha : g.apps[i]? = some a)
    (ha' : g.apps[i']? = some a') (r : Nat) (hr : r ∈ a.out.refs) (hr' : r ∈ a'.out.refs) : i = i' := by
  obtain ⟨ti, h1, h2⟩ := wf_out hwf i a ha r hr
  obtain ⟨ti', h1', h2'⟩ := wf_out hwf i' a' ha' r hr'
  rw [h1] at h1'
  cases h1'
  rw [h2] at h2'
  exact Option.some.inj h2'

/-- A consumer comes after the producer. -/
theorem wf_topo {g : Graph} (hwf : wf g = true) (i j : Nat) (a b : GApp) (ha : g.apps[i]? = some a)
    (hb : g.apps[j]? = some b) (r : Nat) (hr : r ∈ a.out.refs) (hr' : r ∈ refsL b.node.operands) : i < j := by
  obtain ⟨ti, h1, h2⟩ := wf_out hwf i a ha r hr
  obtain ⟨ti', h1', h2'⟩ := wf_operand hwf j b hb r hr'
  rw [h1] at h1'
  cases h1'
  exact h2' i h2

/-- An input is produced by no application. -/
theorem wf_input_not_out {g : Graph} (hwf : wf g = true) (t : Nat) (ht : t ∈ g.inputs) (i : Nat) (a : GApp)
    (ha : g.apps[i]? = some a) : t ∉ a.out.refs := by
  intro hr
  obtain ⟨ti, h1, h2⟩ := wf_out hwf i a ha t hr
  obtain ⟨ti', h1', h2'⟩ := wf_input hwf t ht
  rw [h1] at h1'
  cases h1'
  rw [h2] at h2'
  cases h2'

/-! ### The backward pass -/

def bwStep (acc : List Nat × List Nat) (p : GApp × Nat) : List Nat × List Nat :=
  if p.1.out.refs.any (fun r => acc.1.contains r) then (refsL p.1.node.operands ++ acc.1, p.2 :: acc.2) else acc

/-- The pass over the applications `k, k+1, …` (from the last one down to `k`). -/
def bw (g : Graph) (k : Nat) : List Nat × List Nat :=
  ((g.apps.drop k).zipIdx k).foldr (fun p acc => bwStep acc p) (g.output.refs, [])

theorem reachable_eq_bw (g : Graph) : reachable g = (bw g 0).2 := by
  unfold reachable bw
  rw [List.foldl_reverse]
  rfl

theorem bw_end (g : Graph) (k : Nat) (hk : g.apps.length ≤ k) : bw g k = (g.output.refs, []) := by
  unfold bw
  rw [List.drop_eq_nil_of_le hk]
  rfl

theorem bw_step (g : Graph) (k : Nat) (a : GApp) (ha : g.apps[k]? = some a) :
    bw g k = bwStep (bw g (k + 1)) (a, k) := by
  unfold bw
  have hk := (List.getElem?_eq_some_iff.1 ha).1
  have hd : g.apps.drop k = a :: g.apps.drop (k + 1) := by
    rw [List.drop_eq_getElem_cons hk]
    congr 1
    exact (List.getElem?_eq_some_iff.1 ha).2
  rw [hd, List.zipIdx_cons, List.foldr_cons]

structure BwInv (g : Graph) (k : Nat) (acc : List Nat × List Nat) : Prop where
  marked : ∀ i, i ∈ acc.2 ↔ (k ≤ i ∧ Reach g i)
  needed : ∀ r, r ∈ acc.1 ↔ (r ∈ g.output.refs ∨ ∃ j b, j ∈ acc.2 ∧ g.apps[j]? = some b ∧ r ∈ refsL b.node.operands)

theorem bw_inv (g : Graph) (hwf : wf g = true) : ∀ (n k : Nat), k + n = g.apps.length → BwInv g k (bw g k) := by
  intro n
  induction n with
  | zero =>
    intro k hk
    rw [bw_end g k (by omega)]
    refine ⟨?_, ?_⟩
    · intro i
      simp only [List.not_mem_nil, false_iff, not_and]
      intro hki hr
      have := hr.lt
      omega
    · intro r
      simp
  | succ n ih =>
    intro k hk
    have hlt : k < g.apps.length := by omega
    have ha : g.apps[k]? = some g.apps[k] := List.getElem?_eq_getElem hlt
    generalize g.apps[k] = a at ha
    rw [bw_step g k a ha]
    have hinv := ih (k + 1) (by omega)
    generalize bw g (k + 1) = acc at hinv
    unfold bwStep
    split
    · -- marked
      rename_i hm
      simp only [List.any_eq_true, List.contains_eq_mem, decide_eq_true_eq] at hm
      obtain ⟨r, hr, hacc⟩ := hm
      have hreach : Reach g k := by
        rcases (hinv.needed r).1 hacc with ho | ⟨j, b, hj, hb, hrb⟩
        · exact Reach.out k a r ha hr ho
        · exact Reach.step j b k a r ((hinv.marked j).1 hj).2 hb hrb ha hr
      refine ⟨?_, ?_⟩
      · intro i
        simp only [List.mem_cons]
        constructor
        · rintro (rfl | hi)
          · exact ⟨Nat.le_refl _, hreach⟩
          · have := (hinv.marked i).1 hi
            exact ⟨by omega, this.2⟩
        · rintro ⟨hki, hri⟩
          by_cases hik : i = k
          · exact Or.inl hik
          · exact Or.inr ((hinv.marked i).2 ⟨by omega, hri⟩)
      · intro x
        simp only [List.mem_append, List.mem_cons]
        constructor
        · rintro (hx | hx)
          · exact Or.inr ⟨k, a, Or.inl rfl, ha, hx⟩
          · rcases (hinv.needed x).1 hx with ho | ⟨j, b, hj, hb, hxb⟩
            · exact Or.inl ho
            · exact Or.inr ⟨j, b, Or.inr hj, hb, hxb⟩
        · rintro (ho | ⟨j, b, hj, hb, hxb⟩)
          · exact Or.inr ((hinv.needed x).2 (Or.inl ho))
          · rcases hj with rfl | hj
            · rw [ha] at hb
              cases hb
              exact Or.inl hxb
            · exact Or.inr ((hinv.needed x).2 (Or.inr ⟨j, b, hj, hb, hxb⟩))
    · -- not marked: `k` is not reachable
      rename_i hm
      have hnot : ¬ Reach g k := by
        intro hr
        apply hm
        simp only [List.any_eq_true, List.contains_eq_mem, decide_eq_true_eq]
        cases hr with
        | out _ a' r ha' hr ho =>
          rw [ha] at ha'
          cases ha'
          exact ⟨r, hr, (hinv.needed r).2 (Or.inl ho)⟩
        | step j b _ a' r hj hb hrb ha' hr =>
          rw [ha] at ha'
          cases ha'
          have hkj := wf_topo hwf k j a b ha hb r hr hrb
          exact ⟨r, hr, (hinv.needed r).2 (Or.inr ⟨j, b, (hinv.marked j).2 ⟨by omega, hj⟩, hb, hrb⟩)⟩
      refine ⟨?_, hinv.needed⟩
      intro i
      rw [hinv.marked i]
      constructor
      · rintro ⟨h1, h2⟩
        exact ⟨by omega, h2⟩
      · rintro ⟨h1, h2⟩
        refine ⟨?_, h2⟩
        by_cases hik : i = k
        · subst hik
          exact absurd h2 hnot
        · omega

/-- **The backward pass is reachability**: for a `wf` graph, `reachable g` lists exactly the applications from which
the output is reachable along operand edges. -/
theorem mem_reachable_iff (g : Graph) (hwf : wf g = true) (i : Nat) : i ∈ reachable g ↔ Reach g i := by
  rw [reachable_eq_bw, (bw_inv g hwf g.apps.length 0 (by omega)).marked i]
  simp

end Einx.Factory
