import EinxModel.IR.PrimX
import Mathlib.Data.List.Sort
/-!
`Cell.cmp` (the comparison `sortCells` sorts with, `IR/PrimX.lean`) is a linear order on cells:
antisymmetric up to equality (`Cell.cmp_eq`), oriented (`Cell.cmp_swap`) and transitive (`Cell.cmp_T3`).
Hence `sortCells` -- insertion sort by `Cell.cmp` -- is a normal form of the *multiset* of cells
(`sortCells_perm`), and so is the canonical reduction cell `mkRed` (`mkRed_perm`).
-/
namespace Einx.IR
open List

/-- Strong transitivity of the three comparison results of a triple. -/
def T3 (ab bc ac : Ordering) : Prop :=
  (ab = .lt → bc ≠ .gt → ac = .lt) ∧ (ab ≠ .gt → bc = .lt → ac = .lt) ∧ (ab = .eq → bc = .eq → ac = .eq)

instance (ab bc ac : Ordering) : Decidable (T3 ab bc ac) := by unfold T3; infer_instance

/-- Lexicographic composition preserves strong transitivity (finite case analysis over `Ordering`⁶). -/
theorem T3_then : ∀ o1 o2 o3 p1 p2 p3 : Ordering, T3 o1 o2 o3 → T3 p1 p2 p3 →
    T3 (o1.then p1) (o2.then p2) (o3.then p3) := by
  decide

theorem T3_compare {α : Type} [Ord α] [Std.TransOrd α] (a b c : α) :
    T3 (compare a b) (compare b c) (compare a c) := by
  refine ⟨fun h1 h2 => Std.TransCmp.lt_of_lt_of_isLE h1 (by cases h : compare b c <;> simp_all),
    fun h1 h2 => Std.TransCmp.lt_of_isLE_of_lt (by cases h : compare a b <;> simp_all) h2,
    fun h1 h2 => Std.TransCmp.eq_trans h1 h2⟩

theorem swap_then (o p : Ordering) : (o.then p).swap = o.swap.then p.swap := by cases o <;> rfl

theorem then_eq_eq {o p : Ordering} : o.then p = .eq ↔ o = .eq ∧ p = .eq := by
  cases o <;> simp [Ordering.then]

mutual
/-- `Cell.cmp` is oriented: swapping the arguments swaps the result. -/
theorem Cell.cmp_swap : ∀ a b : Cell, Cell.cmp b a = (Cell.cmp a b).swap
  | .src r k, .src r' k' => by
    simp only [Cell.cmp, swap_then, ← Std.OrientedOrd.eq_swap]
  | .lit i, .lit j => by simp only [Cell.cmp, ← Std.OrientedOrd.eq_swap]
  | .app f as, .app g bs => by
    simp only [Cell.cmp, swap_then, ← Std.OrientedOrd.eq_swap, ← Cell.cmpL_swap as bs]
  | .bad, .bad => rfl
  | .src _ _, .lit _ | .src _ _, .app _ _ | .src _ _, .bad
  | .lit _, .src _ _ | .lit _, .app _ _ | .lit _, .bad
  | .app _ _, .src _ _ | .app _ _, .lit _ | .app _ _, .bad
  | .bad, .src _ _ | .bad, .lit _ | .bad, .app _ _ => by simp [Cell.cmp]
theorem Cell.cmpL_swap : ∀ as bs : List Cell, Cell.cmpL bs as = (Cell.cmpL as bs).swap
  | [], [] => rfl
  | [], _ :: _ => rfl
  | _ :: _, [] => rfl
  | a :: as, b :: bs => by
    simp only [Cell.cmpL, swap_then, ← Cell.cmp_swap a b, ← Cell.cmpL_swap as bs]
end

mutual
/-- `Cell.cmp` answers `eq` only on equal cells. -/
theorem Cell.cmp_eq : ∀ a b : Cell, Cell.cmp a b = .eq → a = b
  | .src r k, .src r' k', h => by
    simp only [Cell.cmp, then_eq_eq, Std.LawfulEqOrd.compare_eq_iff_eq] at h
    rw [h.1, h.2]
  | .lit i, .lit j, h => by
    simp only [Cell.cmp, Std.LawfulEqOrd.compare_eq_iff_eq] at h
    rw [h]
  | .app f as, .app g bs, h => by
    simp only [Cell.cmp, then_eq_eq, Std.LawfulEqOrd.compare_eq_iff_eq] at h
    rw [h.1, Cell.cmpL_eq as bs h.2]
  | .bad, .bad, _ => rfl
  | .src _ _, .lit _, h | .src _ _, .app _ _, h | .src _ _, .bad, h
  | .lit _, .src _ _, h | .lit _, .app _ _, h | .lit _, .bad, h
  | .app _ _, .src _ _, h | .app _ _, .lit _, h | .app _ _, .bad, h
  | .bad, .src _ _, h | .bad, .lit _, h | .bad, .app _ _, h => by simp [Cell.cmp] at h
theorem Cell.cmpL_eq : ∀ as bs : List Cell, Cell.cmpL as bs = .eq → as = bs
  | [], [], _ => rfl
  | [], _ :: _, h => by simp [Cell.cmpL] at h
  | _ :: _, [], h => by simp [Cell.cmpL] at h
  | a :: as, b :: bs, h => by
    simp only [Cell.cmpL, then_eq_eq] at h
    rw [Cell.cmp_eq a b h.1, Cell.cmpL_eq as bs h.2]
end

mutual
/-- `Cell.cmp` is (strongly) transitive. -/
theorem Cell.cmp_T3 : ∀ a b c : Cell, T3 (Cell.cmp a b) (Cell.cmp b c) (Cell.cmp a c)
  | .src r k, b, c => by
    cases b <;> cases c <;> simp only [Cell.cmp] <;>
      first | exact T3_then _ _ _ _ _ _ (T3_compare _ _ _) (T3_compare _ _ _) | simp [T3]
  | .lit i, b, c => by
    cases b <;> cases c <;> simp only [Cell.cmp] <;> first | exact T3_compare _ _ _ | simp [T3]
  | .app f as, b, c => by
    cases b <;> cases c <;> simp only [Cell.cmp] <;>
      first | exact T3_then _ _ _ _ _ _ (T3_compare _ _ _) (Cell.cmpL_T3 as _ _) | simp [T3]
  | .bad, b, c => by
    cases b <;> cases c <;> simp [Cell.cmp, T3]
theorem Cell.cmpL_T3 : ∀ as bs cs : List Cell, T3 (Cell.cmpL as bs) (Cell.cmpL bs cs) (Cell.cmpL as cs)
  | [], bs, cs => by cases bs <;> cases cs <;> simp [Cell.cmpL, T3]
  | a :: as, bs, cs => by
    cases bs <;> cases cs <;> simp only [Cell.cmpL] <;>
      first | exact T3_then _ _ _ _ _ _ (Cell.cmp_T3 a _ _) (Cell.cmpL_T3 as _ _) | simp [T3]
end

/-- The order `sortCells` sorts by. -/
def Cell.le (a b : Cell) : Prop := Cell.cmp a b ≠ .gt

instance : DecidableRel Cell.le := fun a b => by unfold Cell.le; infer_instance

theorem Cell.le_total (a b : Cell) : Cell.le a b ∨ Cell.le b a := by
  unfold Cell.le
  rw [Cell.cmp_swap a b]
  cases Cell.cmp a b <;> simp

theorem Cell.le_trans {a b c : Cell} (h1 : Cell.le a b) (h2 : Cell.le b c) : Cell.le a c := by
  unfold Cell.le at *
  obtain ⟨t1, t2, t3⟩ := Cell.cmp_T3 a b c
  cases hab : Cell.cmp a b with
  | gt => exact absurd hab h1
  | lt => rw [t1 hab h2]; simp
  | eq =>
    cases hbc : Cell.cmp b c with
    | gt => exact absurd hbc h2
    | lt => rw [t2 h1 hbc]; simp
    | eq => rw [t3 hab hbc]; simp

theorem Cell.le_antisymm {a b : Cell} (h1 : Cell.le a b) (h2 : Cell.le b a) : a = b := by
  unfold Cell.le at *
  rw [Cell.cmp_swap a b] at h2
  apply Cell.cmp_eq
  cases h : Cell.cmp a b <;> simp_all

instance : Std.Total Cell.le := ⟨Cell.le_total⟩
instance : IsTrans Cell Cell.le := ⟨fun _ _ _ => Cell.le_trans⟩
instance : Std.Antisymm Cell.le := ⟨fun _ _ => Cell.le_antisymm⟩

theorem insertCell_eq (c : Cell) (l : List Cell) : insertCell c l = orderedInsert Cell.le c l := by
  induction l with
  | nil => rfl
  | cons d ds ih =>
    simp only [insertCell, orderedInsert_cons, Cell.le, ih]
    by_cases h : Cell.cmp c d = .gt <;> simp [h]

/-- `sortCells` is Mathlib's insertion sort for the relation `Cell.le`. -/
theorem sortCells_eq (l : List Cell) : sortCells l = insertionSort Cell.le l := by
  induction l with
  | nil => rfl
  | cons c cs ih =>
    have : sortCells (c :: cs) = insertCell c (sortCells cs) := rfl
    rw [this, ih, insertCell_eq, insertionSort_cons]

theorem sortCells_perm_self (l : List Cell) : sortCells l ~ l := by
  rw [sortCells_eq]; exact perm_insertionSort _ l

/-- **`sortCells` is a normal form of the multiset of cells**: lists that are permutations of each other
have the same sorted list. -/
theorem sortCells_perm {l1 l2 : List Cell} (h : l1 ~ l2) : sortCells l1 = sortCells l2 := by
  rw [sortCells_eq, sortCells_eq]
  exact Perm.eq_of_pairwise' (r := Cell.le) (pairwise_insertionSort _ l1) (pairwise_insertionSort _ l2)
    ((perm_insertionSort _ l1).trans (h.trans (perm_insertionSort _ l2).symm))

theorem sortCells_length (l : List Cell) : (sortCells l).length = l.length := (sortCells_perm_self l).length_eq

/-- **The canonical reduction cell depends on the multiset of the reduced cells only.** -/
theorem mkRed_perm (f : String) {l1 l2 : List Cell} (h : l1 ~ l2) : mkRed f l1 = mkRed f l2 := by
  match l1, l2, h with
  | [c], l2, h =>
    have := perm_singleton.mp h.symm
    rw [this]
  | [], l2, h => rw [perm_nil.mp h.symm]
  | a :: b :: l, l2, h =>
    have hl := h.length_eq
    match l2, hl, h with
    | a' :: b' :: l', _, h => simp only [mkRed, sortCells_perm h]

end Einx.IR
