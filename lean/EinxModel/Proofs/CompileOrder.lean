import EinxModel.Proofs.CompileCorrect
/-! Helper lemmas for `Props/C04.lean`: the traversal order of a well-formed graph has no repetitions. -/
namespace Einx.Compile

theorem originOf_app (g : Graph) (t i : Nat) (a : App) (h : g.originOf t = some (i, a)) : g.apps[i]? = some a := by
  unfold Graph.originOf at h
  split at h
  · rename_i j _
    cases ha : g.apps[j]? with
    | none => simp [ha] at h
    | some a' =>
      simp only [ha, Option.map_some, Option.some.injEq, Prod.mk.injEq] at h
      obtain ⟨rfl, rfl⟩ := h
      exact ha
  · simp at h

theorem originOf_lt (g : Graph) (t i : Nat) (a : App) (h : g.originOf t = some (i, a)) : t < g.origin.length := by
  unfold Graph.originOf at h
  split at h
  · rename_i j hj
    rcases Nat.lt_or_ge t g.origin.length with h1 | h1
    · exact h1
    · rw [List.getElem?_eq_none h1] at hj; simp at hj
  · simp at h

theorem WF.origin {g : Graph} (hwf : g.WF = true) (t i : Nat) (a : App) (h : g.originOf t = some (i, a)) :
    E.var t ∈ regKeys a.out := by
  simp only [Graph.WF, Bool.and_eq_true, List.all_eq_true] at hwf
  have := hwf.1.1.1 t (List.mem_range.2 (originOf_lt g t i a h))
  rw [h] at this
  simpa using this

theorem WF.topo {g : Graph} (hwf : g.WF = true) (i : Nat) (a : App) (ha : g.apps[i]? = some a)
    (o : E) (ho : o ∈ a.genOperands) (t : Nat) (ht : t ∈ cand g o) (j : Nat) (b : App) (hj : g.originOf t = some (j, b)) :
    j < i := by
  simp only [Graph.WF, Bool.and_eq_true, List.all_eq_true] at hwf
  have h1 := hwf.1.1.2 (a, i) (List.mem_zipIdx_iff_getElem?.2 ha) t (List.mem_flatMap.2 ⟨o, ho, ht⟩)
  simp only [hj, decide_eq_true_eq] at h1
  exact h1

theorem WF.outputs {g : Graph} (hwf : g.WF = true) (k : Nat) (sg : SubGraph) (hk : g.graphs[k]? = some sg) :
    sg.output.grefsOf = [] := by
  simp only [Graph.WF, Bool.and_eq_true, List.all_eq_true] at hwf
  have := hwf.1.2 sg (List.mem_of_getElem? hk)
  simpa using this

theorem WF.topoGraph {g : Graph} (hwf : g.WF = true) (i : Nat) (a : App) (ha : g.apps[i]? = some a)
    (k : Nat) (hk : k ∈ a.operandEs.flatMap E.grefsOf) (sg : SubGraph) (hsg : g.graphs[k]? = some sg)
    (t : Nat) (ht : t ∈ sg.output.vars) (j : Nat) (b : App) (hj : g.originOf t = some (j, b)) : j < i := by
  simp only [Graph.WF, Bool.and_eq_true, List.all_eq_true] at hwf
  have h1 := hwf.2 (a, i) (List.mem_zipIdx_iff_getElem?.2 ha) k hk
  simp only [hsg, List.all_eq_true] at h1
  have h2 := h1 t ht
  simp only [hj, decide_eq_true_eq] at h2
  exact h2

/-! ### The traversal -/

structure OInv (g : Graph) (st : OState) : Prop where
  apps : ∀ i a t, Visit.app i ∈ st.order → g.originOf t = some (i, a) → E.var t ∈ st.registered
  grefs : ∀ k, (Visit.enter k ∈ st.order ∨ Visit.exit k ∈ st.order) → E.gref k ∈ st.registered

/-- What one call of `visit` adds to the order. `B j`: bound on the applications that may be visited. -/
def VRes (g : Graph) (B : Nat → Prop) (st st' : OState) : Prop :=
  ∃ new, st'.order = st.order ++ new ∧ new.Nodup ∧ (∀ v ∈ new, v ∉ st.order) ∧ OInv g st' ∧
    (∀ k ∈ st.registered, k ∈ st'.registered) ∧
    (∀ k, (Visit.enter k ∈ new ∨ Visit.exit k ∈ new) → E.gref k ∉ st.registered) ∧
    (∀ j, Visit.app j ∈ new → B j)

def Bnd (g : Graph) (x : E) (j : Nat) : Prop := ∃ t ∈ cand g x, ∃ i a, g.originOf t = some (i, a) ∧ j ≤ i

theorem VRes.refl {g : Graph} {B : Nat → Prop} {st : OState} (h : OInv g st) : VRes g B st st :=
  ⟨[], by simp, by simp, by simp, h, fun _ hk => hk, by simp, by simp⟩

theorem VRes.mono {g : Graph} {B B' : Nat → Prop} {st st' : OState} (h : VRes g B st st') (hb : ∀ j, B j → B' j) :
    VRes g B' st st' := by
  obtain ⟨new, h1, h2, h3, h4, h5, h6, h7⟩ := h
  exact ⟨new, h1, h2, h3, h4, h5, h6, fun j hj => hb j (h7 j hj)⟩

theorem VRes.trans {g : Graph} {B : Nat → Prop} {st s1 st' : OState} (h1 : VRes g B st s1) (h2 : VRes g B s1 st') :
    VRes g B st st' := by
  obtain ⟨n1, a1, a2, a3, a4, a5, a6, a7⟩ := h1
  obtain ⟨n2, b1, b2, b3, b4, b5, b6, b7⟩ := h2
  refine ⟨n1 ++ n2, by rw [b1, a1, List.append_assoc], ?_, ?_, b4, fun k hk => b5 k (a5 k hk), ?_, ?_⟩
  · rw [List.nodup_append]
    refine ⟨a2, b2, ?_⟩
    intro x hx y hy hxy
    subst hxy
    exact b3 x hy (by rw [a1]; exact List.mem_append_right _ hx)
  · intro v hv
    rcases List.mem_append.1 hv with hv | hv
    · exact a3 v hv
    · intro hin
      exact b3 v hv (by rw [a1]; exact List.mem_append_left _ hin)
  · intro k hk hreg
    rcases hk with hk | hk
    · rcases List.mem_append.1 hk with hk | hk
      · exact a6 k (Or.inl hk) hreg
      · exact b6 k (Or.inl hk) (a5 _ hreg)
    · rcases List.mem_append.1 hk with hk | hk
      · exact a6 k (Or.inr hk) hreg
      · exact b6 k (Or.inr hk) (a5 _ hreg)
  · intro j hj
    rcases List.mem_append.1 hj with hj | hj
    · exact a7 j hj
    · exact b7 j hj

theorem visit_fold_res (g : Graph) (f : OState → E → Except String OState)
    (hf : ∀ st o st', f st o = .ok st' → OInv g st → VRes g (Bnd g o) st st') :
    ∀ (l : List E) (st st' : OState), l.foldlM f st = .ok st' → OInv g st →
      VRes g (fun j => ∃ o ∈ l, Bnd g o j) st st' := by
  intro l
  induction l with
  | nil =>
    intro st st' h hinv
    simp only [List.foldlM_nil, pure, Except.pure, Except.ok.injEq] at h
    subst h
    exact VRes.refl hinv
  | cons o rest ih =>
    intro st st' h hinv
    simp only [List.foldlM_cons, bind, Except.bind] at h
    cases h1 : f st o with
    | error err => simp [h1] at h
    | ok s1 =>
      simp only [h1] at h
      have r1 := hf st o s1 h1 hinv
      have hinv1 : OInv g s1 := by obtain ⟨_, _, _, _, h4, _⟩ := r1; exact h4
      have r2 := ih s1 st' h hinv1
      exact VRes.trans (r1.mono (fun j hj => ⟨o, by simp, hj⟩))
        (r2.mono (fun j ⟨o', ho', hj⟩ => ⟨o', List.mem_cons_of_mem _ ho', hj⟩))

theorem mem_toList_vars (a o : E) (ho : o ∈ a.toList) : (∀ t ∈ o.vars, t ∈ a.vars) ∧ (∀ k ∈ o.grefsOf, k ∈ a.grefsOf) := by
  induction a with
  | cons h t _ iht =>
    simp only [E.toList, List.mem_cons] at ho
    rcases ho with rfl | ho
    · exact ⟨fun t ht => by simp [E.vars, ht], fun k hk => by simp [E.grefsOf, hk]⟩
    · obtain ⟨h1, h2⟩ := iht ho
      exact ⟨fun t ht => by simp [E.vars, h1 t ht], fun k hk => by simp [E.grefsOf, h2 k hk]⟩
  | _ => simp [E.toList] at ho

theorem Bnd.of_elem (g : Graph) (tag : Tag) (a o : E) (ho : o ∈ a.toList) (j : Nat) (h : Bnd g o j) :
    Bnd g (.node tag a) j := by
  obtain ⟨t, ht, i, b, hi, hj⟩ := h
  obtain ⟨h1, h2⟩ := mem_toList_vars a o ho
  refine ⟨t, ?_, i, b, hi, hj⟩
  simp only [cand, List.mem_append, List.mem_flatMap] at ht ⊢
  rcases ht with ht | ⟨k, hk, ht⟩
  · exact Or.inl (by simpa [E.vars] using h1 t ht)
  · exact Or.inr ⟨k, by simpa [E.grefsOf] using h2 k hk, ht⟩

theorem visit_res (g : Graph) (hwf : g.WF = true) : ∀ (fuel : Nat) (x : E) (st st' : OState),
    visit g fuel x st = .ok st' → OInv g st → VRes g (Bnd g x) st st' := by
  intro fuel
  induction fuel with
  | zero => intro x st st' h; simp [visit] at h
  | succ fuel ih =>
    intro x st st' h hinv
    have hfold := visit_fold_res g (fun st o => visit g fuel o st) (fun st o st' h hi => ih o st st' h hi)
    unfold visit at h
    split at h
    · simp only [Except.ok.injEq] at h; subst h; exact VRes.refl hinv
    · rename_i hreg
      split at h
      · -- tracer
        rename_i t
        split at h
        · simp at h
        · rename_i i a horig
          simp only [bind, Except.bind] at h
          cases h1 : List.foldlM (fun st o => visit g fuel o st) st a.genOperands with
          | error err => simp [h1] at h
          | ok s1 =>
            simp only [h1, pure, Except.pure, Except.ok.injEq] at h
            subst h
            obtain ⟨n1, a1, a2, a3, a4, a5, a6, a7⟩ := hfold _ _ _ h1 hinv
            have hnotreg : E.var t ∉ st.registered := by
              intro hin
              apply hreg
              simp [isRegistered, keyOf, hin]
            have happ := originOf_app g t i a horig
            have hi_st : Visit.app i ∉ st.order := fun hin => hnotreg (hinv.apps i a t hin horig)
            have hi_n1 : Visit.app i ∉ n1 := by
              intro hin
              obtain ⟨o, ho, t', ht', i', b, hb, hle⟩ := a7 i hin
              have := WF.topo hwf i a happ o ho t' ht' i' b hb
              omega
            refine ⟨n1 ++ [.app i], by simp [a1], ?_, ?_, ⟨?_, ?_⟩, ?_, ?_, ?_⟩
            · rw [List.nodup_append]
              refine ⟨a2, by simp, ?_⟩
              intro x hx y hy hxy
              simp only [List.mem_singleton] at hy
              subst hxy hy
              exact hi_n1 hx
            · intro v hv
              rcases List.mem_append.1 hv with hv | hv
              · exact a3 v hv
              · simp only [List.mem_singleton] at hv
                subst hv
                exact hi_st
            · intro i' a' t' hin ho'
              simp only [List.mem_append, List.mem_singleton] at hin ⊢
              rcases hin with hin | hin
              · exact Or.inl (a4.apps i' a' t' hin ho')
              · cases hin
                have := originOf_app g t' i a' ho'
                rw [happ] at this
                cases this
                exact Or.inr (WF.origin hwf t' i a ho')
            · intro k hk
              simp only [List.mem_append, List.mem_singleton, reduceCtorEq, or_false] at hk ⊢
              exact Or.inl (a4.grefs k hk)
            · intro k hk
              exact List.mem_append_left _ (a5 k hk)
            · intro k hk
              simp only [List.mem_append, List.mem_singleton, reduceCtorEq, or_false] at hk
              exact a6 k hk
            · intro j hj
              simp only [List.mem_append, List.mem_singleton, Visit.app.injEq] at hj
              rcases hj with hj | rfl
              · obtain ⟨o, ho, t', ht', i', b, hb, hle⟩ := a7 j hj
                have := WF.topo hwf i a happ o ho t' ht' i' b hb
                exact ⟨t, by simp [cand, E.vars], i, a, horig, by omega⟩
              · exact ⟨t, by simp [cand, E.vars], j, a, horig, Nat.le_refl _⟩
      · simp only [Except.ok.injEq] at h; subst h; exact VRes.refl hinv
      · rename_i a
        exact (hfold _ _ _ h hinv).mono (fun j ⟨o, ho, hj⟩ => Bnd.of_elem g _ a o ho j hj)
      · rename_i a
        exact (hfold _ _ _ h hinv).mono (fun j ⟨o, ho, hj⟩ => Bnd.of_elem g _ a o ho j hj)
      · rename_i a
        exact (hfold _ _ _ h hinv).mono (fun j ⟨o, ho, hj⟩ => Bnd.of_elem g _ a o ho j hj)
      · -- nested graph
        rename_i k
        split at h
        · simp at h
        · rename_i sg hsg
          simp only [bind, Except.bind] at h
          cases h1 : visit g fuel sg.output
              { registered := st.registered ++ [E.gref k] ++ List.map E.var sg.inputs, order := st.order ++ [Visit.enter k] } with
          | error err => rw [h1] at h; simp at h
          | ok s1 =>
            rw [h1] at h
            simp only [pure, Except.pure, Except.ok.injEq] at h
            subst h
            have hnotreg : E.gref k ∉ st.registered := by
              intro hin
              apply hreg
              simp [isRegistered, keyOf, hin]
            have hinv0 : OInv g { registered := st.registered ++ [E.gref k] ++ List.map E.var sg.inputs,
                                  order := st.order ++ [Visit.enter k] } := by
              refine ⟨?_, ?_⟩
              · intro i a t hin ho
                simp only [List.mem_append, List.mem_singleton, reduceCtorEq, or_false] at hin
                simp only [List.mem_append]
                exact Or.inl (Or.inl (hinv.apps i a t hin ho))
              · intro k' hk'
                simp only [List.mem_append, List.mem_singleton, Visit.enter.injEq, reduceCtorEq, or_false] at hk'
                simp only [List.mem_append, List.mem_singleton]
                rcases hk' with (hk' | rfl) | hk'
                · exact Or.inl (Or.inl (hinv.grefs k' (Or.inl hk')))
                · exact Or.inl (Or.inr rfl)
                · exact Or.inl (Or.inl (hinv.grefs k' (Or.inr hk')))
            obtain ⟨n1, a1, a2, a3, a4, a5, a6, a7⟩ := ih _ _ _ h1 hinv0
            simp only at a1 a3 a5 a6
            have henter_n1 : Visit.enter k ∉ n1 := fun hin => a3 _ hin (by simp)
            have hexit_n1 : Visit.exit k ∉ n1 := fun hin => a6 k (Or.inr hin) (by simp)
            refine ⟨.enter k :: (n1 ++ [.exit k]), by simp [a1], ?_, ?_, ⟨?_, ?_⟩, ?_, ?_, ?_⟩
            · rw [List.nodup_cons]
              refine ⟨by simp [henter_n1], ?_⟩
              rw [List.nodup_append]
              refine ⟨a2, by simp, ?_⟩
              intro x hx y hy hxy
              simp only [List.mem_singleton] at hy
              subst hxy hy
              exact hexit_n1 hx
            · intro v hv
              simp only [List.mem_cons, List.mem_append, List.not_mem_nil, or_false] at hv
              rcases hv with rfl | hv | rfl
              · exact fun hin => hnotreg (hinv.grefs k (Or.inl hin))
              · exact fun hin => a3 v hv (List.mem_append_left _ hin)
              · exact fun hin => hnotreg (hinv.grefs k (Or.inr hin))
            · intro i a t hin ho
              simp only [List.mem_append, List.mem_singleton, reduceCtorEq, or_false] at hin
              exact a4.apps i a t hin ho
            · intro k' hk'
              simp only [List.mem_append, List.mem_singleton, reduceCtorEq, or_false, Visit.exit.injEq] at hk'
              rcases hk' with hk' | hk' | rfl
              · exact a4.grefs k' (Or.inl hk')
              · exact a4.grefs k' (Or.inr hk')
              · exact a5 _ (by simp)
            · intro k' hk'
              exact a5 _ (by simp [hk'])
            · intro k' hk' hreg'
              simp only [List.mem_cons, List.mem_append, List.not_mem_nil, Visit.enter.injEq, reduceCtorEq, or_false,
                false_or, Visit.exit.injEq] at hk'
              rcases hk' with (rfl | hk') | (hk' | rfl)
              · exact hnotreg hreg'
              · exact a6 k' (Or.inl hk') (by simp [hreg'])
              · exact a6 k' (Or.inr hk') (by simp [hreg'])
              · exact hnotreg hreg'
            · intro j hj
              simp only [List.mem_cons, reduceCtorEq, List.mem_append, List.not_mem_nil, or_false, false_or] at hj
              obtain ⟨t, ht, i, b, hb, hle⟩ := a7 j hj
              refine ⟨t, ?_, i, b, hb, hle⟩
              simp only [cand, WF.outputs hwf k sg hsg, List.flatMap_nil, List.append_nil] at ht
              simp [cand, E.grefsOf, E.vars, hsg, ht]
      · simp at h

theorem visitOrder_nodup_of_wf (g : Graph) (hwf : g.WF = true) (order : List Visit) (h : visitOrder g = .ok order) :
    order.Nodup := by
  simp only [visitOrder, bind, Except.bind] at h
  cases h1 : visit g g.fuel g.top {} with
  | error err => simp [h1] at h
  | ok s1 =>
    simp only [h1, pure, Except.pure, Except.ok.injEq] at h
    subst h
    obtain ⟨new, e1, hnd, _⟩ := visit_res g hwf _ _ _ _ h1 ⟨by simp, by simp⟩
    rw [e1]
    simpa using hnd

/-! ### No nested graph is mentioned while it is open -/

/-- A piece of traversal that is transparent for `noSelfRef`/`pendAfter` when its applications avoid the open graphs. -/
def SR (g : Graph) (new : List Visit) : Prop :=
  ∀ (pend : List Nat) (rest : List Visit),
    (∀ j a, Visit.app j ∈ new → g.apps[j]? = some a → ∀ k ∈ a.operandEs.flatMap E.grefsOf, k ∉ pend) →
    noSelfRef g (new ++ rest) pend = noSelfRef g rest pend ∧ pendAfter (new ++ rest) pend = pendAfter rest pend

theorem SR.nil (g : Graph) : SR g [] := fun _ _ _ => ⟨rfl, rfl⟩

theorem SR.append {g : Graph} {n1 n2 : List Visit} (h1 : SR g n1) (h2 : SR g n2) : SR g (n1 ++ n2) := by
  intro pend rest hyp
  rw [List.append_assoc]
  obtain ⟨a1, a2⟩ := h1 pend (n2 ++ rest) (fun j a hj => hyp j a (List.mem_append_left _ hj))
  obtain ⟨b1, b2⟩ := h2 pend rest (fun j a hj => hyp j a (List.mem_append_right _ hj))
  exact ⟨a1.trans b1, a2.trans b2⟩

theorem SR.app (g : Graph) (i : Nat) : SR g [.app i] := by
  intro pend rest hyp
  refine ⟨?_, rfl⟩
  simp only [List.cons_append, List.nil_append, noSelfRef]
  cases ha : g.apps[i]? with
  | none => simp only [Bool.true_and]
  | some a =>
    have : (a.operandEs.flatMap E.grefsOf).all (fun k => !pend.contains k) = true := by
      simp only [List.all_eq_true]
      intro k hk
      simpa using hyp i a (by simp) ha k hk
    simp only [this, Bool.true_and]

def VSR (g : Graph) (st st' : OState) : Prop := OInv g st' ∧ ∃ new, st'.order = st.order ++ new ∧ SR g new

theorem visit_fold_sr (g : Graph) (f : OState → E → Except String OState)
    (hf : ∀ st o st', f st o = .ok st' → OInv g st → VSR g st st') :
    ∀ (l : List E) (st st' : OState), l.foldlM f st = .ok st' → OInv g st → VSR g st st' := by
  intro l
  induction l with
  | nil =>
    intro st st' h hinv
    simp only [List.foldlM_nil, pure, Except.pure, Except.ok.injEq] at h
    subst h
    exact ⟨hinv, [], by simp, SR.nil g⟩
  | cons o rest ih =>
    intro st st' h hinv
    simp only [List.foldlM_cons, bind, Except.bind] at h
    cases h1 : f st o with
    | error err => simp [h1] at h
    | ok s1 =>
      simp only [h1] at h
      obtain ⟨hinv1, n1, e1, r1⟩ := hf st o s1 h1 hinv
      obtain ⟨hinv2, n2, e2, r2⟩ := ih s1 st' h hinv1
      exact ⟨hinv2, n1 ++ n2, by rw [e2, e1, List.append_assoc], r1.append r2⟩

theorem OInv.enter {g : Graph} {st : OState} (hinv : OInv g st) (k : Nat) (inputs : List Nat) :
    OInv g { registered := st.registered ++ [E.gref k] ++ List.map E.var inputs, order := st.order ++ [Visit.enter k] } := by
  refine ⟨?_, ?_⟩
  · intro i a t hin ho
    simp only [List.mem_append, List.mem_singleton, reduceCtorEq, or_false] at hin
    simp only [List.mem_append]
    exact Or.inl (Or.inl (hinv.apps i a t hin ho))
  · intro k' hk'
    simp only [List.mem_append, List.mem_singleton, Visit.enter.injEq, reduceCtorEq, or_false] at hk'
    simp only [List.mem_append, List.mem_singleton]
    rcases hk' with (hk' | rfl) | hk'
    · exact Or.inl (Or.inl (hinv.grefs k' (Or.inl hk')))
    · exact Or.inl (Or.inr rfl)
    · exact Or.inl (Or.inl (hinv.grefs k' (Or.inr hk')))

theorem visit_sr (g : Graph) (hwf : g.WF = true) : ∀ (fuel : Nat) (x : E) (st st' : OState),
    visit g fuel x st = .ok st' → OInv g st → VSR g st st' := by
  intro fuel
  induction fuel with
  | zero => intro x st st' h; simp [visit] at h
  | succ fuel ih =>
    intro x st st' h hinv
    have hinv' : OInv g st' := by
      obtain ⟨_, _, _, _, h4, _⟩ := visit_res g hwf (fuel + 1) x st st' h hinv
      exact h4
    have hfold := visit_fold_sr g (fun st o => visit g fuel o st) (fun st o st' h hi => ih o st st' h hi)
    unfold visit at h
    split at h
    · simp only [Except.ok.injEq] at h; subst h; exact ⟨hinv, [], by simp, SR.nil g⟩
    · rename_i hreg
      split at h
      · split at h
        · simp at h
        · rename_i i a horig
          simp only [bind, Except.bind] at h
          cases h1 : List.foldlM (fun st o => visit g fuel o st) st a.genOperands with
          | error err => simp [h1] at h
          | ok s1 =>
            simp only [h1, pure, Except.pure, Except.ok.injEq] at h
            subst h
            obtain ⟨_, n1, e1, r1⟩ := hfold _ _ _ h1 hinv
            exact ⟨hinv', n1 ++ [.app i], by simp [e1], r1.append (SR.app g i)⟩
      · simp only [Except.ok.injEq] at h; subst h; exact ⟨hinv, [], by simp, SR.nil g⟩
      · exact hfold _ _ _ h hinv
      · exact hfold _ _ _ h hinv
      · exact hfold _ _ _ h hinv
      · rename_i k
        split at h
        · simp at h
        · rename_i sg hsg
          simp only [bind, Except.bind] at h
          cases h1 : visit g fuel sg.output
              { registered := st.registered ++ [E.gref k] ++ List.map E.var sg.inputs, order := st.order ++ [Visit.enter k] } with
          | error err => rw [h1] at h; simp at h
          | ok s1 =>
            rw [h1] at h
            simp only [pure, Except.pure, Except.ok.injEq] at h
            subst h
            have hinv0 := hinv.enter k sg.inputs
            obtain ⟨_, n1, e1, r1⟩ := ih _ _ _ h1 hinv0
            obtain ⟨n1', e1', _, _, _, _, _, hb⟩ := visit_res g hwf fuel _ _ _ h1 hinv0
            have hn : n1' = n1 := List.append_cancel_left (e1'.symm.trans e1)
            subst hn
            simp only at e1
            refine ⟨hinv', .enter k :: (n1' ++ [.exit k]), by simp [e1], ?_⟩
            intro pend rest hyp
            have hyp1 : ∀ j a, Visit.app j ∈ n1' → g.apps[j]? = some a →
                ∀ k' ∈ a.operandEs.flatMap E.grefsOf, k' ∉ (k :: pend) := by
              intro j a hj ha k' hk' hmem
              rcases List.mem_cons.1 hmem with rfl | hmem
              · obtain ⟨t, ht, i', b, hb', hle⟩ := hb j hj
                simp only [cand, WF.outputs hwf k' sg hsg, List.flatMap_nil, List.append_nil] at ht
                have := WF.topoGraph hwf j a ha k' hk' sg hsg t ht i' b hb'
                omega
              · exact hyp j a (by simp [hj]) ha k' hk' hmem
            obtain ⟨a1, a2⟩ := r1 (k :: pend) (.exit k :: rest) hyp1
            have hout : sg.output.grefsOf.all (fun k' => !(k :: pend).contains k') = true := by
              rw [WF.outputs hwf k sg hsg]; rfl
            constructor
            · show noSelfRef g (n1' ++ [Visit.exit k] ++ rest) (k :: pend) = _
              rw [List.append_assoc, List.singleton_append, a1]
              simp only [noSelfRef, hsg, hout, Bool.true_and, List.erase_cons_head]
            · show pendAfter (n1' ++ [Visit.exit k] ++ rest) (k :: pend) = _
              rw [List.append_assoc, List.singleton_append, a2]
              simp only [pendAfter, List.erase_cons_head]
      · simp at h

theorem visitOrder_noSelfRef_of_wf (g : Graph) (hwf : g.WF = true) (order : List Visit) (h : visitOrder g = .ok order) :
    noSelfRef g order [] = true ∧ pendAfter order [] = [] := by
  simp only [visitOrder, bind, Except.bind] at h
  cases h1 : visit g g.fuel g.top {} with
  | error err => simp [h1] at h
  | ok s1 =>
    simp only [h1, pure, Except.pure, Except.ok.injEq] at h
    subst h
    obtain ⟨_, new, e1, r1⟩ := visit_sr g hwf _ _ _ _ h1 ⟨by simp, by simp⟩
    have : s1.order = new := by simpa using e1
    rw [this]
    have := r1 [] [] (by intro j a _ _ k _ hk; simp at hk)
    simpa [noSelfRef, pendAfter] using this

end Einx.Compile
