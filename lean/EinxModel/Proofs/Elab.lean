import EinxModel.Elab.ParseOp
/-!
# Helper lemmas for C07: `stage1.map` never creates a concatenation; structure of `parseOpTree`
-/
namespace Einx.Elab
open Einx.Notation

theorem hasConcatL_append (xs ys : List Expr) : hasConcatL (xs ++ ys) = (hasConcatL xs || hasConcatL ys) := by
  induction xs with
  | nil => simp [hasConcatL]
  | cons x xs ih => simp [hasConcatL, ih, Bool.or_assoc]

theorem hasConcatL_eq_any (xs : List Expr) : hasConcatL xs = xs.any hasConcat := by
  induction xs with
  | nil => simp [hasConcatL]
  | cons x xs ih => simp [hasConcatL, ih]

mutual
theorem hasConcatL_flattenOne : ∀ (x : Expr), hasConcatL (flattenOne x) = hasConcat x
  | .list cs _ _ => by simp only [flattenOne, hasConcat]; exact hasConcatL_flattenAll cs
  | .axis .. => by simp [flattenOne, hasConcatL]
  | .flat .. => by simp [flattenOne, hasConcatL]
  | .brackets .. => by simp [flattenOne, hasConcatL]
  | .ellipsis .. => by simp [flattenOne, hasConcatL]
  | .concat .. => by simp [flattenOne, hasConcatL]
  | .args .. => by simp [flattenOne, hasConcatL]
  | .op .. => by simp [flattenOne, hasConcatL]
theorem hasConcatL_flattenAll : ∀ (cs : List Expr), hasConcatL (flattenAll cs) = hasConcatL cs
  | [] => by simp [flattenAll]
  | x :: xs => by
    simp only [flattenAll, hasConcatL_append, hasConcatL]
    rw [hasConcatL_flattenOne x, hasConcatL_flattenAll xs]
end

theorem hasConcat_mkList (cs : List Expr) (b e : Int) : hasConcat (mkList cs b e) = hasConcatL cs := by
  have h := hasConcatL_flattenAll cs
  unfold mkList
  split
  · rename_i c hc
    rw [hc] at h
    simpa [hasConcatL] using h
  · simpa [hasConcat] using h

theorem hasConcat_mkFlat (y : Expr) (b e : Int) : hasConcat (mkFlat y b e) = hasConcat y := by
  unfold mkFlat; split <;> simp [hasConcat]

theorem hasConcat_emptyList : hasConcat emptyList = false := by simp [emptyList, hasConcat, hasConcatL]

theorem hasConcat_mkBrackets {y : Expr} (b e : Int) (h : hasConcat y = false) : hasConcat (mkBrackets y b e) = false := by
  unfold mkBrackets
  split
  · exact h
  · split
    · exact hasConcat_emptyList
    · simpa [hasConcat] using h

theorem hasConcat_mkEllipsis {y : Expr} (b e : Int) (id : Nat) (h : hasConcat y = false) : hasConcat (mkEllipsis y b e id) = false := by
  unfold mkEllipsis
  split
  · exact hasConcat_emptyList
  · simpa [hasConcat] using h

/- `stage1.map` keeps an expression free of concatenations, if the replacements are. -/
mutual
theorem mapExpr_noConcat (f : Expr → Option Expr) (hf : ∀ x y, f x = some y → hasConcat y = false) :
    ∀ (x : Expr), hasConcat x = false → hasConcat (mapExpr f x) = false
  | .axis n v b e, _ => by
    simp only [mapExpr]
    cases hfx : f (.axis n v b e) with
    | none => simp [hasConcat]
    | some y => simpa using hf _ _ hfx
  | .flat i b e, h => by
    simp only [mapExpr]
    cases hfx : f (.flat i b e) with
    | none =>
      simp only [Option.getD_none, hasConcat_mkFlat]
      exact mapExpr_noConcat f hf i (by simpa [hasConcat] using h)
    | some y => simpa using hf _ _ hfx
  | .brackets i b e, h => by
    simp only [mapExpr]
    cases hfx : f (.brackets i b e) with
    | none =>
      simp only [Option.getD_none]
      exact hasConcat_mkBrackets b e (mapExpr_noConcat f hf i (by simpa [hasConcat] using h))
    | some y => simpa using hf _ _ hfx
  | .ellipsis i id b e, h => by
    simp only [mapExpr]
    cases hfx : f (.ellipsis i id b e) with
    | none =>
      simp only [Option.getD_none]
      exact hasConcat_mkEllipsis b e id (mapExpr_noConcat f hf i (by simpa [hasConcat] using h))
    | some y => simpa using hf _ _ hfx
  | .concat cs b e, h => by simp [hasConcat] at h
  | .list cs b e, h => by
    simp only [mapExpr]
    cases hfx : f (.list cs b e) with
    | none =>
      simp only [Option.getD_none, hasConcat_mkList]
      exact mapExprL_noConcat f hf cs (by simpa [hasConcat] using h)
    | some y => simpa using hf _ _ hfx
  | .args cs b e, h => by
    simp only [mapExpr]
    cases hfx : f (.args cs b e) with
    | none =>
      simp only [Option.getD_none, hasConcat]
      exact mapExprL_noConcat f hf cs (by simpa [hasConcat] using h)
    | some y => simpa using hf _ _ hfx
  | .op cs b e, h => by
    simp only [mapExpr]
    cases hfx : f (.op cs b e) with
    | none =>
      simp only [Option.getD_none, hasConcat]
      exact mapExprL_noConcat f hf cs (by simpa [hasConcat] using h)
    | some y => simpa using hf _ _ hfx
theorem mapExprL_noConcat (f : Expr → Option Expr) (hf : ∀ x y, f x = some y → hasConcat y = false) :
    ∀ (cs : List Expr), hasConcatL cs = false → hasConcatL (mapExprL f cs) = false
  | [], _ => by simp [mapExprL, hasConcatL]
  | c :: cs, h => by
    simp only [hasConcatL, Bool.or_eq_false_iff] at h
    simp only [mapExprL, hasConcatL, Bool.or_eq_false_iff]
    exact ⟨mapExpr_noConcat f hf c h.1, mapExprL_noConcat f hf cs h.2⟩
end

theorem removeBr_noConcat {x : Expr} (h : hasConcat x = false) : hasConcat (removeBr x) = false := by
  apply mapExpr_noConcat _ _ x h
  intro x y hxy
  cases x <;> simp [removeBrF] at hxy
  subst hxy; exact hasConcat_emptyList

theorem keepdimsBr_noConcat {x : Expr} (h : hasConcat x = false) : hasConcat (keepdimsBr x) = false := by
  apply mapExpr_noConcat _ _ x h
  intro x y hxy
  cases x <;> simp [keepdimsBrF] at hxy
  subst hxy; simp [unitFlat, hasConcat, hasConcat_emptyList]

theorem markAxes_noConcat (names : List Str) {x : Expr} (h : hasConcat x = false) : hasConcat (markAxes names x) = false := by
  apply mapExpr_noConcat _ _ x h
  intro x y hxy
  cases x <;> simp [markF] at hxy
  obtain ⟨_, rfl⟩ := hxy
  simp [hasConcat]

/- Without a concatenation the assertion of `_to_el_expr` cannot fail. -/
mutual
theorem noConcat_noTouch (inBr : Bool) : ∀ (x : Expr), hasConcat x = false → concatTouchesBrackets inBr x = false
  | .axis .., _ => by simp [concatTouchesBrackets]
  | .flat i _ _, h => by simp only [concatTouchesBrackets]; exact noConcat_noTouch inBr i (by simpa [hasConcat] using h)
  | .ellipsis i _ _ _, h => by simp only [concatTouchesBrackets]; exact noConcat_noTouch inBr i (by simpa [hasConcat] using h)
  | .brackets i _ _, h => by simp only [concatTouchesBrackets]; exact noConcat_noTouch true i (by simpa [hasConcat] using h)
  | .concat .., h => by simp [hasConcat] at h
  | .list cs _ _, h => by simp only [concatTouchesBrackets]; exact noConcat_noTouchL inBr cs (by simpa [hasConcat] using h)
  | .args cs _ _, h => by simp only [concatTouchesBrackets]; exact noConcat_noTouchL inBr cs (by simpa [hasConcat] using h)
  | .op cs _ _, h => by simp only [concatTouchesBrackets]; exact noConcat_noTouchL inBr cs (by simpa [hasConcat] using h)
theorem noConcat_noTouchL (inBr : Bool) : ∀ (cs : List Expr), hasConcatL cs = false → concatTouchesBracketsL inBr cs = false
  | [], _ => by simp [concatTouchesBracketsL]
  | c :: cs, h => by
    simp only [hasConcatL, Bool.or_eq_false_iff] at h
    simp only [concatTouchesBracketsL, Bool.or_eq_false_iff]
    exact ⟨noConcat_noTouch inBr c h.1, noConcat_noTouchL inBr cs h.2⟩
end

/-- An expression that is `==` to `List([])` is scalar. -/
theorem pyEq_emptyList_scalar {y : Expr} (h : pyEq y emptyList = true) : isScalar y = true := by
  cases y <;> simp [emptyList, pyEq] at h
  rename_i cs b e
  cases cs with
  | nil => simp [isScalar, Expr.ndim, ndimSum]
  | cons c cs => simp [pyEqL] at h

/-- An input checked against itself passes the bracket check (families whose signature is built from the inputs). -/
theorem bracketCheck_self (output : Bool) : ∀ (i : Nat) (xs : List Expr), bracketCheck output i xs xs = none
  | _, [] => by simp [bracketCheck]
  | i, x :: xs => by
    simp only [bracketCheck]
    cases isScalar x <;> simp [bracketCheck_self output (i + 1) xs]

/-- …also when the signature only has the first input. -/
theorem bracketCheck_head (output : Bool) (i : Nat) (x : Expr) (xs : List Expr) : bracketCheck output i [x] (x :: xs) = none := by
  simp only [bracketCheck]
  cases isScalar x <;> simp [bracketCheck]

/-- Master lemma: a description without output elaborates like the description with the implicitly determined output
    written out, provided the elementary signature does not depend on the written output. -/
theorem implicit_eq_explicit (fam : Family) (fl : Flags) (kd : Bool) (ins outs : List Expr)
    (hel : elOpTree fam (ins.map toEl) (some (outs.map toEl)) = elOpTree fam (ins.map toEl) none)
    (himp : implicitOut fl kd (elOpTree fam (ins.map toEl) none) ins = .ok outs)
    (hcount : (elOpTree fam (ins.map toEl) none).outs.length = outs.length)
    (hc : outs.any hasConcat = true → ins.any hasConcat = true)
    (ht : outs.any (concatTouchesBrackets false) = true →
      ins.any (concatTouchesBrackets false) = true ∨ (fl.allowConcat = false ∧ ins.any hasConcat = true)) :
    parseOpTree .tree fam fl kd ins none = parseOpTree .tree fam fl kd ins (some outs) := by
  unfold parseOpTree
  simp only [Option.getD_none, Option.getD_some, List.append_nil, List.any_append, elOp, Option.map_none, Option.map_some, hel, himp]
  have hc' : (ins.any hasConcat || outs.any hasConcat) = ins.any hasConcat := by
    cases h1 : ins.any hasConcat <;> cases h2 : outs.any hasConcat <;> simp_all
  rw [hc']
  by_cases h0 : (!fl.allowConcat && ins.any hasConcat) = true
  · simp [h0]
  · have ht' : (ins.any (concatTouchesBrackets false) || outs.any (concatTouchesBrackets false)) = ins.any (concatTouchesBrackets false) := by
      cases h1 : ins.any (concatTouchesBrackets false) <;> cases h2 : outs.any (concatTouchesBrackets false) <;> simp_all
    rw [ht']
    simp [hcount]

theorem dedupPyAux_mem (y : Expr) : ∀ (xs acc : List Expr), y ∈ dedupPyAux acc xs → y ∈ acc ∨ y ∈ xs
  | [], acc, h => by simp [dedupPyAux] at h; exact Or.inl h
  | x :: xs, acc, h => by
    simp only [dedupPyAux] at h
    split at h
    · rcases dedupPyAux_mem y xs acc h with h | h
      · exact Or.inl h
      · exact Or.inr (List.mem_cons_of_mem _ h)
    · rcases dedupPyAux_mem y xs (x :: acc) h with h | h
      · rcases List.mem_cons.mp h with h | h
        · subst h; exact Or.inr (by simp)
        · exact Or.inl h
      · exact Or.inr (List.mem_cons_of_mem _ h)

theorem validParents_mem {ins : List Expr} {p : Expr} (h : p ∈ validParents ins) : p ∈ ins := by
  unfold validParents dedupPy at h
  rcases dedupPyAux_mem p _ _ h with h | h
  · simp at h
  · simp only [List.mem_map, List.mem_filter] at h
    obtain ⟨q, ⟨hq, _⟩, rfl⟩ := h
    exact (List.mem_zipIdx' hq).2 ▸ List.getElem_mem _


theorem any_map_markAxes_noConcat (names : List Str) (ins : List Expr) (h : ins.any hasConcat = false) :
    (ins.map (markAxes names)).any hasConcat = false := by
  induction ins with
  | nil => simp
  | cons x xs ih =>
    simp only [List.any_cons, Bool.or_eq_false_iff] at h
    simp only [List.map_cons, List.any_cons, Bool.or_eq_false_iff]
    exact ⟨markAxes_noConcat names h.1, ih h.2⟩

theorem any_touch_of_noConcat (xs : List Expr) (h : xs.any hasConcat = false) : xs.any (concatTouchesBrackets false) = false := by
  induction xs with
  | nil => simp
  | cons x xs ih =>
    simp only [List.any_cons, Bool.or_eq_false_iff] at h
    simp only [List.any_cons, Bool.or_eq_false_iff]
    exact ⟨noConcat_noTouch false x h.1, ih h.2⟩

theorem find_dup_none (ins : List Expr) (hnd : ∀ x ∈ ins, hasDup (axisNames x) = false) :
    ins.find? (fun x => hasDup (axisNames x)) = none := by
  apply List.find?_eq_none.mpr
  intro x hx; simp [hnd x hx]

/-- `finish` on un-bracketed inputs (automatic marking on) equals `finish` on the marked inputs, when the input checks pass on both sides. -/
theorem finish_auto (fl : Flags) (el el' : ElOp) (ins : List Expr) (out : Expr)
    (hmark : fl.markReduced = true) (hnb : ins.any hasBrackets = false) (hnd : ∀ x ∈ ins, hasDup (axisNames x) = false)
    (hsome : (ins.map (markAxes (axisNames out))).any hasBrackets = true)
    (houts : el.outs = el'.outs)
    (h1 : bracketCheck false 0 el.ins (ins.map toEl) = none)
    (h2 : bracketCheck false 0 el'.ins ((ins.map (markAxes (axisNames out))).map toEl) = none) :
    finish fl el ins [out] = finish fl el' (ins.map (markAxes (axisNames out))) [out] := by
  unfold finish
  simp only [h1, h2, houts, hmark, hnb, hsome, Bool.not_false, Bool.and_true, Bool.not_true, Bool.and_false, if_true, Bool.false_eq_true, if_false,
    markInputs, find_dup_none ins hnd]

/- The tree of a description in which every bracket is wrapped in parentheses: `[x]` ↦ `([x])` (raw constructors: the parser
   builds exactly these nodes for `([x])` unless the bracket already stands alone inside parentheses). -/
mutual
def wrapBr : Expr → Expr
  | .axis n v b e => .axis n v b e
  | .flat i b e => .flat (wrapBr i) b e
  | .brackets i b e => .flat (.brackets i b e) (-1) (-1)
  | .ellipsis i id b e => .ellipsis (wrapBr i) id b e
  | .concat cs b e => .concat (wrapBrL cs) b e
  | .list cs b e => .list (wrapBrL cs) b e
  | .args cs b e => .args (wrapBrL cs) b e
  | .op cs b e => .op (wrapBrL cs) b e
def wrapBrL : List Expr → List Expr
  | [] => []
  | c :: cs => wrapBr c :: wrapBrL cs
end

theorem mkFlat_emptyList (b e : Int) : mkFlat emptyList b e = .flat emptyList b e := by simp [mkFlat, emptyList, Expr.isFlat]

mutual
theorem removeBr_wrapBr : ∀ (x : Expr), removeBr (wrapBr x) = keepdimsBr x
  | .axis .. => by simp [wrapBr, removeBr, keepdimsBr, mapExpr, removeBrF, keepdimsBrF]
  | .flat i b e => by
    have := removeBr_wrapBr i
    simp only [removeBr, keepdimsBr] at this
    simp [wrapBr, removeBr, keepdimsBr, mapExpr, removeBrF, keepdimsBrF, this]
  | .brackets i b e => by
    simp [wrapBr, removeBr, keepdimsBr, mapExpr, removeBrF, keepdimsBrF, unitFlat, mkFlat_emptyList]
  | .ellipsis i id b e => by
    have := removeBr_wrapBr i
    simp only [removeBr, keepdimsBr] at this
    simp [wrapBr, removeBr, keepdimsBr, mapExpr, removeBrF, keepdimsBrF, this]
  | .concat cs b e => by
    have := removeBrL_wrapBrL cs
    simp [wrapBr, removeBr, keepdimsBr, mapExpr, removeBrF, keepdimsBrF, this]
  | .list cs b e => by
    have := removeBrL_wrapBrL cs
    simp [wrapBr, removeBr, keepdimsBr, mapExpr, removeBrF, keepdimsBrF, this]
  | .args cs b e => by
    have := removeBrL_wrapBrL cs
    simp [wrapBr, removeBr, keepdimsBr, mapExpr, removeBrF, keepdimsBrF, this]
  | .op cs b e => by
    have := removeBrL_wrapBrL cs
    simp [wrapBr, removeBr, keepdimsBr, mapExpr, removeBrF, keepdimsBrF, this]
theorem removeBrL_wrapBrL : ∀ (cs : List Expr), mapExprL removeBrF (wrapBrL cs) = mapExprL keepdimsBrF cs
  | [] => by simp [wrapBrL, mapExprL]
  | c :: cs => by
    have h1 := removeBr_wrapBr c
    simp only [removeBr, keepdimsBr] at h1
    simp [wrapBrL, mapExprL, h1, removeBrL_wrapBrL cs]
end

theorem flattenAll_append (xs ys : List Expr) : flattenAll (xs ++ ys) = flattenAll xs ++ flattenAll ys := by
  induction xs with
  | nil => simp [flattenAll]
  | cons x xs ih => simp [flattenAll, ih]

theorem toElKeep_append (xs ys : List Expr) : toElKeep (xs ++ ys) = toElKeep xs ++ toElKeep ys := by
  induction xs with
  | nil => simp [toElKeep]
  | cons x xs ih =>
    simp only [List.cons_append, toElKeep]
    split <;> simp [ih]

theorem mapExprL_append (f : Expr → Option Expr) (xs ys : List Expr) : mapExprL f (xs ++ ys) = mapExprL f xs ++ mapExprL f ys := by
  induction xs with
  | nil => simp [mapExprL]
  | cons x xs ih => simp [mapExprL, ih]

theorem axisOccsL_append (inBr : Bool) (xs ys : List Expr) : axisOccsL inBr (xs ++ ys) = axisOccsL inBr xs ++ axisOccsL inBr ys := by
  induction xs with
  | nil => simp [axisOccsL]
  | cons x xs ih => simp [axisOccsL, ih]


end Einx.Elab
