import EinxModel.Proofs.OptDagMeasureA
/-!
**The measure decreases**: a pass of the traversal never increases the unfolded size of the graph output, and a pass that
reports `changed` strictly decreases it (`pass_decreases_dag`).  Invariant (`MInv`): every memo entry `old ↦ new` satisfies
"unfolded size of `new` over the new nodes ≤ unfolded size of `old` over the old store"; the step property carries the
strictness: the size of the result plus 1-if-`changed`-was-set-during-the-step is at most the size of the argument.
-/
namespace Einx.OptDag

/-- 1 iff `changed` went from `false` to `true`. -/
def chgB (b b' : Bool) : Nat := if !b && b' then 1 else 0

theorem chgB_tri (a b c : Bool) : chgB a c ≤ chgB a b + chgB b c := by
  cases a <;> cases b <;> cases c <;> simp [chgB]

theorem chgB_self (a : Bool) : chgB a a = 0 := by cases a <;> rfl

theorem chgB_le_one (a b : Bool) : chgB a b ≤ 1 := by cases a <;> cases b <;> simp [chgB]

structure MInv (tblO : List Nat) (st : St) : Prop where
  memo : ∀ o v, st.memoT.lookup o = some v → toksSize (sizes st.nodes) v ≤ tokSize tblO (.ref o)

theorem szN_ext {st st' : St} (hE : Ext st st') (v : List Tok) (hv : toksLt st.nodes.length v = true) :
    toksSize (sizes st'.nodes) v = toksSize (sizes st.nodes) v := by
  obtain ⟨e, he⟩ := hE
  obtain ⟨e', h1, _⟩ := sizes_append st.nodes e
  rw [he, h1]
  exact toksSize_ext _ _ v (by rw [sizes_length]; exact hv)

theorem opsN_ext {st st' : St} (hE : Ext st st') (vs : List (List Tok)) (hv : ∀ v ∈ vs, toksLt st.nodes.length v = true) :
    opsSize (sizes st'.nodes) vs = opsSize (sizes st.nodes) vs := by
  obtain ⟨e, he⟩ := hE
  obtain ⟨e', h1, _⟩ := sizes_append st.nodes e
  rw [he, h1]
  exact opsSize_ext _ _ vs (by rw [sizes_length]; exact hv)

theorem MInv.ext {tblO : List Nat} {st st' : St} (hM : MInv tblO st) (hI : SInv st) (hE : Ext st st') (hm : st'.memoT = st.memoT) :
    MInv tblO st' :=
  ⟨by intro o v hv; rw [hm] at hv; rw [szN_ext hE v (hI.memo o v hv)]; exact hM.memo o v hv⟩

theorem MInv.setMemo {tblO : List Nat} {st : St} (hM : MInv tblO st) (o : Nat) (w : List Tok)
    (hw : toksSize (sizes st.nodes) w ≤ tokSize tblO (.ref o)) (c : Bool) :
    MInv tblO { st with memoT := (o, w) :: st.memoT, changed := c } where
  memo := by
    intro o' v hv
    simp only [List.lookup_cons] at hv
    by_cases he : o' = o
    · subst he
      simp only [beq_self_eq_true, Option.some.injEq] at hv
      subst hv
      exact hw
    · have : (o' == o) = false := by simpa using he
      simp only [this] at hv
      exact hM.memo o' v hv

theorem size_pushed (st : St) (n : Node) : tokSize (sizes (st.pushNode n).nodes) (.ref st.nodes.length) = nodeSize (sizes st.nodes) n := by
  simp only [St.pushNode, sizes_snoc, tokSize]
  rw [← sizes_length st.nodes, List.getElem?_concat_length]
  rfl

def GM (tblO : List Nat) (g : Tok → St → R (List Tok × St)) : Prop :=
  ∀ (t : Tok) (st : St) (v : List Tok) (st' : St) (n : Nat), g t st = .ok (v, st') → toksLt n [t] = true → SInv st → MInv tblO st →
    MInv tblO st' ∧ toksSize (sizes st'.nodes) v + chgB st.changed st'.changed ≤ tokSize tblO t

def VM (tblO : List Nat) (h : List Tok → St → R (List Tok × St)) : Prop :=
  ∀ (toks : List Tok) (st : St) (v : List Tok) (st' : St) (n : Nat), h toks st = .ok (v, st') → toksLt n toks = true → SInv st → MInv tblO st →
    MInv tblO st' ∧ toksSize (sizes st'.nodes) v + chgB st.changed st'.changed ≤ toksSize tblO toks

theorem mapToks_m (tblO : List Nat) (g : Tok → St → R (List Tok × St)) (hg : GOK g) (hm : GM tblO g) : VM tblO (mapToks g) := by
  intro toks
  induction toks with
  | nil =>
    intro st v st' n h _ _ hM
    simp only [mapToks, pure, Except.pure, Except.ok.injEq, Prod.mk.injEq] at h
    obtain ⟨rfl, rfl⟩ := h
    exact ⟨hM, by simp [toksSize_nil, chgB_self]⟩
  | cons t ts ih =>
    intro st v st' n h hlt hI hM
    simp only [mapToks] at h
    obtain ⟨⟨v1, st1⟩, h1, h⟩ := bind_ok.1 h
    obtain ⟨⟨vs, st2⟩, h2, h⟩ := bind_ok.1 h
    simp only [pure, Except.pure, Except.ok.injEq, Prod.mk.injEq] at h
    obtain ⟨rfl, rfl⟩ := h
    rw [toksLt_cons, Bool.and_eq_true] at hlt
    obtain ⟨r1, l1⟩ := hg t st v1 st1 n h1 hlt.1 hI
    obtain ⟨M1, s1⟩ := hm t st v1 st1 n h1 hlt.1 hI hM
    obtain ⟨r2, _⟩ := mapToks_ok g hg ts st1 vs st2 n h2 hlt.2 r1.1
    obtain ⟨M2, s2⟩ := ih st1 vs st2 n h2 hlt.2 r1.1 M1
    refine ⟨M2, ?_⟩
    rw [toksSize_append, toksSize_cons, szN_ext r2.2.1 v1 l1]
    have := chgB_tri st.changed st1.changed st2.changed
    omega

theorem mapOperands_m (tblO : List Nat) (h : List Tok → St → R (List Tok × St)) (hh : VOK h) (hm : VM tblO h) :
    ∀ (vs : List (List Tok)) (st : St) (vs' : List (List Tok)) (st' : St) (n : Nat), mapOperands h vs st = .ok (vs', st') →
    (∀ v ∈ vs, toksLt n v = true) → SInv st → MInv tblO st →
    MInv tblO st' ∧ opsSize (sizes st'.nodes) vs' + chgB st.changed st'.changed ≤ opsSize tblO vs := by
  intro vs
  induction vs with
  | nil =>
    intro st vs' st' n hmo _ _ hM
    simp only [mapOperands, pure, Except.pure, Except.ok.injEq, Prod.mk.injEq] at hmo
    obtain ⟨rfl, rfl⟩ := hmo
    exact ⟨hM, by simp [opsSize, chgB_self]⟩
  | cons w ws ih =>
    intro st vs' st' n hmo hlt hI hM
    simp only [mapOperands] at hmo
    obtain ⟨⟨v1, st1⟩, h1, hmo⟩ := bind_ok.1 hmo
    obtain ⟨⟨vs1, st2⟩, h2, hmo⟩ := bind_ok.1 hmo
    simp only [pure, Except.pure, Except.ok.injEq, Prod.mk.injEq] at hmo
    obtain ⟨rfl, rfl⟩ := hmo
    obtain ⟨r1, l1⟩ := hh w st v1 st1 n h1 (hlt w (by simp)) hI
    obtain ⟨M1, s1⟩ := hm w st v1 st1 n h1 (hlt w (by simp)) hI hM
    obtain ⟨r2, _⟩ := mapOperands_ok h hh ws st1 vs1 st2 n h2 (fun v hv => hlt v (by simp [hv])) r1.1
    obtain ⟨M2, s2⟩ := ih st1 vs1 st2 n h2 (fun v hv => hlt v (by simp [hv])) r1.1 M1
    refine ⟨M2, ?_⟩
    rw [opsSize_cons, opsSize_cons, szN_ext r2.2.1 v1 l1]
    have := chgB_tri st.changed st1.changed st2.changed
    omega

theorem mapKwargs_m (tblO : List Nat) (h : List Tok → St → R (List Tok × St)) (hh : VOK h) (hm : VM tblO h) :
    ∀ (kws : List (String × List Tok)) (st : St) (kws' : List (String × List Tok)) (st' : St) (n : Nat), mapKwargs h kws st = .ok (kws', st') →
    (∀ v ∈ kws.map (·.2), toksLt n v = true) → SInv st → MInv tblO st →
    MInv tblO st' ∧ opsSize (sizes st'.nodes) (kws'.map (·.2)) + chgB st.changed st'.changed ≤ opsSize tblO (kws.map (·.2)) := by
  intro kws
  induction kws with
  | nil =>
    intro st kws' st' n hmo _ _ hM
    simp only [mapKwargs, pure, Except.pure, Except.ok.injEq, Prod.mk.injEq] at hmo
    obtain ⟨rfl, rfl⟩ := hmo
    exact ⟨hM, by simp [opsSize, chgB_self]⟩
  | cons kw ws ih =>
    obtain ⟨k, w⟩ := kw
    intro st kws' st' n hmo hlt hI hM
    simp only [mapKwargs] at hmo
    obtain ⟨⟨v1, st1⟩, h1, hmo⟩ := bind_ok.1 hmo
    obtain ⟨⟨vs1, st2⟩, h2, hmo⟩ := bind_ok.1 hmo
    simp only [pure, Except.pure, Except.ok.injEq, Prod.mk.injEq] at hmo
    obtain ⟨rfl, rfl⟩ := hmo
    have hlt' : ∀ v ∈ ws.map (·.2), toksLt n v = true := fun v hv => hlt v (by simp only [List.map_cons, List.mem_cons]; exact Or.inr hv)
    obtain ⟨r1, l1⟩ := hh w st v1 st1 n h1 (hlt w (by simp)) hI
    obtain ⟨M1, s1⟩ := hm w st v1 st1 n h1 (hlt w (by simp)) hI hM
    obtain ⟨r2, _⟩ := mapKwargs_ok h hh ws st1 vs1 st2 n h2 hlt' r1.1
    obtain ⟨M2, s2⟩ := ih st1 vs1 st2 n h2 hlt' r1.1 M1
    refine ⟨M2, ?_⟩
    simp only [List.map_cons]
    rw [opsSize_cons, opsSize_cons, szN_ext r2.2.1 v1 l1]
    have := chgB_tri st.changed st1.changed st2.changed
    omega

theorem nOut_one (a : App) (h : a.out = [.ref 0]) : a.nOut = 1 := by
  rw [App.nOut, h]; rfl

/-- `rebuild` of a single-output application: the rebuilt node is not bigger than the old one. -/
theorem rebuild_m (S : Store) (tblO : List Nat) (h : List Tok → St → R (List Tok × St)) (hh : VOK h) (hm : VM tblO h) (a : App) (base : Nat)
    (st st' : St) (n : Nat) (ha : a.operandsLt n = true) (hout : a.out = [.ref 0]) (hsz : a.size tblO ≤ tokSize tblO (.ref base))
    (hr : rebuild S h a base st = .ok st') (hI : SInv st) (hM : MInv tblO st) :
    MInv tblO st' ∧ ∃ nb, st'.memoT.lookup base = some [.ref nb] ∧
      tokSize (sizes st'.nodes) (.ref nb) + chgB st.changed st'.changed ≤ tokSize tblO (.ref base) := by
  have hop : ∀ v ∈ a.operands, toksLt n v = true := fun v hv => operand_lt ha v hv
  unfold rebuild at hr
  obtain ⟨⟨pre', st1⟩, h1, hr⟩ := bind_ok.1 hr
  obtain ⟨⟨args', st2⟩, h2, hr⟩ := bind_ok.1 hr
  obtain ⟨⟨kwargs', st3⟩, h3, hr⟩ := bind_ok.1 hr
  obtain ⟨⟨deps', st4⟩, h4, hr⟩ := bind_ok.1 hr
  obtain ⟨⟨tys, out⟩, h5, hr⟩ := bind_ok.1 hr
  have p1 : ∀ v ∈ a.pre, toksLt n v = true := fun v hv => hop v (by simp [App.operands, hv])
  have p2 : ∀ v ∈ a.args, toksLt n v = true := fun v hv => hop v (by simp [App.operands, hv])
  have p3 : ∀ v ∈ a.kwargs.map (·.2), toksLt n v = true :=
    fun v hv => hop v (by simp only [App.operands, List.mem_append]; exact Or.inl (Or.inr hv))
  have p4 : ∀ v ∈ a.deps, toksLt n v = true := fun v hv => hop v (by simp [App.operands, hv])
  obtain ⟨r1, l1⟩ := mapOperands_ok h hh _ _ _ _ n h1 p1 hI
  obtain ⟨M1, s1⟩ := mapOperands_m tblO h hh hm _ _ _ _ n h1 p1 hI hM
  obtain ⟨r2, l2⟩ := mapOperands_ok h hh _ _ _ _ n h2 p2 r1.1
  obtain ⟨M2, s2⟩ := mapOperands_m tblO h hh hm _ _ _ _ n h2 p2 r1.1 M1
  obtain ⟨r3, l3⟩ := mapKwargs_ok h hh _ _ _ _ n h3 p3 r2.1
  obtain ⟨M3, s3⟩ := mapKwargs_m tblO h hh hm _ _ _ _ n h3 p3 r2.1 M2
  obtain ⟨r4, l4⟩ := mapOperands_ok h hh _ _ _ _ n h4 p4 r3.1
  obtain ⟨M4, s4⟩ := mapOperands_m tblO h hh hm _ _ _ _ n h4 p4 r3.1 M3
  simp only at hr
  split at hr
  · cases hr
  · rename_i hchk
    simp only [Bool.or_eq_true, bne_iff_ne, ne_eq, not_or, Decidable.not_not] at hchk
    obtain ⟨⟨_, hlen⟩, _⟩ := hchk
    rw [nOut_one a hout] at hlen
    split at hr
    · cases hr
    · rename_i ty0 tys'
      simp only [List.length_cons, Nat.add_eq_right, List.length_eq_zero_iff] at hlen
      subst hlen
      simp only [pure, Except.pure, Except.ok.injEq, pushProjs, nOut_one a hout, List.range_one, List.map_cons, List.map_nil,
        Nat.add_zero, List.cons_append, List.nil_append] at hr
      subst hr
      -- the size of the rebuilt node
      have e1 : opsSize (sizes st4.nodes) pre' = opsSize (sizes st1.nodes) pre' := opsN_ext ((r2.2.1.trans r3.2.1).trans r4.2.1) _ l1
      have e2 : opsSize (sizes st4.nodes) args' = opsSize (sizes st2.nodes) args' := opsN_ext (r3.2.1.trans r4.2.1) _ l2
      have e3 : opsSize (sizes st4.nodes) (kwargs'.map (·.2)) = opsSize (sizes st3.nodes) (kwargs'.map (·.2)) := opsN_ext r4.2.1 _ l3
      have hnew : nodeSize (sizes st4.nodes) ⟨ty0, .app { head := a.head, pre := pre', args := args', kwargs := kwargs', deps := deps', out := out }⟩
          = 1 + (opsSize (sizes st1.nodes) pre' + opsSize (sizes st2.nodes) args' + opsSize (sizes st3.nodes) (kwargs'.map (·.2))
            + opsSize (sizes st4.nodes) deps') := by
        simp only [nodeSize, App.size, App.operands, opsSize_append, e1, e2, e3]
      have hold : a.size tblO = 1 + (opsSize tblO a.pre + opsSize tblO a.args + opsSize tblO (a.kwargs.map (·.2)) + opsSize tblO a.deps) := by
        simp only [App.size, App.operands, opsSize_append]
      have c1 := chgB_tri st.changed st1.changed st2.changed
      have c2 := chgB_tri st.changed st2.changed st3.changed
      have c3 := chgB_tri st.changed st3.changed st4.changed
      have hsp := size_pushed st4 ⟨ty0, .app { head := a.head, pre := pre', args := args', kwargs := kwargs', deps := deps', out := out }⟩
      have hfin : tokSize (sizes (st4.pushNode ⟨ty0, .app { head := a.head, pre := pre', args := args', kwargs := kwargs', deps := deps', out := out }⟩).nodes)
          (.ref st4.nodes.length) + chgB st.changed st4.changed ≤ tokSize tblO (.ref base) := by
        rw [hsp, hnew]; omega
      have M5 : MInv tblO (st4.pushNode ⟨ty0, .app { head := a.head, pre := pre', args := args', kwargs := kwargs', deps := deps', out := out }⟩) :=
        M4.ext r4.1 (Ext.push _ _) rfl
      refine ⟨?_, st4.nodes.length, by simp [List.lookup_cons], by simpa [St.pushNode] using hfin⟩
      have := M5.setMemo base [.ref st4.nodes.length] (by rw [toksSize_single]; omega) st4.changed
      simpa [St.pushNode] using this

theorem single_app (S : Store) (hS : S.single = true) (i : Nat) (ty : Ty) (a : App) (hn : S.nodes[i]? = some ⟨ty, .app a⟩) : a.out = [.ref 0] := by
  simp only [Store.single, List.all_eq_true] at hS
  have := hS _ (List.mem_of_getElem? hn)
  simpa using this

theorem single_proj (S : Store) (hS : S.single = true) (i : Nat) (ty : Ty) (s k : Nat) (hn : S.nodes[i]? = some ⟨ty, .proj s k⟩) : False := by
  simp only [Store.single, List.all_eq_true] at hS
  have := hS _ (List.mem_of_getElem? hn)
  simp at this

/-- **The traversal never increases the unfolded size**, and decreases it strictly when it sets `changed`. -/
theorem optTok_m (pats : List Pattern) (S : Store) (hT : S.topo = true) (hS : S.single = true) : ∀ fuel, GM (sizes S.nodes) (optTok pats S fuel)
  | 0 => by
    intro t st v st' n h
    simp [optTok, throw, throwThe, MonadExceptOf.throw] at h
  | fuel + 1 => by
    have ihG := optTok_ok pats S hT fuel
    have ihV := mapToks_ok _ ihG
    have ihM := mapToks_m (sizes S.nodes) _ ihG (optTok_m pats S hT hS fuel)
    intro t st v st' n h hlt hI hM
    cases t with
    | gref k => simp [toksLt] at hlt
    | atom a =>
      simp only [optTok] at h
      split at h
      · cases h
      · simp only [pure, Except.pure, Except.ok.injEq, Prod.mk.injEq] at h
        obtain ⟨rfl, rfl⟩ := h
        exact ⟨hM, by simp [toksSize, tokSize, chgB_self]⟩
    | open_ c m =>
      simp only [optTok, pure, Except.pure, Except.ok.injEq, Prod.mk.injEq] at h
      obtain ⟨rfl, rfl⟩ := h
      exact ⟨hM, by simp [toksSize, tokSize, chgB_self]⟩
    | ref i =>
      simp only [optTok] at h
      split at h
      · rename_i w hw
        simp only [pure, Except.pure, Except.ok.injEq, Prod.mk.injEq] at h
        obtain ⟨rfl, rfl⟩ := h
        have := hM.memo i _ hw
        exact ⟨hM, by rw [chgB_self]; omega⟩
      · obtain ⟨m, hm, h⟩ := bind_ok.1 h
        split at h
        · rename_i v1
          have hlt1 : toksLt i v1 = true := firstMatch_lt S hT _ pats i _ hm
          have hsm : toksSize (sizes S.nodes) v1 + 1 ≤ tokSize (sizes S.nodes) (.ref i) := firstMatch_small S hT _ pats i _ hm
          obtain ⟨⟨new, st1⟩, h1, h⟩ := bind_ok.1 h
          simp only [pure, Except.pure, Except.ok.injEq, Prod.mk.injEq] at h
          obtain ⟨rfl, rfl⟩ := h
          obtain ⟨M1, s1⟩ := ihM v1 st new st1 i h1 hlt1 hI hM
          have := chgB_le_one st.changed true
          exact ⟨M1.setMemo i new (by omega) true, by simp only; omega⟩
        · rename_i fn x lit
          obtain ⟨a1, a2, _⟩ := firstMatch_lt S hT _ pats i _ hm
          have hsm : toksSize (sizes S.nodes) fn + toksSize (sizes S.nodes) x + 2 ≤ tokSize (sizes S.nodes) (.ref i) :=
            firstMatch_small S hT _ pats i _ hm
          obtain ⟨⟨fn', st1⟩, h1, h⟩ := bind_ok.1 h
          obtain ⟨⟨x', st2⟩, h2, h⟩ := bind_ok.1 h
          obtain ⟨r1, l1⟩ := ihV fn st fn' st1 i h1 a1 hI
          obtain ⟨M1, s1⟩ := ihM fn st fn' st1 i h1 a1 hI hM
          obtain ⟨r2, l2⟩ := ihV x st1 x' st2 i h2 a2 r1.1
          obtain ⟨M2, s2⟩ := ihM x st1 x' st2 i h2 a2 r1.1 M1
          split at h
          · cases h
          · rename_i hfree
            simp only [pure, Except.pure, Except.ok.injEq, Prod.mk.injEq] at h
            obtain ⟨rfl, rfl⟩ := h
            have hfree' : refFree lit = true := by simpa using hfree
            have hnew : nodeSize (sizes st2.nodes)
                ⟨.value, .app { head := .call, pre := [fn'], args := [x', lit], kwargs := [], deps := [], out := [.ref 0] }⟩
                = 1 + (toksSize (sizes st1.nodes) fn' + toksSize (sizes st2.nodes) x') := by
              simp only [nodeSize, App.size, App.operands, List.map_nil, List.append_nil, List.cons_append, List.nil_append, opsSize_cons,
                toksSize_refFree _ lit hfree', szN_ext r2.2.1 fn' l1]
              simp [opsSize]
            have hsp := size_pushed st2 ⟨.value, .app { head := .call, pre := [fn'], args := [x', lit], kwargs := [], deps := [], out := [.ref 0] }⟩
            have M3 : MInv (sizes S.nodes) (st2.pushNode ⟨.value, .app { head := .call, pre := [fn'], args := [x', lit], kwargs := [], deps := [], out := [.ref 0] }⟩) :=
              M2.ext r2.1 (Ext.push _ _) rfl
            have hle : toksSize (sizes (st2.pushNode ⟨.value, .app { head := .call, pre := [fn'], args := [x', lit], kwargs := [], deps := [], out := [.ref 0] }⟩).nodes)
                [.ref st2.nodes.length] + 1 ≤ tokSize (sizes S.nodes) (.ref i) := by
              rw [toksSize_single, hsp, hnew]; omega
            have := chgB_le_one st.changed true
            refine ⟨?_, by simp only; omega⟩
            have := M3.setMemo i [.ref st2.nodes.length] (by omega) true
            simpa [St.pushNode] using this
        · split at h
          · cases h
          · rename_i ty hn
            simp only [pure, Except.pure, Except.ok.injEq, Prod.mk.injEq] at h
            obtain ⟨rfl, rfl⟩ := h
            refine ⟨hM.ext hI (Ext.push _ _) rfl, ?_⟩
            rw [toksSize_single, size_pushed, size_node S hT i _ hn]
            simp [nodeSize, St.pushNode, chgB_self]
          · rename_i ty a hn
            obtain ⟨st1, h1, h⟩ := bind_ok.1 h
            have hsz : a.size (sizes S.nodes) ≤ tokSize (sizes S.nodes) (.ref i) := by
              rw [size_node S hT i _ hn]; exact Nat.le_refl _
            obtain ⟨M1, nb, hlk, hs⟩ := rebuild_m S (sizes S.nodes) _ ihV ihM a i st st1 i (topo_app S hT i ty a hn)
              (single_app S hS i ty a hn) hsz h1 hI hM
            rw [hlk] at h
            simp only [pure, Except.pure, Except.ok.injEq, Prod.mk.injEq] at h
            obtain ⟨rfl, rfl⟩ := h
            exact ⟨M1, by rw [toksSize_single]; exact hs⟩
          · rename_i ty src k hn
            exact (single_proj S hS i ty src k hn).elim

/-- **A pass never increases the weight and a pass that reports `changed` strictly decreases it.** -/
theorem pass_weight (pats : List Pattern) (fuel : Nat) (p p' : Prog) (ch : Bool) (ht : p.measureOK = true)
    (hni : noTopInline pats p = true) (hp : pass pats fuel p = .ok (p', ch)) : p'.weight + (if ch then 1 else 0) ≤ p.weight := by
  unfold Prog.measureOK at ht
  simp only [Bool.and_eq_true] at ht
  obtain ⟨ht, hS⟩ := ht
  unfold Prog.topoOK at ht
  simp only [Bool.and_eq_true] at ht
  obtain ⟨hT, ht⟩ := ht
  split at ht
  · rename_i k htop
    split at ht
    · rename_i g hg
      obtain ⟨fuel', ins, sta, out, stb, rfl, h3, h4, rfl, rfl⟩ := pass_shape pats fuel p p' ch k g htop hg hni hp
      obtain ⟨a1, a2, a3, a4, _, a6⟩ := newInputs_ok p.store g.inputs {} ins sta h3 SInv.empty
      -- the memo after `newInputs`: new inputs are as big as the old ones
      have hMa : MInv (sizes p.store.nodes) sta := by
        have key : ∀ (is : List Nat) (st : St) (js : List Nat) (st1 : St), newInputs p.store is st = .ok (js, st1) → SInv st →
            MInv (sizes p.store.nodes) st → MInv (sizes p.store.nodes) st1 := by
          intro is
          induction is with
          | nil =>
            intro st js st1 h _ hM
            simp only [newInputs, pure, Except.pure, Except.ok.injEq, Prod.mk.injEq] at h
            obtain ⟨rfl, rfl⟩ := h
            exact hM
          | cons i is ih =>
            intro st js st1 h hI hM
            simp only [newInputs] at h
            split at h
            · rename_i nd hn
              obtain ⟨⟨js', st2⟩, h1, h⟩ := bind_ok.1 h
              simp only [pure, Except.pure, Except.ok.injEq, Prod.mk.injEq] at h
              obtain ⟨rfl, rfl⟩ := h
              have hI1 : SInv { st.pushNode ⟨nd.ty, .none⟩ with memoT := (i, [Tok.ref st.nodes.length]) :: st.memoT } :=
                (hI.push ⟨nd.ty, .none⟩ rfl).setMemo i [Tok.ref st.nodes.length] (by simp [toksLt, St.pushNode]) st.changed
              have hM0 : MInv (sizes p.store.nodes) (st.pushNode ⟨nd.ty, .none⟩) := hM.ext hI (Ext.push _ _) rfl
              have hM1 : MInv (sizes p.store.nodes) { st.pushNode ⟨nd.ty, .none⟩ with memoT := (i, [Tok.ref st.nodes.length]) :: st.memoT } := by
                have := hM0.setMemo i [Tok.ref st.nodes.length] (by
                  rw [toksSize_single, size_pushed]
                  have hpos : 1 ≤ nodeSize (sizes p.store.nodes) nd := by
                    obtain ⟨ty, o⟩ := nd
                    cases o <;> simp [nodeSize, App.size] <;> omega
                  rw [size_node p.store hT i nd hn]
                  simpa [nodeSize] using hpos) st.changed
                exact this
              exact ih _ js' st2 h1 hI1 hM1
            · cases h
        exact key g.inputs {} ins sta h3 SInv.empty ⟨by intro o v h; simp at h⟩
      obtain ⟨M, s⟩ := mapToks_m (sizes p.store.nodes) _ (optTok_ok pats p.store hT fuel') (optTok_m pats p.store hT hS fuel')
        g.output sta out stb _ h4 ht a1 hMa
      have hch : sta.changed = false := by rw [a4]
      simp only [Prog.weight, htop, hg, List.getElem?_concat_length]
      rw [hch] at s
      cases hc : stb.changed with
      | false => simp only [hc, chgB] at s ⊢; simpa using s
      | true => simp only [hc, chgB] at s ⊢; simpa using s
    · cases ht
  · cases ht

end Einx.OptDag
