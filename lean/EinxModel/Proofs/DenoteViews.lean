import EinxModel.Denote.Expr
/-
The fuel of `Denote.viewsFuel` is sufficient: choosing a block of the leftmost top-level concatenation
strictly decreases the number of concatenation nodes, so `views` (fuel = `nconcatL + 1`) never reaches
the fuel-exhausted case `viewsFuel 0 ds = [ds]` with a concatenation left in `ds`.
-/
namespace Einx.Denote
open Einx

theorem Dim.nconcat_le_of_getElem? : ∀ (ds : List Dim) (k : Nat) (d : Dim), ds[k]? = some d →
    d.nconcat ≤ Dim.nconcatL ds
  | [], k, d, h => by simp at h
  | e :: es, 0, d, h => by
    simp only [List.getElem?_cons_zero, Option.some.injEq] at h
    subst h
    simp only [Dim.nconcatL]
    omega
  | e :: es, k + 1, d, h => by
    simp only [List.getElem?_cons_succ] at h
    have := Dim.nconcat_le_of_getElem? es k d h
    simp only [Dim.nconcatL]
    omega

mutual
/-- Choosing a block of the leftmost top-level concatenation removes at least that concatenation node. -/
theorem Dim.nconcat_choose_lt : ∀ (k : Nat) (d d' : Dim), d.choose k = some d' → d'.nconcat < d.nconcat
  | _, .axis _, _, h => by simp [Dim.choose] at h
  | k, .flat ds, d', h => by
    simp only [Dim.choose, Option.map_eq_some_iff] at h
    obtain ⟨ds', h1, h2⟩ := h
    subst h2
    simpa only [Dim.nconcat] using Dim.nconcatL_chooseL_lt k ds ds' h1
  | k, .concat ds, d', h => by
    simp only [Dim.choose] at h
    cases hk : ds[k]? with
    | none => simp [hk] at h
    | some d =>
      simp only [hk, Option.some.injEq] at h
      subst h
      have := Dim.nconcat_le_of_getElem? ds k d hk
      simp only [Dim.nconcat]
      omega
  | k, .off o d t, d', h => by
    simp only [Dim.choose, Option.map_eq_some_iff] at h
    obtain ⟨e, h1, h2⟩ := h
    subst h2
    simpa only [Dim.nconcat] using Dim.nconcat_choose_lt k d e h1
theorem Dim.nconcatL_chooseL_lt : ∀ (k : Nat) (ds ds' : List Dim), Dim.chooseL k ds = some ds' →
    Dim.nconcatL ds' < Dim.nconcatL ds
  | _, [], _, h => by simp [Dim.chooseL] at h
  | k, d :: ds, ds', h => by
    simp only [Dim.chooseL] at h
    split at h
    · simp only [Option.map_eq_some_iff] at h
      obtain ⟨e, h1, h2⟩ := h
      subst h2
      have := Dim.nconcat_choose_lt k d e h1
      simp only [Dim.nconcatL]
      omega
    · simp only [Option.map_eq_some_iff] at h
      obtain ⟨es, h1, h2⟩ := h
      subst h2
      have := Dim.nconcatL_chooseL_lt k ds es h1
      simp only [Dim.nconcatL]
      omega
end

/-- One more unit of fuel changes nothing once the fuel is at least the number of concatenation nodes. -/
theorem viewsFuel_succ : ∀ (n : Nat) (ds : List Dim), Dim.nconcatL ds ≤ n →
    viewsFuel n ds = viewsFuel (n + 1) ds
  | 0, ds, h => by
    have h0 : Dim.nconcatL ds = 0 := by omega
    simp [viewsFuel, h0]
  | n + 1, ds, h => by
    simp only [viewsFuel]
    split
    · rfl
    · congr 1
      funext k
      cases hc : Dim.chooseL k ds with
      | none => rfl
      | some ds' =>
        have hlt := Dim.nconcatL_chooseL_lt k ds ds' hc
        exact viewsFuel_succ n ds' (by omega)

/-- Any amount of fuel at or above the number of concatenation nodes gives the same enumeration. -/
theorem viewsFuel_stable (ds : List Dim) : ∀ (m n : Nat), Dim.nconcatL ds ≤ n → n ≤ m →
    viewsFuel m ds = viewsFuel n ds
  | m, n, hn, hm => by
    induction m with
    | zero =>
      have : n = 0 := by omega
      subst this; rfl
    | succ m ih =>
      rcases Nat.lt_or_ge m n with h | h
      · have : n = m + 1 := by omega
        subst this; rfl
      · rw [← viewsFuel_succ m ds (by omega)]
        exact ih h

/-- The enumeration satisfies the un-fuelled recursion equation at the fuel `views` uses. -/
theorem viewsFuel_unfold (ds : List Dim) :
    viewsFuel (Dim.nconcatL ds + 1) ds =
      if Dim.nconcatL ds == 0 then [ds]
      else (List.range (Dim.nblocksL ds)).flatMap (fun k =>
        match Dim.chooseL k ds with
        | some ds' => viewsFuel (Dim.nconcatL ds' + 1) ds'
        | none => []) := by
  rw [viewsFuel]
  split
  · rfl
  · congr 1
    funext k
    cases hc : Dim.chooseL k ds with
    | none => rfl
    | some ds' =>
      have hlt := Dim.nconcatL_chooseL_lt k ds ds' hc
      exact viewsFuel_stable ds' _ _ (by omega) (by omega)

/-- With sufficient fuel every enumerated virtual tensor is concatenation-free (the fuel-exhausted case,
which would return a tensor that still contains a concatenation, is never reached). -/
theorem viewsFuel_concatFree : ∀ (n : Nat) (ds : List Dim), Dim.nconcatL ds ≤ n →
    ∀ v ∈ viewsFuel n ds, Dim.nconcatL v = 0
  | 0, ds, h, v, hv => by
    simp only [viewsFuel, List.mem_singleton] at hv
    subst hv; omega
  | n + 1, ds, h, v, hv => by
    rw [viewsFuel] at hv
    split at hv
    · rename_i h0
      simp only [List.mem_singleton] at hv
      subst hv
      simpa using h0
    · simp only [List.mem_flatMap, List.mem_range] at hv
      obtain ⟨k, _, hk⟩ := hv
      cases hc : Dim.chooseL k ds with
      | none => simp [hc] at hk
      | some ds' =>
        simp only [hc] at hk
        have hlt := Dim.nconcatL_chooseL_lt k ds ds' hc
        exact viewsFuel_concatFree n ds' (by omega) v hk

end Einx.Denote
