import EinxModel.Generic.StbDenote
import EinxModel.Proofs.Stb
import EinxModel.Proofs.Denote
import EinxModel.Proofs.DenoteTie
import EinxModel.Proofs.IR
/-! Helper lemmas for `lower_id_correct` (Props/C01Lower.lean): the model `Generic.lowerId` of einx's
decomposer for `einx.id` computes, for all descriptions in its domain and all axis lengths, the
loop-notation denotation `Denote.denoteId`. -/
namespace Einx.Lower
open Einx Einx.IR Einx.Generic Einx.Denote
open Einx.Update (mapOpt mapOpt_eq_some_iff)

/-! ### running straight-line programs -/

theorem evalProg_append {α : Type} (A : Alg α) : ∀ (p q : List Instr) (regs : List (Tensor α)),
    evalProg A (p ++ q) regs = (evalProg A p regs) >>= (evalProg A q)
  | [], q, regs => by simp [evalProg, bind, Except.bind, pure, Except.pure]
  | i :: is, q, regs => by
    simp only [List.cons_append, evalProg]
    cases planInstr (regs.map (·.shape)) i with
    | error e => rfl
    | ok pl =>
      simp only [bind, Except.bind]
      exact evalProg_append A is q _

/-- The tracing state `s` describes a run: its program, run on the initial registers `inps` (the inputs of the
operation, or all registers computed so far when tracing resumes after an instruction of another kind), yields
the registers `regs`; the current register holds `T`, a well-formed tensor of the traced shape. -/
structure Run (inps : List (Tensor Cell)) (s : St) (regs : List (Tensor Cell)) (T : Tensor Cell) : Prop where
  ev : evalProg symAlg s.prog inps = .ok regs
  next : regs.length = s.next
  reg : regs[s.reg]? = some T
  shape : T.shape = s.shape
  len : T.data.length = prod T.shape

theorem runPlan_data (regs : List (Tensor Cell)) (pl : Plan) :
    (runPlan symAlg regs pl).data = pl.cells.map (evalCell symAlg regs) := by
  simp [runPlan, evalCells_eq_map]

theorem evalCell_src {regs : List (Tensor Cell)} {x : Nat} {T : Tensor Cell} (hx : regs[x]? = some T) (k : Nat) :
    evalCell symAlg regs (.src x k) = (T.data[k]?).getD .bad := by
  simp [evalCell, readReg, hx, symAlg]

theorem Run.emit {inps : List (Tensor Cell)} {s : St} {regs : List (Tensor Cell)} {T : Tensor Cell} (h : Run inps s regs T)
    (i : Instr) (pl : Plan) (hp : planInstr (regs.map (·.shape)) i = .ok pl) (hl : pl.cells.length = prod pl.shape) :
    Run inps (s.emit i pl.shape) (regs ++ [runPlan symAlg regs pl]) (runPlan symAlg regs pl) where
  ev := by
    simp only [St.emit, evalProg_append, h.ev, bind, Except.bind, evalProg, hp, pure, Except.pure]
  next := by simp [St.emit, h.next]
  reg := by
    simp only [St.emit, ← h.next]
    exact List.getElem?_concat_length
  shape := rfl
  len := by rw [runPlan_data]; simpa [runPlan] using hl

theorem shapes_getElem? {regs : List (Tensor Cell)} {x : Nat} {T : Tensor Cell} (hx : regs[x]? = some T) :
    (regs.map (·.shape))[x]? = some T.shape := by
  simp [List.getElem?_map, hx]

theorem read_all {regs : List (Tensor Cell)} {x : Nat} {T : Tensor Cell} (hx : regs[x]? = some T) (n : Nat)
    (hn : n = T.data.length) : (List.range n).map (fun k => evalCell symAlg regs (.src x k)) = T.data := by
  subst hn
  apply List.ext_getElem?
  intro k
  by_cases hk : k < T.data.length
  · simp [evalCell_src hx, hk]
  · have h1 : T.data.length ≤ k := by omega
    rw [List.getElem?_eq_none h1, List.getElem?_eq_none (by simpa using h1)]

/-- `classical_from_numpy.reshape`: same data, new shape. -/
theorem reshapeW_run {inps : List (Tensor Cell)} {s : St} {regs : List (Tensor Cell)} {T : Tensor Cell} (h : Run inps s regs T)
    (target : List Nat) (hp : prod s.shape = prod target) :
    ∃ ext T', Run inps (reshapeW s target) (regs ++ ext) T' ∧ T'.shape = target ∧ T'.data = T.data := by
  unfold reshapeW
  split
  · rename_i heq
    exact ⟨[], T, by simpa using h, by rw [h.shape]; exact eq_of_beq_list heq, rfl⟩
  · have hpl : planInstr (regs.map (·.shape)) (.reshape s.reg target)
        = .ok ⟨target, (List.range (prod target)).map (fun k => Cell.src s.reg k)⟩ := by
      have : (prod T.shape != prod target) = false := by rw [h.shape, hp]; simp
      simp only [planInstr, getShape, shapes_getElem? h.reg, bind, Except.bind, pure, Except.pure, this,
        Bool.false_eq_true, if_false]
    have hr := h.emit _ _ hpl (by simp)
    refine ⟨[_], _, hr, rfl, ?_⟩
    rw [runPlan_data]
    simp only [List.map_map, Function.comp_def]
    exact read_all h.reg _ (by rw [h.len, h.shape, hp])

theorem map_getD_range {α : Type} (l : List α) (d : α) : (List.range l.length).map (fun a => l.getD a d) = l := by
  apply List.ext_getElem
  · simp
  · intro k h1 h2
    simp [List.getD_eq_getElem?_getD, List.getElem?_eq_getElem h2]

theorem tabulate_length (s : List Nat) (f : List Nat → Cell) : (tabulate s f).cells.length = prod s := by
  simp [tabulate]

/-- `classical_from_numpy.transpose`: the result read at a permuted index is the operand read at the index. -/
theorem transposeW_run {inps : List (Tensor Cell)} {s : St} {regs : List (Tensor Cell)} {T : Tensor Cell} (h : Run inps s regs T)
    (perm : List Nat) (hperm : isPermOf perm s.shape.length = true) :
    ∃ ext T', Run inps (transposeW s perm) (regs ++ ext) T' ∧ T'.shape = perm.map (fun a => T.shape.getD a 0) ∧
      ∀ p c, Valid T.shape p → T.data[ravel T.shape p]? = some c →
        T'.data[ravel (perm.map (fun a => T.shape.getD a 0)) (perm.map (fun a => p.getD a 0))]? = some c := by
  obtain ⟨hisp, hlen, hall, hlt⟩ := isPermOf_spec hperm
  rw [← h.shape] at hlen hall hlt hisp
  unfold transposeW
  split
  · rename_i heq
    have hpr : perm = List.range T.shape.length := by
      have : perm = List.range perm.length := by simpa using heq
      rw [hlen] at this; exact this
    refine ⟨[], T, by simpa using h, ?_, ?_⟩
    · rw [hpr, map_getD_range]
    · intro p c hv hc
      have hpl : p.length = T.shape.length := valid_length hv
      have h2 : (List.range T.shape.length).map (fun a => p.getD a 0) = p := by
        rw [← hpl]; exact map_getD_range p 0
      rw [hpr, map_getD_range, h2]; exact hc
  · have hpl : planInstr (regs.map (·.shape)) (.transpose s.reg perm)
        = .ok (tabulate (perm.map (fun a => T.shape.getD a 0)) (fun o =>
            Cell.src s.reg (ravel T.shape ((List.range T.shape.length).map (fun a => o.getD (perm.idxOf a) 0))))) := by
      simp only [planInstr, getShape, shapes_getElem? h.reg, hisp, bind, Except.bind, pure, Except.pure,
        Bool.not_true, Bool.false_eq_true, if_false]
    have hr := h.emit _ _ hpl (tabulate_length _ _)
    have hsh : (tabulate (perm.map (fun a => T.shape.getD a 0)) (fun o =>
        Cell.src s.reg (ravel T.shape ((List.range T.shape.length).map (fun a => o.getD (perm.idxOf a) 0))))).shape
        = perm.map (fun p => s.shape.getD p 0) := by rw [← h.shape]; rfl
    rw [hsh] at hr
    refine ⟨[_], _, hr, rfl, ?_⟩
    intro p c hv hc
    have hv' := valid_permute hv perm hlt
    rw [runPlan_data, List.getElem?_map, tabulate_getElem? _ _ _ hv',
      unpermute perm p T.shape.length (valid_length hv) hall]
    simp [evalCell_src h.reg, hc]

theorem broadcastIndex_self {s o : List Nat} (hv : Valid s o) : broadcastIndex s s o = o := by
  simp only [broadcastIndex, Nat.sub_self, List.drop_zero]
  induction hv with
  | nil => rfl
  | @cons s0 i ss is hi _ ih =>
    simp only [List.zip_cons_cons, List.map_cons, ih, List.cons.injEq, and_true]
    by_cases h1 : s0 = 1
    · subst h1; simp; omega
    · simp [h1]

/-- `classical_from_numpy.broadcast_to`: the result read at `o` is the operand read at the clamped index. -/
theorem broadcastW_run {inps : List (Tensor Cell)} {s : St} {regs : List (Tensor Cell)} {T : Tensor Cell} (h : Run inps s regs T)
    (target : List Nat) (hb : broadcastable s.shape target = true) :
    ∃ ext T', Run inps (broadcastW s target) (regs ++ ext) T' ∧ T'.shape = target ∧
      ∀ o c, Valid target o → T.data[ravel T.shape (broadcastIndex T.shape target o)]? = some c →
        T'.data[ravel target o]? = some c := by
  unfold broadcastW
  split
  · rename_i heq
    have hst : T.shape = target := by rw [h.shape]; exact eq_of_beq_list heq
    refine ⟨[], T, by simpa using h, hst, ?_⟩
    intro o c hv hc
    rw [hst, broadcastIndex_self hv] at hc
    exact hc
  · have hpl : planInstr (regs.map (·.shape)) (.broadcastTo s.reg target)
        = .ok (tabulate target (fun o => Cell.src s.reg (ravel T.shape (broadcastIndex T.shape target o)))) := by
      rw [← h.shape] at hb
      simp only [planInstr, getShape, shapes_getElem? h.reg, hb, bind, Except.bind, pure, Except.pure,
        Bool.not_true, Bool.false_eq_true, if_false]
    have hr := h.emit _ _ hpl (tabulate_length _ _)
    refine ⟨[_], _, hr, rfl, ?_⟩
    intro o c hv hc
    rw [runPlan_data, List.getElem?_map, tabulate_getElem? _ _ _ hv]
    simp [evalCell_src h.reg, hc]

/-! ### multi-indices given by a valuation of the axis names -/

/-- The multi-index of a flat axis list under a valuation of the axis names. -/
def idx (L : List Ax) (val : String → Nat) : List Nat := L.map (fun a => val a.name)

/-- The valuation is in range on the axes of `L`. -/
def Bnd (val : String → Nat) (L : List Ax) : Prop := ∀ a ∈ L, val a.name < a.len

theorem valid_idx {val : String → Nat} {L : List Ax} (h : Bnd val L) : Valid (lens L) (idx L val) := by
  induction L with
  | nil => exact Valid.nil
  | cons a L ih =>
    exact Valid.cons (h a (List.mem_cons_self ..)) (ih (fun b hb => h b (List.mem_cons_of_mem _ hb)))

theorem Bnd.filter {val : String → Nat} {L : List Ax} (h : Bnd val L) (p : Ax → Bool) : Bnd val (L.filter p) :=
  fun a ha => h a (List.mem_filter.mp ha).1

theorem prod_map_filter {α : Type} (g : α → Nat) (p : α → Bool) (L : List α)
    (h : ∀ a ∈ L, p a = false → g a = 1) : prod (L.map g) = prod ((L.filter p).map g) := by
  induction L with
  | nil => rfl
  | cons a L ih =>
    have ih' := ih (fun b hb => h b (List.mem_cons_of_mem _ hb))
    by_cases hp : p a = true
    · simp only [List.map_cons, List.filter_cons, hp, if_true, prod, ih']
    · have hp' : p a = false := by simpa using hp
      simp only [List.map_cons, List.filter_cons, hp', prod, ih', h a (List.mem_cons_self ..) hp', Nat.one_mul]
      simp

/-- Dimensions of length 1 that are read at index 0 do not change the flat position. -/
theorem ravel_map_filter {α : Type} (g hh : α → Nat) (p : α → Bool) (L : List α)
    (h : ∀ a ∈ L, p a = false → g a = 1 ∧ hh a = 0) :
    ravel (L.map g) (L.map hh) = ravel ((L.filter p).map g) ((L.filter p).map hh) := by
  induction L with
  | nil => rfl
  | cons a L ih =>
    have hL : ∀ b ∈ L, p b = false → g b = 1 ∧ hh b = 0 := fun b hb => h b (List.mem_cons_of_mem _ hb)
    have ih' := ih hL
    have hpr := prod_map_filter g p L (fun b hb hpb => (hL b hb hpb).1)
    by_cases hp : p a = true
    · simp only [List.map_cons, List.filter_cons, hp, if_true, ravel, ih', hpr]
    · have hp' : p a = false := by simpa using hp
      simp only [List.map_cons, List.filter_cons, hp', ravel, ih', (h a (List.mem_cons_self ..) hp').2, Nat.zero_mul,
        Nat.zero_add]
      simp

/-! ### axis names without repetition -/

theorem noDup_iff (l : List String) : noDup l = true ↔ l.Nodup := by
  induction l with
  | nil => simp [noDup]
  | cons x xs ih => simp [noDup, ih, List.nodup_cons]

theorem idsAux_of_nodup : ∀ (ns seen : List String), (∀ n ∈ ns, n ∉ seen) → ns.Nodup →
    idsAux seen ns = ns.map (fun n => (n, 0))
  | [], _, _, _ => rfl
  | n :: ns, seen, hs, hn => by
    have ⟨hnn, hnd⟩ := List.nodup_cons.mp hn
    have hc : seen.count n = 0 := List.count_eq_zero.mpr (hs n (List.mem_cons_self ..))
    simp only [idsAux, List.map_cons, hc]
    rw [idsAux_of_nodup ns (n :: seen) ?_ hnd]
    intro m hm
    simp only [List.mem_cons, not_or]
    exact ⟨fun e => hnn (e ▸ hm), hs m (List.mem_cons_of_mem _ hm)⟩

theorem idsOf_of_nodup (ns : List String) (h : ns.Nodup) : idsOf ns = ns.map (fun n => (n, 0)) :=
  idsAux_of_nodup ns [] (fun _ _ => by simp) h

theorem contains_pair (l : List String) (m : String) :
    (l.map (fun n => (n, 0))).contains (m, 0) = l.contains m := by
  induction l with
  | nil => rfl
  | cons x xs ih => simp

theorem idxOf_pair (l : List String) (m : String) :
    (l.map (fun n => (n, 0))).idxOf (m, 0) = l.idxOf m := by
  induction l with
  | nil => rfl
  | cons x xs ih =>
    simp only [List.map_cons, List.idxOf_cons, ih]
    have : ((x, 0) == (m, 0)) = (x == m) := by
      by_cases h : x = m
      · subst h; simp
      · have h1 : (x == m) = false := by simpa using h
        rw [h1]; simpa using h
    rw [this]

theorem names_filter (L : List Ax) (q : String → Bool) :
    names (L.filter (fun b => q b.name)) = (names L).filter q := by
  simp only [names, List.filter_map]
  rfl

/-- What `transposeStep` does on expressions without repeated names: every input name occurs in the output,
and the permutation lists, for every output axis that the input has, its position in the input. -/
theorem transposeStep_spec {s r : St} {sq Lo : List Ax} (hsq : (names sq).Nodup) (hLo : (names Lo).Nodup)
    (h : transposeStep s sq Lo = .ok r) :
    (∀ n ∈ names sq, n ∈ names Lo) ∧
      r = transposeW s ((Lo.filter (fun b => (names sq).contains b.name)).map (fun b => (names sq).idxOf b.name)) := by
  unfold transposeStep at h
  simp only [idsOf_of_nodup _ hsq, idsOf_of_nodup _ hLo] at h
  split at h
  · rename_i hset
    constructor
    · intro n hn
      simp only [setEq, Bool.and_eq_true, List.all_eq_true] at hset
      have := hset.2 (n, 0) (List.mem_map.mpr ⟨n, hn, rfl⟩)
      have := (List.mem_filter.mp (List.contains_iff_mem.mp this)).1
      obtain ⟨m, hm, he⟩ := List.mem_map.mp this
      simp only [Prod.mk.injEq, and_true] at he
      exact he ▸ hm
    · have hperm : (((names Lo).map (fun n => (n, 0))).filter
            (fun o => ((names sq).map (fun n => (n, 0))).contains o)).map
            (fun o => ((names sq).map (fun n => (n, 0))).idxOf o)
          = (Lo.filter (fun b => (names sq).contains b.name)).map (fun b => (names sq).idxOf b.name) := by
        rw [List.filter_map, List.map_map]
        simp only [Function.comp_def, contains_pair, idxOf_pair]
        simp only [names, List.filter_map, List.map_map, Function.comp_def]
      rw [hperm] at h
      exact (Except.ok.inj h).symm
  · cases h

/-! ### the permutation computed by `transposeStep` -/

/-- The entry of a mapped axis list at the position of the first axis named `n`. -/
theorem getD_idxOf_name {β : Type} (L : List Ax) (n : String) (hn : n ∈ names L) :
    ∃ a ∈ L, a.name = n ∧ ∀ (f : Ax → β) (d : β), (L.map f).getD ((names L).idxOf n) d = f a := by
  induction L with
  | nil => simp [names] at hn
  | cons a L ih =>
    by_cases ha : a.name = n
    · refine ⟨a, List.mem_cons_self .., ha, ?_⟩
      intro f d
      simp [names, List.idxOf_cons, ha]
    · have hn' : n ∈ names L := by
        simp only [names, List.map_cons, List.mem_cons] at hn
        rcases hn with h | h
        · exact absurd h.symm ha
        · exact h
      obtain ⟨a', ha', hna, hf⟩ := ih hn'
      refine ⟨a', List.mem_cons_of_mem _ ha', hna, ?_⟩
      intro f d
      have hb : (a.name == n) = false := by simpa using ha
      have := hf f d
      simp only [names] at this
      simp only [names, List.map_cons, List.idxOf_cons, hb, cond_false, List.getD_cons_succ, this]

theorem nodup_filter {α : Type} {l : List α} (h : l.Nodup) (p : α → Bool) : (l.filter p).Nodup :=
  List.Pairwise.sublist List.filter_sublist h

theorem perm_isPermOf {sq Lo : List Ax} (hsq : (names sq).Nodup) (hLo : (names Lo).Nodup)
    (hsub : ∀ n ∈ names sq, n ∈ names Lo) :
    isPermOf ((Lo.filter (fun b => (names sq).contains b.name)).map (fun b => (names sq).idxOf b.name)) sq.length
      = true := by
  have hnl : (names sq).length = sq.length := by simp [names]
  have hmemf : ∀ b ∈ Lo.filter (fun b => (names sq).contains b.name), b.name ∈ names sq := by
    intro b hb
    exact List.contains_iff_mem.mp (List.mem_filter.mp hb).2
  have hlen : (Lo.filter (fun b => (names sq).contains b.name)).length = sq.length := by
    have e : (Lo.filter (fun b => (names sq).contains b.name)).length
        = ((names Lo).filter (fun n => (names sq).contains n)).length := by
      rw [← names_filter]; simp [names]
    rw [e, ← hnl]
    apply Nat.le_antisymm
    · apply length_le_of_nodup_subset _ _ (nodup_filter hLo _)
      intro x hx
      exact List.contains_iff_mem.mp (List.mem_filter.mp hx).2
    · apply length_le_of_nodup_subset _ _ hsq
      intro x hx
      exact List.mem_filter.mpr ⟨hsub x hx, List.contains_iff_mem.mpr hx⟩
  simp only [isPermOf, isPerm, Bool.and_eq_true, beq_iff_eq, List.all_eq_true, List.mem_range,
    List.contains_iff_mem, decide_eq_true_eq, List.length_map]
  refine ⟨⟨hlen, ?_⟩, ?_⟩
  · intro i hi
    have hi' : i < (names sq).length := by omega
    have hmem : (names sq)[i] ∈ names Lo := hsub _ (List.getElem_mem hi')
    obtain ⟨b, hb, hbn⟩ := List.mem_map.mp hmem
    refine List.mem_map.mpr ⟨b, List.mem_filter.mpr ⟨hb, ?_⟩, ?_⟩
    · rw [hbn]; exact List.contains_iff_mem.mpr (List.getElem_mem hi')
    · rw [hbn]; exact hsq.idxOf_getElem i hi'
  · intro a ha
    obtain ⟨b, hb, rfl⟩ := List.mem_map.mp ha
    rw [← hnl]
    exact List.idxOf_lt_length_of_mem (hmemf b hb)

theorem perm_map_getD {β : Type} (sq Lf : List Ax) (f g : Ax → β) (d : β)
    (hmem : ∀ b ∈ Lf, b.name ∈ names sq) (hfg : ∀ b ∈ Lf, ∀ a ∈ sq, a.name = b.name → f a = g b) :
    (Lf.map (fun b => (names sq).idxOf b.name)).map (fun a => (sq.map f).getD a d) = Lf.map g := by
  rw [List.map_map]
  apply List.map_congr_left
  intro b hb
  obtain ⟨a, ha, hna, hf⟩ := getD_idxOf_name (β := β) sq b.name (hmem b hb)
  simp only [Function.comp]
  rw [hf f d]
  exact hfg b hb a ha hna

/-! ### `_squeeze_transpose_broadcast` reads the input by axis name -/

/-- `T` is a tensor over the flat axis list `L`: read at the index that a valuation `val` satisfying `P` gives to
`L`, it holds the cell `c val`. -/
def ReadsC (P : (String → Nat) → Prop) (c : (String → Nat) → Cell) (T : Tensor Cell) (L : List Ax) : Prop :=
  T.shape = lens L ∧ ∀ val, P val → T.data[ravel (lens L) (idx L val)]? = some (c val)

/-- `T` is a tensor over the axis list `Lo` in which the axes with `pre a = 1` are (or have been made) unit
dimensions: read at the index that `val` gives to the other axes (and 0 at the unit dimensions) it holds `c val`.
This is the shape numpy broadcasting consumes (`broadcastIndex`). -/
def ReadsP (P : (String → Nat) → Prop) (c : (String → Nat) → Cell) (T : Tensor Cell) (Lo : List Ax) (pre : Ax → Nat) : Prop :=
  T.shape = Lo.map pre ∧ ∀ val, P val →
    T.data[ravel (Lo.map pre) (Lo.map (fun a => if pre a = 1 then 0 else val a.name))]? = some (c val)

/-- The instance for one input (register 0): the cell is the input element at the index that the valuation gives
to the input's axes `Li`. -/
def Reads (Li Lo : List Ax) (T : Tensor Cell) (L : List Ax) : Prop :=
  ReadsC (fun val => Bnd val Li ∧ Bnd val Lo) (fun val => .src 0 (ravel (lens Li) (idx Li val))) T L

theorem squeezeStep_none (s : St) (sq Lo : List Ax) (hne : ∀ a ∈ sq, a.len ≠ 1) : squeezeStep s sq Lo = (sq, s) := by
  have : sq.filter (fun a => a.len == 1) = [] := by
    rw [List.filter_eq_nil_iff]
    intro a ha
    simpa using hne a ha
  simp [squeezeStep, this, names]

theorem Run.assoc {inps : List (Tensor Cell)} {s : St} {regs a b : List (Tensor Cell)} {T : Tensor Cell}
    (h : Run inps s ((regs ++ a) ++ b) T) : Run inps s (regs ++ (a ++ b)) T := by
  rwa [List.append_assoc] at h

/-- The transposition of `_squeeze_transpose_broadcast` (no unit axis to squeeze): the result is a tensor over the
output axes that the input has, in output order. -/
theorem stbT_run {inps : List (Tensor Cell)} {s r : St} {regs : List (Tensor Cell)} {T : Tensor Cell} {Lo sq : List Ax}
    {P : (String → Nat) → Prop} {c : (String → Nat) → Cell}
    (h : Run inps s regs T) (hsq : (names sq).Nodup) (hLo : (names Lo).Nodup)
    (hPsq : ∀ val, P val → Bnd val sq) (hcons : ∀ a ∈ sq, ∀ b ∈ Lo, a.name = b.name → a.len = b.len)
    (hR : ReadsC P c T sq) (ht : transposeStep s sq Lo = .ok r) :
    (∀ n ∈ names sq, n ∈ names Lo) ∧ ∃ ext T', Run inps r (regs ++ ext) T' ∧
      ReadsC P c T' (Lo.filter (fun b => (names sq).contains b.name)) := by
  obtain ⟨hsub, hs2⟩ := transposeStep_spec hsq hLo ht
  subst hs2
  refine ⟨hsub, ?_⟩
  have hmemf : ∀ b ∈ Lo.filter (fun b => (names sq).contains b.name), b.name ∈ names sq := by
    intro b hb
    exact List.contains_iff_mem.mp (List.mem_filter.mp hb).2
  have hshl : s.shape.length = sq.length := by rw [← h.shape, hR.1]; simp [lens]
  obtain ⟨regs2, T2, hrun2, hsh2, hread2⟩ := transposeW_run h _ (by rw [hshl]; exact perm_isPermOf hsq hLo hsub)
  have hlensf : ((Lo.filter (fun b => (names sq).contains b.name)).map (fun b => (names sq).idxOf b.name)).map
        (fun a => T.shape.getD a 0) = lens (Lo.filter (fun b => (names sq).contains b.name)) := by
    rw [hR.1]
    exact perm_map_getD sq _ (fun a => a.len) (fun a => a.len) 0 hmemf
      (fun b hb a ha hn => hcons a ha b (List.mem_filter.mp hb).1 hn)
  refine ⟨regs2, T2, hrun2, by rw [hsh2, hlensf], ?_⟩
  intro val hP
  have hvsq : Bnd val sq := hPsq val hP
  have hv : Valid T.shape (idx sq val) := by rw [hR.1]; exact valid_idx hvsq
  have hc := hR.2 val hP
  rw [← hR.1] at hc
  have := hread2 (idx sq val) _ hv hc
  rw [hlensf] at this
  have hidx : ((Lo.filter (fun b => (names sq).contains b.name)).map (fun b => (names sq).idxOf b.name)).map
      (fun a => (idx sq val).getD a 0) = idx (Lo.filter (fun b => (names sq).contains b.name)) val :=
    perm_map_getD sq _ (fun a => val a.name) (fun a => val a.name) 0 hmemf (fun b _ a _ hn => by rw [hn])
  rw [hidx] at this
  exact this

/-- The membership test of the list of output names that the input lacks. -/
theorem bc_contains (sq Lo : List Ax) : ∀ a ∈ Lo, ((names Lo).filter (fun n => !(names sq).contains n)).contains a.name
    = !(names sq).contains a.name := by
  intro a ha
  rw [Bool.eq_iff_iff, List.contains_iff_mem, List.mem_filter]
  constructor
  · exact fun h => h.2
  · exact fun h => ⟨List.mem_map.mpr ⟨a, ha, rfl⟩, h⟩

/-- Inserting the missing output axes as unit dimensions (`classical.reshape(tensor, pre_broadcast_shape)`). -/
theorem unsqueeze_run {inps : List (Tensor Cell)} {s : St} {regs : List (Tensor Cell)} {T : Tensor Cell} {Lo : List Ax}
    {P : (String → Nat) → Prop} {c : (String → Nat) → Cell} (keep : Ax → Bool) (pre : Ax → Nat)
    (h : Run inps s regs T) (hPLo : ∀ val, P val → Bnd val Lo)
    (hg1 : ∀ a ∈ Lo, keep a = false → pre a = 1) (hg2 : ∀ a ∈ Lo.filter keep, pre a = a.len)
    (hR : ReadsC P c T (Lo.filter keep)) :
    ∃ ext T', Run inps (reshapeW s (Lo.map pre)) (regs ++ ext) T' ∧ ReadsP P c T' Lo pre := by
  have hprod : prod s.shape = prod (Lo.map pre) := by
    rw [← h.shape, hR.1, prod_map_filter _ keep Lo hg1]
    congr 1
    exact (List.map_congr_left hg2).symm
  obtain ⟨regs3, T3, hrun3, hsh3, hdata3⟩ := reshapeW_run h _ hprod
  refine ⟨regs3, T3, hrun3, hsh3, ?_⟩
  intro val hP
  have hvo := hPLo val hP
  rw [hdata3, ravel_map_filter _ _ keep Lo (fun a ha hp => ⟨hg1 a ha hp, by rw [hg1 a ha hp]; simp⟩)]
  have e1 : (Lo.filter keep).map pre = lens (Lo.filter keep) := List.map_congr_left hg2
  have e2 : (Lo.filter keep).map (fun a => if pre a = 1 then 0 else val a.name) = idx (Lo.filter keep) val := by
    apply List.map_congr_left
    intro a ha
    rw [hg2 a ha]
    have := hvo a (List.mem_filter.mp ha).1
    by_cases h1 : a.len = 1
    · simp [h1]; omega
    · simp [h1]
  rw [e1, e2]
  exact hR.2 val hP

/-- `classical.broadcast_to(tensor, expr_out.shape)` of a tensor with unit dimensions. -/
theorem bcast_run {inps : List (Tensor Cell)} {s : St} {regs : List (Tensor Cell)} {T : Tensor Cell} {Lo : List Ax}
    {P : (String → Nat) → Prop} {c : (String → Nat) → Cell} (pre : Ax → Nat)
    (h : Run inps s regs T) (hPLo : ∀ val, P val → Bnd val Lo) (hpre : ∀ a ∈ Lo, pre a = a.len ∨ pre a = 1)
    (hR : ReadsP P c T Lo pre) :
    ∃ ext T', Run inps (broadcastW s (lens Lo)) (regs ++ ext) T' ∧ ReadsC P c T' Lo := by
  have hbr : broadcastable s.shape (lens Lo) = true := by
    rw [← h.shape, hR.1]
    simp only [broadcastable, lens, List.length_map, Nat.le_refl, Nat.sub_self, List.drop_zero, List.zip_map',
      List.all_map, decide_true, Bool.true_and, List.all_eq_true, Function.comp]
    intro a ha
    rcases hpre a ha with hb | hb
    · rw [hb]; simp
    · rw [hb]; simp
  obtain ⟨regs4, T4, hrun4, hsh4, hread4⟩ := broadcastW_run h (lens Lo) hbr
  refine ⟨regs4, T4, hrun4, hsh4, ?_⟩
  intro val hP
  apply hread4 _ _ (valid_idx (hPLo val hP))
  rw [hR.1]
  have hbi : broadcastIndex (Lo.map pre) (lens Lo) (idx Lo val)
      = Lo.map (fun a => if pre a = 1 then 0 else val a.name) := by
    simp [broadcastIndex, lens, idx, List.zip_map']
  rw [hbi]
  exact hR.2 val hP

/-- A tensor over all of `Lo` is in particular one "with unit dimensions" for the shape function `len`. -/
theorem ReadsP_of_ReadsC {T : Tensor Cell} {Lo : List Ax} {P : (String → Nat) → Prop} {c : (String → Nat) → Cell}
    (pre : Ax → Nat) (hPLo : ∀ val, P val → Bnd val Lo) (hpre : ∀ a ∈ Lo, pre a = a.len) (hR : ReadsC P c T Lo) :
    ReadsP P c T Lo pre := by
  have e1 : Lo.map pre = lens Lo := List.map_congr_left hpre
  refine ⟨by rw [hR.1, e1], ?_⟩
  intro val hP
  have e2 : Lo.map (fun a => if pre a = 1 then 0 else val a.name) = idx Lo val := by
    apply List.map_congr_left
    intro a ha
    rw [hpre a ha]
    have := hPLo val hP a ha
    by_cases h1 : a.len = 1
    · simp [h1]; omega
    · simp [h1]
  rw [e1, e2]
  exact hR.2 val hP

theorem filter_present_eq_self {sq Lo : List Ax}
    (hbc : ¬ ((names Lo).filter (fun n => !(names sq).contains n)).length > 0) :
    Lo.filter (fun b => (names sq).contains b.name) = Lo := by
  rw [List.filter_eq_self]
  intro a ha
  have hnil : (names Lo).filter (fun n => !(names sq).contains n) = [] := by
    apply List.eq_nil_of_length_eq_zero; omega
  rw [List.filter_eq_nil_iff] at hnil
  have := hnil a.name (List.mem_map.mpr ⟨a, ha, rfl⟩)
  simpa using this

theorem stb_run {inps : List (Tensor Cell)} {s r : St} {regs : List (Tensor Cell)} {T : Tensor Cell} {Lo sq : List Ax}
    {P : (String → Nat) → Prop} {c : (String → Nat) → Cell}
    (h : Run inps s regs T) (hsq : (names sq).Nodup) (hLo : (names Lo).Nodup) (hne : ∀ a ∈ sq, a.len ≠ 1)
    (hPsq : ∀ val, P val → Bnd val sq) (hPLo : ∀ val, P val → Bnd val Lo)
    (hcons : ∀ a ∈ sq, ∀ b ∈ Lo, a.name = b.name → a.len = b.len)
    (hR : ReadsC P c T sq) (hstb : stb s sq Lo = .ok r) :
    (∀ n ∈ names sq, n ∈ names Lo) ∧ ∃ ext T', Run inps r (regs ++ ext) T' ∧ ReadsC P c T' Lo := by
  unfold stb at hstb
  rw [squeezeStep_none s sq Lo hne] at hstb
  cases ht : transposeStep s sq Lo with
  | error e => simp [ht, bind, Except.bind] at hstb
  | ok s2 =>
    simp only [ht, bind, Except.bind, pure, Except.pure, Except.ok.injEq] at hstb
    subst hstb
    obtain ⟨hsub, regs2, T2, hrun2, hR2⟩ := stbT_run h hsq hLo hPsq hcons hR ht
    refine ⟨hsub, ?_⟩
    -- broadcast
    unfold broadcastStep
    simp only []
    split
    · rename_i hbc
      have hbcc := bc_contains sq Lo
      generalize hbcdef : (names Lo).filter (fun n => !(names sq).contains n) = bc at hbc hbcc ⊢
      -- the shape with the missing axes inserted as unit dimensions
      have hg1 : ∀ a ∈ Lo, (names sq).contains a.name = false →
          (if bc.contains a.name then 1 else a.len) = 1 := by
        intro a ha hp
        have : bc.contains a.name = true := by rw [hbcc a ha, hp]; rfl
        rw [if_pos this]
      have hg2 : ∀ a ∈ Lo.filter (fun b => (names sq).contains b.name),
          (if bc.contains a.name then 1 else a.len) = a.len := by
        intro a ha
        have hm := List.mem_filter.mp ha
        have : ¬ (bc.contains a.name = true) := by rw [hbcc a hm.1, hm.2]; simp
        rw [if_neg this]
      obtain ⟨regs3, T3, hrun3, hR3⟩ := unsqueeze_run (fun b => (names sq).contains b.name)
        (fun a => if bc.contains a.name then 1 else a.len) hrun2 hPLo hg1 hg2 hR2
      obtain ⟨regs4, T4, hrun4, hR4⟩ := bcast_run (fun a => if bc.contains a.name then 1 else a.len) hrun3 hPLo
        (fun a _ => by
          by_cases hb : bc.contains a.name = true
          · right; rw [if_pos hb]
          · left; rw [if_neg hb]) hR3
      exact ⟨regs2 ++ (regs3 ++ regs4), T4, hrun4.assoc.assoc, hR4⟩
    · rename_i hbc
      rw [filter_present_eq_self hbc] at hR2
      exact ⟨regs2, T2, hrun2, hR2⟩

/-! ### flattened axes: `_decompose_single` -/

theorem lens_append (a b : List Ax) : lens (a ++ b) = lens a ++ lens b := by simp [lens]

mutual
theorem size_eq_leaves : ∀ g : G, g.size = prod (lens g.leaves)
  | .ax a => by simp [G.size, G.leaves, lens, prod]
  | .grp gs => by simp only [G.size, G.leaves]; exact sizeL_eq_leaves gs
theorem sizeL_eq_leaves : ∀ gs : List G, G.sizeL gs = prod (lens (G.leavesL gs))
  | [] => by simp [G.sizeL, G.leavesL, lens, prod]
  | g :: gs => by
    simp only [G.sizeL, G.leavesL, lens_append, prod_append]
    rw [size_eq_leaves g, sizeL_eq_leaves gs]
end

theorem prod_gShape (e : List G) : prod (gShape e) = G.sizeL e := by
  induction e with
  | nil => rfl
  | cons g e ih => simp only [gShape, List.map_cons, prod, G.sizeL] at *; rw [ih]

theorem prod_gShape_leaves (e : List G) : prod (gShape e) = prod (lens (G.leavesL e)) := by
  rw [prod_gShape, sizeL_eq_leaves]

theorem sizeL_append (a b : List G) : G.sizeL (a ++ b) = G.sizeL a * G.sizeL b := by
  induction a with
  | nil => simp [G.sizeL]
  | cons g a ih => simp [G.sizeL, ih, Nat.mul_assoc]

theorem gLeavesL_append (a b : List G) : G.leavesL (a ++ b) = G.leavesL a ++ G.leavesL b := by
  induction a with
  | nil => simp [G.leavesL]
  | cons g a ih => simp [G.leavesL, ih]

theorem unflatten1_cons (g : G) (e : List G) :
    unflatten1 (g :: e) = (match g with | .grp gs => gs | .ax a => [.ax a]) ++ unflatten1 e := by
  cases g <;> simp [unflatten1, List.flatMap_cons]

theorem sizeL_unflatten1 (e : List G) : G.sizeL (unflatten1 e) = G.sizeL e := by
  induction e with
  | nil => rfl
  | cons g e ih =>
    rw [unflatten1_cons, sizeL_append, ih]
    cases g <;> simp [G.sizeL, G.size]

theorem leavesL_unflatten1 (e : List G) : G.leavesL (unflatten1 e) = G.leavesL e := by
  induction e with
  | nil => rfl
  | cons g e ih =>
    rw [unflatten1_cons, gLeavesL_append, ih]
    cases g <;> simp [G.leavesL, G.leaves]

theorem decompose_run {inps : List (Tensor Cell)} : ∀ (fuel : Nat) (s : St) (e : List G) (regs : List (Tensor Cell))
    (T : Tensor Cell), Run inps s regs T → s.shape = gShape e →
    ∃ ext T', Run inps (decompose fuel s e).1 (regs ++ ext) T' ∧ T'.data = T.data ∧
      (decompose fuel s e).1.shape = gShape (decompose fuel s e).2 ∧
      G.leavesL (decompose fuel s e).2 = G.leavesL e
  | 0, s, e, regs, T, h, hs => ⟨[], T, by rw [List.append_nil]; exact h, rfl, hs, rfl⟩
  | fuel + 1, s, e, regs, T, h, hs => by
    unfold decompose
    split
    · obtain ⟨regs1, T1, hrun1, _, hd1⟩ := reshapeW_run h (gShape (unflatten1 e))
        (by rw [hs, prod_gShape, prod_gShape, sizeL_unflatten1])
      obtain ⟨regs2, T2, hrun2, hd2, hsh2, hl2⟩ :=
        decompose_run fuel _ (unflatten1 e) (regs ++ regs1) T1 hrun1 (reshapeW_shape _ _)
      exact ⟨regs1 ++ regs2, T2, hrun2.assoc, by rw [hd2, hd1], hsh2, by rw [hl2, leavesL_unflatten1]⟩
    · exact ⟨[], T, by rw [List.append_nil]; exact h, rfl, hs, rfl⟩

/-! ### the whole `id` pipeline -/

theorem symInput_run (shape : List Nat) :
    Run [symInput 0 shape] { reg := 0, shape := shape, prog := [], next := 1 } [symInput 0 shape] (symInput 0 shape) where
  ev := rfl
  next := rfl
  reg := rfl
  shape := rfl
  len := by simp [symInput]

theorem lowerId_unfold (ein eout : List G) (hnd : noDup (names (G.leavesL ein)) = true) :
    lowerId ein eout =
      (stb (reshapeW (decompose (G.depthL ein) { reg := 0, shape := gShape ein, prog := [], next := 1 } ein).1
            (lens ((G.leavesL (decompose (G.depthL ein) { reg := 0, shape := gShape ein, prog := [], next := 1 } ein).2).filter
              (fun a => !(a.len == 1)))))
          ((G.leavesL (decompose (G.depthL ein) { reg := 0, shape := gShape ein, prog := [], next := 1 } ein).2).filter
              (fun a => !(a.len == 1)))
          (G.leavesL eout)).map (fun s3 => reshapeW s3 (gShape eout)) := by
  unfold lowerId
  simp only [hnd, Bool.not_true, Bool.false_eq_true, if_false]
  generalize decompose (G.depthL ein) { reg := 0, shape := gShape ein, prog := [], next := 1 } ein = d
  obtain ⟨s1, e1⟩ := d
  simp only []
  cases stb (reshapeW s1 (lens (List.filter (fun a => !(a.len == 1)) (G.leavesL e1))))
    (List.filter (fun a => !(a.len == 1)) (G.leavesL e1)) (G.leavesL eout) <;> rfl

/-- **The lowering side.**  If `lowerId` succeeds (output names without repetition, lengths consistent between
input and output), its program runs on the symbolic input, and the result register holds, at the flat
position that a valuation of the axis names addresses through the output's leaf axes, the input element that
the valuation addresses through the input's leaf axes. -/
theorem lowerId_run {ein eout : List G} {s : St}
    (hout : (names (G.leavesL eout)).Nodup)
    (hcons : ∀ a ∈ G.leavesL ein, ∀ b ∈ G.leavesL eout, a.name = b.name → a.len = b.len)
    (h : lowerId ein eout = .ok s) :
    (names (G.leavesL ein)).Nodup ∧ (∀ a ∈ G.leavesL ein, a.len ≠ 1 → a.name ∈ names (G.leavesL eout)) ∧
    ∃ regs T, evalProg symAlg s.prog [symInput 0 (gShape ein)] = .ok regs ∧ regs[s.reg]? = some T ∧
      T.shape = gShape eout ∧ T.data.length = prod (gShape eout) ∧
      ∀ val, Bnd val (G.leavesL ein) → Bnd val (G.leavesL eout) →
        T.data[ravel (lens (G.leavesL eout)) (idx (G.leavesL eout) val)]?
          = some (.src 0 (ravel (lens (G.leavesL ein)) (idx (G.leavesL ein) val))) := by
  have hnd : noDup (names (G.leavesL ein)) = true := by
    by_cases hnd : noDup (names (G.leavesL ein)) = true
    · exact hnd
    · unfold lowerId at h
      simp [hnd, throw, throwThe, MonadExceptOf.throw, bind, Except.bind] at h
  have hin := (noDup_iff _).mp hnd
  refine ⟨hin, ?_⟩
  rw [lowerId_unfold ein eout hnd] at h
  obtain ⟨regs1, T1, hrun1, hd1, hsh1, hl1⟩ :=
    decompose_run (G.depthL ein) _ ein _ _ (symInput_run (gShape ein)) rfl
  generalize decompose (G.depthL ein) { reg := 0, shape := gShape ein, prog := [], next := 1 } ein = d at *
  obtain ⟨s1, e1⟩ := d
  simp only [] at *
  rw [hl1] at h
  generalize hsqdef : (G.leavesL ein).filter (fun a => !(a.len == 1)) = sq at h
  have hsqmem : ∀ a ∈ sq, a ∈ G.leavesL ein ∧ a.len ≠ 1 := by
    intro a ha
    rw [← hsqdef] at ha
    have := List.mem_filter.mp ha
    exact ⟨this.1, by simpa using this.2⟩
  -- removal of the unit axes
  have hprod : prod s1.shape = prod (lens sq) := by
    rw [hsh1, prod_gShape_leaves, hl1, ← hsqdef]
    exact prod_map_filter _ _ _ (fun a _ hp => by simpa using hp)
  obtain ⟨regs2, T2, hrun2, hsh2, hd2⟩ := reshapeW_run hrun1 (lens sq) hprod
  have hR2 : Reads (G.leavesL ein) (G.leavesL eout) T2 sq := by
    refine ⟨hsh2, ?_⟩
    intro val hP
    have hvi := hP.1
    have hrv : ravel (lens sq) (idx sq val) = ravel (lens (G.leavesL ein)) (idx (G.leavesL ein) val) := by
      rw [← hsqdef]
      exact (ravel_map_filter _ _ _ _ (fun a ha hp => by
        have h1 : a.len = 1 := by simpa using hp
        have := hvi a ha
        exact ⟨h1, by omega⟩)).symm
    rw [hrv, hd2, hd1]
    have hlt := ravel_lt (valid_idx hvi)
    rw [← prod_gShape_leaves] at hlt
    simp [symInput, List.getElem?_range hlt, hlt]
  cases hstb : stb (reshapeW s1 (lens sq)) sq (G.leavesL eout) with
  | error e => simp [hstb, Except.map] at h
  | ok s3 =>
    simp only [hstb, Except.map, Except.ok.injEq] at h
    subst h
    have hsqnd : (names sq).Nodup := by
      rw [← hsqdef]
      have := names_filter (G.leavesL ein) (fun _ => true)
      simp only [names, List.filter_map] at hin ⊢
      exact List.Pairwise.sublist (List.Sublist.map _ List.filter_sublist) hin
    obtain ⟨hsub, regs3, T3, hrun3, hR3⟩ := stb_run hrun2 hsqnd hout (fun a ha => (hsqmem a ha).2)
      (fun val hP a ha => hP.1 a (hsqmem a ha).1) (fun val hP => hP.2)
      (fun a ha b hb hn => hcons a (hsqmem a ha).1 b hb hn) hR2 hstb
    obtain ⟨regs4, T4, hrun4, hsh4, hd4⟩ := reshapeW_run hrun3 (gShape eout)
      (by rw [← hrun3.shape, hR3.1, prod_gShape_leaves])
    refine ⟨?_, _, T4, hrun4.ev, hrun4.reg, hsh4, by rw [hrun4.len, hsh4], ?_⟩
    · intro a ha hne
      apply hsub
      rw [← hsqdef]
      exact List.mem_map.mpr ⟨a, List.mem_filter.mpr ⟨ha, by simpa using hne⟩, rfl⟩
    intro val hvi hvo
    rw [hd4]
    exact hR3.2 val ⟨hvi, hvo⟩

/-! ### the denotation side: dimensions, shapes, leaves of the converted expressions -/

def toLeaf (a : Ax) : Leaf := ⟨a.name, a.len, false⟩

mutual
def toDim : G → Dim
  | .ax a => .axis (toLeaf a)
  | .grp gs => .flat (toDimL gs)
def toDimL : List G → List Dim
  | [] => []
  | g :: gs => toDim g :: toDimL gs
end

mutual
theorem dims_toExpr : ∀ g : G, dims false (toExpr g) = [toDim g]
  | .ax a => by simp [toExpr, dims, toDim, toLeaf]
  | .grp gs => by simp only [toExpr, dims, toDim]; rw [dimsL_toExprL gs]
theorem dimsL_toExprL : ∀ gs : List G, dimsL false (toExprL gs) = toDimL gs
  | [] => by simp [toExprL, dimsL, toDimL]
  | g :: gs => by simp only [toExprL, dimsL, toDimL, dims_toExpr g, dimsL_toExprL gs]; rfl
end

theorem rootDims_rootExpr (e : List G) : rootDims (rootExpr e) = toDimL e := by
  simp only [rootDims, rootExpr, dims]; exact dimsL_toExprL e

mutual
theorem size_toDim : ∀ g : G, (toDim g).size = g.size
  | .ax a => by simp [toDim, Dim.size, toLeaf, G.size]
  | .grp gs => by simp only [toDim, Dim.size, G.size]; exact sizeProd_toDimL gs
theorem sizeProd_toDimL : ∀ gs : List G, Dim.sizeProd (toDimL gs) = G.sizeL gs
  | [] => by simp [toDimL, Dim.sizeProd, G.sizeL]
  | g :: gs => by simp only [toDimL, Dim.sizeProd, G.sizeL, size_toDim g, sizeProd_toDimL gs]
end

theorem viewShape_toDimL (e : List G) : viewShape (toDimL e) = gShape e := by
  induction e with
  | nil => rfl
  | cons g e ih => simp only [toDimL, viewShape, gShape, List.map_cons, size_toDim] at *; rw [ih]

theorem shapeOf_rootExpr (e : List G) : shapeOf (rootExpr e) = gShape e := by
  rw [shapeOf_eq, rootDims_rootExpr, viewShape_toDimL]

mutual
theorem leaves_toDim : ∀ g : G, (toDim g).leaves = g.leaves.map toLeaf
  | .ax a => by simp [toDim, Dim.leaves, G.leaves]
  | .grp gs => by simp only [toDim, Dim.leaves, G.leaves]; exact leavesL_toDimL gs
theorem leavesL_toDimL : ∀ gs : List G, Dim.leavesL (toDimL gs) = (G.leavesL gs).map toLeaf
  | [] => by simp [toDimL, Dim.leavesL, G.leavesL]
  | g :: gs => by simp only [toDimL, Dim.leavesL, G.leavesL, leaves_toDim g, leavesL_toDimL gs, List.map_append]
end

mutual
theorem concatFree_toExpr : ∀ g : G, (toExpr g).concatFree = true
  | .ax a => by simp [toExpr, Expr.concatFree]
  | .grp gs => by simp only [toExpr, Expr.concatFree]; exact concatFreeL_toExprL gs
theorem concatFreeL_toExprL : ∀ gs : List G, Expr.concatFreeL (toExprL gs) = true
  | [] => by simp [toExprL, Expr.concatFreeL]
  | g :: gs => by simp only [toExprL, Expr.concatFreeL, concatFree_toExpr g, concatFreeL_toExprL gs, Bool.and_self]
end

theorem concatFree_rootExpr (e : List G) : (rootExpr e).concatFree = true := by
  simp only [rootExpr, Expr.concatFree]; exact concatFreeL_toExprL e

/-! ### positions of the converted dimensions: parentheses are row-major ravel of the leaves -/

theorem idx_append (a b : List Ax) (val : String → Nat) : idx (a ++ b) val = idx a val ++ idx b val := by
  simp [idx]

mutual
theorem pos_toDim (σ : Assign) (val : String → Nat) : ∀ g : G,
    (∀ a ∈ g.leaves, Assign.get σ a.name = some (val a.name)) →
    (toDim g).pos σ = some (ravel (lens g.leaves) (idx g.leaves val))
  | .ax a, h => by
    have := h a (by simp [G.leaves])
    simp [toDim, Dim.pos, toLeaf, this, G.leaves, lens, idx, ravel, prod]
  | .grp gs, h => by
    obtain ⟨ps, hps, _, hr⟩ := posL_toDimL σ val gs (by simpa [G.leaves] using h)
    rw [toDim, pos_flat, position_eq, hps]
    simp only [Option.map_some, viewShape_toDimL, hr, G.leaves]
theorem posL_toDimL (σ : Assign) (val : String → Nat) : ∀ gs : List G,
    (∀ a ∈ G.leavesL gs, Assign.get σ a.name = some (val a.name)) →
    ∃ ps, mapOpt (Dim.pos σ) (toDimL gs) = some ps ∧ ps.length = gs.length ∧
      ravel (gShape gs) ps = ravel (lens (G.leavesL gs)) (idx (G.leavesL gs) val)
  | [], _ => ⟨[], rfl, rfl, rfl⟩
  | g :: gs, h => by
    have h1 := pos_toDim σ val g (fun a ha => h a (by simp [G.leavesL, ha]))
    obtain ⟨ps, hps, hlen, hr⟩ := posL_toDimL σ val gs (fun a ha => h a (by simp [G.leavesL, ha]))
    refine ⟨ravel (lens g.leaves) (idx g.leaves val) :: ps, by simp [toDimL, mapOpt, h1, hps], by simp [hlen], ?_⟩
    simp only [gShape, List.map_cons, ravel, G.leavesL, lens_append, idx_append]
    rw [ravel_append_len _ _ _ _ (by simp [idx, lens]), ← prod_gShape_leaves]
    simp only [gShape] at hr ⊢
    rw [hr]
end

/-! ### assignments -/

theorem get_append_single (σ : Assign) (m : String) (v : Nat) (n : String) :
    Assign.get (σ ++ [(m, v)]) n = match Assign.get σ n with
      | some x => some x
      | none => if m = n then some v else none := by
  induction σ with
  | nil => simp [get_cons, get_nil]
  | cons p σ ih =>
    rw [List.cons_append, get_cons, get_cons]
    by_cases h : p.1 = n
    · simp [h]
    · simp [h, ih]

theorem get_some_mem {σ : Assign} {n : String} {x : Nat} (h : Assign.get σ n = some x) : n ∈ σ.map (·.1) := by
  induction σ with
  | nil => simp [get_nil] at h
  | cons p σ ih =>
    rw [get_cons] at h
    by_cases hp : p.1 = n
    · simp [hp]
    · simp only [hp, if_false] at h
      exact List.mem_cons_of_mem _ (ih h)

/-- `extend` succeeds when every unassigned leaf has length 1; it keeps what is assigned and gives 0 to the
new names. -/
theorem extend_ok : ∀ (ls : List Leaf) (σ : Assign), (∀ l ∈ ls, Assign.get σ l.name = none → l.size = 1) →
    ∃ σ', extend σ ls = some σ' ∧ (∀ n x, Assign.get σ n = some x → Assign.get σ' n = some x) ∧
      (∀ l ∈ ls, ∃ x, Assign.get σ' l.name = some x ∧ (Assign.get σ l.name = none → x = 0))
  | [], σ, _ => ⟨σ, rfl, fun _ _ h => h, fun _ h => by simp at h⟩
  | l :: ls, σ, hs => by
    rw [extend_cons]
    cases hg : Assign.get σ l.name with
    | some x =>
      obtain ⟨σ', he, hp, hl⟩ := extend_ok ls σ (fun l' hl' => hs l' (List.mem_cons_of_mem _ hl'))
      refine ⟨σ', he, hp, ?_⟩
      intro l' hl'
      rcases List.mem_cons.mp hl' with rfl | h
      · exact ⟨x, hp _ _ hg, fun hn => by rw [hg] at hn; cases hn⟩
      · exact hl l' h
    | none =>
      have h1 : l.size = 1 := hs l (List.mem_cons_self ..) hg
      have hmono : ∀ n, Assign.get (σ ++ [(l.name, 0)]) n = none → Assign.get σ n = none := by
        intro n hn
        rw [get_append_single] at hn
        cases hσ : Assign.get σ n with
        | none => rfl
        | some y => simp [hσ] at hn
      obtain ⟨σ', he, hp, hl⟩ := extend_ok ls (σ ++ [(l.name, 0)])
        (fun l' hl' hn => hs l' (List.mem_cons_of_mem _ hl') (hmono _ hn))
      have hnew : Assign.get (σ ++ [(l.name, 0)]) l.name = some 0 := by
        rw [get_append_single, hg]; simp
      refine ⟨σ', by simp [h1, he], ?_, ?_⟩
      · intro n x hx
        apply hp
        rw [get_append_single, hx]
      · intro l' hl'
        rcases List.mem_cons.mp hl' with rfl | h
        · exact ⟨0, hp _ _ hnew, fun _ => rfl⟩
        · obtain ⟨x, hx, h0⟩ := hl l' h
          refine ⟨x, hx, ?_⟩
          intro hn
          by_cases hnm : l.name = l'.name
          · have hnew' : Assign.get (σ ++ [(l.name, 0)]) l'.name = some 0 := by rw [← hnm]; exact hnew
            have := hp _ _ hnew'
            rw [hx] at this
            exact Option.some.inj this
          · apply h0
            rw [get_append_single, hn]; simp [hnm]

/-- Looking up the names of a repetition-free axis list in the zipped assignment gives the values in order. -/
theorem zip_get : ∀ (L : List Ax) (v : List Nat), (names L).Nodup → v.length = L.length →
    L.map (fun a => Assign.get ((names L).zip v) a.name) = v.map some
  | [], [], _, _ => rfl
  | [], _ :: _, _, h => by simp at h
  | _ :: _, [], _, h => by simp at h
  | a :: L, x :: v, hn, hl => by
    simp only [names, List.map_cons, List.nodup_cons] at hn
    have ih := zip_get L v hn.2 (by simpa using hl)
    simp only [names, List.map_cons, List.zip_cons_cons, get_cons, if_true, List.cons.injEq, true_and]
    rw [← ih]
    apply List.map_congr_left
    intro b hb
    have : ¬ a.name = b.name := fun e => hn.1 (e ▸ List.mem_map.mpr ⟨b, hb, rfl⟩)
    simp [this, names]

theorem bnd_of_valid {val : String → Nat} : ∀ {L : List Ax}, Valid (lens L) (idx L val) → Bnd val L
  | [], _ => fun _ h => by simp at h
  | a :: L, h => by
    cases h with
    | cons hi hv =>
      intro b hb
      rcases List.mem_cons.mp hb with rfl | hb'
      · exact hi
      · exact bnd_of_valid hv b hb'

theorem axesFold_nodup : ∀ (L : List Ax) (acc : List (String × Nat)),
    (∀ a ∈ L, ∀ q ∈ acc, q.1 ≠ a.name) → (names L).Nodup →
    (L.map toLeaf).foldl axesStep acc = acc ++ L.map (fun a => (a.name, a.len))
  | [], acc, _, _ => by simp
  | a :: L, acc, hd, hn => by
    simp only [names, List.map_cons, List.nodup_cons] at hn
    have hany : acc.any (fun q => q.1 == (toLeaf a).name) = false := by
      rw [Bool.eq_false_iff]
      intro h
      obtain ⟨q, hq, he⟩ := List.any_eq_true.mp h
      exact hd a (List.mem_cons_self ..) q hq (by simpa [toLeaf] using he)
    simp only [List.map_cons, List.foldl_cons, axesStep, hany, Bool.false_eq_true, if_false]
    rw [axesFold_nodup L _ ?_ hn.2]
    · simp [toLeaf]
    · intro b hb q hq
      rcases List.mem_append.mp hq with h | h
      · exact hd b (List.mem_cons_of_mem _ hb) q h
      · simp only [List.mem_singleton] at h
        subst h
        intro e
        have e' : a.name = b.name := e
        exact hn.1 (e' ▸ List.mem_map.mpr ⟨b, hb, rfl⟩)

theorem axesOf_nodup (L : List Ax) (h : (names L).Nodup) :
    axesOf (L.map toLeaf) = L.map (fun a => (a.name, a.len)) := by
  rw [axesOf_eq, axesFold_nodup L [] (fun _ _ _ hq => by simp at hq) h]; simp

theorem assignments_eq (axes : List (String × Nat)) :
    assignments axes = (Einx.Update.assignments (axes.map (·.2))).map (fun v => (axes.map (·.1)).zip v) := by
  induction axes with
  | nil => rfl
  | cons a axes ih =>
    obtain ⟨n, s⟩ := a
    simp only [assignments, List.map_cons, Einx.Update.assignments, ih, List.map_flatMap, List.map_map]
    congr 1

theorem uassignments_eq (s : List Nat) : Einx.Update.assignments s = (List.range (prod s)).map (unravel s) := by
  rw [← Einx.Update.assignments_map_ravel s, List.map_map]
  conv => lhs; rw [← List.map_id (Einx.Update.assignments s)]
  apply List.map_congr_left
  intro σ hσ
  simp [Function.comp, unravel_ravel (Einx.Update.mem_assignments_iff_valid.mp hσ)]

/-- The iteration space of a repetition-free output: the `k`-th assignment gives the output's leaf axes the
multi-index `unravel k`. -/
theorem outAssignments_toDimL (e : List G) (h : (names (G.leavesL e)).Nodup) :
    outAssignments (toDimL e) = (List.range (prod (lens (G.leavesL e)))).map
      (fun k => (names (G.leavesL e)).zip (unravel (lens (G.leavesL e)) k)) := by
  rw [outAssignments, leavesL_toDimL, axesOf_nodup _ h, assignments_eq, uassignments_eq]
  simp [List.map_map, Function.comp_def, names, lens]

/-! ### scatter -/

theorem scatterFold_set (entries : List (Nat × Cell)) : ∀ (init : List (Option Cell)) (k : Nat) (c : Cell),
    k < init.length → (∀ e ∈ entries, e.1 = k → e.2 = c) →
    (init[k]? = some (some c) ∨ ∃ e ∈ entries, e.1 = k) →
    (entries.foldl (fun acc e => acc.set e.1 (some e.2)) init)[k]? = some (some c) := by
  induction entries with
  | nil =>
    intro init k c _ _ h
    rcases h with h | ⟨e, he, _⟩
    · exact h
    · simp at he
  | cons e es ih =>
    intro init k c hk hall h
    simp only [List.foldl_cons]
    apply ih _ k c (by simpa using hk) (fun e' he' => hall e' (List.mem_cons_of_mem _ he'))
    by_cases hek : e.1 = k
    · left
      rw [List.getElem?_set, if_pos hek, if_pos (by rw [hek]; exact hk), hall e (List.mem_cons_self ..) hek]
    · rcases h with h | ⟨e', he', hk'⟩
      · left; rw [List.getElem?_set, if_neg hek]; exact h
      · right
        rcases List.mem_cons.mp he' with rfl | h'
        · exact absurd hk' hek
        · exact ⟨e', h', hk'⟩

theorem gatherAll_range (n : Nat) (c : Nat → Cell) :
    gatherAll n ((List.range n).map (fun k => (k, c k))) = some ((List.range n).map c) := by
  unfold gatherAll
  rw [mapOpt_eq_some_iff]
  apply List.ext_getElem?
  intro k
  simp only [List.map_id, List.getElem?_map]
  by_cases hk : k < n
  · rw [List.getElem?_range hk]
    simp only [Option.map_some]
    apply scatterFold_set _ _ k (c k) (by simpa using hk)
    · intro e he hek
      obtain ⟨j, _, rfl⟩ := List.mem_map.mp he
      simp only at hek
      simp [hek]
    · right
      exact ⟨(k, c k), List.mem_map.mpr ⟨k, List.mem_range.mpr hk, rfl⟩, rfl⟩
  · have h1 : (scatter n ((List.range n).map (fun k => (k, c k)))).length ≤ k := by
      rw [scatter, scatterFold_length]; simp; omega
    rw [List.getElem?_eq_none h1, List.getElem?_eq_none (by simp; omega)]
    rfl

/-! ### the denotation of `id`, entry by entry -/

/-- What `Denote.idEntry` writes for the `k`-th assignment of the iteration space: flat output position `k`,
and the input element addressed by a valuation that addresses `k` through the output's leaf axes. -/
theorem idEntry_lower {ein eout : List G} (hout : (names (G.leavesL eout)).Nodup)
    (hcons : ∀ a ∈ G.leavesL ein, ∀ b ∈ G.leavesL eout, a.name = b.name → a.len = b.len)
    (hsub : ∀ a ∈ G.leavesL ein, a.len ≠ 1 → a.name ∈ names (G.leavesL eout))
    (k : Nat) (hk : k < prod (lens (G.leavesL eout))) :
    ∃ val, Bnd val (G.leavesL ein) ∧ Bnd val (G.leavesL eout) ∧
      ravel (lens (G.leavesL eout)) (idx (G.leavesL eout) val) = k ∧
      idEntry (toDimL ein) (gShape ein) 0 (toDimL eout) (gShape eout)
          ((names (G.leavesL eout)).zip (unravel (lens (G.leavesL eout)) k))
        = some (k, .src 0 (ravel (lens (G.leavesL ein)) (idx (G.leavesL ein) val))) := by
  generalize hLo : G.leavesL eout = Lo at *
  generalize hLi : G.leavesL ein = Li at *
  have hv : Valid (lens Lo) (unravel (lens Lo) k) := unravel_valid _ _ hk
  have hvl : (unravel (lens Lo) k).length = Lo.length := by rw [valid_length hv]; simp [lens]
  generalize hσ : (names Lo).zip (unravel (lens Lo) k) = σ
  have hzip := zip_get Lo _ hout hvl
  rw [hσ] at hzip
  -- every output axis is assigned
  have hLoget : ∀ b ∈ Lo, ∃ x, Assign.get σ b.name = some x := by
    intro b hb
    have : Assign.get σ b.name ∈ Lo.map (fun a => Assign.get σ a.name) := List.mem_map.mpr ⟨b, hb, rfl⟩
    rw [hzip] at this
    obtain ⟨x, _, hx⟩ := List.mem_map.mp this
    exact ⟨x, hx.symm⟩
  have hunit : ∀ a ∈ Li, Assign.get σ a.name = none → a.len = 1 := by
    intro a ha hn
    apply Classical.byContradiction
    intro hne
    obtain ⟨b, hb, hbn⟩ := List.mem_map.mp (hsub a ha hne)
    obtain ⟨x, hx⟩ := hLoget b hb
    rw [hbn, hn] at hx
    cases hx
  obtain ⟨σ', hext, hpres, hnew⟩ := extend_ok (Li.map toLeaf) σ (by
    intro l hl hn
    obtain ⟨a, ha, rfl⟩ := List.mem_map.mp hl
    exact hunit a ha hn)
  obtain ⟨val, hvaldef⟩ : ∃ val : String → Nat, ∀ n, val n = (Assign.get σ' n).getD 0 := ⟨_, fun _ => rfl⟩
  have hLoval : ∀ b ∈ Lo, Assign.get σ b.name = some (val b.name) := by
    intro b hb
    obtain ⟨x, hx⟩ := hLoget b hb
    rw [hvaldef, hpres _ _ hx, hx]; rfl
  have hidx : idx Lo val = unravel (lens Lo) k := by
    have : Lo.map (fun a => Assign.get σ a.name) = (idx Lo val).map some := by
      simp only [idx, List.map_map]
      apply List.map_congr_left
      intro b hb
      simp [hLoval b hb]
    rw [this] at hzip
    exact (List.map_inj_right (fun x y h => Option.some.inj h)).mp hzip
  have hbo : Bnd val Lo := bnd_of_valid (by rw [hidx]; exact hv)
  have hLival : ∀ a ∈ Li, Assign.get σ' a.name = some (val a.name) := by
    intro a ha
    obtain ⟨x, hx, _⟩ := hnew (toLeaf a) (List.mem_map.mpr ⟨a, ha, rfl⟩)
    have hx' : Assign.get σ' a.name = some x := hx
    rw [hvaldef, hx']; rfl
  have hbi : Bnd val Li := by
    intro a ha
    obtain ⟨x, hx, h0⟩ := hnew (toLeaf a) (List.mem_map.mpr ⟨a, ha, rfl⟩)
    have hx' : Assign.get σ' a.name = some x := hx
    have hvx : val a.name = x := by rw [hvaldef, hx']; rfl
    cases hg : Assign.get σ a.name with
    | none =>
      have h1 := hunit a ha hg
      have h2 : x = 0 := h0 hg
      rw [hvx, h2, h1]; exact Nat.one_pos
    | some y =>
      have hmem := get_some_mem hg
      rw [← hσ] at hmem
      have hmem' : a.name ∈ names Lo := by
        have hl : ((names Lo).zip (unravel (lens Lo) k)).map (·.1) = names Lo := by
          rw [List.map_fst_zip]; rw [hvl]; simp [names]
        rw [hl] at hmem; exact hmem
      obtain ⟨b, hb, hbn⟩ := List.mem_map.mp hmem'
      have := hbo b hb
      rw [hbn] at this
      rw [hcons a ha b hb hbn.symm]; exact this
  refine ⟨val, hbi, hbo, by rw [hidx]; exact ravel_unravel _ _ hk, ?_⟩
  · have hrk : ravel (lens Lo) (idx Lo val) = k := by rw [hidx]; exact ravel_unravel _ _ hk
    obtain ⟨po, hpo, _, hro⟩ := posL_toDimL σ val eout (by rw [hLo]; exact hLoval)
    obtain ⟨pi, hpi, _, hri⟩ := posL_toDimL σ' val ein (by rw [hLi]; exact hLival)
    rw [hLo] at hro
    rw [hLi] at hri
    simp only [idEntry, leavesL_toDimL, hLi, hext, flatPos, cellAt, position_eq, hpo, hpi, Option.map_some, hro, hri,
      hrk]

/-- **The denotation side.**  For a repetition-free output (and lengths consistent between input and output,
every non-unit input axis named in the output) the `id` denotation is defined; its `k`-th cell is the input
element addressed by a valuation that addresses `k` through the output's leaf axes. -/
theorem idCells_lower {ein eout : List G} (hout : (names (G.leavesL eout)).Nodup)
    (hcons : ∀ a ∈ G.leavesL ein, ∀ b ∈ G.leavesL eout, a.name = b.name → a.len = b.len)
    (hsub : ∀ a ∈ G.leavesL ein, a.len ≠ 1 → a.name ∈ names (G.leavesL eout)) :
    ∃ cs, idCells (toDimL ein) (gShape ein) 0 (toDimL eout) (gShape eout) = some cs ∧
      cs.length = prod (gShape eout) ∧
      ∀ k, k < prod (gShape eout) → ∃ val, Bnd val (G.leavesL ein) ∧ Bnd val (G.leavesL eout) ∧
        ravel (lens (G.leavesL eout)) (idx (G.leavesL eout) val) = k ∧
        cs[k]? = some (.src 0 (ravel (lens (G.leavesL ein)) (idx (G.leavesL ein) val))) := by
  have hn : prod (gShape eout) = prod (lens (G.leavesL eout)) := prod_gShape_leaves eout
  let f := idEntry (toDimL ein) (gShape ein) 0 (toDimL eout) (gShape eout)
  let σof := fun k => (names (G.leavesL eout)).zip (unravel (lens (G.leavesL eout)) k)
  let c : Nat → Cell := fun k => match f (σof k) with
    | some e => e.2
    | none => .bad
  have hpt : ∀ k, k < prod (lens (G.leavesL eout)) → f (σof k) = some (k, c k) := by
    intro k hk
    obtain ⟨val, _, _, _, he⟩ := idEntry_lower hout hcons hsub k hk
    have he' : f (σof k) = some (k, .src 0 (ravel (lens (G.leavesL ein)) (idx (G.leavesL ein) val))) := he
    simp only [c, he']
  have hentries : idEntries (toDimL ein) (gShape ein) 0 (toDimL eout) (gShape eout)
      = some ((List.range (prod (gShape eout))).map (fun k => (k, c k))) := by
    rw [idEntries, outAssignments_toDimL eout hout, mapOpt_eq_some_iff, hn, List.map_map, List.map_map]
    apply List.map_congr_left
    intro k hk
    exact hpt k (List.mem_range.mp hk)
  refine ⟨(List.range (prod (gShape eout))).map c, ?_, by simp, ?_⟩
  · rw [idCells, hentries]
    exact gatherAll_range _ c
  · intro k hk
    obtain ⟨val, hbi, hbo, hr, he⟩ := idEntry_lower hout hcons hsub k (hn ▸ hk)
    refine ⟨val, hbi, hbo, hr, ?_⟩
    have he' : f (σof k) = some (k, .src 0 (ravel (lens (G.leavesL ein)) (idx (G.leavesL ein) val))) := he
    rw [List.getElem?_map, List.getElem?_range hk]
    simp only [Option.map_some, c, he']

/-! ### both sides together -/

theorem consistentLens_spec {Li Lo : List Ax} (h : consistentLens Li Lo = true) :
    ∀ a ∈ Li, ∀ b ∈ Lo, a.name = b.name → a.len = b.len := by
  intro a ha b hb hn
  simp only [consistentLens, List.all_eq_true, Bool.or_eq_true, bne_iff_ne, ne_eq, beq_iff_eq] at h
  rcases h a ha b hb with h | h
  · exact absurd hn h
  · exact h

/-- The register that `lowerId`'s program computes from the symbolic input holds exactly the cells of the
loop-notation denotation. -/
theorem lower_core {gi go : List G} {s : St}
    (hout : noDup (names (G.leavesL go)) = true)
    (hcons : consistentLens (G.leavesL gi) (G.leavesL go) = true)
    (h : lowerId gi go = .ok s) :
    ∃ regs cs, evalProg symAlg s.prog [symInput 0 (gShape gi)] = .ok regs ∧
      regs[s.reg]? = some ⟨gShape go, cs⟩ ∧
      idCells (toDimL gi) (gShape gi) 0 (toDimL go) (gShape go) = some cs := by
  have hout' := (noDup_iff _).mp hout
  have hcons' := consistentLens_spec hcons
  obtain ⟨_, hsub, regs, T, hev, hreg, hsh, hlen, hread⟩ := lowerId_run hout' hcons' h
  obtain ⟨cs, hcs, hcl, hpt⟩ := idCells_lower hout' hcons' hsub
  refine ⟨regs, cs, hev, ?_, hcs⟩
  have hd : T.data = cs := by
    apply List.ext_getElem?
    intro k
    by_cases hk : k < prod (gShape go)
    · obtain ⟨val, hbi, hbo, hr, hc⟩ := hpt k hk
      have := hread val hbi hbo
      rw [hr] at this
      rw [this, hc]
    · rw [List.getElem?_eq_none (by omega), List.getElem?_eq_none (by omega)]
  rw [hreg]
  cases T
  simp only at hsh hd
  rw [hsh, hd]

mutual
theorem Cell.beq_refl : ∀ c : Cell, Cell.beq c c = true
  | .src r k => by simp [Cell.beq]
  | .lit i => by simp [Cell.beq]
  | .app f as => by simp [Cell.beq, Cell.beqL_refl as]
  | .bad => rfl
theorem Cell.beqL_refl : ∀ cs : List Cell, Cell.beqL cs cs = true
  | [] => rfl
  | c :: cs => by simp [Cell.beqL, Cell.beq_refl c, Cell.beqL_refl cs]
end

theorem tensorsBeq_refl : ∀ ts : List (Tensor Cell), tensorsBeq ts ts = true
  | [] => rfl
  | t :: ts => by simp [tensorsBeq, Tensor.beq, Cell.beqL_refl, tensorsBeq_refl ts]

theorem symRun_single {prog : List Instr} {shape : List Nat} {regs : List (Tensor Cell)} {r : Nat} {T : Tensor Cell}
    (hev : evalProg symAlg prog [symInput 0 shape] = .ok regs) (hr : regs[r]? = some T) :
    symRun prog [shape] [r] = .ok [T] := by
  have : symInputs [shape] = [symInput 0 shape] := rfl
  simp [symRun, this, hev, bind, Except.bind, selectRegs, hr, pure, Except.pure]

theorem denoteId_of_idCells {e1 e2 : Expr} (h1 : e1.concatFree = true) (h2 : e2.concatFree = true) {cs : List Cell}
    (h : idCells (rootDims e1) (shapeOf e1) 0 (rootDims e2) (shapeOf e2) = some cs) :
    denoteId [e1] [e2] = .ok [⟨shapeOf e2, cs⟩] := by
  have := denoteId_eq_denoteIdFun e1 e2 h1 h2
  rw [okOpt_denoteIdFun_single e1 e2 h1 h2, h] at this
  cases hd : denoteId [e1] [e2] with
  | error e => simp [hd, okOpt] at this
  | ok ts => simpa [hd, okOpt] using this

end Einx.Lower
