import EinxModel.Proofs.OptDagPatterns
/-!
Soundness of every pattern decision (`decideReshape`, …, `decideCast`, `firstMatch`) on an evaluated store, from
the laws `Sem.Laws`.
-/
namespace Einx.OptDag
variable {V : Type}

theorem argAt_ok (a : App) (k : Nat) (v : List Tok) (h : argAt a k = .ok v) : a.args[k]? = some v := by
  unfold argAt at h
  split at h
  · simp only [pure, Except.pure, Except.ok.injEq] at h
    subst h; assumption
  · cases h

theorem callOf_some_ref (S : Store) (v : List Tok) (pat : FnPat) (a : App) (h : S.callOf v pat = some a) : ∃ i, v = [.ref i] := by
  unfold Store.callOf at h
  split at h
  · exact ⟨_, rfl⟩
  · cases h

section
variable (Sm : Sem V) (S : Store) (pats : List Pattern) (bindO : List (Nat × V)) (envO : List V)
  (hO : EnvOK Sm S.nodes bindO envO) (hL : Sm.Laws pats)
include hO hL

/-- Everything the three unary patterns know about the call they look at. -/
theorem unaryCallOf_sound (pat : FnPat) (i : Nat) (a : App) (input lit : List Tok) (vo : V)
    (h : unaryCallOf S pat i = .ok (some (a, input, lit))) (hv : envO[i]? = some vo) :
    ∃ (ea : EApp V) (fi : Nat) (fv : V) (inE litE : List (RTok V)), a.pre = [[.ref fi]] ∧ envO[fi]? = some fv ∧
      IsFn Sm pat pat.path.reverse fv ∧ ea.head = .call ∧ ea.pre = [[.val fv]] ∧
      ea.args[0]? = some inE ∧ evalToks envO input = .ok inE ∧ ea.args[1]? = some litE ∧ evalToks envO lit = .ok litE ∧
      Sm.app ea = .ok vo := by
  unfold unaryCallOf at h
  split at h
  · cases h
  · rename_i a' hc
    obtain ⟨input', hi, h⟩ := bind_ok.1 h
    split at h
    · cases h
    · obtain ⟨lit', hl, h⟩ := bind_ok.1 h
      simp only [pure, Except.pure, Except.ok.injEq, Option.some.injEq, Prod.mk.injEq] at h
      obtain ⟨rfl, rfl, rfl⟩ := h
      obtain ⟨ty, fi, vo', ea, fv, hn, hhead, hpre, h1, h2, h3, h4, h5, h6⟩ := callOf_inv Sm S bindO envO hO pat i a' hc
      rw [hv] at h1
      have := Option.some.inj h1
      subst this
      obtain ⟨pre, args, kwargs, deps, _, hargs, _, _, rfl⟩ := (evalApp_ok envO a' ea).1 h2
      obtain ⟨inE, e1, e2⟩ := evalOperands_getElem envO _ _ 0 _ hargs (argAt_ok a' 0 _ hi)
      obtain ⟨litE, e3, e4⟩ := evalOperands_getElem envO _ _ 1 _ hargs (argAt_ok a' 1 _ hl)
      exact ⟨_, fi, fv, inE, litE, hpre, h4, h6, hhead, h5, e1, e2, e3, e4, h3⟩

omit hL in
theorem noopTest_true (input lit : List Tok) (test : List Nat → List Nat → Bool) (h : noopTest S input lit test = .ok true) :
    ∃ j s ishape, input = [.ref j] ∧ seqNats lit = some s ∧ test s ishape = true ∧ ∀ x, envO[j]? = some x → Sm.shapeOf x = some ishape := by
  unfold noopTest at h
  split at h
  · obtain ⟨ishape, hs, h2⟩ := bind_ok.1 h
    clear h
    obtain ⟨j, rfl, hj⟩ := shapeOf_sound Sm S bindO envO hO input ishape hs
    simp only [pure, Except.pure, Except.ok.injEq] at h2
    split at h2
    · rename_i s hs'
      exact ⟨j, s, ishape, rfl, hs', h2, hj⟩
    · cases h2
  · cases h

theorem innerCall_sound (pat : FnPat) (input : List Tok) (a2 : App) (h : innerCall S pat input = .ok (some a2)) :
    ∃ j j2, input = [.ref j] ∧ S.callOf [.ref j2] pat = some a2 ∧ ∀ x, envO[j]? = some x → envO[j2]? = some x := by
  unfold innerCall at h
  obtain ⟨input', hi, h2⟩ := bind_ok.1 h
  clear h
  simp only [pure, Except.pure, Except.ok.injEq] at h2
  obtain ⟨j2, rfl⟩ := callOf_some_ref S input' pat a2 h2
  obtain ⟨j, rfl, hj⟩ := skipId_ref Sm S pats bindO envO hO hL input j2 hi
  exact ⟨j, j2, rfl, h2, hj⟩

theorem decideReshape_sound (pat : FnPat) (hp : Pattern.skipReshape pat ∈ pats) (i : Nat) (act : Action) (vo : V)
    (h : decideReshape S pat i = .ok (some act)) (hv : envO[i]? = some vo) : ActOK Sm envO act vo := by
  unfold decideReshape at h
  obtain ⟨u, hu, h⟩ := bind_ok.1 h
  split at h
  · cases h
  · rename_i a input shape
    obtain ⟨ea, fi, fv, inE, litE, hpre, hfv, hfn, hhead, hepre, ha0, hin, ha1, hlit, happ⟩ :=
      unaryCallOf_sound Sm S pats bindO envO hO hL pat i a input shape vo hu hv
    obtain ⟨noop, hnoop, h⟩ := bind_ok.1 h
    split at h
    · -- no-op reshape
      rename_i hn
      simp only [pure, Except.pure, Except.ok.injEq, Option.some.injEq] at h
      subst h
      subst hn
      obtain ⟨j, s, ishape, rfl, hs, htest, hj⟩ := noopTest_true Sm S bindO envO hO input shape _ hnoop
      obtain ⟨x, hx, rfl⟩ := evalToks_ref_inv envO j inE hin
      have hse : s = ishape := by simpa [Extracted.reshapeNoop] using htest
      subst hse
      rw [evalToks_lits envO shape (seqNats_refFree shape s hs)] at hlit
      cases hlit
      have := hL.reshape_noop pat hp ea x vo shape s ⟨hhead, fv, hepre, hfn⟩ ha0 ha1 hs (hj x hx) happ
      subst this
      exact evalToks_ref envO j _ hx
    · -- merge with an inner reshape
      obtain ⟨inner, hinner, h⟩ := bind_ok.1 h
      split at h
      · rename_i a2
        obtain ⟨ioi, hioi, h⟩ := bind_ok.1 h
        split at h
        · rename_i f hf
          split at h
          · simp only [pure, Except.pure, Except.ok.injEq, Option.some.injEq] at h
            subst h
            obtain ⟨j, j2, rfl, hc2, hjj⟩ := innerCall_sound Sm S pats bindO envO hO hL pat input a2 hinner
            obtain ⟨x, hx, rfl⟩ := evalToks_ref_inv envO j inE hin
            obtain ⟨ty2, fi2, y, ea2, fv2, hn2, hhead2, hpre2, hy, hev2, happ2, hfv2, hepre2, hfn2⟩ :=
              callOf_inv Sm S bindO envO hO pat j2 a2 hc2
            rw [hjj x hx] at hy
            have := Option.some.inj hy
            subst this
            obtain ⟨pre, args, kwargs, deps, _, hargs, _, _, rfl⟩ := (evalApp_ok envO a2 ea2).1 hev2
            obtain ⟨xE, e1, e2⟩ := evalOperands_getElem envO _ _ 0 _ hargs (argAt_ok a2 0 _ hioi)
            rw [hpre] at hf
            simp only [List.cons.injEq, and_true] at hf
            subst hf
            refine ⟨fv, xE, evalToks_ref envO fi fv hfv, e2, ?_⟩
            intro hfree
            rw [evalToks_lits envO shape hfree] at hlit
            cases hlit
            exact hL.reshape_merge pat hp _ ea fv xE x vo shape ⟨hhead2, fv2, hepre2, hfn2⟩ e1 happ2 hhead hepre hfn ha0 ha1 happ
          · cases h
        · cases h
      · cases h

theorem decideTranspose_sound (pat : FnPat) (hp : Pattern.skipTranspose pat ∈ pats) (i : Nat) (act : Action) (vo : V)
    (h : decideTranspose S pat i = .ok (some act)) (hv : envO[i]? = some vo) : ActOK Sm envO act vo := by
  unfold decideTranspose at h
  obtain ⟨u, hu, h⟩ := bind_ok.1 h
  split at h
  · cases h
  · rename_i a input perm
    obtain ⟨ea, fi, fv, inE, litE, hpre, hfv, hfn, hhead, hepre, ha0, hin, ha1, hlit, happ⟩ :=
      unaryCallOf_sound Sm S pats bindO envO hO hL pat i a input perm vo hu hv
    obtain ⟨noop, hnoop, h⟩ := bind_ok.1 h
    split at h
    · rename_i hn
      simp only [pure, Except.pure, Except.ok.injEq, Option.some.injEq] at h
      subst h
      subst hn
      obtain ⟨j, p, ishape, rfl, hs, htest, hj⟩ := noopTest_true Sm S bindO envO hO input perm _ hnoop
      obtain ⟨x, hx, rfl⟩ := evalToks_ref_inv envO j inE hin
      rw [evalToks_lits envO perm (seqNats_refFree perm p hs)] at hlit
      cases hlit
      have := hL.transpose_noop pat hp ea x vo perm p ishape ⟨hhead, fv, hepre, hfn⟩ ha0 ha1 hs (hj x hx) htest happ
      subst this
      exact evalToks_ref envO j _ hx
    · obtain ⟨inner, hinner, h⟩ := bind_ok.1 h
      split at h
      · rename_i a2
        obtain ⟨ioi, hioi, h⟩ := bind_ok.1 h
        obtain ⟨perm1, hperm1, h⟩ := bind_ok.1 h
        split at h
        · rename_i p1 p2 hp1 hp2
          split at h
          · rename_i p hc
            split at h
            · rename_i f hf
              split at h
              · simp only [pure, Except.pure, Except.ok.injEq, Option.some.injEq] at h
                subst h
                obtain ⟨j, j2, rfl, hc2, hjj⟩ := innerCall_sound Sm S pats bindO envO hO hL pat input a2 hinner
                obtain ⟨x, hx, rfl⟩ := evalToks_ref_inv envO j inE hin
                obtain ⟨ty2, fi2, y, ea2, fv2, hn2, hhead2, hpre2, hy, hev2, happ2, hfv2, hepre2, hfn2⟩ :=
                  callOf_inv Sm S bindO envO hO pat j2 a2 hc2
                rw [hjj x hx] at hy
                have := Option.some.inj hy
                subst this
                obtain ⟨pre, args, kwargs, deps, _, hargs, _, _, rfl⟩ := (evalApp_ok envO a2 ea2).1 hev2
                obtain ⟨xE, e1, e2⟩ := evalOperands_getElem envO _ _ 0 _ hargs (argAt_ok a2 0 _ hioi)
                obtain ⟨p1E, e3, e4⟩ := evalOperands_getElem envO _ _ 1 _ hargs (argAt_ok a2 1 _ hperm1)
                rw [evalToks_lits envO perm1 (seqNats_refFree perm1 p1 hp1)] at e4
                cases e4
                rw [evalToks_lits envO perm (seqNats_refFree perm p2 hp2)] at hlit
                cases hlit
                rw [hpre] at hf
                simp only [List.cons.injEq, and_true] at hf
                subst hf
                refine ⟨fv, xE, evalToks_ref envO fi fv hfv, e2, ?_⟩
                intro _
                exact hL.transpose_merge pat hp _ ea fv xE x vo perm1 perm p1 p2 p ⟨hhead2, fv2, hepre2, hfn2⟩ e1 e3 happ2
                  hhead hepre hfn ha0 ha1 happ hp1 hp2 hc
              · cases h
            · cases h
          · cases h
        · cases h
      · cases h

theorem decideBroadcast_sound (pat : FnPat) (hp : Pattern.skipBroadcastTo pat ∈ pats) (i : Nat) (act : Action) (vo : V)
    (h : decideBroadcast S pat i = .ok (some act)) (hv : envO[i]? = some vo) : ActOK Sm envO act vo := by
  unfold decideBroadcast at h
  obtain ⟨u, hu, h⟩ := bind_ok.1 h
  split at h
  · cases h
  · rename_i a input shape
    obtain ⟨ea, fi, fv, inE, litE, hpre, hfv, hfn, hhead, hepre, ha0, hin, ha1, hlit, happ⟩ :=
      unaryCallOf_sound Sm S pats bindO envO hO hL pat i a input shape vo hu hv
    obtain ⟨noop, hnoop, h⟩ := bind_ok.1 h
    split at h
    · rename_i hn
      simp only [pure, Except.pure, Except.ok.injEq, Option.some.injEq] at h
      subst h
      subst hn
      obtain ⟨j, s, ishape, rfl, hs, htest, hj⟩ := noopTest_true Sm S bindO envO hO input shape _ hnoop
      obtain ⟨x, hx, rfl⟩ := evalToks_ref_inv envO j inE hin
      have hse : s = ishape := by simpa [Extracted.broadcastNoop] using htest
      subst hse
      rw [evalToks_lits envO shape (seqNats_refFree shape s hs)] at hlit
      cases hlit
      have := hL.broadcast_noop pat hp ea x vo shape s ⟨hhead, fv, hepre, hfn⟩ ha0 ha1 hs (hj x hx) happ
      subst this
      exact evalToks_ref envO j _ hx
    · cases h

theorem decideConcat_sound (pat : FnPat) (hp : Pattern.skipConcatenate pat ∈ pats) (i : Nat) (act : Action) (vo : V)
    (h : decideConcat S pat i = .ok (some act)) (hv : envO[i]? = some vo) : ActOK Sm envO act vo := by
  unfold decideConcat at h
  split at h
  · cases h
  · rename_i a hc
    obtain ⟨tensors, ht, h⟩ := bind_ok.1 h
    obtain ⟨ty, fi, vo', ea, fv, hn, hhead, hpre, h1, h2, h3, h4, h5, h6⟩ := callOf_inv Sm S bindO envO hO pat i a hc
    rw [hv] at h1
    have := Option.some.inj h1
    subst this
    obtain ⟨pre, args, kwargs, deps, _, hargs, _, _, rfl⟩ := (evalApp_ok envO a ea).1 h2
    obtain ⟨tE, e1, e2⟩ := evalOperands_getElem envO _ _ 0 _ hargs (argAt_ok a 0 _ ht)
    have key : ∀ (c : CKind) (n : Nat) (rest : List Tok), (c = .tuple ∨ c = .list) → tensors = .open_ c n :: rest →
        Extracted.concatNoop n = true → evalToks envO rest = .ok [.val vo] := by
      intro c n rest hc' hte hn1
      subst hte
      have hn' : n = 1 := by simpa [Extracted.concatNoop] using hn1
      subst hn'
      obtain ⟨r, es, e3, e4, rfl⟩ := (evalToks_cons envO _ _ _).1 e2
      simp only [evalTok, pure, Except.pure, Except.ok.injEq] at e3
      subst e3
      have := hL.concat_noop pat hp _ vo c es ⟨hhead, fv, h5, h6⟩ e1 hc' h3
      subst this
      exact e4
    split at h
    · rename_i n rest
      split at h
      · rename_i hn1
        simp only [pure, Except.pure, Except.ok.injEq, Option.some.injEq] at h
        subst h
        exact key .tuple n rest (Or.inl rfl) rfl hn1
      · cases h
    · rename_i n rest
      split at h
      · rename_i hn1
        simp only [pure, Except.pure, Except.ok.injEq, Option.some.injEq] at h
        subst h
        exact key .list n rest (Or.inr rfl) rfl hn1
      · cases h
    · cases h

theorem decideCast_sound (i : Nat) (act : Action) (vo : V)
    (h : decideCast S i = .ok (some act)) (hv : envO[i]? = some vo) : ActOK Sm envO act vo := by
  unfold decideCast at h
  split at h
  · rename_i a base k ha
    obtain ⟨ty, hn, rfl, rfl⟩ := appOf_inv Sm S bindO envO hO i a base k ha
    split at h
    · rename_i hc
      split at h
      · rename_i j hp
        split at h
        · simp only [pure, Except.pure, Except.ok.injEq, Option.some.injEq] at h
          subst h
          obtain ⟨vo', ea, h1, h2, h3, hout, _, _⟩ := old_app Sm S bindO envO hO i _ a hn
          rw [hv] at h1
          have := Option.some.inj h1
          subst this
          obtain ⟨pre, args, kwargs, deps, hpre, _, _, _, rfl⟩ := (evalApp_ok envO a ea).1 h2
          rw [hp] at hpre
          obtain ⟨rs, rss, e1, e2, rfl⟩ := (evalOperands_cons envO _ _ _).1 hpre
          rw [evalOperands_nil] at e2; cases e2
          obtain ⟨m, hm, rfl⟩ := evalToks_ref_inv envO j rs e1
          have e := hL.cast_id _ m vo (by simpa using hc) rfl hout h3
          subst e
          exact evalToks_ref envO j _ hm
        · cases h
      · cases h
    · cases h
  · cases h

/-- **Every pattern decision is sound**: the first pattern of a sub-list of the pattern list that fires on tracer `i`
returns an action that has the value of tracer `i`. -/
theorem firstMatch_sound (fuel : Nat) : ∀ (ps : List Pattern), (∀ p ∈ ps, p ∈ pats) → ∀ (i : Nat) (act : Action) (vo : V),
    firstMatch S fuel ps (.ref i) = .ok (some act) → envO[i]? = some vo → ActOK Sm envO act vo
  | [], _, i, act, vo, h, _ => by simp [firstMatch, pure, Except.pure] at h
  | p :: ps, hps, i, act, vo, h, hv => by
    unfold firstMatch at h
    obtain ⟨r, hr, h⟩ := bind_ok.1 h
    split at h
    · rename_i act'
      simp only [pure, Except.pure, Except.ok.injEq, Option.some.injEq] at h
      subst h
      have hp := hps p (by simp)
      cases p with
      | skipReshape pat => exact decideReshape_sound Sm S pats bindO envO hO hL pat hp i _ vo (by simpa [Pattern.decide] using hr) hv
      | skipTranspose pat => exact decideTranspose_sound Sm S pats bindO envO hO hL pat hp i _ vo (by simpa [Pattern.decide] using hr) hv
      | skipBroadcastTo pat => exact decideBroadcast_sound Sm S pats bindO envO hO hL pat hp i _ vo (by simpa [Pattern.decide] using hr) hv
      | skipConcatenate pat => exact decideConcat_sound Sm S pats bindO envO hO hL pat hp i _ vo (by simpa [Pattern.decide] using hr) hv
      | inlineGraph => simp [Pattern.decide, pure, Except.pure] at hr
      | skipCast => exact decideCast_sound Sm S pats bindO envO hO hL i _ vo (by simpa [Pattern.decide] using hr) hv
    · exact firstMatch_sound fuel ps (fun q hq => hps q (by simp [hq])) i act vo h hv

end

end Einx.OptDag
