import EinxModel.Proofs.NotationPrintDefs
import EinxModel.Proofs.NotationSimBack
import EinxModel.Proofs.NotationFresh
/-!
# M1 Notation — the inconsistent-brackets check on a re-parsed printable expression

If `x` has the shape of a printable `t` (named axes with valid names), all numeric axes of `x` carry pairwise distinct fresh
names `unnamed.<id>`, and `t` passes the inconsistent-brackets check, then so does `x`.
-/
namespace Einx.Notation

/-- Signature of an axis occurrence: its name if it is a named axis, and whether it stands inside brackets. -/
abbrev OccSig := Option Str × Bool

mutual
def sig (m : Bool) : Expr → List OccSig
  | .axis n v _ _ => [(match v with | none => some n | some _ => none, m)]
  | .flat i _ _ => sig m i
  | .brackets i _ _ => sig true i
  | .ellipsis i _ _ _ => sig m i
  | .concat cs _ _ | .list cs _ _ | .args cs _ _ | .op cs _ _ => sigL m cs
def sigL (m : Bool) : List Expr → List OccSig
  | [] => []
  | c :: cs => sig m c ++ sigL m cs
end

mutual
theorem sig_shape (m : Bool) : ∀ (x : Expr), sig m x.shape = sig m x
  | .axis n v _ _ => by cases v <;> simp [Expr.shape, sig]
  | .flat i _ _ => by simp only [Expr.shape, sig, sig_shape m i]
  | .brackets i _ _ => by simp only [Expr.shape, sig, sig_shape true i]
  | .ellipsis i _ _ _ => by simp only [Expr.shape, sig, sig_shape m i]
  | .concat cs _ _ => by simp only [Expr.shape, sig, sigL_shape m cs]
  | .list cs _ _ => by simp only [Expr.shape, sig, sigL_shape m cs]
  | .args cs _ _ => by simp only [Expr.shape, sig, sigL_shape m cs]
  | .op cs _ _ => by simp only [Expr.shape, sig, sigL_shape m cs]
theorem sigL_shape (m : Bool) : ∀ (cs : List Expr), sigL m (shapeL cs) = sigL m cs
  | [] => rfl
  | c :: cs => by simp only [shapeL, sigL, sig_shape m c, sigL_shape m cs]
end

/-- An occurrence matches a signature; numeric axes have a fresh name. -/
def OccMatch (fresh : Bool) (o : Occ) (s : OccSig) : Prop :=
  o.marked = s.2 ∧ (match s.1 with | some n => o.name = n | none => fresh = true → ∃ q, o.name = unnamedName q)

mutual
theorem occs_sig (fresh : Bool) : ∀ (x : Expr), (fresh = true → ValuedFresh x) → ∀ (br : List Int) (m : Bool),
    PW (OccMatch fresh) (occs br m x) (sig m x)
  | .axis n v _ _, h, br, m => by
    simp only [occs, sig]
    refine PW.cons ⟨rfl, ?_⟩ PW.nil
    cases v with
    | none => rfl
    | some k =>
      intro hf
      have := h hf
      simp only [ValuedFresh] at this
      exact this (by simp)
  | .flat i _ _, h, br, m => by
    simp only [occs, sig]
    exact occs_sig fresh i (fun hf => by have := h hf; simpa only [ValuedFresh] using this) br m
  | .brackets i _ _, h, br, m => by
    simp only [occs, sig]
    exact occs_sig fresh i (fun hf => by have := h hf; simpa only [ValuedFresh] using this) _ true
  | .ellipsis i _ _ _, h, br, m => by
    simp only [occs, sig]
    exact occs_sig fresh i (fun hf => by have := h hf; simpa only [ValuedFresh] using this) br m
  | .concat cs _ _, h, br, m => by
    simp only [occs, sig]
    exact occsL_sig fresh cs (fun hf => by have := h hf; simpa only [ValuedFresh] using this) br m
  | .list cs _ _, h, br, m => by
    simp only [occs, sig]
    exact occsL_sig fresh cs (fun hf => by have := h hf; simpa only [ValuedFresh] using this) br m
  | .args cs _ _, h, br, m => by
    simp only [occs, sig]
    exact occsL_sig fresh cs (fun hf => by have := h hf; simpa only [ValuedFresh] using this) br m
  | .op cs _ _, h, br, m => by
    simp only [occs, sig]
    exact occsL_sig fresh cs (fun hf => by have := h hf; simpa only [ValuedFresh] using this) br m
theorem occsL_sig (fresh : Bool) : ∀ (cs : List Expr), (fresh = true → ValuedFreshL cs) → ∀ (br : List Int) (m : Bool),
    PW (OccMatch fresh) (occsL br m cs) (sigL m cs)
  | [], _, _, _ => PW.nil
  | c :: cs, h, br, m => by
    simp only [occsL, sigL]
    exact PW.append (occs_sig fresh c (fun hf => (by have := h hf; simpa only [ValuedFreshL] using this : _ ∧ _).1) br m)
      (occsL_sig fresh cs (fun hf => (by have := h hf; simpa only [ValuedFreshL] using this : _ ∧ _).2) br m)
end

/-- Signatures of a printable expression: names are valid axis names or the anonymous one. -/
def GoodSig (s : OccSig) : Prop :=
  match s.1 with
  | none => True
  | some n => isAxisName n = true ∨ n = anonName

mutual
theorem sig_PT (inBr al : Bool) : ∀ (a : Expr), PT inBr al a = true → ∀ s ∈ sig inBr a, GoodSig s
  | .axis n v _ _, h, s, hs => by
    simp only [sig, List.mem_singleton] at hs
    subst hs
    cases v with
    | none => simp only [PT] at h; exact Or.inl h
    | some k => simp only [GoodSig]
  | .flat i _ _, h, s, hs => by
    simp only [PT, Bool.and_eq_true] at h
    simp only [sig] at hs
    exact sig_PT inBr true i h.2 s hs
  | .brackets i _ _, h, s, hs => by
    simp only [PT, Bool.and_eq_true] at h
    simp only [sig] at hs
    exact sig_PT true true i h.2 s hs
  | .ellipsis i _ _ _, h, s, hs => by
    simp only [PT, Bool.or_eq_true, Bool.and_eq_true] at h
    simp only [sig] at hs
    rcases h with h | ⟨_, hi⟩
    · cases i with
      | axis n v b e =>
        cases v with
        | none =>
          simp only [isAnonAxisNone, beq_iff_eq] at h
          simp only [sig, List.mem_singleton] at hs
          subst hs
          exact Or.inr h
        | some k => simp [isAnonAxisNone] at h
      | _ => simp [isAnonAxisNone] at h
    · exact sig_PT inBr false i hi s hs
  | .concat cs _ _, h, s, hs => by
    simp only [PT, Bool.and_eq_true] at h
    simp only [sig] at hs
    exact sigL_PTL inBr cs h.2 s hs
  | .list cs _ _, h, s, hs => by
    simp only [PT, Bool.and_eq_true] at h
    simp only [sig] at hs
    exact sigL_PTL inBr cs h.2 s hs
  | .args .., h, _, _ => by simp [PT] at h
  | .op .., h, _, _ => by simp [PT] at h
theorem sigL_PTL (inBr : Bool) : ∀ (cs : List Expr), PTL inBr cs = true → ∀ s ∈ sigL inBr cs, GoodSig s
  | [], _, s, hs => by simp [sigL] at hs
  | c :: cs, h, s, hs => by
    simp only [PTL, Bool.and_eq_true] at h
    simp only [sigL, List.mem_append] at hs
    rcases hs with hs | hs
    · exact sig_PT inBr false c h.1 s hs
    · exact sigL_PTL inBr cs h.2 s hs
end

theorem sigL_of_all {P : Expr → Prop} (hP : ∀ c, P c → ∀ s ∈ sig false c, GoodSig s) :
    ∀ (cs : List Expr), (∀ c ∈ cs, P c) → ∀ s ∈ sigL false cs, GoodSig s
  | [], _, s, hs => by simp [sigL] at hs
  | c :: cs, h, s, hs => by
    simp only [sigL, List.mem_append] at hs
    rcases hs with hs | hs
    · exact hP c (h c (by simp)) s hs
    · exact sigL_of_all hP cs (fun a ha => h a (List.mem_cons_of_mem _ ha)) s hs

theorem sig_PArgs (a : Expr) (h : PArgs a = true) : ∀ s ∈ sig false a, GoodSig s := by
  cases a with
  | args as b e =>
    simp only [PArgs, Bool.and_eq_true, List.all_eq_true] at h
    intro s hs
    simp only [sig] at hs
    exact sigL_of_all (P := fun c => PT false true c = true) (sig_PT false true) as h.2 s hs
  | _ => simp [PArgs] at h

theorem sig_PRoot (t : Expr) (h : PRoot t = true) : ∀ s ∈ sig false t, GoodSig s := by
  cases t with
  | op cs b e =>
    simp only [PRoot, Bool.and_eq_true, List.all_eq_true] at h
    intro s hs
    simp only [sig] at hs
    exact sigL_of_all (P := fun c => PArgs c = true) sig_PArgs cs h.2 s hs
  | _ => simp [PRoot] at h

/-! ### `preTree` has the same signatures -/

theorem sig_unwrapArgs (m : Bool) (a : Expr) : sig m (unwrapArgs a) = sig m a := by
  unfold unwrapArgs
  split
  · simp only [sig, sigL, List.append_nil]
  · rfl

theorem sigL_map_unwrapArgs (m : Bool) : ∀ cs : List Expr, sigL m (cs.map unwrapArgs) = sigL m cs
  | [] => rfl
  | c :: cs => by simp only [List.map_cons, sigL, sig_unwrapArgs, sigL_map_unwrapArgs m cs]

theorem sig_preTree (m : Bool) (t : Expr) : sig m (preTree t) = sig m t := by
  unfold preTree
  split
  · simp only [sig, sigL, List.append_nil, sig_unwrapArgs]
  · simp only [sig, sigL_map_unwrapArgs]
  · rfl

/-! ### Transfer of the check -/

theorem anonName_ne_unnamed (q : Nat) : anonName ≠ unnamedName q := by
  intro h
  have : anonName.head? = (unnamedName q).head? := by rw [h]
  revert this
  simp [anonName, unnamedName, lit, Einx.Extracted.anonymousVariableName]

/-- If `x` has the shape of `preTree t` for a printable `t`, its numeric axes carry fresh names, and `t` has no axis name
    both inside and outside brackets, then neither has `x`. -/
theorem conflict_free_of_shape {t x : Expr} (ht : PRoot t = true) (hx : x.shape = (preTree t).shape) (hf : ValuedFresh x)
    (hG : G true true true x = true) (hnd : (Fresh.vnames x).Nodup)
    (hc : conflictNames (occs [] false t) = []) : conflictNames (occs [] false x) = [] := by
  apply Classical.byContradiction
  intro hne
  obtain ⟨o1, ho1, o2, ho2, hn, hm1, hm2⟩ := (conflictNames_ne_nil_iff _).mp hne
  have hsig : sig false x = sig false t := by
    rw [← sig_shape, hx, sig_shape, sig_preTree]
  have hX := occs_sig true x (fun _ => hf) [] false
  have hT := occs_sig false t (fun h => by cases h) [] false
  rw [hsig] at hX
  obtain ⟨s1, hs1, hr1⟩ := PW.mem_left hX o1 ho1
  obtain ⟨s2, hs2, hr2⟩ := PW.mem_left hX o2 ho2
  have hg1 := sig_PRoot t ht s1 hs1
  have hg2 := sig_PRoot t ht s2 hs2
  obtain ⟨p1, hp1, hq1⟩ := PW.mem_right hT s1 hs1
  obtain ⟨p2, hp2, hq2⟩ := PW.mem_right hT s2 hs2
  obtain ⟨s1n, s1m⟩ := s1
  obtain ⟨s2n, s2m⟩ := s2
  simp only [OccMatch] at hr1 hr2 hq1 hq2
  simp only [GoodSig] at hg1 hg2
  cases s1n with
  | none =>
    -- a numeric axis inside brackets: its fresh name determines the occurrence
    simp only at hr1
    obtain ⟨q, hq⟩ := hr1.2 trivial
    have := Fresh.fresh_unique true true true x hG hnd [] false o1 ho1 o2 ho2 q hq hn.symm
    rw [this, hm2] at hm1
    cases hm1
  | some n1 =>
    simp only at hr1 hq1 hg1
    cases s2n with
    | none =>
      simp only at hr2
      obtain ⟨q, hq⟩ := hr2.2 trivial
      have : n1 = unnamedName q := by rw [← hr1.2, hn, hq]
      rcases hg1 with hg1 | hg1
      · exact isAxisName_not_dot hg1 (this ▸ unnamedName_mem_dot q)
      · exact anonName_ne_unnamed q (hg1 ▸ this)
    | some n2 =>
      simp only at hr2 hq2
      have hcon : Conflict (occs [] false t) :=
        ⟨p1, hp1, p2, hp2, by rw [hq1.2, hq2.2, ← hr1.2, ← hr2.2, hn], by rw [hq1.1, ← hr1.1, hm1],
          by rw [hq2.1, ← hr2.1, hm2]⟩
      exact (conflictNames_ne_nil_iff _).mpr hcon hc

end Einx.Notation
